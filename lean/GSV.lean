-- Root of the GSV library: core-only part (Scalar, Ctl, generated kernels, models) and the
-- Mathlib-based part (RealInst, Lemmas, Props).
import GSV.Scalar
import GSV.Ctl
import GSV.Gen.Summator
import GSV.Gen.Krigesum
import GSV.Gen.Estimator
import GSV.Lemmas.Ctl
import GSV.Props.KernelSummate
import GSV.Props.KernelKrige
import GSV.Props.KernelVario
import GSV.RealInst
import GSV.Props.C08
import GSV.Props.C05
import GSV.Props.C06
import GSV.Props.C07
import GSV.Props.C11
import GSV.Props.C09
import GSV.Props.C01
