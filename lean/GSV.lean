-- Root of the GSV library: the core-Lean part (scalar interface, control combinators, generated
-- kernels, hand-written models).  The Mathlib-based property modules GSV.Props.* are built one by one
-- from the list in vlib/registry/*.json (see setup.sh), never imported wholesale.
import GSV.Scalar
import GSV.Ctl
import GSV.Gen.Summator
import GSV.Gen.Krigesum
import GSV.Gen.Estimator
import GSV.PyExpr
import GSV.Gen.NormFormulas
import GSV.Gen.CorFormulas
import GSV.Gen.SpectralFormulas
import GSV.Gen.TransformFormulas
import GSV.Model.All
