/-
  Correspondence driver: reads one JSON operation per line on stdin, runs the *same* model
  definitions the theorems are about (generated kernels on `Float`, hand-written models on
  `Float` / `Rat`) and prints one JSON result per line.  Core Lean only (no Mathlib), so it can be
  compiled (`lake build gsvdriver`) or interpreted (`lake env lean --run Driver.lean`).
-/
import GSV.Proto
import GSV.Gen.Summator
import GSV.Gen.Krigesum
import GSV.Gen.Estimator
import GSV.Model.All
open Lean GSV GSV.Proto

def seqSched : Sched := id
def revSched : Sched := List.reverse
/-- a deterministic non-trivial reordering: odd positions first, then even positions reversed -/
def mixSched : Sched := fun l =>
  let idx := l.zipIdx
  (idx.filter (fun p => p.2 % 2 == 1)).map (·.1) ++ ((idx.filter (fun p => p.2 % 2 == 0)).map (·.1)).reverse

def pickSched (j : Json) : Sched :=
  match j.getObjVal? "sched" with
  | .ok (Json.str "rev") => revSched
  | .ok (Json.str "mix") => mixSched
  | _ => seqSched

def kernelOp (op : String) (j : Json) : Except String Json := do
  let sched := pickSched j
  match op with
  | "summate" =>
    let dim ← getNat j "dim"; let n ← getNat j "N"; let x ← getNat j "X"
    let cov ← getFloats j "cov"; let z1 ← getFloats j "z1"; let z2 ← getFloats j "z2"; let pos ← getFloats j "pos"
    let r := Summator.summate sched (ofList2 cov n) dim n (ofList z1) n (ofList z2) n (ofList2 pos x) dim x
    return fl (tab r x)
  | "summate_fourier" =>
    let dim ← getNat j "dim"; let n ← getNat j "N"; let x ← getNat j "X"
    let sf ← getFloats j "sf"
    let cov ← getFloats j "cov"; let z1 ← getFloats j "z1"; let z2 ← getFloats j "z2"; let pos ← getFloats j "pos"
    let r := Summator.summate_fourier sched (ofList sf) n (ofList2 cov n) dim n (ofList z1) n (ofList z2) n (ofList2 pos x) dim x
    return fl (tab r x)
  | "summate_incompr" =>
    let dim ← getNat j "dim"; let n ← getNat j "N"; let x ← getNat j "X"
    let cov ← getFloats j "cov"; let z1 ← getFloats j "z1"; let z2 ← getFloats j "z2"; let pos ← getFloats j "pos"
    let r := Summator.summate_incompr (ofList2 cov n) dim n (ofList z1) n (ofList z2) n (ofList2 pos x) dim x
    return fl2 (tab2 r dim x)
  | "krige_fv" =>
    let m ← getNat j "M"; let r ← getNat j "R"
    let mat ← getFloats j "mat"; let vecs ← getFloats j "vecs"; let cond ← getFloats j "cond"
    let (f, e) := Krigesum.calc_field_krige_and_variance sched (ofList2 mat m) m m (ofList2 vecs r) m r (ofList cond) m
    return Json.arr #[fl (tab f r), fl (tab e r)]
  | "krige_f" =>
    let m ← getNat j "M"; let r ← getNat j "R"
    let mat ← getFloats j "mat"; let vecs ← getFloats j "vecs"; let cond ← getFloats j "cond"
    let f := Krigesum.calc_field_krige sched (ofList2 mat m) m m (ofList2 vecs r) m r (ofList cond) m
    return fl (tab f r)
  | "unstructured" =>
    let dim ← getNat j "dim"; let np ← getNat j "P"; let nf ← getNat j "F"; let nb ← getNat j "B"
    let f ← getFloats j "f"; let be ← getFloats j "bins"; let pos ← getFloats j "pos"
    let et ← getStr j "est"; let dt ← getStr j "dist"
    match Estimator.unstructured.guard (ofList2 f np) nf np (ofList be) nb (ofList2 pos np) dim np et dt with
    | some e => return Json.str e
    | none =>
      let (v, c) := Estimator.unstructured sched (ofList2 f np) nf np (ofList be) nb (ofList2 pos np) dim np et dt
      return Json.arr #[fl (tab v (nb - 1)), il (tab c (nb - 1))]
  | "directional" =>
    let dim ← getNat j "dim"; let np ← getNat j "P"; let nf ← getNat j "F"; let nb ← getNat j "B"; let nd ← getNat j "D"
    let f ← getFloats j "f"; let be ← getFloats j "bins"; let pos ← getFloats j "pos"; let dir ← getFloats j "dir"
    let tol ← getFloat j "tol"; let bw ← getFloat j "bw"; let sep ← getBool j "sep"
    let et ← getStr j "est"
    match Estimator.directional.guard (ofList2 f np) nf np (ofList be) nb (ofList2 pos np) dim np (ofList2 dir dim) nd dim tol bw sep et with
    | some e => return Json.str e
    | none =>
      let (v, c) := Estimator.directional sched (ofList2 f np) nf np (ofList be) nb (ofList2 pos np) dim np (ofList2 dir dim) nd dim tol bw sep et
      return Json.arr #[fl2 (tab2 v nd (nb - 1)), il2 (tab2 c nd (nb - 1))]
  | "structured" =>
    let n0 ← getNat j "n0"; let n1 ← getNat j "n1"
    let f ← getFloats j "f"; let et ← getStr j "est"
    let v := Estimator.structured sched (ofList2 f n1) n0 n1 et
    return fl (tab v (n0 - 1 + 1))
  | "ma_structured" =>
    let n0 ← getNat j "n0"; let n1 ← getNat j "n1"
    let f ← getFloats j "f"; let et ← getStr j "est"; let mask ← getNats j "mask"
    let v := Estimator.ma_structured sched (ofList2 f n1) n0 n1 (ofList2 mask n1) n0 n1 et
    return fl (tab v (n0 - 1 + 1))
  | _ => throw s!"unknown op {op}"

def handle (line : String) : String :=
  match Json.parse line with
  | .error e => (Json.mkObj [("error", Json.str s!"parse: {e}")]).compress
  | .ok j =>
    match getStr j "op" with
    | .error e => (Json.mkObj [("error", Json.str e)]).compress
    | .ok op =>
      let r := match GSV.Model.modelOp op j with
        | some r => r
        | none => kernelOp op j
      match r with
      | .ok v => v.compress
      | .error e => (Json.mkObj [("error", Json.str e)]).compress

partial def loop (h : IO.FS.Stream) (out : IO.FS.Stream) : IO Unit := do
  let line ← h.getLine
  if line.isEmpty then return ()
  let t := line.trimAscii.toString
  if !t.isEmpty then
    out.putStrLn (handle t)
  loop h out

def main : IO Unit := do
  let out ← IO.getStdout
  loop (← IO.getStdin) out
  out.flush
