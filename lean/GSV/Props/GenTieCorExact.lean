/-
  Tie A for the closed-form correlation functions (C03), EXACT form — informative, not an obligation of `./check C03`.

  The kernels of `GSV.Model.CovFn` are equal to the definitions regenerated from `covmodel/models.py` / `tpl_models.py`
  (`GSV/Gen/CorFormulas.lean`) on EVERY carrier `α` by `rfl`: the two texts have the same operator tree
  (`np.minimum / np.maximum` are the model's `fmin / fmax`, the boolean-mask assignment of `Circular.cor` is the model's
  `if`), hence also on `Float`.  Brittle by design: a behaviour-preserving regrouping of a source formula breaks the
  `rfl`.  The registered obligations are the `ℝ`-level theorems `GSV.Props.GenTieCor.*_eq_model_real`; the theorems of
  this file are audited on every run and reported under `coverage.informative` of the evidence.
-/
import GSV.Props.GenTieCor

set_option linter.unusedSectionVars false

namespace GSV.Props.GenTieCorExact
open GSV GSV.Transc GSV.PyExpr GSV.Model.CovFn GSV.Gen.CorFormulas GSV.Props.GenTieCor

variable {α : Type} [Arith α] [Transc α] [DecidableLT α] [DecidableLE α]

/-! ### elementary `cor` methods: same text as the model, on every carrier -/

theorem Gaussian_cor_eq_model (h : α) : Gaussian.cor h = gaussianCor h := rfl
theorem Exponential_cor_eq_model (h : α) : Exponential.cor h = exponentialCor h := rfl
theorem Stable_cor_eq_model (alpha h : α) : Stable.cor alpha h = stableCor alpha h := rfl
theorem Rational_cor_eq_model (alpha h : α) : Rational.cor alpha h = rationalCor alpha h := rfl
theorem Cubic_cor_eq_model (h : α) : Cubic.cor h = cubicCor h := rfl
theorem Linear_cor_eq_model (h : α) : Linear.cor h = linearCor h := rfl
theorem Circular_cor_eq_model (h : α) : Circular.cor h = circularCor h := rfl
theorem Spherical_cor_eq_model (h : α) : Spherical.cor h = sphericalCor h := rfl
theorem TPLSimple_cor_eq_model (nu h : α) : TPLSimple.cor nu h = tplSimpleCor nu h := rfl

/-! ### closed forms of `calc_integral_scale` (`self.len_rescaled` is `lenRescaled p`) -/

theorem Gaussian_calc_integral_scale_eq_model (p : Par α) :
    Gaussian.calc_integral_scale (lenRescaled p) = gaussianCalcIS p := rfl
theorem Exponential_calc_integral_scale_eq_model (p : Par α) :
    Exponential.calc_integral_scale (lenRescaled p) = exponentialCalcIS p := rfl
theorem Integral_calc_integral_scale_eq_model (nu : α) (p : Par α) :
    Integral.calc_integral_scale (lenRescaled p) nu = integralCalcIS nu p := rfl

/-! ### plumbing around the scipy call, on every carrier -/

/-- `SuperSpherical.cor` with a natural `nu = n`: if `hyp2f1(0.5, -n, 1.5, ·)` is the terminating series
    (`hyp2f1HalfNegNat n`, proved to be Mathlib's `₂F₁` in `C03.superSpherical_nat_is_hypergeometric`), the
    method is the model's `superSphericalNatCor n` — mask `h < 1`, `fac = 1 / F(1)`, `1 - h * fac * F(h²)`. -/
theorem SuperSpherical_cor_eq_model (sps : Sps α) (n : Nat)
    (H : ∀ x : α, sps.hyp2f1 (0.5:α) (-((n:Nat):α)) (1.5:α) x = hyp2f1HalfNegNat n x) (h : α) :
    SuperSpherical.cor sps ((n:Nat):α) h = superSphericalNatCor n h := by
  simp only [SuperSpherical.cor, superSphericalNatCor, H]

end GSV.Props.GenTieCorExact
