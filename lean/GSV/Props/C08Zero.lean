/-
  C08 (direction test, closed form) — what `dir_test` of estimator.pyx decides, zero-length pairs, and unit directions.

  1. `dir_test_spec`: over ℝ the generated `dir_test` returns `true` iff
       (bandwidth > 0 → sqrt(Σ_c (Δ_c − s·e_c)²) < bandwidth)  ∧  (dist > 0 → |s|/dist < 1 → arccos(|s|/dist) < tol),
     `s = Σ_c Δ_c e_c`, `Δ` the separation vector of the pair, `e` the listed direction AS GIVEN.  The test is symmetric
     under swapping the two points of the pair (`dir_test_swap`).
  2. zero-length pairs (finding D15): a pair with zero separation vector has `dist_euclid = 0` and passes the direction
     test of EVERY direction, for every tolerance and bandwidth (`zero_pair_passes_every_direction`).  It is still subject
     to the distance-bin test: it enters bin `i` iff `bin_edges[i] ≤ 0 < bin_edges[i+1]` (so only a first bin that starts
     at or below 0 can hold it).  There it is credited to every listed direction without `separate_dirs`, and to the first
     listed direction only with `separate_dirs` (`zero_pair_inDirBin`, kernel-level `directional_coincident_pair`), so the
     hypothesis `0 < dist` of `C08Geo.separated_first_hit_eq_all` cannot be dropped (`first_hit_ne_all_at_zero_length`).
  3. unit directions: the kernel takes the direction as given — its test is NOT invariant under positive rescaling of the
     direction vector (`dir_test_not_scale_invariant`).  The glue's normalisation `d / ‖d‖` (`Model.Vario.normDir`) yields a
     unit vector for every non-zero direction (`normDir_unit`) and is itself invariant under positive rescaling
     (`normDir_pos_scale`); with it the unit-direction hypothesis of `separate_dirs_geometric` is discharged
     (`separate_dirs_geometric_normalised`, and end-to-end from the model of `_separate_dirs_test`: `separateDirs_glue_sound`).
-/
import GSV.Props.C08Geo
namespace GSV.Props.C08Zero
open GSV GSV.Transc GSV.Estimator GSV.Props GSV.Props.C08 GSV.Props.C08Geo Finset

set_option linter.unusedSectionVars false

/-! ### closed form of `dir_test` -/

/-- the squared "band distance" accumulated by `dir_test`: `Σ_c (Δ_c − s·e_c)²` -/
noncomputable def bdist (dim : Nat) (pos : Nat → Nat → ℝ) (direction : Nat → Nat → ℝ) (i j d : Nat) : ℝ :=
  ∑ c ∈ range dim, ((pos c i - pos c j) - sprod dim pos direction i j d * direction d c) ^ 2

/-- a loop that carries a constant first component and accumulates into the second -/
theorem forRange_pair_const (n : Nat) (s b : ℝ) (g : ℝ → Nat → ℝ) :
    forRange 0 n (s, b) (fun k (acc : ℝ × ℝ) => (acc.1, acc.2 + g acc.1 k)) = (s, b + ∑ k ∈ range n, g s k) := by
  induction n with
  | zero => simp
  | succ n ih => rw [forRange_succ (Nat.zero_le n), ih, Finset.sum_range_succ, add_assoc]

section stages
variable (dim : Nat) (pos : Nat → Nat → ℝ) (ds : ℝ) (direction : Nat → Nat → ℝ) (tol bw : ℝ) (i j d : Nat)

theorem stage1_b_dist : (stage1 dim pos direction i j d).b_dist = 0 := by
  unfold stage1
  rw [forRange_keep (fun (s : dir_test.St ℝ) => s.b_dist) _ (by intros; rfl) 0 dim _]
  simp

theorem stage1_in_band : (stage1 dim pos direction i j d).in_band = true := by
  unfold stage1
  exact forRange_keep (fun (s : dir_test.St ℝ) => s.in_band) _ (by intros; rfl) 0 dim _

/-- the band loop computes `bdist` -/
theorem band_loop_b_dist :
    (forRange 0 dim (stage1 dim pos direction i j d) fun k (st : dir_test.St ℝ) =>
        let st : dir_test.St ℝ := { st with tmp := ((pos k i - pos k j) - (st.s_prod * direction d k)) }
        let st : dir_test.St ℝ := { st with b_dist := (st.b_dist + (st.tmp * st.tmp)) }
        st).b_dist = bdist dim pos direction i j d := by
  have key := forRange_proj (fun (s : dir_test.St ℝ) => (s.s_prod, s.b_dist))
    (fun k (st : dir_test.St ℝ) =>
        let st : dir_test.St ℝ := { st with tmp := ((pos k i - pos k j) - (st.s_prod * direction d k)) }
        let st : dir_test.St ℝ := { st with b_dist := (st.b_dist + (st.tmp * st.tmp)) }
        st)
    (fun k (acc : ℝ × ℝ) => (acc.1, acc.2 + ((pos k i - pos k j) - acc.1 * direction d k) * ((pos k i - pos k j) - acc.1 * direction d k)))
    (by intros; rfl) 0 dim (stage1 dim pos direction i j d)
  rw [forRange_pair_const dim _ _
    (fun s k => ((pos k i - pos k j) - s * direction d k) * ((pos k i - pos k j) - s * direction d k))] at key
  have h2 := congrArg Prod.snd key
  simp only [stage1_s_prod, stage1_b_dist, zero_add] at h2
  rw [h2]
  unfold bdist
  exact Finset.sum_congr rfl fun c _ => by ring

theorem stage2_in_band :
    (stage2 dim pos direction bw i j d).in_band = true ↔ (0 < bw → Real.sqrt (bdist dim pos direction i j d) < bw) := by
  unfold stage2
  by_cases hbw : bw > ((0:Nat):ℝ)
  · rw [if_pos hbw]
    have hbw' : 0 < bw := by simpa using hbw
    simp only [sqrt_real, decide_eq_true_eq]
    rw [band_loop_b_dist]
    exact ⟨fun h _ => h, fun h => h hbw'⟩
  · rw [if_neg hbw]
    have hbw' : ¬ 0 < bw := by simpa using hbw
    simp only [stage1_in_band, true_iff]
    exact fun h => absurd h hbw'

theorem stage3_in_band (st : dir_test.St ℝ) : (stage3 ds tol st).in_band = st.in_band := by
  unfold stage3
  split
  · simp only []
    split <;> rfl
  · rfl

theorem stage3_in_angle (st : dir_test.St ℝ) (h : st.in_angle = true) :
    (stage3 ds tol st).in_angle = true ↔
      (0 < ds → |st.s_prod| / ds < 1 → Real.arccos (|st.s_prod| / ds) < tol) := by
  unfold stage3
  by_cases hds : ds > ((0:Nat):ℝ)
  · rw [if_pos hds]
    have hds' : 0 < ds := by simpa using hds
    simp only [fabs_real, acos_real]
    by_cases hlt : |st.s_prod| / ds < ((1:Nat):ℝ)
    · rw [if_pos hlt]
      have hlt' : |st.s_prod| / ds < 1 := by simpa using hlt
      simp only [decide_eq_true_eq]
      exact ⟨fun h _ _ => h, fun h => h hds' hlt'⟩
    · rw [if_neg hlt]
      have hlt' : ¬ |st.s_prod| / ds < 1 := by simpa using hlt
      simp only [h, true_iff]
      exact fun _ h => absurd h hlt'
  · rw [if_neg hds]
    have hds' : ¬ 0 < ds := by simpa using hds
    simp only [h, true_iff]
    exact fun h => absurd h hds'

end stages

/-- **C08 dir_test_spec** (ℝ): the generated direction test accepts the pair `(i, j)` at distance `ds` for direction `d`
    iff the band distance is below the bandwidth (tested only for a positive bandwidth) and the angle
    `arccos(|s|/ds)` is below the tolerance (tested only for a positive distance and `|s|/ds < 1`). -/
theorem dir_test_spec (dim : Nat) (pos : Nat → Nat → ℝ) (p0 p1 : Nat) (ds : ℝ) (direction : Nat → Nat → ℝ)
    (d0 d1 : Nat) (tol bw : ℝ) (i j d : Nat) :
    dir_test dim pos p0 p1 ds direction d0 d1 tol bw i j d = true ↔
      (0 < bw → Real.sqrt (bdist dim pos direction i j d) < bw) ∧
      (0 < ds → |sprod dim pos direction i j d| / ds < 1 → Real.arccos (|sprod dim pos direction i j d| / ds) < tol) := by
  rw [dir_test_stages, decide_eq_true_eq, stage3_in_band, stage2_in_band,
    stage3_in_angle ds tol _ (stage2_in_angle dim pos direction bw i j d), stage2_s_prod]

theorem sprod_swap (dim : Nat) (pos direction : Nat → Nat → ℝ) (i j d : Nat) :
    sprod dim pos direction i j d = - sprod dim pos direction j i d := by
  unfold sprod
  rw [← Finset.sum_neg_distrib]
  exact Finset.sum_congr rfl fun c _ => by ring

theorem bdist_swap (dim : Nat) (pos direction : Nat → Nat → ℝ) (i j d : Nat) :
    bdist dim pos direction i j d = bdist dim pos direction j i d := by
  unfold bdist
  rw [sprod_swap dim pos direction i j d]
  exact Finset.sum_congr rfl fun c _ => by ring

/-- **the direction test does not see the orientation of the pair**: swapping its two points changes nothing
    (the scalar product enters through `|s|`, the band distance through squares) -/
theorem dir_test_swap (dim : Nat) (pos : Nat → Nat → ℝ) (p0 p1 : Nat) (ds : ℝ) (direction : Nat → Nat → ℝ)
    (d0 d1 : Nat) (tol bw : ℝ) (i j d : Nat) :
    dir_test dim pos p0 p1 ds direction d0 d1 tol bw i j d = dir_test dim pos p0 p1 ds direction d0 d1 tol bw j i d := by
  rw [Bool.eq_iff_iff, dir_test_spec, dir_test_spec, bdist_swap dim pos direction i j d,
    sprod_swap dim pos direction i j d, abs_neg]

/-! ### zero-length pairs -/

theorem sprod_zero_pair (dim : Nat) (pos direction : Nat → Nat → ℝ) (j k d : Nat)
    (hz : ∀ c, c < dim → pos c j = pos c k) : sprod dim pos direction k j d = 0 := by
  unfold sprod
  exact Finset.sum_eq_zero fun c hc => by rw [hz c (Finset.mem_range.1 hc)]; ring

theorem bdist_zero_pair (dim : Nat) (pos direction : Nat → Nat → ℝ) (j k d : Nat)
    (hz : ∀ c, c < dim → pos c j = pos c k) : bdist dim pos direction k j d = 0 := by
  unfold bdist
  rw [sprod_zero_pair dim pos direction j k d hz]
  exact Finset.sum_eq_zero fun c hc => by rw [hz c (Finset.mem_range.1 hc)]; ring

/-- coincident points are at kernel distance 0 -/
theorem dist_zero_pair (dim : Nat) (pos : Nat → Nat → ℝ) (p0 p1 j k : Nat)
    (hz : ∀ c, c < dim → pos c j = pos c k) : dist_euclid dim pos p0 p1 j k = 0 := by
  rw [C09.dist_euclid_real]
  have : ∑ c ∈ range dim, (pos c j - pos c k) ^ 2 = 0 :=
    Finset.sum_eq_zero fun c hc => by rw [hz c (Finset.mem_range.1 hc)]; ring
  rw [this, Real.sqrt_zero]

/-- conversely, kernel distance 0 means that the separation vector is zero -/
theorem zero_pair_of_dist_zero (dim : Nat) (pos : Nat → Nat → ℝ) (p0 p1 j k : Nat)
    (h : dist_euclid dim pos p0 p1 j k = 0) : ∀ c, c < dim → pos c j = pos c k := by
  rw [C09.dist_euclid_real, Real.sqrt_eq_zero (Finset.sum_nonneg fun c _ => sq_nonneg _)] at h
  intro c hc
  have := (Finset.sum_eq_zero_iff_of_nonneg (fun c _ => sq_nonneg (pos c j - pos c k))).1 h c (Finset.mem_range.2 hc)
  have := pow_eq_zero_iff (two_ne_zero) |>.1 this
  linarith

/-- **zero-length pairs pass every direction test** (D15): for every listed (or unlisted) direction, every tolerance and
    every bandwidth — the angle test is skipped at distance 0 and the band distance of the zero vector is 0 -/
theorem zero_pair_passes_every_direction (dim : Nat) (pos : Nat → Nat → ℝ) (np : Nat) (direction : Nat → Nat → ℝ)
    (nd dc : Nat) (tol bw : ℝ) (j k d : Nat) (hz : ∀ c, c < dim → pos c j = pos c k) :
    dirOK dim pos np direction nd dc tol bw (dist_euclid dim pos dim np j k) j k d := by
  unfold dirOK
  rw [dir_test_spec, dist_zero_pair dim pos dim np j k hz, bdist_zero_pair dim pos direction j k d hz, Real.sqrt_zero]
  exact ⟨fun h => h, fun h => absurd h (lt_irrefl 0)⟩

/-- **where the kernel puts a zero-length pair**: into bin `i` iff `bin_edges[i] ≤ 0 < bin_edges[i+1]`; there, without
    `separate_dirs` into every listed direction, with `separate_dirs` into the first listed direction only -/
theorem zero_pair_inDirBin (dim : Nat) (pos : Nat → Nat → ℝ) (np : Nat) (bins : Nat → ℝ) (direction : Nat → Nat → ℝ)
    (nd dc : Nat) (tol bw : ℝ) (sep : Bool) (d i : Nat) (p : Nat × Nat) (hz : ∀ c, c < dim → pos c p.1 = pos c p.2) :
    inDirBin dim pos np bins direction nd dc tol bw sep d i p =
      decide ((bins i ≤ 0 ∧ 0 < bins (i + 1)) ∧ d < nd ∧ (sep = true → d = 0)) := by
  unfold inDirBin inBin
  rw [← Bool.decide_and]
  apply decide_eq_decide.mpr
  have hall : ∀ d', dirOK dim pos np direction nd dc tol bw (dist_euclid dim pos dim np p.1 p.2) p.1 p.2 d' :=
    fun d' => zero_pair_passes_every_direction dim pos np direction nd dc tol bw p.1 p.2 d' hz
  rw [dist_zero_pair dim pos dim np p.1 p.2 hz] at hall ⊢
  constructor
  · rintro ⟨hb, hd, _, hs⟩
    refine ⟨⟨not_lt.1 fun h => hb (Or.inl h), not_le.1 fun h => hb (Or.inr h)⟩, hd, fun hsep => ?_⟩
    by_contra hne
    exact hs hsep 0 (Nat.pos_of_ne_zero hne) (hall 0)
  · rintro ⟨⟨h1, h2⟩, hd, hs⟩
    refine ⟨fun h => h.elim (fun h => absurd h1 (not_le.2 h)) (fun h => absurd h2 (not_lt.2 h)), hd, hall d, fun hsep d' hd' => ?_⟩
    have := hs hsep
    omega

/-- over ℝ no value is NaN: every field is usable for every pair -/
theorem validFields_real (f : Nat → Nat → ℝ) (nf j k : Nat) : validFields f nf j k = idxRange 0 nf := by
  unfold validFields
  simp

/-- **kernel-level statement for two coincident points** (the smallest D15 configuration): the whole data set is one
    zero-length pair, `nf` fields, any number of listed directions of any kind, any tolerance and bandwidth, any
    admissible schedule.  If the first bin contains 0 the pair count of cell `(d, 0)` is `nf` for every direction
    without `separate_dirs`, and with `separate_dirs` it is `nf` for the first listed direction and `0` for all others. -/
theorem directional_coincident_pair (sched : Sched) (hs : sched.Admissible)
    (f : Nat → Nat → ℝ) (nf f1 : Nat) (bins : Nat → ℝ) (nb : Nat) (pos : Nat → Nat → ℝ) (dim : Nat)
    (direction : Nat → Nat → ℝ) (nd dc : Nat) (tol bw : ℝ) (sep : Bool) (et : String) (d : Nat)
    (hnb : 0 < nb - 1) (hd : d < nd) (hz : ∀ c, c < dim → pos c 0 = pos c 1)
    (hb0 : bins 0 ≤ 0) (hb1 : 0 < bins 1) :
    (directional sched f nf f1 bins nb pos dim 2 direction nd dc tol bw sep et).2 d 0 =
      if sep = true ∧ d ≠ 0 then 0 else (nf : Int) := by
  have h := (directional_eq_definition sched hs f nf f1 bins nb pos dim 2 direction nd dc tol bw sep et d 0 hnb hd).1
  rw [h]
  have hp : pairs 2 = [(0, 1)] := by decide
  unfold triples
  rw [hp]
  have hsel := zero_pair_inDirBin dim pos 2 bins direction nd dc tol bw sep d 0 (0, 1) hz
  by_cases hc : sep = true ∧ d ≠ 0
  · rw [if_pos hc]
    have : inDirBin dim pos 2 bins direction nd dc tol bw sep d 0 (0, 1) = false := by
      rw [hsel, decide_eq_false_iff_not]
      rintro ⟨_, _, h3⟩
      exact hc.2 (h3 hc.1)
    simp [this]
  · rw [if_neg hc]
    have : inDirBin dim pos 2 bins direction nd dc tol bw sep d 0 (0, 1) = true := by
      rw [hsel, decide_eq_true_eq]
      refine ⟨⟨hb0, by simpa using hb1⟩, hd, fun hsep => ?_⟩
      by_contra hne
      exact hc ⟨hsep, hne⟩
    simp [this, validFields_real, idxRange]

/-- **the hypothesis `0 < dist` of `C08Geo.separated_first_hit_eq_all` is necessary**: two orthogonal unit directions in
    the plane pass the glue's separation test with `tol = π/8`, yet for a zero-length pair in a first bin that contains 0
    the run with `separate_dirs` does NOT select what the run without it selects (second direction, finding D15) -/
theorem first_hit_ne_all_at_zero_length :
    ∃ (dim np : Nat) (pos direction : Nat → Nat → ℝ) (bins : Nat → ℝ) (nd : Nat) (tol : ℝ) (d i : Nat) (p : Nat × Nat),
      0 < tol ∧ (∀ d, d < nd → ∑ c ∈ range dim, direction d c ^ 2 = 1) ∧
      (∀ a b, a < b → b < nd → 2 * tol ≤ Real.arccos (min |∑ c ∈ range dim, direction a c * direction b c| 1)) ∧
      p.1 < p.2 ∧ p.2 < np ∧ d < nd ∧
      ∀ (dc : Nat) (bw : ℝ),
        inDirBin dim pos np bins direction nd dc tol bw true d i p ≠ inDirBin dim pos np bins direction nd dc tol bw false d i p := by
  refine ⟨2, 2, fun _ _ => 0, fun d c => if d = c then 1 else 0, fun i => i, 2, Real.pi / 8, 1, 0, (0, 1),
    by positivity, ?_, ?_, by norm_num, by norm_num, by norm_num, ?_⟩
  · intro d hd
    have : d = 0 ∨ d = 1 := by omega
    rcases this with rfl | rfl <;> simp
  · intro a b hab hb
    have : a = 0 ∧ b = 1 := by omega
    obtain ⟨rfl, rfl⟩ := this
    simp
    linarith [Real.pi_pos]
  · intro dc bw
    rw [zero_pair_inDirBin _ _ _ _ _ _ _ _ _ _ _ _ _ (fun _ _ => rfl),
      zero_pair_inDirBin _ _ _ _ _ _ _ _ _ _ _ _ _ (fun _ _ => rfl)]
    simp

/-! ### unit directions -/

theorem foldl_sq_eq_sum (l : List ℝ) (a : ℝ) : l.foldl (fun acc x => acc + x * x) a = a + (l.map fun x => x * x).sum := by
  induction l generalizing a with
  | nil => simp
  | cons x l ih => simp only [List.foldl_cons, ih, List.map_cons, List.sum_cons]; ring

/-- the squared length the glue divides by -/
noncomputable def sqLen (l : List ℝ) : ℝ := (l.map fun x => x * x).sum

theorem sqLen_nonneg (l : List ℝ) : 0 ≤ sqLen l :=
  List.sum_nonneg fun y hy => by
    obtain ⟨x, _, rfl⟩ := List.mem_map.1 hy
    exact mul_self_nonneg x

theorem sqLen_pos (l : List ℝ) (hne : ∃ x ∈ l, x ≠ 0) : 0 < sqLen l := by
  obtain ⟨x, hx, hx0⟩ := hne
  have h1 : x * x ≤ sqLen l :=
    List.single_le_sum (fun y hy => by
      obtain ⟨z, _, rfl⟩ := List.mem_map.1 hy
      exact mul_self_nonneg z) _ (List.mem_map.2 ⟨x, hx, rfl⟩)
  have h2 : 0 < x * x := mul_self_pos.2 hx0
  linarith

theorem normDir_eq (l : List ℝ) : GSV.Model.Vario.normDir l = l.map (· / Real.sqrt (sqLen l)) := by
  unfold GSV.Model.Vario.normDir sqLen
  simp only [sqrt_real, foldl_sq_eq_sum, Nat.cast_zero, zero_add]

/-- a sum over the positions of a list is the sum of the list -/
theorem sum_range_getD (l : List ℝ) (g : ℝ → ℝ) :
    ∑ c ∈ range l.length, g (l.getD c 0) = (l.map g).sum := by
  induction l with
  | nil => simp
  | cons x l ih =>
    rw [List.length_cons, Finset.sum_range_succ', List.map_cons, List.sum_cons, add_comm]
    simp only [List.getD_cons_zero, List.getD_cons_succ]
    rw [ih]

theorem getD_map_div (l : List ℝ) (n : ℝ) (c : Nat) : (l.map (· / n)).getD c 0 = l.getD c 0 / n := by
  by_cases hc : c < l.length
  · simp [List.getD_eq_getElem?_getD, hc]
  · simp [List.getD_eq_getElem?_getD, not_lt.1 hc]

/-- **the glue's normalisation yields unit vectors**: for every direction with a non-zero component, in any dimension,
    the coordinates of `d / ‖d‖` have squares summing to 1 — the hypothesis `hunit` of `separate_dirs_geometric` -/
theorem normDir_unit (l : List ℝ) (hne : ∃ x ∈ l, x ≠ 0) :
    ∑ c ∈ range l.length, ((GSV.Model.Vario.normDir l).getD c 0) ^ 2 = 1 := by
  have hpos := sqLen_pos l hne
  rw [normDir_eq]
  simp only [getD_map_div]
  rw [sum_range_getD l (fun x => (x / Real.sqrt (sqLen l)) ^ 2)]
  have : (l.map fun x => (x / Real.sqrt (sqLen l)) ^ 2) = l.map fun x => (x * x) * (sqLen l)⁻¹ := by
    refine List.map_congr_left fun x _ => ?_
    rw [div_pow, Real.sq_sqrt hpos.le]; ring
  have h2 : (l.map fun x => (x * x) * (sqLen l)⁻¹) = (l.map fun x => x * x).map (fun y => y * (sqLen l)⁻¹) := by
    rw [List.map_map]; rfl
  rw [this, h2, List.sum_map_mul_right]
  simp only [List.map_id']
  exact mul_inv_cancel₀ hpos.ne'

theorem normDir_length (l : List ℝ) : (GSV.Model.Vario.normDir l).length = l.length := by
  rw [normDir_eq, List.length_map]

/-- **at the API the direction's length is irrelevant**: the normalised direction of `a • d`, `a > 0`, is that of `d` -/
theorem normDir_pos_scale (l : List ℝ) (a : ℝ) (ha : 0 < a) :
    GSV.Model.Vario.normDir (l.map (a * ·)) = GSV.Model.Vario.normDir l := by
  rw [normDir_eq, normDir_eq]
  have hs : sqLen (l.map (a * ·)) = a ^ 2 * sqLen l := by
    unfold sqLen
    rw [List.map_map, ← List.sum_map_mul_left]
    congr 1
    refine List.map_congr_left fun x _ => ?_
    simp only [Function.comp]; ring
  rw [hs, Real.sqrt_mul (sq_nonneg a), Real.sqrt_sq ha.le, List.map_map]
  refine List.map_congr_left fun x _ => ?_
  simp only [Function.comp]
  rw [mul_div_mul_left _ _ ha.ne']

/-- **the kernel takes the direction as given**: its direction test is NOT invariant under positive rescaling of the
    direction vector.  Witness: the pair `(0,0)–(1,0)` is accepted for the unit direction `(1,0)` (`|s|/dist = 1`, the
    angle test is skipped) and rejected for `(1/2,0)` (`arccos(1/2) = π/3 ≥ π/8`), with no bandwidth.  So the
    normalisation in the glue is essential. -/
theorem dir_test_not_scale_invariant :
    ∃ (pos direction : Nat → Nat → ℝ) (a : ℝ), 0 < a ∧
      dir_test 2 pos 2 2 (dist_euclid 2 pos 2 2 0 1) direction 1 2 (Real.pi / 8) (-1) 1 0 0 = true ∧
      dir_test 2 pos 2 2 (dist_euclid 2 pos 2 2 0 1) (fun d c => a * direction d c) 1 2 (Real.pi / 8) (-1) 1 0 0 = false := by
  refine ⟨fun c p => if c = 0 ∧ p = 1 then 1 else 0, fun _ c => if c = 0 then 1 else 0, 1 / 2, by norm_num, ?_, ?_⟩
  · rw [dir_test_spec, C09.dist_euclid_real]
    refine ⟨fun h => absurd h (by norm_num), fun _ h => ?_⟩
    exfalso
    revert h
    simp [sprod]
  · rw [Bool.eq_false_iff, Ne, dir_test_spec, C09.dist_euclid_real]
    rintro ⟨_, h⟩
    have h1 : |sprod 2 (fun c p => if c = 0 ∧ p = 1 then (1:ℝ) else 0) (fun d c => 1 / 2 * (if c = 0 then (1:ℝ) else 0)) 1 0 0| /
        Real.sqrt (∑ d ∈ range 2, ((fun c p => if c = 0 ∧ p = 1 then (1:ℝ) else 0) d 0 -
          (fun c p => if c = 0 ∧ p = 1 then (1:ℝ) else 0) d 1) ^ 2) = 1 / 2 := by
      simp [sprod]
    rw [h1] at h
    have h2 := h (by norm_num) (by norm_num)
    have h3 : Real.arccos (1 / 2) = Real.pi / 3 := by
      rw [← Real.cos_pi_div_three, Real.arccos_cos (by positivity) (by linarith [Real.pi_pos])]
    rw [h3] at h2
    linarith [Real.pi_pos]

/-- **C08_separate_dirs_geometric with the glue's normalisation instead of the unit-direction hypothesis**: the listed
    directions are ARBITRARY non-zero vectors `raw d` of length `dim`; what reaches the kernel is `normDir (raw d)`.
    If these pass the separation test, at most one direction accepts a pair of positive length. -/
theorem separate_dirs_geometric_normalised (dim : Nat) (pos : Nat → Nat → ℝ) (np : Nat) (raw : Nat → List ℝ)
    (nd dc : Nat) (tol bw : ℝ) (j k : Nat) (htol : 0 < tol)
    (hlenraw : ∀ d, d < nd → (raw d).length = dim)
    (hne : ∀ d, d < nd → ∃ x ∈ raw d, x ≠ 0)
    (hsep : ∀ a b, a < b → b < nd →
      2 * tol ≤ Real.arccos (min |∑ c ∈ range dim,
        (GSV.Model.Vario.normDir (raw a)).getD c 0 * (GSV.Model.Vario.normDir (raw b)).getD c 0| 1))
    (hlen : 0 < dist_euclid dim pos dim np j k) :
    ∀ d₁ d₂, d₁ < nd → d₂ < nd →
      dirOK dim pos np (fun d c => (GSV.Model.Vario.normDir (raw d)).getD c 0) nd dc tol bw (dist_euclid dim pos dim np j k) j k d₁ →
      dirOK dim pos np (fun d c => (GSV.Model.Vario.normDir (raw d)).getD c 0) nd dc tol bw (dist_euclid dim pos dim np j k) j k d₂ →
      d₁ = d₂ :=
  separate_dirs_geometric dim pos np (fun d c => (GSV.Model.Vario.normDir (raw d)).getD c 0) nd dc tol bw j k htol
    (fun d hd => by rw [← hlenraw d hd]; exact normDir_unit (raw d) (hne d hd)) hsep hlen

/-- `dotL` of two lists of the same length is the coordinate sum -/
theorem dotL_eq_sum (a b : List ℝ) (h : a.length = b.length) :
    GSV.Model.Vario.dotL a b = ∑ c ∈ range a.length, a.getD c 0 * b.getD c 0 := by
  unfold GSV.Model.Vario.dotL
  have hf : ∀ (l : List (ℝ × ℝ)) (x : ℝ), l.foldl (fun acc p => acc + p.1 * p.2) x = x + (l.map fun p => p.1 * p.2).sum := by
    intro l
    induction l with
    | nil => intro x; simp
    | cons p l ih => intro x; simp only [List.foldl_cons, ih, List.map_cons, List.sum_cons]; ring
  rw [hf, Nat.cast_zero, zero_add]
  induction a generalizing b with
  | nil => simp
  | cons x a ih =>
    cases b with
    | nil => simp at h
    | cons y b =>
      rw [List.length_cons, Finset.sum_range_succ', List.zip_cons_cons, List.map_cons, List.sum_cons, add_comm]
      simp only [List.getD_cons_zero, List.getD_cons_succ]
      rw [ih b (by simpa using h)]

/-- **end to end from the glue's model**: `vario_estimate` normalises the listed directions (`normDir`) and runs
    `_separate_dirs_test` (`Model.Vario.separateDirs`) on the normalised ones; if that test says "separated", then for
    arbitrary non-zero listed directions of the right length and a positive tolerance the kernel's first-hit rule is
    harmless for every pair of positive length: the run with `separate_dirs` selects exactly what the run without selects. -/
theorem separateDirs_glue_sound (dim : Nat) (pos : Nat → Nat → ℝ) (np : Nat) (bins : Nat → ℝ) (dirs : List (List ℝ))
    (dc : Nat) (tol bw : ℝ) (d i : Nat) (p : Nat × Nat) (htol : 0 < tol)
    (hlenraw : ∀ l ∈ dirs, l.length = dim) (hne : ∀ l ∈ dirs, ∃ x ∈ l, x ≠ 0)
    (htest : GSV.Model.Vario.separateDirs (dirs.map GSV.Model.Vario.normDir) tol = true)
    (hlen : 0 < dist_euclid dim pos dim np p.1 p.2) :
    inDirBin dim pos np bins (fun d c => (GSV.Model.Vario.normDir (dirs.getD d [])).getD c 0) dirs.length dc tol bw true d i p =
      inDirBin dim pos np bins (fun d c => (GSV.Model.Vario.normDir (dirs.getD d [])).getD c 0) dirs.length dc tol bw false d i p := by
  have hget : ∀ d, d < dirs.length → dirs.getD d [] ∈ dirs := by
    intro d hd
    have : dirs.getD d [] = dirs[d] := by simp [List.getD_eq_getElem?_getD, hd]
    rw [this]
    exact List.getElem_mem hd
  have hmap : ∀ d, d < dirs.length →
      (dirs.map GSV.Model.Vario.normDir).getD d [] = GSV.Model.Vario.normDir (dirs.getD d []) := by
    intro d hd
    simp [List.getD_eq_getElem?_getD, hd]
  refine separate_dirs_sound dim pos np bins _ dirs.length dc tol bw d i p ?_
  refine separate_dirs_geometric_normalised dim pos np (fun d => dirs.getD d []) dirs.length dc tol bw p.1 p.2 htol
    (fun d hd => hlenraw _ (hget d hd)) (fun d hd => hne _ (hget d hd)) ?_ hlen
  intro a b hab hb
  have := (separateDirs_spec (dirs.map GSV.Model.Vario.normDir) tol).1 htest a b hab (by simpa using hb)
  rw [hmap a (lt_trans hab hb), hmap b hb, dotL_eq_sum _ _ (by
    rw [normDir_length, normDir_length, hlenraw _ (hget a (lt_trans hab hb)), hlenraw _ (hget b hb)]),
    normDir_length, hlenraw _ (hget a (lt_trans hab hb))] at this
  exact this

/-! ### non-vacuity -/

/-- a zero-length pair: two coincident points in the plane -/
example : ∀ c, c < 2 → (fun (_ : Nat) (_ : Nat) => (3:ℝ)) c 0 = (fun (_ : Nat) (_ : Nat) => (3:ℝ)) c 1 := fun _ _ => rfl

/-- a non-unit, non-zero direction: `(3, 4)` is normalised to a unit vector -/
example : ∑ c ∈ range 2, ((GSV.Model.Vario.normDir [(3:ℝ), 4]).getD c 0) ^ 2 = 1 :=
  normDir_unit [3, 4] ⟨3, by simp, by norm_num⟩

/-- the hypotheses of `separateDirs_glue_sound` are met by the un-normalised axes `(2,0)`, `(0,5)` with `tol = π/8` -/
example : GSV.Model.Vario.separateDirs ([[(2:ℝ), 0], [0, 5]].map GSV.Model.Vario.normDir) (Real.pi / 8) = true := by
  rw [separateDirs_spec]
  intro a b hab hb
  have : a = 0 ∧ b = 1 := by simp at hb; omega
  obtain ⟨rfl, rfl⟩ := this
  simp [normDir_eq, GSV.Model.Vario.dotL, sqLen]
  linarith [Real.pi_pos]

end GSV.Props.C08Zero
