/-
  Tie A for the one-line array transforms (C19): the hand-written scalar maps of `GSV.Model.Transform`
  (`toLognormal`, `boxcox`, `forceMoments`, `toUniform`, `uniformToArcsin`, `uniformToUquad`, `toArcsin`, `toUquad`,
  `zinnharvey`) are EQUAL, for all parameters and data, to the definitions that `vlib/pyexpr2lean.py` regenerates
  from the current text of `src/gstools/transform/array.py` on every run of `./check`
  (`GSV/Gen/TransformFormulas.lean`).

  * The model is written in terms of the standard normal cdf `Φ` and its quantile function (parameters
    `cdf ppf`), the code in terms of `scipy.special.erf / erfinv` (parameter `sps : Sps α` of the generated
    definitions).  The tie instantiates `cdf := cdfOf sps = z ↦ 0.5 (1 + erf (z / √2))` and
    `ppf := ppfOf sps = u ↦ √2 erfinv (2u − 1)`, i.e. exactly the expressions the code writes; that scipy's `erf`
    makes `cdfOf` the normal cdf is the trusted fact named in DESIGN §4 C19.
  * `np.mean(field)` / `np.var(field)` of the array argument are scalar parameters (`mean_of_field`,
    `var_of_field`) of the generated `array_force_moments`; the tie instantiates them with the model's
    `lmean` / `lvar` of the sample.
  * `mean=None` / `var=None` (moments taken from the sample) are not generated: the generated definitions take
    `mean`, `var` as given numbers, like the model.  Optional bounds `a`, `b` are generated in both variants.
  * `array_discrete` (loop over thresholds, sorting) is outside the subset: tie B only.
  Equalities that only re-associate nothing hold on every carrier (`rfl`); the others are over `ℝ`.
-/
import GSV.RealInst
import GSV.Model.Transform
import GSV.Gen.TransformFormulas

set_option linter.unusedSectionVars false

namespace GSV.Props.GenTieTransform
open GSV GSV.Transc GSV.PyExpr GSV.Model.Transform GSV.Gen.TransformFormulas

variable {α : Type} [Arith α] [Transc α] [DecidableLT α] [DecidableLE α]

/-- the normal cdf as the code writes it: `0.5 * (1 + erf(z / sqrt 2))` -/
def cdfOf (sps : Sps α) (z : α) : α := (0.5:α) * (((1:Nat):α) + sps.erf (z / sqrt ((2:Nat):α)))
/-- the normal quantile function as the code writes it: `sqrt 2 * erfinv(2 u - 1)` -/
def ppfOf (sps : Sps α) (u : α) : α := sqrt ((2:Nat):α) * sps.erfinv (((2:Nat):α) * u - ((1:Nat):α))

/-! ### same text as the model, on every carrier -/

theorem array_to_lognormal_eq_model (x : α) : array_to_lognormal x = toLognormal x := rfl

theorem uniform_to_arcsin_eq_model (a b u : α) : _uniform_to_arcsin u a b = uniformToArcsin a b u := rfl

/-- `array_force_moments`: every element is mapped by the generated formula with the sample moments -/
theorem array_force_moments_eq_model (mean var : α) (l : List α) :
    forceMoments mean var l = l.map fun x => array_force_moments (lmean l) (lvar l) x mean var := rfl

/-! ### over `ℝ` -/

theorem isclose_zero_real (x : ℝ) : PyExpr.isclose x ((0:Nat):ℝ) = lmbdaIsZero x := by
  simp [PyExpr.isclose, lmbdaIsZero]

theorem array_boxcox_eq_model (lmbda shift x : ℝ) : array_boxcox x lmbda shift = boxcox lmbda shift x := by
  rw [array_boxcox, boxcox, isclose_zero_real]
  rfl

/-- the cube-root branches: the code fills `y > 0` first and `y < 0` second, the model tests `0 < y` first -/
theorem uniform_to_uquad_eq_model (a b u : ℝ) : _uniform_to_uquad u a b = uniformToUquad a b u := by
  simp only [_uniform_to_uquad, uniformToUquad]
  generalize ((3:Nat):ℝ) * u / (((12:Nat):ℝ) / npow (b - a) 3) + npow (a - b) 3 / ((8:Nat):ℝ) = y
  congr 1
  rcases lt_trichotomy y ((0:Nat):ℝ) with h | h | h
  · have h' : ¬ (((0:Nat):ℝ) < y) := not_lt.mpr h.le
    rw [if_pos h, if_neg h', if_pos h]
  · have h1 : ¬ (y < ((0:Nat):ℝ)) := by rw [h]; exact lt_irrefl _
    have h2 : ¬ (((0:Nat):ℝ) < y) := by rw [h]; exact lt_irrefl _
    have h3 : ¬ (y > ((0:Nat):ℝ)) := h2
    rw [if_neg h1, if_neg h3, if_neg h2, if_neg h1]
  · have h' : ¬ (y < ((0:Nat):ℝ)) := not_lt.mpr h.le
    have h3 : y > ((0:Nat):ℝ) := h
    rw [if_neg h', if_pos h3, if_pos h]

theorem sqrt_two_mul (v : ℝ) : Real.sqrt (2 * v) = Real.sqrt 2 * Real.sqrt v :=
  Real.sqrt_mul (by norm_num) v

theorem array_to_uniform_eq_model (sps : Sps ℝ) (mean var low high x : ℝ) :
    array_to_uniform sps x mean var low high = toUniform (cdfOf sps) mean var low high x := by
  simp only [array_to_uniform, toUniform, cdfOf, standardize, sqrt_real]
  push_cast
  rw [sqrt_two_mul, div_div, mul_comm (Real.sqrt var)]

theorem array_to_arcsin_eq_model (sps : Sps ℝ) (mean var a b x : ℝ) :
    array_to_arcsin sps x mean var a b = toArcsin (cdfOf sps) mean var (some a) (some b) x := by
  have e := array_to_uniform_eq_model sps mean var ((0:Nat):ℝ) ((1:Nat):ℝ) x
  have e0 : ((0.0:ℝ)) = ((0:Nat):ℝ) := by norm_num
  have e1 : ((1.0:ℝ)) = ((1:Nat):ℝ) := by norm_num
  rw [toArcsin, e0, e1, ← e]
  rfl

theorem array_to_arcsin_default_eq_model (sps : Sps ℝ) (mean var x : ℝ) :
    array_to_arcsin_default sps x mean var = toArcsin (cdfOf sps) mean var none none x := by
  have e := array_to_uniform_eq_model sps mean var ((0:Nat):ℝ) ((1:Nat):ℝ) x
  have e0 : ((0.0:ℝ)) = ((0:Nat):ℝ) := by norm_num
  have e1 : ((1.0:ℝ)) = ((1:Nat):ℝ) := by norm_num
  have e2 : ((2.0:ℝ)) = ((2:Nat):ℝ) := by norm_num
  rw [toArcsin, e0, e1, ← e]
  simp only [Option.getD_none, arcsinDefaultA, arcsinDefaultB, e2]
  rfl

theorem array_to_uquad_eq_model (sps : Sps ℝ) (mean var a b x : ℝ) :
    array_to_uquad sps x mean var a b = toUquad (cdfOf sps) mean var (some a) (some b) x := by
  have e := array_to_uniform_eq_model sps mean var ((0:Nat):ℝ) ((1:Nat):ℝ) x
  have e0 : ((0.0:ℝ)) = ((0:Nat):ℝ) := by norm_num
  have e1 : ((1.0:ℝ)) = ((1:Nat):ℝ) := by norm_num
  rw [toUquad, e0, e1, ← e, Option.getD_some, Option.getD_some, ← uniform_to_uquad_eq_model]
  rfl

theorem array_to_uquad_default_eq_model (sps : Sps ℝ) (mean var x : ℝ) :
    array_to_uquad_default sps x mean var = toUquad (cdfOf sps) mean var none none x := by
  have e := array_to_uniform_eq_model sps mean var ((0:Nat):ℝ) ((1:Nat):ℝ) x
  have e0 : ((0.0:ℝ)) = ((0:Nat):ℝ) := by norm_num
  have e1 : ((1.0:ℝ)) = ((1:Nat):ℝ) := by norm_num
  have e5 : ((5.0:ℝ)) = ((5:Nat):ℝ) := by norm_num
  have e3 : ((3.0:ℝ)) = ((3:Nat):ℝ) := by norm_num
  rw [toUquad, e0, e1, ← e, Option.getD_none, Option.getD_none, ← uniform_to_uquad_eq_model]
  simp only [uquadDefaultA, uquadDefaultB, e5, e3]
  rfl

theorem zh_arg (e : ℝ) : ((2:Nat):ℝ) * ((0.5:ℝ) * (((1:Nat):ℝ) + e)) - ((1:Nat):ℝ) = e := by
  push_cast; ring

theorem array_zinnharvey_high_eq_model (sps : Sps ℝ) (mean var x : ℝ) :
    array_zinnharvey_high sps x mean var = zinnharvey (cdfOf sps) (ppfOf sps) true mean var x := by
  simp only [array_zinnharvey_high, zinnharvey, zhCore, cdfOf, ppfOf, standardize, zh_arg, if_true]

theorem array_zinnharvey_low_eq_model (sps : Sps ℝ) (mean var x : ℝ) :
    array_zinnharvey_low sps x mean var = zinnharvey (cdfOf sps) (ppfOf sps) false mean var x := by
  simp only [array_zinnharvey_low, zinnharvey, zhCore, cdfOf, ppfOf, standardize, zh_arg, Bool.false_eq_true,
    if_false]

end GSV.Props.GenTieTransform
