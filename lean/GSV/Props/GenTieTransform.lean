/-
  Tie A for the one-line array transforms (C19): the hand-written scalar maps of `GSV.Model.Transform`
  (`toLognormal`, `boxcox`, `forceMoments`, `toUniform`, `uniformToArcsin`, `uniformToUquad`, `toArcsin`, `toUquad`,
  `zinnharvey`) are EQUAL over `ℝ`, for all parameters and data, to the definitions that `vlib/pyexpr2lean.py`
  regenerates from the current text of `src/gstools/transform/array.py` on every run of `./check`
  (`GSV/Gen/TransformFormulas.lean`).

  The theorems `*_eq_model_real` are the registered obligations, proved by `tie_real` (`GSV/Props/GenTieReal.lean`:
  unfold, vocabulary, normal form of roots / powers / ring subterms — `√(2 var) = √2 √var` needs no hypothesis —, split,
  `ring1 | ring_nf | field_simp; ring1`), which keeps checking when a source formula is rewritten into a real-equal one
  (`(a + b) / 2` -> `a + (b - a) / 2`, folding `√2`, `√var` and the sign of `array_zinnharvey` into one scalar) and stops
  checking on a semantic edit.  No side condition is needed: the equalities hold for all real arguments (also for
  `var ≤ 0`, where both sides contain the same totalised `√`).  The carrier-polymorphic `rfl` form of the three
  equalities that re-associate nothing is in `GenTieTransformExact.lean` (informative).

  * The model is written in terms of the standard normal cdf `Φ` and its quantile function (parameters
    `cdf ppf`), the code in terms of `scipy.special.erf / erfinv` (parameter `sps : Sps α` of the generated
    definitions).  The tie instantiates `cdf := cdfOf sps = z ↦ 0.5 (1 + erf (z / √2))` and
    `ppf := ppfOf sps = u ↦ √2 erfinv (2u − 1)`, i.e. exactly the expressions the code writes; that scipy's `erf`
    makes `cdfOf` the normal cdf is the trusted fact named in DESIGN §4 C19.
  * `np.mean(field)` / `np.var(field)` of the array argument are scalar parameters (`mean_of_field`,
    `var_of_field`) of the generated `array_force_moments`; the tie instantiates them with the model's
    `lmean` / `lvar` of the sample.
  * `mean=None` / `var=None` (moments taken from the sample) are not generated: the generated definitions take
    `mean`, `var` as given numbers, like the model.  Optional bounds `a`, `b` are generated in both variants.
  * `array_discrete` (loop over thresholds, sorting) is outside the subset: tie B only.
-/
import GSV.RealInst
import GSV.Props.GenTieReal
import GSV.Model.Transform
import GSV.Gen.TransformFormulas

set_option linter.unusedSectionVars false

namespace GSV.Props.GenTieTransform
open GSV GSV.Transc GSV.PyExpr GSV.Model.Transform GSV.Gen.TransformFormulas GSV.Props.GenTieReal

variable {α : Type} [Arith α] [Transc α] [DecidableLT α] [DecidableLE α]

/-- the normal cdf as the code writes it: `0.5 * (1 + erf(z / sqrt 2))` -/
def cdfOf (sps : Sps α) (z : α) : α := (0.5:α) * (((1:Nat):α) + sps.erf (z / sqrt ((2:Nat):α)))
/-- the normal quantile function as the code writes it: `sqrt 2 * erfinv(2 u - 1)` -/
def ppfOf (sps : Sps α) (u : α) : α := sqrt ((2:Nat):α) * sps.erfinv (((2:Nat):α) * u - ((1:Nat):α))

theorem isclose_zero_real (x : ℝ) : PyExpr.isclose x ((0:Nat):ℝ) = lmbdaIsZero x := by
  simp [PyExpr.isclose, lmbdaIsZero]

/-! ### the obligations: equality over `ℝ`, robust against real-equal rewrites of the source

`tie_tf G, M` unfolds the generated definition `G`, the model function `M` and the model's helpers (the generated
definitions have the helpers of `array.py` inlined by the translator), reads `np.isclose(lmbda, 0)` as the model's
`lmbdaIsZero`, and runs `tie_real`. -/

local macro "tie_tf " g:ident ", " m:ident : tactic =>
  `(tactic| tie_real [$g:ident, $m:ident, toUniform, uniformToArcsin, uniformToUquad, cdfOf, ppfOf, standardize, zhCore,
      toLognormal, maxZero, arcsinDefaultA, arcsinDefaultB, uquadDefaultA, uquadDefaultB, Option.getD_some, Option.getD_none,
      isclose_zero_real])

theorem array_to_lognormal_eq_model_real (x : ℝ) : array_to_lognormal x = toLognormal x := by
  tie_tf array_to_lognormal, toLognormal
theorem uniform_to_arcsin_eq_model_real (a b u : ℝ) : _uniform_to_arcsin u a b = uniformToArcsin a b u := by
  tie_tf _uniform_to_arcsin, uniformToArcsin
/-- `array_force_moments`: every element is mapped by the generated formula with the sample moments -/
theorem array_force_moments_eq_model_real (mean var : ℝ) (l : List ℝ) :
    forceMoments mean var l = l.map fun x => array_force_moments (lmean l) (lvar l) x mean var := by
  simp only [forceMoments]
  refine List.map_congr_left fun x _ => ?_
  tie_tf array_force_moments, array_force_moments
theorem array_boxcox_eq_model_real (lmbda shift x : ℝ) : array_boxcox x lmbda shift = boxcox lmbda shift x := by
  tie_tf array_boxcox, boxcox
/-- the cube-root branches: the code fills `y > 0` first and `y < 0` second, the model tests `0 < y` first -/
theorem uniform_to_uquad_eq_model_real (a b u : ℝ) : _uniform_to_uquad u a b = uniformToUquad a b u := by
  tie_tf _uniform_to_uquad, uniformToUquad
theorem array_to_uniform_eq_model_real (sps : Sps ℝ) (mean var low high x : ℝ) :
    array_to_uniform sps x mean var low high = toUniform (cdfOf sps) mean var low high x := by
  tie_tf array_to_uniform, toUniform
theorem array_to_arcsin_eq_model_real (sps : Sps ℝ) (mean var a b x : ℝ) :
    array_to_arcsin sps x mean var a b = toArcsin (cdfOf sps) mean var (some a) (some b) x := by
  tie_tf array_to_arcsin, toArcsin
theorem array_to_arcsin_default_eq_model_real (sps : Sps ℝ) (mean var x : ℝ) :
    array_to_arcsin_default sps x mean var = toArcsin (cdfOf sps) mean var none none x := by
  tie_tf array_to_arcsin_default, toArcsin
theorem array_to_uquad_eq_model_real (sps : Sps ℝ) (mean var a b x : ℝ) :
    array_to_uquad sps x mean var a b = toUquad (cdfOf sps) mean var (some a) (some b) x := by
  tie_tf array_to_uquad, toUquad
theorem array_to_uquad_default_eq_model_real (sps : Sps ℝ) (mean var x : ℝ) :
    array_to_uquad_default sps x mean var = toUquad (cdfOf sps) mean var none none x := by
  tie_tf array_to_uquad_default, toUquad
theorem array_zinnharvey_high_eq_model_real (sps : Sps ℝ) (mean var x : ℝ) :
    array_zinnharvey_high sps x mean var = zinnharvey (cdfOf sps) (ppfOf sps) true mean var x := by
  tie_tf array_zinnharvey_high, zinnharvey
theorem array_zinnharvey_low_eq_model_real (sps : Sps ℝ) (mean var x : ℝ) :
    array_zinnharvey_low sps x mean var = zinnharvey (cdfOf sps) (ppfOf sps) false mean var x := by
  tie_tf array_zinnharvey_low, zinnharvey

/-- the statements are about non-trivial objects: e.g. `array_to_uniform` with `erf := id` at `x = mean` is the midpoint
    `(low + high) / 2` on both sides -/
example (mean var low high : ℝ) :
    array_to_uniform ⟨id, id, id, id, fun _ x => x, fun _ x => x, fun _ x => x, fun _ _ _ x => x⟩ mean mean var low high
      = (low + high) / 2 := by
  simp only [array_to_uniform, id, sub_self, zero_div]; push_cast; norm_num; ring

end GSV.Props.GenTieTransform
