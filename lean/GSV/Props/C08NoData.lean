/-
  C08 — missing-value sentinels of the estimators' glue (`vario_estimate_axis(no_data=…)`, `vario_estimate(no_data=…)`):
  the sentinel is a value.  A cell equal to the sentinel is excluded whatever the sentinel is — in particular `0` —, a NaN
  sentinel means "NaN cells", masked cells are always excluded.  Together with `C08.ma_structured_eq_definition` (masked pairs are
  skipped by the kernel) this is the "pair enumeration over non-missing cells" of the along-axis estimator.
-/
import GSV.RealInst
import GSV.Model.Vario
import Mathlib.Tactic.Positivity
import Mathlib.Tactic.Linarith
import Mathlib.Tactic.NormNum
namespace GSV.Props.C08NoData
open GSV GSV.Transc GSV.Model.Vario

set_option linter.unusedSectionVars false

/-! ## law-free facts (any carrier, NaN included) -/
section lawfree
variable {α : Type} [Arith α] [Transc α] [DecidableLT α] [DecidableLE α]

/-- a masked cell is missing, whatever the sentinel and the value underneath -/
theorem axisMissing_masked (nd v : α) : axisMissing true nd v = true := by
  simp [axisMissing]

/-- NaN sentinel (the default): missing = masked or NaN -/
theorem axisMissing_nan_sentinel (m : Bool) (nd v : α) (h : isnan nd = true) :
    axisMissing m nd v = (m || isnan v) := by
  simp [axisMissing, h]

/-- any other sentinel: missing = masked or `isclose(value, sentinel)`; nothing else about the sentinel (its sign, its
    truthiness, its type) enters -/
theorem axisMissing_value_sentinel (m : Bool) (nd v : α) (h : isnan nd = false) :
    axisMissing m nd v = (m || isclose v nd) := by
  simp [axisMissing, h]

/-- `vario_estimate(no_data=nd)`: an unmasked value that is close to the sentinel reaches the kernel as NaN -/
theorem cellValue_close_sentinel (nan nd : α) (f : Nat → Nat → α) (fmask : Nat → Nat → Bool) (m p : Nat)
    (hm : fmask m p = false) (hc : isclose (f m p) nd = true) :
    cellValue nan f fmask (some nd) m p = nan := by
  simp [cellValue, hm, hc]

/-- … and a value that is not close to it is handed on unchanged -/
theorem cellValue_far_sentinel (nan nd : α) (f : Nat → Nat → α) (fmask : Nat → Nat → Bool) (m p : Nat)
    (hm : fmask m p = false) (hc : isclose (f m p) nd = false) :
    cellValue nan f fmask (some nd) m p = f m p := by
  simp [cellValue, hm, hc]

end lawfree

/-! ## over ℝ -/

/-- every value is close to itself: a cell holding the sentinel is always hit -/
theorem isclose_self (v : ℝ) : isclose v v = true := by
  unfold isclose
  simp only [sub_self, fabs_real, abs_zero, decide_eq_true_eq]
  have : (0:ℝ) ≤ |v| := abs_nonneg v
  have h8 : (0:ℝ) < (1e-8 : ℝ) := by norm_num
  have h5 : (0:ℝ) < (1e-5 : ℝ) := by norm_num
  nlinarith

/-- the sentinel `0`: exactly the cells with `|v| ≤ 1e-8` (the absolute tolerance of `np.isclose`) -/
theorem isclose_zero_iff (v : ℝ) : isclose v 0 = true ↔ |v| ≤ (1e-8 : ℝ) := by
  unfold isclose
  simp only [sub_zero, fabs_real, abs_zero, mul_zero, add_zero, decide_eq_true_eq]

/-- a cell holding the sentinel is missing — for EVERY sentinel value, `0` included -/
theorem axisMissing_hits_sentinel (m : Bool) (nd : ℝ) : axisMissing m nd nd = true := by
  simp [axisMissing, isclose_self]

/-- with the sentinel `0` an unmasked cell is missing iff it is zero up to the absolute tolerance -/
theorem axisMissing_zero_sentinel (v : ℝ) : axisMissing false 0 v = true ↔ |v| ≤ (1e-8 : ℝ) := by
  simp [axisMissing, isclose_zero_iff]

/-- a cell far from the sentinel (relative 1e-5, absolute 1e-8) is kept -/
theorem axisMissing_far (nd v : ℝ) (h : (1e-8 : ℝ) + (1e-5 : ℝ) * |nd| < |v - nd|) : axisMissing false nd v = false := by
  simp only [axisMissing, isnan_real, Bool.false_or, Bool.false_eq_true, if_false]
  unfold isclose
  simp only [fabs_real, decide_eq_false_iff_not, not_le]
  exact h

/-- `vario_estimate(no_data=nd)`: an unmasked value equal to the sentinel reaches the kernel as the missing marker -/
theorem cellValue_hits_sentinel (nan nd : ℝ) (f : Nat → Nat → ℝ) (fmask : Nat → Nat → Bool) (m p : Nat)
    (hm : fmask m p = false) (hv : f m p = nd) :
    cellValue nan f fmask (some nd) m p = nan :=
  cellValue_close_sentinel nan nd f fmask m p hm (by rw [hv]; exact isclose_self nd)

/-! the hypotheses are satisfiable by non-trivial objects -/
example : axisMissing false (0:ℝ) 0 = true := axisMissing_hits_sentinel false 0
example : axisMissing false (0:ℝ) 1 = false := axisMissing_far 0 1 (by norm_num)
example : axisMissing false (-9999:ℝ) 0 = false := axisMissing_far (-9999) 0 (by norm_num)

end GSV.Props.C08NoData
