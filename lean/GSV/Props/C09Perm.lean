/-
  C09 (permutation invariance) — the isotropic variogram estimate does not depend on the order of the points.

  From the C08 specification (bin i = accumulation over the list of qualifying (pair, field) triples, regenerated
  from estimator.pyx): re-indexing the points by any permutation σ (positions and field values together) leaves
  every pair COUNT unchanged on any carrier (law-free), and every SUM / estimate unchanged over ℝ.  The proof is the
  re-indexing of unordered pairs: {j,k} ↦ {σ j, σ k} is a bijection of the index pairs `j < k < np`, and each pair's
  contribution is symmetric in (j, k) because the distance is symmetric and the estimator term is even.
-/
import GSV.Props.C09
namespace GSV.Props.C09Perm
open GSV GSV.Transc GSV.Estimator GSV.Props GSV.Props.C08 Finset

set_option linter.unusedSectionVars false

/-! ### index pairs as a finset and their re-indexing -/

/-- ordered index pairs `j < k < n` -/
def P (n : ℕ) : Finset (ℕ × ℕ) := ((range n) ×ˢ (range n)).filter fun p => p.1 < p.2

theorem mem_P {n : ℕ} {p : ℕ × ℕ} : p ∈ P n ↔ p.1 < p.2 ∧ p.2 < n := by
  simp only [P, mem_filter, mem_product, mem_range]
  constructor
  · rintro ⟨⟨_, h2⟩, h3⟩; exact ⟨h3, h2⟩
  · rintro ⟨h1, h2⟩; exact ⟨⟨by omega, h2⟩, h1⟩

theorem pairs_toFinset (n : ℕ) : (pairs n).toFinset = P n := by
  ext p; rw [List.mem_toFinset, mem_pairs, mem_P]

theorem sum_pairs_list {M : Type} [AddCommMonoid M] (n : ℕ) (g : ℕ × ℕ → M) :
    ((pairs n).map g).sum = ∑ p ∈ P n, g p := by
  rw [← pairs_toFinset, List.sum_toFinset _ (nodup_pairs n)]

/-- a permutation of `{0,…,n-1}` given with its inverse -/
structure IsPerm (n : ℕ) (σ τ : ℕ → ℕ) : Prop where
  map : ∀ p, p < n → σ p < n
  inv_map : ∀ p, p < n → τ p < n
  left : ∀ p, p < n → τ (σ p) = p
  right : ∀ p, p < n → σ (τ p) = p

theorem IsPerm.symm {n : ℕ} {σ τ : ℕ → ℕ} (h : IsPerm n σ τ) : IsPerm n τ σ :=
  ⟨h.inv_map, h.map, h.right, h.left⟩

theorem IsPerm.inj {n : ℕ} {σ τ : ℕ → ℕ} (h : IsPerm n σ τ) {a b : ℕ} (ha : a < n) (hb : b < n) (e : σ a = σ b) : a = b := by
  rw [← h.left a ha, ← h.left b hb, e]

/-- the unordered image pair, ordered -/
def img (σ : ℕ → ℕ) (p : ℕ × ℕ) : ℕ × ℕ := (min (σ p.1) (σ p.2), max (σ p.1) (σ p.2))

theorem img_mem {n : ℕ} {σ τ : ℕ → ℕ} (h : IsPerm n σ τ) {p : ℕ × ℕ} (hp : p ∈ P n) : img σ p ∈ P n := by
  rw [mem_P] at hp ⊢
  have h1 := h.map p.1 (by omega)
  have h2 := h.map p.2 hp.2
  have hne : σ p.1 ≠ σ p.2 := fun e => by have := h.inj (by omega) hp.2 e; omega
  simp only [img]
  constructor
  · rcases Nat.lt_or_ge (σ p.1) (σ p.2) with hl | hl
    · rw [min_eq_left hl.le, max_eq_right hl.le]; exact hl
    · have : σ p.2 < σ p.1 := by omega
      rw [min_eq_right this.le, max_eq_left this.le]; exact this
  · exact max_lt h1 h2

theorem img_img {n : ℕ} {σ τ : ℕ → ℕ} (h : IsPerm n σ τ) {p : ℕ × ℕ} (hp : p ∈ P n) : img τ (img σ p) = p := by
  rw [mem_P] at hp
  have l1 := h.left p.1 (by omega)
  have l2 := h.left p.2 hp.2
  obtain ⟨a, b⟩ := p
  simp only [img] at *
  rcases Nat.lt_or_ge (σ a) (σ b) with hl | hl
  · rw [min_eq_left hl.le, max_eq_right hl.le, l1, l2, min_eq_left hp.1.le, max_eq_right hp.1.le]
  · rw [min_eq_right hl, max_eq_left hl, l1, l2, min_eq_right hp.1.le, max_eq_left hp.1.le]

/-- **re-indexing of unordered pairs**: for a symmetric `G`, summing `G (σ j) (σ k)` over the pairs `j < k < n` is
    summing `G j k` over them — in any commutative monoid (ℝ for the sums, ℤ for the counts) -/
theorem sum_P_perm {M : Type} [AddCommMonoid M] {n : ℕ} {σ τ : ℕ → ℕ} (h : IsPerm n σ τ) (G : ℕ → ℕ → M)
    (hsym : ∀ a b, G a b = G b a) :
    ∑ p ∈ P n, G (σ p.1) (σ p.2) = ∑ p ∈ P n, G p.1 p.2 := by
  refine Finset.sum_bij' (fun p _ => img σ p) (fun q _ => img τ q)
    (fun p hp => img_mem h hp) (fun q hq => img_mem h.symm hq)
    (fun p hp => img_img h hp) (fun q hq => img_img h.symm hq) ?_
  intro p _
  simp only [img]
  rcases Nat.lt_or_ge (σ p.1) (σ p.2) with hl | hl
  · rw [min_eq_left hl.le, max_eq_right hl.le]
  · rw [min_eq_right hl, max_eq_left hl, hsym]

/-! ### the triple-list accumulation as a sum over pairs -/
section lists
variable {α : Type} [Arith α] [Transc α] [DecidableLT α] [DecidableLE α]

theorem sum_flatMap_filter {M : Type} [AddCommMonoid M] {β : Type} (l : List (ℕ × ℕ)) (sel : ℕ × ℕ → Bool)
    (F : ℕ × ℕ → List β) (g : β → M) :
    (((l.filter sel).flatMap F).map g).sum = (l.map fun p => if sel p = true then ((F p).map g).sum else 0).sum := by
  induction l with
  | nil => simp
  | cons p l ih =>
    by_cases hs : sel p = true
    · simp [hs, List.flatMap_cons, ih]
    · simp [hs, ih]

/-- per-pair number of usable fields -/
def pairCount (f : Nat → Nat → α) (nf j k : Nat) : Int := ((validFields f nf j k).length : Int)

theorem validFields_symm (f : Nat → Nat → α) (nf j k : Nat) : validFields f nf j k = validFields f nf k j := by
  unfold validFields
  congr 1; funext m
  simp only [or_comm]

/-- **count of a cell = sum over the selected pairs of their usable fields** (law-free) -/
theorem triples_length (f : Nat → Nat → α) (nf np : Nat) (sel : Nat × Nat → Bool) :
    ((triples f nf np sel).length : Int) = ∑ p ∈ P np, if sel p = true then pairCount f nf p.1 p.2 else 0 := by
  have h := sum_flatMap_filter (M := Int) (pairs np) sel
    (fun p => (validFields f nf p.1 p.2).map fun m => (p.1, p.2, m)) (fun _ => (1:Int))
  have e1 : ((triples f nf np sel).length : Int) = ((triples f nf np sel).map fun _ => (1:Int)).sum := by
    simp
  rw [e1]
  unfold triples
  rw [h, sum_pairs_list]
  refine Finset.sum_congr rfl fun p _ => ?_
  split
  · simp [pairCount, List.map_map, Function.comp_def]
  · rfl

end lists

/-- `foldl (a + h t)` is `a + Σ h` over ℝ -/
theorem foldl_add_eq_sum {β : Type} (l : List β) (h : β → ℝ) (a : ℝ) :
    l.foldl (fun a t => a + h t) a = a + (l.map h).sum := by
  induction l generalizing a with
  | nil => simp
  | cons t l ih => simp only [List.foldl_cons, ih, List.map_cons, List.sum_cons]; ring

/-- per-pair sum of estimator terms -/
noncomputable def pairSum (f : Nat → Nat → ℝ) (est : ℝ → ℝ) (nf j k : Nat) : ℝ :=
  ((validFields f nf j k).map fun m => est (f m k - f m j)).sum

theorem pairSum_symm (f : Nat → Nat → ℝ) (est : ℝ → ℝ) (heven : ∀ x, est (-x) = est x) (nf j k : Nat) :
    pairSum f est nf j k = pairSum f est nf k j := by
  unfold pairSum
  rw [validFields_symm]
  congr 1
  refine List.map_congr_left fun m _ => ?_
  rw [← heven]; congr 1; ring

/-- **sum of a cell = sum over the selected pairs of their estimator terms** (ℝ) -/
theorem triples_sum (f : Nat → Nat → ℝ) (est : ℝ → ℝ) (nf np : Nat) (sel : Nat × Nat → Bool) :
    (triples f nf np sel).foldl (fun a t => a + est (f t.2.2 t.2.1 - f t.2.2 t.1)) ((0:Nat):ℝ) =
      ∑ p ∈ P np, if sel p = true then pairSum f est nf p.1 p.2 else 0 := by
  rw [foldl_add_eq_sum, Nat.cast_zero, zero_add]
  have h := sum_flatMap_filter (M := ℝ) (pairs np) sel
    (fun p => (validFields f nf p.1 p.2).map fun m => (p.1, p.2, m))
    (fun t => est (f t.2.2 t.2.1 - f t.2.2 t.1))
  unfold triples
  rw [h, sum_pairs_list]
  refine Finset.sum_congr rfl fun p _ => ?_
  split
  · simp [pairSum, List.map_map, Function.comp_def]
  · rfl

/-! ### permutation invariance of `unstructured` -/

theorem estimator_even (et : String) (x : ℝ) : (choose_estimator_func et : ℝ → ℝ) (-x) = choose_estimator_func et x := by
  unfold choose_estimator_func
  split
  · simp [estimator_matheron]
  · simp [estimator_cressie]

theorem dist_euclid_symm (dim : Nat) (pos : Nat → Nat → ℝ) (p0 p1 j k : Nat) :
    dist_euclid dim pos p0 p1 j k = dist_euclid dim pos p0 p1 k j := by
  rw [C09.dist_euclid_real, C09.dist_euclid_real]
  congr 1
  exact Finset.sum_congr rfl fun d _ => by ring

/-- **C09 perm_invariant (isotropic estimator, Euclidean distance, ℝ)**: for every admissible schedule, every
    estimator and every permutation σ of the `np` points, estimating on the re-indexed data (positions and all
    fields permuted together) gives the same count and the same value in every bin. -/
theorem unstructured_perm_invariant (sched : Sched) (hs : sched.Admissible)
    (f : Nat → Nat → ℝ) (nf f1 : Nat) (bins : Nat → ℝ) (nb : Nat) (pos : Nat → Nat → ℝ) (dim np : Nat)
    (et dt : String) (σ τ : ℕ → ℕ) (hσ : IsPerm np σ τ)
    (hsymm : ∀ j k, distOf dt dim pos dim np j k = distOf dt dim pos dim np k j)
    (i : Nat) (hi : i < nb - 1) :
    (unstructured sched (fun m p => f m (σ p)) nf f1 bins nb (fun d p => pos d (σ p)) dim np et dt).2 i =
      (unstructured sched f nf f1 bins nb pos dim np et dt).2 i ∧
    (unstructured sched (fun m p => f m (σ p)) nf f1 bins nb (fun d p => pos d (σ p)) dim np et dt).1 i =
      (unstructured sched f nf f1 bins nb pos dim np et dt).1 i := by
  have A := unstructured_eq_definition sched hs (fun m p => f m (σ p)) nf f1 bins nb (fun d p => pos d (σ p)) dim np et dt i hi
  have B := unstructured_eq_definition sched hs f nf f1 bins nb pos dim np et dt i hi
  simp only [] at A B
  -- the selection on the permuted data is the selection at the images
  have hsel : ∀ p : ℕ × ℕ, inBin (distOf dt dim (fun d p => pos d (σ p)) dim np) bins i p =
      inBin (distOf dt dim pos dim np) bins i (σ p.1, σ p.2) := fun p => rfl
  have hselsym : ∀ a b, inBin (distOf dt dim pos dim np) bins i (a, b) = inBin (distOf dt dim pos dim np) bins i (b, a) := by
    intro a b; unfold inBin; simp only [hsymm a b]
  -- counts
  have hc : ((triples (fun m p => f m (σ p)) nf np (inBin (distOf dt dim (fun d p => pos d (σ p)) dim np) bins i)).length : Int) =
      ((triples f nf np (inBin (distOf dt dim pos dim np) bins i)).length : Int) := by
    rw [triples_length, triples_length]
    have := sum_P_perm hσ (fun a b => if inBin (distOf dt dim pos dim np) bins i (a, b) = true then pairCount f nf a b else 0)
      (by intro a b; simp only [hselsym a b, pairCount, validFields_symm f nf a b])
    rw [← this]
    exact Finset.sum_congr rfl fun p _ => by rw [hsel p]; rfl
  -- sums
  have hsum : (triples (fun m p => f m (σ p)) nf np (inBin (distOf dt dim (fun d p => pos d (σ p)) dim np) bins i)).foldl
        (fun a t => a + choose_estimator_func et ((fun m p => f m (σ p)) t.2.2 t.2.1 - (fun m p => f m (σ p)) t.2.2 t.1)) ((0:Nat):ℝ) =
      (triples f nf np (inBin (distOf dt dim pos dim np) bins i)).foldl
        (fun a t => a + choose_estimator_func et (f t.2.2 t.2.1 - f t.2.2 t.1)) ((0:Nat):ℝ) := by
    rw [triples_sum (fun m p => f m (σ p)) (choose_estimator_func et), triples_sum f (choose_estimator_func et)]
    have := sum_P_perm hσ (fun a b => if inBin (distOf dt dim pos dim np) bins i (a, b) = true
        then pairSum f (choose_estimator_func et) nf a b else 0)
      (by intro a b; simp only [hselsym a b, pairSum_symm f _ (estimator_even et) nf a b])
    rw [← this]
    exact Finset.sum_congr rfl fun p _ => by rw [hsel p]; rfl
  refine ⟨by rw [A.1, B.1, hc], ?_⟩
  rw [A.2, B.2, hc]
  congr 1

/-- the Euclidean instance (`dt = "e"`), hypothesis-free apart from σ being a permutation -/
theorem unstructured_perm_invariant_euclid (sched : Sched) (hs : sched.Admissible)
    (f : Nat → Nat → ℝ) (nf f1 : Nat) (bins : Nat → ℝ) (nb : Nat) (pos : Nat → Nat → ℝ) (dim np : Nat)
    (et : String) (σ τ : ℕ → ℕ) (hσ : IsPerm np σ τ) (i : Nat) (hi : i < nb - 1) :
    (unstructured sched (fun m p => f m (σ p)) nf f1 bins nb (fun d p => pos d (σ p)) dim np et "e").2 i =
      (unstructured sched f nf f1 bins nb pos dim np et "e").2 i ∧
    (unstructured sched (fun m p => f m (σ p)) nf f1 bins nb (fun d p => pos d (σ p)) dim np et "e").1 i =
      (unstructured sched f nf f1 bins nb pos dim np et "e").1 i :=
  unstructured_perm_invariant sched hs f nf f1 bins nb pos dim np et "e" σ τ hσ
    (fun j k => by unfold distOf; simp only [if_true, beq_self_eq_true]; exact dist_euclid_symm dim pos dim np j k) i hi

/-! ### Cressie–Hawkins estimator: scaling the field by `a` scales the estimate by `a²` -/

theorem accum_scale_cressie (f : Nat → Nat → ℝ) (a : ℝ) (l : List (Nat × Nat × Nat)) (v : ℝ) (c : Int) :
    accum (fun m p => a * f m p) (choose_estimator_func "c") l (Real.sqrt |a| * v, c) =
      (Real.sqrt |a| * (accum f (choose_estimator_func "c") l (v, c)).1, (accum f (choose_estimator_func "c") l (v, c)).2) := by
  unfold accum
  induction l generalizing v c with
  | nil => rfl
  | cons t l ih =>
    simp only [List.foldl_cons]
    have : Real.sqrt |a| * v + (choose_estimator_func "c" : ℝ → ℝ) (a * f t.2.2 t.2.1 - a * f t.2.2 t.1) =
        Real.sqrt |a| * (v + (choose_estimator_func "c" : ℝ → ℝ) (f t.2.2 t.2.1 - f t.2.2 t.1)) := by
      rw [cressie_estimator_real, cressie_estimator_real, ← mul_sub, abs_mul, Real.sqrt_mul (abs_nonneg a)]; ring
    rw [this, ih]

theorem normCressie_scale (s v : ℝ) (c : Int) : normCressie (s * v) c = s ^ 4 * normCressie v c := by
  unfold normCressie
  simp only [npow_real]
  ring

/-- **C09 cressie_scale_square**: for every schedule, scaling all field values by `a` scales the Cressie–Hawkins
    estimate of every bin by `a²` and leaves the counts unchanged -/
theorem cressie_scale_square (sched : Sched) (hs : sched.Admissible)
    (f : Nat → Nat → ℝ) (a : ℝ) (nf f1 : Nat) (bins : Nat → ℝ) (nb : Nat) (pos : Nat → Nat → ℝ) (dim np : Nat)
    (dt : String) (i : Nat) (hi : i < nb - 1) :
    (unstructured sched (fun m p => a * f m p) nf f1 bins nb pos dim np "c" dt).1 i =
      a ^ 2 * (unstructured sched f nf f1 bins nb pos dim np "c" dt).1 i ∧
    (unstructured sched (fun m p => a * f m p) nf f1 bins nb pos dim np "c" dt).2 i =
      (unstructured sched f nf f1 bins nb pos dim np "c" dt).2 i := by
  have h1 := unstructured_spec sched hs (fun m p => a * f m p) nf f1 bins nb pos dim np "c" dt i
  have h2 := unstructured_spec sched hs f nf f1 bins nb pos dim np "c" dt i
  simp only [hi, if_true] at h1 h2
  have e1 := congrArg Prod.fst h1; have e2 := congrArg Prod.snd h1
  have e3 := congrArg Prod.fst h2; have e4 := congrArg Prod.snd h2
  simp only [] at e1 e2 e3 e4
  rw [e1, e2, e3, e4, binCell_eq_accum, binCell_eq_accum]
  have hT : triples (fun m p => a * f m p) nf np (inBin (distOf dt dim pos dim np) bins i) =
      triples f nf np (inBin (distOf dt dim pos dim np) bins i) := by
    unfold triples validFields; simp
  rw [hT]
  have key : accum (fun m p => a * f m p) (choose_estimator_func "c")
      (triples f nf np (inBin (distOf dt dim pos dim np) bins i)) ((((0:Nat):ℝ)), (0:Int)) =
      (Real.sqrt |a| * (accum f (choose_estimator_func "c") (triples f nf np (inBin (distOf dt dim pos dim np) bins i)) ((((0:Nat):ℝ)), (0:Int))).1,
       (accum f (choose_estimator_func "c") (triples f nf np (inBin (distOf dt dim pos dim np) bins i)) ((((0:Nat):ℝ)), (0:Int))).2) := by
    have := accum_scale_cressie f a (triples f nf np (inBin (distOf dt dim pos dim np) bins i)) 0 0
    simpa using this
  rw [key]
  constructor
  · have hn : ∀ v c, normOf "c" (v : ℝ) c = normCressie v c := fun v c => by unfold normOf; simp
    rw [hn, hn, normCressie_scale]
    have : Real.sqrt |a| ^ 4 = a ^ 2 := by
      have h2 : Real.sqrt |a| ^ 2 = |a| := Real.sq_sqrt (abs_nonneg a)
      calc Real.sqrt |a| ^ 4 = (Real.sqrt |a| ^ 2) ^ 2 := by ring
        _ = |a| ^ 2 := by rw [h2]
        _ = a ^ 2 := sq_abs a
    rw [this]
  · rfl

/-- non-vacuity: the transposition of the first two of three points is a permutation -/
example : IsPerm 3 (fun p => if p = 0 then 1 else if p = 1 then 0 else p) (fun p => if p = 0 then 1 else if p = 1 then 0 else p) := by
  constructor <;> intro p hp <;> (have : p = 0 ∨ p = 1 ∨ p = 2 := by omega) <;> rcases this with rfl | rfl | rfl <;> simp

end GSV.Props.C09Perm
