/-
  C12 — the Fourier generator under the change of coordinates: how the PERIOD and the anisotropy enter the mode lattice.

  `C12Compose.srf_fourier_aniso_eq_iso` takes the mode lattice and the spectrum factors as given arrays.  Here they are the
  ones `Fourier.update` / `_set_modes` / `reset_seed` compute (`GSV/Model/Fourier.lean`, the model C17 is about):
      `delta_k[d] = 2π / period[d] * anis'[d]`,  `anis' = [1] ++ model.anis`,
      `modes = generate_grid(arange(-m_d//2, m_d//2) * delta_k[d])`,  `sf = sqrt(S(|k|) * prod(delta_k))`.

  What "the same computation with the isotropic model at the transformed positions" is for this generator (worked out from the
  code): the generator lives in the isotropic coordinates `y = S⁻¹Rᵀx`; a period `P_d` along the `d`-th rotated main axis of the
  raw coordinates is the period `P_d / anis'_d` of `y_d`.  So
  * `fourier_deltaK_iso_period`: the spacing of the model with ratios `anis` and period `P` IS the spacing of the isotropic model
    (all ratios 1) with the period `P / anis'`;
  * `fourier_grid_iso_period`, `fourier_specfactor_iso_period`: hence the same mode lattice and the same spectrum factors
    (any spectrum `S`, any requested counts);
  * `srf_fourier_period_aniso_eq_iso`: `SRF(model(angles, anis), generator="Fourier", period=P, mode_no=m)(x)` equals
    `SRF(isotropic unrotated model, generator="Fourier", period=P/anis', mode_no=m)(isometrize x)` for the same amplitudes
    (seed), and equals the mode sum at the RAW positions with the wave vectors `Mᵀ k`;
  * `fourier_phase_main_axis`: along the `i`-th rotated main axis the phase of a lattice mode is `k_i · t / anis'_i`
    `= n_i · 2π t / P_i` — the ratio cancels, the field has period `P_i` there whatever the ratio is (periodicity itself, for shifts of
    whole point sets and after any update history, is C17 / C17General), while the spectrum is sampled at `|k|` with
    `k_i = n_i · 2π anis'_i / P_i`: the length scale along that axis is `len_scale · anis'_i` in the raw coordinates;
  * `fourier_deltaK_wrong_direction`: the spacing `2π / (P · anis')` (ratio on the wrong side) is a different lattice as soon
    as a ratio differs from 1.
-/
import GSV.Props.C12Compose
import GSV.Lemmas.Fourier
namespace GSV.Props.C12
open GSV GSV.Model.Geo GSV.Lemmas.Geo GSV.Model.Pipe GSV.Model.Gen Matrix

set_option linter.unusedSectionVars false

/-- `model.anis` (the padded list of `dim − 1` ratios) as the array the Fourier generator indexes -/
noncomputable def anisFn (d : Nat) (anis : List ℝ) : Nat → ℝ := fun k => (setAnis d anis).getD k 1

/-- the period of the isotropic twin in ITS coordinates: `P_d / anis'_d` -/
noncomputable def isoPeriod (period anis : Nat → ℝ) : Nat → ℝ := fun d => period d / Model.Fourier.anisP anis d

/-- positive ratios: every entry of `[1] ++ model.anis` (and the padding beyond) is positive -/
theorem anisP_anisFn_pos (d : Nat) (anis : List ℝ) (h : ∀ a ∈ anis, 0 < a) (k : Nat) :
    0 < Model.Fourier.anisP (anisFn d anis) k := by
  unfold Model.Fourier.anisP anisFn
  by_cases h0 : k = 0
  · simp [h0]
  · rw [if_neg h0, List.getD_eq_getElem?_getD]
    cases hk : (setAnis d anis)[k - 1]? with
    | none => simp
    | some a =>
      simp only [Option.getD_some]
      exact setAnis_pos h a (List.mem_of_getElem? hk)

/-- `[1] ++ model.anis` is what `stretch` (the diagonal of `S`) is on the axes that exist -/
theorem anisP_anisFn_eq_stretch (d : Nat) (anis : List ℝ) (i : Fin d) :
    Model.Fourier.anisP (anisFn d anis) i = stretch d anis i := by
  unfold Model.Fourier.anisP anisFn stretch
  rcases i with ⟨_ | k, hk⟩
  · simp
  · have hlen : k < (setAnis d anis).length := by rw [length_setAnis]; omega
    simp [List.getD_eq_getElem?_getD, List.getElem?_eq_getElem hlen]

/-- **the spacing**: `2π / P_d · anis'_d = 2π / (P_d / anis'_d) · 1` -/
theorem fourier_deltaK_iso_period (period anis : Nat → ℝ) (d : Nat) (ha : Model.Fourier.anisP anis d ≠ 0) :
    Model.Fourier.deltaK period anis d = Model.Fourier.deltaK (isoPeriod period anis) (fun _ => 1) d := by
  rw [GSV.Fourier.deltaK_real, GSV.Fourier.deltaK_real]
  have h1 : Model.Fourier.anisP (fun _ => (1:ℝ)) d = 1 := by unfold Model.Fourier.anisP; split <;> simp
  rw [h1, isoPeriod]
  by_cases hp : period d = 0
  · simp [hp]
  · field_simp

theorem fourier_deltaK_fn_iso_period (period anis : Nat → ℝ) (ha : ∀ d, Model.Fourier.anisP anis d ≠ 0) :
    Model.Fourier.deltaK period anis = Model.Fourier.deltaK (isoPeriod period anis) (fun _ => 1) :=
  funext fun d => fourier_deltaK_iso_period period anis d (ha d)

/-- **the mode lattice** of the model with ratios `anis` and period `P` is the lattice of the isotropic model with period `P / anis'` -/
theorem fourier_grid_iso_period (mreq : Nat → Nat) (period anis : Nat → ℝ) (ha : ∀ d, Model.Fourier.anisP anis d ≠ 0) (dim : Nat) :
    Model.Fourier.modesGrid mreq (Model.Fourier.deltaK period anis) dim
      = Model.Fourier.modesGrid mreq (Model.Fourier.deltaK (isoPeriod period anis) (fun _ => 1)) dim := by
  rw [fourier_deltaK_fn_iso_period period anis ha]

/-- **the spectrum factors** `sqrt(S(|k_j|) · prod(delta_k))` coincide as well (any spectrum `S`) -/
theorem fourier_specfactor_iso_period (spec : ℝ → ℝ) (mreq : Nat → Nat) (period anis : Nat → ℝ)
    (ha : ∀ d, Model.Fourier.anisP anis d ≠ 0) (dim : Nat) :
    Model.Fourier.specFactor spec (Model.Fourier.modesGrid mreq (Model.Fourier.deltaK period anis) dim)
        (Model.Fourier.deltaK period anis) dim
      = Model.Fourier.specFactor spec
        (Model.Fourier.modesGrid mreq (Model.Fourier.deltaK (isoPeriod period anis) (fun _ => 1)) dim)
        (Model.Fourier.deltaK (isoPeriod period anis) (fun _ => 1)) dim := by
  rw [fourier_deltaK_fn_iso_period period anis ha]

/-- **C12 pipeline, Fourier generator with its period, concrete**: the field of the model with `(angles, anis)` generated with
    period `P` and requested mode counts `mreq` at `x` — lattice and spectrum factors as `Fourier.update` computes them from
    `P` and the model's ratios — equals
    (1) the field of the ISOTROPIC UNROTATED model generated with period `P / [1, anis]` (same counts, same amplitudes) at
        `isometrize x`, and
    (2) the same mode sum at the RAW positions with the wave vectors `Mᵀ k`.
    Every dimension, every angle list, every list of positive ratios, every spectrum, every amplitudes. -/
theorem srf_fourier_period_aniso_eq_iso (spec : ℝ → ℝ) (mreq : Nat → Nat) (period : Nat → ℝ) (z1 z2 : Nat → ℝ)
    (d : Nat) (angles anis : List ℝ) (ha : ∀ a ∈ anis, 0 < a) (pos : Nat → Nat → ℝ) (N X i : Nat) :
    let dk := Model.Fourier.deltaK period (anisFn d anis)
    let modes := Model.Fourier.modesGrid mreq dk d
    let sf := Model.Fourier.specFactor spec modes dk d
    let dk' := Model.Fourier.deltaK (isoPeriod period (anisFn d anis)) (fun _ => 1)
    let modes' := Model.Fourier.modesGrid mreq dk' d
    let sf' := Model.Fourier.specFactor spec modes' dk' d
    srfFourier sf modes z1 z2 d angles anis pos N X i
      = srfFourier sf' modes' z1 z2 d ([] : List ℝ) [] (isoPos d angles anis pos) N X i ∧
    srfFourier sf modes z1 z2 d angles anis pos N X i
      = fourierField sf (modesT d angles anis modes) z1 z2 pos d N X i := by
  intro dk modes sf dk' modes' sf'
  have hne : ∀ k, Model.Fourier.anisP (anisFn d anis) k ≠ 0 := fun k => (anisP_anisFn_pos d anis ha k).ne'
  have hdk : dk = dk' := fourier_deltaK_fn_iso_period period (anisFn d anis) hne
  have hm : modes = modes' := by simp only [modes, modes', hdk]
  have hsf : sf = sf' := by simp only [sf, sf', modes, modes', hdk]
  rw [← hm, ← hsf]
  exact srf_fourier_aniso_eq_iso sf modes z1 z2 d angles anis pos N X i

/-- **along the `i`-th rotated main axis** the phase of a wave vector `k` at `isometrize(t · axis_i)` is `k_i · t / anis'_i`: for the
    lattice mode `k_i = n · 2π / P_i · anis'_i` this is `n · 2π t / P_i` (the ratio cancels — period `P_i` along that axis), while `|k|`, at
    which the spectrum of the model is sampled, carries `anis'_i` (length scale `len_scale · anis'_i` along that axis) -/
theorem fourier_phase_main_axis (d : Nat) (angles anis : List ℝ) (ha : ∀ a ∈ anis, 0 < a) (i : Fin d) (t : ℝ)
    (k : Nat → ℝ) (n : ℤ) (P : ℝ) (hk : k i = (n : ℝ) * (2 * Real.pi / P * Model.Fourier.anisP (anisFn d anis) i)) :
    Model.Geo.phase d k (isometrize d angles anis (fun e => t * mainAxes d angles i e)) = (n : ℝ) * (2 * Real.pi / P) * t := by
  rw [phase_eq, isometrize_main_axis, dotProduct_single, toV_apply, hk, anisP_anisFn_eq_stretch]
  have hs := (stretch_pos ha i).ne'
  field_simp

/-- the spacing with the ratio on the WRONG side, `2π / (P_d · anis'_d)`, is a different lattice whenever `anis'_d ≠ 1`
    (ratios positive, period non-zero): it is the lattice of the ratio `1 / anis'_d` -/
theorem fourier_deltaK_wrong_direction (period anis : Nat → ℝ) (d : Nat) (hp : period d ≠ 0)
    (ha : 0 < Model.Fourier.anisP anis d) (h1 : Model.Fourier.anisP anis d ≠ 1) :
    2 * Real.pi / (period d * Model.Fourier.anisP anis d) ≠ Model.Fourier.deltaK period anis d := by
  rw [GSV.Fourier.deltaK_real]
  intro h
  have hpi := Real.pi_pos
  have ha' := ha.ne'
  field_simp at h
  have h2 : Model.Fourier.anisP anis d ^ 2 = 1 := by nlinarith [h]
  have : Model.Fourier.anisP anis d = 1 := by
    rcases sq_eq_one_iff.1 h2 with h3 | h3
    · exact h3
    · linarith
  exact h1 this

/-- the hypotheses are satisfiable: 2-D, ratio 1/2, period 10 in both directions -/
example : (∀ a ∈ ([1/2] : List ℝ), 0 < a) ∧ Model.Fourier.anisP (anisFn 2 [1/2]) 1 = 1/2 ∧
    isoPeriod (fun _ => 10) (anisFn 2 [1/2]) 1 = 20 := by
  refine ⟨by simp, ?_, ?_⟩
  · simp [Model.Fourier.anisP, anisFn, setAnis]
  · simp [isoPeriod, Model.Fourier.anisP, anisFn, setAnis]; norm_num

end GSV.Props.C12
