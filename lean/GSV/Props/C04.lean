/-
  C04 — Spectral representation is the Fourier pair of the covariance.

  Theorems on `ℝ` about the executable model `GSV/Model/Spectral.lean` (the same text the driver runs on
  `Float` against the real `gstools` code):
  * `rad_fac` is the surface area of the (d−1)-sphere (derivative of the volume of the d-ball) and the
    code's Γ-formula agrees with its d = 1, 2, 3 shortcuts;
  * `spectrum = var · density`, `spectral_rad_pdf = rad_fac · |density|` with the `r ≈ 0` rule and clipping;
  * Gaussian, every dimension: the reported density is the d-dimensional Fourier transform of the
    correlation (code's convention `(1/2π)^d ∫ ρ(‖r‖) e^{i⟨k,r⟩} dr`);
  * radial cdf / pdf / ppf consistency for every closed form the code offers (Gaussian, Exponential,
    d = 1, 2, 3): `cdf' = pdf`, `cdf 0 = 0`, `cdf → 1`, `∫₀^∞ pdf = 1`, `ppf ∘ cdf = id`, `cdf ∘ ppf = id`.
  * in-place changes (§10): after any history of setter calls the transform object `_sft` is the one of the current
    dimension and `hankel_kw`, the state equals that of a freshly constructed model, hence the numerical default
    transforms in the current dimension and the Gaussian density is the Fourier pair in the current dimension;
  * truncated power law models (§11): density and correlation combine the same rescaled lengths with the same
    weights, so the density is the transform of the correlation whenever the single-scale pairs are.
  `erf` is *defined* as `2/√π ∫₀ˣ e^{-t²}` (`GSV.Lemmas.Spectral.erfR`).
-/
import GSV.RealInst
import GSV.Model.Spectral
import GSV.Lemmas.Spectral
import Mathlib.Analysis.SpecialFunctions.Gaussian.FourierTransform
import Mathlib.MeasureTheory.Measure.Lebesgue.VolumeOfBalls
import Mathlib.Analysis.SpecialFunctions.Pow.Deriv
import Mathlib.Analysis.SpecialFunctions.ImproperIntegrals
import Mathlib.Analysis.SpecialFunctions.Sqrt
import Mathlib.Tactic.Ring
import Mathlib.Tactic.Linarith
import Mathlib.Tactic.FieldSimp
import Mathlib.Tactic.Positivity

namespace GSV.Props.C04
open Real MeasureTheory Filter Topology Set GSV GSV.Model.Spectral GSV.Lemmas.Spectral

/-! ## 1. `rad_fac` -/

/-- the d = 1, 2, 3 shortcuts of `rad_fac` are `2`, `2πr`, `4πr²` -/
theorem rad_fac_low (r : ℝ) :
    radFac 1 r = 2 ∧ radFac 2 r = 2 * π * r ∧ radFac 3 r = 4 * π * r ^ 2 := by
  refine ⟨?_, ?_, ?_⟩ <;> simp [radFac]

/-- in every dimension `d ≥ 1` the value of `rad_fac` is the general formula
    `d r^{d-1} √π^d / Γ(d/2+1)` — the shortcuts for d = 1, 2, 3 agree with the `else` branch -/
theorem rad_fac_gamma_formula (d : ℕ) (hd : 1 ≤ d) (r : ℝ) :
    radFac d r = d * r ^ (d - 1) * √π ^ d / Real.Gamma ((d:ℝ) / 2 + 1) := by
  have hg : Real.Gamma ((d:ℝ) / 2 + 1) = gammaHalf (d + 2) := by
    rw [gammaHalf_eq (d + 2) (by omega)]; congr 1; push_cast; ring
  have hpi : √π ≠ 0 := (Real.sqrt_pos.mpr Real.pi_pos).ne'
  have hsq : √π ^ 2 = π := Real.sq_sqrt Real.pi_pos.le
  rw [hg]
  match d, hd with
  | 1, _ => simp [radFac, gammaHalf]; field_simp
  | 2, _ => simp [radFac, gammaHalf, hsq]; ring
  | 3, _ =>
    simp [radFac, gammaHalf]
    have : √π ^ 3 = π * √π := by rw [pow_succ, hsq]
    rw [this]; field_simp; ring
  | n + 4, _ => simp [radFac]

/-- **`rad_fac` is the surface area of the (d−1)-sphere**: it is the derivative in the radius of the
    Lebesgue volume of the d-dimensional Euclidean ball. -/
theorem rad_fac_sphere_area (n : ℕ) (r : ℝ) (hr : 0 < r) :
    HasDerivAt (fun ρ : ℝ => (volume (Metric.ball (0 : EuclideanSpace ℝ (Fin (n + 1))) ρ)).toReal)
      (radFac (n + 1) r) r := by
  set c : ℝ := √π ^ (n + 1) / Real.Gamma (((n + 1 : ℕ):ℝ) / 2 + 1) with hc
  have hcpos : 0 ≤ c := by
    have : 0 < Real.Gamma (((n + 1 : ℕ):ℝ) / 2 + 1) := Real.Gamma_pos_of_pos (by positivity)
    positivity
  have hev : (fun ρ : ℝ => (volume (Metric.ball (0 : EuclideanSpace ℝ (Fin (n + 1))) ρ)).toReal)
      =ᶠ[𝓝 r] fun ρ => ρ ^ (n + 1) * c := by
    filter_upwards [lt_mem_nhds hr] with ρ hρ
    rw [EuclideanSpace.volume_ball, Fintype.card_fin, ENNReal.toReal_mul, ENNReal.toReal_pow,
      ENNReal.toReal_ofReal hρ.le, ENNReal.toReal_ofReal]
    simpa [hc] using hcpos
  have hd : HasDerivAt (fun ρ : ℝ => ρ ^ (n + 1) * c) (((n + 1 : ℕ):ℝ) * r ^ n * c) r := by
    simpa using (hasDerivAt_pow (n + 1) r).mul_const c
  have e : radFac (n + 1) r = ((n + 1 : ℕ):ℝ) * r ^ n * c := by
    rw [rad_fac_gamma_formula (n + 1) (by omega) r, hc]; simp; ring
  rw [e]
  exact hd.congr_of_eventuallyEq hev

/-! ## 2. `spectrum`, `spectral_rad_pdf` -/

/-- `spectrum = var · density` -/
theorem spectrum_def (var : ℝ) (dens : ℝ → ℝ) (k : ℝ) : Model.Spectral.spectrum var dens k = var * dens k := by
  unfold Model.Spectral.spectrum; ring

theorem finish_real (x : ℝ) : finish x = max x 0 := by
  unfold finish
  simp only [isnan_real, Bool.false_eq_true, if_false, Nat.cast_zero]
  split_ifs with h
  · exact (max_eq_right h.le).symm
  · exact (max_eq_left (not_lt.mp h)).symm

/-- `spectral_rad_pdf(r) = rad_fac(|r|) · |density(|r|)|`, set to `0` where `|r| ≤ 1e-8` if `d > 1`,
    clipped at `0` -/
theorem rad_pdf_def (d : ℕ) (dens : ℝ → ℝ) (r : ℝ) :
    radPdf d dens r =
      if 1 < d ∧ |r| ≤ 1e-8 then 0 else max (radFac d |r| * abs (dens |r|)) 0 := by
  unfold radPdf isclose0
  simp only [fabs_real, abs_abs, finish_real, Nat.cast_zero, decide_eq_true_eq, gt_iff_lt]
  by_cases h1 : 1 < d <;> by_cases h2 : |r| ≤ 1e-8 <;> simp [h1, h2]

theorem rad_pdf_nonneg (d : ℕ) (dens : ℝ → ℝ) (r : ℝ) : 0 ≤ radPdf d dens r := by
  rw [rad_pdf_def]; split_ifs <;> simp

theorem gammaHalf_pos (n : ℕ) (hn : 1 ≤ n) : 0 < (gammaHalf n : ℝ) := by
  rw [gammaHalf_eq n hn]; exact Real.Gamma_pos_of_pos (by positivity)

theorem rad_fac_nonneg (d : ℕ) (hd : 1 ≤ d) (r : ℝ) (hr : 0 ≤ r) : 0 ≤ radFac d r := by
  rw [rad_fac_gamma_formula d hd r]
  have : 0 < Real.Gamma ((d:ℝ) / 2 + 1) := Real.Gamma_pos_of_pos (by positivity)
  positivity

/-- outside the `r ≈ 0` band (or for `d = 1`), for a non-negative density, the radial pdf is exactly
    surface factor × density -/
theorem rad_pdf_eq_smooth (d : ℕ) (hd : 1 ≤ d) (dens : ℝ → ℝ) (r : ℝ) (hr : 0 ≤ r)
    (hband : d = 1 ∨ 1e-8 < r) (hdens : 0 ≤ dens r) :
    radPdf d dens r = radFac d r * dens r := by
  rw [rad_pdf_def, abs_of_nonneg hr, abs_of_nonneg hdens]
  have hn : ¬ (1 < d ∧ r ≤ 1e-8) := by
    rintro ⟨h1, h2⟩
    rcases hband with h | h
    · omega
    · linarith
  rw [if_neg hn, max_eq_left (mul_nonneg (rad_fac_nonneg d hd r hr) hdens)]

example : (1:ℕ) ≤ 2 ∧ (0:ℝ) ≤ 1 ∧ ((2:ℕ) = 1 ∨ (1e-8:ℝ) < 1) ∧ (0:ℝ) ≤ gauDensity 2 1 1 := by
  refine ⟨by norm_num, by norm_num, Or.inr (by norm_num), ?_⟩
  unfold gauDensity; simp; positivity

/-! ## 3. Gaussian: the density is the Fourier transform of the correlation, in every dimension -/

theorem gauDensity_real (d : ℕ) (ℓ k : ℝ) :
    gauDensity d ℓ k = (ℓ / 2 / √π) ^ d * Real.exp (-(k * ℓ / 2) ^ 2) := by
  simp [gauDensity]

theorem gau_correlation_real (ℓ r : ℝ) : correlation gauCor ℓ r = Real.exp (-(r / ℓ) ^ 2) := by
  simp [correlation, gauCor]

section Fourier
open Complex
variable {V : Type*} [NormedAddCommGroup V] [InnerProductSpace ℝ V] [FiniteDimensional ℝ V]
  [MeasurableSpace V] [BorelSpace V]

/-- **Gaussian, every dimension** (any finite-dimensional real inner-product space `V`, `d = dim V`):
    with the code's convention `S̃(k) = (1/2π)^d ∫ ρ(‖r‖) e^{i⟨k,r⟩} dr` the transform of
    `correlation(r) = cor(r / len_rescaled) = exp(-(r/ℓ)²)` is exactly `Gaussian.spectral_density`,
    `(ℓ/2/√π)^d · exp(-(‖k‖ℓ/2)²)`. -/
theorem gaussian_density_is_fourier (ℓ : ℝ) (hℓ : 0 < ℓ) (k : V) :
    ((1 / (2 * π) : ℝ) : ℂ) ^ (Module.finrank ℝ V) *
        ∫ v : V, ((correlation gauCor ℓ ‖v‖ : ℝ) : ℂ) * cexp (I * ((inner ℝ k v : ℝ) : ℂ))
      = ((gauDensity (Module.finrank ℝ V) ℓ ‖k‖ : ℝ) : ℂ) := by
  set n := Module.finrank ℝ V with hn
  have hb : 0 < ((1 / ℓ ^ 2 : ℝ) : ℂ).re := by
    rw [Complex.ofReal_re]; positivity
  have hint : ∀ v : V, ((correlation gauCor ℓ ‖v‖ : ℝ) : ℂ) * cexp (I * ((inner ℝ k v : ℝ) : ℂ))
      = cexp (-((1 / ℓ ^ 2 : ℝ) : ℂ) * (‖v‖ : ℂ) ^ 2 + I * ((inner ℝ k v : ℝ) : ℂ)) := by
    intro v
    rw [gau_correlation_real, Complex.exp_add, Complex.ofReal_exp]
    congr 2
    push_cast
    field_simp
  simp_rw [hint]
  rw [GaussianFourier.integral_cexp_neg_mul_sq_norm_add hb I k, gauDensity_real]
  have hπ : (0:ℝ) < π := Real.pi_pos
  have hsq : √π ^ 2 = π := Real.sq_sqrt hπ.le
  have hsqne : √π ≠ 0 := (Real.sqrt_pos.mpr hπ).ne'
  -- the prefactor
  have h1 : ((π : ℂ) / ((1 / ℓ ^ 2 : ℝ) : ℂ)) ^ ((n : ℂ) / 2) = (((√π * ℓ) ^ n : ℝ) : ℂ) := by
    have e1 : ((π : ℂ) / ((1 / ℓ ^ 2 : ℝ) : ℂ)) = (((√π * ℓ) ^ 2 : ℝ) : ℂ) := by
      rw [mul_pow, hsq]; push_cast; field_simp
    have e2 : ((n : ℂ) / 2) = (((n : ℝ) / 2 : ℝ) : ℂ) := by push_cast; ring
    have hpos : 0 ≤ (√π * ℓ) ^ 2 := by positivity
    rw [e1, e2, ← Complex.ofReal_cpow hpos]
    congr 1
    rw [← Real.rpow_natCast ((√π * ℓ)) 2, ← Real.rpow_mul (by positivity)]
    have : ((2:ℕ):ℝ) * ((n:ℝ) / 2) = n := by push_cast; ring
    rw [this, Real.rpow_natCast]
  -- the exponent
  have h2 : cexp (I ^ 2 * (‖k‖ : ℂ) ^ 2 / (4 * ((1 / ℓ ^ 2 : ℝ) : ℂ)))
      = ((Real.exp (-(‖k‖ * ℓ / 2) ^ 2) : ℝ) : ℂ) := by
    rw [Complex.ofReal_exp]
    congr 1
    rw [Complex.I_sq]
    push_cast
    field_simp
    ring
  rw [h1, h2]
  rw [← Complex.ofReal_pow, ← Complex.ofReal_mul, ← Complex.ofReal_mul]
  congr 1
  rw [← mul_assoc, ← mul_pow]
  congr 2
  field_simp
  rw [hsq]

end Fourier

/-- the same statement for `ℝ^d` with the Euclidean norm -/
theorem gaussian_density_is_fourier_euclidean (d : ℕ) (ℓ : ℝ) (hℓ : 0 < ℓ) (k : EuclideanSpace ℝ (Fin d)) :
    ((1 / (2 * π) : ℝ) : ℂ) ^ d *
        ∫ v : EuclideanSpace ℝ (Fin d), ((correlation gauCor ℓ ‖v‖ : ℝ) : ℂ) *
          Complex.exp (Complex.I * ((inner ℝ k v : ℝ) : ℂ))
      = ((gauDensity d ℓ ‖k‖ : ℝ) : ℂ) := by
  have h := gaussian_density_is_fourier (V := EuclideanSpace ℝ (Fin d)) ℓ hℓ k
  rwa [finrank_euclideanSpace, Fintype.card_fin] at h


/-! ## 4. radial cdf / pdf consistency

`Offers c F` says that the option-valued model function `c` (the code returns `None` in dimensions it does
not cover) offers the total function `F`.  Each theorem is stated for *whatever* function is offered. -/

/-- the option-valued `c` offers the function `F` -/
def Offers (c : ℝ → Option ℝ) (F : ℝ → ℝ) : Prop := ∀ r, c r = some (F r)

theorem Offers.unique {c : ℝ → Option ℝ} {F G : ℝ → ℝ} (hF : Offers c F) (hG : Offers c G) : F = G := by
  funext r; have := (hF r).symm.trans (hG r); simpa using this

theorem offers_gaussian_d1 (ℓ : ℝ) : Offers (gauCdf specialR 1 ℓ) (fun r => erfR (r * ℓ / 2)) :=
  fun r => by simp [gauCdf]
theorem offers_gaussian_d2 (ℓ : ℝ) :
    Offers (gauCdf specialR 2 ℓ) (fun r => 1 - Real.exp (-(r * ℓ / 2) ^ 2)) :=
  fun r => by simp [gauCdf]
theorem offers_gaussian_d3 (ℓ : ℝ) :
    Offers (gauCdf specialR 3 ℓ)
      (fun r => erfR (r * ℓ / 2) - r * ℓ / √π * Real.exp (-(r * ℓ / 2) ^ 2)) :=
  fun r => by simp [gauCdf]
theorem offers_exponential_d1 (ℓ : ℝ) :
    Offers (expCdf 1 ℓ) (fun r => Real.arctan (r * ℓ) * 2 / π) :=
  fun r => by simp [expCdf, atan_real]
theorem offers_exponential_d2 (ℓ : ℝ) :
    Offers (expCdf 2 ℓ) (fun r => 1 - 1 / √(1 + (r * ℓ) ^ 2)) :=
  fun r => by simp [expCdf]
theorem offers_exponential_d3 (ℓ : ℝ) :
    Offers (expCdf 3 ℓ) (fun r => (Real.arctan (r * ℓ) - r * ℓ / (1 + (r * ℓ) ^ 2)) * 2 / π) :=
  fun r => by simp [expCdf, atan_real]

/-- in dimensions other than 1, 2, 3 nothing is offered (`has_cdf = False`) -/
theorem no_cdf_offered (d : ℕ) (hd : d ≠ 1 ∧ d ≠ 2 ∧ d ≠ 3) (ℓ : ℝ) (F : ℝ → ℝ) :
    ¬ Offers (gauCdf specialR d ℓ) F ∧ ¬ Offers (expCdf d ℓ) F := by
  obtain ⟨h1, h2, h3⟩ := hd
  constructor <;> intro h <;> have := h 0 <;>
  · match d, h1, h2, h3 with
    | 0, _, _, _ => simp [gauCdf, expCdf] at this
    | n + 4, _, _, _ => simp [gauCdf, expCdf] at this

private theorem sqrt_pi_ne : √π ≠ 0 := (Real.sqrt_pos.mpr Real.pi_pos).ne'
private theorem sqrt_pi_sq : √π ^ 2 = π := Real.sq_sqrt Real.pi_pos.le

private theorem hasDerivAt_half (ℓ r : ℝ) : HasDerivAt (fun r : ℝ => r * ℓ / 2) (ℓ / 2) r := by
  simpa using ((hasDerivAt_id r).mul_const ℓ).div_const 2

private theorem hasDerivAt_gauss_half (ℓ r : ℝ) :
    HasDerivAt (fun r : ℝ => Real.exp (-(r * ℓ / 2) ^ 2))
      (Real.exp (-(r * ℓ / 2) ^ 2) * (-(2 * (r * ℓ / 2) * (ℓ / 2)))) r := by
  have h0 : HasDerivAt (fun r : ℝ => -(r * ℓ / 2) ^ 2) (-(2 * (r * ℓ / 2) * (ℓ / 2))) r := by
    have h := ((hasDerivAt_half ℓ r).pow 2).neg
    exact (h : HasDerivAt (fun r : ℝ => -(r * ℓ / 2) ^ 2) _ r).congr_deriv (by norm_num)
  exact h0.exp

/-- Gaussian d = 1: `cdf' = rad_fac · density` at every `r` -/
theorem cdf_deriv_gaussian_d1 (ℓ : ℝ) {F : ℝ → ℝ} (hF : Offers (gauCdf specialR 1 ℓ) F) (r : ℝ) :
    HasDerivAt F (radFac 1 r * gauDensity 1 ℓ r) r := by
  rw [hF.unique (offers_gaussian_d1 ℓ)]
  have h := (hasDerivAt_erfR (r * ℓ / 2)).comp r (hasDerivAt_half ℓ r)
  refine (h : HasDerivAt (fun r : ℝ => erfR (r * ℓ / 2)) _ r).congr_deriv ?_
  rw [gauDensity_real]; simp only [radFac, Nat.cast_ofNat, pow_one]
  have := sqrt_pi_ne
  field_simp

/-- Gaussian d = 2 -/
theorem cdf_deriv_gaussian_d2 (ℓ : ℝ) {F : ℝ → ℝ} (hF : Offers (gauCdf specialR 2 ℓ) F) (r : ℝ) :
    HasDerivAt F (radFac 2 r * gauDensity 2 ℓ r) r := by
  rw [hF.unique (offers_gaussian_d2 ℓ)]
  have h := (hasDerivAt_gauss_half ℓ r).const_sub 1
  refine h.congr_deriv ?_
  rw [gauDensity_real]; simp only [radFac, Nat.cast_ofNat, pi_real]
  have := sqrt_pi_ne
  field_simp
  rw [sqrt_pi_sq]

/-- Gaussian d = 3 -/
theorem cdf_deriv_gaussian_d3 (ℓ : ℝ) {F : ℝ → ℝ} (hF : Offers (gauCdf specialR 3 ℓ) F) (r : ℝ) :
    HasDerivAt F (radFac 3 r * gauDensity 3 ℓ r) r := by
  rw [hF.unique (offers_gaussian_d3 ℓ)]
  have h1 := (hasDerivAt_erfR (r * ℓ / 2)).comp r (hasDerivAt_half ℓ r)
  have h2 : HasDerivAt (fun r : ℝ => r * ℓ / √π) (ℓ / √π) r := by
    simpa using ((hasDerivAt_id r).mul_const ℓ).div_const (√π)
  have h := (h1 : HasDerivAt (fun r : ℝ => erfR (r * ℓ / 2)) _ r).sub (h2.mul (hasDerivAt_gauss_half ℓ r))
  refine (h : HasDerivAt (fun r : ℝ => erfR (r * ℓ / 2) - r * ℓ / √π * Real.exp (-(r * ℓ / 2) ^ 2)) _ r).congr_deriv ?_
  rw [gauDensity_real]; simp only [radFac, Nat.cast_ofNat, pi_real, npow_real]
  have := sqrt_pi_ne
  field_simp
  rw [sqrt_pi_sq]; ring

/-! ### Exponential -/

theorem expDensity_d1 (ℓ k : ℝ) : expDensity 1 ℓ k = ℓ / (π * (1 + (k * ℓ) ^ 2)) := by
  unfold expDensity
  simp only [npow_real, rpow_real, pi_real, pow_one, Nat.cast_one]
  have : (((1 + 1 : ℕ) : ℝ) / ((2:ℕ):ℝ)) = 1 := by norm_num
  have g : (gammaHalf (1 + 1) : ℝ) = 1 := by show (gammaHalf 2 : ℝ) = 1; simp [gammaHalf]
  rw [this, Real.rpow_one, g, mul_one]

private theorem rpow_three_halves (a : ℝ) (ha : 0 ≤ a) : a ^ ((3:ℝ) / 2) = a * √a := by
  have : (3:ℝ) / 2 = 1 + 1 / 2 := by norm_num
  rcases ha.eq_or_lt with h | h
  · subst h; simp
  · rw [this, Real.rpow_add h, Real.rpow_one, Real.sqrt_eq_rpow]

theorem expDensity_d2 (ℓ k : ℝ) :
    expDensity 2 ℓ k = ℓ ^ 2 * (√π / 2) / ((π * (1 + (k * ℓ) ^ 2)) * √(π * (1 + (k * ℓ) ^ 2))) := by
  unfold expDensity
  simp only [npow_real, rpow_real, pi_real, gammaHalf, Nat.cast_one, sqrt_real]
  have e : (((2 + 1 : ℕ) : ℝ) / ((2:ℕ):ℝ)) = 3 / 2 := by norm_num
  have hy : 0 ≤ π * (1 + (k * ℓ) ^ 2) := by positivity
  rw [e, rpow_three_halves _ hy]
  norm_num
  ring

theorem expDensity_d3 (ℓ k : ℝ) : expDensity 3 ℓ k = ℓ ^ 3 / (π * (1 + (k * ℓ) ^ 2)) ^ 2 := by
  unfold expDensity
  simp only [npow_real, rpow_real, pi_real, gammaHalf, Nat.cast_one]
  have e : (((3 + 1 : ℕ) : ℝ) / ((2:ℕ):ℝ)) = ((2:ℕ):ℝ) := by norm_num
  rw [e, Real.rpow_natCast]
  norm_num

private theorem hasDerivAt_scaled (ℓ r : ℝ) : HasDerivAt (fun r : ℝ => r * ℓ) ℓ r := by
  simpa using (hasDerivAt_id r).mul_const ℓ

private theorem hasDerivAt_y (ℓ r : ℝ) :
    HasDerivAt (fun r : ℝ => 1 + (r * ℓ) ^ 2) (2 * (r * ℓ) * ℓ) r := by
  have h := ((hasDerivAt_scaled ℓ r).pow 2).const_add 1
  exact (h : HasDerivAt (fun r : ℝ => 1 + (r * ℓ) ^ 2) _ r).congr_deriv (by norm_num)

private theorem y_pos (ℓ r : ℝ) : 0 < 1 + (r * ℓ) ^ 2 := by positivity

/-- Exponential d = 1 -/
theorem cdf_deriv_exponential_d1 (ℓ : ℝ) {F : ℝ → ℝ} (hF : Offers (expCdf 1 ℓ) F) (r : ℝ) :
    HasDerivAt F (radFac 1 r * expDensity 1 ℓ r) r := by
  rw [hF.unique (offers_exponential_d1 ℓ)]
  have h := (((Real.hasDerivAt_arctan (r * ℓ)).comp r (hasDerivAt_scaled ℓ r)).mul_const 2).div_const π
  refine (h : HasDerivAt (fun r : ℝ => Real.arctan (r * ℓ) * 2 / π) _ r).congr_deriv ?_
  rw [expDensity_d1]; simp only [radFac, Nat.cast_ofNat]
  have := y_pos ℓ r
  have := Real.pi_pos
  field_simp

/-- Exponential d = 2 -/
theorem cdf_deriv_exponential_d2 (ℓ : ℝ) {F : ℝ → ℝ} (hF : Offers (expCdf 2 ℓ) F) (r : ℝ) :
    HasDerivAt F (radFac 2 r * expDensity 2 ℓ r) r := by
  rw [hF.unique (offers_exponential_d2 ℓ)]
  have hy := y_pos ℓ r
  have hs : √(1 + (r * ℓ) ^ 2) ≠ 0 := (Real.sqrt_pos.mpr hy).ne'
  have h := (((hasDerivAt_const r (1:ℝ)).div ((hasDerivAt_y ℓ r).sqrt hy.ne') hs)).const_sub 1
  refine (h : HasDerivAt (fun r : ℝ => 1 - 1 / √(1 + (r * ℓ) ^ 2)) _ r).congr_deriv ?_
  rw [expDensity_d2, Real.sqrt_mul Real.pi_pos.le]
  simp only [radFac, Nat.cast_ofNat, pi_real]
  have hsq : √(1 + (r * ℓ) ^ 2) ^ 2 = 1 + (r * ℓ) ^ 2 := Real.sq_sqrt hy.le
  set s := √(1 + (r * ℓ) ^ 2) with hsdef
  rw [← hsq]
  have := sqrt_pi_ne
  have := Real.pi_pos
  field_simp
  ring

/-- Exponential d = 3 -/
theorem cdf_deriv_exponential_d3 (ℓ : ℝ) {F : ℝ → ℝ} (hF : Offers (expCdf 3 ℓ) F) (r : ℝ) :
    HasDerivAt F (radFac 3 r * expDensity 3 ℓ r) r := by
  rw [hF.unique (offers_exponential_d3 ℓ)]
  have hy := y_pos ℓ r
  have h1 := (Real.hasDerivAt_arctan (r * ℓ)).comp r (hasDerivAt_scaled ℓ r)
  have h2 := (hasDerivAt_scaled ℓ r).div (hasDerivAt_y ℓ r) hy.ne'
  have h := (((h1 : HasDerivAt (fun r : ℝ => Real.arctan (r * ℓ)) _ r).sub h2).mul_const 2).div_const π
  refine (h : HasDerivAt (fun r : ℝ => (Real.arctan (r * ℓ) - r * ℓ / (1 + (r * ℓ) ^ 2)) * 2 / π) _ r).congr_deriv ?_
  rw [expDensity_d3]; simp only [radFac, Nat.cast_ofNat, pi_real, npow_real]
  have := Real.pi_pos
  field_simp
  ring


/-! ### `cdf 0 = 0`, `cdf → 1` -/

/-- every offered cdf starts at `0` -/
theorem cdf_zero (ℓ : ℝ) {F : ℝ → ℝ}
    (hF : Offers (gauCdf specialR 1 ℓ) F ∨ Offers (gauCdf specialR 2 ℓ) F ∨ Offers (gauCdf specialR 3 ℓ) F ∨
      Offers (expCdf 1 ℓ) F ∨ Offers (expCdf 2 ℓ) F ∨ Offers (expCdf 3 ℓ) F) : F 0 = 0 := by
  rcases hF with h | h | h | h | h | h
  · rw [h.unique (offers_gaussian_d1 ℓ)]; simp [erfR_zero]
  · rw [h.unique (offers_gaussian_d2 ℓ)]; simp
  · rw [h.unique (offers_gaussian_d3 ℓ)]; simp [erfR_zero]
  · rw [h.unique (offers_exponential_d1 ℓ)]; simp
  · rw [h.unique (offers_exponential_d2 ℓ)]; simp
  · rw [h.unique (offers_exponential_d3 ℓ)]; simp

private theorem tendsto_scaled {ℓ : ℝ} (hℓ : 0 < ℓ) : Tendsto (fun r : ℝ => r * ℓ) atTop atTop :=
  tendsto_id.atTop_mul_const hℓ

private theorem tendsto_half {ℓ : ℝ} (hℓ : 0 < ℓ) : Tendsto (fun r : ℝ => r * ℓ / 2) atTop atTop :=
  (tendsto_scaled hℓ).atTop_div_const two_pos

private theorem tendsto_gauss_half {ℓ : ℝ} (hℓ : 0 < ℓ) :
    Tendsto (fun r : ℝ => Real.exp (-(r * ℓ / 2) ^ 2)) atTop (𝓝 0) :=
  Real.tendsto_exp_neg_atTop_nhds_zero.comp ((tendsto_pow_atTop two_ne_zero).comp (tendsto_half hℓ))

/-- `t · e^{-t²} → 0` -/
private theorem tendsto_mul_gauss : Tendsto (fun t : ℝ => t * Real.exp (-t ^ 2)) atTop (𝓝 0) := by
  have h := Real.tendsto_pow_mul_exp_neg_atTop_nhds_zero 1
  refine tendsto_of_tendsto_of_tendsto_of_le_of_le' tendsto_const_nhds h ?_ ?_
  · filter_upwards [eventually_ge_atTop (0:ℝ)] with t ht
    positivity
  · filter_upwards [eventually_ge_atTop (1:ℝ)] with t ht
    have : -t ^ 2 ≤ -t := by nlinarith
    have := Real.exp_le_exp.mpr this
    simp only [pow_one]
    exact mul_le_mul_of_nonneg_left this (by linarith)

theorem cdf_tendsto_one_gaussian_d1 (ℓ : ℝ) (hℓ : 0 < ℓ) {F : ℝ → ℝ}
    (hF : Offers (gauCdf specialR 1 ℓ) F) : Tendsto F atTop (𝓝 1) := by
  rw [hF.unique (offers_gaussian_d1 ℓ)]
  exact tendsto_erfR_atTop.comp (tendsto_half hℓ)

theorem cdf_tendsto_one_gaussian_d2 (ℓ : ℝ) (hℓ : 0 < ℓ) {F : ℝ → ℝ}
    (hF : Offers (gauCdf specialR 2 ℓ) F) : Tendsto F atTop (𝓝 1) := by
  rw [hF.unique (offers_gaussian_d2 ℓ)]
  simpa using (tendsto_gauss_half hℓ).const_sub 1

theorem cdf_tendsto_one_gaussian_d3 (ℓ : ℝ) (hℓ : 0 < ℓ) {F : ℝ → ℝ}
    (hF : Offers (gauCdf specialR 3 ℓ) F) : Tendsto F atTop (𝓝 1) := by
  rw [hF.unique (offers_gaussian_d3 ℓ)]
  have h1 : Tendsto (fun r : ℝ => erfR (r * ℓ / 2)) atTop (𝓝 1) := tendsto_erfR_atTop.comp (tendsto_half hℓ)
  have h2 : Tendsto (fun r : ℝ => r * ℓ / √π * Real.exp (-(r * ℓ / 2) ^ 2)) atTop (𝓝 0) := by
    have h := (tendsto_mul_gauss.comp (tendsto_half hℓ)).const_mul (2 / √π)
    rw [mul_zero] at h
    refine h.congr fun r => ?_
    simp only [Function.comp]
    have := sqrt_pi_ne
    field_simp
  simpa using h1.sub h2

theorem cdf_tendsto_one_exponential_d1 (ℓ : ℝ) (hℓ : 0 < ℓ) {F : ℝ → ℝ}
    (hF : Offers (expCdf 1 ℓ) F) : Tendsto F atTop (𝓝 1) := by
  rw [hF.unique (offers_exponential_d1 ℓ)]
  have h := ((Real.tendsto_arctan_atTop.mono_right nhdsWithin_le_nhds).comp (tendsto_scaled hℓ))
  have h2 := (h.mul_const 2).div_const π
  have e : π / 2 * 2 / π = 1 := by have := Real.pi_pos; field_simp
  rw [e] at h2
  exact h2

theorem cdf_tendsto_one_exponential_d2 (ℓ : ℝ) (hℓ : 0 < ℓ) {F : ℝ → ℝ}
    (hF : Offers (expCdf 2 ℓ) F) : Tendsto F atTop (𝓝 1) := by
  rw [hF.unique (offers_exponential_d2 ℓ)]
  have hy : Tendsto (fun r : ℝ => 1 + (r * ℓ) ^ 2) atTop atTop :=
    tendsto_atTop_add_const_left _ _ ((tendsto_pow_atTop two_ne_zero).comp (tendsto_scaled hℓ))
  have hs : Tendsto (fun r : ℝ => √(1 + (r * ℓ) ^ 2)) atTop atTop := Real.tendsto_sqrt_atTop.comp hy
  have h := (tendsto_inv_atTop_zero.comp hs).const_sub 1
  simpa [one_div] using h

theorem cdf_tendsto_one_exponential_d3 (ℓ : ℝ) (hℓ : 0 < ℓ) {F : ℝ → ℝ}
    (hF : Offers (expCdf 3 ℓ) F) : Tendsto F atTop (𝓝 1) := by
  rw [hF.unique (offers_exponential_d3 ℓ)]
  have h1 := ((Real.tendsto_arctan_atTop.mono_right nhdsWithin_le_nhds).comp (tendsto_scaled hℓ))
  have hq : Tendsto (fun x : ℝ => x / (1 + x ^ 2)) atTop (𝓝 0) := by
    refine tendsto_of_tendsto_of_tendsto_of_le_of_le' tendsto_const_nhds tendsto_inv_atTop_zero ?_ ?_
    · filter_upwards [eventually_ge_atTop (0:ℝ)] with x hx
      positivity
    · filter_upwards [eventually_gt_atTop (0:ℝ)] with x hx
      rw [div_le_iff₀ (by positivity)]
      have : x⁻¹ * (1 + x ^ 2) = x⁻¹ + x := by field_simp
      rw [this]
      have : 0 < x⁻¹ := inv_pos.mpr hx
      linarith
  have h2 := hq.comp (tendsto_scaled hℓ)
  have h := ((h1.sub h2).mul_const 2).div_const π
  have e : (π / 2 - 0) * 2 / π = 1 := by have := Real.pi_pos; field_simp; ring
  rw [e] at h
  exact h

/-! ### the radial pdf integrates to one -/

theorem gauDensity_nonneg (d : ℕ) (ℓ k : ℝ) (hℓ : 0 ≤ ℓ) : 0 ≤ gauDensity d ℓ k := by
  rw [gauDensity_real]; positivity

theorem expDensity_nonneg (d : ℕ) (ℓ k : ℝ) (hℓ : 0 ≤ ℓ) : 0 ≤ expDensity d ℓ k := by
  unfold expDensity
  simp only [npow_real, rpow_real, pi_real]
  have : 0 < (gammaHalf (d + 1) : ℝ) := gammaHalf_pos _ (by omega)
  have : 0 ≤ π * (((1:ℕ):ℝ) + (k * ℓ) ^ 2) := by have := Real.pi_pos; positivity
  positivity

/-- **Gaussian, d = 1, 2, 3: `∫₀^∞ rad_fac(r) · density(r) dr = 1`** (and the integrand is integrable) -/
theorem rad_pdf_integrates_to_one_gaussian (d : ℕ) (hd : d = 1 ∨ d = 2 ∨ d = 3) (ℓ : ℝ) (hℓ : 0 < ℓ) :
    IntegrableOn (fun r => radFac d r * gauDensity d ℓ r) (Ioi 0) ∧
      ∫ r in Ioi (0:ℝ), radFac d r * gauDensity d ℓ r = 1 := by
  have hp : ∀ x ∈ Ioi (0:ℝ), 0 ≤ radFac d x * gauDensity d ℓ x := fun x hx =>
    mul_nonneg (rad_fac_nonneg d (by omega) x (le_of_lt hx)) (gauDensity_nonneg d ℓ x hℓ.le)
  rcases hd with rfl | rfl | rfl
  · exact integral_pdf_eq_one (cdf_zero ℓ (Or.inl (offers_gaussian_d1 ℓ)))
      (cdf_deriv_gaussian_d1 ℓ (offers_gaussian_d1 ℓ)) hp (cdf_tendsto_one_gaussian_d1 ℓ hℓ (offers_gaussian_d1 ℓ))
  · exact integral_pdf_eq_one (cdf_zero ℓ (Or.inr (Or.inl (offers_gaussian_d2 ℓ))))
      (cdf_deriv_gaussian_d2 ℓ (offers_gaussian_d2 ℓ)) hp (cdf_tendsto_one_gaussian_d2 ℓ hℓ (offers_gaussian_d2 ℓ))
  · exact integral_pdf_eq_one (cdf_zero ℓ (Or.inr (Or.inr (Or.inl (offers_gaussian_d3 ℓ)))))
      (cdf_deriv_gaussian_d3 ℓ (offers_gaussian_d3 ℓ)) hp (cdf_tendsto_one_gaussian_d3 ℓ hℓ (offers_gaussian_d3 ℓ))

/-- **Exponential, d = 1, 2, 3: `∫₀^∞ rad_fac(r) · density(r) dr = 1`** -/
theorem rad_pdf_integrates_to_one_exponential (d : ℕ) (hd : d = 1 ∨ d = 2 ∨ d = 3) (ℓ : ℝ) (hℓ : 0 < ℓ) :
    IntegrableOn (fun r => radFac d r * expDensity d ℓ r) (Ioi 0) ∧
      ∫ r in Ioi (0:ℝ), radFac d r * expDensity d ℓ r = 1 := by
  have hp : ∀ x ∈ Ioi (0:ℝ), 0 ≤ radFac d x * expDensity d ℓ x := fun x hx =>
    mul_nonneg (rad_fac_nonneg d (by omega) x (le_of_lt hx)) (expDensity_nonneg d ℓ x hℓ.le)
  rcases hd with rfl | rfl | rfl
  · exact integral_pdf_eq_one (cdf_zero ℓ (Or.inr (Or.inr (Or.inr (Or.inl (offers_exponential_d1 ℓ))))))
      (cdf_deriv_exponential_d1 ℓ (offers_exponential_d1 ℓ)) hp
      (cdf_tendsto_one_exponential_d1 ℓ hℓ (offers_exponential_d1 ℓ))
  · exact integral_pdf_eq_one
      (cdf_zero ℓ (Or.inr (Or.inr (Or.inr (Or.inr (Or.inl (offers_exponential_d2 ℓ)))))))
      (cdf_deriv_exponential_d2 ℓ (offers_exponential_d2 ℓ)) hp
      (cdf_tendsto_one_exponential_d2 ℓ hℓ (offers_exponential_d2 ℓ))
  · exact integral_pdf_eq_one
      (cdf_zero ℓ (Or.inr (Or.inr (Or.inr (Or.inr (Or.inr (offers_exponential_d3 ℓ)))))))
      (cdf_deriv_exponential_d3 ℓ (offers_exponential_d3 ℓ)) hp
      (cdf_tendsto_one_exponential_d3 ℓ hℓ (offers_exponential_d3 ℓ))

/-- the code's `spectral_rad_pdf` (with its `r ≈ 0` rule and clipping) *is* `cdf'` wherever the rule does
    not bite: Gaussian and Exponential, d = 1 (all `r ≥ 0`) and d = 2, 3 (`r > 1e-8`) -/
theorem cdf_deriv_is_rad_pdf (ℓ : ℝ) (hℓ : 0 < ℓ) (r : ℝ) (hr : 0 ≤ r) (d : ℕ) (hd : d = 1 ∨ d = 2 ∨ d = 3)
    (hband : d = 1 ∨ 1e-8 < r) {F G : ℝ → ℝ}
    (hF : Offers (gauCdf specialR d ℓ) F) (hG : Offers (expCdf d ℓ) G) :
    HasDerivAt F (radPdf d (gauDensity d ℓ) r) r ∧ HasDerivAt G (radPdf d (expDensity d ℓ) r) r := by
  rw [rad_pdf_eq_smooth d (by omega) _ r hr hband (gauDensity_nonneg d ℓ r hℓ.le),
    rad_pdf_eq_smooth d (by omega) _ r hr hband (expDensity_nonneg d ℓ r hℓ.le)]
  rcases hd with rfl | rfl | rfl
  · exact ⟨cdf_deriv_gaussian_d1 ℓ hF r, cdf_deriv_exponential_d1 ℓ hG r⟩
  · exact ⟨cdf_deriv_gaussian_d2 ℓ hF r, cdf_deriv_exponential_d2 ℓ hG r⟩
  · exact ⟨cdf_deriv_gaussian_d3 ℓ hF r, cdf_deriv_exponential_d3 ℓ hG r⟩


/-! ## 5. ppf / cdf inverses -/

/-- Gaussian d = 2: `cdf (ppf u) = u` on `[0, 1)` -/
theorem cdf_ppf_gaussian_d2 (ℓ : ℝ) (hℓ : 0 < ℓ) (u : ℝ) (hu : 0 ≤ u ∧ u < 1) :
    ∃ r, gauPpf specialR 2 ℓ u = some r ∧ gauCdf specialR 2 ℓ r = some u := by
  refine ⟨2 / ℓ * √(-Real.log (1 - u)), by simp [gauPpf], ?_⟩
  rw [offers_gaussian_d2 ℓ]
  congr 1
  have h1 : 0 < 1 - u := by linarith [hu.2]
  have h2 : 0 ≤ -Real.log (1 - u) := by
    have := Real.log_nonpos h1.le (by linarith [hu.1]); linarith
  have e : 2 / ℓ * √(-Real.log (1 - u)) * ℓ / 2 = √(-Real.log (1 - u)) := by field_simp
  beta_reduce
  rw [e, Real.sq_sqrt h2, neg_neg, Real.exp_log h1]; ring

/-- Gaussian d = 2: `ppf (cdf r) = r` for `r ≥ 0` -/
theorem ppf_cdf_gaussian_d2 (ℓ : ℝ) (hℓ : 0 < ℓ) (r : ℝ) (hr : 0 ≤ r) :
    ∃ u, gauCdf specialR 2 ℓ r = some u ∧ gauPpf specialR 2 ℓ u = some r := by
  refine ⟨1 - Real.exp (-(r * ℓ / 2) ^ 2), offers_gaussian_d2 ℓ r, ?_⟩
  simp only [gauPpf, log_real, sqrt_real, Nat.cast_ofNat, Nat.cast_one, Option.some.injEq]
  have e : (1:ℝ) - (1 - Real.exp (-(r * ℓ / 2) ^ 2)) = Real.exp (-(r * ℓ / 2) ^ 2) := by ring
  rw [e, Real.log_exp, neg_neg, Real.sqrt_sq (by positivity)]
  field_simp

/-- Exponential d = 1: `cdf (ppf u) = u` on `(-1, 1)` -/
theorem cdf_ppf_exponential_d1 (ℓ : ℝ) (hℓ : 0 < ℓ) (u : ℝ) (hu : -1 < u ∧ u < 1) :
    ∃ r, expPpf 1 ℓ u = .value r ∧ expCdf 1 ℓ r = some u := by
  refine ⟨Real.tan (π / 2 * u) / ℓ, by simp [expPpf, Real.tan_eq_sin_div_cos], ?_⟩
  rw [offers_exponential_d1 ℓ]
  congr 1
  have e : Real.tan (π / 2 * u) / ℓ * ℓ = Real.tan (π / 2 * u) := by field_simp
  have hπ := Real.pi_pos
  beta_reduce
  rw [e, Real.arctan_tan (by nlinarith [hu.1]) (by nlinarith [hu.2])]
  field_simp

/-- Exponential d = 1: `ppf (cdf r) = r` for every `r` -/
theorem ppf_cdf_exponential_d1 (ℓ : ℝ) (hℓ : 0 < ℓ) (r : ℝ) :
    ∃ u, expCdf 1 ℓ r = some u ∧ expPpf 1 ℓ u = .value r := by
  refine ⟨Real.arctan (r * ℓ) * 2 / π, offers_exponential_d1 ℓ r, ?_⟩
  simp only [expPpf, sin_real, cos_real, pi_real, Nat.cast_ofNat]
  have hπ := Real.pi_pos
  have e : π / 2 * (Real.arctan (r * ℓ) * 2 / π) = Real.arctan (r * ℓ) := by field_simp
  rw [e, ← Real.tan_eq_sin_div_cos, Real.tan_arctan]
  congr 1
  field_simp

/-- what the property asks of Exponential d = 2 (planned `C04_ppf_cdf_inverse_exponential_d2`) -/
def ppf_cdf_inverse_exponential_d2_full : Prop :=
  ∀ ℓ : ℝ, 0 < ℓ → ∀ u : ℝ, 1e-8 < u → u < 1 →
    ∃ r, expPpf 2 ℓ u = .value r ∧ expCdf 2 ℓ r = some u

/-- **Exponential d = 2 (finding D18): the code's ppf inverts the *survival function*:
    `cdf (ppf u) = 1 − u`.** -/
theorem cdf_ppf_exponential_d2_is_survival (ℓ : ℝ) (hℓ : 0 < ℓ) (u : ℝ) (hu : 1e-8 < u ∧ u ≤ 1) :
    ∃ r, expPpf 2 ℓ u = .value r ∧ expCdf 2 ℓ r = some (1 - u) := by
  have hu0 : 0 < u := by linarith [hu.1]
  have hnc : ¬ |u| ≤ 1e-8 := by rw [abs_of_pos hu0]; linarith [hu.1]
  refine ⟨√(1 / u ^ 2 - 1) / ℓ, by simp [expPpf, isclose0, hnc], ?_⟩
  rw [offers_exponential_d2 ℓ]
  congr 1
  have h1 : 0 ≤ 1 / u ^ 2 - 1 := by
    rw [sub_nonneg, le_div_iff₀ (by positivity)]; nlinarith [hu.2]
  have e : √(1 / u ^ 2 - 1) / ℓ * ℓ = √(1 / u ^ 2 - 1) := by field_simp
  beta_reduce
  rw [e, Real.sq_sqrt h1]
  have e2 : (1:ℝ) + (1 / u ^ 2 - 1) = (1 / u) ^ 2 := by field_simp; ring
  rw [e2, Real.sqrt_sq (by positivity)]
  field_simp

/-- hence the full statement is **false** of the current code (witness `ℓ = 1`, `u = 1/4`: the code gives
    `cdf (ppf (1/4)) = 3/4`); replayed on the implementation by the search key `ppf-inverse:Exponential:d2` -/
theorem ppf_cdf_inverse_exponential_d2_false : ¬ ppf_cdf_inverse_exponential_d2_full := by
  intro h
  obtain ⟨r, hr, hc⟩ := h 1 one_pos (1 / 4) (by norm_num) (by norm_num)
  obtain ⟨r', hr', hc'⟩ := cdf_ppf_exponential_d2_is_survival 1 one_pos (1 / 4) ⟨by norm_num, by norm_num⟩
  rw [hr] at hr'
  injection hr' with hrr
  subst hrr
  rw [hc] at hc'
  injection hc' with hcc
  norm_num at hcc

/-- Gaussian d = 1 with `erfinv` the (abstract) inverse of the defined `erf`: `ppf (cdf r) = r` -/
theorem ppf_cdf_gaussian_d1 (ℓ : ℝ) (hℓ : 0 < ℓ) (r : ℝ) :
    ∃ u, gauCdf specialR 1 ℓ r = some u ∧ gauPpf specialR 1 ℓ u = some r := by
  refine ⟨erfR (r * ℓ / 2), offers_gaussian_d1 ℓ r, ?_⟩
  simp only [gauPpf, specialR_erfinv, Nat.cast_ofNat, Option.some.injEq]
  rw [Function.leftInverse_invFun erfR_strictMono.injective]
  field_simp

/-! ## 6. Matern `nu > 20` (finding D12): the reported density is not the transform of the correlation -/

theorem matern_big_correlation (ℓ r : ℝ) (hℓ : ℓ ≠ 0) :
    correlation maternBigCor ℓ r = correlation gauCor (2 * ℓ) r := by
  simp only [correlation, maternBigCor, gauCor, npow_real, exp_real, Nat.cast_ofNat]
  congr 2
  field_simp

/-- the true transform of the `nu > 20` correlation `exp(-(r/2ℓ)²)` is the Gaussian density with doubled
    length, `(ℓ/√π)^d e^{-(kℓ)²}` (in every dimension) -/
theorem matern_big_true_transform (d : ℕ) (ℓ : ℝ) (hℓ : 0 < ℓ) (k : EuclideanSpace ℝ (Fin d)) :
    ((1 / (2 * π) : ℝ) : ℂ) ^ d *
        ∫ v : EuclideanSpace ℝ (Fin d), ((correlation maternBigCor ℓ ‖v‖ : ℝ) : ℂ) *
          Complex.exp (Complex.I * ((inner ℝ k v : ℝ) : ℂ))
      = ((maternBigExact d ℓ ‖k‖ : ℝ) : ℂ) := by
  simp_rw [matern_big_correlation ℓ _ hℓ.ne']
  have h := gaussian_density_is_fourier_euclidean d (2 * ℓ) (by positivity) k
  simpa [maternBigExact] using h

/-- what the property asks of Matern with `nu > 20` -/
def matern_big_density_is_fourier_full : Prop :=
  ∀ (d : ℕ) (ℓ ν k : ℝ), 0 < ℓ → 20 < ν → 0 ≤ k →
    maternDensity specialR d ℓ ν k = maternBigExact d ℓ k

/-- the full statement is **false** of the current code: at `d = 2, ℓ = 1, ν = 25, k = 1` the code reports
    `(1.02/1.04) · e^{-1}/π`, the transform of its correlation is `e^{-1}/π` (search key `spectrum:Matern-nu>20`) -/
theorem matern_big_density_not_fourier : ¬ matern_big_density_is_fourier_full := by
  intro h
  have h1 := h 2 1 25 1 one_pos (by norm_num) zero_le_one
  have hπ := Real.pi_pos
  have hsq := sqrt_pi_sq
  have hne := sqrt_pi_ne
  have e1 : maternDensity specialR 2 1 25 1 = (1 / √π) ^ 2 * Real.exp (-1) * (1 + 0.5 * 1 / 25) * (1 / (1 + 1 / 25)) := by
    unfold maternDensity
    simp only [npow_real, rpow_real, sqrt_real, exp_real, pi_real, Nat.cast_ofNat, Nat.cast_one]
    have : √(1 + (1 * 1 : ℝ) ^ 2 / 25) ^ (-(2:ℝ)) = 1 / (1 + 1 / 25) := by
      rw [Real.rpow_neg (Real.sqrt_nonneg _)]
      have : ((2:ℝ)) = ((2:ℕ):ℝ) := by norm_num
      rw [this, Real.rpow_natCast, Real.sq_sqrt (by norm_num)]
      norm_num
    rw [this]
    norm_num
  have e2 : maternBigExact 2 1 1 = (1 / √π) ^ 2 * Real.exp (-1) := by
    unfold maternBigExact
    rw [gauDensity_real]
    norm_num
  rw [e1, e2] at h1
  have hpos : 0 < (1 / √π) ^ 2 * Real.exp (-1) := by positivity
  have : (1 + 0.5 * 1 / 25) * (1 / (1 + 1 / 25) : ℝ) = 1 := by
    have := mul_left_cancel₀ hpos.ne' (by rw [← mul_assoc]; simpa using h1 : (1 / √π) ^ 2 * Real.exp (-1) * ((1 + 0.5 * 1 / 25) * (1 / (1 + 1 / 25))) = (1 / √π) ^ 2 * Real.exp (-1) * 1)
    exact this
  norm_num at this

/-! ## 7. which classes offer what -/

/-- a ppf is only offered together with a cdf -/
theorem has_ppf_imp_has_cdf (cls : String) (d : ℕ) (h : hasPpf cls d = true) : hasCdf cls d = true := by
  unfold hasPpf at h; unfold hasCdf
  simp only [Bool.and_eq_true, Bool.or_eq_true] at h ⊢
  exact ⟨h.1, Or.inl h.2⟩

/-- the table `has_cdf` agrees with what the cdf functions return, in every dimension -/
theorem has_cdf_iff_offered (d : ℕ) (ℓ r : ℝ) :
    (gauCdf specialR d ℓ r).isSome = hasCdf "Gaussian" d ∧ (expCdf d ℓ r).isSome = hasCdf "Exponential" d := by
  match d with
  | 0 => simp [gauCdf, expCdf, hasCdf]
  | 1 => simp [gauCdf, expCdf, hasCdf]
  | 2 => simp [gauCdf, expCdf, hasCdf]
  | 3 => simp [gauCdf, expCdf, hasCdf]
  | n + 4 => simp [gauCdf, expCdf, hasCdf]


/-! ## 8. Exponential, d = 1: the density is the Fourier transform of the correlation -/

theorem exp_correlation_real (ℓ r : ℝ) : correlation expCor ℓ r = Real.exp (-(r / ℓ)) := by
  simp [correlation, expCor]

/-- **Exponential d = 1**: `(1/2π) ∫ exp(-|r|/ℓ) e^{ikr} dr = ℓ / (π (1 + (kℓ)²))`, the value of
    `Exponential.spectral_density` at `|k|`. -/
theorem exponential_density_is_fourier_d1 (ℓ : ℝ) (hℓ : 0 < ℓ) (k : ℝ) :
    ((1 / (2 * π) : ℝ) : ℂ) *
        ∫ r : ℝ, ((correlation expCor ℓ |r| : ℝ) : ℂ) * Complex.exp (Complex.I * (k : ℂ) * (r : ℂ))
      = ((expDensity 1 ℓ |k| : ℝ) : ℂ) := by
  set f : ℝ → ℂ := fun r => ((correlation expCor ℓ |r| : ℝ) : ℂ) * Complex.exp (Complex.I * (k : ℂ) * (r : ℂ))
    with hf
  set a₁ : ℂ := -((1 / ℓ : ℝ) : ℂ) + Complex.I * (k : ℂ) with ha₁
  set a₂ : ℂ := ((1 / ℓ : ℝ) : ℂ) + Complex.I * (k : ℂ) with ha₂
  have hre₁ : a₁.re < 0 := by simp [ha₁]; positivity
  have hre₂ : 0 < a₂.re := by simp [ha₂]; positivity
  have hpos : ∀ r ∈ Ioi (0:ℝ), f r = Complex.exp (a₁ * r) := by
    intro r hr
    simp only [hf, exp_correlation_real, abs_of_pos (mem_Ioi.mp hr), Complex.ofReal_exp, ← Complex.exp_add]
    congr 1; rw [ha₁]; push_cast; ring
  have hneg : ∀ r ∈ Iic (0:ℝ), f r = Complex.exp (a₂ * r) := by
    intro r hr
    simp only [hf, exp_correlation_real, abs_of_nonpos (mem_Iic.mp hr), Complex.ofReal_exp, ← Complex.exp_add]
    congr 1; rw [ha₂]; push_cast; ring
  have i₁ : IntegrableOn f (Ioi 0) :=
    (integrableOn_exp_mul_complex_Ioi hre₁ 0).congr_fun (fun r hr => (hpos r hr).symm) measurableSet_Ioi
  have i₂ : IntegrableOn f (Iic 0) :=
    (integrableOn_exp_mul_complex_Iic hre₂ 0).congr_fun (fun r hr => (hneg r hr).symm) measurableSet_Iic
  have e₁ : ∫ r in Ioi (0:ℝ), f r = -1 / a₁ := by
    rw [setIntegral_congr_fun measurableSet_Ioi hpos, integral_exp_mul_complex_Ioi hre₁]; simp
  have e₂ : ∫ r in Iic (0:ℝ), f r = 1 / a₂ := by
    rw [setIntegral_congr_fun measurableSet_Iic hneg, integral_exp_mul_complex_Iic hre₂]; simp
  have habs : (|k| * ℓ) ^ 2 = (k * ℓ) ^ 2 := by rw [mul_pow, sq_abs, mul_pow]
  rw [← intervalIntegral.integral_Iic_add_Ioi i₂ i₁, e₁, e₂, expDensity_d1, habs]
  have hπ : (π : ℂ) ≠ 0 := by exact_mod_cast Real.pi_pos.ne'
  have hℓ' : (ℓ : ℂ) ≠ 0 := by exact_mod_cast hℓ.ne'
  have h1 : a₁ ≠ 0 := fun h => by rw [h] at hre₁; simp at hre₁
  have h2 : a₂ ≠ 0 := fun h => by rw [h] at hre₂; simp at hre₂
  have hden : ((π * (1 + (k * ℓ) ^ 2) : ℝ) : ℂ) ≠ 0 := by
    have : 0 < π * (1 + (k * ℓ) ^ 2) := by have := Real.pi_pos; positivity
    exact_mod_cast this.ne'
  have hprod : a₁ * a₂ = -(((1 + (k * ℓ) ^ 2) / ℓ ^ 2 : ℝ) : ℂ) := by
    rw [ha₁, ha₂]
    push_cast
    field_simp
    ring_nf
    rw [Complex.I_sq]; ring
  have hsum : -1 / a₁ + 1 / a₂ = (a₁ - a₂) / (a₁ * a₂) := by field_simp; ring
  have hdiff : a₁ - a₂ = -(2 * ((1 / ℓ : ℝ) : ℂ)) := by rw [ha₁, ha₂]; ring
  rw [add_comm, hsum, hprod, hdiff]
  push_cast
  have hy : (1 + ((k:ℂ) * (ℓ:ℂ)) ^ 2) ≠ 0 := by
    have : 0 < 1 + (k * ℓ) ^ 2 := by positivity
    exact_mod_cast this.ne'
  field_simp


/-! ## 9. Gaussian d = 1 ppf (with `erfinv` := the inverse of the defined `erf`), mass of the code's pdf -/

private theorem erfR_surj_Ico (u : ℝ) (h0 : 0 ≤ u) (h1 : u < 1) : ∃ x, erfR x = u := by
  have hev : ∀ᶠ x in atTop, u < erfR x := (tendsto_order.1 tendsto_erfR_atTop).1 u h1
  obtain ⟨x1, hx1, hx0⟩ := (hev.and (eventually_ge_atTop (0:ℝ))).exists
  have hu : u ∈ Icc (erfR 0) (erfR x1) := ⟨by rw [erfR_zero]; exact h0, hx1.le⟩
  obtain ⟨x, _, hx⟩ := intermediate_value_Icc hx0 continuous_erfR.continuousOn hu
  exact ⟨x, hx⟩

/-- Gaussian d = 1: `cdf (ppf u) = u` on `[0, 1)` when `erfinv` inverts the `erf` defined by its integral -/
theorem cdf_ppf_gaussian_d1 (ℓ : ℝ) (hℓ : 0 < ℓ) (u : ℝ) (hu : 0 ≤ u ∧ u < 1) :
    ∃ r, gauPpf specialR 1 ℓ u = some r ∧ gauCdf specialR 1 ℓ r = some u := by
  refine ⟨2 / ℓ * Function.invFun erfR u, by simp [gauPpf], ?_⟩
  rw [offers_gaussian_d1 ℓ]
  congr 1
  beta_reduce
  have e : 2 / ℓ * Function.invFun erfR u * ℓ / 2 = Function.invFun erfR u := by field_simp
  rw [e, Function.invFun_eq (erfR_surj_Ico u hu.1 hu.2)]

private theorem model_mass {F p g : ℝ → ℝ} {a : ℝ} (ha : 0 ≤ a) (hd : ∀ x, HasDerivAt F (p x) x)
    (hp : ∀ x ∈ Ioi a, 0 ≤ p x) (hlim : Tendsto F atTop (𝓝 1)) (hg0 : ∀ x ∈ Ioc 0 a, g x = 0)
    (hg1 : ∀ x ∈ Ioi a, g x = p x) : ∫ x in Ioi (0:ℝ), g x = 1 - F a := by
  have ip : IntegrableOn p (Ioi a) := integrableOn_Ioi_deriv_of_nonneg' (fun x _ => hd x) hp hlim
  have i1 : IntegrableOn g (Ioi a) := ip.congr_fun (fun x hx => (hg1 x hx).symm) measurableSet_Ioi
  have i0 : IntegrableOn g (Ioc 0 a) :=
    (integrableOn_zero : IntegrableOn (fun _ : ℝ => (0:ℝ)) (Ioc 0 a)).congr_fun
      (fun x hx => (hg0 x hx).symm) measurableSet_Ioc
  rw [← Ioc_union_Ioi_eq_Ioi ha,
    setIntegral_union (Ioc_disjoint_Ioi le_rfl) measurableSet_Ioi i0 i1,
    setIntegral_congr_fun measurableSet_Ioc hg0, setIntegral_congr_fun measurableSet_Ioi hg1,
    integral_Ioi_of_hasDerivAt_of_nonneg' (fun x _ => hd x) hp hlim]
  simp

/-- **mass of the code's `spectral_rad_pdf`** (with its zeroing of `r ≤ 1e-8` for d > 1): for Gaussian and
    Exponential in d = 2, 3 it is `1 − cdf(1e-8)`, not `1`; the rule costs exactly the mass of the band. -/
theorem rad_pdf_model_mass (d : ℕ) (hd : d = 2 ∨ d = 3) (ℓ : ℝ) (hℓ : 0 < ℓ) {F G : ℝ → ℝ}
    (hF : Offers (gauCdf specialR d ℓ) F) (hG : Offers (expCdf d ℓ) G) :
    ∫ r in Ioi (0:ℝ), radPdf d (gauDensity d ℓ) r = 1 - F 1e-8 ∧
      ∫ r in Ioi (0:ℝ), radPdf d (expDensity d ℓ) r = 1 - G 1e-8 := by
  have h1d : 1 < d := by omega
  have hz : ∀ (dens : ℝ → ℝ), ∀ x ∈ Ioc (0:ℝ) 1e-8, radPdf d dens x = 0 := by
    intro dens x hx
    rw [rad_pdf_def, if_pos ⟨h1d, by rw [abs_of_pos hx.1]; exact hx.2⟩]
  have hx0 : ∀ x ∈ Ioi (1e-8:ℝ), (0:ℝ) ≤ x := by
    intro x hx
    have h8 : (0:ℝ) < 1e-8 := by norm_num
    exact (h8.trans hx).le
  have hs : ∀ (dens : ℝ → ℝ), (∀ x, 0 ≤ dens x) → ∀ x ∈ Ioi (1e-8:ℝ), radPdf d dens x = radFac d x * dens x :=
    fun dens hdens x hx => rad_pdf_eq_smooth d (by omega) dens x (hx0 x hx) (Or.inr hx) (hdens x)
  have hpg : ∀ x ∈ Ioi (1e-8:ℝ), 0 ≤ radFac d x * gauDensity d ℓ x := fun x hx =>
    mul_nonneg (rad_fac_nonneg d (by omega) x (hx0 x hx)) (gauDensity_nonneg d ℓ x hℓ.le)
  have hpe : ∀ x ∈ Ioi (1e-8:ℝ), 0 ≤ radFac d x * expDensity d ℓ x := fun x hx =>
    mul_nonneg (rad_fac_nonneg d (by omega) x (hx0 x hx)) (expDensity_nonneg d ℓ x hℓ.le)
  have ha : (0:ℝ) ≤ 1e-8 := by norm_num
  rcases hd with rfl | rfl
  · exact ⟨model_mass ha (cdf_deriv_gaussian_d2 ℓ hF) hpg (cdf_tendsto_one_gaussian_d2 ℓ hℓ hF)
        (hz _) (hs _ (fun x => gauDensity_nonneg 2 ℓ x hℓ.le)),
      model_mass ha (cdf_deriv_exponential_d2 ℓ hG) hpe (cdf_tendsto_one_exponential_d2 ℓ hℓ hG)
        (hz _) (hs _ (fun x => expDensity_nonneg 2 ℓ x hℓ.le))⟩
  · exact ⟨model_mass ha (cdf_deriv_gaussian_d3 ℓ hF) hpg (cdf_tendsto_one_gaussian_d3 ℓ hℓ hF)
        (hz _) (hs _ (fun x => gauDensity_nonneg 3 ℓ x hℓ.le)),
      model_mass ha (cdf_deriv_exponential_d3 ℓ hG) hpe (cdf_tendsto_one_exponential_d3 ℓ hℓ hG)
        (hz _) (hs _ (fun x => expDensity_nonneg 3 ℓ x hℓ.le))⟩

example (ℓ : ℝ) : Offers (gauCdf specialR 2 ℓ) (fun r => 1 - Real.exp (-(r * ℓ / 2) ^ 2)) ∧
    Offers (expCdf 2 ℓ) (fun r => 1 - 1 / √(1 + (r * ℓ) ^ 2)) :=
  ⟨offers_gaussian_d2 ℓ, offers_exponential_d2 ℓ⟩

/-! ## 10. Spectral functions after in-place changes of the model

`Settings` carries everything a spectral evaluation reads (dimension, lengths, shape, `hankel_kw`) together with the
transform object `_sft` that `set_dim` and the `hankel_kw` setter build.  The property needs the transform to be the
one of the CURRENT dimension and settings after any history of setter calls, i.e. that the state reached by a history
is the state a constructor would produce from the resulting parameters. -/

/-- the transform object is the one of the current dimension and settings -/
def Coherent (s : Settings ℝ) : Prop := s.sft.ndim = s.dim ∧ s.sft.kw = s.kw

theorem construct_coherent (dim : ℕ) (len rescale var nu : ℝ) (hk : Option (HankelUpd ℝ)) :
    Coherent (construct dim len rescale var nu hk) := by
  cases hk <;> exact ⟨rfl, rfl⟩

theorem step_coherent (s : Settings ℝ) (h : Coherent s) (op : Op ℝ) : Coherent (step s op) := by
  cases op with
  | setDim d =>
    by_cases hd : d < 1
    · simpa [step, hd] using h
    · simp [step, hd, Coherent]
  | setLen x => exact h
  | setRescale x => exact h
  | setVar x => exact h
  | setNu x => exact h
  | setHankel u => cases u <;> exact ⟨rfl, rfl⟩

theorem run_coherent (s : Settings ℝ) (h : Coherent s) (ops : List (Op ℝ)) : Coherent (run s ops) := by
  unfold run
  induction ops generalizing s with
  | nil => exact h
  | cons op ops ih => exact ih (step s op) (step_coherent s h op)

/-- **after every history of setter calls the transform object belongs to the current dimension and the current
    `hankel_kw`** -/
theorem sft_coherent (dim : ℕ) (len rescale var nu : ℝ) (hk : Option (HankelUpd ℝ)) (ops : List (Op ℝ)) :
    Coherent (run (construct dim len rescale var nu hk) ops) :=
  run_coherent _ (construct_coherent dim len rescale var nu hk) ops

/-- a dimension change is followed by the transform object (non-vacuity of `sft_coherent`: a 1-d model moved to 3-d
    transforms in 3-d, with the settings given to the constructor) -/
example : (run (construct (α := ℝ) 1 1 1 1 1 (some ⟨none, none, some 50, none, none⟩)) [Op.setDim 3]).sft.ndim = 3 ∧
    (run (construct (α := ℝ) 1 1 1 1 1 (some ⟨none, none, some 50, none, none⟩)) [Op.setDim 3]).sft.kw.N = 50 := by
  constructor <;> simp [run, step, construct, HankelKw.update, hankelDefault]

private theorem update_full (kw kw' : HankelKw ℝ) : kw'.update kw.full = kw := by
  cases kw; rfl

/-- the stored rescale factor is an absolute value -/
def RescaleAbs (s : Settings ℝ) : Prop := s.rescale = |s.rescale|

theorem step_rescaleAbs (s : Settings ℝ) (h : RescaleAbs s) (op : Op ℝ) : RescaleAbs (step s op) := by
  cases op with
  | setDim d =>
    by_cases hd : d < 1
    · simpa [step, hd] using h
    · simpa [step, hd, RescaleAbs] using h
  | setLen x => exact h
  | setRescale x => simp [step, RescaleAbs]
  | setVar x => exact h
  | setNu x => exact h
  | setHankel u => cases u <;> exact h

theorem run_rescaleAbs (s : Settings ℝ) (h : RescaleAbs s) (ops : List (Op ℝ)) : RescaleAbs (run s ops) := by
  unfold run
  induction ops generalizing s with
  | nil => exact h
  | cons op ops ih => exact ih (step s op) (step_rescaleAbs s h op)

theorem construct_rescaleAbs (dim : ℕ) (len rescale var nu : ℝ) (hk : Option (HankelUpd ℝ)) :
    RescaleAbs (construct dim len rescale var nu hk) := by
  cases hk <;> simp [construct, RescaleAbs]

/-- **history independence**: the state reached by constructing a model and changing it in place is exactly the state
    of a model freshly constructed with the resulting parameters (dimension, lengths, variance, shape and the complete
    `hankel_kw`) — so every spectral function, which reads nothing but this state, agrees with the fresh model. -/
theorem history_independent (dim : ℕ) (len rescale var nu : ℝ) (hk : Option (HankelUpd ℝ)) (ops : List (Op ℝ)) :
    let s := run (construct dim len rescale var nu hk) ops
    s = construct s.dim s.len s.rescale s.var s.nu (some s.kw.full) := by
  intro s
  have hc : Coherent s := sft_coherent dim len rescale var nu hk ops
  have hr : RescaleAbs s := run_rescaleAbs _ (construct_rescaleAbs dim len rescale var nu hk) ops
  obtain ⟨h1, h2⟩ := hc
  rcases s with ⟨d, l, r, v, n, kw, ⟨sd, skw⟩⟩
  simp only [RescaleAbs] at h1 h2 hr
  subst h1 h2
  simp only [construct, fabs_real, update_full]
  rw [← hr]

/-- **numerical default after a history**: `CovModel.spectral_density` applies the transform of the CURRENT dimension
    and CURRENT settings to the CURRENT correlation (`T ndim kw f k` = `SymmetricFourierTransform(ndim, **kw)
    .transform(f, k)`, an uninterpreted parameter) -/
theorem default_density_after_history (T : ℕ → HankelKw ℝ → (ℝ → ℝ) → ℝ → ℝ) (cor : ℝ → ℝ)
    (dim : ℕ) (len rescale var nu : ℝ) (hk : Option (HankelUpd ℝ)) (ops : List (Op ℝ)) (k : ℝ) :
    let s := run (construct dim len rescale var nu hk) ops
    defaultDensity T cor s k = T s.dim s.kw (correlation cor (lenRescaled s.len s.rescale)) |k| := by
  intro s
  obtain ⟨h1, h2⟩ := sft_coherent dim len rescale var nu hk ops
  simp only [defaultDensity, fabs_real]
  rw [h1, h2]

/-- hence, to the extent that the transform package computes the `d`-dimensional radial Fourier transform `F d`
    (whatever its settings), the default density after any history is `F (current dim) (current correlation)` -/
theorem default_density_is_transform_in_current_dim (T : ℕ → HankelKw ℝ → (ℝ → ℝ) → ℝ → ℝ)
    (F : ℕ → (ℝ → ℝ) → ℝ → ℝ) (hT : ∀ d kw f k, T d kw f k = F d f k) (cor : ℝ → ℝ)
    (dim : ℕ) (len rescale var nu : ℝ) (hk : Option (HankelUpd ℝ)) (ops : List (Op ℝ)) (k : ℝ) :
    let s := run (construct dim len rescale var nu hk) ops
    defaultDensity T cor s k = F s.dim (correlation cor (lenRescaled s.len s.rescale)) |k| := by
  intro s
  have h := default_density_after_history T cor dim len rescale var nu hk ops k
  simp only at h
  rw [h, hT]

/-- the hypothesis of the previous theorem is satisfiable (the transform that ignores its settings) -/
example : ∃ (T : ℕ → HankelKw ℝ → (ℝ → ℝ) → ℝ → ℝ) (F : ℕ → (ℝ → ℝ) → ℝ → ℝ), ∀ d kw f k, T d kw f k = F d f k :=
  ⟨fun d _ f k => (d : ℝ) * f k, fun d f k => (d : ℝ) * f k, fun _ _ _ _ => rfl⟩

/-- **Gaussian after a history**: whatever was changed in place, the density the object reports is the Fourier
    transform, in the object's CURRENT dimension, of its CURRENT correlation -/
theorem gaussian_density_after_history (dim : ℕ) (len rescale var nu : ℝ) (hk : Option (HankelUpd ℝ))
    (ops : List (Op ℝ)) :
    let s := run (construct dim len rescale var nu hk) ops
    0 < lenRescaled s.len s.rescale →
    ∀ k : EuclideanSpace ℝ (Fin s.dim),
      ((1 / (2 * π) : ℝ) : ℂ) ^ s.dim *
          ∫ v : EuclideanSpace ℝ (Fin s.dim), ((correlation gauCor (lenRescaled s.len s.rescale) ‖v‖ : ℝ) : ℂ) *
            Complex.exp (Complex.I * ((inner ℝ k v : ℝ) : ℂ))
        = ((gauDensityOf s ‖k‖ : ℝ) : ℂ) := by
  intro s hℓ k
  exact gaussian_density_is_fourier_euclidean s.dim _ hℓ k

/-- the hypothesis is met by an ordinary history (1-d model, rescaled, moved to 3-d, length changed) -/
example : (0:ℝ) < lenRescaled (run (construct (α := ℝ) 1 1 2 1 1 none) [Op.setDim 3, Op.setLen 5, Op.setRescale (-4)]).len
    (run (construct (α := ℝ) 1 1 2 1 1 none) [Op.setDim 3, Op.setLen 5, Op.setRescale (-4)]).rescale := by
  simp [run, step, construct, lenRescaled]

/-! ## 11. Truncated power law models: the density combines the single-scale densities with the weights and the
(rescaled) lengths of the correlation -/

/-- over the reals `len_rescaled + len_low_rescaled` (what `spectral_density` hands to `tpl_*_spec_dens`) is
    `len_up_rescaled` (what `correlation` uses) -/
theorem tpl_up_length (len lenLow rescale : ℝ) :
    lenRescaled len rescale + lenLowRescaled lenLow rescale = lenUpRescaled len lenLow rescale := by
  simp only [lenRescaled, lenLowRescaled, lenUpRescaled]
  rw [← add_div, add_comm]

/-- the two weights differ, so the combination is a genuine affine combination (weights sum to one) -/
theorem tpl_weights_ne (H len lenLow rescale : ℝ) (hH : 0 < H) (hlen : 0 < len) (hlow : 0 ≤ lenLow)
    (hr : 0 < rescale) :
    lenUpRescaled len lenLow rescale ^ (2 * H) - lenLowRescaled lenLow rescale ^ (2 * H) ≠ 0 := by
  have h0 : 0 ≤ lenLowRescaled lenLow rescale := div_nonneg hlow hr.le
  have hlt : lenLowRescaled lenLow rescale < lenUpRescaled len lenLow rescale := by
    simp only [lenLowRescaled, lenUpRescaled]
    exact div_lt_div_of_pos_right (by linarith) hr
  have := Real.rpow_lt_rpow h0 hlt (by linarith : 0 < 2 * H)
  linarith

/-- **TPLGaussian / TPLExponential**: if `𝓕` is any linear transform (the `d`-dimensional Fourier transform) under
    which every single-scale density is the transform of the single-scale correlation, `one L = 𝓕 (corOne L)`, then the
    density the model reports is the transform of the correlation the model reports — because both combine the SAME
    rescaled lengths `len_low/rescale` and `(len_low+len)/rescale` with the SAME weights. -/
theorem tpl_density_is_transform (𝓕 : (ℝ → ℝ) →ₗ[ℝ] (ℝ → ℝ)) (one corOne : ℝ → ℝ → ℝ)
    (hone : ∀ L, one L = 𝓕 (corOne L)) (H len lenLow rescale : ℝ) :
    (fun k => tplDensity one H len lenLow rescale k) = 𝓕 (fun r => tplCorrelation corOne H len lenLow rescale r) := by
  unfold tplDensity tplMix tplCorrelation
  by_cases hc : isclose0 (lenLowRescaled lenLow rescale) = true
  · simp only [hc, if_true]
    exact hone _
  · simp only [hc]
    simp only [rpow_real, tpl_up_length, Bool.false_eq_true, if_false]
    set up := lenUpRescaled len lenLow rescale
    set low := lenLowRescaled lenLow rescale
    set a := up ^ (((2:ℕ):ℝ) * H)
    set b := low ^ (((2:ℕ):ℝ) * H)
    have e : (fun r => (a * corOne up r - b * corOne low r) / (a - b))
        = (a - b)⁻¹ • (a • corOne up - b • corOne low) := by
      funext r
      simp only [Pi.smul_apply, Pi.sub_apply, smul_eq_mul]
      rw [div_eq_inv_mul]
    rw [e, map_smul, map_sub, map_smul, map_smul, ← hone, ← hone]
    funext k
    simp only [Pi.smul_apply, Pi.sub_apply, smul_eq_mul]
    rw [div_eq_inv_mul]

/-- the hypotheses of `tpl_density_is_transform` are satisfiable by a non-trivial object (identity transform), and
    the truncated, rescaled case is not the degenerate branch -/
example : (∃ (𝓕 : (ℝ → ℝ) →ₗ[ℝ] (ℝ → ℝ)) (one corOne : ℝ → ℝ → ℝ), ∀ L, one L = 𝓕 (corOne L)) ∧
    isclose0 (lenLowRescaled (1:ℝ) 2) = false :=
  ⟨⟨LinearMap.id, fun L r => L * r, fun L r => L * r, fun _ => rfl⟩, by
    simp only [isclose0, lenLowRescaled, fabs_real]
    norm_num⟩


end GSV.Props.C04
