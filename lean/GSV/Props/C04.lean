/-
  C04 — Spectral representation is the Fourier pair of the covariance.

  Theorems on `ℝ` about the executable model `GSV/Model/Spectral.lean` (the same text the driver runs on
  `Float` against the real `gstools` code):
  * `rad_fac` is the surface area of the (d−1)-sphere (derivative of the volume of the d-ball) and the
    code's Γ-formula agrees with its d = 1, 2, 3 shortcuts;
  * `spectrum = var · density`, `spectral_rad_pdf = rad_fac · |density|` with the `r ≈ 0` rule and clipping;
  * Gaussian, every dimension: the reported density is the d-dimensional Fourier transform of the
    correlation (code's convention `(1/2π)^d ∫ ρ(‖r‖) e^{i⟨k,r⟩} dr`);
  * radial cdf / pdf / ppf consistency for every closed form the code offers (Gaussian, Exponential,
    d = 1, 2, 3): `cdf' = pdf`, `cdf 0 = 0`, `cdf → 1`, `∫₀^∞ pdf = 1`, `ppf ∘ cdf = id`, `cdf ∘ ppf = id`.
  `erf` is *defined* as `2/√π ∫₀ˣ e^{-t²}` (`GSV.Lemmas.Spectral.erfR`).
-/
import GSV.RealInst
import GSV.Model.Spectral
import GSV.Lemmas.Spectral
import Mathlib.Analysis.SpecialFunctions.Gaussian.FourierTransform
import Mathlib.MeasureTheory.Measure.Lebesgue.VolumeOfBalls
import Mathlib.Analysis.SpecialFunctions.Pow.Deriv
import Mathlib.Analysis.SpecialFunctions.Sqrt
import Mathlib.Tactic.Ring
import Mathlib.Tactic.Linarith
import Mathlib.Tactic.FieldSimp
import Mathlib.Tactic.Positivity

namespace GSV.Props.C04
open Real MeasureTheory Filter Topology Set GSV GSV.Model.Spectral GSV.Lemmas.Spectral

/-! ## 1. `rad_fac` -/

/-- the d = 1, 2, 3 shortcuts of `rad_fac` are `2`, `2πr`, `4πr²` -/
theorem rad_fac_low (r : ℝ) :
    radFac 1 r = 2 ∧ radFac 2 r = 2 * π * r ∧ radFac 3 r = 4 * π * r ^ 2 := by
  refine ⟨?_, ?_, ?_⟩ <;> simp [radFac]

/-- in every dimension `d ≥ 1` the value of `rad_fac` is the general formula
    `d r^{d-1} √π^d / Γ(d/2+1)` — the shortcuts for d = 1, 2, 3 agree with the `else` branch -/
theorem rad_fac_gamma_formula (d : ℕ) (hd : 1 ≤ d) (r : ℝ) :
    radFac d r = d * r ^ (d - 1) * √π ^ d / Real.Gamma ((d:ℝ) / 2 + 1) := by
  have hg : Real.Gamma ((d:ℝ) / 2 + 1) = gammaHalf (d + 2) := by
    rw [gammaHalf_eq (d + 2) (by omega)]; congr 1; push_cast; ring
  have hpi : √π ≠ 0 := (Real.sqrt_pos.mpr Real.pi_pos).ne'
  have hsq : √π ^ 2 = π := Real.sq_sqrt Real.pi_pos.le
  rw [hg]
  match d, hd with
  | 1, _ => simp [radFac, gammaHalf]; field_simp
  | 2, _ => simp [radFac, gammaHalf, hsq]; ring
  | 3, _ =>
    simp [radFac, gammaHalf]
    have : √π ^ 3 = π * √π := by rw [pow_succ, hsq]
    rw [this]; field_simp; ring
  | n + 4, _ => simp [radFac]

/-- **`rad_fac` is the surface area of the (d−1)-sphere**: it is the derivative in the radius of the
    Lebesgue volume of the d-dimensional Euclidean ball. -/
theorem rad_fac_sphere_area (n : ℕ) (r : ℝ) (hr : 0 < r) :
    HasDerivAt (fun ρ : ℝ => (volume (Metric.ball (0 : EuclideanSpace ℝ (Fin (n + 1))) ρ)).toReal)
      (radFac (n + 1) r) r := by
  set c : ℝ := √π ^ (n + 1) / Real.Gamma (((n + 1 : ℕ):ℝ) / 2 + 1) with hc
  have hcpos : 0 ≤ c := by
    have : 0 < Real.Gamma (((n + 1 : ℕ):ℝ) / 2 + 1) := Real.Gamma_pos_of_pos (by positivity)
    positivity
  have hev : (fun ρ : ℝ => (volume (Metric.ball (0 : EuclideanSpace ℝ (Fin (n + 1))) ρ)).toReal)
      =ᶠ[𝓝 r] fun ρ => ρ ^ (n + 1) * c := by
    filter_upwards [lt_mem_nhds hr] with ρ hρ
    rw [EuclideanSpace.volume_ball, Fintype.card_fin, ENNReal.toReal_mul, ENNReal.toReal_pow,
      ENNReal.toReal_ofReal hρ.le, ENNReal.toReal_ofReal]
    simpa [hc] using hcpos
  have hd : HasDerivAt (fun ρ : ℝ => ρ ^ (n + 1) * c) (((n + 1 : ℕ):ℝ) * r ^ n * c) r := by
    simpa using (hasDerivAt_pow (n + 1) r).mul_const c
  have e : radFac (n + 1) r = ((n + 1 : ℕ):ℝ) * r ^ n * c := by
    rw [rad_fac_gamma_formula (n + 1) (by omega) r, hc]; simp; ring
  rw [e]
  exact hd.congr_of_eventuallyEq hev

/-! ## 2. `spectrum`, `spectral_rad_pdf` -/

/-- `spectrum = var · density` -/
theorem spectrum_def (var : ℝ) (dens : ℝ → ℝ) (k : ℝ) : Model.Spectral.spectrum var dens k = var * dens k := by
  unfold Model.Spectral.spectrum; ring

theorem finish_real (x : ℝ) : finish x = max x 0 := by
  unfold finish
  simp only [isnan_real, Bool.false_eq_true, if_false, Nat.cast_zero]
  split_ifs with h
  · exact (max_eq_right h.le).symm
  · exact (max_eq_left (not_lt.mp h)).symm

/-- `spectral_rad_pdf(r) = rad_fac(|r|) · |density(|r|)|`, set to `0` where `|r| ≤ 1e-8` if `d > 1`,
    clipped at `0` -/
theorem rad_pdf_def (d : ℕ) (dens : ℝ → ℝ) (r : ℝ) :
    radPdf d dens r =
      if 1 < d ∧ |r| ≤ 1e-8 then 0 else max (radFac d |r| * abs (dens |r|)) 0 := by
  unfold radPdf isclose0
  simp only [fabs_real, abs_abs, finish_real, Nat.cast_zero, decide_eq_true_eq, gt_iff_lt]
  by_cases h1 : 1 < d <;> by_cases h2 : |r| ≤ 1e-8 <;> simp [h1, h2]

theorem rad_pdf_nonneg (d : ℕ) (dens : ℝ → ℝ) (r : ℝ) : 0 ≤ radPdf d dens r := by
  rw [rad_pdf_def]; split_ifs <;> simp

theorem gammaHalf_pos (n : ℕ) (hn : 1 ≤ n) : 0 < (gammaHalf n : ℝ) := by
  rw [gammaHalf_eq n hn]; exact Real.Gamma_pos_of_pos (by positivity)

theorem rad_fac_nonneg (d : ℕ) (hd : 1 ≤ d) (r : ℝ) (hr : 0 ≤ r) : 0 ≤ radFac d r := by
  rw [rad_fac_gamma_formula d hd r]
  have : 0 < Real.Gamma ((d:ℝ) / 2 + 1) := Real.Gamma_pos_of_pos (by positivity)
  positivity

/-- outside the `r ≈ 0` band (or for `d = 1`), for a non-negative density, the radial pdf is exactly
    surface factor × density -/
theorem rad_pdf_eq_smooth (d : ℕ) (hd : 1 ≤ d) (dens : ℝ → ℝ) (r : ℝ) (hr : 0 ≤ r)
    (hband : d = 1 ∨ 1e-8 < r) (hdens : 0 ≤ dens r) :
    radPdf d dens r = radFac d r * dens r := by
  rw [rad_pdf_def, abs_of_nonneg hr, abs_of_nonneg hdens]
  have hn : ¬ (1 < d ∧ r ≤ 1e-8) := by
    rintro ⟨h1, h2⟩
    rcases hband with h | h
    · omega
    · linarith
  rw [if_neg hn, max_eq_left (mul_nonneg (rad_fac_nonneg d hd r hr) hdens)]

example : (1:ℕ) ≤ 2 ∧ (0:ℝ) ≤ 1 ∧ ((2:ℕ) = 1 ∨ (1e-8:ℝ) < 1) ∧ (0:ℝ) ≤ gauDensity 2 1 1 := by
  refine ⟨by norm_num, by norm_num, Or.inr (by norm_num), ?_⟩
  unfold gauDensity; simp; positivity

end GSV.Props.C04
