/-
  C10 — arguments are inputs, not state: what `curve_fit` receives for the entries `fit_variogram` owns (bounds, p0, xdata, ydata,
  f, loss, max_nfev, method) is what THIS call computed, for every content of the caller's `curve_fit_kwargs` dictionary — in
  particular for a dictionary that still holds the entries of an earlier call; every other entry of the caller is handed on.
  Hence two calls that differ only in those stale entries hand `curve_fit` the same owned arguments (`merge_independent_of_stale`).
  (Model: `GSV.Model.Fit.mergeKwargs`; tied to fit.py by the C10 correspondence, which passes dictionaries holding stale owned entries
  and compares everything the scripted `curve_fit` receives.)
-/
import GSV.Model.Fit
namespace GSV.Props.C10Kwargs
open GSV GSV.Model.Fit

variable {β : Type}

/-- an entry the call assigns is the call's value, whatever the caller's dictionary held -/
theorem merge_owned (user computed : List (String × β)) (k : String) (v : β) (h : lookupKw computed k = some v) :
    lookupKw (mergeKwargs user computed) k = some v := by
  unfold lookupKw mergeKwargs at *
  rw [List.find?_append]
  cases hc : computed.find? (fun kv => kv.1 == k) with
  | none => simp [hc] at h
  | some kv => simpa [hc] using h

/-- an entry the call does not assign is the caller's -/
theorem merge_passthrough (user computed : List (String × β)) (k : String) (h : lookupKw computed k = none) :
    lookupKw (mergeKwargs user computed) k = lookupKw user k := by
  unfold lookupKw mergeKwargs at *
  have hc : computed.find? (fun kv => kv.1 == k) = none := by
    cases hf : computed.find? (fun kv => kv.1 == k) with
    | none => rfl
    | some kv => simp [hf] at h
  rw [List.find?_append, hc]
  simp only [Option.none_or]
  congr 1
  have hnot : ∀ c ∈ computed, (c.1 == k) = false := by
    intro c hcm
    have := List.find?_eq_none.1 hc c hcm
    simpa using this
  induction user with
  | nil => rfl
  | cons a t ih =>
    by_cases hak : (a.1 == k) = true
    · have hkeep : (!(computed.any fun c => c.1 == a.1)) = true := by
        simp only [Bool.not_eq_true', List.any_eq_false]
        intro c hcm
        have h1 := hnot c hcm
        have hak' : a.1 = k := by simpa using hak
        simpa [hak'] using h1
      simp [hkeep, hak]
    · have hak' : (a.1 == k) = false := by simpa using hak
      by_cases hkeep : (!(computed.any fun c => c.1 == a.1)) = true
      · simp [hkeep, hak', ih]
      · simp [hkeep, hak', ih]

/-- two callers' dictionaries — e.g. a fresh one and one that holds the entries of an earlier call — give `curve_fit` the same
    value for every entry this call assigns -/
theorem merge_independent_of_stale (user user' computed : List (String × β)) (k : String) (v : β)
    (h : lookupKw computed k = some v) :
    lookupKw (mergeKwargs user computed) k = lookupKw (mergeKwargs user' computed) k := by
  rw [merge_owned user computed k v h, merge_owned user' computed k v h]

/-! non-trivial instance: a dictionary holding the box of an earlier fit -/
example : lookupKw (mergeKwargs [("ftol", 1), ("bounds", 7)] [("bounds", (2:Nat)), ("p0", 3)]) "bounds" = some 2 := by decide
example : lookupKw (mergeKwargs [("ftol", 1), ("bounds", 7)] [("bounds", (2:Nat)), ("p0", 3)]) "ftol" = some 1 := by decide

end GSV.Props.C10Kwargs
