/-
  C19 — field transformations produce their documented target distributions.

  The definitions reasoned about are those of `GSV/Model/Transform.lean` (the same text the driver runs on
  `Float` against the real `gstools.transform`), instantiated at `ℝ`.  The standard normal cdf `Φ` and its
  quantile function `Q` are abstract: the theorems only use `IsStdNormalCdf Φ Q` (strictly increasing,
  values in (0,1), `Φ ∘ Q = id` on (0,1), symmetry).
-/
import GSV.RealInst
import GSV.Model.Transform
import GSV.Lemmas.Transform
import Mathlib.Analysis.SpecialFunctions.Log.Basic
import Mathlib.Tactic.NormNum.OfScientific
import Mathlib.Tactic.Ring
import Mathlib.Tactic.FieldSimp
import Mathlib.Tactic.Linarith
import Mathlib.Tactic.Positivity
namespace GSV.Props.C19
open GSV GSV.Transc GSV.Model.Transform GSV.Lemmas.Transform

/-! ## discrete / binary -/

/-- **Discrete partition** (explicit thresholds).  With `len(values) = len(thresholds) + 1` and strictly
    ascending thresholds, `array_discrete` raises nothing and maps every entry through one function `f` with
    `f x ∈ values`, `x ≤ t₀ ↦ v₀`, `t_i < x ≤ t_{i+1} ↦ v_{i+1}`, `x > t_last ↦ v_last`. -/
theorem discrete_partition (Q : ℝ → ℝ) (field vals thr : List ℝ)
    (hlen : vals.length = thr.length + 1) (hpos : 0 < thr.length) (hasc : thr.Pairwise (· < ·)) :
    ∃ f : ℝ → ℝ, discrete Q field vals (.explicit thr) = .ok (field.map fun x => some (f x)) ∧
      ∀ x, f x ∈ vals ∧
        (x ≤ thr[0]'hpos → f x = vals[0]'(by omega)) ∧
        (∀ i (hi : i + 1 < thr.length), thr[i] < x → x ≤ thr[i + 1] → f x = vals[i + 1]'(by omega)) ∧
        (thr[thr.length - 1]'(by omega) < x → f x = vals[thr.length]'(by omega)) := by
  choose f hf using classify_spec vals thr hlen hpos hasc
  refine ⟨f, ?_, fun x => (hf x).2⟩
  have ha : ascending thr = true := (ascending_iff_pairwise thr).mpr hasc
  have hthr : thr ≠ [] := by intro h; simp [h] at hpos
  have hvals : vals ≠ [] := by intro h; simp [h] at hlen
  have e1 : thr.head? = some (thr[0]'hpos) := by
    rw [List.head?_eq_some_head hthr, List.head_eq_getElem]
  have e2 : thr.getLast? = some (thr[thr.length - 1]'(by omega)) := by
    rw [List.getLast?_eq_some_getLast hthr, List.getLast_eq_getElem]
  have e3 : vals.head? = some (vals[0]'(by omega)) := by
    rw [List.head?_eq_some_head hvals, List.head_eq_getElem]
  have e4 : vals.getLast? = some (vals[thr.length]'(by omega)) := by
    rw [List.getLast?_eq_some_getLast hvals, List.getLast_eq_getElem]
    simp only [hlen, Nat.add_sub_cancel]
  simp only [discrete, discreteSetup, hlen, ne_eq, not_true_eq_false, ↓reduceIte, ha,
    Bool.not_true, Bool.false_eq_true, e1, e2, e3, e4, bind, Except.bind, pure, Except.pure]
  congr 1
  apply List.map_congr_left
  intro x _
  exact (hf x).1

example : (([1, 2, 3] : List ℝ)).length = ([0.5, 1.5] : List ℝ).length + 1 ∧
    ([0.5, 1.5] : List ℝ).Pairwise (· < ·) := by
  refine ⟨rfl, ?_⟩; simp; norm_num

/-- **Binary** transform (`values = [lower, upper]`, `thresholds = [divide]`): `x ≤ divide ↦ lower`, else `upper`. -/
theorem binary (Q : ℝ → ℝ) (field : List ℝ) (lower upper divide : ℝ) :
    discrete Q field [lower, upper] (.explicit [divide]) =
      .ok (field.map fun x => some (if x ≤ divide then lower else upper)) := by
  simp only [discrete, discreteSetup, List.length_cons, List.length_nil, ne_eq, not_true_eq_false,
    ↓reduceIte, ascending, Bool.not_true, Bool.false_eq_true, List.head?_cons, List.getLast?_singleton,
    List.getLast?_cons_cons, bind, Except.bind, pure, Except.pure, zero_add]
  congr 1
  apply List.map_congr_left
  intro x _
  simp only [classify, List.tail_cons, List.dropLast_singleton, classifyMid]
  by_cases h : x ≤ divide
  · simp [h, not_lt.mpr h]
  · simp [h, lt_of_not_ge h]

/-- default `upper`/`lower` of the binary wrapper: the two-point law with weights ½, ½ on `mean ∓ √sill`
    has mean `mean` and variance `sill` -/
theorem binary_default_moments (mean sill : ℝ) (hs : 0 ≤ sill) :
    let lower := mean - sqrt sill
    let upper := mean + sqrt sill
    (lower + upper) / 2 = mean ∧ ((lower - mean) ^ 2 + (upper - mean) ^ 2) / 2 = sill := by
  simp only [sqrt_real]
  refine ⟨by ring, ?_⟩
  have := Real.sq_sqrt hs
  ring_nf; rw [this]

/-! ## force moments -/

/-- **Force moments**: for a non-empty sample with non-zero sample variance and a requested variance `≥ 0`,
    the transformed sample has *exactly* the requested `np.mean` and `np.var`. -/
theorem force_moments (l : List ℝ) (hl : l ≠ []) (mean var : ℝ) (hv : 0 ≤ var) (hvar : lvar l ≠ 0) :
    lmean (forceMoments mean var l) = mean ∧ lvar (forceMoments mean var l) = var :=
  ⟨lmean_forceMoments l hl mean var, lvar_forceMoments l hl mean var hv hvar⟩

example : ([1, 3] : List ℝ) ≠ [] ∧ lvar ([1, 3] : List ℝ) ≠ 0 := by
  refine ⟨by simp, ?_⟩
  simp only [lvar, lmean, lsum, List.map, List.foldl, List.length]
  norm_num

/-! ## default bounds of the arcsine and U-quadratic transforms -/

/-- the arcsine law on `[a, b]` has mean `(a+b)/2` and variance `(b−a)²/8`; the default bounds
    `mean ∓ √(2 var)` make these `mean` and `var` -/
theorem arcsin_default_bounds (mean var : ℝ) (hv : 0 ≤ var) :
    let a := arcsinDefaultA mean var
    let b := arcsinDefaultB mean var
    (a + b) / 2 = mean ∧ (b - a) ^ 2 / 8 = var ∧ a ≤ b := by
  simp only [arcsinDefaultA, arcsinDefaultB, sqrt_real, lit20]
  have h2 : (0:ℝ) ≤ 2 * var := by positivity
  have := Real.sq_sqrt h2
  refine ⟨by ring, ?_, by linarith [Real.sqrt_nonneg (2 * var)]⟩
  ring_nf; ring_nf at this; rw [this]; ring

/-- the U-quadratic law on `[a, b]` has mean `(a+b)/2` and variance `3(b−a)²/20`; the default bounds
    `mean ∓ √(5/3 var)` make these `mean` and `var` -/
theorem uquad_default_bounds (mean var : ℝ) (hv : 0 ≤ var) :
    let a := uquadDefaultA mean var
    let b := uquadDefaultB mean var
    (a + b) / 2 = mean ∧ 3 * (b - a) ^ 2 / 20 = var ∧ a ≤ b := by
  simp only [uquadDefaultA, uquadDefaultB, sqrt_real, lit50, lit30]
  have h2 : (0:ℝ) ≤ 5 / 3 * var := by positivity
  have := Real.sq_sqrt h2
  refine ⟨by ring, ?_, by linarith [Real.sqrt_nonneg (5 / 3 * var)]⟩
  ring_nf; ring_nf at this; rw [this]; ring

end GSV.Props.C19
