/-
  C19 — field transformations produce their documented target distributions.

  The definitions reasoned about are those of `GSV/Model/Transform.lean` (the same text the driver runs on `Float`
  against the real `gstools.transform`), instantiated at `ℝ`.  The standard normal cdf `Φ` and its quantile function
  `Q` are abstract: the theorems only use `IsStdNormalCdf Φ Q` (strictly increasing, values in (0,1), `Φ ∘ Q = id`
  on (0,1), symmetry; satisfiable, see `logistic_isStdNormalCdf`).  "Values with a normal marginal of mean `m` and
  variance `v`" is `NormalMarginal P X Φ m (√v)`: a random variable `X` on a probability space with
  `P(X ≤ x) = Φ((x − m)/√v)`; distributional claims are statements about `P(T(X) ≤ y)` (`Measure.real`).
  Helper lemmas live in `GSV/Lemmas/Transform.lean`.
-/
import GSV.RealInst
import GSV.Model.Transform
import GSV.Lemmas.Transform
import Mathlib.MeasureTheory.Measure.Lebesgue.Basic
import Mathlib.MeasureTheory.Function.SpecialFunctions.Basic
namespace GSV.Props.C19
open GSV GSV.Transc GSV.Model.Transform GSV.Lemmas.Transform MeasureTheory

variable {Ω : Type*} [MeasurableSpace Ω] {P : Measure Ω} {X : Ω → ℝ} {Φ Q : ℝ → ℝ}

/-! ## discrete / binary -/

/-- the documented partition of the real line by ascending thresholds `thr` into classes labelled `vals` -/
def IsPartitionMap (f : ℝ → ℝ) (vals thr : List ℝ) : Prop :=
  ∃ (hlen : vals.length = thr.length + 1) (hpos : 0 < thr.length), ∀ x,
    f x ∈ vals ∧
    (x ≤ thr[0]'hpos → f x = vals[0]'(by omega)) ∧
    (∀ i (hi : i + 1 < thr.length), thr[i] < x → x ≤ thr[i + 1] → f x = vals[i + 1]'(by omega)) ∧
    (thr[thr.length - 1]'(by omega) < x → f x = vals[thr.length]'(by omega))

/-- whatever the threshold mode: if the prepared values / thresholds have matching lengths and the thresholds are
    strictly ascending, `array_discrete` raises nothing and applies one partition map to every entry -/
theorem discrete_of_setup (Q : ℝ → ℝ) (field vals : List ℝ) (mode : ThrMode ℝ) (sv thr : List ℝ)
    (hsetup : discreteSetup Q field vals mode = .ok (sv, thr))
    (hlen : sv.length = thr.length + 1) (hpos : 0 < thr.length) (hasc : thr.Pairwise (· < ·)) :
    ∃ f : ℝ → ℝ, discrete Q field vals mode = .ok (field.map fun x => some (f x)) ∧ IsPartitionMap f sv thr := by
  choose f hf using classify_spec sv thr hlen hpos hasc
  refine ⟨f, ?_, hlen, hpos, fun x => (hf x).2⟩
  have ha : ascending thr = true := (ascending_iff_pairwise thr).mpr hasc
  have hthr : thr ≠ [] := by intro h; simp [h] at hpos
  have hvals : sv ≠ [] := by intro h; simp [h] at hlen
  have e1 : thr.head? = some (thr[0]'hpos) := by
    rw [List.head?_eq_some_head hthr, List.head_eq_getElem]
  have e2 : thr.getLast? = some (thr[thr.length - 1]'(by omega)) := by
    rw [List.getLast?_eq_some_getLast hthr, List.getLast_eq_getElem]
  have e3 : sv.head? = some (sv[0]'(by omega)) := by
    rw [List.head?_eq_some_head hvals, List.head_eq_getElem]
  have e4 : sv.getLast? = some (sv[thr.length]'(by omega)) := by
    rw [List.getLast?_eq_some_getLast hvals, List.getLast_eq_getElem]
    simp only [hlen, Nat.add_sub_cancel]
  simp only [discrete, hsetup, ha, Bool.not_true, Bool.false_eq_true, ↓reduceIte, e1, e2, e3, e4, bind, Except.bind,
    pure, Except.pure]
  congr 1
  apply List.map_congr_left
  intro x _
  exact (hf x).1

/-- **Discrete partition** (explicit thresholds).  With `len(values) = len(thresholds) + 1` and strictly
    ascending thresholds, `array_discrete` raises nothing and maps every entry through one function `f` with
    `f x ∈ values`, `x ≤ t₀ ↦ v₀`, `t_i < x ≤ t_{i+1} ↦ v_{i+1}`, `x > t_last ↦ v_last`. -/
theorem discrete_partition (Q : ℝ → ℝ) (field vals thr : List ℝ)
    (hlen : vals.length = thr.length + 1) (hpos : 0 < thr.length) (hasc : thr.Pairwise (· < ·)) :
    ∃ f : ℝ → ℝ, discrete Q field vals (.explicit thr) = .ok (field.map fun x => some (f x)) ∧
      IsPartitionMap f vals thr :=
  discrete_of_setup Q field vals _ vals thr (by simp [discreteSetup, hlen, pure, Except.pure]) hlen hpos hasc

/-- malformed explicit thresholds raise: wrong length or not strictly ascending → `ValueError` -/
theorem discrete_explicit_errors (Q : ℝ → ℝ) (field vals thr : List ℝ) :
    (vals.length ≠ thr.length + 1 → discrete Q field vals (.explicit thr) = .error "ValueError") ∧
    (vals.length = thr.length + 1 → ¬ thr.Pairwise (· < ·) → discrete Q field vals (.explicit thr) = .error "ValueError") := by
  constructor
  · intro h
    simp [discrete, discreteSetup, h, bind, Except.bind, throw, throwThe, MonadExceptOf.throw]
  · intro h hna
    have ha : ascending thr = false := by
      rw [← Bool.not_eq_true, ascending_iff_pairwise]; exact hna
    simp [discrete, discreteSetup, h, ha, bind, Except.bind, pure, Except.pure, throw, throwThe, MonadExceptOf.throw]

example : (([1, 2, 3] : List ℝ)).length = ([0.5, 1.5] : List ℝ).length + 1 ∧
    ([0.5, 1.5] : List ℝ).Pairwise (· < ·) := by
  refine ⟨rfl, ?_⟩; simp; norm_num

/-- **Binary** transform (`values = [lower, upper]`, `thresholds = [divide]`): `x ≤ divide ↦ lower`, else `upper`. -/
theorem binary (Q : ℝ → ℝ) (field : List ℝ) (lower upper divide : ℝ) :
    discrete Q field [lower, upper] (.explicit [divide]) =
      .ok (field.map fun x => some (if x ≤ divide then lower else upper)) := by
  simp only [discrete, discreteSetup, List.length_cons, List.length_nil, ne_eq, not_true_eq_false,
    ↓reduceIte, ascending, Bool.not_true, Bool.false_eq_true, List.head?_cons, List.getLast?_singleton,
    List.getLast?_cons_cons, bind, Except.bind, pure, Except.pure, zero_add]
  congr 1
  apply List.map_congr_left
  intro x _
  simp only [classify, List.tail_cons, List.dropLast_singleton, classifyMid]
  by_cases h : x ≤ divide
  · simp [h, not_lt.mpr h]
  · simp [h, lt_of_not_ge h]

/-- default `upper`/`lower` of the binary wrapper: the two-point law with weights ½, ½ on `mean ∓ √sill`
    has mean `mean` and variance `sill` -/
theorem binary_default_moments (mean sill : ℝ) (hs : 0 ≤ sill) :
    let lower := mean - sqrt sill
    let upper := mean + sqrt sill
    (lower + upper) / 2 = mean ∧ ((lower - mean) ^ 2 + (upper - mean) ^ 2) / 2 = sill := by
  simp only [sqrt_real]
  refine ⟨by ring, ?_⟩
  have := Real.sq_sqrt hs
  ring_nf; rw [this]

/-- default `divide = mean`: both values of the binary transform have probability ½ under a normal marginal `N(mean, s²)` -/
theorem binary_default_split (h : IsStdNormalCdf Φ Q) [IsProbabilityMeasure P] {mean s : ℝ}
    (hX : NormalMarginal P X Φ mean s) (hm : Measurable X) :
    P.real {ω | X ω ≤ mean} = 1 / 2 ∧ P.real {ω | mean < X ω} = 1 / 2 := by
  have h1 : P.real {ω | X ω ≤ mean} = 1 / 2 := by rw [hX, sub_self, zero_div, h.at_zero]
  refine ⟨h1, ?_⟩
  have hset : {ω | mean < X ω} = {ω | X ω ≤ mean}ᶜ := by ext ω; simp
  rw [hset, measureReal_compl (measurableSet_le_const hm _), probReal_univ, h1]; norm_num

/-! ## force moments -/

/-- **Force moments**: for a non-empty sample with non-zero sample variance and a requested variance `≥ 0`,
    the transformed sample has *exactly* the requested `np.mean` and `np.var`. -/
theorem force_moments (l : List ℝ) (hl : l ≠ []) (mean var : ℝ) (hv : 0 ≤ var) (hvar : lvar l ≠ 0) :
    lmean (forceMoments mean var l) = mean ∧ lvar (forceMoments mean var l) = var :=
  ⟨lmean_forceMoments l hl mean var, lvar_forceMoments l hl mean var hv hvar⟩

example : ([1, 3] : List ℝ) ≠ [] ∧ lvar ([1, 3] : List ℝ) ≠ 0 := by
  refine ⟨by simp, ?_⟩
  simp only [lvar, lmean, lsum, List.map, List.foldl, List.length]
  norm_num

/-! ## default bounds of the arcsine and U-quadratic transforms -/

/-- the arcsine law on `[a, b]` has mean `(a+b)/2` and variance `(b−a)²/8`; the default bounds
    `mean ∓ √(2 var)` make these `mean` and `var` -/
theorem arcsin_default_bounds (mean var : ℝ) (hv : 0 ≤ var) :
    let a := arcsinDefaultA mean var
    let b := arcsinDefaultB mean var
    (a + b) / 2 = mean ∧ (b - a) ^ 2 / 8 = var ∧ a ≤ b := by
  simp only [arcsinDefaultA, arcsinDefaultB, sqrt_real, lit20]
  have h2 : (0:ℝ) ≤ 2 * var := by positivity
  have := Real.sq_sqrt h2
  refine ⟨by ring, ?_, by linarith [Real.sqrt_nonneg (2 * var)]⟩
  ring_nf; ring_nf at this; rw [this]; ring

/-- the U-quadratic law on `[a, b]` has mean `(a+b)/2` and variance `3(b−a)²/20`; the default bounds
    `mean ∓ √(5/3 var)` make these `mean` and `var` -/
theorem uquad_default_bounds (mean var : ℝ) (hv : 0 ≤ var) :
    let a := uquadDefaultA mean var
    let b := uquadDefaultB mean var
    (a + b) / 2 = mean ∧ 3 * (b - a) ^ 2 / 20 = var ∧ a ≤ b := by
  simp only [uquadDefaultA, uquadDefaultB, sqrt_real, lit50, lit30]
  have h2 : (0:ℝ) ≤ 5 / 3 * var := by positivity
  have := Real.sq_sqrt h2
  refine ⟨by ring, ?_, by linarith [Real.sqrt_nonneg (5 / 3 * var)]⟩
  ring_nf; ring_nf at this; rw [this]; ring

/-! ## Box-Cox -/

/-- **Box-Cox inverts the Box-Cox normalizer**: `array_boxcox(BoxCox(λ).normalize(y), λ) = y` for every `y > 0`
    and every `λ` (both branches of `isclose(λ, 0)`). -/
theorem boxcox_inverts_normalizer (l y : ℝ) (hy : 0 < y) : boxcox l 0 (bcNormalize l y) = y := by
  unfold boxcox bcNormalize
  cases hl : lmbdaIsZero l
  · have hl0 := lmbda_ne_zero hl
    simp only [Bool.false_eq_true, ↓reduceIte, rpow_real, Nat.cast_one, add_zero]
    have e : l * ((y ^ l - 1) / l) + 1 = y ^ l := by field_simp; ring
    rw [e, maxZero_of_nonneg (le_of_lt (Real.rpow_pos_of_pos hy l)), ← Real.rpow_mul (le_of_lt hy)]
    rw [mul_one_div_cancel hl0, Real.rpow_one]
  · simp only [↓reduceIte, toLognormal, exp_real, log_real, add_zero]
    exact Real.exp_log hy

/-- … and the normalizer inverts `array_boxcox` wherever nothing is cut off (`λ(x + shift) + 1 > 0`):
    `BoxCox(λ).normalize(array_boxcox(x, λ, shift)) = x + shift`. -/
theorem normalizer_inverts_boxcox (l s x : ℝ) (hcut : 0 < l * (x + s) + 1) :
    bcNormalize l (boxcox l s x) = x + s := by
  unfold boxcox bcNormalize
  cases hl : lmbdaIsZero l
  · have hl0 := lmbda_ne_zero hl
    simp only [Bool.false_eq_true, ↓reduceIte, rpow_real, Nat.cast_one]
    rw [maxZero_of_nonneg (le_of_lt hcut), ← Real.rpow_mul (le_of_lt hcut), one_div_mul_cancel hl0, Real.rpow_one]
    field_simp; ring
  · simp only [↓reduceIte, toLognormal, exp_real, log_real]
    exact Real.log_exp _

/-- `array_boxcox(x, λ, shift)` is `BoxCox(λ).denormalize(x + shift)` wherever nothing is cut off -/
theorem boxcox_eq_denormalize (l s x : ℝ) (hcut : 0 ≤ l * (x + s) + 1) :
    boxcox l s x = bcDenormalize l (x + s) := by
  unfold boxcox bcDenormalize
  cases hl : lmbdaIsZero l
  · simp only [Bool.false_eq_true, ↓reduceIte, rpow_real, Nat.cast_one]
    rw [maxZero_of_nonneg hcut]; congr 1; ring
  · simp [toLognormal]

/-- the "cut off" warning is emitted exactly when some entry is clipped by `np.maximum(λ·r + 1, 0)` -/
theorem boxcox_warns_iff (l s : ℝ) (f : List ℝ) :
    boxcoxWarns l s f = true ↔ lmbdaIsZero l = false ∧ ∃ x ∈ f, maxZero (l * (x + s) + 1) ≠ l * (x + s) + 1 := by
  simp only [boxcoxWarns, Bool.and_eq_true, Bool.not_eq_eq_eq_not, Bool.not_true, List.any_eq_true,
    decide_eq_true_eq, Nat.cast_one, Nat.cast_zero]
  refine and_congr Iff.rfl (exists_congr fun x => and_congr Iff.rfl ?_)
  simp only [maxZero, Nat.cast_zero]
  constructor
  · intro hh; rw [if_pos hh]; exact ne_of_gt hh
  · intro hh; by_contra hc; exact hh (if_neg hc)

/-! ## 'arithmetic' thresholds -/

/-- **Arithmetic thresholds**: `array_discrete(…, thresholds="arithmetic")` works on the sorted values
    (a sorted permutation of `values`) and uses the midpoints of neighbouring sorted values as thresholds;
    if the values are pairwise distinct the thresholds are strictly ascending, so no error is raised. -/
theorem arithmetic_thresholds (field vals : List ℝ) :
    ∃ sv thr, discreteSetup Q field vals .arithmetic = .ok (sv, thr) ∧
      sv.Perm vals ∧ sv.Pairwise (· ≤ ·) ∧ thr.length = sv.length - 1 ∧
      (∀ i (hi : i + 1 < sv.length), thr[i]? = some ((sv[i + 1] + sv[i]'(by omega)) / 2)) ∧
      (vals.Nodup → thr.Pairwise (· < ·)) := by
  refine ⟨sortVals vals, midpoints (sortVals vals), rfl, sortVals_perm vals, sortVals_sorted vals,
    midpoints_length _, fun i hi => ?_, ?_⟩
  · have hi' : i < (midpoints (sortVals vals)).length := by rw [midpoints_length]; omega
    rw [List.getElem?_eq_getElem hi', midpoints_getElem _ i hi']
  · intro hnd
    apply midpoints_ascending
    have hnd' : (sortVals vals).Nodup := (sortVals_perm vals).nodup_iff.mpr hnd
    exact ((sortVals_sorted vals).and hnd').imp (fun ⟨h1, h2⟩ => lt_of_le_of_ne h1 h2)


/-- with pairwise distinct values (at least two) the 'arithmetic' mode raises nothing and applies the partition map of
    the midpoints to the sorted values -/
theorem discrete_arithmetic (Q : ℝ → ℝ) (field vals : List ℝ) (hn : 2 ≤ vals.length) (hnd : vals.Nodup) :
    ∃ (f : ℝ → ℝ) (sv thr : List ℝ), discrete Q field vals .arithmetic = .ok (field.map fun x => some (f x)) ∧
      IsPartitionMap f sv thr ∧ sv.Perm vals ∧ sv.Pairwise (· ≤ ·) ∧
      (∀ i (hi : i + 1 < sv.length), thr[i]? = some ((sv[i + 1] + sv[i]'(by omega)) / 2)) := by
  obtain ⟨sv, thr, hsetup, hperm, hsorted, hlen, hmid, hasc⟩ := arithmetic_thresholds (Q := Q) field vals
  have hl : sv.length = vals.length := hperm.length_eq
  obtain ⟨f, hf, hpart⟩ := discrete_of_setup Q field vals _ sv thr hsetup (by omega) (by omega) (hasc hnd)
  exact ⟨f, sv, thr, hf, hpart, hperm, hsorted, hmid⟩

example : 2 ≤ ([3, 1, 2] : List ℝ).length ∧ ([3, 1, 2] : List ℝ).Nodup := by
  refine ⟨by simp, ?_⟩; simp

/-- a partition map whose thresholds are the midpoints of the strictly sorted values selects a nearest value -/
theorem nearest_of_partition (f : ℝ → ℝ) (sv thr : List ℝ) (hstrict : sv.Pairwise (· < ·))
    (hmid : ∀ i (hi : i + 1 < sv.length), thr[i]? = some ((sv[i + 1] + sv[i]'(by omega)) / 2))
    (hp : IsPartitionMap f sv thr) : ∀ x, ∀ v ∈ sv, |x - f x| ≤ |x - v| := by
  obtain ⟨hlen, hpos, hspec⟩ := hp
  have hidx := List.pairwise_iff_getElem.mp hstrict
  have hmono : ∀ i j (hi : i < sv.length) (hj : j < sv.length), i ≤ j → sv[i] ≤ sv[j] := by
    intro i j hi hj hij
    rcases Nat.lt_or_eq_of_le hij with h | h
    · exact le_of_lt (hidx i j hi hj h)
    · subst h; exact le_refl _
  have hthr : ∀ i (hi : i < thr.length), thr[i] = (sv[i + 1]'(by omega) + sv[i]'(by omega)) / 2 := by
    intro i hi
    have := hmid i (by omega)
    rw [List.getElem?_eq_getElem hi] at this
    exact Option.some.inj this
  intro x v hv
  obtain ⟨j, hj, rfl⟩ := List.getElem_of_mem hv
  obtain ⟨_, ha, hb, hc⟩ := hspec x
  by_cases h0 : x ≤ thr[0]'hpos
  · rw [ha h0]
    rw [hthr 0 hpos] at h0
    have h01 := hmono 0 1 (by omega) (by omega) (by omega)
    rcases Nat.eq_zero_or_pos j with rfl | hjpos
    · exact le_refl _
    · have h1j := hmono 1 j (by omega) hj (by omega)
      have h0j := hmono 0 j (by omega) hj (by omega)
      rw [abs_le, abs_of_nonpos (by linarith : x - sv[j] ≤ 0)]
      constructor <;> linarith
  · by_cases hl : thr[thr.length - 1]'(by omega) < x
    · rw [hc hl]
      rw [hthr (thr.length - 1) (by omega)] at hl
      have e : thr.length - 1 + 1 = thr.length := by omega
      have hl' : (sv[thr.length]'(by omega) + sv[thr.length - 1]'(by omega)) / 2 < x := by
        simpa only [e] using hl
      have hlast := hmono (thr.length - 1) thr.length (by omega) (by omega) (by omega)
      rcases Nat.lt_or_ge j thr.length with hjl | hjl
      · have hj1 := hmono j (thr.length - 1) hj (by omega) (by omega)
        have hj2 := hmono j thr.length hj (by omega) (by omega)
        rw [abs_le, abs_of_nonneg (by linarith : 0 ≤ x - sv[j])]
        constructor <;> linarith
      · have : j = thr.length := by omega
        subst this; exact le_refl _
    · have hne : thr ≠ [] := by intro h; simp [h] at hpos
      obtain ⟨i, hi, h1, h2⟩ := exists_bracket thr x hne
        (by rw [List.head_eq_getElem]; exact lt_of_not_ge h0)
        (by rw [List.getLast_eq_getElem]; exact le_of_not_gt hl)
      rw [hb i hi h1 h2]
      rw [hthr i (by omega)] at h1
      rw [hthr (i + 1) hi] at h2
      rcases Nat.lt_trichotomy j (i + 1) with hlt | heq | hgt
      · have hji := hmono j i hj (by omega) (by omega)
        have hjc := hmono j (i + 1) hj (by omega) (by omega)
        rw [abs_le, abs_of_nonneg (by linarith : 0 ≤ x - sv[j])]
        constructor <;> linarith
      · subst heq; exact le_refl _
      · have hji := hmono (i + 1 + 1) j (by omega) hj (by omega)
        have hjc := hmono (i + 1) j (by omega) hj (by omega)
        rw [abs_le, abs_of_nonpos (by linarith : x - sv[j] ≤ 0)]
        constructor <;> linarith

/-- **Arithmetic thresholds select a nearest value**: with pairwise distinct values (at least two),
    `array_discrete(field, values)` maps every entry to a value of minimal distance. -/
theorem arithmetic_nearest (Q : ℝ → ℝ) (field vals : List ℝ) (hn : 2 ≤ vals.length) (hnd : vals.Nodup) :
    ∃ f : ℝ → ℝ, discrete Q field vals .arithmetic = .ok (field.map fun x => some (f x)) ∧
      ∀ x, f x ∈ vals ∧ ∀ v ∈ vals, |x - f x| ≤ |x - v| := by
  obtain ⟨f, sv, thr, hf, hpart, hperm, hsorted, hmid⟩ := discrete_arithmetic Q field vals hn hnd
  have hstrict : sv.Pairwise (· < ·) :=
    (hsorted.and (hperm.nodup_iff.mpr hnd)).imp (fun ⟨h1, h2⟩ => lt_of_le_of_ne h1 h2)
  refine ⟨f, hf, fun x => ⟨?_, fun v hv => ?_⟩⟩
  · obtain ⟨_, _, hspec⟩ := hpart
    exact hperm.mem_iff.mp (hspec x).1
  · exact nearest_of_partition f sv thr hstrict hmid hpart x v (hperm.mem_iff.mpr hv)

/-! ## documented target cdfs -/

/-- cdf of the uniform law on `[low, high]` -/
noncomputable def uniformCdf (low high y : ℝ) : ℝ :=
  if y ≤ low then 0 else if high ≤ y then 1 else (y - low) / (high - low)

/-- cdf of the arcsine law on `[a, b]` -/
noncomputable def arcsinCdf (a b y : ℝ) : ℝ :=
  if y ≤ a then 0 else if b ≤ y then 1 else 2 / Real.pi * Real.arcsin (Real.sqrt ((y - a) / (b - a)))

/-- cdf of the U-quadratic law on `[a, b]`: `α/3·((y−β)³ + (β−a)³)` with `α = 12/(b−a)³`, `β = (a+b)/2` -/
noncomputable def uquadCdf (a b y : ℝ) : ℝ :=
  if y ≤ a then 0 else if b ≤ y then 1 else 4 * (y - (a + b) / 2) ^ 3 / (b - a) ^ 3 + 1 / 2

/-- cdf of the log-normal law with log-mean `m` and log-standard-deviation `s` -/
noncomputable def lognormalCdf (Φ : ℝ → ℝ) (m s y : ℝ) : ℝ :=
  if y ≤ 0 then 0 else Φ ((Real.log y - m) / s)

/-- **Uniform**: a normal marginal `N(m, v)` pushed through `array_to_uniform(mean=m, var=v, low, high)` has the
    uniform cdf on `[low, high]`. -/
theorem uniform_cdf (h : IsStdNormalCdf Φ Q) [IsProbabilityMeasure P] {m v low high : ℝ}
    (hX : NormalMarginal P X Φ m (Real.sqrt v)) (hv : 0 < v) (hlh : low < high) (y : ℝ) :
    P.real {ω | toUniform Φ m v low high (X ω) ≤ y} = uniformCdf low high y := by
  have hs : 0 < Real.sqrt v := Real.sqrt_pos.mpr hv
  have hd : 0 < high - low := sub_pos.mpr hlh
  simp only [toUniform_eq]
  refine pushforward_cdf h hX hs (fun u => u * (high - low) + low) _ y ?_
  unfold uniformCdf
  split_ifs with h1 h2
  · left; exact ⟨fun u hu0 _ => by nlinarith, rfl⟩
  · right; left; exact ⟨fun u _ hu1 => by nlinarith, rfl⟩
  · right; right
    have h1' : low < y := lt_of_not_ge h1
    have h2' : y < high := lt_of_not_ge h2
    refine ⟨div_pos (by linarith) hd, (div_lt_one hd).mpr (by linarith), fun u _ _ => ?_⟩
    rw [le_div_iff₀ hd]
    constructor <;> intro hh <;> linarith

/-- **Arcsine**: `array_to_arcsin(mean=m, var=v, a, b)` (bounds given or defaulted) turns a normal marginal `N(m, v)`
    into the arcsine law on `[a', b']` (the effective bounds), provided `a' < b'`. -/
theorem arcsin_cdf (h : IsStdNormalCdf Φ Q) [IsProbabilityMeasure P] {m v : ℝ} (a b : Option ℝ)
    (hX : NormalMarginal P X Φ m (Real.sqrt v)) (hv : 0 < v)
    (hab : a.getD (arcsinDefaultA m v) < b.getD (arcsinDefaultB m v)) (y : ℝ) :
    P.real {ω | toArcsin Φ m v a b (X ω) ≤ y} =
      arcsinCdf (a.getD (arcsinDefaultA m v)) (b.getD (arcsinDefaultB m v)) y := by
  have hs : 0 < Real.sqrt v := Real.sqrt_pos.mpr hv
  simp only [toArcsin_eq]
  set a' := a.getD (arcsinDefaultA m v)
  set b' := b.getD (arcsinDefaultB m v)
  refine pushforward_cdf h hX hs (uniformToArcsin a' b') _ y ?_
  unfold arcsinCdf
  split_ifs with h1 h2
  · left; exact ⟨fun u hu0 hu1 => lt_of_le_of_lt h1 (uniformToArcsin_mem_Ioo hab hu0 hu1).1, rfl⟩
  · right; left; exact ⟨fun u hu0 hu1 => le_trans (uniformToArcsin_mem_Ioo hab hu0 hu1).2 h2, rfl⟩
  · right; right
    have h1' : a' < y := lt_of_not_ge h1
    have h2' : y < b' := lt_of_not_ge h2
    exact ⟨(arcsinCdf_mem_Ioo hab h1' h2').1, (arcsinCdf_mem_Ioo hab h1' h2').2,
      fun u hu0 hu1 => uniformToArcsin_le_iff hab hu0 hu1 h1' h2'⟩

/-- **U-quadratic**: `array_to_uquad(mean=m, var=v, a, b)` turns a normal marginal `N(m, v)` into the U-quadratic law
    on the effective bounds `[a', b']`, provided `a' < b'`. -/
theorem uquad_cdf (h : IsStdNormalCdf Φ Q) [IsProbabilityMeasure P] {m v : ℝ} (a b : Option ℝ)
    (hX : NormalMarginal P X Φ m (Real.sqrt v)) (hv : 0 < v)
    (hab : a.getD (uquadDefaultA m v) < b.getD (uquadDefaultB m v)) (y : ℝ) :
    P.real {ω | toUquad Φ m v a b (X ω) ≤ y} =
      uquadCdf (a.getD (uquadDefaultA m v)) (b.getD (uquadDefaultB m v)) y := by
  have hs : 0 < Real.sqrt v := Real.sqrt_pos.mpr hv
  simp only [toUquad_eq]
  set a' := a.getD (uquadDefaultA m v)
  set b' := b.getD (uquadDefaultB m v)
  refine pushforward_cdf h hX hs (uniformToUquad a' b') _ y ?_
  have hba : 0 < b' - a' := sub_pos.mpr hab
  have h3 : 0 < (b' - a') ^ 3 := pow_pos hba 3
  have hF : ∀ y, 4 * (y - (a' + b') / 2) ^ 3 / (b' - a') ^ 3 + 1 / 2 =
      (4 * (y - (a' + b') / 2) ^ 3 + (b' - a') ^ 3 / 2) / (b' - a') ^ 3 := by
    intro y; field_simp
  unfold uquadCdf
  split_ifs with h1 h2
  · left
    refine ⟨fun u hu0 _ => ?_, rfl⟩
    rw [← not_le, uniformToUquad_le_iff hab]
    have : (y - (a' + b') / 2) ^ 3 ≤ (-(b' - a') / 2) ^ 3 := cube_le_cube.mpr (by linarith)
    rw [hF, le_div_iff₀ h3]
    intro hh; nlinarith
  · right; left
    refine ⟨fun u _ hu1 => ?_, rfl⟩
    rw [uniformToUquad_le_iff hab]
    have : ((b' - a') / 2) ^ 3 ≤ (y - (a' + b') / 2) ^ 3 := cube_le_cube.mpr (by linarith)
    rw [hF, le_div_iff₀ h3]
    nlinarith
  · right; right
    have h1' : a' < y := lt_of_not_ge h1
    have h2' : y < b' := lt_of_not_ge h2
    exact ⟨(uquadCdf_mem_Ioo hab h1' h2').1, (uquadCdf_mem_Ioo hab h1' h2').2,
      fun u _ _ => uniformToUquad_le_iff hab⟩

/-- **Log-normal**: `exp` of a normal marginal `N(m, s²)` has the log-normal cdf `Φ((log y − m)/s)`. -/
theorem lognormal_cdf {m s : ℝ} (hX : NormalMarginal P X Φ m s) (y : ℝ) :
    P.real {ω | toLognormal (X ω) ≤ y} = lognormalCdf Φ m s y := by
  unfold lognormalCdf
  split_ifs with h0
  · have : {ω | toLognormal (X ω) ≤ y} = ∅ := by
      ext ω
      simp only [Set.mem_ofPred_eq, Set.mem_empty_iff_false, iff_false, not_le, toLognormal, exp_real]
      exact lt_of_le_of_lt h0 (Real.exp_pos _)
    rw [this]; simp
  · have hy : 0 < y := lt_of_not_ge h0
    have : {ω | toLognormal (X ω) ≤ y} = {ω | X ω ≤ Real.log y} := by
      ext ω
      simp only [Set.mem_ofPred_eq, toLognormal, exp_real]
      rw [Real.le_log_iff_exp_le hy]
    rw [this, hX]


/-! ## moments of the arcsine and U-quadratic targets -/

open intervalIntegral in
/-- **Moments of the arcsine target** through its quantile function (`E g(U) = ∫₀¹ g`, `U` uniform): the law produced by
    `_uniform_to_arcsin(·, a, b)` has mean `(a+b)/2` and variance `(b−a)²/8`. -/
theorem arcsin_quantile_moments (a b : ℝ) :
    ∫ u in (0:ℝ)..1, uniformToArcsin a b u = (a + b) / 2 ∧
    ∫ u in (0:ℝ)..1, (uniformToArcsin a b u - (a + b) / 2) ^ 2 = (b - a) ^ 2 / 8 := by
  constructor
  · simp only [uniformToArcsin_cos]
    have hc : IntervalIntegrable (fun u => (b - a) / 2 * Real.cos (Real.pi * u)) volume 0 1 :=
      (Continuous.intervalIntegrable (by fun_prop) 0 1)
    rw [integral_sub (by simp) hc, intervalIntegral.integral_const_mul, integral_cos_pi]
    simp
  · have : ∀ u, (uniformToArcsin a b u - (a + b) / 2) ^ 2 = (b - a) ^ 2 / 4 * Real.cos (Real.pi * u) ^ 2 := by
      intro u; rw [uniformToArcsin_cos]; ring
    simp only [this]
    rw [intervalIntegral.integral_const_mul, integral_cos_sq_pi]; ring

/-- density of the U-quadratic law: `α (y − β)²`, `α = 12/(b−a)³`, `β = (a+b)/2` -/
noncomputable def uquadDensity (a b y : ℝ) : ℝ := 12 / (b - a) ^ 3 * (y - (a + b) / 2) ^ 2

open intervalIntegral in
/-- **Moments of the U-quadratic target**: on `(a, b)` the documented cdf `uquadCdf` has the density `α(y−β)²`, which
    integrates to 1 and has mean `(a+b)/2` and variance `3(b−a)²/20`. -/
theorem uquad_density_moments {a b : ℝ} (hab : a < b) :
    (∀ y, a < y → y < b → HasDerivAt (uquadCdf a b) (uquadDensity a b y) y) ∧
    ∫ y in a..b, uquadDensity a b y = 1 ∧
    ∫ y in a..b, y * uquadDensity a b y = (a + b) / 2 ∧
    ∫ y in a..b, (y - (a + b) / 2) ^ 2 * uquadDensity a b y = 3 * (b - a) ^ 2 / 20 := by
  have hba : 0 < b - a := sub_pos.mpr hab
  have h3 : (b - a) ^ 3 ≠ 0 := ne_of_gt (pow_pos hba 3)
  refine ⟨?_, ?_, ?_, ?_⟩
  · intro y hy0 hy1
    have hloc : uquadCdf a b =ᶠ[nhds y] fun y => 4 * (y - (a + b) / 2) ^ 3 / (b - a) ^ 3 + 1 / 2 := by
      have : Set.Ioo a b ∈ nhds y := Ioo_mem_nhds hy0 hy1
      filter_upwards [this] with z hz
      simp only [uquadCdf, not_le.mpr hz.1, not_le.mpr hz.2, ↓reduceIte]
    refine HasDerivAt.congr_of_eventuallyEq ?_ hloc
    have h1 : HasDerivAt (fun y : ℝ => y - (a + b) / 2) 1 y := (hasDerivAt_id y).sub_const _
    have h2 := ((h1.fun_pow 3).const_mul 4).div_const ((b - a) ^ 3) |>.add_const (1 / 2)
    convert h2 using 1
    unfold uquadDensity; field_simp; ring
  · simp only [uquadDensity]
    rw [intervalIntegral.integral_const_mul, integral_sub_pow]
    field_simp; ring
  · have : ∀ y, y * uquadDensity a b y =
        12 / (b - a) ^ 3 * ((y - (a + b) / 2) ^ 3 + (a + b) / 2 * (y - (a + b) / 2) ^ 2) := by
      intro y; simp only [uquadDensity]; ring
    simp only [this]
    rw [intervalIntegral.integral_const_mul, intervalIntegral.integral_add (Continuous.intervalIntegrable (by fun_prop) _ _)
      (Continuous.intervalIntegrable (by fun_prop) _ _), intervalIntegral.integral_const_mul, integral_sub_pow, integral_sub_pow]
    field_simp; ring
  · have : ∀ y, (y - (a + b) / 2) ^ 2 * uquadDensity a b y = 12 / (b - a) ^ 3 * (y - (a + b) / 2) ^ 4 := by
      intro y; simp only [uquadDensity]; ring
    simp only [this]
    rw [intervalIntegral.integral_const_mul, integral_sub_pow]
    field_simp; ring

/-! ## Zinn–Harvey -/

/-- **Zinn–Harvey keeps the normal marginal**: for either connectivity, `array_zinnharvey(mean=m, var=v)` applied to a
    normal marginal `N(m, v)` has again the marginal `N(m, v)`. -/
theorem zinnharvey_marginal (h : IsStdNormalCdf Φ Q) [IsProbabilityMeasure P] {m v : ℝ} (high : Bool)
    (hX : NormalMarginal P X Φ m (Real.sqrt v)) (hm : Measurable X) (hv : 0 < v) :
    NormalMarginal P (fun ω => zinnharvey Φ Q high m v (X ω)) Φ m (Real.sqrt v) := by
  have hs : 0 < Real.sqrt v := Real.sqrt_pos.mpr hv
  have hZ := hX.standardize hs
  have hmZ : Measurable fun ω => (X ω - m) / Real.sqrt v := (hm.sub_const m).div_const _
  intro y
  cases high
  · have : {ω | zinnharvey Φ Q false m v (X ω) ≤ y} =
        {ω | zhCore Φ Q ((X ω - m) / Real.sqrt v) ≤ (y - m) / Real.sqrt v} := by
      ext ω
      simp only [Set.mem_ofPred_eq, zinnharvey, standardize, sqrt_real, Bool.false_eq_true, ↓reduceIte]
      rw [le_div_iff₀ hs]
      constructor <;> intro hh <;> linarith
    rw [this]
    exact prob_zhCore_le h hZ hmZ _
  · have : {ω | zinnharvey Φ Q true m v (X ω) ≤ y} =
        {ω | -zhCore Φ Q ((X ω - m) / Real.sqrt v) ≤ (y - m) / Real.sqrt v} := by
      ext ω
      simp only [Set.mem_ofPred_eq, zinnharvey, standardize, sqrt_real, ↓reduceIte]
      rw [le_div_iff₀ hs]
      constructor <;> intro hh <;> linarith
    rw [this]
    exact prob_neg_zhCore_le h hZ hmZ _

/-- **Zinn–Harvey reverses the order of the absolute deviations** (the deterministic core of "reversing connectivity";
    the topological statement itself is not proved): with `conn = "high"` a strictly larger `|x − mean|` gives a strictly
    smaller output, with `conn = "low"` a strictly larger one. -/
theorem zinnharvey_order (h : IsStdNormalCdf Φ Q) {m v x₁ x₂ : ℝ} (hv : 0 < v) (hx : x₁ ≠ m)
    (h12 : |x₁ - m| < |x₂ - m|) :
    zinnharvey Φ Q true m v x₂ < zinnharvey Φ Q true m v x₁ ∧
      zinnharvey Φ Q false m v x₁ < zinnharvey Φ Q false m v x₂ := by
  have hs : 0 < Real.sqrt v := Real.sqrt_pos.mpr hv
  have hz1 : (x₁ - m) / Real.sqrt v ≠ 0 := div_ne_zero (sub_ne_zero.mpr hx) (ne_of_gt hs)
  have habs : |(x₁ - m) / Real.sqrt v| < |(x₂ - m) / Real.sqrt v| := by
    rw [abs_div, abs_div]; exact div_lt_div_of_pos_right h12 (abs_pos.mpr (ne_of_gt hs))
  have := zhCore_strictMono_abs h hz1 habs
  simp only [zinnharvey, standardize, sqrt_real, ↓reduceIte, Bool.false_eq_true]
  constructor <;> nlinarith

/-! ## 'equal' thresholds -/

theorem equalThresholds_ascending (h : IsStdNormalCdf Φ Q) {m v : ℝ} {n : ℕ} (hv : 0 < v) :
    (equalThresholds Q m v n).Pairwise (· < ·) := by
  have hs : 0 < Real.sqrt v := Real.sqrt_pos.mpr hv
  rcases Nat.lt_or_ge n 2 with hn | hn
  · have : n - 1 = 0 := by omega
    simp [equalThresholds, this]
  have hn0 : (0:ℝ) < n := by exact_mod_cast (by omega : 0 < n)
  simp only [equalThresholds]
  rw [List.pairwise_map]
  refine List.Pairwise.imp_of_mem ?_ List.pairwise_lt_range
  intro a b ha hb hab
  simp only [List.mem_range] at ha hb
  have hfrac : ∀ i, i < n - 1 → 0 < ((i + 1 : ℕ) : ℝ) / n ∧ ((i + 1 : ℕ) : ℝ) / n < 1 := by
    intro i hi
    refine ⟨by positivity, ?_⟩
    rw [div_lt_one hn0]; exact_mod_cast (by omega : i + 1 < n)
  have := h.Q_lt_Q (hfrac a ha).1 (by
    rw [div_lt_div_iff_of_pos_right hn0]; exact_mod_cast (by omega : a + 1 < b + 1)) (hfrac b hb).2
  simp only [sqrt_real]
  nlinarith

/-- 'equal' thresholds with the wrapper's `mean=`/`var=` keywords: `array_discrete` raises nothing and applies the
    partition map of the thresholds `mean + √var·Φ⁻¹(i/n)` to the values in the given order -/
theorem discrete_equal (h : IsStdNormalCdf Φ Q) (field vals : List ℝ) {m v : ℝ} (hn : 2 ≤ vals.length) (hv : 0 < v) :
    ∃ f : ℝ → ℝ, discrete Q field vals (.equal (some m) (some v)) = .ok (field.map fun x => some (f x)) ∧
      IsPartitionMap f vals (equalThresholds Q m v vals.length) :=
  discrete_of_setup Q field vals _ vals _ rfl (by rw [equalThresholds_length]; omega)
    (by rw [equalThresholds_length]; omega) (equalThresholds_ascending h hv)

/-- **Equal classes** ('equal' thresholds `mean + √var·Φ⁻¹(i/n)`, `i = 1 … n−1`, `n ≥ 2` values, `var > 0`):
    the thresholds are strictly ascending (so `array_discrete` does not raise), the cdf of the input marginal at the
    `i`-th threshold is `i/n`, and therefore each of the `n` classes `(-∞, t₁]`, `(t_i, t_{i+1}]`, `(t_{n−1}, ∞)` of a
    normal marginal `N(mean, var)` has probability exactly `1/n`. -/
theorem equal_classes (h : IsStdNormalCdf Φ Q) [IsProbabilityMeasure P] {m v : ℝ} {n : ℕ} (hn : 2 ≤ n) (hv : 0 < v)
    (hX : NormalMarginal P X Φ m (Real.sqrt v)) (hm : Measurable X) :
    let t := equalThresholds Q m v n
    t.Pairwise (· < ·) ∧
    (∀ i (hi : i < t.length), Φ ((t[i] - m) / Real.sqrt v) = ((i + 1 : ℕ) : ℝ) / n) ∧
    P.real {ω | X ω ≤ t[0]'(by simp [t, equalThresholds]; omega)} = 1 / n ∧
    (∀ i (hi : i + 1 < t.length), P.real {ω | t[i] < X ω ∧ X ω ≤ t[i + 1]} = 1 / n) ∧
    P.real {ω | t[t.length - 1]'(by simp [t, equalThresholds]; omega) < X ω} = 1 / n := by
  intro t
  have hs : 0 < Real.sqrt v := Real.sqrt_pos.mpr hv
  have hn0 : (0:ℝ) < n := by exact_mod_cast (by omega : 0 < n)
  have hlen : t.length = n - 1 := equalThresholds_length m v n
  have hfrac : ∀ i, i < n - 1 → 0 < ((i + 1 : ℕ) : ℝ) / n ∧ ((i + 1 : ℕ) : ℝ) / n < 1 := by
    intro i hi
    refine ⟨by positivity, ?_⟩
    rw [div_lt_one hn0]; exact_mod_cast (by omega : i + 1 < n)
  have hcdf : ∀ i (hi : i < t.length), Φ ((t[i] - m) / Real.sqrt v) = ((i + 1 : ℕ) : ℝ) / n := by
    intro i hi
    rw [equalThresholds_getElem]
    have : (m + Real.sqrt v * Q (((i + 1 : ℕ) : ℝ) / n) - m) / Real.sqrt v = Q (((i + 1 : ℕ) : ℝ) / n) := by
      field_simp; ring
    rw [this, h.right_inv _ (hfrac i (by omega)).1 (hfrac i (by omega)).2]
  refine ⟨?_, hcdf, ?_, ?_, ?_⟩
  · simp only [t, equalThresholds]
    rw [List.pairwise_map]
    refine List.Pairwise.imp_of_mem ?_ List.pairwise_lt_range
    intro a b ha hb hab
    simp only [List.mem_range] at ha hb
    have := h.Q_lt_Q (hfrac a ha).1 (by
      rw [div_lt_div_iff_of_pos_right hn0]; exact_mod_cast (by omega : a + 1 < b + 1)) (hfrac b hb).2
    simp only [sqrt_real]
    nlinarith
  · rw [hX, hcdf 0 (by omega)]; simp
  · intro i hi
    have hle : t[i] ≤ t[i + 1] := by
      rw [equalThresholds_getElem, equalThresholds_getElem]
      have := h.Q_lt_Q (hfrac i (by omega)).1 (by
        rw [div_lt_div_iff_of_pos_right hn0]; exact_mod_cast (by omega : i + 1 < i + 1 + 1)) (hfrac (i + 1) (by omega)).2
      nlinarith
    rw [prob_Ioc hX hm hle, hcdf (i + 1) hi, hcdf i (by omega)]
    push_cast; field_simp; ring
  · have hset : {ω | t[t.length - 1]'(by omega) < X ω} = {ω | X ω ≤ t[t.length - 1]'(by omega)}ᶜ := by
      ext ω; simp
    rw [hset, measureReal_compl (measurableSet_le_const hm _), probReal_univ, hX, hcdf _ (by omega)]
    have : ((t.length - 1 + 1 : ℕ) : ℝ) = (n : ℝ) - 1 := by
      rw [hlen]; push_cast [Nat.sub_add_cancel (by omega : 1 ≤ n - 1), Nat.cast_sub (by omega : 1 ≤ n)]; ring
    rw [this]; field_simp; ring

/-! ## the `Field.transform` wrappers: process / keep_mean pipeline -/

/-- the stored field of a `Field` object: `trend + denormalize(mean + raw)` (`post_field(raw, process=True)`) -/
noncomputable def storedField (c : Cfg ℝ) (raw : ℝ) : ℝ := postProcess c false raw

/-- **What the array function sees.**  Whenever the normalizer round-trips on `mean + raw`, the pre-processed entry
    handed to the array function is `usedMean + raw`, where `usedMean` is exactly the `mean=` keyword the wrapper passes
    (`0` for `process and not keep_mean`, else `fld.mean`); the `var=` keyword is the sill.  So a raw field with marginal
    `N(0, sill)` reaches the array function as `N(usedMean, sill)` together with matching `mean`/`var` arguments. -/
theorem wrapper_input_process (c : Cfg ℝ) (keep : Bool) (raw : ℝ)
    (hinv : c.norm.normalize (c.norm.denormalize (raw + c.mean)) = raw + c.mean) :
    preProcess c keep (storedField c raw) = usedMean c true keep + raw := by
  simp only [storedField, preProcess, postProcess, usedMean, Bool.false_eq_true, ↓reduceIte, add_sub_cancel_right, hinv,
    Bool.true_and, Nat.cast_zero]
  cases keep
  · simp [lit00]
  · simp [add_comm]

/-- without processing the wrappers insist on the default configuration (no normalizer, no trend), in which the
    stored field is `mean + raw` and `usedMean = fld.mean` -/
theorem wrapper_input_noprocess (c : Cfg ℝ) (keep : Bool) (raw : ℝ) (hchk : checkDefaultNormal c = .ok ()) :
    storedField c raw = usedMean c false keep + raw := by
  have hn : c.norm.isDefault = true := by
    cases hd : c.norm.isDefault
    · simp [checkDefaultNormal, hd, throw, throwThe, MonadExceptOf.throw] at hchk
    · rfl
  have ht : c.trend = none := by
    cases hd : c.trend with
    | none => rfl
    | some t => simp [checkDefaultNormal, hn, hd, throw, throwThe, MonadExceptOf.throw] at hchk
  have hnorm : c.norm = NormKind.none := by
    cases hc : c.norm <;> simp [hc, NormKind.isDefault] at hn ⊢
  simp [storedField, postProcess, usedMean, trendVal, ht, hnorm, NormKind.denormalize]
  ring

/-- pointwise wrappers with `process=True`: pre-process, apply the array map with `mean = usedMean`, post-process -/
theorem applyFunction_process (c : Cfg ℝ) (keep : Bool) (g : ℝ → ℝ) (raws : List ℝ)
    (hinv : ∀ r ∈ raws, c.norm.normalize (c.norm.denormalize (r + c.mean)) = r + c.mean) :
    applyFunction c true keep (fun d => pure (d.map g)) (raws.map (storedField c)) =
      .ok (raws.map fun r => postProcess c keep (g (usedMean c true keep + r))) := by
  simp only [applyFunction, ↓reduceIte, List.map_map, bind, Except.bind, pure, Except.pure]
  congr 1
  apply List.map_congr_left
  intro r hr
  simp only [Function.comp, wrapper_input_process c keep r (hinv r hr)]

/-- **The distribution wrappers** (`normal_to_uniform`, `normal_to_arcsin`, `normal_to_uquad`, `zinnharvey`) with
    `process=True`: on a stored field `trend + denorm(mean + raw)` the result is
    `trend + denorm(m₀ + T(usedMean + raw))` (`m₀ = 0` if `keep_mean` else `mean`), where `T` is the array transformation
    called with `mean = usedMean`, `var = sill` — the configuration for which `uniform_cdf`, `arcsin_cdf`, `uquad_cdf`,
    `zinnharvey_marginal` give the law of `T(usedMean + raw)` when `raw` has the marginal `N(0, sill)`. -/
theorem wrapper_process (Φ Q : ℝ → ℝ) (c : Cfg ℝ) (keep : Bool) (raws : List ℝ)
    (hinv : ∀ r ∈ raws, c.norm.normalize (c.norm.denormalize (r + c.mean)) = r + c.mean) :
    let um := usedMean c true keep
    let data := raws.map (storedField c)
    (∀ low high, fieldTransform Φ Q c true keep data (.uniform low high) =
      .ok (raws.map fun r => postProcess c keep (toUniform Φ um c.sill low high (um + r)))) ∧
    (∀ a b, fieldTransform Φ Q c true keep data (.arcsin a b) =
      .ok (raws.map fun r => postProcess c keep (toArcsin Φ um c.sill a b (um + r)))) ∧
    (∀ a b, fieldTransform Φ Q c true keep data (.uquad a b) =
      .ok (raws.map fun r => postProcess c keep (toUquad Φ um c.sill a b (um + r)))) ∧
    (∀ high, fieldTransform Φ Q c true keep data (.zinnharvey high) =
      .ok (raws.map fun r => postProcess c keep (zinnharvey Φ Q high um c.sill (um + r)))) := by
  intro um data
  refine ⟨fun low high => ?_, fun a b => ?_, fun a b => ?_, fun high => ?_⟩ <;>
  · simp only [fieldTransform, Bool.not_true, Bool.false_eq_true, ↓reduceIte, pure, Except.pure]
    exact applyFunction_process c keep _ raws hinv

/-- `apply_function(process=True)` for an arbitrary (possibly non-pointwise, possibly raising) array function -/
theorem applyFunction_process_general (c : Cfg ℝ) (keep : Bool) (f : List ℝ → Except String (List ℝ)) (raws : List ℝ)
    (hinv : ∀ r ∈ raws, c.norm.normalize (c.norm.denormalize (r + c.mean)) = r + c.mean) :
    applyFunction c true keep f (raws.map (storedField c)) =
      (f (raws.map fun r => usedMean c true keep + r)).map (List.map (postProcess c keep)) := by
  have hdata : (raws.map (storedField c)).map (preProcess c keep) = raws.map fun r => usedMean c true keep + r := by
    rw [List.map_map]
    apply List.map_congr_left
    intro r hr
    simp only [Function.comp, wrapper_input_process c keep r (hinv r hr)]
  simp only [applyFunction, ↓reduceIte, hdata]
  cases f (raws.map fun r => usedMean c true keep + r) <;> rfl

/-- the default-normal configuration (no normalizer, no trend) with mean `m` -/
def defaultCfg (m sill : ℝ) : Cfg ℝ := { mean := m, sill := sill, trend := none, norm := .none }

/-- **Processing is conjugation** (all nine wrappers): `fld.transform(method, process=True, keep_mean=k)` on the stored
    field `trend + denorm(mean + raw)` equals the *unprocessed* transformation of the default-normal field
    `usedMean + raw` (mean `usedMean`, same sill, no normalizer, no trend), followed entrywise by the post-processing
    `y ↦ trend + denorm(y + (0 if keep_mean else mean))`; errors are propagated unchanged. -/
theorem process_is_conjugation (Φ Q : ℝ → ℝ) (c : Cfg ℝ) (keep : Bool) (raws : List ℝ) (m : Method ℝ)
    (hinv : ∀ r ∈ raws, c.norm.normalize (c.norm.denormalize (r + c.mean)) = r + c.mean) :
    fieldTransform Φ Q c true keep (raws.map (storedField c)) m =
      (fieldTransform Φ Q (defaultCfg (usedMean c true keep) c.sill) false keep
        (raws.map fun r => usedMean c true keep + r) m).map (List.map (postProcess c keep)) := by
  have hchk : checkDefaultNormal (defaultCfg (usedMean c true keep) c.sill) = .ok () := rfl
  have hum : usedMean (defaultCfg (usedMean c true keep) c.sill) false keep = usedMean c true keep := by
    simp [usedMean, defaultCfg]
  have hnp : ∀ (f : List ℝ → Except String (List ℝ)) (d : List ℝ),
      applyFunction (defaultCfg (usedMean c true keep) c.sill) false keep f d = f d := by
    intro f d; simp [applyFunction]
  have hmean : (defaultCfg (usedMean c true keep) c.sill).mean = usedMean c true keep := rfl
  have hsill : (defaultCfg (usedMean c true keep) c.sill).sill = c.sill := rfl
  cases m with
  | discrete vals mode =>
    cases mode <;>
    simp only [fieldTransform, Bool.not_true, Bool.not_false, Bool.false_eq_true, ↓reduceIte, bind, Except.bind, pure,
      Except.pure, hchk, hum, hnp, hsill, applyFunction_process_general c keep _ raws hinv]
  | binary divide upper lower =>
    simp only [fieldTransform, Bool.not_true, Bool.not_false, Bool.false_eq_true, ↓reduceIte, bind, Except.bind,
      hchk, hnp, hsill, hmean, applyFunction_process_general c keep _ raws hinv, Bool.true_and, Bool.false_and]
    cases hd : divide.isNone <;> simp [usedMean]
  | _ =>
    simp only [fieldTransform, Bool.not_true, Bool.not_false, Bool.false_eq_true, ↓reduceIte, bind, Except.bind, pure,
      Except.pure, hchk, hum, hnp, hsill, applyFunction_process_general c keep _ raws hinv]

/-- the round-trip hypothesis is satisfiable: no normalizer, or the log-normal normalizer -/
example (r m : ℝ) : (NormKind.none : NormKind ℝ).normalize ((NormKind.none : NormKind ℝ).denormalize (r + m)) = r + m := rfl
example (r m : ℝ) : (NormKind.lognormal : NormKind ℝ).normalize ((NormKind.lognormal : NormKind ℝ).denormalize (r + m)) = r + m := by
  simp [NormKind.normalize, NormKind.denormalize, Real.exp_pos, isFinite]

/-! ## stored-field names -/

/-- **Stored-field names**: one `fld.transform(…, field=…, store=…)` call either fails and leaves every stored field
    as it was, or returns `out` and: `store=False` leaves the state untouched; `store=True` overwrites the source field;
    `store="name"` writes `out` under that name — in both cases every other stored field is unchanged. -/
theorem step_store (Φ Q : ℝ → ℝ) (c : Cfg ℝ) (reserved : List String) (st : FState ℝ) (m : Method ℝ)
    (field : String) (store : Store) (process keep : Bool) :
    let r := step Φ Q c reserved st m field store process keep
    (∀ e, r.2 = .error e → r.1 = st) ∧
    (∀ out, r.2 = .ok out →
      match store with
      | .no => r.1 = st
      | .yes => r.1.lookup field = some out ∧ ∀ n', n' ≠ field → r.1.lookup n' = st.lookup n'
      | .name n => r.1.lookup n = some out ∧ ∀ n', n' ≠ n → r.1.lookup n' = st.lookup n') := by
  intro r
  have hr : r = step Φ Q c reserved st m field store process keep := rfl
  unfold step at hr
  cases h1 : preCheck c process m with
  | error e => simp only [h1] at hr; rw [hr]; simp
  | ok u =>
    cases h2 : st.lookup field with
    | none => simp only [h1, h2] at hr; rw [hr]; simp
    | some data =>
      cases h3 : fieldTransform Φ Q c process keep data m with
      | error e => simp only [h1, h2, h3] at hr; rw [hr]; simp
      | ok out =>
        simp only [h1, h2, h3] at hr
        have hc := commit_spec reserved st store field out
        rw [hr]
        refine ⟨hc.1, fun o ho => ?_⟩
        obtain ⟨rfl, hrest⟩ := hc.2 o ho
        exact hrest

/-! ## the true normal cdf and Gaussian laws -/

section Gauss
open ProbabilityTheory Set

/-- **The true normal cdf satisfies the hypotheses of all distributional theorems.** -/
theorem gauss_isStdNormalCdf : IsStdNormalCdf gaussΦ gaussQ where
  strictMono := gaussΦ_strictMono
  pos := gaussΦ_pos
  lt_one := gaussΦ_lt_one
  right_inv := by
    intro p hp0 hp1
    have h := gaussΦ_surj hp0 hp1
    simp only [gaussQ, dif_pos h]
    exact h.choose_spec
  symm := gaussΦ_symm

/-- **Bridge to Gaussian laws**: a measurable `X` whose law is the Gaussian measure `N(m, v)` (`v ≠ 0`) has the normal
    marginal of all the theorems above, with `Φ` the true standard normal cdf. -/
theorem normalMarginal_of_gaussian_law {Ω : Type*} [MeasurableSpace Ω] {P : Measure Ω} {X : Ω → ℝ} (hX : Measurable X)
    {m : ℝ} {v : NNReal} (hv : v ≠ 0) (hlaw : P.map X = gaussianReal m v) :
    NormalMarginal P X gaussΦ m (Real.sqrt v) := by
  have hs : 0 < Real.sqrt v := Real.sqrt_pos.mpr (by exact_mod_cast pos_iff_ne_zero.mpr hv)
  intro x
  have h1 : P {ω | X ω ≤ x} = (P.map X) (Iic x) := by
    rw [Measure.map_apply hX measurableSet_Iic]; rfl
  rw [measureReal_def, h1, hlaw, gaussianReal_eq_map_std,
    Measure.map_apply (by fun_prop) measurableSet_Iic,
    Measure.map_apply (by fun_prop) ((show Measurable fun z : ℝ => z + m by fun_prop) measurableSet_Iic),
    gaussΦ_eq, measureReal_def]
  congr 2
  ext z
  simp only [mem_preimage, mem_Iic]
  rw [le_div_iff₀ hs]
  constructor <;> intro h <;> linarith


/-- **Capstone**: for a measurable `X` whose law is the Gaussian measure `N(m, v)`, `v ≠ 0`, and `Φ` the true standard
    normal cdf: the transformed variables have exactly the documented cdfs (uniform on `[low, high]`, arcsine and
    U-quadratic on the default bounds, log-normal) and Zinn–Harvey keeps the marginal. -/
theorem gaussian_pushforwards {Ω : Type*} [MeasurableSpace Ω] {P : Measure Ω} [IsProbabilityMeasure P] {X : Ω → ℝ}
    (hX : Measurable X) {m : ℝ} {v : NNReal} (hv : v ≠ 0) (hlaw : P.map X = ProbabilityTheory.gaussianReal m v) :
    (∀ low high y, low < high →
      P.real {ω | toUniform gaussΦ m v low high (X ω) ≤ y} = uniformCdf low high y) ∧
    (∀ y, P.real {ω | toArcsin gaussΦ m v none none (X ω) ≤ y} =
      arcsinCdf (arcsinDefaultA m v) (arcsinDefaultB m v) y) ∧
    (∀ y, P.real {ω | toUquad gaussΦ m v none none (X ω) ≤ y} =
      uquadCdf (uquadDefaultA m v) (uquadDefaultB m v) y) ∧
    (∀ y, P.real {ω | toLognormal (X ω) ≤ y} = lognormalCdf gaussΦ m (Real.sqrt v) y) ∧
    (∀ high, NormalMarginal P (fun ω => zinnharvey gaussΦ gaussQ high m v (X ω)) gaussΦ m (Real.sqrt v)) := by
  have hN := normalMarginal_of_gaussian_law hX hv hlaw
  have hv' : (0:ℝ) < v := by exact_mod_cast pos_iff_ne_zero.mpr hv
  have h := gauss_isStdNormalCdf
  refine ⟨fun low high y hlh => uniform_cdf h hN hv' hlh y, fun y => ?_, fun y => ?_,
    fun y => lognormal_cdf hN y, fun high => zinnharvey_marginal h high hN hX hv'⟩
  · refine arcsin_cdf h none none hN hv' ?_ y
    have : 0 < Real.sqrt (2 * (v:ℝ)) := Real.sqrt_pos.mpr (by positivity)
    simp only [Option.getD_none, arcsinDefaultA, arcsinDefaultB, sqrt_real, lit20]
    linarith
  · refine uquad_cdf h none none hN hv' ?_ y
    have : 0 < Real.sqrt (5 / 3 * (v:ℝ)) := Real.sqrt_pos.mpr (by positivity)
    simp only [Option.getD_none, uquadDefaultA, uquadDefaultB, sqrt_real, lit50, lit30]
    linarith

end Gauss

/-! ## non-vacuity of the probabilistic hypotheses (independent of Mathlib's Gaussian measure) -/

/-- the probability space `((0,1), Lebesgue)` -/
noncomputable def unitP : Measure ℝ := volume.restrict (Set.Ioo 0 1)

instance : IsProbabilityMeasure unitP := ⟨by simp [unitP]⟩

/-- **The hypotheses of the distributional theorems are satisfiable**: for any admissible `(Φ, Q)`, `m` and `s > 0`,
    the variable `X(u) = m + s·Q(u)` on `((0,1), Lebesgue)` has the normal marginal `N(m, s²)` -/
theorem normalMarginal_exists {Φ Q : ℝ → ℝ} (h : IsStdNormalCdf Φ Q) (m : ℝ) {s : ℝ} (hs : 0 < s) :
    NormalMarginal unitP (fun u => m + s * Q u) Φ m s := by
  intro x
  set z := (x - m) / s with hz
  have h0 := h.pos z
  have h1 := h.lt_one z
  have hset : {u : ℝ | m + s * Q u ≤ x} ∩ Set.Ioo 0 1 = Set.Ioc 0 (Φ z) := by
    ext u
    simp only [Set.mem_inter_iff, Set.mem_ofPred_eq, Set.mem_Ioo, Set.mem_Ioc]
    constructor
    · rintro ⟨hle, hu0, hu1⟩
      refine ⟨hu0, ?_⟩
      rw [← h.Q_le_iff hu0 hu1, hz, le_div_iff₀ hs]; linarith
    · rintro ⟨hu0, hle⟩
      have hu1 : u < 1 := lt_of_le_of_lt hle h1
      refine ⟨?_, hu0, hu1⟩
      have := (h.Q_le_iff hu0 hu1).mpr hle
      rw [hz, le_div_iff₀ hs] at this; linarith
  rw [measureReal_def, unitP, Measure.restrict_apply' measurableSet_Ioo, hset, Real.volume_Ioc]
  simp [le_of_lt h0]

/-- … and with the logistic pair `X` is measurable, so every hypothesis of `zinnharvey_marginal`, `equal_classes`,
    `uniform_cdf`, … holds for a concrete object -/
example (m : ℝ) {s : ℝ} (hs : 0 < s) :
    IsStdNormalCdf (fun x => 1 / (1 + Real.exp (-x))) (fun p => Real.log (p / (1 - p))) ∧
    NormalMarginal unitP (fun u => m + s * Real.log (u / (1 - u))) (fun x => 1 / (1 + Real.exp (-x))) m s ∧
    Measurable (fun u : ℝ => m + s * Real.log (u / (1 - u))) :=
  ⟨logistic_isStdNormalCdf, normalMarginal_exists logistic_isStdNormalCdf m hs, by fun_prop⟩

end GSV.Props.C19
