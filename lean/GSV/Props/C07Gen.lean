/-
  C07 — the UNCONDITIONAL part of a conditioned field after model changes, with and without a seed argument.

  `CondSRF.__call__` begins with `self.generator.update(self.model, seed)`.  The generator owns a private deep copy of the
  model and the random modes drawn for it (Model/Cond.lean: `GenState`, `genUpdate`).  Proved here:

  * `genUpdate_inv`, `genUpdate_model`, `genUpdate_seed` — after `update` the private copy IS the current model, the seed is
    the requested one (else the present one), and the modes were drawn with that seed for that model;
  * `call_uncond_fresh` / `histories_uncond_fresh` — in EVERY history (no protocol needed: also in-place model changes that
    were never refreshed, calls that raised for lack of positions, deletions …) the unconditional field of every CondSRF call
    is the one a freshly built object with the seed in force and the current model produces — the one of an independent
    `SRF(model_now, seed)`;
  * `gstep_call_fresh` / `ghistories_fresh` — in protocol-respecting histories BOTH parts (raw kriging field and variance,
    unconditional field) are the fresh ones: the conditioned field equals the one of a freshly built object with that seed;
  * necessity: under "update the generator only when a seed is passed" (`GenRule.onSeedOnly`) the history
    `crf(pos); model change; krige.set_condition(); crf()` has fresh kriging tokens and a STALE unconditional token.
-/
import GSV.Props.C07
namespace GSV.Props.C07
open GSV GSV.Model.Cond

/-- the generator's modes were drawn with its seed for its private model copy -/
def GenInv (g : GenState) : Prop := g.modesSeed = g.seed ∧ g.modesModel = g.model

theorem genInit_inv (sd m : Nat) : GenInv (genInit sd m) := ⟨rfl, rfl⟩

/-- `update` keeps the generator consistent -/
theorem genUpdate_inv (g : GenState) (m : Nat) (req : SeedReq) (h : GenInv g) : GenInv (genUpdate g m req) := by
  unfold genUpdate
  split
  · cases req with
    | keep => exact h
    | set s =>
      simp only []
      split
      · exact h
      · exact ⟨rfl, h.2⟩
  · exact ⟨rfl, rfl⟩

/-- after `update(model, seed)` the private copy is the model handed in — whatever the seed argument -/
theorem genUpdate_model (g : GenState) (m : Nat) (req : SeedReq) : (genUpdate g m req).model = m := by
  unfold genUpdate
  split
  · rename_i h
    cases req with
    | keep => exact h
    | set s => simp only []; split <;> exact h
  · rfl

/-- … and the seed is the requested one, else the present one -/
theorem genUpdate_seed (g : GenState) (m : Nat) (req : SeedReq) : (genUpdate g m req).seed = seedInForce g req := by
  unfold genUpdate
  split
  · cases req with
    | keep => rfl
    | set s =>
      simp only [seedInForce]
      split
      · rename_i h; exact h.symm
      · rfl
  · rfl

/-- **the unconditional field of a call is the fresh one**: generator consistent before the call (every reachable state),
    any seed request (`keep` = no seed argument), any current model `m` (changed or not, refreshed or not) -/
theorem call_uncond_fresh (g : GenState) (m p : Nat) (req : SeedReq) (h : GenInv g) :
    genTok (genUpdate g m req) p = genFreshTok (seedInForce g req) m p := by
  have hi := genUpdate_inv g m req h
  simp only [genTok, genFreshTok, hi.1, hi.2, genUpdate_model, genUpdate_seed]

/-- the combined machine is the cache machine plus the generator: every theorem about `step` transfers -/
theorem gstep_core (s : GState) (op : Op) (req : SeedReq) :
    (gstep s op req).1.core = (step s.core op).1 ∧ (gstep s op req).2.1 = (step s.core op).2 := ⟨rfl, rfl⟩

theorem gstep_genInv (s : GState) (op : Op) (req : SeedReq) (h : GenInv s.gen) : GenInv (gstep s op req).1.gen := by
  cases op <;> first
    | exact h
    | (simp only [gstep, gstepWith, genCall]; exact genUpdate_inv _ _ _ h)

theorem grun_genInv (ops : List (Op × SeedReq)) (s : GState) (h : GenInv s.gen) : GenInv (grun s ops).gen := by
  induction ops generalizing s with
  | nil => exact h
  | cons o ops ih =>
    obtain ⟨op, req⟩ := o
    exact ih _ (gstep_genInv s op req h)

/-- the model is never changed by a CondSRF call -/
theorem call_model (s : State) (p? : Option Nat) (rn : Nat) (st : Bool) (vn : Nat) (kst : Bool) :
    (step s (.call p? rn st vn kst)).1.model = s.model := by
  simp only [step, stepWith]
  cases targetPos s p? with
  | none => rfl
  | some p =>
    simp only [callAt]
    have hm : (setPos s p).model = s.model := by unfold setPos; split <;> rfl
    cases reusable .bothRef (setPos s p) rn vn with
    | some rv => exact hm
    | none => exact hm

/-- the unconditional token of a step: `none` unless the step is a CondSRF call that returns -/
theorem gstep_uncond (s : GState) (op : Op) (req : SeedReq) (h : GenInv s.gen) (t : GenTok)
    (ht : (gstep s op req).2.2 = some t) :
    ∃ p, (gstep s op req).1.core.pos = some p ∧
      t = genFreshTok (seedInForce s.gen req) (gstep s op req).1.core.model p ∧
      (gstep s op req).1.gen.seed = seedInForce s.gen req := by
  cases op with
  | call p? rn st vn kst =>
    have hm := call_model s.core p? rn st vn kst
    simp only [gstep, gstepWith, genCall] at ht ⊢
    simp only [step] at hm
    cases hr : (stepWith .bothRef s.core (.call p? rn st vn kst)).2 with
    | none => simp [hr] at ht
    | some o =>
      simp only [hr] at ht
      cases hp : (stepWith .bothRef s.core (.call p? rn st vn kst)).1.pos with
      | none => simp [hp] at ht
      | some p =>
        simp only [hp, Option.map_some, Option.some.injEq] at ht
        refine ⟨p, rfl, ?_, genUpdate_seed _ _ _⟩
        rw [← ht, hm]
        exact call_uncond_fresh s.gen s.core.model p req h
  | krigeCall p? store =>
    simp only [gstep, gstepWith, stepWith] at ht
    cases hp : targetPos s.core p? <;> simp [hp] at ht
  | setPos p => simp [gstep, gstepWith, stepWith] at ht
  | krigeSetPos p => simp [gstep, gstepWith, stepWith] at ht
  | setCondition c => simp [gstep, gstepWith, stepWith] at ht
  | modelChange m => simp [gstep, gstepWith, stepWith] at ht
  | setMean v => simp [gstep, gstepWith, stepWith] at ht
  | deleteFields => simp [gstep, gstepWith, stepWith] at ht
  | krigeDeleteFields => simp [gstep, gstepWith, stepWith] at ht

/-- every unconditional field of a run is the one of a freshly built object (seed in force, current model, current
    positions) -/
def AllUncondFresh : GState → List (Op × SeedReq) → Prop
  | _, [] => True
  | s, (op, req) :: ops =>
    (∀ t, (gstep s op req).2.2 = some t →
        ∃ p, (gstep s op req).1.core.pos = some p ∧
          t = genFreshTok (seedInForce s.gen req) (gstep s op req).1.core.model p) ∧
    AllUncondFresh (gstep s op req).1 ops

/-- **C07, the unconditional part never goes stale**: in EVERY history of a freshly built object — calls with a new seed,
    the same seed or NO seed, at given or stored positions, model changes in place or by re-assignment with or without the
    refresh, new data, deletions, direct kriging calls, calls that raise — the unconditional field entering a conditioned
    field is the field an independent `SRF(current model, seed in force)` produces at the current positions -/
theorem histories_uncond_fresh (ops : List (Op × SeedReq)) (s : GState) (h : GenInv s.gen) : AllUncondFresh s ops := by
  induction ops generalizing s with
  | nil => trivial
  | cons o ops ih =>
    obtain ⟨op, req⟩ := o
    refine ⟨?_, ih _ (gstep_genInv s op req h)⟩
    intro t ht
    obtain ⟨p, hp, htok, _⟩ := gstep_uncond s op req h t ht
    exact ⟨p, hp, htok⟩

/-- a seed passed to a call stays in force for the later calls that pass none — also when that call raised -/
theorem seed_kept (s : GState) (p? : Option Nat) (rn : Nat) (st : Bool) (vn : Nat) (kst : Bool) (sd : Nat) :
    seedInForce (gstep s (.call p? rn st vn kst) (.set sd)).1.gen .keep = sd := by
  simp only [gstep, gstepWith, genCall, seedInForce]
  exact genUpdate_seed _ _ _

/-- **one call, both parts**: in a synced state with a consistent generator a CondSRF call — with or without a seed, with
    given or stored positions — returns the raw kriging field, the kriging variance AND the unconditional field of a freshly
    built object with the seed in force, i.e. the conditioned field of that object; the state stays synced / consistent -/
theorem gstep_call_fresh (s : GState) (p? : Option Nat) (rn : Nat) (st : Bool) (vn : Nat) (kst : Bool) (req : SeedReq)
    (hl : LinkInv s.core) (hs : Synced s.core) (hg : GenInv s.gen) :
    let r := gstep s (.call p? rn st vn kst) req
    (∀ tr tv b, r.2.1 = some (tr, tv, b) →
        ∃ p, r.1.core.pos = some p ∧ tr = freshTok r.1.core p ∧ tv = freshTok r.1.core p ∧
          r.2.2 = some (genFreshTok (seedInForce s.gen req) r.1.core.model p)) ∧
    LinkInv r.1.core ∧ Synced r.1.core ∧ GenInv r.1.gen := by
  intro r
  have hc := call_fresh_of_synced s.core p? rn st vn kst hl hs
  refine ⟨?_, step_linkInv s.core _ hl, hc.2, gstep_genInv s _ req hg⟩
  intro tr tv b hout
  obtain ⟨p, hp, h1, h2⟩ := hc.1 tr tv b hout
  refine ⟨p, hp, h1, h2, ?_⟩
  have hm := call_model s.core p? rn st vn kst
  have hr2 : r.2.2 = (r.1.core.pos.map (genTok r.1.gen)) := by
    show (match (stepWith .bothRef s.core (.call p? rn st vn kst)).2 with
      | some _ => _ | none => none) = _
    have : (stepWith .bothRef s.core (.call p? rn st vn kst)).2 = some (tr, tv, b) := hout
    rw [this]
    rfl
  rw [hr2]
  have hp' : r.1.core.pos = some p := hp
  rw [hp']
  simp only [Option.map_some, Option.some.injEq]
  have hgen : r.1.gen = genUpdate s.gen s.core.model req := rfl
  have hmod : r.1.core.model = s.core.model := hm
  rw [hgen, hmod]
  exact call_uncond_fresh s.gen s.core.model p req hg

/-- all call outputs of a run — kriging tokens and unconditional token — are the fresh ones -/
def AllCondFresh : GState → List (Op × SeedReq) → Prop
  | _, [] => True
  | s, (op, req) :: ops =>
    (∀ tr tv b, (gstep s op req).2.1 = some (tr, tv, b) →
        ∃ p, (gstep s op req).1.core.pos = some p ∧ tr = freshTok (gstep s op req).1.core p ∧
          tv = freshTok (gstep s op req).1.core p ∧
          (gstep s op req).2.2 = some (genFreshTok (seedInForce s.gen req) (gstep s op req).1.core.model p)) ∧
    AllCondFresh (gstep s op req).1 ops

/-- **C07 for whole conditioned fields**: starting from a synced object with a consistent generator (a freshly built one, or
    any object right after the documented refresh), every history of harmless operations — CondSRF calls with a new seed, the
    same seed or no seed — returns at every call the kriging estimate, kriging variance and unconditional field of a freshly
    built object with the seed in force -/
theorem ghistories_fresh (ops : List (Op × SeedReq)) (hops : ∀ o ∈ ops, Harmless o.1) (s : GState)
    (hl : LinkInv s.core) (hs : Synced s.core) (hg : GenInv s.gen) : AllCondFresh s ops := by
  induction ops generalizing s with
  | nil => trivial
  | cons o ops ih =>
    obtain ⟨op, req⟩ := o
    have hop : Harmless op := hops (op, req) (List.mem_cons_self ..)
    refine ⟨?_, ih (fun o ho => hops o (List.mem_cons_of_mem _ ho)) _ (step_linkInv s.core op hl)
      (step_synced s.core op hop hl hs) (gstep_genInv s op req hg)⟩
    intro tr tv b hout
    cases op with
    | call p? rn st vn kst => exact (gstep_call_fresh s p? rn st vn kst req hl hs hg).1 tr tv b hout
    | krigeCall p? store =>
      simp only [gstep, gstepWith, stepWith] at hout
      cases hp : targetPos s.core p? <;> simp [hp] at hout
    | setPos p => simp [gstep, gstepWith, stepWith] at hout
    | krigeSetPos p => simp [gstep, gstepWith, stepWith] at hout
    | setCondition c => simp [gstep, gstepWith, stepWith] at hout
    | modelChange m => simp [gstep, gstepWith, stepWith] at hout
    | setMean v => simp [gstep, gstepWith, stepWith] at hout
    | deleteFields => simp [gstep, gstepWith, stepWith] at hout
    | krigeDeleteFields => simp [gstep, gstepWith, stepWith] at hout

/-- after ANY history, the documented refresh followed by harmless operations (calls with or without seed) yields fresh
    conditioned fields again — the model change + refresh + call-without-seed scenario -/
theorem grefresh_then_fresh (pre : List (Op × SeedReq)) (c? : Option Nat) (req0 : SeedReq) (post : List (Op × SeedReq))
    (hpost : ∀ o ∈ post, Harmless o.1) (c m mu sd : Nat) :
    AllCondFresh (gstep (grun (ginit c m mu sd) pre) (.setCondition c?) req0).1 post := by
  have hl : ∀ (l : List (Op × SeedReq)) (s : GState), LinkInv s.core → LinkInv (grun s l).core := by
    intro l
    induction l with
    | nil => intro s h; exact h
    | cons o l ih =>
      intro s h
      obtain ⟨op, rq⟩ := o
      exact ih _ (step_linkInv s.core op h)
  exact ghistories_fresh post hpost _
    (step_linkInv _ _ (hl pre _ (init_linkInv c m mu)))
    (refresh_syncs _ c?)
    (gstep_genInv _ _ _ (grun_genInv pre _ (genInit_inv sd m)))

/-! ## examples -/

/-- the scenario on concrete identifiers: generate, change the model in place, refresh, call WITHOUT seed and without
    positions: kriging tokens and unconditional token are the fresh ones of model 2, seed 5 -/
example : let s := grun (ginit 1 1 1 5) [(.call (some 7) 0 true 0 true, .keep), (.modelChange 2, .keep), (.setCondition none, .keep)]
    (gstep s (.call none 0 true 0 true) .keep).2 =
      (some (freshTok s.core 7, freshTok s.core 7, false), some (genFreshTok 5 2 7)) := by decide

/-- **synchronising the generator at every call is necessary**: under "update only when a seed is passed" the same history
    returns fresh kriging tokens and a STALE unconditional field (modes of model 1, scaled with the variance of model 1) —
    the data are still honoured (the scaling vanishes there), the field is not the one of a fresh object;
    passing the seed explicitly hides it -/
example : let h : List (Op × SeedReq) := [(.call (some 7) 0 true 0 true, .keep), (.modelChange 2, .keep), (.setCondition none, .keep)]
    let s := grunWith .onSeedOnly .bothRef (ginit 1 1 1 5) h
    (gstepWith .onSeedOnly .bothRef s (.call none 0 true 0 true) .keep).2 =
      (some (freshTok s.core 7, freshTok s.core 7, false), some ⟨5, 1, 1, 7⟩) ∧
    (⟨5, 1, 1, 7⟩ : GenTok) ≠ genFreshTok 5 2 7 ∧
    (gstepWith .onSeedOnly .bothRef s (.call none 0 true 0 true) (.set 5)).2.2 = some (genFreshTok 5 2 7) := by decide

/-- a call that raises for lack of positions has already taken over its seed: the next call without seed uses it -/
example : let s := (gstep (ginit 1 1 1 5) (.call none 0 true 0 true) (.set 9)).1
    (gstep (ginit 1 1 1 5) (.call none 0 true 0 true) (.set 9)).2 = (none, none) ∧
    (gstep s (.call (some 7) 0 true 0 true) .keep).2.2 = some (genFreshTok 9 1 7) := by decide

/-- the hypotheses of `ghistories_fresh` are satisfiable by a non-trivial history -/
example : AllCondFresh (ginit 1 1 1 5)
    [(.call (some 7) 0 true 0 true, .keep), (.setCondition (some 2), .keep), (.call none 0 false 0 true, .set 6),
     (.call none 0 true 0 true, .keep), (.krigeCall (some 8) (some 0), .keep), (.call none 1 true 0 true, .set 6)] :=
  ghistories_fresh _ (by intro o h; simp at h; rcases h with rfl | rfl | rfl | rfl | rfl | rfl <;> trivial) _
    (init_linkInv 1 1 1) (init_synced 1 1 1) (genInit_inv 5 1)

example : AllUncondFresh (ginit 1 1 1 5)
    [(.call (some 7) 0 true 0 true, .keep), (.modelChange 2, .keep), (.call none 0 true 0 true, .keep)] :=
  histories_uncond_fresh _ _ (genInit_inv 5 1)

end GSV.Props.C07
