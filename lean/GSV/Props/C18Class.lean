/-
  C18 — "the pipeline is exact" for EVERY field class.

  `Model.Norm.slots` says which constructor argument of a class (`Simple`, `Ordinary`, `Universal`, `ExtDrift`,
  `Detrended`, the generic `Krige`, `SRF`; a `CondSRF` has the slots of its Krige object) becomes which slot of the
  mean / normalizer / trend pipeline; `classOutput` / `classCond` are a cell of the object's output and a prepared
  conditioning value in terms of the CALLER's arguments.  The harness compares them with the real classes.

  * `class_output`        — output = trend + denormalize(mean' + raw), `mean'` the caller's mean where the class has one,
                            else 0; the normalizer is the caller's where the class has one, else the identity;
  * `class_output_no_mean`— `Ordinary`, `Universal`, `ExtDrift`: output = trend + denormalize(raw): the trend is added
                            AFTER de-normalisation;
  * `detrended_output`    — `Detrended`: output = trend + raw;
  * `class_cond`          — conditioning values enter the kriging system as normalize(cond_val − trend) − mean';
  * `class_roundtrip`     — a raw value equal to the prepared datum comes out as the datum (exact interpolation survives
                            the pipeline) for every class;
  * `trend_is_not_mean`   — handing the trend to the mean slot is a different map (witness LogNormal): the round trip
                            above still holds for it, only the output formula tells them apart.
-/
import GSV.Props.C18
namespace GSV.Props.C18
open GSV GSV.Model.Norm GSV.Lemmas.Norm Real

/-- the normalizer an object of class `c` uses when the caller passes `k` -/
def classKind (c : FieldClass) (k : Kind) : Kind := if c.hasNorm then k else .identity
/-- the mean an object of class `c` uses when the caller passes `mean` -/
def classMean (c : FieldClass) (mean : ℝ) : ℝ := if c.hasMean then mean else 0

theorem slots_real (c : FieldClass) (k : Kind) (mean trend : ℝ) :
    slots c k mean trend = (classKind c k, classMean c mean, trend) := by
  simp [slots, classKind, classMean]

/-- **every class**: a cell of the output is `trend + denormalize(mean' + raw)` in terms of the caller's arguments,
    masked exactly when `denormalize` masks -/
theorem class_output (c : FieldClass) (k : Kind) (p : Par ℝ) (mean trend raw : ℝ) :
    classOutput c k p mean trend raw =
      if valid (denormRange (classKind c k) p) (classMean c mean + raw) = true
      then some (trend + denormRaw (classKind c k) p (classMean c mean + raw)) else none := by
  simp only [classOutput, slots_real]
  exact pipeline_apply _ _ _ _ _

/-- `Ordinary`, `Universal`, `ExtDrift` (no `mean` argument): the trend is added AFTER de-normalisation -/
theorem class_output_no_mean (c : FieldClass) (hm : c.hasMean = false) (hn : c.hasNorm = true)
    (k : Kind) (p : Par ℝ) (mean trend raw : ℝ) :
    classOutput c k p mean trend raw =
      if valid (denormRange k p) raw = true then some (trend + denormRaw k p raw) else none := by
  rw [class_output]
  simp [classKind, classMean, hm, hn]

example : FieldClass.extDrift.hasMean = false ∧ FieldClass.extDrift.hasNorm = true := ⟨rfl, rfl⟩
example : FieldClass.ordinary.hasMean = false ∧ FieldClass.universal.hasMean = false := ⟨rfl, rfl⟩

/-- `Detrended`: neither mean nor normalizer — output = trend + raw, whatever else the caller might pass -/
theorem detrended_output (k : Kind) (p : Par ℝ) (mean trend raw : ℝ) :
    classOutput .detrended k p mean trend raw = some (trend + raw) := by
  rw [class_output]
  simp [classKind, classMean, FieldClass.hasMean, FieldClass.hasNorm, denormRange, denormRaw, valid_full]

/-- **every class**: a conditioning value enters the kriging system as `normalize(cond_val − trend) − mean'` -/
theorem class_cond (c : FieldClass) (k : Kind) (p : Par ℝ) (mean trend v : ℝ) :
    classCond c k p mean trend v = (normalize (classKind c k) p (v - trend)).map (· - classMean c mean) := by
  simp only [classCond, slots_real, removeTNM]

/-- **every class**: a raw value equal to the prepared datum is returned as the datum -/
theorem class_roundtrip (c : FieldClass) (k : Kind) (p : Par ℝ) (mean trend v : ℝ)
    (h : valid (normRange (classKind c k) p) (v - trend) = true) :
    (classCond c k p mean trend v).bind (classOutput c k p mean trend) = some v := by
  have hf : classOutput c k p mean trend = applyMNT (classKind c k) p (classMean c mean) trend := by
    funext raw
    simp only [classOutput, slots_real]
  rw [hf]
  simp only [classCond, slots_real]
  exact pipeline_apply_remove _ _ _ _ _ h

example : valid (normRange (classKind .extDrift .logNormal) (⟨1, 0⟩ : Par ℝ)) (3 - 1) = true := by
  rw [classKind]; simp only [FieldClass.hasNorm, if_true]
  exact (valid_norm_logNormal _ _).mpr (by norm_num)

/-- **the trend slot is not the mean slot**: an object that receives the caller's trend as its MEAN (and no trend)
    produces `denormalize(trend + raw)` instead of `trend + denormalize(raw)`; witness LogNormal, trend 1, raw 0:
    `e` instead of `2`.  (Its round trip `class_roundtrip` would still hold — `pipeline_apply_remove` with the roles
    exchanged — so only the comparison of the OUTPUT with the caller's arguments exposes it.) -/
theorem trend_is_not_mean :
    classOutput .extDrift .logNormal (⟨1, 0⟩ : Par ℝ) 0 1 0 ≠ applyMNT .logNormal (⟨1, 0⟩ : Par ℝ) 1 0 0 := by
  rw [class_output, pipeline_apply]
  have h1 : valid (denormRange (classKind .extDrift .logNormal) (⟨1, 0⟩ : Par ℝ)) (classMean .extDrift 0 + 0) = true := by
    simp [classKind, FieldClass.hasNorm, denormRange, valid_full]
  have h2 : valid (denormRange .logNormal (⟨1, 0⟩ : Par ℝ)) (1 + 0) = true := by
    simp [denormRange, valid_full]
  rw [if_pos h1, if_pos h2]
  simp only [classKind, classMean, FieldClass.hasNorm, FieldClass.hasMean, denormRaw, exp_real, if_true]
  intro h
  have h3 := Option.some.inj h
  have h4 : (1:ℝ) + 1 < Real.exp 1 := Real.add_one_lt_exp (by norm_num)
  norm_num at h3
  linarith

end GSV.Props.C18
