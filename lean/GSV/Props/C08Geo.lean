/-
  C08 (geometric part) — soundness of `_separate_dirs_test` as the trigger of the kernel's first-hit rule.

  `directional` (estimator.pyx) credits a pair only to the FIRST listed direction that accepts it when the
  Python glue decided that the directions are "separated" (`_separate_dirs_test`: for all i < j,
  `arccos(min(|e_i . e_j|, 1)) >= 2 * angles_tol`).  `C08.separate_dirs_sound` shows that this is harmless if
  at most one direction accepts each pair.  Here that hypothesis is PROVED, over ℝ, from the glue's test, for
  every dimension, every number of unit directions, every positive tolerance, every bandwidth and every pair
  of POSITIVE length — the undirected-angle triangle inequality.  Zero-length pairs pass every direction test
  (finding D15); a tolerance `<= 0` is rejected by the kernel itself (`ValueError`), with tolerance 0 two parallel directions would both accept a parallel pair; both
  hypotheses are forced by the proof and stated explicitly.
-/
import GSV.Props.C09
import Mathlib.Geometry.Euclidean.Angle.Unoriented.TriangleInequality
import Mathlib.Analysis.InnerProductSpace.PiL2
namespace GSV.Props.C08Geo
open GSV GSV.Transc GSV.Estimator GSV.Props GSV.Props.C08 Finset InnerProductGeometry
open scoped RealInnerProductSpace

/-! ### undirected (line) angle -/
section abstract
variable {V : Type*} [NormedAddCommGroup V] [InnerProductSpace ℝ V]

/-- `arccos |cos a| = min a (π - a)` on `[0, π]` -/
theorem arccos_abs_cos {a : ℝ} (h0 : 0 ≤ a) (hπ : a ≤ Real.pi) :
    Real.arccos |Real.cos a| = min a (Real.pi - a) := by
  rcases le_total a (Real.pi / 2) with h | h
  · have hc : 0 ≤ Real.cos a := Real.cos_nonneg_of_mem_Icc ⟨by linarith, h⟩
    rw [abs_of_nonneg hc, Real.arccos_cos h0 hπ, min_eq_left (by linarith)]
  · have hc : Real.cos a ≤ 0 := Real.cos_nonpos_of_pi_div_two_le_of_le h (by linarith)
    rw [abs_of_nonpos hc, ← Real.cos_pi_sub, Real.arccos_cos (by linarith) (by linarith), min_eq_right (by linarith)]

/-- the angle between the LINES spanned by `x` and `y` -/
noncomputable def lineAngle (x y : V) : ℝ := Real.arccos |Real.cos (angle x y)|

theorem lineAngle_eq_min (x y : V) : lineAngle x y = min (angle x y) (Real.pi - angle x y) :=
  arccos_abs_cos (angle_nonneg x y) (angle_le_pi x y)

theorem lineAngle_eq_min_neg (x y : V) : lineAngle x y = min (angle x y) (angle x (-y)) := by
  rw [lineAngle_eq_min, angle_neg_right]

theorem lineAngle_comm (x y : V) : lineAngle x y = lineAngle y x := by
  unfold lineAngle; rw [angle_comm]

/-- some orientation of `y` realises the line angle -/
theorem exists_sign_angle (x y : V) : ∃ s : ℝ, (s = 1 ∨ s = -1) ∧ angle x (s • y) = lineAngle x y := by
  rw [lineAngle_eq_min_neg]
  rcases le_total (angle x y) (angle x (-y)) with h | h
  · exact ⟨1, Or.inl rfl, by rw [one_smul, min_eq_left h]⟩
  · exact ⟨-1, Or.inr rfl, by rw [neg_one_smul, min_eq_right h]⟩

theorem lineAngle_le_angle_sign (x y : V) {s t : ℝ} (hs : s = 1 ∨ s = -1) (ht : t = 1 ∨ t = -1) :
    lineAngle x y ≤ angle (s • x) (t • y) := by
  rw [lineAngle_eq_min]
  rcases hs with rfl | rfl <;> rcases ht with rfl | rfl
  · rw [one_smul, one_smul]; exact min_le_left _ _
  · rw [one_smul, neg_one_smul, angle_neg_right]; exact min_le_right _ _
  · rw [one_smul, neg_one_smul, angle_neg_left]; exact min_le_right _ _
  · rw [neg_one_smul, neg_one_smul, angle_neg_neg]; exact min_le_left _ _

/-- **triangle inequality for line angles** -/
theorem lineAngle_triangle (v x y : V) : lineAngle x y ≤ lineAngle v x + lineAngle v y := by
  obtain ⟨s, hs, h1⟩ := exists_sign_angle v x
  obtain ⟨t, ht, h2⟩ := exists_sign_angle v y
  calc lineAngle x y ≤ angle (s • x) (t • y) := lineAngle_le_angle_sign x y hs ht
    _ ≤ angle (s • x) v + angle v (t • y) := angle_le_angle_add_angle _ _ _
    _ = lineAngle v x + lineAngle v y := by rw [angle_comm (s • x) v, h1, h2]

/-- the quantity the kernel computes: `arccos(|<v,e>| / ‖v‖)` for a unit vector `e` is the line angle -/
theorem lineAngle_unit (v e : V) (he : ‖e‖ = 1) :
    lineAngle v e = Real.arccos (|⟪v, e⟫| / ‖v‖) := by
  unfold lineAngle
  rw [cos_angle, he, mul_one, abs_div, abs_norm]

theorem lineAngle_unit_unit (x y : V) (hx : ‖x‖ = 1) (hy : ‖y‖ = 1) :
    lineAngle x y = Real.arccos (min |⟪x, y⟫| 1) := by
  unfold lineAngle
  rw [cos_angle, hx, hy, mul_one, div_one, min_eq_left]
  have := abs_real_inner_le_norm x y
  rw [hx, hy, mul_one] at this
  exact this

/-- **at most one of two separated lines is within `tol` of a non-zero vector**: what each direction test accepts is
    `lineAngle v e < tol` or `|<v,e>|/‖v‖ ≥ 1` (then the angle is 0) -/
theorem not_both_within (v x y : V) (hx : ‖x‖ = 1) (hy : ‖y‖ = 1) {tol : ℝ} (htol : 0 < tol)
    (hsep : 2 * tol ≤ Real.arccos (min |⟪x, y⟫| 1))
    (h1 : |⟪v, x⟫| / ‖v‖ < 1 → Real.arccos (|⟪v, x⟫| / ‖v‖) < tol)
    (h2 : |⟪v, y⟫| / ‖v‖ < 1 → Real.arccos (|⟪v, y⟫| / ‖v‖) < tol) : False := by
  have a1 : lineAngle v x < tol := by
    rw [lineAngle_unit v x hx]
    by_cases h : |⟪v, x⟫| / ‖v‖ < 1
    · exact h1 h
    · rw [Real.arccos_eq_zero.2 (not_lt.1 h)]; exact htol
  have a2 : lineAngle v y < tol := by
    rw [lineAngle_unit v y hy]
    by_cases h : |⟪v, y⟫| / ‖v‖ < 1
    · exact h2 h
    · rw [Real.arccos_eq_zero.2 (not_lt.1 h)]; exact htol
  have := lineAngle_triangle v x y
  rw [lineAngle_unit_unit x y hx hy] at this
  linarith

end abstract

/-! ### the kernel's direction test over ℝ -/

/-- the scalar product accumulated by `dir_test` -/
noncomputable def sprod (dim : Nat) (pos : Nat → Nat → ℝ) (direction : Nat → Nat → ℝ) (i j d : Nat) : ℝ :=
  ∑ c ∈ range dim, (pos c i - pos c j) * direction d c

/-! `dir_test` in three stages (definitionally the generated text) -/
section stages
variable (dim : Nat) (pos : Nat → Nat → ℝ) (ds : ℝ) (direction : Nat → Nat → ℝ) (tol bw : ℝ) (i j d : Nat)

/-- after the scalar-product loop -/
noncomputable def stage1 : dir_test.St ℝ :=
  forRange 0 dim ({ s_prod := ((0:Nat):ℝ), b_dist := ((0:Nat):ℝ), in_band := true, in_angle := true, tmp := ((0:Nat):ℝ) } : dir_test.St ℝ)
    fun k (st : dir_test.St ℝ) => { st with s_prod := (st.s_prod + ((pos k i - pos k j) * direction d k)) }

/-- after the optional bandwidth test -/
noncomputable def stage2 : dir_test.St ℝ :=
  if (bw > ((0:Nat):ℝ)) then
    let st : dir_test.St ℝ :=
      forRange 0 dim (stage1 dim pos direction i j d) fun k (st : dir_test.St ℝ) =>
        let st : dir_test.St ℝ := { st with tmp := ((pos k i - pos k j) - (st.s_prod * direction d k)) }
        let st : dir_test.St ℝ := { st with b_dist := (st.b_dist + (st.tmp * st.tmp)) }
        st
    { st with in_band := (decide (sqrt st.b_dist < bw)) }
  else stage1 dim pos direction i j d

/-- after the angle test -/
noncomputable def stage3 (st : dir_test.St ℝ) : dir_test.St ℝ :=
  if (ds > ((0:Nat):ℝ)) then
    let st : dir_test.St ℝ := { st with tmp := (fabs st.s_prod / ds) }
    if (st.tmp < ((1:Nat):ℝ)) then { st with in_angle := (decide (acos st.tmp < tol)) } else st
  else st

theorem dir_test_stages (p0 p1 d0 d1 : Nat) :
    dir_test dim pos p0 p1 ds direction d0 d1 tol bw i j d =
      decide (((stage3 ds tol (stage2 dim pos direction bw i j d)).in_band = true) ∧
              ((stage3 ds tol (stage2 dim pos direction bw i j d)).in_angle = true)) := rfl

theorem stage1_s_prod : (stage1 dim pos direction i j d).s_prod = sprod dim pos direction i j d := by
  unfold stage1
  have := forRange_proj (fun (s : dir_test.St ℝ) => s.s_prod)
    (fun k (st : dir_test.St ℝ) => ({ st with s_prod := (st.s_prod + ((pos k i - pos k j) * direction d k)) } : dir_test.St ℝ))
    (fun k acc => acc + (pos k i - pos k j) * direction d k) (by intros; rfl) 0 dim
    ({ s_prod := ((0:Nat):ℝ), b_dist := ((0:Nat):ℝ), in_band := true, in_angle := true, tmp := ((0:Nat):ℝ) } : dir_test.St ℝ)
  simp only [] at this
  rw [this, forRange_cast_zero_add_eq_sum]
  rfl

theorem stage1_in_angle : (stage1 dim pos direction i j d).in_angle = true := by
  unfold stage1
  exact forRange_keep (fun (s : dir_test.St ℝ) => s.in_angle) _ (by intros; rfl) 0 dim _

theorem stage2_s_prod : (stage2 dim pos direction bw i j d).s_prod = sprod dim pos direction i j d := by
  unfold stage2
  split
  · simp only []
    rw [forRange_keep (fun (s : dir_test.St ℝ) => s.s_prod) _ (by intros; rfl) 0 dim _, stage1_s_prod]
  · exact stage1_s_prod dim pos direction i j d

theorem stage2_in_angle : (stage2 dim pos direction bw i j d).in_angle = true := by
  unfold stage2
  split
  · simp only []
    rw [forRange_keep (fun (s : dir_test.St ℝ) => s.in_angle) _ (by intros; rfl) 0 dim _, stage1_in_angle]
  · exact stage1_in_angle dim pos direction i j d

end stages

/-- what `dir_test` returning `true` says about the angle: if the distance is positive and `|s|/dist < 1`, the
    angle `arccos(|s|/dist)` is below the tolerance (the bandwidth test only restricts further) -/
theorem dir_test_angle (dim : Nat) (pos : Nat → Nat → ℝ) (p0 p1 : Nat) (ds : ℝ) (direction : Nat → Nat → ℝ)
    (d0 d1 : Nat) (tol bw : ℝ) (i j d : Nat)
    (h : dir_test dim pos p0 p1 ds direction d0 d1 tol bw i j d = true) (hds : 0 < ds)
    (hlt : |sprod dim pos direction i j d| / ds < 1) :
    Real.arccos (|sprod dim pos direction i j d| / ds) < tol := by
  rw [dir_test_stages, decide_eq_true_eq] at h
  have h2 := h.2
  unfold stage3 at h2
  have hds' : ds > ((0:Nat):ℝ) := by simpa using hds
  rw [if_pos hds'] at h2
  simp only [stage2_s_prod, fabs_real, acos_real] at h2
  have hlt' : |sprod dim pos direction i j d| / ds < ((1:Nat):ℝ) := by simpa using hlt
  rw [if_pos hlt'] at h2
  simpa using h2

/-- coordinates of the pair vector / of a direction as points of Euclidean space -/
noncomputable def vecOf (dim : Nat) (f : Nat → ℝ) : EuclideanSpace ℝ (Fin dim) := (WithLp.equiv 2 _).symm fun c => f c

theorem inner_vecOf (dim : Nat) (f g : Nat → ℝ) : ⟪vecOf dim f, vecOf dim g⟫ = ∑ c ∈ range dim, f c * g c := by
  rw [EuclideanSpace.inner_eq_star_dotProduct, Finset.sum_range]
  simp [vecOf, dotProduct, mul_comm]

theorem norm_vecOf (dim : Nat) (f : Nat → ℝ) : ‖vecOf dim f‖ = Real.sqrt (∑ c ∈ range dim, f c ^ 2) := by
  rw [EuclideanSpace.norm_eq, Finset.sum_range]
  simp [vecOf]

/-- **C08_separate_dirs_geometric**: if the directions are unit vectors and pass the glue's separation test
    (`arccos(min(|e_a . e_b|, 1)) ≥ 2 tol` for all `a < b`), then for a positive tolerance at most one direction
    accepts a pair of positive length — for every dimension, bandwidth and number of directions. -/
theorem separate_dirs_geometric (dim : Nat) (pos : Nat → Nat → ℝ) (np : Nat) (direction : Nat → Nat → ℝ)
    (nd dc : Nat) (tol bw : ℝ) (j k : Nat) (htol : 0 < tol)
    (hunit : ∀ d, d < nd → ∑ c ∈ range dim, direction d c ^ 2 = 1)
    (hsep : ∀ a b, a < b → b < nd →
      2 * tol ≤ Real.arccos (min |∑ c ∈ range dim, direction a c * direction b c| 1))
    (hlen : 0 < dist_euclid dim pos dim np j k) :
    ∀ d₁ d₂, d₁ < nd → d₂ < nd →
      dirOK dim pos np direction nd dc tol bw (dist_euclid dim pos dim np j k) j k d₁ →
      dirOK dim pos np direction nd dc tol bw (dist_euclid dim pos dim np j k) j k d₂ → d₁ = d₂ := by
  intro d₁ d₂ h1 h2 ok1 ok2
  by_contra hne
  -- w.l.o.g. the smaller index first (the statement is symmetric)
  wlog hlt : d₁ < d₂ generalizing d₁ d₂
  · exact this d₂ d₁ h2 h1 ok2 ok1 (Ne.symm hne) (lt_of_le_of_ne (not_lt.1 hlt) (Ne.symm hne))
  set v : EuclideanSpace ℝ (Fin dim) := vecOf dim (fun c => pos c k - pos c j) with hv
  set e₁ : EuclideanSpace ℝ (Fin dim) := vecOf dim (direction d₁) with he₁
  set e₂ : EuclideanSpace ℝ (Fin dim) := vecOf dim (direction d₂) with he₂
  have hn1 : ‖e₁‖ = 1 := by rw [he₁, norm_vecOf, hunit d₁ h1, Real.sqrt_one]
  have hn2 : ‖e₂‖ = 1 := by rw [he₂, norm_vecOf, hunit d₂ h2, Real.sqrt_one]
  have hdist : dist_euclid dim pos dim np j k = ‖v‖ := by
    rw [C09.dist_euclid_real, hv, norm_vecOf]
    congr 1
    exact Finset.sum_congr rfl fun c _ => by ring
  have hs : ∀ d, sprod dim pos direction k j d = ⟪v, vecOf dim (direction d)⟫ := by
    intro d; rw [hv, inner_vecOf]; rfl
  have hsep' : 2 * tol ≤ Real.arccos (min |⟪e₁, e₂⟫| 1) := by
    rw [he₁, he₂, inner_vecOf]; exact hsep d₁ d₂ hlt h2
  unfold dirOK at ok1 ok2
  refine not_both_within v e₁ e₂ hn1 hn2 htol hsep' ?_ ?_
  · intro hl
    have := dir_test_angle dim pos dim np _ direction nd dc tol bw k j d₁ ok1 hlen (by rw [hs, hdist]; exact hl)
    rwa [hs, hdist] at this
  · intro hl
    have := dir_test_angle dim pos dim np _ direction nd dc tol bw k j d₂ ok2 hlen (by rw [hs, hdist]; exact hl)
    rwa [hs, hdist] at this

/-- **the first-hit rule is harmless under the glue's test** (positive-length pairs): with separated unit
    directions the kernel run with `separate_dirs = True` selects, for every direction and bin, exactly the pairs
    the run with `separate_dirs = False` selects -/
theorem separated_first_hit_eq_all (dim : Nat) (pos : Nat → Nat → ℝ) (np : Nat) (bins : Nat → ℝ)
    (direction : Nat → Nat → ℝ) (nd dc : Nat) (tol bw : ℝ) (d i : Nat) (p : Nat × Nat) (htol : 0 < tol)
    (hunit : ∀ d, d < nd → ∑ c ∈ range dim, direction d c ^ 2 = 1)
    (hsep : ∀ a b, a < b → b < nd →
      2 * tol ≤ Real.arccos (min |∑ c ∈ range dim, direction a c * direction b c| 1))
    (hlen : 0 < dist_euclid dim pos dim np p.1 p.2) :
    inDirBin dim pos np bins direction nd dc tol bw true d i p = inDirBin dim pos np bins direction nd dc tol bw false d i p :=
  separate_dirs_sound dim pos np bins direction nd dc tol bw d i p
    (separate_dirs_geometric dim pos np direction nd dc tol bw p.1 p.2 htol hunit hsep hlen)

/-- non-vacuity: two orthogonal unit directions in the plane pass the separation test with `tol = π/8` -/
example : 2 * (Real.pi / 8) ≤ Real.arccos (min |∑ c ∈ range 2, (if c = 0 then (1:ℝ) else 0) * (if c = 1 then (1:ℝ) else 0)| 1) := by
  simp
  linarith [Real.pi_pos]

/-! ### link to the executable model of the glue (`Model.Vario.separateDirs`, tied to `_separate_dirs_test` by correspondence) -/

/-- the model's test returns `true` iff every pair `a < b` of listed directions satisfies the separation inequality -/
theorem separateDirs_spec (dirs : List (List ℝ)) (tol : ℝ) :
    Model.Vario.separateDirs dirs tol = true ↔
      ∀ a b, a < b → b < dirs.length →
        2 * tol ≤ Real.arccos (min |Model.Vario.dotL (dirs.getD a []) (dirs.getD b [])| 1) := by
  unfold Model.Vario.separateDirs
  simp only [List.all_eq_true, List.mem_range]
  constructor
  · intro h a b hab hb
    have := h a (lt_trans hab hb) b hb
    rw [if_pos hab] at this
    simp only [fabs_real, acos_real, Nat.cast_one, Nat.cast_ofNat, ge_iff_le, decide_eq_true_eq] at this
    rcases lt_or_ge (1:ℝ) |Model.Vario.dotL (dirs.getD a []) (dirs.getD b [])| with hc | hc
    · rw [if_pos hc] at this; rw [min_eq_right hc.le]; exact this
    · rw [if_neg (not_lt.2 hc)] at this; rw [min_eq_left hc]; exact this
  · intro h a ha b hb
    split
    · rename_i hab
      simp only [fabs_real, acos_real, Nat.cast_one, Nat.cast_ofNat, ge_iff_le, decide_eq_true_eq]
      have := h a b hab hb
      rcases lt_or_ge (1:ℝ) |Model.Vario.dotL (dirs.getD a []) (dirs.getD b [])| with hc | hc
      · rw [if_pos hc]; rw [min_eq_right hc.le] at this; exact this
      · rw [if_neg (not_lt.2 hc)]; rw [min_eq_left hc] at this; exact this
    · rfl

/-- the hypothesis `0 < tol` of `separate_dirs_geometric` cannot be dropped: with tolerance 0 two identical unit
    directions pass the glue's separation test although both accept every pair parallel to them -/
theorem separateDirs_zero_tol_duplicate : Model.Vario.separateDirs [[(1:ℝ), 0], [1, 0]] 0 = true := by
  rw [separateDirs_spec]
  intro a b _ _
  simpa using Real.arccos_nonneg _

end GSV.Props.C08Geo
