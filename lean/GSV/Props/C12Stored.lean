/-
  C12 — Field objects BETWEEN calls (`GSV/Model/Pipe.lean`: `FState`, `fStep`).

  An SRF / Krige / CondSRF object refers to a model object that can be changed in place (`obj.model.angles = …`,
  `obj.model.anis = …`, `obj.model.len_scale = [l1, l2, …]`) or swapped (`obj.model = m`), keeps the position tuple of
  the last call that was given one (`obj()` evaluates it again) and, for kriging, the isometrized conditioning tuple
  `_krige_pos` that `set_condition` computes.  Proved for EVERY history of such operations:

  * the stored tuple is the one given last (nothing else touches it), the model the object refers to is always a
    valid one (`stored_pos_is_last_given`, `fFinal_valid`);
  * a call WITHOUT positions hands the computation exactly what a brand-new object — around a freshly constructed
    model with the current public values — hands it when it is GIVEN the stored tuple (`stored_call_is_fresh`), i.e.
    `isometrize` of the CURRENT `(dim, angles, anis)` applied to the stored tuple (`stored_call_current`);
  * hence the randomization / Fourier field evaluated on stored positions after any history is the isotropic
    unrotated generator at the currently transformed stored positions (`stored_srf_randmeth_eq_iso`,
    `stored_srf_fourier_eq_iso`);
  * after the documented refresh `set_condition()` the distances the kriging matrix and the right-hand sides are
    built from are those of the CURRENT model between the stored conditioning tuple and the stored / given targets
    (`refresh_then_call_dists`), so `krige_aniso_eq_iso` / `condsrf_aniso_eq_iso` apply to the refreshed object;
    without the refresh `_krige_pos` is the tuple isometrized with the model of the last `set_condition`
    (`kpos_is_last_setCond` — the reason the refresh is documented).

  The model is tied to the code by differential execution of whole histories (`vlib/props/C12.py: _field_hist_case`).
-/
import GSV.Props.C12Compose
namespace GSV.Props.C12
open GSV GSV.Model.Geo GSV.Lemmas.Geo GSV.Model.Pipe GSV.Model.Gen

set_option linter.unusedSectionVars false

/-! ## the model object of a Field stays valid -/

theorem fStep_valid {s : FState ℝ} (hs : MValid s.model) (op : FOp ℝ) : MValid (fStep s op).1.model := by
  cases op with
  | setter o => exact mStepKeep_valid hs o
  | replace d ls an ag =>
    simp only [fStep]
    cases h : mInit d ls an ag with
    | ok m => exact mInit_valid h
    | error e => exact hs
  | call p =>
    cases p with
    | some p => exact hs
    | none => simp only [fStep]; cases s.pos <;> exact hs
  | setCond c =>
    cases c with
    | some c => exact hs
    | none => simp only [fStep]; cases s.cond <;> exact hs

theorem fFinal_valid {s : FState ℝ} (hs : MValid s.model) (ops : List (FOp ℝ)) : MValid (fFinal s ops).model := by
  induction ops generalizing s with
  | nil => exact hs
  | cons op rest ih => exact ih (fStep_valid hs op)

/-! ## what is stored -/

/-- the position tuple an object holds after one more operation -/
def givenBy {α : Type} (prev : Option (PosTab α)) : FOp α → Option (PosTab α)
  | .call (some p) => some p
  | _ => prev

/-- the tuple given with the last call that had one (`prev` if there was none) -/
def lastGiven {α : Type} (prev : Option (PosTab α)) (ops : List (FOp α)) : Option (PosTab α) := ops.foldl givenBy prev

theorem fStep_pos (s : FState ℝ) (op : FOp ℝ) : (fStep s op).1.pos = givenBy s.pos op := by
  cases op with
  | setter o => rfl
  | replace d ls an ag => simp only [fStep, givenBy]; cases mInit d ls an ag <;> rfl
  | call p =>
    cases p with
    | some p => rfl
    | none => cases h : s.pos <;> simp [fStep, givenBy, h]
  | setCond c =>
    cases c with
    | some c => rfl
    | none => cases h : s.cond <;> simp [fStep, givenBy, h]

/-- **the stored positions are those of the last call that was given positions** — model setters, model replacement
    and `set_condition` do not touch them -/
theorem stored_pos_is_last_given (s : FState ℝ) (ops : List (FOp ℝ)) : (fFinal s ops).pos = lastGiven s.pos ops := by
  induction ops generalizing s with
  | nil => rfl
  | cons op rest ih =>
    show (fFinal (fStep s op).1 rest).pos = lastGiven (givenBy s.pos op) rest
    rw [ih, fStep_pos]

/-- a call without positions evaluates `isometrize` of the CURRENT model state on the stored tuple -/
theorem stored_call_current (s : FState ℝ) (p : PosTab ℝ) (hp : s.pos = some p) :
    fStep s (.call none) = (s, .iso ⟨p.n, isoPos s.model.dim s.model.angles s.model.anis p.tab⟩) := by
  simp only [fStep, hp, isoTabOf]

/-- **history independence on stored positions**: after the constructor and ANY history of in-place setters (accepted or
    rejected), model replacements, calls and `set_condition`s, a call WITHOUT positions hands the computation exactly the
    isometrized tuple that a brand-new object around a freshly constructed model (current public values) receives when
    it is GIVEN the stored tuple. -/
theorem stored_call_is_fresh {d : Nat} {ls an ag : List ℝ} {m0 : MState ℝ} (h0 : mInit d ls an ag = .ok m0)
    (ops : List (FOp ℝ)) (p : PosTab ℝ) (hp : (fFinal (fInit m0) ops).pos = some p) :
    let s := fFinal (fInit m0) ops
    ∃ m', mInit s.model.dim [s.model.lenScale] s.model.anis s.model.angles = .ok m' ∧
      (fStep s (.call none)).2 = (fStep (fInit m') (.call (some p))).2 := by
  intro s
  have hv : MValid s.model := fFinal_valid (s := fInit m0) (mInit_valid h0) ops
  refine ⟨s.model, valid_fresh hv, ?_⟩
  rw [stored_call_current s p hp]
  rfl

/-- the tuple handed to the generator by a call without positions, after any history -/
noncomputable def storedIso (s : FState ℝ) (p : PosTab ℝ) : Nat → Nat → ℝ := isoPos s.model.dim s.model.angles s.model.anis p.tab

/-- **randomization field on stored positions**: whatever happened to the model object since the positions were
    given, `srf()` is the field of the CURRENT `(angles, anis)` at the stored positions, which equals the isotropic
    unrotated generator at the currently transformed stored positions and the mode sum with wave vectors `Mᵀk` at the raw
    stored positions -/
theorem stored_srf_randmeth_eq_iso (s : FState ℝ) (p : PosTab ℝ) (hp : s.pos = some p)
    (var : ℝ) (k : Nat → Nat → ℝ) (z1 z2 : Nat → ℝ) (N i : Nat) :
    (fStep s (.call none)).2 = .iso ⟨p.n, storedIso s p⟩ ∧
    randmethField var k z1 z2 (storedIso s p) s.model.dim N p.n i
      = srfRandmeth var k z1 z2 s.model.dim s.model.angles s.model.anis p.tab N p.n i ∧
    randmethField var k z1 z2 (storedIso s p) s.model.dim N p.n i
      = srfRandmeth var k z1 z2 s.model.dim ([] : List ℝ) [] (storedIso s p) N p.n i ∧
    randmethField var k z1 z2 (storedIso s p) s.model.dim N p.n i
      = randmethField var (modesT s.model.dim s.model.angles s.model.anis k) z1 z2 p.tab s.model.dim N p.n i := by
  have h := srf_randmeth_aniso_eq_iso var k z1 z2 s.model.dim s.model.angles s.model.anis p.tab N p.n i
  refine ⟨by rw [stored_call_current s p hp]; rfl, rfl, ?_, ?_⟩
  · exact h.1
  · exact h.2

/-- the same for the Fourier generator -/
theorem stored_srf_fourier_eq_iso (s : FState ℝ) (p : PosTab ℝ) (hp : s.pos = some p)
    (sf : Nat → ℝ) (modes : Nat → Nat → ℝ) (z1 z2 : Nat → ℝ) (N i : Nat) :
    (fStep s (.call none)).2 = .iso ⟨p.n, storedIso s p⟩ ∧
    fourierField sf modes z1 z2 (storedIso s p) s.model.dim N p.n i
      = srfFourier sf modes z1 z2 s.model.dim ([] : List ℝ) [] (storedIso s p) N p.n i ∧
    fourierField sf modes z1 z2 (storedIso s p) s.model.dim N p.n i
      = fourierField sf (modesT s.model.dim s.model.angles s.model.anis modes) z1 z2 p.tab s.model.dim N p.n i := by
  have h := srf_fourier_aniso_eq_iso sf modes z1 z2 s.model.dim s.model.angles s.model.anis p.tab N p.n i
  exact ⟨by rw [stored_call_current s p hp]; rfl, h.1, h.2⟩

/-! ## the kriging setup -/

/-- the conditioning tuple / isometrized conditioning tuple after one more operation -/
theorem fStep_setCond_none (s : FState ℝ) (c : PosTab ℝ) (hc : s.cond = some c) :
    fStep s (.setCond none) = ({ s with kpos := some (isoTabOf s.model c) }, .kpos (isoTabOf s.model c)) := by
  simp only [fStep, hc]

/-- **documented refresh**: after `set_condition()` (no arguments) followed by a call on the stored positions, the
    distances the kriging matrix is built from are `distCC` and those of the right-hand sides are `distCT` of the CURRENT
    model between the stored conditioning tuple and the stored targets — exactly the tables `krige_aniso_eq_iso`
    and `condsrf_aniso_eq_iso` are about; model, stored positions and conditioning tuple are unchanged by the refresh. -/
theorem refresh_then_call_dists (s : FState ℝ) (c p : PosTab ℝ) (hc : s.cond = some c) (hp : s.pos = some p) :
    let s1 := (fStep s (.setCond none)).1
    s1.model = s.model ∧ s1.pos = some p ∧ s1.cond = some c ∧
    ∃ kp q, s1.kpos = some kp ∧ (fStep s1 (.call none)).2 = .iso q ∧ kp.n = c.n ∧ q.n = p.n ∧
      (∀ i j, distKK s.model.dim kp i j = distCC s.model.dim s.model.angles s.model.anis c.tab i j) ∧
      (∀ i t, distKT s.model.dim kp q i t = distCT s.model.dim s.model.angles s.model.anis c.tab p.tab i t) := by
  intro s1
  have h1 : s1 = { s with kpos := some (isoTabOf s.model c) } := by
    show (fStep s (.setCond none)).1 = _
    rw [fStep_setCond_none s c hc]
  refine ⟨by rw [h1], by rw [h1]; exact hp, by rw [h1]; exact hc, isoTabOf s.model c, isoTabOf s.model p, by rw [h1], ?_,
    rfl, rfl, fun i j => rfl, fun i t => rfl⟩
  have hp1 : s1.pos = some p := by rw [h1]; exact hp
  rw [stored_call_current s1 p hp1, h1]
  rfl

/-- the same with targets given in the call -/
theorem refresh_then_call_given_dists (s : FState ℝ) (c p : PosTab ℝ) (hc : s.cond = some c) :
    let s1 := (fStep s (.setCond none)).1
    ∃ kp q, s1.kpos = some kp ∧ (fStep s1 (.call (some p))).2 = .iso q ∧
      (∀ i j, distKK s.model.dim kp i j = distCC s.model.dim s.model.angles s.model.anis c.tab i j) ∧
      (∀ i t, distKT s.model.dim kp q i t = distCT s.model.dim s.model.angles s.model.anis c.tab p.tab i t) := by
  intro s1
  have h1 : s1 = { s with kpos := some (isoTabOf s.model c) } := by
    show (fStep s (.setCond none)).1 = _
    rw [fStep_setCond_none s c hc]
  refine ⟨isoTabOf s.model c, isoTabOf s.model p, by rw [h1], ?_, fun i j => rfl, fun i t => rfl⟩
  rw [h1]
  rfl

/-- what `_krige_pos` is after one more operation: only `set_condition` writes it, with the model of that moment -/
theorem fStep_kpos (s : FState ℝ) (op : FOp ℝ) :
    (fStep s op).1.kpos =
      match op with
      | .setCond (some c) => some (isoTabOf s.model c)
      | .setCond none => (match s.cond with | some c => some (isoTabOf s.model c) | none => s.kpos)
      | _ => s.kpos := by
  cases op with
  | setter o => rfl
  | replace d ls an ag => simp only [fStep]; cases mInit d ls an ag <;> rfl
  | call p =>
    cases p with
    | some p => rfl
    | none => simp only [fStep]; cases s.pos <;> rfl
  | setCond c =>
    cases c with
    | some c => rfl
    | none => simp only [fStep]; cases s.cond <;> rfl

/-- in-place setters, model replacement and calls leave `_krige_pos` as the last `set_condition` computed it: the
    kriging setup follows a changed model only after the refresh -/
theorem kpos_is_last_setCond (s : FState ℝ) (ops : List (FOp ℝ))
    (h : ∀ op ∈ ops, ∀ c, op ≠ .setCond c) : (fFinal s ops).kpos = s.kpos := by
  induction ops generalizing s with
  | nil => rfl
  | cons op rest ih =>
    show (fFinal (fStep s op).1 rest).kpos = s.kpos
    rw [ih _ (fun o ho => h o (List.mem_cons_of_mem _ ho)), fStep_kpos]
    cases op with
    | setCond c => exact absurd rfl (h _ List.mem_cons_self c)
    | setter o => rfl
    | replace d ls an ag => rfl
    | call p => rfl

/-! ## the hypotheses are satisfiable, and the history matters -/

/-- a 2-D object: positions given, then `model.angles = 0.7` and `model.len_scale = [4, 1]` in place: the stored tuple
    is still there and the model is the one with the new angle and the ratio `1/4` -/
example : ∃ (m0 : MState ℝ) (p : PosTab ℝ),
    mInit 2 ([2] : List ℝ) [1 / 2] [0.3] = .ok m0 ∧
    (fFinal (fInit m0) [.call (some p), .setter (.setAngles [0.7]), .setter (.setLenScale [4, 1])]).pos = some p := by
  have hl := len_scale_single 2 (by norm_num) (2:ℝ) [1 / 2] (by simp)
  refine ⟨⟨2, 2, setAnis 2 [1 / 2], setAngles 2 [0.3]⟩, ⟨3, fun d i => (d : ℝ) + i⟩, ?_, ?_⟩
  · rw [mInit, if_neg (by norm_num), hl]
  · rw [stored_pos_is_last_given]
    rfl

end GSV.Props.C12
