/-
  Law-free specifications of the generated mode-summation kernels (field/summator.pyx).
  Everything here holds for an arbitrary carrier `α` with arbitrary operations — in particular for
  IEEE doubles, bit for bit.
-/
import GSV.Gen.Summator
import GSV.Lemmas.Ctl
namespace GSV.Props
open GSV GSV.Transc GSV.Summator

set_option linter.unusedSectionVars false
variable {α : Type} [Arith α] [Transc α] [DecidableLT α] [DecidableLE α]

/-- `⟨k_j, x_i⟩` accumulated in the order the kernel uses -/
def phaseOf (k : Nat → Nat → α) (x : Nat → Nat → α) (dim j i : Nat) : α :=
  forRange 0 dim ((0:Nat):α) fun d acc => acc + k d j * x d i

/-- the defining sum of the randomization method at point `i`, accumulated from `v0` -/
def summateCell (cov : Nat → Nat → α) (z1 z2 : Nat → α) (pos : Nat → Nat → α) (dim N i : Nat) (v0 : α) : α :=
  forRange 0 N v0 fun j acc =>
    acc + (z1 j * cos (phaseOf cov pos dim j i) + z2 j * sin (phaseOf cov pos dim j i))

theorem summate_spec (sched : Sched) (hs : sched.Admissible)
    (cov : Nat → Nat → α) (c0 c1 : Nat) (z1 : Nat → α) (n1 : Nat) (z2 : Nat → α) (n2 : Nat)
    (pos : Nat → Nat → α) (dim X : Nat) (i : Nat) :
    summate sched cov c0 c1 z1 n1 z2 n2 pos dim X i =
      if i < X then summateCell cov z1 z2 pos dim c1 i ((0:Nat):α) else ((0:Nat):α) := by
  unfold summate
  simp only []
  rw [parRange_owned (fun (s : summate.St α) => s.summed_modes)
      (fun i v => summateCell cov z1 z2 pos dim c1 i v) _ _ _ sched hs]
  · simp
  · intro i s k hk
    rw [forRange_proj (fun (s : summate.St α) => s.summed_modes k) _ (fun _ v => v)]
    · exact forRange_keep id _ (by intros; rfl) _ _ _
    · intro j s
      simp only [upd_other _ _ hk]
      exact forRange_keep (fun (s : summate.St α) => s.summed_modes k) _ (by intros; rfl) _ _ _
  · intro i s
    unfold summateCell
    rw [forRange_proj (fun (s : summate.St α) => s.summed_modes i) _
      (fun j acc => acc + (z1 j * cos (phaseOf cov pos dim j i) + z2 j * sin (phaseOf cov pos dim j i)))]
    intro j s
    simp only [upd_same]
    have h1 : (forRange 0 dim ({ s with phase := ((0:Nat):α) } : summate.St α)
        fun d (st : summate.St α) => ({ st with phase := st.phase + cov d j * pos d i } : summate.St α)).summed_modes
        = s.summed_modes :=
      forRange_keep (fun (s : summate.St α) => s.summed_modes) _ (by intros; rfl) _ _ _
    have h2 : (forRange 0 dim ({ s with phase := ((0:Nat):α) } : summate.St α)
        fun d (st : summate.St α) => ({ st with phase := st.phase + cov d j * pos d i } : summate.St α)).phase
        = phaseOf cov pos dim j i :=
      forRange_proj (fun (s : summate.St α) => s.phase) _ (fun d acc => acc + cov d j * pos d i) (by intros; rfl) _ _ _
    rw [h1, h2]

/-- the defining sum of the Fourier method at point `i` -/
def fourierCell (sf : Nat → α) (modes : Nat → Nat → α) (z1 z2 : Nat → α) (pos : Nat → Nat → α) (dim N i : Nat) (v0 : α) : α :=
  forRange 0 N v0 fun j acc =>
    acc + sf j * (z1 j * cos (phaseOf modes pos dim j i) + z2 j * sin (phaseOf modes pos dim j i))

theorem summate_fourier_spec (sched : Sched) (hs : sched.Admissible)
    (sf : Nat → α) (f0 : Nat) (modes : Nat → Nat → α) (c0 c1 : Nat) (z1 : Nat → α) (n1 : Nat) (z2 : Nat → α) (n2 : Nat)
    (pos : Nat → Nat → α) (dim X : Nat) (i : Nat) :
    summate_fourier sched sf f0 modes c0 c1 z1 n1 z2 n2 pos dim X i =
      if i < X then fourierCell sf modes z1 z2 pos dim c1 i ((0:Nat):α) else ((0:Nat):α) := by
  unfold summate_fourier
  simp only []
  rw [parRange_owned (fun (s : summate_fourier.St α) => s.summed_modes)
      (fun i v => fourierCell sf modes z1 z2 pos dim c1 i v) _ _ _ sched hs]
  · simp
  · intro i s k hk
    rw [forRange_proj (fun (s : summate_fourier.St α) => s.summed_modes k) _ (fun _ v => v)]
    · exact forRange_keep id _ (by intros; rfl) _ _ _
    · intro j s
      simp only [upd_other _ _ hk]
      exact forRange_keep (fun (s : summate_fourier.St α) => s.summed_modes k) _ (by intros; rfl) _ _ _
  · intro i s
    unfold fourierCell
    rw [forRange_proj (fun (s : summate_fourier.St α) => s.summed_modes i) _
      (fun j acc => acc + sf j * (z1 j * cos (phaseOf modes pos dim j i) + z2 j * sin (phaseOf modes pos dim j i)))]
    intro j s
    simp only [upd_same]
    have h1 : (forRange 0 dim ({ s with phase := ((0:Nat):α) } : summate_fourier.St α)
        fun d (st : summate_fourier.St α) => ({ st with phase := st.phase + modes d j * pos d i } : summate_fourier.St α)).summed_modes
        = s.summed_modes :=
      forRange_keep (fun (s : summate_fourier.St α) => s.summed_modes) _ (by intros; rfl) _ _ _
    have h2 : (forRange 0 dim ({ s with phase := ((0:Nat):α) } : summate_fourier.St α)
        fun d (st : summate_fourier.St α) => ({ st with phase := st.phase + modes d j * pos d i } : summate_fourier.St α)).phase
        = phaseOf modes pos dim j i :=
      forRange_proj (fun (s : summate_fourier.St α) => s.phase) _ (fun d acc => acc + modes d j * pos d i) (by intros; rfl) _ _ _
    rw [h1, h2]

/-- `|k_j|²` as `abs_square` accumulates it -/
def absSq (cov : Nat → Nat → α) (dim j : Nat) : α :=
  forRange 0 dim ((0:Nat):α) fun d acc => acc + npow (cov d j) 2

theorem abs_square_spec (cov : Nat → Nat → α) (dim j : Nat) :
    abs_square (fun i_ => cov i_ j) dim = absSq cov dim j := by
  unfold abs_square absSq
  simp only []
  exact forRange_proj (fun (s : abs_square.St α) => s.r) _ (fun d acc => acc + npow (cov d j) 2) (by intros; rfl) _ _ _

/-- first unit vector, as the kernel builds it -/
def e1 (d : Nat) : α := if d = 0 then ((1:Nat):α) else ((0:Nat):α)

/-- component `d` of the incompressible field at point `i` -/
def incomprCell (cov : Nat → Nat → α) (z1 z2 : Nat → α) (pos : Nat → Nat → α) (c0 dim N d i : Nat) (v0 : α) : α :=
  forRange 0 N v0 fun j acc =>
    acc + (e1 d - cov d j * cov 0 j / absSq cov c0 j) *
      (z1 j * cos (phaseOf cov pos dim j i) + z2 j * sin (phaseOf cov pos dim j i))


section incompr
variable (cov : Nat → Nat → α) (c0 c1 : Nat) (z1 : Nat → α) (z2 : Nat → α) (pos : Nat → Nat → α) (dim : Nat)

/-- one `(i, j)` round of the incompressible kernel, as generated -/
private def incBodyJ (i j : Nat) (st : summate_incompr.St α) : summate_incompr.St α :=
  let st : summate_incompr.St α := { st with k_2 := (abs_square (fun i_ => cov i_ j) c0) }
  let st : summate_incompr.St α := { st with phase := ((0:Nat):α) }
  let st : summate_incompr.St α :=
    forRange 0 dim st fun d (st : summate_incompr.St α) =>
      let st : summate_incompr.St α := { st with phase := (st.phase + (cov d j * pos d i)) }
      st
  let st : summate_incompr.St α :=
    forRange 0 dim st fun d (st : summate_incompr.St α) =>
      let st : summate_incompr.St α := { st with proj := upd st.proj d (st.e1 d - ((cov d j * cov (0:Nat) j) / st.k_2)) }
      let st : summate_incompr.St α := { st with summed_modes := upd2 st.summed_modes d i (st.summed_modes d i + (st.proj d * ((z1 j * cos st.phase) + (z2 j * sin st.phase)))) }
      st
  st

private theorem incBodyJ_spec (i j : Nat) (st : summate_incompr.St α) :
    (incBodyJ cov c0 z1 z2 pos dim i j st).e1 = st.e1 ∧
    ∀ d k, (incBodyJ cov c0 z1 z2 pos dim i j st).summed_modes d k =
      if k = i ∧ d < dim then
        st.summed_modes d i + (st.e1 d - cov d j * cov 0 j / absSq cov c0 j) *
          (z1 j * cos (phaseOf cov pos dim j i) + z2 j * sin (phaseOf cov pos dim j i))
      else st.summed_modes d k := by
  unfold incBodyJ
  simp only []
  -- the phase loop
  generalize hs2 : (forRange 0 dim ({ ({ st with k_2 := abs_square (fun i_ => cov i_ j) c0 } : summate_incompr.St α) with phase := ((0:Nat):α) } : summate_incompr.St α)
      fun d (st : summate_incompr.St α) => ({ st with phase := st.phase + cov d j * pos d i } : summate_incompr.St α)) = s2
  have hph : s2.phase = phaseOf cov pos dim j i := by
    rw [← hs2]
    exact forRange_proj (fun (s : summate_incompr.St α) => s.phase) _ (fun d acc => acc + cov d j * pos d i) (by intros; rfl) _ _ _
  have hk2 : s2.k_2 = absSq cov c0 j := by
    rw [← hs2, ← abs_square_spec]
    exact forRange_keep (fun (s : summate_incompr.St α) => s.k_2) _ (by intros; rfl) _ _ _
  have he1 : s2.e1 = st.e1 := by
    rw [← hs2]
    exact forRange_keep (fun (s : summate_incompr.St α) => s.e1) _ (by intros; rfl) _ _ _
  have hsm : s2.summed_modes = st.summed_modes := by
    rw [← hs2]
    exact forRange_keep (fun (s : summate_incompr.St α) => s.summed_modes) _ (by intros; rfl) _ _ _
  constructor
  · rw [← he1]
    exact forRange_keep (fun (s : summate_incompr.St α) => s.e1) _ (by intros; rfl) _ _ _
  · intro d k
    have := foldIdx_owned
      (fun (s : summate_incompr.St α) d => (s.e1, s.k_2, s.phase, fun k => s.summed_modes d k))
      (fun d (v : (Nat → α) × α × α × (Nat → α)) =>
        (v.1, v.2.1, v.2.2.1, upd v.2.2.2 i (v.2.2.2 i + (v.1 d - cov d j * cov 0 j / v.2.1) *
          (z1 j * cos v.2.2.1 + z2 j * sin v.2.2.1))))
      (fun d (st : summate_incompr.St α) =>
        ({ ({ st with proj := upd st.proj d (st.e1 d - ((cov d j * cov (0:Nat) j) / st.k_2)) } : summate_incompr.St α) with
            summed_modes := upd2 st.summed_modes d i (st.summed_modes d i +
              ((upd st.proj d (st.e1 d - ((cov d j * cov (0:Nat) j) / st.k_2))) d * ((z1 j * cos st.phase) + (z2 j * sin st.phase)))) } : summate_incompr.St α))
      ?_ ?_ (idxRange 0 dim) (nodup_idxRange 0 dim) s2 d
    · have h4 := congrArg (fun (v : (Nat → α) × α × α × (Nat → α)) => v.2.2.2 k) this
      simp only [forRange] at *
      rw [h4]
      simp only [mem_idxRange, Nat.zero_le, true_and]
      by_cases hd : d < dim
      · by_cases hk : k = i
        · subst hk; simp [hd, hph, hk2, he1, hsm]
        · simp [hd, hk, hsm, upd_apply]
      · simp [hd, hsm]
    · intro d' s k' hk'
      simp [upd2_apply, hk']
    · intro d' s
      simp only [upd_same]
      refine Prod.ext rfl (Prod.ext rfl (Prod.ext rfl ?_))
      funext k'
      simp only [upd2_apply, upd_apply, true_and]

end incompr

theorem summate_incompr_spec
    (cov : Nat → Nat → α) (c0 c1 : Nat) (z1 : Nat → α) (n1 : Nat) (z2 : Nat → α) (n2 : Nat)
    (pos : Nat → Nat → α) (dim X : Nat) (d i : Nat) :
    summate_incompr cov c0 c1 z1 n1 z2 n2 pos dim X d i =
      if d < dim ∧ i < X then incomprCell cov z1 z2 pos c0 dim c1 d i ((0:Nat):α) else ((0:Nat):α) := by
  unfold summate_incompr
  simp only []
  have key := foldIdx_owned
    (fun (s : summate_incompr.St α) k => (s.e1, fun d => s.summed_modes d k))
    (fun i (v : (Nat → α) × (Nat → α)) =>
      (v.1, fun d => if d < dim then
        forRange 0 c1 (v.2 d) (fun j acc => acc + (v.1 d - cov d j * cov 0 j / absSq cov c0 j) *
          (z1 j * cos (phaseOf cov pos dim j i) + z2 j * sin (phaseOf cov pos dim j i))) else v.2 d))
    (fun i (st : summate_incompr.St α) => forRange 0 c1 st (fun j st => incBodyJ cov c0 z1 z2 pos dim i j st))
    ?_ ?_ (idxRange 0 X) (nodup_idxRange 0 X)
    ({ e1 := upd (fun _ => ((0:Nat):α)) 0 ((1:Nat):α), proj := (fun _ => ((0:Nat):α)),
       summed_modes := (fun _ _ => ((0:Nat):α)), k_2 := ((0:Nat):α), phase := ((0:Nat):α) } : summate_incompr.St α) i
  · have h2 := congrArg (fun (v : (Nat → α) × (Nat → α)) => v.2 d) key
    simp only [] at h2
    unfold incBodyJ at h2
    simp only [forRange] at *
    rw [h2]
    simp only [mem_idxRange, Nat.zero_le, true_and]
    by_cases hi : i < X
    · by_cases hd : d < dim
      · simp only [hi, hd, if_true, and_self]
        unfold incomprCell forRange
        congr 1
      · simp [hi, hd]
    · simp [hi]
  · intro i s k hk
    have : ∀ (l : List Nat) (s : summate_incompr.St α),
        (foldIdx l s (fun j st => incBodyJ cov c0 z1 z2 pos dim i j st)).e1 = s.e1 ∧
        ∀ d, (foldIdx l s (fun j st => incBodyJ cov c0 z1 z2 pos dim i j st)).summed_modes d k = s.summed_modes d k := by
      intro l
      induction l with
      | nil => intro s; simp
      | cons j l ih =>
        intro s
        simp only [foldIdx_cons]
        have h := incBodyJ_spec cov c0 z1 z2 pos dim i j s
        refine ⟨(ih _).1.trans h.1, fun d => ?_⟩
        rw [(ih _).2 d, h.2 d k]
        simp [hk]
    refine Prod.ext (this _ _).1 ?_
    funext d
    exact (this _ _).2 d
  · intro i s
    have : ∀ (l : List Nat) (s : summate_incompr.St α),
        (foldIdx l s (fun j st => incBodyJ cov c0 z1 z2 pos dim i j st)).e1 = s.e1 ∧
        ∀ d, (foldIdx l s (fun j st => incBodyJ cov c0 z1 z2 pos dim i j st)).summed_modes d i =
          if d < dim then
          foldIdx l (s.summed_modes d i) (fun j acc => acc + (s.e1 d - cov d j * cov 0 j / absSq cov c0 j) *
            (z1 j * cos (phaseOf cov pos dim j i) + z2 j * sin (phaseOf cov pos dim j i))) else s.summed_modes d i := by
      intro l
      induction l with
      | nil => intro s; simp
      | cons j l ih =>
        intro s
        simp only [foldIdx_cons]
        have h := incBodyJ_spec cov c0 z1 z2 pos dim i j s
        refine ⟨(ih _).1.trans h.1, fun d => ?_⟩
        rw [(ih _).2 d, h.1, h.2 d i]
        by_cases hd : d < dim <;> simp [hd]
    refine Prod.ext (this _ _).1 ?_
    funext d
    exact (this _ _).2 d

end GSV.Props
