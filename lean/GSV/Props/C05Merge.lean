/-
  C05 (coincident conditioning points WITH measurement errors): repeated measurements at one location act as ONE
  measurement carrying the precision-weighted mean of the values with the error `1 / Σ 1/eᵢ` — kriging estimate AND
  kriging variance, every variant (simple, unbiased, functional drifts, external drifts), any number of coincident
  points, any number of such locations.

  `_get_krige_mat` puts `cond_err` on the DIAGONAL of the covariance block only (`C05.assembleK_diag/_offdiag`), so two
  coincident conditioning points have equal rows / columns except for that diagonal term, equal drift values and
  equal right-hand-side entries.  Route:

  * matrix level (`merge_weights_solve`, `merge_coincident`): `π` maps the points of the full system onto those of
    the reduced one; `K i j = B (π i) (π j) + [i = j] dᵢ`, `K' = B + diag d'`; split weights `λ` with
    `Σ_{π i = a} λᵢ = 1` and `dᵢ λᵢ = d'_{π i}` (for positive errors: `λᵢ = (1/eᵢ) / Σ 1/e`, `d' = 1 / Σ 1/e`;
    for a point that is alone at its location: `λ = 1`, `d' = d`, any sign).  From a solution `w'` of the reduced
    system the split vector `λᵢ · w'_{π i}` solves the full one; by uniqueness it IS `M k`, and estimate and
    variance term follow.  The reduced system is regular whenever the full one is (`merge_reduced_regular`).
  * on the model's arrays (`merge_coincident_weights`, `merge_coincident_with_errors`, `merge_pair_with_errors`)
    and through the model of `Krige.__call__` (`merge_coincident_with_errors_call`).
-/
import GSV.Props.C05Coin
import Mathlib.Algebra.BigOperators.Field
import Mathlib.Tactic.FieldSimp
import Mathlib.Tactic.FinCases
import Mathlib.Tactic.NormNum
import Mathlib.Tactic.IntervalCases
namespace GSV.Props.C05
open GSV GSV.Props GSV.Model.Krige GSV.Krigesum Finset Matrix

set_option linter.unusedSectionVars false
set_option linter.unusedVariables false

/-! ## matrix level -/
section mergeMat
variable {ι κ : Type*} [Fintype ι] [Fintype κ] [DecidableEq ι] [DecidableEq κ]

/-- a weighted sum over all points, grouped by location -/
theorem sum_fiberwise_weights (π : ι → κ) (lam : ι → ℝ) (g : κ → ℝ) :
    ∑ j, lam j * g (π j) = ∑ b, g b * ∑ j, (if π j = b then lam j else 0) := by
  have h : ∀ b, g b * ∑ j, (if π j = b then lam j else 0) = ∑ j, (if π j = b then lam j * g b else 0) := by
    intro b
    rw [Finset.mul_sum]
    apply Finset.sum_congr rfl
    intro j _
    split <;> ring
  simp only [h]
  rw [Finset.sum_comm]
  apply Finset.sum_congr rfl
  intro j _
  rw [Finset.sum_ite_eq]
  simp

/-- **splitting a solution of the reduced system**: with `K i j = B (π i) (π j) + [i = j] dᵢ` (coincident points:
    equal rows and columns of covariances and drifts, the error on the diagonal only), `K' = B + diag d'`, and split
    weights `λ` (`Σ_{π i = a} λᵢ = 1`, `dᵢ λᵢ = d'_{π i}`), the vector `λᵢ · w'_{π i}` is mapped by `K` to
    `(K' w')_{π i}` -/
theorem merge_weights_solve (π : ι → κ) (B : Matrix κ κ ℝ) (d lam : ι → ℝ) (d' : κ → ℝ)
    (K : Matrix ι ι ℝ) (K' : Matrix κ κ ℝ)
    (hK : ∀ i j, K i j = B (π i) (π j) + if i = j then d i else 0)
    (hK' : ∀ a b, K' a b = B a b + if a = b then d' a else 0)
    (hlam : ∀ a, ∑ i, (if π i = a then lam i else 0) = 1)
    (hd : ∀ i, d i * lam i = d' (π i)) (w' : κ → ℝ) :
    K *ᵥ (fun i => lam i * w' (π i)) = fun i => (K' *ᵥ w') (π i) := by
  funext i
  simp only [mulVec, dotProduct, hK, hK']
  have h1 : ∀ j, (B (π i) (π j) + if i = j then d i else 0) * (lam j * w' (π j)) =
      lam j * (B (π i) (π j) * w' (π j)) + (if i = j then d i * lam j * w' (π j) else 0) := by
    intro j; split <;> ring
  have h2 : ∀ b, (B (π i) b + if π i = b then d' (π i) else 0) * w' b =
      B (π i) b * w' b + (if π i = b then d' (π i) * w' b else 0) := by
    intro b; split <;> ring
  simp only [h1, h2, Finset.sum_add_distrib, Finset.sum_ite_eq, Finset.mem_univ, if_true]
  rw [sum_fiberwise_weights π lam (fun b => B (π i) b * w' b)]
  simp only [hlam, mul_one, hd]

/-- **the reduced system is regular whenever the full one is** -/
theorem merge_reduced_regular (π : ι → κ) (B : Matrix κ κ ℝ) (d lam : ι → ℝ) (d' : κ → ℝ)
    (K : Matrix ι ι ℝ) (K' : Matrix κ κ ℝ)
    (hK : ∀ i j, K i j = B (π i) (π j) + if i = j then d i else 0)
    (hK' : ∀ a b, K' a b = B a b + if a = b then d' a else 0)
    (hlam : ∀ a, ∑ i, (if π i = a then lam i else 0) = 1)
    (hd : ∀ i, d i * lam i = d' (π i)) (M : Matrix ι ι ℝ) (hMK : M * K = 1) :
    ∃ M' : Matrix κ κ ℝ, M' * K' = 1 := by
  have hinj : Function.Injective K'.mulVec := by
    intro u v huv
    have h0 : K' *ᵥ (u - v) = 0 := by rw [mulVec_sub, huv, sub_self]
    have h1 := merge_weights_solve π B d lam d' K K' hK hK' hlam hd (u - v)
    rw [h0] at h1
    have h2 : (fun i => lam i * (u - v) (π i)) = 0 := by
      have := congrArg (fun x => M *ᵥ x) h1
      simp only [mulVec_mulVec, hMK, one_mulVec] at this
      rw [this]
      funext i; simp [mulVec, dotProduct]
    have h3 : ∀ a, (u - v) a = 0 := by
      intro a
      have := sum_fiberwise_weights π lam (fun b => if b = a then (u - v) b else 0)
      simp only [hlam, mul_one, Finset.sum_ite_eq', Finset.mem_univ, if_true] at this
      rw [← this]
      apply Finset.sum_eq_zero
      intro j _
      have hj := congrFun h2 j
      simp only [Pi.zero_apply] at hj
      split
      · exact hj
      · simp
    funext a
    have := h3 a
    simp only [Pi.sub_apply] at this
    linarith
  have hU : IsUnit K' := Matrix.mulVec_injective_iff_isUnit.mp hinj
  have hdet : IsUnit K'.det := (Matrix.isUnit_iff_isUnit_det _).mp hU
  exact ⟨K'⁻¹, Matrix.nonsing_inv_mul _ hdet⟩

/-- **coincident points with errors, matrix form.**  `M` inverts the full matrix, `M'` the reduced one, a target
    sees `k i = k' (π i)`.  Then the weights of the full system are the split weights of the reduced one, the
    estimate is that of the reduced system with the `λ`-weighted means of the data, and the variance term is that
    of the reduced system. -/
theorem merge_coincident (π : ι → κ) (B : Matrix κ κ ℝ) (d lam : ι → ℝ) (d' : κ → ℝ)
    (K : Matrix ι ι ℝ) (K' : Matrix κ κ ℝ)
    (hK : ∀ i j, K i j = B (π i) (π j) + if i = j then d i else 0)
    (hK' : ∀ a b, K' a b = B a b + if a = b then d' a else 0)
    (hlam : ∀ a, ∑ i, (if π i = a then lam i else 0) = 1)
    (hd : ∀ i, d i * lam i = d' (π i))
    (M : Matrix ι ι ℝ) (M' : Matrix κ κ ℝ) (hMK : M * K = 1) (hM'K' : M' * K' = 1)
    (z k : ι → ℝ) (k' : κ → ℝ) (hk : ∀ i, k i = k' (π i)) :
    M *ᵥ k = (fun i => lam i * (M' *ᵥ k') (π i)) ∧
    z ⬝ᵥ (M *ᵥ k) = (fun a => ∑ i, (if π i = a then lam i * z i else 0)) ⬝ᵥ (M' *ᵥ k') ∧
    k ⬝ᵥ (M *ᵥ k) = k' ⬝ᵥ (M' *ᵥ k') := by
  have hK'M' : K' * M' = 1 := mul_eq_one_comm.mp hM'K'
  have hsolve := merge_weights_solve π B d lam d' K K' hK hK' hlam hd (M' *ᵥ k')
  rw [mulVec_mulVec, hK'M', one_mulVec] at hsolve
  have hkk : k = fun i => k' (π i) := funext hk
  have hw : M *ᵥ k = fun i => lam i * (M' *ᵥ k') (π i) := by
    rw [hkk, ← hsolve, mulVec_mulVec, hMK, one_mulVec]
  refine ⟨hw, ?_, ?_⟩
  · rw [hw]
    simp only [dotProduct]
    have h1 : ∀ a, (∑ i, (if π i = a then lam i * z i else 0)) * (M' *ᵥ k') a =
        (M' *ᵥ k') a * ∑ i, (if π i = a then lam i * z i else 0) := fun a => mul_comm _ _
    simp only [h1]
    rw [← sum_fiberwise_weights π (fun i => lam i * z i) (M' *ᵥ k')]
    apply Finset.sum_congr rfl
    intro i _; ring
  · rw [hw, hkk]
    simp only [dotProduct]
    have := sum_fiberwise_weights π lam (fun b => k' b * (M' *ᵥ k') b)
    simp only [hlam, mul_one] at this
    rw [← this]
    apply Finset.sum_congr rfl
    intro i _; ring

/-- the matrix-level hypotheses are satisfiable by a genuinely repeated station: three points, the first two
    coincident (`π = 0,0,1`), covariances `1` at lag 0 and `1/2` between the two locations, errors `1/2`, `1/4` on the
    repeated station and NONE on the other point; split weights `1/3`, `2/3`, merged error `1/6`; both systems are
    regular; the merged value of the data `1`, `4` is `3` — neither of them, nor their plain mean `5/2` -/
example : ∃ (π : Fin 3 → Fin 2) (B : Matrix (Fin 2) (Fin 2) ℝ) (d lam : Fin 3 → ℝ) (d' : Fin 2 → ℝ)
    (K M : Matrix (Fin 3) (Fin 3) ℝ) (K' M' : Matrix (Fin 2) (Fin 2) ℝ) (z : Fin 3 → ℝ),
    Function.Surjective π ∧ ¬ Function.Injective π ∧
    (∀ i j, K i j = B (π i) (π j) + if i = j then d i else 0) ∧
    (∀ a b, K' a b = B a b + if a = b then d' a else 0) ∧
    (∀ a, ∑ i, (if π i = a then lam i else 0) = 1) ∧ (∀ i, d i * lam i = d' (π i)) ∧
    M * K = 1 ∧ M' * K' = 1 ∧ d 0 = 1/2 ∧ d 1 = 1/4 ∧ d' 0 = 1 / (1 / (1/2) + 1 / (1/4)) ∧
    z 0 = 1 ∧ z 1 = 4 ∧ (∑ i, (if π i = 0 then lam i * z i else 0)) = 3 := by
  refine ⟨![0, 0, 1], !![1, 1/2; 1/2, 1], ![1/2, 1/4, 0], ![1/3, 2/3, 1], ![1/6, 0],
    !![3/2, 1, 1/2; 1, 5/4, 1/2; 1/2, 1/2, 1], !![16/11, -12/11, -2/11; -12/11, 20/11, -4/11; -2/11, -4/11, 14/11],
    !![7/6, 1/2; 1/2, 1], !![12/11, -6/11; -6/11, 14/11], ![1, 4, 7], ?_, ?_, ?_, ?_, ?_, ?_, ?_, ?_, ?_⟩
  · intro a; fin_cases a
    · exact ⟨0, rfl⟩
    · exact ⟨2, rfl⟩
  · intro h; exact absurd (h (a₁ := 0) (a₂ := 1) rfl) (by decide)
  · intro i j; fin_cases i <;> fin_cases j <;> norm_num
  · intro a b; fin_cases a <;> fin_cases b <;> norm_num
  · intro a; fin_cases a <;> (simp [Fin.sum_univ_three]; try norm_num)
  · intro i; fin_cases i <;> norm_num
  · ext i j; fin_cases i <;> fin_cases j <;> simp [Matrix.mul_apply, Fin.sum_univ_three] <;> norm_num
  · ext i j; fin_cases i <;> fin_cases j <;> simp [Matrix.mul_apply, Fin.sum_univ_two] <;> norm_num
  · refine ⟨by simp, by simp, by norm_num, by simp, by simp, ?_⟩
    simp [Fin.sum_univ_three]; norm_num

end mergeMat

/-! ## on the kriging model's arrays (every variant) -/

/-- the layout of the reduced system: `m` conditioning points, the same unbiasedness / drift rows -/
def reLayout (L : Layout) (m : Nat) : Layout := ⟨m, L.unb, L.nf, L.ne⟩

/-- rows of the full system ↦ rows of the reduced one: conditioning points by `π`, border rows keep their offset -/
def mergeIdx (n m : Nat) (π : Nat → Nat) (i : Nat) : Nat := if i < n then π i else i - n + m

theorem reLayout_size (L : Layout) (m : Nat) : (reLayout L m).size + L.n = L.size + m := by
  obtain ⟨n, unb, nf, ne⟩ := L
  cases unb <;> simp [reLayout, Layout.size, Layout.u] <;> omega

theorem layout_n_le_size (L : Layout) : L.n ≤ L.size := by
  unfold Layout.size; omega

theorem mergeIdx_lt (L : Layout) (m : Nat) (π : Nat → Nat) (hπ : ∀ i, i < L.n → π i < m) (i : Nat) (hi : i < L.size) :
    mergeIdx L.n m π i < (reLayout L m).size := by
  have hs := reLayout_size L m
  have hn := layout_n_le_size L
  unfold mergeIdx
  split
  · rename_i h
    have := hπ i h
    omega
  · omega

/-- a border entry (unbiasedness row, functional drift, external drift) of the full system is the border entry of the
    reduced one: drift values at coincident points are equal -/
theorem border_merge (L : Layout) (m : Nat) (π : Nat → Nat)
    (F E F' E' : Nat → Nat → ℝ)
    (hF : ∀ r i, i < L.n → F r i = F' r (π i)) (hE : ∀ r i, i < L.n → E r i = E' r (π i))
    (r c : Nat) (hr : L.n ≤ r) (hc : c < L.n) :
    border L F E r c = border (reLayout L m) F' E' (r - L.n + m) (π c) := by
  obtain ⟨n, unb, nf, ne⟩ := L
  simp only at hr hc hF hE
  obtain ⟨k, rfl⟩ := Nat.exists_eq_add_of_le hr
  cases unb <;>
    simp only [border, reLayout, Layout.fStart, Layout.eStart, Layout.size, Layout.u, hF _ c hc, hE _ c hc,
      Bool.false_eq_true, false_and, if_false, true_and, if_true] <;>
    split_ifs <;> first | rfl | omega | (congr 1; omega)

/-- entries of the full matrix through the reduced covariance / drift arrays: the error sits on the diagonal only -/
theorem assembleK_merge (L : Layout) (m : Nat) (π : Nat → Nat) (hπ : ∀ i, i < L.n → π i < m)
    (C C' : Nat → Nat → ℝ) (err : Nat → ℝ) (F E F' E' : Nat → Nat → ℝ)
    (hC : ∀ i j, i < L.n → j < L.n → C i j = C' (π i) (π j))
    (hF : ∀ r i, i < L.n → F r i = F' r (π i)) (hE : ∀ r i, i < L.n → E r i = E' r (π i))
    (i j : Nat) :
    assembleK L C err F E i j =
      assembleK (reLayout L m) C' (fun _ => 0) F' E' (mergeIdx L.n m π i) (mergeIdx L.n m π j) +
        if i = j then (if i < L.n then err i else 0) else 0 := by
  have hn' : (reLayout L m).n = m := rfl
  by_cases h1 : i < L.n <;> by_cases h2 : j < L.n
  · have p1 := hπ i h1
    have p2 := hπ j h2
    by_cases hij : i = j
    · subst hij
      simp [assembleK, mergeIdx, hn', h1, p1, hC i i h1 h1]
    · by_cases hp : π i = π j
      · simp [assembleK, mergeIdx, hn', h1, h2, p2, hij, hp, hC i j h1 h2]
      · simp [assembleK, mergeIdx, hn', h1, h2, p1, p2, hij, hp, hC i j h1 h2]
  · have p1 := hπ i h1
    have hij : i ≠ j := by omega
    have h3 : L.n ≤ j := by omega
    have h4 : ¬ L.n ≤ i := by omega
    have h5 : ¬ m ≤ π i := by omega
    have h6 : ¬ j - L.n + m < m := by omega
    have h7 : m ≤ j - L.n + m := by omega
    simp [assembleK, mergeIdx, hn', h1, h2, h3, h4, h5, h6, h7, p1, hij, border_merge L m π F E F' E' hF hE j i h3 h1]
  · have p2 := hπ j h2
    have hij : i ≠ j := by omega
    have h3 : L.n ≤ i := by omega
    have h4 : ¬ L.n ≤ j := by omega
    have h5 : ¬ m ≤ π j := by omega
    have h6 : ¬ i - L.n + m < m := by omega
    have h7 : m ≤ i - L.n + m := by omega
    simp [assembleK, mergeIdx, hn', h1, h2, h3, h4, h5, h6, h7, p2, hij, border_merge L m π F E F' E' hF hE i j h3 h2]
  · have h3 : L.n ≤ i := by omega
    have h4 : L.n ≤ j := by omega
    have h6 : ¬ i - L.n + m < m := by omega
    have h7 : m ≤ i - L.n + m := by omega
    have h8 : ¬ j - L.n + m < m := by omega
    have h9 : m ≤ j - L.n + m := by omega
    simp [assembleK, mergeIdx, hn', h1, h2, h3, h4, h6, h7, h8, h9]

/-- the reduced matrix: its error-free part plus the merged errors on the diagonal of the data block -/
theorem assembleK_errfree (L : Layout) (C : Nat → Nat → ℝ) (err : Nat → ℝ) (F E : Nat → Nat → ℝ) (a b : Nat) :
    assembleK L C err F E a b =
      assembleK L C (fun _ => 0) F E a b + if a = b then (if a < L.n then err a else 0) else 0 := by
  by_cases h1 : a < L.n <;> by_cases h2 : b < L.n <;> by_cases hab : a = b
  all_goals first
    | (subst hab; simp [assembleK, h1])
    | simp [assembleK, h1, h2, hab]

/-- right-hand-side entries of the full system are those of the reduced one -/
theorem assembleRHS_merge (L : Layout) (m : Nat) (π : Nat → Nat) (om : Bool) (c c' f e f' e' : Nat → Nat → ℝ)
    (p p' : Nat) (hc : ∀ i, i < L.n → c i p = c' (π i) p') (hπ : ∀ i, i < L.n → π i < m)
    (hf : ∀ r, f r p = f' r p') (he : ∀ r, e r p = e' r p') (i : Nat) :
    assembleRHS L om c f e i p = assembleRHS (reLayout L m) om c' f' e' (mergeIdx L.n m π i) p' := by
  obtain ⟨n, unb, nf, ne⟩ := L
  simp only at hc hπ
  by_cases h : i < n
  · have := hπ i h
    simp [assembleRHS, reLayout, mergeIdx, h, this, hc i h]
  · obtain ⟨k, rfl⟩ := Nat.exists_eq_add_of_le (Nat.le_of_not_lt h)
    have h2 : ¬ n + k - n + m < m := by omega
    cases unb <;>
      simp only [assembleRHS, reLayout, mergeIdx, Layout.fStart, Layout.eStart, Layout.size, Layout.u, h, h2, hf, he,
        Bool.false_eq_true, false_and, if_false, true_and, if_true] <;>
      split_ifs <;> first | rfl | omega | (congr 1; omega)

/-- sums over all rows of the full system, grouped by the row of the reduced system they are mapped to -/
theorem sum_mergeIdx (L : Layout) (m : Nat) (π : Nat → Nat) (hπ : ∀ i, i < L.n → π i < m) (G : Nat → ℝ)
    (a : Nat) (ha : a < (reLayout L m).size) :
    ∑ i ∈ range L.size, (if mergeIdx L.n m π i = a then G i else 0) =
      if a < m then ∑ i ∈ (range L.n).filter (fun i => π i = a), G i else G (a - m + L.n) := by
  have hs := reLayout_size L m
  have hn := layout_n_le_size L
  by_cases ha' : a < m
  · rw [if_pos ha', Finset.sum_filter]
    rw [← Finset.sum_subset (Finset.range_subset_range.mpr hn)]
    · apply Finset.sum_congr rfl
      intro i hi
      simp [mergeIdx, Finset.mem_range.mp hi]
    · intro i hi hni
      have h1 : ¬ i < L.n := by simpa using hni
      have h2 : i - L.n + m ≠ a := by omega
      simp [mergeIdx, h1, h2]
  · rw [if_neg ha']
    rw [Finset.sum_eq_single_of_mem (a - m + L.n) (Finset.mem_range.mpr (by omega))]
    · have h1 : ¬ a - m + L.n < L.n := by omega
      have h2 : a - m + m = a := by omega
      simp [mergeIdx, h1, h2]
    · intro i hi hne
      have : mergeIdx L.n m π i ≠ a := by
        unfold mergeIdx
        split
        · rename_i h
          have := hπ i h
          omega
        · omega
      simp [this]

/-- **coincident conditioning points with measurement errors, on the model's arrays, every variant, general
    split weights.**  `L` is any layout (simple / unbiased / functional drifts / external drifts), `π` sends its
    `L.n` conditioning points to the `m` points of the reduced system (`reLayout L m`: same border rows).
    Hypotheses: covariances and drift values depend on the location only (`hC`, `hF`, `hE`: coincident points have
    equal rows / columns — the measurement error is NOT part of `C`, the model puts it on the diagonal); split weights
    `lam` with `Σ_{π i = a} lamᵢ = 1` for every reduced point (so every reduced point has at least one preimage) and
    `errᵢ · lamᵢ = err'_{π i}`; a target sees equal right-hand-side entries (`hc`, `hf`, `he`); `M`, `M'` invert the
    two assembled matrices; the reduced system carries the `lam`-weighted means of the prepared data.  Then the kernel's
    estimate and variance term at the target are those of the reduced system. -/
theorem merge_coincident_weights (L : Layout) (m : Nat) (π : Nat → Nat) (hπ : ∀ i, i < L.n → π i < m)
    (C C' : Nat → Nat → ℝ) (err err' lam : Nat → ℝ) (F E F' E' : Nat → Nat → ℝ)
    (hC : ∀ i j, i < L.n → j < L.n → C i j = C' (π i) (π j))
    (hF : ∀ r i, i < L.n → F r i = F' r (π i)) (hE : ∀ r i, i < L.n → E r i = E' r (π i))
    (hlam : ∀ a, a < m → ∑ i ∈ (range L.n).filter (fun i => π i = a), lam i = 1)
    (hd : ∀ i, i < L.n → err i * lam i = err' (π i))
    (om : Bool) (c c' f e f' e' : Nat → Nat → ℝ) (p p' : Nat)
    (hc : ∀ i, i < L.n → c i p = c' (π i) p') (hf : ∀ r, f r p = f' r p') (he : ∀ r, e r p = e' r p')
    (M M' : Nat → Nat → ℝ)
    (hM : toMat L.size M * toMat L.size (assembleK L C err F E) = 1)
    (hM' : toMat (reLayout L m).size M' * toMat (reLayout L m).size (assembleK (reLayout L m) C' err' F' E') = 1)
    (valn mean valn' mean' : Nat → ℝ)
    (hmean : ∀ a, a < m → valn' a - mean' a =
      ∑ i ∈ (range L.n).filter (fun i => π i = a), lam i * (valn i - mean i)) :
    krigeFieldCell M (assembleRHS L om c f e) (krigeCond L valn mean) L.size p ((0:Nat):ℝ) =
      krigeFieldCell M' (assembleRHS (reLayout L m) om c' f' e') (krigeCond (reLayout L m) valn' mean')
        (reLayout L m).size p' ((0:Nat):ℝ) ∧
    krigeErrCell M (assembleRHS L om c f e) L.size p ((0:Nat):ℝ) =
      krigeErrCell M' (assembleRHS (reLayout L m) om c' f' e') (reLayout L m).size p' ((0:Nat):ℝ) := by
  rw [field_eq_bilinear, field_eq_bilinear, err_eq_quadratic, err_eq_quadratic]
  have hn' : (reLayout L m).n = m := rfl
  let π' : Fin L.size → Fin (reLayout L m).size := fun i => ⟨mergeIdx L.n m π i, mergeIdx_lt L m π hπ i i.2⟩
  let lamx : Nat → ℝ := fun i => if i < L.n then lam i else 1
  have key : ∀ (G : Nat → ℝ) (a : Fin (reLayout L m).size), ∑ i : Fin L.size, (if π' i = a then G i else 0) =
      if (a : Nat) < m then ∑ i ∈ (range L.n).filter (fun i => π i = a), G i else G (a - m + L.n) := by
    intro G a
    rw [← sum_mergeIdx L m π hπ G a a.2, Finset.sum_range]
    apply Finset.sum_congr rfl
    intro i _
    simp only [π', Fin.ext_iff]
  have hK : ∀ i j : Fin L.size, toMat L.size (assembleK L C err F E) i j =
      toMat (reLayout L m).size (assembleK (reLayout L m) C' (fun _ => 0) F' E') (π' i) (π' j) +
        if i = j then (if (i : Nat) < L.n then err i else 0) else 0 := by
    intro i j
    simp only [toMat, π', Fin.ext_iff]
    exact assembleK_merge L m π hπ C C' err F E F' E' hC hF hE i j
  have hK' : ∀ a b : Fin (reLayout L m).size, toMat (reLayout L m).size (assembleK (reLayout L m) C' err' F' E') a b =
      toMat (reLayout L m).size (assembleK (reLayout L m) C' (fun _ => 0) F' E') a b +
        if a = b then (if (a : Nat) < m then err' a else 0) else 0 := by
    intro a b
    simp only [toMat, Fin.ext_iff]
    exact assembleK_errfree (reLayout L m) C' err' F' E' a b
  have hlamx : ∀ a : Fin (reLayout L m).size, ∑ i : Fin L.size, (if π' i = a then lamx i else 0) = 1 := by
    intro a
    rw [key lamx a]
    by_cases ha : (a : Nat) < m
    · rw [if_pos ha, ← hlam a ha]
      apply Finset.sum_congr rfl
      intro i hi
      have : i < L.n := Finset.mem_range.mp (Finset.mem_filter.mp hi).1
      simp [lamx, this]
    · rw [if_neg ha]
      have : ¬ (a : Nat) - m + L.n < L.n := by omega
      simp [lamx, this]
  have hdx : ∀ i : Fin L.size, (if (i : Nat) < L.n then err i else 0) * lamx i =
      (fun a : Fin (reLayout L m).size => if (a : Nat) < m then err' a else 0) (π' i) := by
    intro i
    by_cases h : (i : Nat) < L.n
    · have := hπ i h
      simp [lamx, π', mergeIdx, h, this, hd i h]
    · have h2 : ¬ (i : Nat) - L.n + m < m := by omega
      simp [lamx, π', mergeIdx, h, h2]
  have hkx : ∀ i : Fin L.size, col L.size (assembleRHS L om c f e) p i =
      col (reLayout L m).size (assembleRHS (reLayout L m) om c' f' e') p' (π' i) := by
    intro i
    exact assembleRHS_merge L m π om c c' f e f' e' p p' hc hπ hf he i
  have := merge_coincident π' _ _ (fun i : Fin L.size => lamx i) _ _ _ hK hK' hlamx hdx (toMat L.size M)
    (toMat (reLayout L m).size M') hM hM' (toVec L.size (krigeCond L valn mean)) (col L.size (assembleRHS L om c f e) p)
    (col (reLayout L m).size (assembleRHS (reLayout L m) om c' f' e') p') hkx
  refine ⟨this.2.1.trans ?_, this.2.2⟩
  congr 1
  funext a
  simp only [toVec]
  rw [key (fun i => lamx i * krigeCond L valn mean i) a]
  by_cases ha : (a : Nat) < m
  · rw [if_pos ha]
    simp only [krigeCond, hn', ha, if_true]
    rw [hmean a ha]
    apply Finset.sum_congr rfl
    intro i hi
    have : i < L.n := Finset.mem_range.mp (Finset.mem_filter.mp hi).1
    simp [lamx, this]
  · rw [if_neg ha]
    have : ¬ (a : Nat) - m + L.n < L.n := by omega
    simp [krigeCond, hn', ha, this]

/-- **`merge_coincident_with_errors`** — repeated measurements with POSITIVE measurement errors act as ONE
    measurement: any layout (every kriging variant), any number of conditioning points, any number of repeated
    locations, any multiplicities.  `π` sends the `L.n` conditioning points ONTO the `m` distinct locations; the reduced
    system (`reLayout L m`) carries at location `a` the error `1 / Σ_{π i = a} 1/errᵢ` and the precision-weighted mean
    `(Σ_{π i = a} vᵢ/errᵢ) / (Σ_{π i = a} 1/errᵢ)` of the prepared data `vᵢ = valnᵢ − meanᵢ`.  `M`, `M'` invert the two
    assembled matrices (what `scipy.linalg.inv` returns; the reduced one is regular as soon as the full one is:
    `merge_reduced_regular`).  Then estimate and variance term at every target are those of the reduced system. -/
theorem merge_coincident_with_errors (L : Layout) (m : Nat) (π : Nat → Nat) (hπ : ∀ i, i < L.n → π i < m)
    (hsurj : ∀ a, a < m → ∃ i, i < L.n ∧ π i = a)
    (C C' : Nat → Nat → ℝ) (err err' : Nat → ℝ) (F E F' E' : Nat → Nat → ℝ)
    (hC : ∀ i j, i < L.n → j < L.n → C i j = C' (π i) (π j))
    (hF : ∀ r i, i < L.n → F r i = F' r (π i)) (hE : ∀ r i, i < L.n → E r i = E' r (π i))
    (herr : ∀ i, i < L.n → 0 < err i)
    (herr' : ∀ a, a < m → err' a = 1 / ∑ i ∈ (range L.n).filter (fun i => π i = a), 1 / err i)
    (om : Bool) (c c' f e f' e' : Nat → Nat → ℝ) (p p' : Nat)
    (hc : ∀ i, i < L.n → c i p = c' (π i) p') (hf : ∀ r, f r p = f' r p') (he : ∀ r, e r p = e' r p')
    (M M' : Nat → Nat → ℝ)
    (hM : toMat L.size M * toMat L.size (assembleK L C err F E) = 1)
    (hM' : toMat (reLayout L m).size M' * toMat (reLayout L m).size (assembleK (reLayout L m) C' err' F' E') = 1)
    (valn mean valn' mean' : Nat → ℝ)
    (hmean : ∀ a, a < m → valn' a - mean' a =
      (∑ i ∈ (range L.n).filter (fun i => π i = a), (valn i - mean i) / err i) /
        (∑ i ∈ (range L.n).filter (fun i => π i = a), 1 / err i)) :
    krigeFieldCell M (assembleRHS L om c f e) (krigeCond L valn mean) L.size p ((0:Nat):ℝ) =
      krigeFieldCell M' (assembleRHS (reLayout L m) om c' f' e') (krigeCond (reLayout L m) valn' mean')
        (reLayout L m).size p' ((0:Nat):ℝ) ∧
    krigeErrCell M (assembleRHS L om c f e) L.size p ((0:Nat):ℝ) =
      krigeErrCell M' (assembleRHS (reLayout L m) om c' f' e') (reLayout L m).size p' ((0:Nat):ℝ) := by
  let S : Nat → ℝ := fun a => ∑ i ∈ (range L.n).filter (fun i => π i = a), 1 / err i
  have hS : ∀ a, a < m → 0 < S a := by
    intro a ha
    obtain ⟨i, hi, hia⟩ := hsurj a ha
    apply Finset.sum_pos
    · intro j hj
      have : j < L.n := Finset.mem_range.mp (Finset.mem_filter.mp hj).1
      exact one_div_pos.mpr (herr j this)
    · exact ⟨i, Finset.mem_filter.mpr ⟨Finset.mem_range.mpr hi, hia⟩⟩
  refine merge_coincident_weights L m π hπ C C' err err' (fun i => (1 / err i) / S (π i)) F E F' E' hC hF hE
    ?_ ?_ om c c' f e f' e' p p' hc hf he M M' hM hM' valn mean valn' mean' ?_
  · intro a ha
    have h1 : ∑ i ∈ (range L.n).filter (fun i => π i = a), (1 / err i) / S (π i) =
        ∑ i ∈ (range L.n).filter (fun i => π i = a), (1 / err i) / S a := by
      apply Finset.sum_congr rfl
      intro i hi
      rw [(Finset.mem_filter.mp hi).2]
    rw [h1, ← Finset.sum_div]
    exact div_self (hS a ha).ne'
  · intro i hi
    have h1 := (herr i hi).ne'
    have h2 := (hS (π i) (hπ i hi)).ne'
    rw [herr' (π i) (hπ i hi)]
    show err i * (1 / err i / S (π i)) = 1 / S (π i)
    field_simp
  · intro a ha
    rw [hmean a ha, Finset.sum_div]
    apply Finset.sum_congr rfl
    intro i hi
    rw [(Finset.mem_filter.mp hi).2]
    show (valn i - mean i) / err i / S a = 1 / err i / S a * (valn i - mean i)
    ring

/-- the same through the model of `Krige.__call__` (chunk loop, generated kernel, variance clipping): the call on the
    repeated measurements returns, at every target, the field AND the clipped variance of the call on the merged
    measurements — for any chunk sizes and any admissible schedules on either side -/
theorem merge_coincident_with_errors_call (s₁ s₂ : Sched) (h₁ : s₁.Admissible) (h₂ : s₂.Admissible)
    (L : Layout) (m : Nat) (π : Nat → Nat) (hπ : ∀ i, i < L.n → π i < m)
    (hsurj : ∀ a, a < m → ∃ i, i < L.n ∧ π i = a)
    (C C' : Nat → Nat → ℝ) (err err' : Nat → ℝ) (F E F' E' : Nat → Nat → ℝ)
    (hC : ∀ i j, i < L.n → j < L.n → C i j = C' (π i) (π j))
    (hF : ∀ r i, i < L.n → F r i = F' r (π i)) (hE : ∀ r i, i < L.n → E r i = E' r (π i))
    (herr : ∀ i, i < L.n → 0 < err i)
    (herr' : ∀ a, a < m → err' a = 1 / ∑ i ∈ (range L.n).filter (fun i => π i = a), 1 / err i)
    (om : Bool) (c c' f e f' e' : Nat → Nat → ℝ) (pnt cs₁ cs₂ p : Nat) (hcs₁ : 0 < cs₁) (hcs₂ : 0 < cs₂) (hp : p < pnt)
    (hc : ∀ i, i < L.n → c i p = c' (π i) p) (hf : ∀ r, f r p = f' r p) (he : ∀ r, e r p = e' r p)
    (M M' : Nat → Nat → ℝ)
    (hM : toMat L.size M * toMat L.size (assembleK L C err F E) = 1)
    (hM' : toMat (reLayout L m).size M' * toMat (reLayout L m).size (assembleK (reLayout L m) C' err' F' E') = 1)
    (valn mean valn' mean' : Nat → ℝ) (sill : ℝ)
    (hmean : ∀ a, a < m → valn' a - mean' a =
      (∑ i ∈ (range L.n).filter (fun i => π i = a), (valn i - mean i) / err i) /
        (∑ i ∈ (range L.n).filter (fun i => π i = a), 1 / err i)) :
    (krigeCall s₁ L M (assembleRHS L om c f e) (krigeCond L valn mean) sill pnt cs₁).1 p =
      (krigeCall s₂ (reLayout L m) M' (assembleRHS (reLayout L m) om c' f' e') (krigeCond (reLayout L m) valn' mean')
        sill pnt cs₂).1 p ∧
    (krigeCall s₁ L M (assembleRHS L om c f e) (krigeCond L valn mean) sill pnt cs₁).2 p =
      (krigeCall s₂ (reLayout L m) M' (assembleRHS (reLayout L m) om c' f' e') (krigeCond (reLayout L m) valn' mean')
        sill pnt cs₂).2 p := by
  have h := merge_coincident_with_errors L m π hπ hsurj C C' err err' F E F' E' hC hF hE herr herr' om c c' f e f' e' p p
    hc hf he M M' hM hM' valn mean valn' mean' hmean
  rw [krigeCall_field s₁ h₁ _ _ _ _ _ _ _ _ hcs₁ hp, krigeCall_field s₂ h₂ _ _ _ _ _ _ _ _ hcs₂ hp,
      krigeCall_var s₁ h₁ _ _ _ _ _ _ _ _ hcs₁ hp, krigeCall_var s₂ h₂ _ _ _ _ _ _ _ _ hcs₂ hp, h.1, h.2]
  exact ⟨rfl, rfl⟩

/-- the reduced system of the model is regular whenever the full one is (general split weights) -/
theorem merge_reduced_regular_model (L : Layout) (m : Nat) (π : Nat → Nat) (hπ : ∀ i, i < L.n → π i < m)
    (C C' : Nat → Nat → ℝ) (err err' lam : Nat → ℝ) (F E F' E' : Nat → Nat → ℝ)
    (hC : ∀ i j, i < L.n → j < L.n → C i j = C' (π i) (π j))
    (hF : ∀ r i, i < L.n → F r i = F' r (π i)) (hE : ∀ r i, i < L.n → E r i = E' r (π i))
    (hlam : ∀ a, a < m → ∑ i ∈ (range L.n).filter (fun i => π i = a), lam i = 1)
    (hd : ∀ i, i < L.n → err i * lam i = err' (π i))
    (M : Nat → Nat → ℝ) (hM : toMat L.size M * toMat L.size (assembleK L C err F E) = 1) :
    ∃ M' : Matrix (Fin (reLayout L m).size) (Fin (reLayout L m).size) ℝ,
      M' * toMat (reLayout L m).size (assembleK (reLayout L m) C' err' F' E') = 1 := by
  let π' : Fin L.size → Fin (reLayout L m).size := fun i => ⟨mergeIdx L.n m π i, mergeIdx_lt L m π hπ i i.2⟩
  let lamx : Nat → ℝ := fun i => if i < L.n then lam i else 1
  have key : ∀ (G : Nat → ℝ) (a : Fin (reLayout L m).size), ∑ i : Fin L.size, (if π' i = a then G i else 0) =
      if (a : Nat) < m then ∑ i ∈ (range L.n).filter (fun i => π i = a), G i else G (a - m + L.n) := by
    intro G a
    rw [← sum_mergeIdx L m π hπ G a a.2, Finset.sum_range]
    apply Finset.sum_congr rfl
    intro i _
    simp only [π', Fin.ext_iff]
  have hK : ∀ i j : Fin L.size, toMat L.size (assembleK L C err F E) i j =
      toMat (reLayout L m).size (assembleK (reLayout L m) C' (fun _ => 0) F' E') (π' i) (π' j) +
        if i = j then (if (i : Nat) < L.n then err i else 0) else 0 := by
    intro i j
    simp only [toMat, π', Fin.ext_iff]
    exact assembleK_merge L m π hπ C C' err F E F' E' hC hF hE i j
  have hK' : ∀ a b : Fin (reLayout L m).size, toMat (reLayout L m).size (assembleK (reLayout L m) C' err' F' E') a b =
      toMat (reLayout L m).size (assembleK (reLayout L m) C' (fun _ => 0) F' E') a b +
        if a = b then (if (a : Nat) < m then err' a else 0) else 0 := by
    intro a b
    simp only [toMat, Fin.ext_iff]
    exact assembleK_errfree (reLayout L m) C' err' F' E' a b
  have hlamx : ∀ a : Fin (reLayout L m).size, ∑ i : Fin L.size, (if π' i = a then lamx i else 0) = 1 := by
    intro a
    rw [key lamx a]
    by_cases ha : (a : Nat) < m
    · rw [if_pos ha, ← hlam a ha]
      apply Finset.sum_congr rfl
      intro i hi
      have : i < L.n := Finset.mem_range.mp (Finset.mem_filter.mp hi).1
      simp [lamx, this]
    · rw [if_neg ha]
      have : ¬ (a : Nat) - m + L.n < L.n := by omega
      simp [lamx, this]
  have hdx : ∀ i : Fin L.size, (if (i : Nat) < L.n then err i else 0) * lamx i =
      (fun a : Fin (reLayout L m).size => if (a : Nat) < m then err' a else 0) (π' i) := by
    intro i
    by_cases h : (i : Nat) < L.n
    · have := hπ i h
      simp [lamx, π', mergeIdx, h, this, hd i h]
    · have h2 : ¬ (i : Nat) - L.n + m < m := by omega
      simp [lamx, π', mergeIdx, h, h2]
  exact merge_reduced_regular π' _ _ (fun i : Fin L.size => lamx i) _ _ _ hK hK' hlamx hdx (toMat L.size M) hM

/-! ## two coincident points -/

/-- the last conditioning point (index `n`) is sent to its twin `i₀`, the others stay -/
def pairMap (n i₀ : Nat) (k : Nat) : Nat := if k = n then i₀ else k

theorem sum_pairMap_fiber (n i₀ a : Nat) (ha : a < n) (G : Nat → ℝ) :
    ∑ k ∈ (range (n + 1)).filter (fun k => pairMap n i₀ k = a), G k = G a + if a = i₀ then G n else 0 := by
  rw [Finset.sum_filter, Finset.sum_range_succ]
  have h1 : ∑ k ∈ range n, (if pairMap n i₀ k = a then G k else 0) = ∑ k ∈ range n, (if k = a then G k else 0) := by
    apply Finset.sum_congr rfl
    intro k hk
    have : k ≠ n := by have := Finset.mem_range.mp hk; omega
    simp [pairMap, this]
  rw [h1, Finset.sum_ite_eq' (range n) a G]
  have h2 : (pairMap n i₀ n = a) = (a = i₀) := by simp [pairMap, eq_comm]
  simp only [Finset.mem_range, ha, if_true, h2]

/-- **two coincident conditioning points with positive errors are ONE point** (every variant; the errors of all OTHER
    conditioning points are arbitrary, zero included).  The system has `n + 1` conditioning points; the last one
    (index `n`; any other pair is brought there by `cond_order_invariant`) coincides with point `i₀ < n`: equal
    covariance rows and columns (`hrow`, `hcol`; the error is not part of `C`), equal drift values, equal
    right-hand-side entries.  Errors `e₀ = err i₀ > 0`, `e₁ = err n > 0`.  The reduced system drops point `n`, keeps all
    arrays, and carries at `i₀` the error `1 / (1/e₀ + 1/e₁)` and the value `(v₀/e₀ + v₁/e₁) / (1/e₀ + 1/e₁)`
    (`v = valn − mean`, the prepared data).  Estimate and variance term at the target are equal. -/
theorem merge_pair_with_errors (L : Layout) (n i₀ : Nat) (hL : L.n = n + 1) (hi₀ : i₀ < n)
    (C : Nat → Nat → ℝ) (err err' : Nat → ℝ) (F E : Nat → Nat → ℝ)
    (hrow : ∀ j, j ≤ n → C n j = C i₀ j) (hcol : ∀ j, j ≤ n → C j n = C j i₀)
    (hF : ∀ r, F r n = F r i₀) (hE : ∀ r, E r n = E r i₀)
    (he₀ : 0 < err i₀) (he₁ : 0 < err n)
    (herr₀ : err' i₀ = 1 / (1 / err i₀ + 1 / err n)) (herr' : ∀ k, k < n → k ≠ i₀ → err' k = err k)
    (om : Bool) (c f e : Nat → Nat → ℝ) (p : Nat) (hc : c n p = c i₀ p)
    (M M' : Nat → Nat → ℝ)
    (hM : toMat L.size M * toMat L.size (assembleK L C err F E) = 1)
    (hM' : toMat (reLayout L n).size M' * toMat (reLayout L n).size (assembleK (reLayout L n) C err' F E) = 1)
    (valn mean valn' mean' : Nat → ℝ)
    (hv₀ : valn' i₀ - mean' i₀ =
      ((valn i₀ - mean i₀) / err i₀ + (valn n - mean n) / err n) / (1 / err i₀ + 1 / err n))
    (hv : ∀ k, k < n → k ≠ i₀ → valn' k - mean' k = valn k - mean k) :
    krigeFieldCell M (assembleRHS L om c f e) (krigeCond L valn mean) L.size p ((0:Nat):ℝ) =
      krigeFieldCell M' (assembleRHS (reLayout L n) om c f e) (krigeCond (reLayout L n) valn' mean')
        (reLayout L n).size p ((0:Nat):ℝ) ∧
    krigeErrCell M (assembleRHS L om c f e) L.size p ((0:Nat):ℝ) =
      krigeErrCell M' (assembleRHS (reLayout L n) om c f e) (reLayout L n).size p ((0:Nat):ℝ) := by
  have hs : 0 < 1 / err i₀ + 1 / err n := add_pos (one_div_pos.mpr he₀) (one_div_pos.mpr he₁)
  have hpm : ∀ k, k < L.n → pairMap n i₀ k < n := by
    intro k hk
    unfold pairMap
    split <;> omega
  have hpk : ∀ k, k < n → pairMap n i₀ k = k := by
    intro k hk
    have : k ≠ n := by omega
    simp [pairMap, this]
  have hpn : pairMap n i₀ n = i₀ := by simp [pairMap]
  refine merge_coincident_weights L n (pairMap n i₀) hpm C C err err'
    (fun k => if k = i₀ then (1 / err i₀) / (1 / err i₀ + 1 / err n)
      else if k = n then (1 / err n) / (1 / err i₀ + 1 / err n) else 1)
    F E F E ?_ ?_ ?_ ?_ ?_ om c c f e f e p p ?_ (fun _ => rfl) (fun _ => rfl) M M' hM hM' valn mean valn' mean' ?_
  · intro i j hi hj
    rw [hL] at hi hj
    by_cases h1 : i = n <;> by_cases h2 : j = n
    · rw [h1, h2, hpn, hrow n (le_refl _), hcol i₀ (by omega)]
    · rw [h1, hpn, hpk j (by omega), hrow j (by omega)]
    · rw [h2, hpn, hpk i (by omega), hcol i (by omega)]
    · rw [hpk i (by omega), hpk j (by omega)]
  · intro r i hi
    rw [hL] at hi
    by_cases h1 : i = n
    · rw [h1, hpn, hF]
    · rw [hpk i (by omega)]
  · intro r i hi
    rw [hL] at hi
    by_cases h1 : i = n
    · rw [h1, hpn, hE]
    · rw [hpk i (by omega)]
  · intro a ha
    rw [hL, sum_pairMap_fiber n i₀ a ha]
    have hn0 : n ≠ i₀ := by omega
    by_cases h : a = i₀
    · subst h
      have : a ≠ n := by omega
      simp only [if_true, hn0, if_false]
      field_simp
    · have : a ≠ n := by omega
      simp [h, this]
  · intro i hi
    rw [hL] at hi
    have hn0 : n ≠ i₀ := by omega
    by_cases h1 : i = n
    · rw [h1, hpn, herr₀]
      simp only [hn0, if_false, if_true]
      field_simp
    · rw [hpk i (by omega)]
      by_cases h2 : i = i₀
      · subst h2
        rw [herr₀]
        simp only [if_true]
        field_simp
      · rw [herr' i (by omega) h2]
        simp [h1, h2]
  · intro i hi
    rw [hL] at hi
    by_cases h1 : i = n
    · rw [h1, hpn, hc]
    · rw [hpk i (by omega)]
  · intro a ha
    rw [hL, sum_pairMap_fiber n i₀ a ha]
    have hn0 : n ≠ i₀ := by omega
    by_cases h : a = i₀
    · subst h
      rw [hv₀]
      simp only [if_true, hn0, if_false]
      field_simp
    · have : a ≠ n := by omega
      rw [hv a ha h]
      simp [h, this]

/-! ## the hypotheses are satisfiable: concrete repeated stations -/

/-- a matrix as a model array -/
def ofMat {s : Nat} (A : Matrix (Fin s) (Fin s) ℝ) : Nat → Nat → ℝ :=
  fun i j => if h : i < s ∧ j < s then A ⟨i, h.1⟩ ⟨j, h.2⟩ else 0

theorem toMat_ofMat {s : Nat} (A : Matrix (Fin s) (Fin s) ℝ) : toMat s (ofMat A) = A := by
  ext i j
  simp [toMat, ofMat, i.2, j.2]

/-- covariances of the example: points `0` and `2` at one location, point `1` at another; `1` at lag 0, `1/2` between
    the two locations -/
noncomputable def exC : Nat → Nat → ℝ := fun i j => if i = 1 ∧ j = 1 then 1 else if i = 1 ∨ j = 1 then 1/2 else 1

/-- measurement errors of the example: `0.5` at point `0`, none at point `1`, `0.25` at point `2` -/
noncomputable def exErr : Nat → ℝ := fun k => if k = 0 then 1/2 else if k = 2 then 1/4 else 0

/-- **simple kriging, 3 points, two coincident, errors `0.5` and `0.25`, values `1` and `4`**: every hypothesis of
    `merge_pair_with_errors` holds (both systems regular, explicit inverses), the merged error is `1/6` and the merged
    value is `3` — neither `1` nor `4` (nor their plain mean `5/2`) -/
example : ∃ (L : Layout) (err' : Nat → ℝ) (M M' : Nat → Nat → ℝ) (valn valn' : Nat → ℝ),
    L.n = 2 + 1 ∧ L.size = 3 ∧ (reLayout L 2).size = 2 ∧ (0:Nat) < 2 ∧
    (∀ j, j ≤ 2 → exC 2 j = exC 0 j) ∧ (∀ j, j ≤ 2 → exC j 2 = exC j 0) ∧
    0 < exErr 0 ∧ 0 < exErr 2 ∧ exErr 0 = 0.5 ∧ exErr 2 = 0.25 ∧
    err' 0 = 1 / (1 / exErr 0 + 1 / exErr 2) ∧ (∀ k, k < 2 → k ≠ 0 → err' k = exErr k) ∧
    toMat L.size M * toMat L.size (assembleK L exC exErr (fun _ _ => 0) (fun _ _ => 0)) = 1 ∧
    toMat (reLayout L 2).size M' *
      toMat (reLayout L 2).size (assembleK (reLayout L 2) exC err' (fun _ _ => 0) (fun _ _ => 0)) = 1 ∧
    valn 0 = 1 ∧ valn 2 = 4 ∧
    valn' 0 - 0 = ((valn 0 - 0) / exErr 0 + (valn 2 - 0) / exErr 2) / (1 / exErr 0 + 1 / exErr 2) ∧
    (∀ k, k < 2 → k ≠ 0 → valn' k - 0 = valn k - 0) ∧
    valn' 0 = 3 ∧ err' 0 = 1/6 := by
  refine ⟨⟨3, false, 0, 0⟩, fun k => if k = 0 then 1/6 else 0,
    ofMat !![16/11, -2/11, -12/11; -2/11, 14/11, -4/11; -12/11, -4/11, 20/11],
    ofMat !![12/11, -6/11; -6/11, 14/11],
    fun k => if k = 0 then 1 else if k = 2 then 4 else 7, fun k => if k = 0 then 3 else 7,
    rfl, rfl, rfl, by norm_num, ?_, ?_, by norm_num [exErr], by norm_num [exErr], by norm_num [exErr],
    by norm_num [exErr], by norm_num [exErr], ?_, ?_, ?_, by simp, by simp, by norm_num [exErr], ?_, by simp,
    by simp⟩
  · intro j hj
    interval_cases j <;> simp [exC]
  · intro j hj
    interval_cases j <;> simp [exC]
  · intro k hk hk0
    interval_cases k
    · exact absurd rfl hk0
    · simp [exErr]
  · show toMat 3 _ * toMat 3 _ = 1
    rw [toMat_ofMat]
    ext i j
    fin_cases i <;> fin_cases j <;>
      simp [Matrix.mul_apply, Fin.sum_univ_three, toMat, assembleK, exC, exErr] <;> norm_num
  · show toMat 2 _ * toMat 2 _ = 1
    rw [toMat_ofMat]
    ext i j
    fin_cases i <;> fin_cases j <;>
      simp [Matrix.mul_apply, Fin.sum_univ_two, toMat, assembleK, reLayout, exC] <;> norm_num
  · intro k hk hk0
    interval_cases k
    · exact absurd rfl hk0
    · simp

/-- **ordinary kriging on the same three points** (unbiasedness row): the `4 × 4` system and the reduced `3 × 3`
    system are both regular — the hypotheses of `merge_pair_with_errors` are satisfiable for an unbiased variant too -/
example : ∃ (L : Layout) (err' : Nat → ℝ) (M M' : Nat → Nat → ℝ),
    L.unb = true ∧ L.n = 2 + 1 ∧ L.size = 4 ∧ (reLayout L 2).size = 3 ∧
    err' 0 = 1 / (1 / exErr 0 + 1 / exErr 2) ∧ (∀ k, k < 2 → k ≠ 0 → err' k = exErr k) ∧
    toMat L.size M * toMat L.size (assembleK L exC exErr (fun _ _ => 0) (fun _ _ => 0)) = 1 ∧
    toMat (reLayout L 2).size M' *
      toMat (reLayout L 2).size (assembleK (reLayout L 2) exC err' (fun _ _ => 0) (fun _ _ => 0)) = 1 := by
  refine ⟨⟨3, true, 0, 0⟩, fun k => if k = 0 then 1/6 else 0,
    ofMat !![10/7, -2/7, -8/7, 1/7; -2/7, 6/7, -4/7, 4/7; -8/7, -4/7, 12/7, 2/7; 1/7, 4/7, 2/7, -11/14],
    ofMat !![6/7, -6/7, 3/7; -6/7, 6/7, 4/7; 3/7, 4/7, -11/14],
    rfl, rfl, rfl, rfl, by norm_num [exErr], ?_, ?_, ?_⟩
  · intro k hk hk0
    interval_cases k
    · exact absurd rfl hk0
    · simp [exErr]
  · show toMat 4 _ * toMat 4 _ = 1
    rw [toMat_ofMat]
    ext i j
    fin_cases i <;> fin_cases j <;>
      simp [Matrix.mul_apply, Fin.sum_univ_four, toMat, assembleK, border, exC, exErr] <;> norm_num
  · show toMat 3 _ * toMat 3 _ = 1
    rw [toMat_ofMat]
    ext i j
    fin_cases i <;> fin_cases j <;>
      simp [Matrix.mul_apply, Fin.sum_univ_three, toMat, assembleK, border, reLayout, exC] <;> norm_num

end GSV.Props.C05
