/-
  C12 — the pipeline theorems composed with the CONCRETE computations (every dimension, every angle / anisotropy list).

  `GSV/Props/C12.lean` proves `pipeline`, `pipeline_cov`, `pipeline_modes` for an arbitrary computation that receives
  positions through `pre_pos`.  Here the computation is instantiated (`GSV/Model/Pipe.lean`) with
  * the kriging system of C05 (`assembleK` / `assembleRHS` on covariances of distances between isometrized positions,
    the chunk loop `krigeCall` around the regenerated kernel),
  * the randomization and Fourier fields of C01 / C11 (`randmethField`, `fourierField` = the regenerated summation
    kernels on the generator's arrays, evaluated at the isometrized positions),
  * the conditioning formula of C07 on top of both.

  Statements: a Krige / SRF / CondSRF object built with a model that has `(angles, anis)` returns at positions `x`
  what an object built with the ISOTROPIC UNROTATED model (`angles = []`, `anis = []`) returns at `isometrize x`
  (conditioning positions transformed as well) — also when each object computes its own inverse matrix, with its
  own chunk size and schedule; the matrix entries are `cov_spatial` of the raw lags; the random fields are the same
  mode sums with wave vectors `Mᵀ k` at the raw positions (`k·(M x) = (Mᵀ k)·x`).
-/
import GSV.Model.Pipe
import GSV.Model.Cond
import GSV.Props.C12
import GSV.Props.C05
import GSV.Props.C01
namespace GSV.Props.C12
open GSV GSV.Model.Geo GSV.Lemmas.Geo GSV.Model.Pipe GSV.Model.Krige GSV.Model.Gen GSV.Model.Cond Matrix

set_option linter.unusedSectionVars false

/-! ## positions -/

/-- isometrizing with the isotropic unrotated model changes nothing (on the `dim` coordinates that exist) -/
theorem toV_isoPos_iso_model (d : Nat) (pos : Nat → Nat → ℝ) (i : Nat) :
    toV d (colOf (isoPos d ([] : List ℝ) [] pos) i) = toV d (colOf pos i) :=
  isometrize_iso_model d (colOf pos i)

/-- Euclidean distance reads only the first `dim` coordinates -/
theorem dist_congr (d : Nat) (u u' v v' : Nat → ℝ) (hu : toV d u = toV d u') (hv : toV d v = toV d v') :
    Model.Geo.dist d u v = Model.Geo.dist d u' v' := by
  have h : ∀ a b : Nat → ℝ, toV d (fun k => a k - b k) = toV d a - toV d b := fun a b => by funext i; rfl
  rw [Model.Geo.dist, Model.Geo.dist, norm2_eq, norm2_eq, h, h, hu, hv]

theorem distCC_iso (d : Nat) (angles anis : List ℝ) (cpos : Nat → Nat → ℝ) (i j : Nat) :
    distCC d ([] : List ℝ) [] (isoPos d angles anis cpos) i j = distCC d angles anis cpos i j :=
  dist_congr d _ _ _ _ (toV_isoPos_iso_model d _ i) (toV_isoPos_iso_model d _ j)

theorem distCT_iso (d : Nat) (angles anis : List ℝ) (cpos tpos : Nat → Nat → ℝ) (i p : Nat) :
    distCT d ([] : List ℝ) [] (isoPos d angles anis cpos) (isoPos d angles anis tpos) i p
      = distCT d angles anis cpos tpos i p :=
  dist_congr d _ _ _ _ (toV_isoPos_iso_model d _ i) (toV_isoPos_iso_model d _ p)

/-! ## kriging -/

/-- **every covariance entry of the kriging matrix and of the right-hand sides is the model's spatial covariance
    (`cov_spatial`) of the RAW lag** between the two points -/
theorem krige_entries_are_cov_spatial (cov : ℝ → ℝ) (d : Nat) (angles anis : List ℝ) (cpos tpos : Nat → Nat → ℝ)
    (i j p : Nat) :
    covBlock cov d angles anis cpos i j = covSpatial cov d angles anis (fun k => cpos k i - cpos k j) ∧
    rhsBlock cov d angles anis cpos tpos i p = covSpatial cov d angles anis (fun k => cpos k i - tpos k p) :=
  ⟨pipeline_cov cov d angles anis (colOf cpos i) (colOf cpos j),
   pipeline_cov cov d angles anis (colOf cpos i) (colOf tpos p)⟩

/-- the assembled kriging matrix of the model with `(angles, anis)` on the conditioning positions `cpos` IS the
    matrix of the isotropic unrotated model on `isometrize cpos` — every variant (layout), any measurement errors and
    drift values -/
theorem krige_mat_aniso_eq_iso (L : Layout) (cov : ℝ → ℝ) (d : Nat) (angles anis : List ℝ) (cpos : Nat → Nat → ℝ)
    (err : Nat → ℝ) (F E : Nat → Nat → ℝ) :
    krigeMatAt L cov d angles anis cpos err F E
      = krigeMatAt L cov d ([] : List ℝ) [] (isoPos d angles anis cpos) err F E := by
  have h : covBlock cov d angles anis cpos = covBlock cov d ([] : List ℝ) [] (isoPos d angles anis cpos) := by
    funext i j; unfold covBlock; rw [distCC_iso]
  unfold krigeMatAt; rw [h]

/-- the same for the right-hand sides of all targets (`cf` = `covariance` or the nugget-aware `cov_nugget`) -/
theorem krige_rhs_aniso_eq_iso (L : Layout) (cf : ℝ → ℝ) (d : Nat) (angles anis : List ℝ) (cpos tpos : Nat → Nat → ℝ)
    (f e : Nat → Nat → ℝ) :
    krigeRhsAt L cf d angles anis cpos tpos f e
      = krigeRhsAt L cf d ([] : List ℝ) [] (isoPos d angles anis cpos) (isoPos d angles anis tpos) f e := by
  have h : rhsBlock cf d angles anis cpos tpos
      = rhsBlock cf d ([] : List ℝ) [] (isoPos d angles anis cpos) (isoPos d angles anis tpos) := by
    funext i p; unfold rhsBlock; rw [distCT_iso]
  unfold krigeRhsAt; rw [h]

/-- two left inverses of the same matrix coincide -/
theorem left_inverse_unique {s : Nat} (K M M' : Matrix (Fin s) (Fin s) ℝ) (h : M * K = 1) (h' : M' * K = 1) : M = M' := by
  have hK : K * M' = 1 := mul_eq_one_comm.mp h'
  calc M = M * (K * M') := by rw [hK, Matrix.mul_one]
    _ = (M * K) * M' := by rw [Matrix.mul_assoc]
    _ = M' := by rw [h, Matrix.one_mul]

/-- **C12 pipeline, kriging, concrete**: the Krige object of a model with `(angles, anis)` on conditioning positions
    `cpos` — stored inverse `M` of its assembled matrix, chunk size `cs`, schedule `sched` — evaluated at targets
    `tpos`, and the Krige object of the ISOTROPIC UNROTATED model on `isometrize cpos` — its own stored inverse `M'`,
    chunk size `cs'`, schedule `sched'` — evaluated at `isometrize tpos`, return the same raw estimate and the same
    kriging variance at every target.  Every dimension, every angle and anisotropy list, every kriging variant. -/
theorem krige_aniso_eq_iso (sched sched' : Sched) (hs : sched.Admissible) (hs' : sched'.Admissible)
    (L : Layout) (cov cf : ℝ → ℝ) (d : Nat) (angles anis : List ℝ) (cpos tpos : Nat → Nat → ℝ)
    (err : Nat → ℝ) (F E f e : Nat → Nat → ℝ) (M M' : Nat → Nat → ℝ)
    (hM : C05.toMat L.size M * C05.toMat L.size (krigeMatAt L cov d angles anis cpos err F E) = 1)
    (hM' : C05.toMat L.size M' *
      C05.toMat L.size (krigeMatAt L cov d ([] : List ℝ) [] (isoPos d angles anis cpos) err F E) = 1)
    (cond : Nat → ℝ) (sill : ℝ) (pnt cs cs' : Nat) (hcs : 0 < cs) (hcs' : 0 < cs') (p : Nat) (hp : p < pnt) :
    (krigeAt sched L cf d angles anis cpos tpos f e M cond sill pnt cs).1 p =
      (krigeAt sched' L cf d ([] : List ℝ) [] (isoPos d angles anis cpos) (isoPos d angles anis tpos) f e M' cond sill pnt cs').1 p ∧
    (krigeAt sched L cf d angles anis cpos tpos f e M cond sill pnt cs).2 p =
      (krigeAt sched' L cf d ([] : List ℝ) [] (isoPos d angles anis cpos) (isoPos d angles anis tpos) f e M' cond sill pnt cs').2 p := by
  rw [krige_mat_aniso_eq_iso] at hM
  have hMM : C05.toMat L.size M = C05.toMat L.size M' := left_inverse_unique _ _ _ hM hM'
  unfold krigeAt
  rw [C05.krigeCall_field sched hs _ _ _ _ _ _ _ _ hcs hp, C05.krigeCall_field sched' hs' _ _ _ _ _ _ _ _ hcs' hp,
    C05.krigeCall_var sched hs _ _ _ _ _ _ _ _ hcs hp, C05.krigeCall_var sched' hs' _ _ _ _ _ _ _ _ hcs' hp,
    C05.field_eq_bilinear, C05.field_eq_bilinear, C05.err_eq_quadratic, C05.err_eq_quadratic,
    krige_rhs_aniso_eq_iso, hMM]
  exact ⟨rfl, rfl⟩

/-- the raw estimate is `Σ wᵢ zᵢ` with `w` THE solution of the kriging system whose covariance entries are
    `cov_spatial` of the raw lags (composition with `C05.solves_system`) -/
theorem krige_aniso_solves_cov_spatial_system (sched : Sched) (hs : sched.Admissible)
    (L : Layout) (cov cf : ℝ → ℝ) (d : Nat) (angles anis : List ℝ) (cpos tpos : Nat → Nat → ℝ)
    (err : Nat → ℝ) (F E f e : Nat → Nat → ℝ) (M : Nat → Nat → ℝ)
    (hM : C05.toMat L.size M * C05.toMat L.size (krigeMatAt L cov d angles anis cpos err F E) = 1)
    (cond : Nat → ℝ) (sill : ℝ) (pnt cs : Nat) (hcs : 0 < cs) (p : Nat) (hp : p < pnt) :
    ∃ w : Fin L.size → ℝ,
      C05.toMat L.size (krigeMatAt L cov d angles anis cpos err F E) *ᵥ w
        = C05.col L.size (krigeRhsAt L cf d angles anis cpos tpos f e) p ∧
      (∀ w', C05.toMat L.size (krigeMatAt L cov d angles anis cpos err F E) *ᵥ w'
        = C05.col L.size (krigeRhsAt L cf d angles anis cpos tpos f e) p → w' = w) ∧
      (krigeAt sched L cf d angles anis cpos tpos f e M cond sill pnt cs).1 p = ∑ i, w i * C05.toVec L.size cond i := by
  obtain ⟨h1, h2, h3, _⟩ := C05.solves_system (C05.toMat L.size (krigeMatAt L cov d angles anis cpos err F E))
    (C05.toMat L.size M) (C05.toVec L.size cond) (C05.col L.size (krigeRhsAt L cf d angles anis cpos tpos f e) p) hM
  refine ⟨_, h1, h2, ?_⟩
  unfold krigeAt
  rw [C05.krigeCall_field sched hs _ _ _ _ _ _ _ _ hcs hp, C05.field_eq_bilinear, h3]

/-! ## random fields -/

section cells
variable (z1 z2 : Nat → ℝ)

theorem summateCell_congr_phase (k k' x x' : Nat → Nat → ℝ) (dim N i : Nat) (v0 : ℝ)
    (h : ∀ j, phaseOf k x dim j i = phaseOf k' x' dim j i) :
    summateCell k z1 z2 x dim N i v0 = summateCell k' z1 z2 x' dim N i v0 := by
  unfold summateCell
  apply forRange_congr
  intro j _ _ acc
  rw [h j]

theorem fourierCell_congr_phase' (sf : Nat → ℝ) (k k' x x' : Nat → Nat → ℝ) (dim N i : Nat) (v0 : ℝ)
    (h : ∀ j, phaseOf k x dim j i = phaseOf k' x' dim j i) :
    fourierCell sf k z1 z2 x dim N i v0 = fourierCell sf k' z1 z2 x' dim N i v0 := by
  unfold fourierCell
  apply forRange_congr
  intro j _ _ acc
  rw [h j]

theorem randmethField_congr_phase (var : ℝ) (k k' x x' : Nat → Nat → ℝ) (dim N X i : Nat)
    (h : ∀ j, phaseOf k x dim j i = phaseOf k' x' dim j i) :
    randmethField var k z1 z2 x dim N X i = randmethField var k' z1 z2 x' dim N X i := by
  unfold randmethField
  rw [summate_spec _ sched_id_admissible, summate_spec _ sched_id_admissible]
  split
  · rw [summateCell_congr_phase z1 z2 k k' x x' dim N i _ h]
  · rfl

theorem fourierField_congr_phase (sf : Nat → ℝ) (k k' x x' : Nat → Nat → ℝ) (dim N X i : Nat)
    (h : ∀ j, phaseOf k x dim j i = phaseOf k' x' dim j i) :
    fourierField sf k z1 z2 x dim N X i = fourierField sf k' z1 z2 x' dim N X i := by
  unfold fourierField
  rw [summate_fourier_spec _ sched_id_admissible, summate_fourier_spec _ sched_id_admissible]
  split
  · rw [fourierCell_congr_phase' z1 z2 sf k k' x x' dim N i _ h]
  · rfl

end cells

/-- the kernel's phase of mode `j` at point `i` is the model's `phase` of the two vectors -/
theorem phaseOf_eq_phase (k x : Nat → Nat → ℝ) (dim j i : Nat) :
    phaseOf k x dim j i = Model.Geo.phase dim (fun e => k e j) (colOf x i) := rfl

theorem phaseOf_isoPos_iso_model (k pos : Nat → Nat → ℝ) (d j i : Nat) :
    phaseOf k (isoPos d ([] : List ℝ) [] pos) d j i = phaseOf k pos d j i := by
  rw [phaseOf_eq_phase, phaseOf_eq_phase, phase_eq, phase_eq, toV_isoPos_iso_model]

/-- `k·(M x) = (Mᵀ k)·x` on the kernel's own accumulation -/
theorem phaseOf_isoPos_transformed (k pos : Nat → Nat → ℝ) (d : Nat) (angles anis : List ℝ) (j i : Nat) :
    phaseOf k (isoPos d angles anis pos) d j i = phaseOf (modesT d angles anis k) pos d j i := by
  rw [phaseOf_eq_phase, phaseOf_eq_phase]
  exact pipeline_modes d angles anis (fun e => k e j) (colOf pos i)

/-- **C12 pipeline, randomization method, concrete**: the field `SRF(model(angles, anis))(x)` (wave vectors `k`,
    amplitudes `z1 z2`, i.e. any seed) equals the field of the isotropic unrotated model at `isometrize x`, and equals the
    same mode sum at the RAW positions with the wave vectors `Mᵀ k_j` — every dimension, every point, every mode set. -/
theorem srf_randmeth_aniso_eq_iso (var : ℝ) (k : Nat → Nat → ℝ) (z1 z2 : Nat → ℝ) (d : Nat) (angles anis : List ℝ)
    (pos : Nat → Nat → ℝ) (N X i : Nat) :
    srfRandmeth var k z1 z2 d angles anis pos N X i
      = srfRandmeth var k z1 z2 d ([] : List ℝ) [] (isoPos d angles anis pos) N X i ∧
    srfRandmeth var k z1 z2 d angles anis pos N X i
      = randmethField var (modesT d angles anis k) z1 z2 pos d N X i := by
  unfold srfRandmeth
  exact ⟨(randmethField_congr_phase z1 z2 var k k _ _ d N X i
      (fun j => phaseOf_isoPos_iso_model k (isoPos d angles anis pos) d j i)).symm,
    randmethField_congr_phase z1 z2 var k _ _ pos d N X i (fun j => phaseOf_isoPos_transformed k pos d angles anis j i)⟩

/-- **C12 pipeline, Fourier method, concrete** (spectrum factors `sf`, mode lattice `modes`) -/
theorem srf_fourier_aniso_eq_iso (sf : Nat → ℝ) (modes : Nat → Nat → ℝ) (z1 z2 : Nat → ℝ) (d : Nat) (angles anis : List ℝ)
    (pos : Nat → Nat → ℝ) (N X i : Nat) :
    srfFourier sf modes z1 z2 d angles anis pos N X i
      = srfFourier sf modes z1 z2 d ([] : List ℝ) [] (isoPos d angles anis pos) N X i ∧
    srfFourier sf modes z1 z2 d angles anis pos N X i
      = fourierField sf (modesT d angles anis modes) z1 z2 pos d N X i := by
  unfold srfFourier
  exact ⟨(fourierField_congr_phase z1 z2 sf modes modes _ _ d N X i
      (fun j => phaseOf_isoPos_iso_model modes (isoPos d angles anis pos) d j i)).symm,
    fourierField_congr_phase z1 z2 sf modes _ _ pos d N X i (fun j => phaseOf_isoPos_transformed modes pos d angles anis j i)⟩

/-- the ensemble covariance of the anisotropic rotated randomization field between two raw points depends on them
    through the ISOMETRIZED lag only: `E[u(x_a) u(x_b)] = (var/N) Σ_j cos⟨k_j, M(x_a − x_b)⟩`
    (composition with `C01.cov_given_modes`; amplitudes with identity second moments, any wave vectors) -/
theorem srf_randmeth_cov_isometrized_lag {Ω : Type} [MeasurableSpace Ω] (μ : MeasureTheory.Measure Ω)
    (var : ℝ) (hv : 0 ≤ var) (k : Nat → Nat → ℝ) (d : Nat) (angles anis : List ℝ) (pos : Nat → Nat → ℝ)
    (N X a b : Nat) (ha : a < X) (hb : b < X) (z1 z2 : Nat → Ω → ℝ)
    (hint : ∀ i < N + N, ∀ j < N + N, MeasureTheory.Integrable (fun ω => C01.amp N z1 z2 i ω * C01.amp N z1 z2 j ω) μ)
    (horth : ∀ i < N + N, ∀ j < N + N, ∫ ω, C01.amp N z1 z2 i ω * C01.amp N z1 z2 j ω ∂μ = if i = j then 1 else 0) :
    ∫ ω, srfRandmeth var k (fun j => z1 j ω) (fun j => z2 j ω) d angles anis pos N X a *
         srfRandmeth var k (fun j => z1 j ω) (fun j => z2 j ω) d angles anis pos N X b ∂μ =
      var / N * ∑ j ∈ Finset.range N,
        Real.cos (Model.Geo.phase d (fun e => k e j) (isometrize d angles anis (fun e => pos e a - pos e b))) := by
  unfold srfRandmeth
  simp only [C01.randmeth_linear _ _ _ _ _ _ _ _ _ ha, C01.randmeth_linear _ _ _ _ _ _ _ _ _ hb]
  rw [C01.cov_given_modes μ var hv k d N _ _ z1 z2 hint horth]
  congr 1
  refine Finset.sum_congr rfl fun j _ => ?_
  congr 1
  -- the lag of the isometrized points is the isometrized lag (linearity), on the `d` coordinates the phase reads
  have hl := isometrize_linear d angles anis 1 (-1) (colOf pos a) (colOf pos b)
  simp only [one_mul, neg_mul, one_smul, neg_smul, ← sub_eq_add_neg] at hl
  have hph : C01.phase k (fun e => isoPos d angles anis pos e a - isoPos d angles anis pos e b) d j
      = toV d (fun e => k e j) ⬝ᵥ (toV d (isometrize d angles anis (colOf pos a)) - toV d (isometrize d angles anis (colOf pos b))) := by
    unfold C01.phase
    rw [← Fin.sum_univ_eq_sum_range (fun e => k e j * (isoPos d angles anis pos e a - isoPos d angles anis pos e b))]
    rfl
  rw [hph, phase_eq, ← hl]
  rfl

/-! ## conditioned fields -/

/-- **C12 pipeline, CondSRF, concrete**: the conditioned value (kriging estimate + scaled unconditional randomization
    field + scaled nugget noise) of the model with `(angles, anis)` at `x` equals the conditioned value computed with the
    isotropic unrotated model on the transformed conditioning and target positions (own inverse, chunk size, schedule) -/
theorem condsrf_aniso_eq_iso (sched sched' : Sched) (hs : sched.Admissible) (hs' : sched'.Admissible)
    (L : Layout) (cov cf : ℝ → ℝ) (d : Nat) (angles anis : List ℝ) (cpos tpos : Nat → Nat → ℝ)
    (err : Nat → ℝ) (F E f e : Nat → Nat → ℝ) (M M' : Nat → Nat → ℝ)
    (hM : C05.toMat L.size M * C05.toMat L.size (krigeMatAt L cov d angles anis cpos err F E) = 1)
    (hM' : C05.toMat L.size M' *
      C05.toMat L.size (krigeMatAt L cov d ([] : List ℝ) [] (isoPos d angles anis cpos) err F E) = 1)
    (cond : Nat → ℝ) (sill : ℝ) (pnt cs cs' : Nat) (hcs : 0 < cs) (hcs' : 0 < cs') (p : Nat) (hp : p < pnt)
    (var nugget noise : ℝ) (k : Nat → Nat → ℝ) (z1 z2 : Nat → ℝ) (N : Nat) :
    condValue ((krigeAt sched L cf d angles anis cpos tpos f e M cond sill pnt cs).1 p)
        ((krigeAt sched L cf d angles anis cpos tpos f e M cond sill pnt cs).2 p)
        (srfRandmeth var k z1 z2 d angles anis tpos N pnt p) var nugget noise =
      condValue
        ((krigeAt sched' L cf d ([] : List ℝ) [] (isoPos d angles anis cpos) (isoPos d angles anis tpos) f e M' cond sill pnt cs').1 p)
        ((krigeAt sched' L cf d ([] : List ℝ) [] (isoPos d angles anis cpos) (isoPos d angles anis tpos) f e M' cond sill pnt cs').2 p)
        (srfRandmeth var k z1 z2 d ([] : List ℝ) [] (isoPos d angles anis tpos) N pnt p) var nugget noise := by
  obtain ⟨h1, h2⟩ := krige_aniso_eq_iso sched sched' hs hs' L cov cf d angles anis cpos tpos err F E f e M M' hM hM'
    cond sill pnt cs cs' hcs hcs' p hp
  rw [h1, h2, (srf_randmeth_aniso_eq_iso var k z1 z2 d angles anis tpos N pnt p).1]

/-! ## the hypotheses are satisfiable -/

/-- a 2-D model rotated by `0.3` with anisotropy `1/2`, one conditioning point, simple kriging, covariance `exp(−r)`:
    the assembled matrix is `[1]` for both objects, inverted by `M = M' = [1]` -/
example : ∃ (L : Layout) (cov : ℝ → ℝ) (angles anis : List ℝ) (cpos : Nat → Nat → ℝ) (M : Nat → Nat → ℝ),
    0 < L.n ∧ angles ≠ [] ∧ anis ≠ [] ∧
    C05.toMat L.size M * C05.toMat L.size (krigeMatAt L cov 2 angles anis cpos (fun _ => 0) (fun _ _ => 0) (fun _ _ => 0)) = 1 ∧
    C05.toMat L.size M *
      C05.toMat L.size (krigeMatAt L cov 2 ([] : List ℝ) [] (isoPos 2 angles anis cpos) (fun _ => 0) (fun _ _ => 0) (fun _ _ => 0)) = 1 := by
  refine ⟨⟨1, false, 0, 0⟩, fun r => Real.exp (-r), [0.3], [1/2], fun d _ => if d = 0 then 3 else 7, fun _ _ => 1,
    by decide, by simp, by simp, ?_, ?_⟩
  all_goals
    show C05.toMat 1 _ * C05.toMat 1 _ = 1
    ext i j
    fin_cases i; fin_cases j
    simp [C05.toMat, krigeMatAt, assembleK, covBlock, distCC, Model.Geo.dist, norm2_eq, Matrix.mul_apply]

end GSV.Props.C12
