/-
  C09 — variogram estimation respects its invariances and preprocessing semantics.
  Built on the kernel specifications (KernelVario / C08) regenerated from estimator.pyx.
-/
import GSV.Props.C08
import GSV.Model.Vario
import GSV.Lemmas.Sum
import GSV.Lemmas.LatLon
import Mathlib.LinearAlgebra.Matrix.DotProduct
import Mathlib.Data.Matrix.Mul
import Mathlib.Tactic.Ring
import Mathlib.Tactic.Linarith
import Mathlib.Tactic.FieldSimp
import Mathlib.Tactic.Positivity
namespace GSV.Props.C09
open GSV GSV.Transc GSV.Estimator GSV.Props GSV.Props.C08 Finset

set_option linter.unusedSectionVars false

/-! ## law-free facts (any carrier) -/
section lawfree
variable {α : Type} [Arith α] [Transc α] [DecidableLT α] [DecidableLE α]

/-- the isotropic estimator sees the positions only through the pairwise distances:
    any transformation of the coordinates that preserves them leaves every bin unchanged -/
theorem binCell_congr_dist (f : Nat → Nat → α) (nf : Nat) (est : α → α) (dist dist' : Nat → Nat → α) (bins : Nat → α)
    (np i : Nat) (acc : α × Int) (h : ∀ j k, j < k → k < np → dist j k = dist' j k) :
    binCell f nf est dist bins np i acc = binCell f nf est dist' bins np i acc := by
  unfold binCell
  refine forRange_congr _ _ _ _ (fun j _ hj a => ?_) _
  refine forRange_congr _ _ _ _ (fun k hk1 hk2 a => ?_) _
  rw [h j k (by omega) hk2]

/-- a point whose value is missing (NaN) in every field contributes nothing — exactly like a removed
    point: every pair it takes part in has no valid field -/
theorem nan_point_no_contribution (f : Nat → Nat → α) (nf : Nat) (q : Nat)
    (hq : ∀ m, m < nf → isnan (f m q) = true) (j k : Nat) (hjk : j = q ∨ k = q) :
    validFields f nf j k = [] := by
  unfold validFields
  rw [List.filter_eq_nil_iff]
  intro m hm
  have hm' : m < nf := (mem_idxRange.1 hm).2
  rcases hjk with rfl | rfl <;> simp [hq m hm']

theorem nan_pair_no_contribution (f : Nat → Nat → α) (nf : Nat) (est : α → α) (q j k : Nat)
    (hq : ∀ m, m < nf → isnan (f m q) = true) (hjk : j = q ∨ k = q) (acc : α × Int) :
    pairAcc f nf est j k acc = acc := by
  rw [pairAcc_eq_accum, nan_point_no_contribution f nf q hq j k hjk]
  rfl

/-- common-mask rule of `vario_estimate`: a point is kept iff it is not in the extra mask and at least
    one field has an unmasked value there (mask *union* with the all-fields mask) -/
theorem selectPoint_iff (em : Option (Nat → Bool)) (fmask : Nat → Nat → Bool) (nf p : Nat) :
    GSV.Model.Vario.selectPoint em fmask nf p = true ↔
      (∀ e, em = some e → e p = false) ∧ ∃ m, m < nf ∧ fmask m p = false := by
  unfold GSV.Model.Vario.selectPoint
  cases em with
  | none =>
    simp only [Bool.not_eq_true', List.all_eq_false, List.mem_range, reduceCtorEq, false_imp_iff, implies_true, true_and]
    constructor
    · rintro ⟨m, hm, h⟩; exact ⟨m, hm, by simpa using h⟩
    · rintro ⟨m, hm, h⟩; exact ⟨m, hm, by simp [h]⟩
  | some e =>
    simp only [Bool.not_eq_true', Bool.or_eq_false_iff, List.all_eq_false, List.mem_range, Option.some.injEq, forall_eq']
    constructor
    · rintro ⟨h1, m, hm, h⟩; exact ⟨h1, m, hm, by simpa using h⟩
    · rintro ⟨h1, m, hm, h⟩; exact ⟨h1, m, hm, by simp [h]⟩

/-- masked values that survive the selection reach the kernel as NaN, i.e. as removed values -/
theorem masked_cell_is_nan (nan : α) (hn : isnan nan = true) (f : Nat → Nat → α) (fmask : Nat → Nat → Bool)
    (m p : Nat) (hm : fmask m p = true) :
    isnan (GSV.Model.Vario.cellValue nan f fmask none m p) = true := by
  simp [GSV.Model.Vario.cellValue, hm, hn]

end lawfree

/-! ## over ℝ -/

/-- `dist_euclid` is the Euclidean distance -/
theorem dist_euclid_real (dim : Nat) (pos : Nat → Nat → ℝ) (p0 p1 i j : Nat) :
    dist_euclid dim pos p0 p1 i j = Real.sqrt (∑ d ∈ range dim, (pos d i - pos d j) ^ 2) := by
  unfold dist_euclid
  simp only [sqrt_real]
  congr 1
  have := forRange_proj (fun (s : dist_euclid.St ℝ) => s.dist_squared)
    (fun d (st : dist_euclid.St ℝ) => ({ st with dist_squared := st.dist_squared + (pos d i - pos d j) * (pos d i - pos d j) } : dist_euclid.St ℝ))
    (fun d acc => acc + (pos d i - pos d j) * (pos d i - pos d j)) (by intros; rfl) 0 dim
    ({ dist_squared := ((0:Nat):ℝ) } : dist_euclid.St ℝ)
  simp only [] at this
  rw [this, forRange_cast_zero_add_eq_sum]
  exact Finset.sum_congr rfl (fun d _ => by ring)

/-- translation invariance of the distances -/
theorem dist_translate (dim : Nat) (pos : Nat → Nat → ℝ) (t : Nat → ℝ) (p0 p1 i j : Nat) :
    dist_euclid dim (fun d p => pos d p + t d) p0 p1 i j = dist_euclid dim pos p0 p1 i j := by
  rw [dist_euclid_real, dist_euclid_real]
  congr 1
  exact Finset.sum_congr rfl (fun d _ => by ring)

/-- invariance of the distances under orthogonal maps `Q` (`Qᵀ Q = 1`): rotations and reflections -/
theorem dist_orthogonal (dim : Nat) (Q : Matrix (Fin dim) (Fin dim) ℝ) (hQ : Q.transpose * Q = 1)
    (pos : Nat → Nat → ℝ) (pos' : Nat → Nat → ℝ)
    (hpos : ∀ (d : Fin dim) p, pos' d p = ∑ e : Fin dim, Q d e * pos e p) (p0 p1 i j : Nat) :
    dist_euclid dim pos' p0 p1 i j = dist_euclid dim pos p0 p1 i j := by
  rw [dist_euclid_real, dist_euclid_real]
  congr 1
  rw [Finset.sum_range, Finset.sum_range]
  set v : Fin dim → ℝ := fun e => pos e i - pos e j with hv
  have h1 : ∀ d : Fin dim, pos' d i - pos' d j = (Q.mulVec v) d := by
    intro d
    rw [hpos, hpos, ← Finset.sum_sub_distrib]
    simp only [Matrix.mulVec, dotProduct, hv, mul_sub]
  have h2 : (∑ d : Fin dim, (Q.mulVec v) d ^ 2) = ∑ e : Fin dim, v e ^ 2 := by
    have : (Q.mulVec v) ⬝ᵥ (Q.mulVec v) = v ⬝ᵥ v := by
      rw [Matrix.dotProduct_mulVec, ← Matrix.mulVec_transpose, Matrix.mulVec_mulVec, hQ, Matrix.one_mulVec]
    simpa [dotProduct, pow_two] using this
  simp only [h1]
  rw [h2]


/-- **rigid-motion invariance** of the isotropic estimator: translating the points and applying an
    orthogonal map leaves every bin value and count unchanged, for every schedule -/
theorem unstructured_rigid_motion (sched : Sched) (hs : sched.Admissible)
    (f : Nat → Nat → ℝ) (nf f1 : Nat) (bins : Nat → ℝ) (nb : Nat) (pos pos' : Nat → Nat → ℝ) (dim np : Nat)
    (Q : Matrix (Fin dim) (Fin dim) ℝ) (hQ : Q.transpose * Q = 1) (t : Nat → ℝ)
    (hpos : ∀ (d : Fin dim) p, pos' d p = (∑ e : Fin dim, Q d e * pos e p) + t d) (et : String) (i : Nat) :
    ((unstructured sched f nf f1 bins nb pos' dim np et "e").1 i, (unstructured sched f nf f1 bins nb pos' dim np et "e").2 i) =
    ((unstructured sched f nf f1 bins nb pos dim np et "e").1 i, (unstructured sched f nf f1 bins nb pos dim np et "e").2 i) := by
  rw [unstructured_spec sched hs, unstructured_spec sched hs]
  have hd : ∀ j k, distOf "e" dim pos' dim np j k = distOf "e" dim pos dim np j k := by
    intro j k
    simp only [distOf, if_true, beq_self_eq_true]
    -- rotate, then translate
    have h1 := dist_orthogonal dim Q hQ pos (fun d p => if h : d < dim then ∑ e : Fin dim, Q ⟨d, h⟩ e * pos e p else 0)
      (by intro d p; simp [d.2]) dim np j k
    rw [← h1]
    rw [dist_euclid_real, dist_euclid_real]
    congr 1
    refine Finset.sum_congr rfl (fun d hd => ?_)
    have hd' : d < dim := Finset.mem_range.1 hd
    have := hpos ⟨d, hd'⟩
    simp only [] at this
    rw [this j, this k]
    simp [hd']
  split
  · simp only [binCell_congr_dist f nf _ _ _ bins np i _ (fun j k _ _ => hd j k)]
  · rfl

/-- adding a constant to the field changes nothing (differences only) -/
theorem pairAcc_shift (f : Nat → Nat → ℝ) (c : ℝ) (nf : Nat) (est : ℝ → ℝ) (j k : Nat) (acc : ℝ × Int) :
    pairAcc (fun m p => f m p + c) nf est j k acc = pairAcc f nf est j k acc := by
  unfold pairAcc
  refine forRange_congr _ _ _ _ (fun m _ _ a => ?_) _
  simp only [isnan_real]
  congr 3; ring_nf

theorem unstructured_shift (sched : Sched) (hs : sched.Admissible)
    (f : Nat → Nat → ℝ) (c : ℝ) (nf f1 : Nat) (bins : Nat → ℝ) (nb : Nat) (pos : Nat → Nat → ℝ) (dim np : Nat)
    (et dt : String) (i : Nat) :
    ((unstructured sched (fun m p => f m p + c) nf f1 bins nb pos dim np et dt).1 i,
     (unstructured sched (fun m p => f m p + c) nf f1 bins nb pos dim np et dt).2 i) =
    ((unstructured sched f nf f1 bins nb pos dim np et dt).1 i, (unstructured sched f nf f1 bins nb pos dim np et dt).2 i) := by
  rw [unstructured_spec sched hs, unstructured_spec sched hs]
  have : ∀ acc, binCell (fun m p => f m p + c) nf (choose_estimator_func et) (distOf dt dim pos dim np) bins np i acc =
      binCell f nf (choose_estimator_func et) (distOf dt dim pos dim np) bins np i acc := by
    intro acc
    unfold binCell
    refine forRange_congr _ _ _ _ (fun j _ _ a => ?_) _
    refine forRange_congr _ _ _ _ (fun k _ _ a => ?_) _
    rw [pairAcc_shift]
  simp only [this]

/-- scaling the field by `a` scales the Matheron estimate by `a²` -/
theorem accum_scale_matheron (f : Nat → Nat → ℝ) (a : ℝ) (l : List (Nat × Nat × Nat)) (v : ℝ) (c : Int) :
    accum (fun m p => a * f m p) (choose_estimator_func "m") l (a ^ 2 * v, c) =
      (a ^ 2 * (accum f (choose_estimator_func "m") l (v, c)).1, (accum f (choose_estimator_func "m") l (v, c)).2) := by
  unfold accum
  induction l generalizing v c with
  | nil => rfl
  | cons t l ih =>
    simp only [List.foldl_cons]
    have : a ^ 2 * v + (choose_estimator_func "m" : ℝ → ℝ) (a * f t.2.2 t.2.1 - a * f t.2.2 t.1) =
        a ^ 2 * (v + (choose_estimator_func "m" : ℝ → ℝ) (f t.2.2 t.2.1 - f t.2.2 t.1)) := by
      rw [matheron_estimator_real, matheron_estimator_real]; ring
    rw [this, ih]

theorem matheron_scale_square (sched : Sched) (hs : sched.Admissible)
    (f : Nat → Nat → ℝ) (a : ℝ) (nf f1 : Nat) (bins : Nat → ℝ) (nb : Nat) (pos : Nat → Nat → ℝ) (dim np : Nat)
    (dt : String) (i : Nat) (hi : i < nb - 1) :
    (unstructured sched (fun m p => a * f m p) nf f1 bins nb pos dim np "m" dt).1 i =
      a ^ 2 * (unstructured sched f nf f1 bins nb pos dim np "m" dt).1 i ∧
    (unstructured sched (fun m p => a * f m p) nf f1 bins nb pos dim np "m" dt).2 i =
      (unstructured sched f nf f1 bins nb pos dim np "m" dt).2 i := by
  have h1 := unstructured_spec sched hs (fun m p => a * f m p) nf f1 bins nb pos dim np "m" dt i
  have h2 := unstructured_spec sched hs f nf f1 bins nb pos dim np "m" dt i
  simp only [hi, if_true] at h1 h2
  have e1 := congrArg Prod.fst h1; have e2 := congrArg Prod.snd h1
  have e3 := congrArg Prod.fst h2; have e4 := congrArg Prod.snd h2
  simp only [] at e1 e2 e3 e4
  rw [e1, e2, e3, e4, binCell_eq_accum, binCell_eq_accum]
  -- over ℝ no value is NaN: the triple lists coincide
  have hT : triples (fun m p => a * f m p) nf np (inBin (distOf dt dim pos dim np) bins i) =
      triples f nf np (inBin (distOf dt dim pos dim np) bins i) := by
    unfold triples validFields; simp
  rw [hT]
  have key : accum (fun m p => a * f m p) (choose_estimator_func "m")
      (triples f nf np (inBin (distOf dt dim pos dim np) bins i)) ((((0:Nat):ℝ)), (0:Int)) =
      (a ^ 2 * (accum f (choose_estimator_func "m") (triples f nf np (inBin (distOf dt dim pos dim np) bins i)) ((((0:Nat):ℝ)), (0:Int))).1,
       (accum f (choose_estimator_func "m") (triples f nf np (inBin (distOf dt dim pos dim np) bins i)) ((((0:Nat):ℝ)), (0:Int))).2) := by
    have := accum_scale_matheron f a (triples f nf np (inBin (distOf dt dim pos dim np) bins i)) 0 0
    simpa using this
  rw [key]
  constructor
  · simp only [matheron_real]; ring_nf
  · rfl

/-- great-circle binning in a length unit `g > 0` equals binning in radians after unit conversion:
    `d` (radians) lies in `[b_i / g, b_{i+1} / g)` iff `d · g` lies in `[b_i, b_{i+1})` -/
theorem geo_scale_bins (d g lo hi : ℝ) (hg : 0 < g) :
    (¬ (d < lo / g ∨ d ≥ hi / g)) ↔ (lo ≤ d * g ∧ d * g < hi) := by
  rw [not_or, not_lt, ge_iff_le, not_le, div_le_iff₀ hg, lt_div_iff₀ hg]

theorem binsToRadians_spec (bins : List ℝ) (g : ℝ) :
    GSV.Model.Vario.binsToRadians bins true g = bins.map (· / g) ∧
    GSV.Model.Vario.binsToRadians bins false g = bins := by
  simp [GSV.Model.Vario.binsToRadians]

/-! ### the binning glue: explicit `bin_edges` or `standard_bins(bin_no, max_dist, geo_scale)` -/

open GSV.Model.Vario in
theorem binCentres_scale (g : ℝ) (e : List ℝ) : binCentres (e.map (g * ·)) = (binCentres e).map (g * ·) := by
  unfold binCentres
  rw [← List.map_tail, List.zip_map, List.map_map, List.map_map]
  refine List.map_congr_left fun p _ => ?_
  simp only [Function.comp, Prod.map]
  ring

open GSV.Model.Vario in
theorem binsToRadians_scale {g : ℝ} (hg : 0 < g) (e : List ℝ) :
    binsToRadians (e.map (g * ·)) true g = binsToRadians e true 1 := by
  simp only [binsToRadians, if_true, List.map_map]
  refine List.map_congr_left fun x _ => ?_
  simp only [Function.comp]
  field_simp

open GSV.Model.Vario in
/-- what `vario_estimate` returns as bin centres and hands to the kernel, spelled out: the edges are the given ones or
    those of `standard_bins` (called with the same `geo_scale`, `bin_no`, `max_dist`), the centres are their mid-points
    (same unit), the kernel gets the edges divided by `geo_scale` for lat-lon input and unchanged otherwise -/
theorem varioBins_spec (be : Option (List ℝ)) (latlon : Bool) (g : ℝ) (axes : List (List ℝ)) (bn : Option ℕ) (md : Option ℝ)
    (c k : List ℝ) (h : varioBins be latlon g axes bn md = .ok (c, k)) :
    ∃ e, (match be with | some e' => e = e' | none => GSV.Model.LatLon.standardBins latlon g (some axes) bn md = .ok e) ∧
      c = binCentres e ∧ k = (if latlon then e.map (· / g) else e) := by
  unfold varioBins at h
  cases be with
  | some e' =>
    simp only [Except.ok.injEq, Prod.mk.injEq] at h
    exact ⟨e', rfl, h.1.symm, by rw [← h.2]; simp [binsToRadians]⟩
  | none =>
    simp only at h
    cases hs : GSV.Model.LatLon.standardBins latlon g (some axes) bn md with
    | error err => rw [hs] at h; simp at h
    | ok e =>
      rw [hs] at h
      simp only [Except.ok.injEq, Prod.mk.injEq] at h
      exact ⟨e, rfl, h.1.symm, by rw [← h.2]; simp [binsToRadians]⟩

open GSV.Model.Vario in
/-- **great-circle binning in any length unit equals binning in radians after unit conversion**, for every way of
    describing the bins: with `geo_scale = g > 0` and all lengths the caller gives (`bin_edges`, `max_dist`) expressed in
    that unit, the kernel receives exactly the edges of the radian call and the returned bin centres are the radian
    centres times `g` — `bin_edges` given or not, `bin_no` given or not, `max_dist` given or not -/
theorem varioBins_geo_scale {g : ℝ} (hg : 0 < g) (be : Option (List ℝ)) (axes : List (List ℝ)) (bn : Option ℕ) (md : Option ℝ) :
    varioBins (be.map fun e => e.map (g * ·)) true g axes bn (md.map (g * ·))
      = (varioBins be true 1 axes bn md).map (fun ck => (ck.1.map (g * ·), ck.2)) := by
  unfold varioBins
  cases be with
  | some e =>
    simp only [Option.map_some, Except.map, binCentres_scale, binsToRadians_scale hg]
  | none =>
    simp only [Option.map_none]
    rw [GSV.Model.LatLon.standardBins_geo_scale hg]
    cases GSV.Model.LatLon.standardBins true 1 (some axes) bn md with
    | error err => rfl
    | ok e => simp only [Except.map, binCentres_scale, binsToRadians_scale hg]

example : (0:ℝ) < 6371 := by norm_num

example : ∃ Q : Matrix (Fin 2) (Fin 2) ℝ, Q.transpose * Q = 1 ∧ Q ≠ 1 :=
  ⟨!![0, -1; 1, 0], by ext i j; fin_cases i <;> fin_cases j <;> simp [Matrix.mul_apply, Fin.sum_univ_two],
    by intro h; have := congrFun (congrFun h 0) 0; simp at this⟩

end GSV.Props.C09
