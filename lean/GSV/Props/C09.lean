/-
  C09 — variogram estimation respects its invariances and preprocessing semantics.
  Built on the kernel specifications (KernelVario / C08) regenerated from estimator.pyx.
-/
import GSV.Props.C08
import GSV.Model.Vario
import GSV.Lemmas.Sum
import Mathlib.LinearAlgebra.Matrix.DotProduct
import Mathlib.Data.Matrix.Mul
import Mathlib.Tactic.Ring
import Mathlib.Tactic.Linarith
import Mathlib.Tactic.FieldSimp
import Mathlib.Tactic.Positivity
namespace GSV.Props.C09
open GSV GSV.Transc GSV.Estimator GSV.Props GSV.Props.C08 Finset

set_option linter.unusedSectionVars false

/-! ## law-free facts (any carrier) -/
section lawfree
variable {α : Type} [Arith α] [Transc α] [DecidableLT α] [DecidableLE α]

/-- the isotropic estimator sees the positions only through the pairwise distances:
    any transformation of the coordinates that preserves them leaves every bin unchanged -/
theorem binCell_congr_dist (f : Nat → Nat → α) (nf : Nat) (est : α → α) (dist dist' : Nat → Nat → α) (bins : Nat → α)
    (np i : Nat) (acc : α × Int) (h : ∀ j k, j < k → k < np → dist j k = dist' j k) :
    binCell f nf est dist bins np i acc = binCell f nf est dist' bins np i acc := by
  unfold binCell
  refine forRange_congr _ _ _ _ (fun j _ hj a => ?_) _
  refine forRange_congr _ _ _ _ (fun k hk1 hk2 a => ?_) _
  rw [h j k (by omega) hk2]

/-- a point whose value is missing (NaN) in every field contributes nothing — exactly like a removed
    point: every pair it takes part in has no valid field -/
theorem nan_point_no_contribution (f : Nat → Nat → α) (nf : Nat) (q : Nat)
    (hq : ∀ m, m < nf → isnan (f m q) = true) (j k : Nat) (hjk : j = q ∨ k = q) :
    validFields f nf j k = [] := by
  unfold validFields
  rw [List.filter_eq_nil_iff]
  intro m hm
  have hm' : m < nf := (mem_idxRange.1 hm).2
  rcases hjk with rfl | rfl <;> simp [hq m hm']

theorem nan_pair_no_contribution (f : Nat → Nat → α) (nf : Nat) (est : α → α) (q j k : Nat)
    (hq : ∀ m, m < nf → isnan (f m q) = true) (hjk : j = q ∨ k = q) (acc : α × Int) :
    pairAcc f nf est j k acc = acc := by
  rw [pairAcc_eq_accum, nan_point_no_contribution f nf q hq j k hjk]
  rfl

/-- common-mask rule of `vario_estimate`: a point is kept iff it is not in the extra mask and at least
    one field has an unmasked value there (mask *union* with the all-fields mask) -/
theorem selectPoint_iff (em : Option (Nat → Bool)) (fmask : Nat → Nat → Bool) (nf p : Nat) :
    GSV.Model.Vario.selectPoint em fmask nf p = true ↔
      (∀ e, em = some e → e p = false) ∧ ∃ m, m < nf ∧ fmask m p = false := by
  unfold GSV.Model.Vario.selectPoint
  cases em with
  | none =>
    simp only [Bool.not_eq_true', List.all_eq_false, List.mem_range, reduceCtorEq, false_imp_iff, implies_true, true_and]
    constructor
    · rintro ⟨m, hm, h⟩; exact ⟨m, hm, by simpa using h⟩
    · rintro ⟨m, hm, h⟩; exact ⟨m, hm, by simp [h]⟩
  | some e =>
    simp only [Bool.not_eq_true', Bool.or_eq_false_iff, List.all_eq_false, List.mem_range, Option.some.injEq, forall_eq']
    constructor
    · rintro ⟨h1, m, hm, h⟩; exact ⟨h1, m, hm, by simpa using h⟩
    · rintro ⟨h1, m, hm, h⟩; exact ⟨h1, m, hm, by simp [h]⟩

/-- masked values that survive the selection reach the kernel as NaN, i.e. as removed values -/
theorem masked_cell_is_nan (nan : α) (hn : isnan nan = true) (f : Nat → Nat → α) (fmask : Nat → Nat → Bool)
    (m p : Nat) (hm : fmask m p = true) :
    isnan (GSV.Model.Vario.cellValue nan f fmask none m p) = true := by
  simp [GSV.Model.Vario.cellValue, hm, hn]

end lawfree

/-! ## over ℝ -/

/-- `dist_euclid` is the Euclidean distance -/
theorem dist_euclid_real (dim : Nat) (pos : Nat → Nat → ℝ) (p0 p1 i j : Nat) :
    dist_euclid dim pos p0 p1 i j = Real.sqrt (∑ d ∈ range dim, (pos d i - pos d j) ^ 2) := by
  unfold dist_euclid
  simp only [sqrt_real]
  congr 1
  have := forRange_proj (fun (s : dist_euclid.St ℝ) => s.dist_squared)
    (fun d (st : dist_euclid.St ℝ) => ({ st with dist_squared := st.dist_squared + (pos d i - pos d j) * (pos d i - pos d j) } : dist_euclid.St ℝ))
    (fun d acc => acc + (pos d i - pos d j) * (pos d i - pos d j)) (by intros; rfl) 0 dim
    ({ dist_squared := ((0:Nat):ℝ) } : dist_euclid.St ℝ)
  simp only [] at this
  rw [this, forRange_cast_zero_add_eq_sum]
  exact Finset.sum_congr rfl (fun d _ => by ring)

/-- translation invariance of the distances -/
theorem dist_translate (dim : Nat) (pos : Nat → Nat → ℝ) (t : Nat → ℝ) (p0 p1 i j : Nat) :
    dist_euclid dim (fun d p => pos d p + t d) p0 p1 i j = dist_euclid dim pos p0 p1 i j := by
  rw [dist_euclid_real, dist_euclid_real]
  congr 1
  exact Finset.sum_congr rfl (fun d _ => by ring)

/-- invariance of the distances under orthogonal maps `Q` (`Qᵀ Q = 1`): rotations and reflections -/
theorem dist_orthogonal (dim : Nat) (Q : Matrix (Fin dim) (Fin dim) ℝ) (hQ : Q.transpose * Q = 1)
    (pos : Nat → Nat → ℝ) (pos' : Nat → Nat → ℝ)
    (hpos : ∀ (d : Fin dim) p, pos' d p = ∑ e : Fin dim, Q d e * pos e p) (p0 p1 i j : Nat) :
    dist_euclid dim pos' p0 p1 i j = dist_euclid dim pos p0 p1 i j := by
  rw [dist_euclid_real, dist_euclid_real]
  congr 1
  rw [Finset.sum_range, Finset.sum_range]
  set v : Fin dim → ℝ := fun e => pos e i - pos e j with hv
  have h1 : ∀ d : Fin dim, pos' d i - pos' d j = (Q.mulVec v) d := by
    intro d
    rw [hpos, hpos, ← Finset.sum_sub_distrib]
    simp only [Matrix.mulVec, dotProduct, hv, mul_sub]
  have h2 : (∑ d : Fin dim, (Q.mulVec v) d ^ 2) = ∑ e : Fin dim, v e ^ 2 := by
    have : (Q.mulVec v) ⬝ᵥ (Q.mulVec v) = v ⬝ᵥ v := by
      rw [Matrix.dotProduct_mulVec, Matrix.vecMul_mulVec, ← Matrix.vecMul_transpose] at *
      sorry
    simpa [dotProduct, pow_two] using this
  simp only [h1]
  rw [h2]

end GSV.Props.C09
