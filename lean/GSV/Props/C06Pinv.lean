/-
  C06 — coincident conditioning points solved with the pseudo-inverse act as a single point carrying
  their mean value (`duplicates_pinv_simple`).

  Mathlib has no Moore–Penrose inverse; it is formalised here as a predicate (the four Penrose equations).
  Route: (i) the four equations determine `M` uniquely; (ii) a duplicated simple-kriging system is
  `K = E K' Eᵀ` with `E` the 0/1 duplication matrix of a surjection `π` (all points → distinct locations)
  and `K'` the (invertible) matrix of the merged system; (iii) `M₀ = E D⁻¹ K'⁻¹ D⁻¹ Eᵀ` (`D = EᵀE` = diagonal
  matrix of multiplicities) satisfies the four equations, hence IS the pseudo-inverse scipy hands to the
  kernel; (iv) the kernel's bilinear forms `zᵀ M k`, `kᵀ M k` (C05.field_eq_bilinear / err_eq_quadratic)
  are those of the merged system with the fibre means of the data.  Any multiplicities, any number of points.
-/
import GSV.Props.C06
namespace GSV.Props.C06
open GSV GSV.Props GSV.Props.C05 GSV.Model.Krige Finset Matrix

set_option linter.unusedSectionVars false

/-! ## (i) the Penrose equations and uniqueness -/
section penrose
variable {ι : Type*} [Fintype ι]

/-- `M` is a Moore–Penrose inverse of `K`: the four Penrose equations (over ℝ: transpose = adjoint) -/
def IsMPInv (K M : Matrix ι ι ℝ) : Prop :=
  K * M * K = K ∧ M * K * M = M ∧ (K * M)ᵀ = K * M ∧ (M * K)ᵀ = M * K

theorem IsMPInv.eq_left {K M N : Matrix ι ι ℝ} (hM : IsMPInv K M) (hN : IsMPInv K N) : M = M * K * N := by
  obtain ⟨_, m2, m3, _⟩ := hM
  obtain ⟨n1, _, n3, _⟩ := hN
  calc M = M * K * M := m2.symm
    _ = M * (K * M)ᵀ := by rw [m3, Matrix.mul_assoc]
    _ = M * ((K * N * K) * M)ᵀ := by rw [n1]
    _ = M * ((K * N) * (K * M))ᵀ := by rw [Matrix.mul_assoc (K * N)]
    _ = M * ((K * M)ᵀ * (K * N)ᵀ) := by rw [transpose_mul]
    _ = M * ((K * M) * (K * N)) := by rw [m3, n3]
    _ = (M * K * M) * K * N := by simp only [Matrix.mul_assoc]
    _ = M * K * N := by rw [m2]

theorem IsMPInv.eq_right {K M N : Matrix ι ι ℝ} (hM : IsMPInv K M) (hN : IsMPInv K N) : N = M * K * N := by
  obtain ⟨m1, _, _, m4⟩ := hM
  obtain ⟨_, n2, _, n4⟩ := hN
  calc N = N * K * N := n2.symm
    _ = (N * K)ᵀ * N := by rw [n4]
    _ = (N * (K * M * K))ᵀ * N := by rw [m1]
    _ = ((N * K) * (M * K))ᵀ * N := by simp only [Matrix.mul_assoc]
    _ = ((M * K)ᵀ * (N * K)ᵀ) * N := by rw [transpose_mul]
    _ = ((M * K) * (N * K)) * N := by rw [m4, n4]
    _ = M * K * (N * K * N) := by simp only [Matrix.mul_assoc]
    _ = M * K * N := by rw [n2]

/-- **uniqueness of the Moore–Penrose inverse** -/
theorem IsMPInv.unique {K M N : Matrix ι ι ℝ} (hM : IsMPInv K M) (hN : IsMPInv K N) : M = N :=
  (hM.eq_left hN).trans (hM.eq_right hN).symm

/-- a two-sided inverse is the Moore–Penrose inverse (so the clause extends the non-singular case) -/
theorem IsMPInv.of_inverse [DecidableEq ι] {K M : Matrix ι ι ℝ} (h : M * K = 1) : IsMPInv K M := by
  have h' : K * M = 1 := mul_eq_one_comm.mp h
  refine ⟨?_, ?_, ?_, ?_⟩
  · rw [h', Matrix.one_mul]
  · rw [h, Matrix.one_mul]
  · rw [h', transpose_one]
  · rw [h, transpose_one]

end penrose

/-! ## (ii)–(iii) the duplicated system and its pseudo-inverse -/
section dup
variable {ι κ : Type*} [Fintype ι] [Fintype κ] [DecidableEq ι] [DecidableEq κ]

/-- duplication matrix of `π : all points → distinct locations`: exactly one `1` per row -/
def dupMat (π : ι → κ) : Matrix ι κ ℝ := Matrix.of fun i a => if π i = a then 1 else 0

/-- multiplicity of a location -/
def mult (π : ι → κ) (a : κ) : ℝ := ((univ.filter fun i => π i = a).card : ℝ)

/-- mean of the data over the points coinciding at location `a` -/
noncomputable def fiberMean (π : ι → κ) (z : ι → ℝ) (a : κ) : ℝ :=
  (∑ i ∈ univ.filter (fun i => π i = a), z i) / mult π a

theorem mult_pos (π : ι → κ) (hπ : Function.Surjective π) (a : κ) : 0 < mult π a := by
  obtain ⟨i, hi⟩ := hπ a
  unfold mult
  exact_mod_cast Finset.card_pos.mpr ⟨i, by simp [hi]⟩

theorem dupMat_transpose_mul (π : ι → κ) : (dupMat π)ᵀ * dupMat π = diagonal (mult π) := by
  ext a b
  simp only [mul_apply, transpose_apply, dupMat, of_apply, diagonal_apply, mult]
  by_cases hab : a = b
  · subst hab
    have : ∀ i, (if π i = a then (1:ℝ) else 0) * (if π i = a then 1 else 0) = if π i = a then 1 else 0 := by
      intro i; split <;> simp
    simp only [this, if_true]
    simp
  · simp only [hab, if_false]
    apply Finset.sum_eq_zero
    intro i _
    by_cases h1 : π i = a
    · have : ¬ π i = b := fun h2 => hab (h1.symm.trans h2)
      simp [this]
    · simp [h1]

theorem dupMat_mulVec (π : ι → κ) (v : κ → ℝ) : dupMat π *ᵥ v = fun i => v (π i) := by
  funext i
  simp [mulVec, dotProduct, dupMat]

theorem dupMat_transpose_mulVec (π : ι → κ) (z : ι → ℝ) :
    (dupMat π)ᵀ *ᵥ z = fun a => ∑ i ∈ univ.filter (fun i => π i = a), z i := by
  funext a
  simp [mulVec, dotProduct, dupMat, Finset.sum_filter]

theorem dup_eq (π : ι → κ) (K' : Matrix κ κ ℝ) (K : Matrix ι ι ℝ) (hK : ∀ i j, K i j = K' (π i) (π j)) :
    K = dupMat π * K' * (dupMat π)ᵀ := by
  ext i j
  simp [mul_apply, dupMat, hK]

/-- the candidate `M₀ = E D⁻¹ K'⁻¹ D⁻¹ Eᵀ` -/
noncomputable def dupPinv (π : ι → κ) (M' : Matrix κ κ ℝ) : Matrix ι ι ℝ :=
  dupMat π * diagonal (fun a => (mult π a)⁻¹) * M' * diagonal (fun a => (mult π a)⁻¹) * (dupMat π)ᵀ

theorem diag_mult_inv (π : ι → κ) (hπ : Function.Surjective π) :
    diagonal (mult π) * diagonal (fun a => (mult π a)⁻¹) = 1 ∧
    diagonal (fun a => (mult π a)⁻¹) * diagonal (mult π) = 1 := by
  have h : ∀ a, mult π a ≠ 0 := fun a => (mult_pos π hπ a).ne'
  constructor
  · rw [diagonal_mul_diagonal, ← diagonal_one]; congr 1; funext a; exact mul_inv_cancel₀ (h a)
  · rw [diagonal_mul_diagonal, ← diagonal_one]; congr 1; funext a; exact inv_mul_cancel₀ (h a)

/-- `K M₀ = M₀ K = E D⁻¹ Eᵀ` (the orthogonal projector onto vectors constant on coincident points) -/
theorem dupPinv_mul (π : ι → κ) (hπ : Function.Surjective π) (K' M' : Matrix κ κ ℝ) (hM' : M' * K' = 1) :
    (dupMat π * K' * (dupMat π)ᵀ) * dupPinv π M' = dupMat π * diagonal (fun a => (mult π a)⁻¹) * (dupMat π)ᵀ ∧
    dupPinv π M' * (dupMat π * K' * (dupMat π)ᵀ) = dupMat π * diagonal (fun a => (mult π a)⁻¹) * (dupMat π)ᵀ := by
  have hK' : K' * M' = 1 := mul_eq_one_comm.mp hM'
  obtain ⟨hD1, hD2⟩ := diag_mult_inv π hπ
  have h1 : ∀ X : Matrix κ ι ℝ, (dupMat π)ᵀ * (dupMat π * X) = diagonal (mult π) * X := fun X => by
    rw [← Matrix.mul_assoc, dupMat_transpose_mul]
  have h2 : ∀ X : Matrix κ ι ℝ, diagonal (mult π) * (diagonal (fun a => (mult π a)⁻¹) * X) = X := fun X => by
    rw [← Matrix.mul_assoc, hD1, Matrix.one_mul]
  have h3 : ∀ X : Matrix κ ι ℝ, diagonal (fun a => (mult π a)⁻¹) * (diagonal (mult π) * X) = X := fun X => by
    rw [← Matrix.mul_assoc, hD2, Matrix.one_mul]
  have h4 : ∀ X : Matrix κ ι ℝ, K' * (M' * X) = X := fun X => by rw [← Matrix.mul_assoc, hK', Matrix.one_mul]
  have h5 : ∀ X : Matrix κ ι ℝ, M' * (K' * X) = X := fun X => by rw [← Matrix.mul_assoc, hM', Matrix.one_mul]
  constructor
  · simp only [dupPinv, Matrix.mul_assoc, h1, h2, h4]
  · simp only [dupPinv, Matrix.mul_assoc, h1, h3, h5]

/-- **(iii)** `M₀` satisfies the four Penrose equations of the duplicated system — for every surjection
    (any multiplicities), every invertible merged matrix `K'`.  In particular the hypothesis `IsMPInv K M`
    of the theorems below is satisfiable for every duplicated system. -/
theorem dupPinv_isMPInv (π : ι → κ) (hπ : Function.Surjective π) (K' M' : Matrix κ κ ℝ) (hM' : M' * K' = 1) :
    IsMPInv (dupMat π * K' * (dupMat π)ᵀ) (dupPinv π M') := by
  obtain ⟨hKM, hMK⟩ := dupPinv_mul π hπ K' M' hM'
  obtain ⟨hD1, hD2⟩ := diag_mult_inv π hπ
  have h1 : ∀ X : Matrix κ ι ℝ, (dupMat π)ᵀ * (dupMat π * X) = diagonal (mult π) * X := fun X => by
    rw [← Matrix.mul_assoc, dupMat_transpose_mul]
  have h3 : ∀ X : Matrix κ ι ℝ, diagonal (fun a => (mult π a)⁻¹) * (diagonal (mult π) * X) = X := fun X => by
    rw [← Matrix.mul_assoc, hD2, Matrix.one_mul]
  have hP : (dupMat π * diagonal (fun a => (mult π a)⁻¹) * (dupMat π)ᵀ)ᵀ =
      dupMat π * diagonal (fun a => (mult π a)⁻¹) * (dupMat π)ᵀ := by
    rw [transpose_mul, transpose_mul, transpose_transpose, diagonal_transpose, Matrix.mul_assoc]
  refine ⟨?_, ?_, ?_, ?_⟩
  · rw [hKM]; simp only [Matrix.mul_assoc, h1, h3]
  · rw [hMK]; simp only [dupPinv, Matrix.mul_assoc, h1, h3]
  · rw [hKM, hP]
  · rw [hMK, hP]

/-- every Moore–Penrose inverse of the duplicated system is `M₀` -/
theorem mpinv_dup_eq (π : ι → κ) (hπ : Function.Surjective π) (K' M' : Matrix κ κ ℝ) (hM' : M' * K' = 1)
    (K M : Matrix ι ι ℝ) (hK : ∀ i j, K i j = K' (π i) (π j)) (hM : IsMPInv K M) : M = dupPinv π M' := by
  rw [dup_eq π K' K hK] at hM
  exact hM.unique (dupPinv_isMPInv π hπ K' M' hM')

/-! ## (iv) the kernel's bilinear forms -/

theorem dupPinv_mulVec (π : ι → κ) (hπ : Function.Surjective π) (M' : Matrix κ κ ℝ) (k' : κ → ℝ) :
    dupPinv π M' *ᵥ (dupMat π *ᵥ k') = dupMat π *ᵥ (diagonal (fun a => (mult π a)⁻¹) *ᵥ (M' *ᵥ k')) := by
  obtain ⟨hD1, hD2⟩ := diag_mult_inv π hπ
  simp only [dupPinv, ← mulVec_mulVec]
  rw [mulVec_mulVec k' (dupMat π)ᵀ, dupMat_transpose_mul, mulVec_mulVec k', hD2, one_mulVec]

/-- **duplicates with the pseudo-inverse, matrix form.**  `π` maps all conditioning points onto the distinct
    locations (surjective; any multiplicities).  The duplicated matrix is `K i j = K' (π i) (π j)`, a target sees
    `k i = k' (π i)`, `M'` inverts the merged matrix `K'`, and `M` is ANY Moore–Penrose inverse of `K`.  Then the
    two bilinear forms the kernel computes are those of the merged system, the data being replaced by their
    means over coincident points. -/
theorem duplicates_pinv (π : ι → κ) (hπ : Function.Surjective π) (K' M' : Matrix κ κ ℝ) (hM' : M' * K' = 1)
    (K M : Matrix ι ι ℝ) (hK : ∀ i j, K i j = K' (π i) (π j)) (hM : IsMPInv K M)
    (z k : ι → ℝ) (k' : κ → ℝ) (hk : ∀ i, k i = k' (π i)) :
    z ⬝ᵥ (M *ᵥ k) = fiberMean π z ⬝ᵥ (M' *ᵥ k') ∧ k ⬝ᵥ (M *ᵥ k) = k' ⬝ᵥ (M' *ᵥ k') := by
  have hkE : k = dupMat π *ᵥ k' := by rw [dupMat_mulVec]; funext i; exact hk i
  have hm : ∀ a, mult π a ≠ 0 := fun a => (mult_pos π hπ a).ne'
  rw [mpinv_dup_eq π hπ K' M' hM' K M hK hM, hkE, dupPinv_mulVec π hπ]
  have key : ∀ v : ι → ℝ, ∀ w : κ → ℝ, v ⬝ᵥ (dupMat π *ᵥ w) = ((dupMat π)ᵀ *ᵥ v) ⬝ᵥ w := by
    intro v w
    rw [dotProduct_mulVec, ← vecMul_transpose, transpose_transpose]
  constructor
  · rw [key, dupMat_transpose_mulVec]
    simp only [dotProduct, mulVec_diagonal, fiberMean]
    apply Finset.sum_congr rfl
    intro a _
    rw [div_eq_mul_inv]; ring
  · rw [key, mulVec_mulVec, dupMat_transpose_mul]
    simp only [dotProduct, mulVec_diagonal]
    apply Finset.sum_congr rfl
    intro a _
    field_simp [hm a]

/-- the hypotheses are satisfiable by a genuinely singular system: two coincident points (`π` constant), merged
    matrix `(2)`, duplicated matrix `!![2,2;2,2]` (determinant 0, no inverse), pseudo-inverse `!![1/8,1/8;1/8,1/8]` -/
example : ∃ (π : Fin 2 → Fin 1) (K' M' : Matrix (Fin 1) (Fin 1) ℝ) (K M : Matrix (Fin 2) (Fin 2) ℝ),
    Function.Surjective π ∧ ¬ Function.Injective π ∧ M' * K' = 1 ∧ (∀ i j, K i j = K' (π i) (π j)) ∧ IsMPInv K M ∧
    K.det = 0 := by
  refine ⟨fun _ => 0, !![2], !![1/2], !![2, 2; 2, 2], !![1/8, 1/8; 1/8, 1/8], ?_, ?_, ?_, ?_, ?_, ?_⟩
  · intro a; exact ⟨0, Subsingleton.elim _ _⟩
  · intro h; exact absurd (h (a₁ := 0) (a₂ := 1) rfl) (by decide)
  · ext i j; fin_cases i; fin_cases j; simp [Matrix.mul_apply]
  · intro i j; fin_cases i <;> fin_cases j <;> simp
  · refine ⟨?_, ?_, ?_, ?_⟩ <;> ext i j <;> fin_cases i <;> fin_cases j <;>
      simp [Matrix.mul_apply, Fin.sum_univ_two] <;> norm_num
  · simp [Matrix.det_fin_two]

/-! ## on the kriging model's arrays (simple kriging) -/

/-- layout of a simple-kriging system with `n` conditioning points: no unbiasedness row, no drifts -/
def simpleL (n : Nat) : Layout := ⟨n, false, 0, 0⟩

theorem simpleL_size (n : Nat) : (simpleL n).size = n := rfl

private theorem fin_fiber_sum (n m : Nat) (π : Nat → Nat) (hπ : ∀ i, i < n → π i < m) (a : Fin m) (g : Nat → ℝ) :
    ∑ i ∈ univ.filter (fun i : Fin n => (⟨π i, hπ i i.2⟩ : Fin m) = a), g i =
      ∑ i ∈ (range n).filter (fun i => π i = a), g i := by
  rw [Finset.sum_filter, Finset.sum_filter, Finset.sum_range]
  apply Finset.sum_congr rfl
  intro i _
  simp [Fin.ext_iff]

/-- **`duplicates_pinv_simple`** — on the model's own arrays, for ANY number of conditioning points and ANY
    multiplicities.  `π` sends the `n` conditioning points onto the `m` distinct locations.  Hypotheses:
    covariances depend on the location only (`hC`, `hc`), zero measurement error (`herr`, `herr'`: otherwise the
    duplicated matrix is regular and no pseudo-inverse is involved), `M` is a Moore–Penrose inverse of the
    assembled duplicated matrix (what `pinv`/`pinvh` return), `M'` inverts the assembled merged matrix, and the
    merged system carries at every location the MEAN of the prepared data `norm(z − trend) − mean` of the points
    coinciding there (`hmean`; division by a multiplicity ≥ 1).  Then the kernel's estimate and its variance term
    for a target are those of the merged system. -/
theorem duplicates_pinv_simple (n m : Nat) (π : Nat → Nat) (hπ : ∀ i, i < n → π i < m)
    (hsurj : ∀ a, a < m → ∃ i, i < n ∧ π i = a)
    (C C' : Nat → Nat → ℝ) (err err' : Nat → ℝ) (F E F' E' : Nat → Nat → ℝ)
    (hC : ∀ i j, i < n → j < n → C i j = C' (π i) (π j))
    (herr : ∀ i, i < n → err i = 0) (herr' : ∀ a, a < m → err' a = 0)
    (c c' f e f' e' : Nat → Nat → ℝ) (p p' : Nat) (hc : ∀ i, i < n → c i p = c' (π i) p')
    (M M' : Nat → Nat → ℝ)
    (hM : IsMPInv (toMat (simpleL n).size (assembleK (simpleL n) C err F E)) (toMat (simpleL n).size M))
    (hM' : toMat (simpleL m).size M' * toMat (simpleL m).size (assembleK (simpleL m) C' err' F' E') = 1)
    (valn mean valn' mean' : Nat → ℝ)
    (hmean : ∀ a, a < m → valn' a - mean' a =
      (∑ i ∈ (range n).filter (fun i => π i = a), (valn i - mean i)) / (((range n).filter (fun i => π i = a)).card : ℝ)) :
    krigeFieldCell M (assembleRHS (simpleL n) false c f e) (krigeCond (simpleL n) valn mean) (simpleL n).size p ((0:Nat):ℝ) =
      krigeFieldCell M' (assembleRHS (simpleL m) false c' f' e') (krigeCond (simpleL m) valn' mean') (simpleL m).size p' ((0:Nat):ℝ) ∧
    krigeErrCell M (assembleRHS (simpleL n) false c f e) (simpleL n).size p ((0:Nat):ℝ) =
      krigeErrCell M' (assembleRHS (simpleL m) false c' f' e') (simpleL m).size p' ((0:Nat):ℝ) := by
  have hM : IsMPInv (toMat n (assembleK (simpleL n) C err F E)) (toMat n M) := hM
  have hM' : toMat m M' * toMat m (assembleK (simpleL m) C' err' F' E') = 1 := hM'
  simp only [simpleL_size]
  rw [field_eq_bilinear, field_eq_bilinear, err_eq_quadratic, err_eq_quadratic]
  let π' : Fin n → Fin m := fun i => ⟨π i, hπ i i.2⟩
  have hπ' : Function.Surjective π' := by
    intro a
    obtain ⟨i, hi, hia⟩ := hsurj a a.2
    exact ⟨⟨i, hi⟩, Fin.ext hia⟩
  have hK : ∀ i j : Fin n, toMat n (assembleK (simpleL n) C err F E) i j =
      toMat m (assembleK (simpleL m) C' err' F' E') (π' i) (π' j) := by
    intro i j
    have h1 : π i < m := hπ i i.2
    have h2 : π j < m := hπ j j.2
    simp only [toMat, assembleK, simpleL, i.2, j.2, h1, h2, π', and_self, if_true, herr i i.2, herr' _ h1, add_zero,
      ite_self, hC i j i.2 j.2]
  have hk : ∀ i : Fin n, C05.col n (assembleRHS (simpleL n) false c f e) p i =
      C05.col m (assembleRHS (simpleL m) false c' f' e') p' (π' i) := by
    intro i
    have h1 : π i < m := hπ i i.2
    simp [C05.col, assembleRHS, simpleL, i.2, h1, π', hc i i.2]
  have := duplicates_pinv π' hπ' (toMat m (assembleK (simpleL m) C' err' F' E')) (toMat m M') hM'
    (toMat n (assembleK (simpleL n) C err F E)) (toMat n M) hK hM
    (toVec n (krigeCond (simpleL n) valn mean)) (C05.col n (assembleRHS (simpleL n) false c f e) p)
    (C05.col m (assembleRHS (simpleL m) false c' f' e') p') hk
  refine ⟨?_, this.2⟩
  refine this.1.trans ?_
  congr 1
  funext a
  have ha : (a : Nat) < m := a.2
  have e1 := fin_fiber_sum n m π hπ a (fun i => krigeCond (simpleL n) valn mean i)
  have e2 := fin_fiber_sum n m π hπ a (fun _ => (1:ℝ))
  have hcard : mult π' a = (((range n).filter (fun i => π i = a)).card : ℝ) := by
    unfold mult
    rw [Finset.cast_card, Finset.cast_card]
    exact e2
  unfold fiberMean
  rw [hcard]
  simp only [toVec, krigeCond, simpleL, ha, if_true]
  rw [hmean a ha]
  congr 1
  refine e1.trans ?_
  apply Finset.sum_congr rfl
  intro i hi
  have : i < n := Finset.mem_range.mp (Finset.mem_filter.mp hi).1
  simp [krigeCond, simpleL, this]

/-- the same through the model of `Krige.__call__` (chunk loop, generated kernel, variance clipping): the call on
    the duplicated data with a pseudo-inverse returns, at every target, the field AND the clipped variance of the
    call on the merged data — for any chunk sizes and any admissible schedules on either side -/
theorem duplicates_pinv_simple_call (s₁ s₂ : Sched) (h₁ : s₁.Admissible) (h₂ : s₂.Admissible)
    (n m : Nat) (π : Nat → Nat) (hπ : ∀ i, i < n → π i < m)
    (hsurj : ∀ a, a < m → ∃ i, i < n ∧ π i = a)
    (C C' : Nat → Nat → ℝ) (err err' : Nat → ℝ) (F E F' E' : Nat → Nat → ℝ)
    (hC : ∀ i j, i < n → j < n → C i j = C' (π i) (π j))
    (herr : ∀ i, i < n → err i = 0) (herr' : ∀ a, a < m → err' a = 0)
    (c c' f e f' e' : Nat → Nat → ℝ) (pnt cs₁ cs₂ p : Nat) (hcs₁ : 0 < cs₁) (hcs₂ : 0 < cs₂) (hp : p < pnt)
    (hc : ∀ i, i < n → c i p = c' (π i) p)
    (M M' : Nat → Nat → ℝ)
    (hM : IsMPInv (toMat (simpleL n).size (assembleK (simpleL n) C err F E)) (toMat (simpleL n).size M))
    (hM' : toMat (simpleL m).size M' * toMat (simpleL m).size (assembleK (simpleL m) C' err' F' E') = 1)
    (valn mean valn' mean' : Nat → ℝ) (sill : ℝ)
    (hmean : ∀ a, a < m → valn' a - mean' a =
      (∑ i ∈ (range n).filter (fun i => π i = a), (valn i - mean i)) / (((range n).filter (fun i => π i = a)).card : ℝ)) :
    (krigeCall s₁ (simpleL n) M (assembleRHS (simpleL n) false c f e) (krigeCond (simpleL n) valn mean) sill pnt cs₁).1 p =
      (krigeCall s₂ (simpleL m) M' (assembleRHS (simpleL m) false c' f' e') (krigeCond (simpleL m) valn' mean') sill pnt cs₂).1 p ∧
    (krigeCall s₁ (simpleL n) M (assembleRHS (simpleL n) false c f e) (krigeCond (simpleL n) valn mean) sill pnt cs₁).2 p =
      (krigeCall s₂ (simpleL m) M' (assembleRHS (simpleL m) false c' f' e') (krigeCond (simpleL m) valn' mean') sill pnt cs₂).2 p := by
  have h := duplicates_pinv_simple n m π hπ hsurj C C' err err' F E F' E' hC herr herr' c c' f e f' e' p p hc M M' hM hM'
    valn mean valn' mean' hmean
  rw [krigeCall_field s₁ h₁ _ _ _ _ _ _ _ _ hcs₁ hp, krigeCall_field s₂ h₂ _ _ _ _ _ _ _ _ hcs₂ hp,
      krigeCall_var s₁ h₁ _ _ _ _ _ _ _ _ hcs₁ hp, krigeCall_var s₂ h₂ _ _ _ _ _ _ _ _ hcs₂ hp, h.1, h.2]
  exact ⟨rfl, rfl⟩

/-- the model-level hypotheses are satisfiable: three conditioning points, the first two coincident
    (`π = 0,0,1`), merged covariance `!![2,1;1,2]`; the pseudo-inverse of the singular `3×3` matrix exists
    (`dupPinv_isMPInv`) -/
example : ∃ (π : Fin 3 → Fin 2) (K' M' : Matrix (Fin 2) (Fin 2) ℝ), Function.Surjective π ∧ ¬ Function.Injective π ∧
    M' * K' = 1 ∧ IsMPInv (dupMat π * K' * (dupMat π)ᵀ) (dupPinv π M') := by
  have hs : Function.Surjective (![0, 0, 1] : Fin 3 → Fin 2) := by
    intro a; fin_cases a
    · exact ⟨0, rfl⟩
    · exact ⟨2, rfl⟩
  have hinv : (!![2/3, -1/3; -1/3, 2/3] : Matrix (Fin 2) (Fin 2) ℝ) * !![2, 1; 1, 2] = 1 := by
    ext i j; fin_cases i <;> fin_cases j <;> simp [Matrix.mul_apply, Fin.sum_univ_two] <;> norm_num
  exact ⟨![0, 0, 1], !![2, 1; 1, 2], !![2/3, -1/3; -1/3, 2/3], hs,
    fun h => absurd (h (a₁ := 0) (a₂ := 1) rfl) (by decide), hinv, dupPinv_isMPInv _ hs _ _ hinv⟩

end dup

end GSV.Props.C06
