/-
  Tie A, continued (C03): the Gamma / Beta closed forms of `calc_integral_scale` that
  `GSV.Props.C03.reported_integral_scale_special` proves to be the integral of the correlation function
  (`stableCalcIS`, `maternCalcIS`, `rationalCalcIS`, defined in `Props/C03.lean` with Mathlib's `Real.Gamma`) are the
  definitions regenerated from `Stable / Matern / Rational.calc_integral_scale` in
  `src/gstools/covmodel/models.py` (`GSV/Gen/CorFormulas.lean`), once the uninterpreted `sps.gamma` / `sps.beta`
  are read as `Γ` and `B(a, b) = Γ(a) Γ(b) / Γ(a + b)` (that scipy computes these functions is trusted).
  Separate from `GenTieCor.lean` because it imports `GSV.Props.C03`.
  Over `ℝ`, for all arguments, no side condition; proved by `tie_real` (`GenTieReal.lean`), which survives real-equal
  rewrites of the source formulas (e.g. `a / √ν / B` -> `a / (√ν * B)`) and not semantic ones.
-/
import GSV.Props.C03
import GSV.Props.GenTieReal
import GSV.Gen.CorFormulas

namespace GSV.Props.GenTieCorGamma
open GSV GSV.Transc GSV.PyExpr GSV.Model.CovFn GSV.Gen.CorFormulas GSV.Props.C03 GSV.Props.GenTieReal

/-- `scipy.special` with `gamma = Γ` and `beta = B` (the other functions are irrelevant here) -/
noncomputable def gammaSps : Sps ℝ where
  erf := id
  erfinv := id
  gamma := Real.Gamma
  loggamma := fun x => Real.log (Real.Gamma x)
  beta := fun a b => Real.Gamma a * Real.Gamma b / Real.Gamma (a + b)
  kv := fun _ x => x
  jv := fun _ x => x
  hyp2f1 := fun _ _ _ x => x

theorem Stable_calc_integral_scale_eq_model_real (sps : Sps ℝ) (hΓ : ∀ x, sps.gamma x = Real.Gamma x)
    (a : ℝ) (p : Par ℝ) : Stable.calc_integral_scale sps a (lenRescaled p) = stableCalcIS a p := by
  tie_real [Stable.calc_integral_scale, stableCalcIS, hΓ]

theorem Matern_calc_integral_scale_eq_model_real (sps : Sps ℝ)
    (hB : ∀ a b, sps.beta a b = Real.Gamma a * Real.Gamma b / Real.Gamma (a + b))
    (nu : ℝ) (p : Par ℝ) : Matern.calc_integral_scale sps (lenRescaled p) nu = maternCalcIS nu p := by
  tie_real [Matern.calc_integral_scale, maternCalcIS, hB]

theorem Rational_calc_integral_scale_eq_model_real (sps : Sps ℝ) (hΓ : ∀ x, sps.gamma x = Real.Gamma x)
    (a : ℝ) (p : Par ℝ) : Rational.calc_integral_scale sps a (lenRescaled p) = rationalCalcIS a p := by
  tie_real [Rational.calc_integral_scale, rationalCalcIS, hΓ]

/-- the hypotheses are satisfiable -/
example : (∀ x, gammaSps.gamma x = Real.Gamma x)
    ∧ ∀ a b, gammaSps.beta a b = Real.Gamma a * Real.Gamma b / Real.Gamma (a + b) :=
  ⟨fun _ => rfl, fun _ _ => rfl⟩

end GSV.Props.GenTieCorGamma
