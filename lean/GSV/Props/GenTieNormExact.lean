/-
  Tie A for the normalizer formulas (C18), EXACT form — informative, not an obligation of `./check C18`.

  The hand-written model `GSV.Model.Norm` is equal to the definitions regenerated from `normalizer/methods.py`
  (`GSV/Gen/NormFormulas.lean`) on EVERY carrier `α` of the scalar interface — no algebraic law is used: the two texts
  have the same operator tree up to the order of the `if`s — hence in particular on `Float`, which the driver runs.
  This is the strongest form of the tie: it says the model text IS the source text.  It is also brittle: a
  behaviour-preserving regrouping of a formula in the source (`a / b` -> `a * (1 / b)`) makes the regenerated definition
  a different, merely real-equal expression and the `rfl` below stops checking.  The registered obligations are
  therefore the `ℝ`-level theorems `GSV.Props.GenTieNorm.*_eq_model_real` (proved by a normalising tactic that survives
  such rewrites); the theorems of this file are audited on every run and reported under `coverage.informative` of the
  evidence: when one of them fails while all obligations hold, the source was rewritten without changing its real
  semantics, and the `Float` behaviour of model and code may now differ by roundings (tie B measures that).
-/
import GSV.Props.GenTieNorm

set_option linter.unusedSectionVars false

namespace GSV.Props.GenTieNormExact
open GSV GSV.Transc GSV.PyExpr GSV.Model.Norm GSV.Gen.NormFormulas GSV.Props.GenTieNorm

variable {α : Type} [Arith α] [Transc α] [DecidableLT α] [DecidableLE α]

/-! ### LogNormal -/

theorem LogNormal_normalize_range_eq_model (p : Par α) :
    (LogNormal.normalize_range : Ext α × Ext α) = extRng (normRange .logNormal p) := rfl
theorem LogNormal_denormalize_range_eq_model (p : Par α) :
    (LogNormal.denormalize_range : Ext α × Ext α) = extRng (denormRange .logNormal p) := rfl
theorem LogNormal_denormalize_eq_model (p : Par α) (y : α) :
    LogNormal._denormalize y = denormRaw .logNormal p y := rfl
theorem LogNormal_normalize_eq_model (p : Par α) (x : α) :
    LogNormal._normalize x = normRaw .logNormal p x := rfl
theorem LogNormal_derivative_eq_model (p : Par α) (x : α) :
    LogNormal._derivative x = derivRaw .logNormal p x := rfl

/-! ### BoxCox -/

theorem BoxCox_normalize_range_eq_model (p : Par α) :
    (BoxCox.normalize_range : Ext α × Ext α) = extRng (normRange .boxCox p) := rfl
theorem BoxCox_denormalize_range_eq_model (p : Par α) :
    BoxCox.denormalize_range p.lmbda = extRng (denormRange .boxCox p) := by
  rw [BoxCox.denormalize_range, denormRange, show c0 p = PyExpr.isclose p.lmbda ((0:Nat):α) from rfl]
  cases PyExpr.isclose p.lmbda ((0:Nat):α)
  · by_cases h1 : p.lmbda < ((0:Nat):α) <;> simp only [h1, Bool.false_eq_true, if_true, if_false] <;> rfl
  · rfl
theorem BoxCox_denormalize_eq_model (p : Par α) (y : α) :
    BoxCox._denormalize p.lmbda y = denormRaw .boxCox p y := rfl
theorem BoxCox_normalize_eq_model (p : Par α) (x : α) :
    BoxCox._normalize p.lmbda x = normRaw .boxCox p x := rfl
theorem BoxCox_derivative_eq_model (p : Par α) (x : α) :
    BoxCox._derivative p.lmbda x = derivRaw .boxCox p x := rfl

/-! ### BoxCoxShift -/

theorem BoxCoxShift_normalize_range_eq_model (p : Par α) :
    BoxCoxShift.normalize_range p.shift = extRng (normRange .boxCoxShift p) := rfl
theorem BoxCoxShift_denormalize_range_eq_model (p : Par α) :
    BoxCoxShift.denormalize_range p.lmbda = extRng (denormRange .boxCoxShift p) := by
  rw [BoxCoxShift.denormalize_range, denormRange, show c0 p = PyExpr.isclose p.lmbda ((0:Nat):α) from rfl]
  cases PyExpr.isclose p.lmbda ((0:Nat):α)
  · by_cases h1 : p.lmbda < ((0:Nat):α) <;> simp only [h1, Bool.false_eq_true, if_true, if_false] <;> rfl
  · rfl
theorem BoxCoxShift_denormalize_eq_model (p : Par α) (y : α) :
    BoxCoxShift._denormalize p.lmbda p.shift y = denormRaw .boxCoxShift p y := rfl
theorem BoxCoxShift_normalize_eq_model (p : Par α) (x : α) :
    BoxCoxShift._normalize p.lmbda p.shift x = normRaw .boxCoxShift p x := rfl
theorem BoxCoxShift_derivative_eq_model (p : Par α) (x : α) :
    BoxCoxShift._derivative p.lmbda p.shift x = derivRaw .boxCoxShift p x := rfl

/-! ### YeoJohnson

The source fills `res[pos]` and `res[~pos]` (with `pos = data >= 0`) under two independent `if`s on `lmbda`;
the model branches on `x ≥ 0` first.  Same four formulas, different nesting: proved by case distinction on the
three conditions (no law of arithmetic is used). -/

theorem YeoJohnson_normalize_range_eq_model (p : Par α) :
    (YeoJohnson.normalize_range : Ext α × Ext α) = extRng (normRange .yeoJohnson p) := rfl
theorem YeoJohnson_denormalize_range_eq_model (p : Par α) :
    (YeoJohnson.denormalize_range : Ext α × Ext α) = extRng (denormRange .yeoJohnson p) := rfl
theorem YeoJohnson_denormalize_eq_model (p : Par α) (y : α) :
    YeoJohnson._denormalize p.lmbda y = denormRaw .yeoJohnson p y := by
  rw [YeoJohnson._denormalize, denormRaw, show c0 p = PyExpr.isclose p.lmbda ((0:Nat):α) from rfl,
    show c2 p = PyExpr.isclose p.lmbda ((2:Nat):α) from rfl]
  by_cases h : y ≥ ((0:Nat):α) <;> cases PyExpr.isclose p.lmbda ((0:Nat):α)
    <;> cases PyExpr.isclose p.lmbda ((2:Nat):α)
    <;> simp only [h, Bool.false_eq_true, if_true, if_false, not_true_eq_false, not_false_eq_true] <;> rfl
theorem YeoJohnson_normalize_eq_model (p : Par α) (x : α) :
    YeoJohnson._normalize p.lmbda x = normRaw .yeoJohnson p x := by
  rw [YeoJohnson._normalize, normRaw, show c0 p = PyExpr.isclose p.lmbda ((0:Nat):α) from rfl,
    show c2 p = PyExpr.isclose p.lmbda ((2:Nat):α) from rfl]
  by_cases h : x ≥ ((0:Nat):α) <;> cases PyExpr.isclose p.lmbda ((0:Nat):α)
    <;> cases PyExpr.isclose p.lmbda ((2:Nat):α)
    <;> simp only [h, Bool.false_eq_true, if_true, if_false, not_true_eq_false, not_false_eq_true] <;> rfl
theorem YeoJohnson_derivative_eq_model (p : Par α) (x : α) :
    YeoJohnson._derivative p.lmbda x = derivRaw .yeoJohnson p x := rfl

/-! ### Modulus -/

theorem Modulus_normalize_range_eq_model (p : Par α) :
    (Modulus.normalize_range : Ext α × Ext α) = extRng (normRange .modulus p) := rfl
theorem Modulus_denormalize_range_eq_model (p : Par α) :
    (Modulus.denormalize_range : Ext α × Ext α) = extRng (denormRange .modulus p) := rfl
theorem Modulus_denormalize_eq_model (p : Par α) (y : α) :
    Modulus._denormalize p.lmbda y = denormRaw .modulus p y := rfl
theorem Modulus_normalize_eq_model (p : Par α) (x : α) :
    Modulus._normalize p.lmbda x = normRaw .modulus p x := rfl
theorem Modulus_derivative_eq_model (p : Par α) (x : α) :
    Modulus._derivative p.lmbda x = derivRaw .modulus p x := rfl

/-! ### Manly -/

theorem Manly_normalize_range_eq_model (p : Par α) :
    (Manly.normalize_range : Ext α × Ext α) = extRng (normRange .manly p) := rfl
theorem Manly_denormalize_range_eq_model (p : Par α) :
    Manly.denormalize_range p.lmbda = extRng (denormRange .manly p) := by
  rw [Manly.denormalize_range, denormRange, show c0 p = PyExpr.isclose p.lmbda ((0:Nat):α) from rfl]
  cases PyExpr.isclose p.lmbda ((0:Nat):α)
  · by_cases h1 : p.lmbda < ((0:Nat):α) <;> simp only [h1, Bool.false_eq_true, if_true, if_false] <;> rfl
  · rfl
theorem Manly_denormalize_eq_model (p : Par α) (y : α) :
    Manly._denormalize p.lmbda y = denormRaw .manly p y := rfl
theorem Manly_normalize_eq_model (p : Par α) (x : α) :
    Manly._normalize p.lmbda x = normRaw .manly p x := rfl
theorem Manly_derivative_eq_model (p : Par α) (x : α) :
    Manly._derivative p.lmbda x = derivRaw .manly p x := rfl

/-! ### the base class `Normalizer` (`normalizer/base.py`; what `normalizer=None` means): identity -/

theorem Normalizer_normalize_range_eq_model (p : Par α) :
    (Normalizer.normalize_range : Ext α × Ext α) = extRng (normRange .identity p) := rfl
theorem Normalizer_denormalize_range_eq_model (p : Par α) :
    (Normalizer.denormalize_range : Ext α × Ext α) = extRng (denormRange .identity p) := rfl
theorem Normalizer_denormalize_eq_model (p : Par α) (y : α) :
    Normalizer._denormalize y = denormRaw .identity p y := rfl
theorem Normalizer_normalize_eq_model (p : Par α) (x : α) :
    Normalizer._normalize x = normRaw .identity p x := rfl

/-! ### the statements at `ℝ` (the carrier of the C18 theorems), in Mathlib's vocabulary -/

/-- e.g. the regenerated Box-Cox transform at `ℝ`, outside the `isclose` band, is `(x ^ λ - 1) / λ` and is what
    `GSV.Props.C18` reasons about -/
example (p : Par ℝ) (x : ℝ) (h : c0 p = false) :
    BoxCox._normalize p.lmbda x = (x ^ p.lmbda - 1) / p.lmbda
      ∧ normRaw .boxCox p x = BoxCox._normalize p.lmbda x := by
  refine ⟨?_, (BoxCox_normalize_eq_model p x).symm⟩
  have h' : ¬ (PyExpr.isclose p.lmbda ((0:Nat):ℝ) = true) := by
    rw [show PyExpr.isclose p.lmbda ((0:Nat):ℝ) = c0 p from rfl, h]; exact Bool.false_ne_true
  rw [BoxCox._normalize, if_neg h']
  simp

example (p : Par ℝ) (x : ℝ) (hx : x < 0) (h : c2 p = true) :
    YeoJohnson._normalize p.lmbda x = -Real.log (1 + -x) := by
  rw [YeoJohnson_normalize_eq_model]
  have : ¬ (x ≥ 0) := not_le.mpr hx
  simp [normRaw, h, this]

end GSV.Props.GenTieNormExact
