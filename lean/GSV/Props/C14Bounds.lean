/-
  C14 — path independence for histories that contain BOUNDS operations.

  A directly constructed model always carries the default bounds of its class, so after `set_arg_bounds(...)` or an
  assignment to `var_bounds` / `len_scale_bounds` / … the statement "the model equals one constructed directly with the
  resulting values" has to read: construct directly with the resulting values, THEN set the same bounds
  (`m2 = Class(**values); m2.set_arg_bounds(check_args=False, **m.arg_bounds)`).

  `path_independent_with_bounds` proves this for EVERY reachable state — any history of plain setters, `rescale`,
  `set_arg_bounds` with either `check_args`, the `*_bounds` property setters, including calls that raised — under the
  one hypothesis without which the constructor itself rejects the values: they lie inside the class's DEFAULT bounds
  (`hdef`; necessary, see `not_path_independent_widened_bounds`).  Dimension-dependent default bounds (D8: JBessel,
  SuperSpherical, TPLSimple) are covered as well, because the stale bounds are re-installed by the second step.
-/
import GSV.Lemmas.CovStateBounds
import GSV.Props.C14

set_option linter.unusedSectionVars false
set_option linter.unnecessarySeqFocus false
namespace GSV.Props.C14
open GSV GSV.Model.CovState GSV.Lemmas.CovState

section field
variable {F : Type} [Field F] [LinearOrder F] [IsStrictOrderedRing F] [HasRPow F]
attribute [local instance] arithOfField

/-- histories of plain setters and `set_arg_bounds(check_args=True)` none of which raised are histories -/
theorem reach_of_reachOkB {sp : ClassSpec F} {s : State F} (h : ReachOkB sp s) : Reach sp s := by
  induction h with
  | init hc => exact Reach.init hc
  | step op _ _ _ _ ih => exact Reach.step op ih
  | bounds bs _ _ ih => exact Reach.step _ ih

theorem reach_of_reachOk {sp : ClassSpec F} {s : State F} (h : ReachOk sp s) : Reach sp s := by
  induction h with
  | init hc => exact Reach.init hc
  | step op _ _ _ ih => exact Reach.step op ih

theorem reach_runOps {sp : ClassSpec F} (ops : List (Op F)) {s : State F} (h : Reach sp s) :
    Reach sp (runOps sp s ops) := by
  induction ops generalizing s with
  | nil => exact h
  | cons op rest ih => exact ih (Reach.step op h)

/-- **C14 path independence, histories with bounds operations (every history)**.
    Class table with sane optional-argument names (`hnm`), dimension-independent NAMES and ordered default bounds
    (`hbo`; all shipped classes, the default bounds themselves may depend on the dimension).  `s` reachable by ANY
    history.  If the values of `s` lie inside the default bounds of a freshly constructed model of its dimension
    (`hdef`), the dimension is admissible for the class (`hfix`) and — truncated-power-law classes only — the
    variance factor and the Hurst exponent are non-zero, then
    (1) constructing a model directly with the values read off `s` succeeds and yields `resetBounds sp s`
        (same values, default bounds), and
    (2) `set_arg_bounds(check_args=False, **s.arg_bounds)` on that model yields exactly `s`, without error. -/
theorem path_independent_with_bounds {sp : ClassSpec F} (hnm : SpecNamesOK sp) (hbo : SpecBoundsOK sp)
    {s : State F} (h : Reach sp s)
    (hfix : sp.fixDim = none ∨ sp.fixDim = some s.dim)
    (hdef : checkArgBounds sp (resetBounds sp s) = none)
    (hvf : varFactor sp s ≠ 0) (hh : sp.tpl = true → optGet s "hurst" ≠ 0) :
    construct sp (cfgOf sp s) = .ok (resetBounds sp s, !sp.checkDim s.dim || optWarn sp s) ∧
    step sp (resetBounds sp s) (.setArgBounds false (boundsArgs s)) = ⟨s, none, false⟩ := by
  have hw : WF s := structure_invariant sp h
  obtain ⟨hnames, hord⟩ := reach_names_ordered hbo h
  have hlen : (sp.opts s.dim).length = s.opt.length := by
    have := congrArg List.length hnames
    simpa using this.symm
  have hok : OptNamesOK s := by
    refine ⟨hnames ▸ (hnm s.dim).1, ?_⟩
    intro o ho
    have : o.name ∈ (sp.opts s.dim).map (·.name) := hnames ▸ List.mem_map_of_mem (f := (·.name)) ho
    obtain ⟨o2, ho2, hn2⟩ := List.mem_map.mp this
    rw [← hn2]; exact (hnm s.dim).2 o2 ho2
  have hnv := resetBounds_name_val sp s hlen
  have hnb := resetBounds_name_bnd sp s hnames
  have hget : ∀ n, optGet (resetBounds sp s) n = optGet s n := optGet_congr hnv
  have hvfe : varFactor sp (resetBounds sp s) = varFactor sp s := by
    simp only [varFactor, hget]; rfl
  have hcfg : cfgOf sp (resetBounds sp s) = cfgOf sp s := by
    unfold cfgOf
    have hv : var sp (resetBounds sp s) = var sp s := by
      unfold var; rw [hvfe]; rfl
    rw [hv, hnv]; rfl
  have hw' : WF (resetBounds sp s) := hw.congr rfl rfl rfl rfl rfl rfl
  have hdb : DefaultBounds sp (resetBounds sp s) := by
    refine ⟨rfl, rfl, rfl, rfl, hnb, ?_⟩
    have : (resetBounds sp s).opt.map (·.name) = s.opt.map (·.name) := by
      have := congrArg (List.map Prod.fst) hnv
      rw [List.map_map, List.map_map] at this
      exact this
    rw [this]; exact hok.1
  have hwarn : optWarn sp (resetBounds sp s) = optWarn sp s := by
    unfold optWarn
    split <;> simp only [hget] <;> rfl
  constructor
  · have := construct_cfgOf hw' hfix hdb hdef (by rw [hvfe]; exact hvf) (fun ht => by rw [hget]; exact hh ht)
    rw [hcfg, hwarn] at this
    exact this
  · exact setArgBounds_resetBounds sp s hok hord hlen

/-- the corollary for the histories of `bounds_invariant_with_bounds_ops` (plain setters and
    `set_arg_bounds(check_args=True)`, none raised) on classes without variance factor and fixed dimension -/
theorem path_independent_history_bounds {sp : ClassSpec F} (hnm : SpecNamesOK sp) (hbo : SpecBoundsOK sp)
    (htpl : sp.tpl = false) (hfix : sp.fixDim = none) {s : State F} (h : ReachOkB sp s)
    (hdef : checkArgBounds sp (resetBounds sp s) = none) :
    construct sp (cfgOf sp s) = .ok (resetBounds sp s, !sp.checkDim s.dim || optWarn sp s) ∧
    step sp (resetBounds sp s) (.setArgBounds false (boundsArgs s)) = ⟨s, none, false⟩ ∧
    InBounds sp s :=
  let ⟨h1, h2⟩ := path_independent_with_bounds hnm hbo (reach_of_reachOkB h) (Or.inl hfix) hdef
    (by rw [varFactor_nontpl htpl]; exact one_ne_zero) (fun ht => by rw [htpl] at ht; cases ht)
  ⟨h1, h2, (reachOkB_inBounds hnm h).2⟩

theorem zipWith_reset_id (L C : List (OptArg F))
    (h : L.map (fun o => (o.name, o.bnd)) = C.map (fun o => (o.name, o.bnd))) :
    List.zipWith (fun (o c : OptArg F) => ({ o with bnd := c.bnd } : OptArg F)) L C = L := by
  induction L generalizing C with
  | nil => simp
  | cons a L ih =>
    cases C with
    | nil => simp at h
    | cons c C =>
      simp only [List.map_cons, List.cons.injEq, Prod.mk.injEq] at h
      simp only [List.zipWith_cons_cons, List.cons.injEq]
      exact ⟨by rw [← h.1.2], ih C h.2⟩

/-- without bounds operations nothing has to be re-installed: `resetBounds` is the identity on states that carry the
    default bounds (so `path_independent_history` is the special case) -/
theorem resetBounds_of_defaultBounds {sp : ClassSpec F} {s : State F} (hdb : DefaultBounds sp s) :
    resetBounds sp s = s := by
  obtain ⟨h1, h2, h3, h4, h5, _⟩ := hdb
  unfold resetBounds
  rw [zipWith_reset_id _ _ h5, ← h1, ← h2, ← h3, ← h4]

/-- the shipped classes whose tables do not depend on the dimension (all but JBessel, SuperSpherical, TPLSimple, whose
    lower default bound of `nu` grows with the dimension) and the two user-defined classes of the harness satisfy the
    hypotheses on the class table -/
theorem shipped_boundsOK (name : String)
    (hn : name ∈ ["Gaussian", "Exponential", "Stable", "Matern", "Integral", "Rational", "Cubic", "Linear",
      "Circular", "Spherical", "HyperSpherical", "TPLGaussian", "TPLExponential", "TPLStable", "UserFix2", "UserFix3"])
    (sp : ClassSpec F) (hs : specOf name = some sp) : SpecBoundsOK sp ∧ SpecNamesOK sp := by
  refine ⟨?_, all_specs_namesOK name sp hs⟩
  simp only [List.mem_cons, List.not_mem_nil, or_false] at hn
  rcases hn with h | h | h | h | h | h | h | h | h | h | h | h | h | h | h | h <;> subst h <;>
    simp only [specOf, Option.some.injEq] at hs <;> subst hs <;>
    (refine ⟨fun _ _ => rfl, fun d => ?_⟩
     simp [plainSpec, tplHurst, tplLenLow, alphaArg, BndOrdered, bcc, zero_eq, one_eq, two_eq, fifty] <;> norm_num)

end field
/-! ## Witnesses on `ℚ` (the carrier the driver executes) -/

/-- a history with bounds operations of every kind and a raising call:
    `m = Exponential(dim=2); m.set_arg_bounds(nugget=[0, 1/2, "co"], var=[1/2, 4]); m.dim = 3; m.nugget = 1/4;
     m.len_scale_bounds = [1/8, inf, "oo"]; m.len_scale = [2, 4]; m.var = 5  # raises, 5 is stored (D13)`.
    The final values lie inside the DEFAULT bounds, the final state differs from its bounds-reset counterpart, the
    constructor reproduces that counterpart and `set_arg_bounds(check_args=False, **arg_bounds)` reproduces the state. -/
def boundsHistory : List (Op ℚ) :=
  [.setArgBounds true [("nugget", ⟨some 0, some (1 / 2), "co"⟩), ("var", ⟨some (1 / 2), some 4, ""⟩)],
   .setDim 3, .setNugget (1 / 4), .setBoundsProp "len_scale" ⟨some (1 / 8), none, "oo"⟩, .setLenScale [2, 4], .setVar 5]

def boundsWitness : Bool :=
  match construct expSpec expCfg with
  | .ok (s0, _) =>
    let s := runOps expSpec s0 boundsHistory
    decide (checkArgBounds expSpec (resetBounds expSpec s) = none) && decide (resetBounds expSpec s ≠ s) &&
    decide (var expSpec s = 5) && decide (checkArgBounds expSpec s ≠ none) &&
    (match construct expSpec (cfgOf expSpec s) with
      | .ok (s', _) => decide (s' = resetBounds expSpec s) &&
          decide ((step expSpec s' (.setArgBounds false (boundsArgs s))).st = s) &&
          decide ((step expSpec s' (.setArgBounds false (boundsArgs s))).err = none)
      | .error _ => false)
  | .error _ => false

theorem boundsWitness_true : boundsWitness = true := by decide +kernel

/-- the hypotheses of `path_independent_with_bounds` are satisfied by that history (a reachable state that carries
    non-default bounds, is even OUTSIDE its own bounds after the raising call, and is inside the default ones) -/
example : ∃ s : State ℚ, Reach expSpec s ∧ checkArgBounds expSpec (resetBounds expSpec s) = none ∧
    resetBounds expSpec s ≠ s ∧ varFactor expSpec s ≠ 0 := by
  have h := boundsWitness_true
  unfold boundsWitness at h
  split at h
  · rename_i s0 w heq
    simp only [Bool.and_eq_true, decide_eq_true_eq] at h
    refine ⟨_, reach_runOps (F := ℚ) boundsHistory (Reach.init heq), h.1.1.1.1, h.1.1.1.2, ?_⟩
    have hspec : specOf "Exponential" = some expSpec := by simp [expSpec]
    rw [varFactor_nontpl (F := ℚ) (shipped_specOK (F := ℚ) "Exponential" (by simp) expSpec hspec).2.1]
    exact one_ne_zero
  · cases h

/-- necessity of `hdef`: `m = Exponential(dim=2); m.set_arg_bounds(nugget=[-1, 1]); m.nugget = -1/2` is accepted and
    inside its bounds, but `Exponential(dim=2, nugget=-1/2)` is rejected by the constructor (replayed on the package) -/
def widenedWitness : Bool :=
  match construct expSpec expCfg with
  | .ok (s0, _) =>
    let r1 := step expSpec s0 (.setArgBounds true [("nugget", ⟨some (-1), some 1, ""⟩)])
    let r2 := step expSpec r1.st (.setNugget (-1 / 2))
    decide (r1.err = none) && decide (r2.err = none) && decide (checkArgBounds expSpec r2.st = none) &&
    (match construct expSpec (cfgOf expSpec r2.st) with
      | .error e => decide (e = .bound "nugget" 1)
      | .ok _ => false)
  | .error _ => false

theorem widenedWitness_true : widenedWitness = true := by decide +kernel

/-- **without `hdef` the statement is false**: a state reached by non-raising operations, inside its (widened) bounds,
    whose values no direct construction accepts -/
theorem not_path_independent_widened_bounds :
    ∃ s : State ℚ, ReachOkB expSpec s ∧ checkArgBounds expSpec s = none ∧
      ∀ s' w, construct expSpec (cfgOf expSpec s) ≠ .ok (s', w) := by
  have h := widenedWitness_true
  unfold widenedWitness at h
  split at h
  · rename_i s0 w heq
    simp only [Bool.and_eq_true, decide_eq_true_eq] at h
    obtain ⟨⟨⟨h1, h2⟩, h3⟩, h4⟩ := h
    refine ⟨_, ReachOkB.step (.setNugget (-1 / 2)) (ReachOkB.bounds _ (ReachOkB.init heq) h1) rfl
      (fun v hv => by cases hv) h2, h3, ?_⟩
    intro s' w' hc
    rw [hc] at h4
    cases h4
  · cases h

end GSV.Props.C14
