/-
  C18 — Normalizers are invertible monotone maps; the mean/norm/trend pipeline is exact.

  All theorems are about the executable model `GSV.Model.Norm` (hand-written from
  `gstools/normalizer/{base,methods,tools}.py`, tied to the real code by differential execution) at `ℝ`,
  for EVERY class (`k : Kind`, incl. the identity base class) and EVERY parameter value `p` — both signs of
  `lmbda`, the special values `0`, `2` and the `np.isclose` bands around them (`c0 p`, `c2 p` are computed
  from `lmbda` by the model's `isclose`, see `Lemmas.Norm.c0_iff`, `c2_iff`).
  The masking theorems (`nan_and_out_of_range`) are law-free: they hold on any carrier, also on `Float`.
-/
import GSV.RealInst
import GSV.Model.Norm
import GSV.Lemmas.Norm

namespace GSV.Props.C18
open GSV GSV.Model.Norm GSV.Lemmas.Norm Real

/-! ### the image of the valid input range -/

/-- The true image of `normalize_range` under `_normalize`.  For LogNormal/BoxCox/BoxCoxShift/Manly (and the
    identity) this IS the declared `denormalize_range`; YeoJohnson and Modulus declare `(-inf, inf)` although
    the image is bounded when `lmbda < 0` (and, for YeoJohnson, `lmbda > 2`), see `image_full_*` and
    `norm_denorm_full_false`. -/
def Image (k : Kind) (p : Par ℝ) (y : ℝ) : Prop :=
  match k with
  | .yeoJohnson => GD (c0 p) p.lmbda (c2 p) (2 - p.lmbda) y
  | .modulus => GD (c0 p) p.lmbda (c0 p) p.lmbda y
  | k => valid (denormRange k p) y = true

theorem image_eq_range (k : Kind) (p : Par ℝ) (y : ℝ) (hk : k ≠ .yeoJohnson) (hk' : k ≠ .modulus) :
    Image k p y ↔ valid (denormRange k p) y = true := by
  cases k <;> first | exact Iff.rfl | exact absurd rfl hk | exact absurd rfl hk'

theorem image_subset_range (k : Kind) (p : Par ℝ) (y : ℝ) (h : Image k p y) :
    valid (denormRange k p) y = true := by
  cases k
  case yeoJohnson => exact valid_full y
  case modulus => exact valid_full y
  all_goals exact h

/-- YeoJohnson with `0 ≤ lmbda ≤ 2` (outside the bands: `0 < lmbda < 2`): the image is all of `ℝ` -/
theorem image_full_yeoJohnson (p : Par ℝ) (y : ℝ) (h0 : 0 ≤ p.lmbda) (h2 : p.lmbda ≤ 2) :
    Image .yeoJohnson p y := by
  refine ⟨fun hy => Or.inr ?_, fun hy => Or.inr ?_⟩
  · have := mul_nonneg hy h0; linarith
  · have : 0 ≤ (-y) * (2 - p.lmbda) := mul_nonneg (by linarith) (by linarith); linarith

/-- Modulus with `0 ≤ lmbda`: the image is all of `ℝ` -/
theorem image_full_modulus (p : Par ℝ) (y : ℝ) (h0 : 0 ≤ p.lmbda) : Image .modulus p y := by
  refine ⟨fun hy => Or.inr ?_, fun hy => Or.inr ?_⟩
  · have := mul_nonneg hy h0; linarith
  · have : 0 ≤ (-y) * p.lmbda := mul_nonneg (by linarith) h0; linarith

private theorem h0 (p : Par ℝ) : c0 p = false → p.lmbda ≠ 0 := lmbda_ne_zero
private theorem h2 (p : Par ℝ) : c2 p = false → 2 - p.lmbda ≠ 0 := two_sub_lmbda_ne_zero

/-! ### C18_range_image -/

/-- `_normalize` maps `normalize_range` into `denormalize_range` (so `denormalize ∘ normalize` never masks),
    and in fact into `Image`.  For Manly `lmbda < 0` this needs the repaired sign of D1. -/
theorem range_image (k : Kind) (p : Par ℝ) (x : ℝ) (hx : valid (normRange k p) x = true) :
    valid (denormRange k p) (normRaw k p x) = true ∧ Image k p (normRaw k p x) := by
  cases k
  case identity => exact ⟨valid_full _, valid_full _⟩
  case logNormal => exact ⟨valid_full _, valid_full _⟩
  case boxCox =>
    have hx' := (valid_norm_boxCox p x).mp hx
    have := (valid_denorm_boxCox p (normRaw .boxCox p x)).mpr (by rw [normRaw_boxCox]; exact T_D (h0 p) hx')
    exact ⟨this, this⟩
  case boxCoxShift =>
    have hx' := (valid_norm_boxCoxShift p x).mp hx
    have := (valid_denorm_boxCoxShift p (normRaw .boxCoxShift p x)).mpr
      (by rw [normRaw_boxCoxShift]; exact T_D (h0 p) hx')
    exact ⟨this, this⟩
  case yeoJohnson =>
    refine ⟨valid_full _, ?_⟩
    show GD _ _ _ _ _
    rw [normRaw_yeoJohnson']; exact G_image (h0 p) (h2 p) x
  case modulus =>
    refine ⟨valid_full _, ?_⟩
    show GD _ _ _ _ _
    rw [normRaw_modulus']; exact G_image (h0 p) (h0 p) x
  case manly =>
    have := (valid_denorm_manly p (normRaw .manly p x)).mpr (manly_image p x)
    exact ⟨this, this⟩

example : valid (normRange .manly (⟨-2, 0⟩ : Par ℝ)) 50 = true := valid_full _

/-! ### C18_denorm_norm -/

/-- `_denormalize (_normalize x) = x` on the valid input range -/
theorem denorm_norm_raw (k : Kind) (p : Par ℝ) (x : ℝ) (hx : valid (normRange k p) x = true) :
    denormRaw k p (normRaw k p x) = x := by
  cases k
  case identity => rfl
  case logNormal =>
    have hx' := (valid_norm_logNormal p x).mp hx
    rw [normRaw_logNormal, denormRaw_logNormal]; exact Tinv_T (by simp) hx'
  case boxCox =>
    have hx' := (valid_norm_boxCox p x).mp hx
    rw [normRaw_boxCox, denormRaw_boxCox]; exact Tinv_T (h0 p) hx'
  case boxCoxShift =>
    have hx' := (valid_norm_boxCoxShift p x).mp hx
    rw [normRaw_boxCoxShift, denormRaw_boxCoxShift, Tinv_T (h0 p) hx']; ring
  case yeoJohnson => rw [normRaw_yeoJohnson', denormRaw_yeoJohnson']; exact Ginv_G (h0 p) (h2 p) x
  case modulus => rw [normRaw_modulus', denormRaw_modulus']; exact Ginv_G (h0 p) (h0 p) x
  case manly => exact manly_denorm_norm p x

/-- the public round trip: `denormalize(normalize(x)) = x`, no masking on the way -/
theorem denorm_norm (k : Kind) (p : Par ℝ) (x : ℝ) (hx : valid (normRange k p) x = true) :
    (Model.Norm.normalize k p x).bind (denormalize k p) = some x := by
  simp only [Model.Norm.normalize, hx, if_true, Option.bind_some, denormalize, (range_image k p x hx).1,
    denorm_norm_raw k p x hx]

example : valid (normRange .boxCox (⟨-0.5, 0⟩ : Par ℝ)) 3 = true :=
  (valid_norm_boxCox _ _).mpr (by norm_num)

/-! ### C18_norm_denorm -/

/-- `_normalize (_denormalize y) = y` on the image, and `_denormalize y` is a valid input -/
theorem norm_denorm_raw (k : Kind) (p : Par ℝ) (y : ℝ) (hy : Image k p y) :
    valid (normRange k p) (denormRaw k p y) = true ∧ normRaw k p (denormRaw k p y) = y := by
  cases k
  case identity => exact ⟨valid_full _, rfl⟩
  case logNormal =>
    refine ⟨(valid_norm_logNormal p _).mpr ?_, ?_⟩
    · rw [denormRaw_logNormal]; exact Tinv_pos (Or.inl rfl)
    · rw [denormRaw_logNormal, normRaw_logNormal]; exact T_Tinv (by simp) (Or.inl rfl)
  case boxCox =>
    have hd := (valid_denorm_boxCox p y).mp hy
    refine ⟨(valid_norm_boxCox p _).mpr ?_, ?_⟩
    · rw [denormRaw_boxCox]; exact Tinv_pos hd
    · rw [denormRaw_boxCox, normRaw_boxCox]; exact T_Tinv (h0 p) hd
  case boxCoxShift =>
    have hd := (valid_denorm_boxCoxShift p y).mp hy
    refine ⟨(valid_norm_boxCoxShift p _).mpr ?_, ?_⟩
    · rw [denormRaw_boxCoxShift, sub_add_cancel]; exact Tinv_pos hd
    · rw [denormRaw_boxCoxShift, normRaw_boxCoxShift, sub_add_cancel]; exact T_Tinv (h0 p) hd
  case yeoJohnson =>
    refine ⟨valid_full _, ?_⟩
    rw [denormRaw_yeoJohnson', normRaw_yeoJohnson']; exact G_Ginv (h0 p) (h2 p) hy
  case modulus =>
    refine ⟨valid_full _, ?_⟩
    rw [denormRaw_modulus', normRaw_modulus']; exact G_Ginv (h0 p) (h0 p) hy
  case manly =>
    exact ⟨valid_full _, manly_norm_denorm p y ((valid_denorm_manly p y).mp hy)⟩

/-- the public round trip `normalize(denormalize(y)) = y` on the image -/
theorem norm_denorm (k : Kind) (p : Par ℝ) (y : ℝ) (hy : Image k p y) :
    (denormalize k p y).bind (Model.Norm.normalize k p) = some y := by
  have h := norm_denorm_raw k p y hy
  simp only [denormalize, image_subset_range k p y hy, if_true, Option.bind_some, Model.Norm.normalize, h.1, h.2]

example : Image .manly (⟨-2, 0⟩ : Par ℝ) 0.25 :=
  (valid_denorm_manly _ _).mpr (Or.inr (by norm_num))

/-- `Image` is exactly the image of the valid input range under `_normalize` -/
theorem image_exact (k : Kind) (p : Par ℝ) (y : ℝ) :
    Image k p y ↔ ∃ x, valid (normRange k p) x = true ∧ normRaw k p x = y := by
  constructor
  · intro h; exact ⟨denormRaw k p y, norm_denorm_raw k p y h⟩
  · rintro ⟨x, hx, rfl⟩; exact (range_image k p x hx).2

/-- The statement "`normalize ∘ denormalize = id` on the DECLARED `denormalize_range`" is false for
    YeoJohnson: `lmbda = -1`, `y = 2` is inside the declared range `(-inf, inf)` but outside the image
    `(-inf, 1)`; the code returns `(-1)^(-1) - 1 = -2`, and `normalize(-2) = -26/3`. -/
def norm_denorm_on_declared_range_full : Prop :=
  ∀ (k : Kind) (p : Par ℝ) (y : ℝ), valid (denormRange k p) y = true →
    normRaw k p (denormRaw k p y) = y

theorem norm_denorm_full_false : ¬ norm_denorm_on_declared_range_full := by
  intro h
  have := h .yeoJohnson ⟨-1, 0⟩ 2 (valid_full _)
  have hc0 : c0 (⟨-1, 0⟩ : Par ℝ) = false := by
    rw [← Bool.not_eq_true, c0_iff]; norm_num
  have hc2 : c2 (⟨-1, 0⟩ : Par ℝ) = false := by
    rw [← Bool.not_eq_true, c2_iff]; norm_num
  have e1 : denormRaw .yeoJohnson (⟨-1, 0⟩ : Par ℝ) 2 = -2 := by
    simp only [denormRaw, hc0]
    norm_num [Real.rpow_neg_one]
  rw [e1] at this
  have e2 : normRaw .yeoJohnson (⟨-1, 0⟩ : Par ℝ) (-2) = -26 / 3 := by
    simp only [normRaw, hc2]
    have : ((3:ℝ)) ^ ((3:ℝ)) = 27 := by
      rw [show (3:ℝ) = ((3:ℕ):ℝ) by norm_num, Real.rpow_natCast]; norm_num
    norm_num [this]
  rw [e2] at this
  norm_num at this

/-! ### C18_strict_mono -/

/-- normalisation is strictly increasing on the valid input range -/
theorem strict_mono (k : Kind) (p : Par ℝ) (x x' : ℝ) (hx : valid (normRange k p) x = true)
    (hx' : valid (normRange k p) x' = true) (hlt : x < x') : normRaw k p x < normRaw k p x' := by
  cases k
  case identity => exact hlt
  case logNormal =>
    rw [normRaw_logNormal, normRaw_logNormal]
    exact T_lt (by simp) ((valid_norm_logNormal p x).mp hx) hlt
  case boxCox =>
    rw [normRaw_boxCox, normRaw_boxCox]
    exact T_lt (h0 p) ((valid_norm_boxCox p x).mp hx) hlt
  case boxCoxShift =>
    rw [normRaw_boxCoxShift, normRaw_boxCoxShift]
    exact T_lt (h0 p) ((valid_norm_boxCoxShift p x).mp hx) (by linarith)
  case yeoJohnson => rw [normRaw_yeoJohnson', normRaw_yeoJohnson']; exact G_strictMono (h0 p) (h2 p) hlt
  case modulus => rw [normRaw_modulus', normRaw_modulus']; exact G_strictMono (h0 p) (h0 p) hlt
  case manly => exact manly_strictMono p hlt

example : valid (normRange .boxCoxShift (⟨-3, 1⟩ : Par ℝ)) (-0.5) = true :=
  (valid_norm_boxCoxShift _ _).mpr (by norm_num)

/-- hence `normalize` is injective on the valid range and `denormalize` is strictly increasing on the image -/
theorem denorm_strict_mono (k : Kind) (p : Par ℝ) (y y' : ℝ) (hy : Image k p y) (hy' : Image k p y')
    (hlt : y < y') : denormRaw k p y < denormRaw k p y' := by
  by_contra hnot
  have hle : denormRaw k p y' ≤ denormRaw k p y := not_lt.mp hnot
  have a := norm_denorm_raw k p y hy
  have b := norm_denorm_raw k p y' hy'
  rcases eq_or_lt_of_le hle with e | l
  · rw [← a.2, ← b.2, e] at hlt; exact lt_irrefl _ hlt
  · have := strict_mono k p _ _ b.1 a.1 l
    rw [a.2, b.2] at this; linarith

/-! ### C18_derivative -/

/-- the `isclose` branches are taken only at the exact special values -/
def ExactBranches (k : Kind) (p : Par ℝ) : Prop :=
  (c0 p = true → p.lmbda = 0) ∧ (k = .yeoJohnson → c2 p = true → p.lmbda = 2)

/-- the reported derivative is the true derivative of `_normalize` on the valid input range — for every
    `lmbda` outside the `isclose` bands and for the exact special values `0` / `2`.  (Inside a band with
    `lmbda ≠ c` the code switches the transform to the limit form but keeps `lmbda` in the derivative:
    see `derivative_band_boxCox`, `derivative_band_manly`.) -/
theorem derivative_partial (k : Kind) (p : Par ℝ) (x : ℝ) (hx : valid (normRange k p) x = true)
    (he : ExactBranches k p) : HasDerivAt (normRaw k p) (derivRaw k p x) x := by
  cases k
  case identity =>
    have : derivRaw .identity p x = 1 := by
      simp only [derivRaw]; norm_num
    rw [this]; exact hasDerivAt_id x
  case logNormal =>
    have hx' := (valid_norm_logNormal p x).mp hx
    have hf : normRaw .logNormal p = T true 0 := by funext z; exact normRaw_logNormal p z
    have hd : derivRaw .logNormal p x = x ^ ((0:ℝ) - 1) := by simp [derivRaw]
    rw [hf, hd]; exact T_hasDerivAt (by simp) (by simp) hx'
  case boxCox =>
    have hx' := (valid_norm_boxCox p x).mp hx
    have hf : normRaw .boxCox p = T (c0 p) p.lmbda := by funext z; exact normRaw_boxCox p z
    have hd : derivRaw .boxCox p x = x ^ (p.lmbda - 1) := by simp [derivRaw]
    rw [hf, hd]; exact T_hasDerivAt (h0 p) he.1 hx'
  case boxCoxShift =>
    have hx' := (valid_norm_boxCoxShift p x).mp hx
    have hf : normRaw .boxCoxShift p = fun z => T (c0 p) p.lmbda (z + p.shift) := by
      funext z; exact normRaw_boxCoxShift p z
    have hd : derivRaw .boxCoxShift p x = (x + p.shift) ^ (p.lmbda - 1) := by simp [derivRaw]
    rw [hf, hd]; exact HasDerivAt.comp_add_const x p.shift (T_hasDerivAt (h0 p) he.1 hx')
  case yeoJohnson =>
    have hf : normRaw .yeoJohnson p = G (c0 p) p.lmbda (c2 p) (2 - p.lmbda) := by
      funext z; exact normRaw_yeoJohnson' p z
    rw [hf, derivRaw_yeoJohnson]
    refine G_hasDerivAt (h0 p) (h2 p) (fun _ => he.1) (fun _ hc => ?_)
    have := he.2 rfl hc; linarith
  case modulus =>
    have hf : normRaw .modulus p = G (c0 p) p.lmbda (c0 p) p.lmbda := by
      funext z; exact normRaw_modulus' p z
    rw [hf, derivRaw_modulus]
    exact G_hasDerivAt (h0 p) (h0 p) (fun _ => he.1) (fun _ => he.1)
  case manly => exact manly_hasDerivAt p x he.1

/-- the reported derivative is positive on the valid input range (for every parameter value, also inside
    the bands), so `log (derivative)` in the likelihood is defined and `np.maximum(1e-16, ·)` only guards
    against underflow -/
theorem derivative_pos (k : Kind) (p : Par ℝ) (x : ℝ) (hx : valid (normRange k p) x = true) :
    0 < derivRaw k p x := by
  cases k
  case identity =>
    have : derivRaw .identity p x = 1 := by simp only [derivRaw]; norm_num
    rw [this]; exact one_pos
  case logNormal =>
    have hx' := (valid_norm_logNormal p x).mp hx
    simp only [derivRaw, rpow_real]; exact Real.rpow_pos_of_pos hx' _
  case boxCox =>
    have hx' := (valid_norm_boxCox p x).mp hx
    simp only [derivRaw, rpow_real]; exact Real.rpow_pos_of_pos hx' _
  case boxCoxShift =>
    have hx' := (valid_norm_boxCoxShift p x).mp hx
    simp only [derivRaw, rpow_real]; exact Real.rpow_pos_of_pos hx' _
  case yeoJohnson =>
    simp only [derivRaw, rpow_real, fabs_real]
    exact Real.rpow_pos_of_pos (by have := abs_nonneg x; push_cast; linarith) _
  case modulus =>
    simp only [derivRaw, rpow_real, fabs_real]
    exact Real.rpow_pos_of_pos (by have := abs_nonneg x; push_cast; linarith) _
  case manly => simp only [derivRaw, exp_real]; exact Real.exp_pos _

/-- `ExactBranches` holds for every `lmbda` outside the two bands … -/
theorem exactBranches_of_outside (k : Kind) (p : Par ℝ) (h0 : 1e-8 < |p.lmbda|)
    (h2 : 1e-8 + 2e-5 < |p.lmbda - 2|) : ExactBranches k p := by
  refine ⟨fun hc => ?_, fun _ hc => ?_⟩
  · have := (c0_iff p).mp hc; linarith
  · have := (c2_iff p).mp hc; linarith

/-- … and for the special values themselves -/
theorem exactBranches_zero (k : Kind) (s : ℝ) : ExactBranches k ⟨0, s⟩ := by
  refine ⟨fun _ => rfl, fun _ hc => ?_⟩
  have := (c2_iff ⟨0, s⟩).mp hc
  norm_num at this
theorem exactBranches_two (k : Kind) (s : ℝ) : ExactBranches k ⟨2, s⟩ := by
  refine ⟨fun hc => ?_, fun _ _ => rfl⟩
  have := (c0_iff ⟨2, s⟩).mp hc
  norm_num at this

/-- BoxCox inside the band `|lmbda| ≤ 1e-8`: the transform is `log`, the reported derivative is
    `x^(lmbda-1)`; it equals the true derivative times `x^lmbda` (an `O(lmbda)` relative gap) -/
theorem derivative_band_boxCox (p : Par ℝ) (x : ℝ) (hx : 0 < x) (hc : c0 p = true) :
    HasDerivAt (normRaw .boxCox p) (derivRaw .boxCox p x / x ^ p.lmbda) x := by
  have hf : normRaw .boxCox p = T true p.lmbda := by funext z; rw [normRaw_boxCox, hc]
  have hd : derivRaw .boxCox p x = x ^ (p.lmbda - 1) := by simp [derivRaw]
  rw [hf, hd]; exact T_hasDerivAt_band hx

/-- Manly inside the band: the transform is the identity (true derivative `1`), reported `exp(lmbda·x)` -/
theorem derivative_band_manly (p : Par ℝ) (x : ℝ) (hc : c0 p = true) :
    HasDerivAt (normRaw .manly p) 1 x ∧ derivRaw .manly p x = Real.exp (x * p.lmbda) :=
  ⟨manly_hasDerivAt_band p x hc, by simp [derivRaw]⟩

/-- the unrestricted statement "for every parameter value the reported derivative is the true derivative" -/
def derivative_full : Prop :=
  ∀ (k : Kind) (p : Par ℝ) (x : ℝ), valid (normRange k p) x = true →
    HasDerivAt (normRaw k p) (derivRaw k p x) x

/-- … is false of the code inside an `isclose` band: Manly with `lmbda = 1e-9` normalises with the identity
    (true derivative `1`) but reports `exp(1e-9 · x)`; at `x = 1` that is `≠ 1`.  (Replayed on the
    implementation by the search: `Manly(lmbda=1e-9).derivative([1.0]) = 1.000000001`.) -/
theorem derivative_full_false : ¬ derivative_full := by
  intro h
  have hc : c0 (⟨1e-9, 0⟩ : Par ℝ) = true := (c0_iff _).mpr (by norm_num [abs_of_pos])
  have h1 := h .manly ⟨1e-9, 0⟩ 1 (valid_full _)
  have h2 := (derivative_band_manly ⟨1e-9, 0⟩ 1 hc).1
  have e := h1.unique h2
  rw [(derivative_band_manly ⟨1e-9, 0⟩ 1 hc).2, Real.exp_eq_one_iff] at e
  norm_num at e

/-- the bands themselves: `np.isclose(lmbda, 0)` is `|lmbda| ≤ 1e-8`, `np.isclose(lmbda, 2)` is
    `|lmbda - 2| ≤ 1e-8 + 2e-5` -/
theorem isclose_bands (p : Par ℝ) :
    (c0 p = true ↔ |p.lmbda| ≤ 1e-8) ∧ (c2 p = true ↔ |p.lmbda - 2| ≤ 1e-8 + 2e-5) :=
  ⟨c0_iff p, c2_iff p⟩

/-- inside the band around `0` every class except YeoJohnson behaves exactly like `lmbda = 0` … -/
theorem band_eq_special (k : Kind) (p : Par ℝ) (hk : k ≠ .yeoJohnson) (hc : c0 p = true) (x : ℝ) :
    normRaw k p x = normRaw k ⟨0, p.shift⟩ x ∧ denormRaw k p x = denormRaw k ⟨0, p.shift⟩ x := by
  have hc' : c0 (⟨0, p.shift⟩ : Par ℝ) = true := c0_of_eq rfl
  cases k <;> first | exact absurd rfl hk | simp [normRaw, denormRaw, hc, hc']

/-- … so there the true derivative is the one reported for `lmbda = 0`, not the reported `derivRaw k p x`
    (which keeps the non-zero `lmbda`; the relative gap is `O(lmbda)`, see `derivative_band_boxCox`) -/
theorem derivative_band (k : Kind) (p : Par ℝ) (hk : k ≠ .yeoJohnson) (hc : c0 p = true) (x : ℝ)
    (hx : valid (normRange k p) x = true) :
    HasDerivAt (normRaw k p) (derivRaw k ⟨0, p.shift⟩ x) x := by
  have hf : normRaw k p = normRaw k ⟨0, p.shift⟩ := by
    funext z; exact (band_eq_special k p hk hc z).1
  have hx' : valid (normRange k (⟨0, p.shift⟩ : Par ℝ)) x = true := by
    cases k <;> exact hx
  rw [hf]; exact derivative_partial k ⟨0, p.shift⟩ x hx' (exactBranches_zero k p.shift)

example : c0 (⟨1e-9, 0⟩ : Par ℝ) = true := (c0_iff _).mpr (by norm_num [abs_of_pos])

/-! ### C18_nan_and_out_of_range (law-free: any carrier, also `Float`) -/

section Masking
variable {α : Type} [Arith α] [Transc α] [DecidableLT α] [DecidableLE α]

/-- `_check_input`: NaN data and data failing the range test give NaN (`none`) in `normalize`,
    `denormalize`, `derivative`; every other datum gives exactly the raw transform -/
theorem nan_and_out_of_range (k : Kind) (p : Par α) (x : α) :
    (isnan x = true → Model.Norm.normalize k p x = none ∧ denormalize k p x = none ∧ Model.Norm.derivative k p x = none) ∧
    (inRange (normRange k p) x = false → Model.Norm.normalize k p x = none ∧ Model.Norm.derivative k p x = none) ∧
    (inRange (denormRange k p) x = false → denormalize k p x = none) ∧
    (isnan x = false → inRange (normRange k p) x = true →
        Model.Norm.normalize k p x = some (normRaw k p x) ∧ Model.Norm.derivative k p x = some (derivRaw k p x)) ∧
    (isnan x = false → inRange (denormRange k p) x = true → denormalize k p x = some (denormRaw k p x)) := by
  refine ⟨fun h => ?_, fun h => ?_, fun h => ?_, fun h h' => ?_, fun h h' => ?_⟩ <;>
    simp [Model.Norm.normalize, denormalize, Model.Norm.derivative, valid, *]

omit [DecidableLE α] in
/-- the range test is skipped exactly when both ends are infinite, otherwise both comparisons are strict -/
theorem inRange_spec (r : Rng α) (x : α) :
    inRange r x = true ↔
      (r.lo = none ∧ r.hi = none) ∨
      (isinf x = false ∧ (∀ l, r.lo = some l → x > l) ∧ (∀ h, r.hi = some h → x < h)) := by
  rcases r with ⟨_ | l, _ | h⟩ <;> simp [inRange, and_assoc]

end Masking

/-- boundaries are excluded: `0` is not a valid BoxCox input, `-1/lmbda` not a valid output -/
theorem boundary_excluded (p : Par ℝ) (hc : c0 p = false) :
    Model.Norm.normalize .boxCox p 0 = none ∧ denormalize .boxCox p (-(1 / p.lmbda)) = none := by
  constructor
  · have : ¬ valid (normRange .boxCox p) 0 = true := by rw [valid_norm_boxCox]; exact lt_irrefl _
    rw [Model.Norm.normalize, if_neg this]
  · have : ¬ valid (denormRange .boxCox p) (-(1 / p.lmbda)) = true := by
      rw [valid_denorm_boxCox]
      rintro (h | h)
      · rw [hc] at h; cases h
      · have hl := lmbda_ne_zero hc
        have : 1 + -(1 / p.lmbda) * p.lmbda = 0 := by field_simp; ring
        linarith
    rw [denormalize, if_neg this]

/-! ### C18_pipeline -/

/-- `apply_mean_norm_trend` is `trend + denormalize(mean + raw)`, masked exactly when `denormalize` masks -/
theorem pipeline_apply (k : Kind) (p : Par ℝ) (mean trend raw : ℝ) :
    applyMNT k p mean trend raw =
      if valid (denormRange k p) (mean + raw) = true then some (trend + denormRaw k p (mean + raw)) else none := by
  simp only [applyMNT, denormalize, add_comm raw mean]
  split <;> simp [add_comm]

/-- removing trend, normalisation and mean inverts applying them (no masking on the way), whenever
    `mean + raw` lies in the image of the normalizer -/
theorem pipeline_remove_apply (k : Kind) (p : Par ℝ) (mean trend raw : ℝ) (h : Image k p (raw + mean)) :
    (applyMNT k p mean trend raw).bind (removeTNM k p mean trend) = some raw := by
  have hv := image_subset_range k p _ h
  have hr := norm_denorm_raw k p _ h
  simp only [applyMNT, denormalize, hv, if_true, Option.map_some, Option.bind_some, removeTNM, Model.Norm.normalize,
    add_sub_cancel_right, hr.1, hr.2]

/-- applying mean, denormalisation and trend inverts removing them, for every datum with `v - trend` in the
    valid input range (conditioning data of kriging) -/
theorem pipeline_apply_remove (k : Kind) (p : Par ℝ) (mean trend v : ℝ)
    (h : valid (normRange k p) (v - trend) = true) :
    (removeTNM k p mean trend v).bind (applyMNT k p mean trend) = some v := by
  have hi := range_image k p _ h
  have hr := denorm_norm_raw k p _ h
  simp only [removeTNM, Model.Norm.normalize, h, if_true, Option.map_some, Option.bind_some, applyMNT, denormalize,
    sub_add_cancel, hi.1, hr]

example : Image .yeoJohnson (⟨0.5, 0⟩ : Par ℝ) (-3 + 1) :=
  image_full_yeoJohnson _ _ (by norm_num) (by norm_num)

/-! ### C18_loglik_is_profile_mle -/

/-- Gaussian log-density `log N(y; μ, v)` -/
noncomputable def gaussLogPdf (μ v y : ℝ) : ℝ := -(1 / 2) * Real.log (2 * Real.pi * v) - (y - μ) ^ 2 / (2 * v)

/-- the log-likelihood of data `d` under "`normalize(x)` is `N(μ, v)`": Gaussian log-density of the normalised
    values plus the log-Jacobian `log (d normalize / dx)` (change of variables) -/
noncomputable def logLikGauss (k : Kind) (p : Par ℝ) (μ v : ℝ) (d : List ℝ) : ℝ :=
  (d.map fun x => gaussLogPdf μ v (normRaw k p x) + Real.log (derivRaw k p x)).sum

/-- hypotheses under which the code's formula is meaningful: some data, non-degenerate normalised sample,
    derivative not clipped by `np.maximum(1e-16, ·)` -/
structure LikOK (k : Kind) (p : Par ℝ) (d : List ℝ) : Prop where
  nonempty : d ≠ []
  var_pos : 0 < var (d.map (normRaw k p))
  not_clipped : ∀ x ∈ d, (1e-16 : ℝ) ≤ derivRaw k p x

private theorem length_ne {d : List ℝ} (hn : d ≠ []) : (d.length : ℝ) ≠ 0 := by
  simp only [ne_eq, Nat.cast_eq_zero, List.length_eq_zero_iff]; exact hn

private theorem logLikGauss_eq (k : Kind) (p : Par ℝ) (μ v : ℝ) (d : List ℝ) :
    logLikGauss k p μ v d =
      d.length * (-(1 / 2) * Real.log (2 * Real.pi * v))
        - (d.map fun x => (normRaw k p x - μ) ^ 2).sum / (2 * v)
        + (d.map fun x => Real.log (derivRaw k p x)).sum := by
  unfold logLikGauss gaussLogPdf
  exact sum_gauss d (normRaw k p) (fun x => Real.log (derivRaw k p x)) _ μ v

private theorem var_mul (k : Kind) (p : Par ℝ) (d : List ℝ) (hn : d ≠ []) :
    (d.map fun x => (normRaw k p x - mean (d.map (normRaw k p))) ^ 2).sum
      = d.length * var (d.map (normRaw k p)) := by
  rw [var_eq, mean_eq, List.map_map, List.length_map]
  have hl := length_ne hn
  have : ∀ a : ℝ, (d.length : ℝ) * (a / d.length) = a := fun a => by field_simp
  rw [this]; rfl

private theorem model_jac (k : Kind) (p : Par ℝ) (d : List ℝ) (h : ∀ x ∈ d, (1e-16 : ℝ) ≤ derivRaw k p x) :
    Model.Norm.sum (d.map fun x => Transc.log (fmax (1e-16:ℝ) (derivRaw k p x)))
      = (d.map fun x => Real.log (derivRaw k p x)).sum := by
  rw [sum_eq]; congr 1
  apply List.map_congr_left; intro x hx
  rw [fmax_of_le (h x hx)]; rfl

/-- `loglikelihood` IS the Gaussian log-likelihood of the normalised data with the maximum-likelihood
    estimates `μ̂ = mean`, `σ̂² = var` substituted, plus the Jacobian term -/
theorem loglik_is_profile_mle (k : Kind) (p : Par ℝ) (d : List ℝ) (h : LikOK k p d) :
    logLikRaw k p d =
      logLikGauss k p (mean (d.map (normRaw k p))) (var (d.map (normRaw k p))) d := by
  have hn := length_ne h.nonempty
  have hv := h.var_pos
  rw [logLikGauss_eq, var_mul k p d h.nonempty]
  unfold logLikRaw kernelLLRaw
  rw [model_jac k p d h.not_clipped]
  simp only [log_real, pi_real, Nat.cast_ofNat, Nat.cast_one]
  rw [Real.log_mul (by positivity) hv.ne']
  have e : (d.length : ℝ) * var (d.map (normRaw k p)) / (2 * var (d.map (normRaw k p))) = d.length / 2 := by
    field_simp
  rw [e]
  norm_num
  ring

/-- … and no other Gaussian `(μ, v)` gives the data a larger likelihood: the reported value is the maximum
    of the likelihood over the nuisance parameters (profile likelihood of the normalizer parameters) -/
theorem loglik_profile_max (k : Kind) (p : Par ℝ) (d : List ℝ) (h : LikOK k p d) (μ v : ℝ) (hv : 0 < v) :
    logLikGauss k p μ v d ≤ logLikRaw k p d := by
  rw [loglik_is_profile_mle k p d h, logLikGauss_eq, logLikGauss_eq, var_mul k p d h.nonempty]
  have hn : (0:ℝ) < d.length := lt_of_le_of_ne (Nat.cast_nonneg _) (Ne.symm (length_ne h.nonempty))
  have hV := h.var_pos
  set V := var (d.map (normRaw k p)) with hVdef
  -- squared deviations about μ dominate those about the mean
  have hQ : (d.length : ℝ) * V ≤ (d.map fun x => (normRaw k p x - μ) ^ 2).sum := by
    rw [sum_sq_dev_mean d (normRaw k p) μ h.nonempty]
    have := var_mul k p d h.nonempty
    rw [mean_eq, List.length_map] at this
    rw [this]
    have : 0 ≤ (d.length : ℝ) * ((d.map (normRaw k p)).sum / d.length - μ) ^ 2 := by positivity
    linarith
  have hlog : Real.log (V / v) ≤ V / v - 1 := Real.log_le_sub_one_of_pos (div_pos hV hv)
  rw [Real.log_div hV.ne' hv.ne'] at hlog
  have h2pi : (0:ℝ) < 2 * Real.pi := by positivity
  rw [Real.log_mul h2pi.ne' hv.ne', Real.log_mul h2pi.ne' hV.ne']
  have e : (d.length : ℝ) * V / (2 * V) = d.length / 2 := by field_simp
  rw [e]
  have hdiv : (d.length : ℝ) * V / (2 * v) ≤ (d.map fun x => (normRaw k p x - μ) ^ 2).sum / (2 * v) :=
    div_le_div_of_nonneg_right hQ (by positivity)
  have e2 : (d.length : ℝ) * V / (2 * v) = d.length / 2 * (V / v) := by field_simp
  rw [e2] at hdiv
  nlinarith [mul_le_mul_of_nonneg_left hlog (le_of_lt (half_pos hn))]

/-- `kernel_loglikelihood` is `loglikelihood` without the additive constant `-n/2 (log 2π + 1)` -/
theorem kernel_loglik (k : Kind) (p : Par ℝ) (d : List ℝ) :
    logLikRaw k p d = kernelLLRaw k p d - d.length / 2 * (Real.log (2 * Real.pi) + 1) := by
  simp only [logLikRaw, log_real, pi_real, Nat.cast_ofNat, Nat.cast_one]
  norm_num; ring

/-- the public functions evaluate the raw formulas on exactly the data that survive `_check_input` -/
theorem loglik_checked (k : Kind) (p : Par ℝ) (xs : List ℝ) :
    logLik k p xs = logLikRaw k p (xs.filter fun x => valid (normRange k p) x) ∧
    kernelLL k p xs = kernelLLRaw k p (xs.filter fun x => valid (normRange k p) x) := ⟨rfl, rfl⟩

example : LikOK .identity ⟨1, 0⟩ [0, 2] := by
  refine ⟨by simp, ?_, ?_⟩
  · rw [var_eq]; norm_num [normRaw]
  · intro x _
    have : derivRaw .identity (⟨1, 0⟩ : Par ℝ) x = 1 := by simp only [derivRaw]; norm_num
    rw [this]; norm_num

/-! ### C18_fit — `Normalizer.fit(data, skip)` for an ARBITRARY optimiser

  The optimiser is a parameter: `run : OptRun α` is any sequence of trial points handed to the objective and any
  result vector `x` (so the statements hold for `minimize_scalar`, `minimize`, every `method=` and also for a
  failing optimiser).  The bookkeeping theorems are law-free (any carrier, also `Float`), for arbitrary
  parameter names (`defaults` = keys of `default_parameter` of any subclass) and arbitrary `skip`. -/

section Fit
variable {α : Type} [Arith α]

/-- names that are skipped (or are no parameter at all) are never written: neither by the objective
    evaluations nor by the final write-back — bit-identical, whatever the optimiser does -/
theorem fit_skipped_untouched (defaults skip : List String) (s : Attrs α) (ub : Option (α × α))
    (ux : Option (List α)) (run : OptRun α) (n : String) (h : n ∈ skip ∨ n ∉ defaults) :
    (fit defaults s skip ub ux run).attrs n = s n ∧
    ∀ a ∈ (fit defaults s skip ub ux run).seen, a n = s n := by
  have hn : n ∉ paraNames (sortNames defaults) skip := by
    rw [mem_paraNames, mem_sortNames]
    rcases h with h | h
    · exact fun hc => hc.2 h
    · exact fun hc => h hc.1
  by_cases he : paraNames (sortNames defaults) skip = []
  · rw [fit_of_nil defaults skip s ub ux run he]
    exact ⟨rfl, fun a ha => absurd ha List.not_mem_nil⟩
  · rw [fit_of_ne_nil defaults skip s ub ux run he]
    refine ⟨?_, seenStates_of_not_mem s _ _ hn⟩
    show writeBack (afterTrials s _ run.trials) _ run.x n = s n
    rw [writeBack_of_not_mem _ _ _ hn, afterTrials_of_not_mem _ _ _ hn]

/-- the returned dictionary is the object's parameters by (sorted) name -/
theorem fit_ret_eq_object (defaults skip : List String) (s : Attrs α) (ub : Option (α × α))
    (ux : Option (List α)) (run : OptRun α) (hfree : paraNames (sortNames defaults) skip ≠ []) :
    (fit defaults s skip ub ux run).ret
      = (sortNames defaults).map fun n => (n, (fit defaults s skip ub ux run).attrs n) := by
  rw [fit_of_ne_nil defaults skip s ub ux run hfree]

/-- … its keys are all parameter names, each once, and every value is the object's -/
theorem fit_ret_spec (defaults skip : List String) (s : Attrs α) (ub : Option (α × α))
    (ux : Option (List α)) (run : OptRun α) (hfree : paraNames (sortNames defaults) skip ≠ []) :
    ((fit defaults s skip ub ux run).ret.map Prod.fst).Perm defaults ∧
    ∀ nv ∈ (fit defaults s skip ub ux run).ret, nv.2 = (fit defaults s skip ub ux run).attrs nv.1 := by
  rw [fit_ret_eq_object defaults skip s ub ux run hfree]
  refine ⟨?_, ?_⟩
  · rw [List.map_map]
    have : (Prod.fst ∘ fun n => (n, (fit defaults s skip ub ux run).attrs n)) = id := rfl
    rw [this, List.map_id]; exact sortNames_perm defaults
  · intro nv hnv
    obtain ⟨n, _, rfl⟩ := List.mem_map.mp hnv
    rfl

/-- every free parameter receives its component of the optimiser's result `x` (not a trial value, not a
    component belonging to another name) -/
theorem fit_free_written (defaults skip : List String) (s : Attrs α) (ub : Option (α × α))
    (ux : Option (List α)) (run : OptRun α) (hnd : defaults.Nodup)
    (hlen : run.x.length = (paraNames (sortNames defaults) skip).length)
    (i : Nat) (hi : i < (paraNames (sortNames defaults) skip).length) :
    (fit defaults s skip ub ux run).attrs (paraNames (sortNames defaults) skip)[i] = run.x[i]'(hlen ▸ hi) := by
  have hfree : paraNames (sortNames defaults) skip ≠ [] := by
    intro he; rw [he] at hi; exact Nat.not_lt_zero _ hi
  rw [fit_of_ne_nil defaults skip s ub ux run hfree]
  exact writeBack_get _ _ _ (paraNames_nodup hnd) hlen i hi

/-- nothing to fit (every parameter skipped, or a class without parameters): the object is unchanged, `{}` is
    returned with the warning, the optimiser is not called -/
theorem fit_none_free (defaults skip : List String) (s : Attrs α) (ub : Option (α × α))
    (ux : Option (List α)) (run : OptRun α) (h : ∀ n ∈ defaults, n ∈ skip) :
    (fit defaults s skip ub ux run).attrs = s ∧ (fit defaults s skip ub ux run).ret = [] ∧
    (fit defaults s skip ub ux run).warned = true ∧ (fit defaults s skip ub ux run).route = 0 ∧
    (fit defaults s skip ub ux run).seen = [] := by
  have he : paraNames (sortNames defaults) skip = [] := by
    apply List.eq_nil_iff_forall_not_mem.mpr
    intro n hn
    have := mem_paraNames.mp hn
    exact this.2 (h n (mem_sortNames.mp this.1))
  rw [fit_of_nil defaults skip s ub ux run he]
  exact ⟨rfl, rfl, rfl, rfl, rfl⟩

/-- which scipy routine is used and with which defaults: one free parameter → `minimize_scalar` with the
    caller's bracket or `(-2, 2)`; several → `minimize` started at the caller's `x0` or at the current values
    of the FREE parameters -/
theorem fit_route (defaults skip : List String) (s : Attrs α) (ub : Option (α × α))
    (ux : Option (List α)) (run : OptRun α) (hfree : paraNames (sortNames defaults) skip ≠ []) :
    let r := fit defaults s skip ub ux run
    let free := paraNames (sortNames defaults) skip
    r.warned = false ∧
    (free.length = 1 → r.route = 1 ∧ r.x0 = none ∧ r.bracket = some (ub.getD (-((2:Nat):α), ((2:Nat):α)))) ∧
    (free.length ≠ 1 → r.route = 2 ∧ r.bracket = none ∧ r.x0 = some (ux.getD (free.map s))) := by
  intro r free
  simp only [r, free]
  rw [fit_of_ne_nil defaults skip s ub ux run hfree]
  refine ⟨rfl, fun h1 => ?_, fun h1 => ?_⟩
  · simp only [h1, if_true]; exact ⟨trivial, trivial, trivial⟩
  · simp only [h1, if_false]; exact ⟨trivial, trivial, trivial⟩

end Fit

/-- If the optimiser returns a minimiser of the objective it was handed (over all vectors of the right
    length), then the object ends up at parameters that minimise `J` over ALL parameter settings that agree
    with the start on the non-fitted names — for any function `J` of the object's parameters. -/
theorem fit_optimal (defaults skip : List String) (s : Attrs ℝ) (ub : Option (ℝ × ℝ)) (ux : Option (List ℝ))
    (run : OptRun ℝ) (J : Attrs ℝ → ℝ)
    (hx : run.x.length = (paraNames (sortNames defaults) skip).length)
    (hopt : ∀ t : List ℝ, t.length = (paraNames (sortNames defaults) skip).length →
      objective J s (paraNames (sortNames defaults) skip) run.x
        ≤ objective J s (paraNames (sortNames defaults) skip) t)
    (hfree : paraNames (sortNames defaults) skip ≠ [])
    (b : Attrs ℝ) (hb : ∀ n, n ∉ paraNames (sortNames defaults) skip → b n = s n) :
    J (fit defaults s skip ub ux run).attrs ≤ J b := by
  have hattrs : (fit defaults s skip ub ux run).attrs
      = writeBack s (paraNames (sortNames defaults) skip) run.x := by
    rw [fit_of_ne_nil defaults skip s ub ux run hfree]
    exact writeBack_congr _ _ _ _ (le_of_eq hx.symm) (fun m hm => afterTrials_of_not_mem _ _ _ hm)
  have hbeq : b = writeBack s (paraNames (sortNames defaults) skip)
      ((paraNames (sortNames defaults) skip).map b) := by
    funext m
    by_cases hm : m ∈ paraNames (sortNames defaults) skip
    · rw [writeBack_map _ _ _ hm]
    · rw [writeBack_of_not_mem _ _ _ hm, hb m hm]
  rw [hattrs, hbeq]
  exact hopt _ (List.length_map _)

/-- **Fitted parameters agree with the maximum-likelihood definition** (given a correct optimiser): for class
    `k` and data `d`, if the optimiser's `x` minimises `-kernel_loglikelihood` over the free parameters, then no
    parameter value `p'` that keeps the skipped parameters has a larger (kernel, hence by `kernel_loglik` also
    full) log-likelihood than the fitted object.  With `loglik_profile_max` this is maximality of the Gaussian
    likelihood of the transformed data over the free normalizer parameters AND `(μ, σ²)`. -/
theorem fit_is_mle (k : Kind) (data : List ℝ) (skip : List String) (s : Attrs ℝ) (ub : Option (ℝ × ℝ))
    (ux : Option (List ℝ)) (run : OptRun ℝ)
    (hx : run.x.length = (paraNames (sortNames (paramNames k)) skip).length)
    (hopt : ∀ t : List ℝ, t.length = (paraNames (sortNames (paramNames k)) skip).length →
      objective (negKLL k data) s (paraNames (sortNames (paramNames k)) skip) run.x
        ≤ objective (negKLL k data) s (paraNames (sortNames (paramNames k)) skip) t)
    (hfree : paraNames (sortNames (paramNames k)) skip ≠ [])
    (p' : Par ℝ)
    (hl : "lmbda" ∉ paraNames (sortNames (paramNames k)) skip → p'.lmbda = s "lmbda")
    (hs : "shift" ∉ paraNames (sortNames (paramNames k)) skip → p'.shift = s "shift") :
    kernelLL k p' data ≤ kernelLL k (parOf (fit (paramNames k) s skip ub ux run).attrs) data := by
  let b : Attrs ℝ := fun n => if n = "lmbda" then p'.lmbda else if n = "shift" then p'.shift else s n
  have hb : ∀ n, n ∉ paraNames (sortNames (paramNames k)) skip → b n = s n := by
    intro n hn
    by_cases h1 : n = "lmbda"
    · subst h1; simp only [b, if_true]; exact hl hn
    · by_cases h2 : n = "shift"
      · subst h2; simp only [b, h1, if_false, if_true]; exact hs hn
      · simp only [b, h1, h2, if_false]
  have hpar : parOf b = p' := by
    have : ("shift" : String) ≠ "lmbda" := by decide
    simp only [parOf, b, if_true, this, if_false]
  have := fit_optimal (paramNames k) skip s ub ux run (negKLL k data) hx hopt hfree b hb
  simp only [negKLL, hpar] at this
  exact neg_le_neg_iff.mp this

/-- the same for the full log-likelihood when both parameter values keep the same number of data in range -/
theorem fit_is_mle_loglik (k : Kind) (data : List ℝ) (skip : List String) (s : Attrs ℝ) (ub : Option (ℝ × ℝ))
    (ux : Option (List ℝ)) (run : OptRun ℝ)
    (hx : run.x.length = (paraNames (sortNames (paramNames k)) skip).length)
    (hopt : ∀ t : List ℝ, t.length = (paraNames (sortNames (paramNames k)) skip).length →
      objective (negKLL k data) s (paraNames (sortNames (paramNames k)) skip) run.x
        ≤ objective (negKLL k data) s (paraNames (sortNames (paramNames k)) skip) t)
    (hfree : paraNames (sortNames (paramNames k)) skip ≠ [])
    (p' : Par ℝ)
    (hl : "lmbda" ∉ paraNames (sortNames (paramNames k)) skip → p'.lmbda = s "lmbda")
    (hs : "shift" ∉ paraNames (sortNames (paramNames k)) skip → p'.shift = s "shift")
    (hn : (checked k p' data).length
        = (checked k (parOf (fit (paramNames k) s skip ub ux run).attrs) data).length) :
    logLik k p' data ≤ logLik k (parOf (fit (paramNames k) s skip ub ux run).attrs) data := by
  have h := fit_is_mle k data skip s ub ux run hx hopt hfree p' hl hs
  unfold logLik
  rw [kernel_loglik, kernel_loglik, hn]
  unfold kernelLL at h
  linarith

/-- the hypotheses are satisfiable and the statements not vacuous: `BoxCoxShift` (declared order `shift`, `lmbda`)
    with `lmbda` skipped and an optimiser that tries `7` and returns `3`: the shift becomes `3`, `lmbda` stays,
    the dictionary lists both in sorted order -/
example :
    let s : Attrs ℝ := initAttrs [("shift", 0), ("lmbda", 1)] [("lmbda", 0.5)]
    let r := fit (paramNames .boxCoxShift) s ["lmbda"] none none ⟨[[7]], [3]⟩
    r.attrs "shift" = 3 ∧ r.attrs "lmbda" = 0.5 ∧ r.ret = [("lmbda", 0.5), ("shift", 3)] ∧ r.route = 1 := by
  have e1 : ("shift" : String) ≠ "lmbda" := by decide
  have e2 : ("lmbda" : String) ≠ "shift" := by decide
  have e3 : ("lmbda" : String) < "shift" := by decide
  simp [fit, paramNames, sortNames, insertName, paraNames, afterTrials, writeBack, setAttr, initAttrs, e1, e2, e3,
    List.lookup]

/-- the optimality hypothesis of `fit_optimal` / `fit_is_mle` is satisfiable: for `J = (lmbda - 3)²` a run that
    returns `x = [3]` minimises the objective over all one-element vectors -/
example : ∀ t : List ℝ, t.length = (paraNames (sortNames ["lmbda"]) []).length →
    objective (fun a : Attrs ℝ => (a "lmbda" - 3) ^ 2) (fun _ => 1) (paraNames (sortNames ["lmbda"]) []) [3]
      ≤ objective (fun a : Attrs ℝ => (a "lmbda" - 3) ^ 2) (fun _ => 1) (paraNames (sortNames ["lmbda"]) []) t := by
  intro t ht
  match t, ht with
  | [v], _ =>
    simp only [objective, paraNames, sortNames, insertName, List.foldr, List.filter, List.contains, List.elem,
      Bool.not_false, writeBack, List.zip_cons_cons, List.zip_nil_right, List.foldl, setAttr, if_true]
    nlinarith [sq_nonneg (v - 3)]

end GSV.Props.C18
