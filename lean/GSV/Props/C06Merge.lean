/-
  C06 (repeated stations with measurement errors, simple kriging): the regular-system counterpart of
  `duplicates_pinv_simple`.  With a positive semidefinite covariance of the distinct locations and positive measurement
  errors, BOTH the system of the repeated measurements and the system of the merged measurements (precision-weighted
  mean values, errors `1 / Σ 1/eᵢ`) are positive definite — regular, no pseudo-inverse involved — and with ANY inverses
  the estimate and the returned (clipped) variance of the two coincide at every target; the variance lies in `[0, sill]`.
  The general statement (every variant, general split weights) is `C05.merge_coincident_with_errors` /
  `C05.merge_coincident_weights`; the measurements are NOT interpolated (compare `rhs_not_column_of_coincident`).
-/
import GSV.Props.C06
import GSV.Props.C05Merge
namespace GSV.Props.C06
open GSV GSV.Props GSV.Props.C05 GSV.Model.Krige Finset Matrix

set_option linter.unusedSectionVars false
set_option linter.unusedVariables false

/-- the simple-kriging matrix does not read the drift arrays -/
theorem simple_matrix_indep (n : Nat) (C : Nat → Nat → ℝ) (err : Nat → ℝ) (F E F₂ E₂ : Nat → Nat → ℝ) :
    toMat n (assembleK (simpleLayout n) C err F E) = toMat n (assembleK (simpleLayout n) C err F₂ E₂) := by
  rw [simple_matrix_eq, simple_matrix_eq]

/-- … nor do its right-hand sides -/
theorem simple_rhs_indep (n : Nat) (om : Bool) (c f e f₂ e₂ : Nat → Nat → ℝ) :
    assembleRHS (simpleLayout n) om c f e = assembleRHS (simpleLayout n) om c f₂ e₂ := by
  funext i p
  by_cases h : i < n
  · simp [assembleRHS, simpleLayout, h]
  · simp [assembleRHS, simpleLayout, Layout.fStart, Layout.eStart, Layout.size, Layout.u, h]

/-- **repeated stations with positive measurement errors, simple kriging: regular systems, merged measurements,
    bounded variance.**  `π` sends the `n` conditioning points onto the `m` distinct locations, the covariance of the
    locations is positive semidefinite, every measurement has a positive error.  Then both assembled matrices are
    positive definite, and for ANY inverses `M`, `M'` of them, any target with equal right-hand-side entries and any
    sill `≥ 0`: the estimate and the returned variance of the repeated measurements are those of the merged
    measurements, and the variance lies in `[0, sill]`. -/
theorem merge_coincident_simple (n m : Nat) (π : Nat → Nat) (hπ : ∀ i, i < n → π i < m)
    (hsurj : ∀ a, a < m → ∃ i, i < n ∧ π i = a)
    (C C' : Nat → Nat → ℝ) (err err' : Nat → ℝ) (F E F' E' : Nat → Nat → ℝ)
    (hC : ∀ i j, i < n → j < n → C i j = C' (π i) (π j))
    (hPSD : (toMat m C').PosSemidef)
    (herr : ∀ i, i < n → 0 < err i)
    (herr' : ∀ a, a < m → err' a = 1 / ∑ i ∈ (range n).filter (fun i => π i = a), 1 / err i) :
    (toMat n (assembleK (simpleLayout n) C err F E)).PosDef ∧
    (toMat m (assembleK (simpleLayout m) C' err' F' E')).PosDef ∧
    ∀ (M M' : Nat → Nat → ℝ),
      toMat n M * toMat n (assembleK (simpleLayout n) C err F E) = 1 →
      toMat m M' * toMat m (assembleK (simpleLayout m) C' err' F' E') = 1 →
      ∀ (om : Bool) (c c' f e f' e' : Nat → Nat → ℝ) (p p' : Nat), (∀ i, i < n → c i p = c' (π i) p') →
      ∀ (valn mean valn' mean' : Nat → ℝ),
        (∀ a, a < m → valn' a - mean' a =
          (∑ i ∈ (range n).filter (fun i => π i = a), (valn i - mean i) / err i) /
            (∑ i ∈ (range n).filter (fun i => π i = a), 1 / err i)) →
      ∀ (sill : ℝ), 0 ≤ sill →
        krigeFieldCell M (assembleRHS (simpleLayout n) om c f e) (krigeCond (simpleLayout n) valn mean) n p ((0:Nat):ℝ) =
          krigeFieldCell M' (assembleRHS (simpleLayout m) om c' f' e') (krigeCond (simpleLayout m) valn' mean') m p'
            ((0:Nat):ℝ) ∧
        clipVar sill (krigeErrCell M (assembleRHS (simpleLayout n) om c f e) n p ((0:Nat):ℝ)) =
          clipVar sill (krigeErrCell M' (assembleRHS (simpleLayout m) om c' f' e') m p' ((0:Nat):ℝ)) ∧
        0 ≤ clipVar sill (krigeErrCell M (assembleRHS (simpleLayout n) om c f e) n p ((0:Nat):ℝ)) ∧
        clipVar sill (krigeErrCell M (assembleRHS (simpleLayout n) om c f e) n p ((0:Nat):ℝ)) ≤ sill := by
  have hpos' : ∀ a, a < m → 0 < err' a := by
    intro a ha
    rw [herr' a ha]
    obtain ⟨i, hi, hia⟩ := hsurj a ha
    apply one_div_pos.mpr
    apply Finset.sum_pos
    · intro j hj
      have : j < n := Finset.mem_range.mp (Finset.mem_filter.mp hj).1
      exact one_div_pos.mpr (herr j this)
    · exact ⟨i, Finset.mem_filter.mpr ⟨Finset.mem_range.mpr hi, hia⟩⟩
  have hCsub : toMat n C = (toMat m C').submatrix (fun i : Fin n => (⟨π i, hπ i i.2⟩ : Fin m))
      (fun i : Fin n => (⟨π i, hπ i i.2⟩ : Fin m)) := by
    ext i j
    simp [toMat, hC i j i.2 j.2]
  have hPSDn : (toMat n C).PosSemidef := by
    rw [hCsub]; exact hPSD.submatrix _
  have hP := simple_posDef_of_errors n C err F E hPSDn herr
  have hP' := simple_posDef_of_errors m C' err' F' E' hPSD hpos'
  refine ⟨hP, hP', ?_⟩
  intro M M' hM hM' om c c' f e f' e' p p' hc valn mean valn' mean' hmean sill hs
  have hM0 : toMat (simpleLayout n).size M *
      toMat (simpleLayout n).size (assembleK (simpleLayout n) C err (fun _ _ => 0) (fun _ _ => 0)) = 1 := by
    show toMat n M * toMat n _ = 1
    rw [simple_matrix_indep n C err _ _ F E]; exact hM
  have hM0' : toMat (reLayout (simpleLayout n) m).size M' * toMat (reLayout (simpleLayout n) m).size
      (assembleK (reLayout (simpleLayout n) m) C' err' (fun _ _ => 0) (fun _ _ => 0)) = 1 := by
    show toMat m M' * toMat m (assembleK (simpleLayout m) C' err' _ _) = 1
    rw [simple_matrix_indep m C' err' _ _ F' E']; exact hM'
  have h := merge_coincident_with_errors (simpleLayout n) m π hπ hsurj C C' err err' (fun _ _ => 0) (fun _ _ => 0)
    (fun _ _ => 0) (fun _ _ => 0) hC (fun _ _ _ => rfl) (fun _ _ _ => rfl) herr herr' om c c' (fun _ _ => 0) (fun _ _ => 0)
    (fun _ _ => 0) (fun _ _ => 0) p p' hc (fun _ => rfl) (fun _ => rfl) M M' hM0 hM0' valn mean valn' mean' hmean
  rw [simple_rhs_indep n om c f e (fun _ _ => 0) (fun _ _ => 0),
    simple_rhs_indep m om c' f' e' (fun _ _ => 0) (fun _ _ => 0)]
  have h1 : krigeFieldCell M (assembleRHS (simpleLayout n) om c (fun _ _ => 0) (fun _ _ => 0))
      (krigeCond (simpleLayout n) valn mean) n p ((0:Nat):ℝ) =
      krigeFieldCell M' (assembleRHS (simpleLayout m) om c' (fun _ _ => 0) (fun _ _ => 0))
        (krigeCond (simpleLayout m) valn' mean') m p' ((0:Nat):ℝ) := h.1
  have h2 : krigeErrCell M (assembleRHS (simpleLayout n) om c (fun _ _ => 0) (fun _ _ => 0)) n p ((0:Nat):ℝ) =
      krigeErrCell M' (assembleRHS (simpleLayout m) om c' (fun _ _ => 0) (fun _ _ => 0)) m p' ((0:Nat):ℝ) := h.2
  refine ⟨h1, by rw [h2], ?_⟩
  rw [err_eq_quadratic]
  exact var_le_sill_simple _ _ _ hM hP sill hs

/-- the hypotheses are satisfiable by a repeated station: the all-ones covariance of ONE location is positive
    semidefinite, two measurements there with errors `1/2`, `1/4` merge into one with error `1/6` -/
example : (toMat 1 (fun _ _ => (1:ℝ))).PosSemidef ∧
    (1:ℝ) / ∑ i ∈ (range 2).filter (fun i => (fun _ : Nat => 0) i = 0), 1 / (if i = 0 then (1/2:ℝ) else 1/4) = 1/6 := by
  constructor
  · have h : toMat 1 (fun _ _ => (1:ℝ)) = Matrix.vecMulVec (star (fun _ : Fin 1 => (1:ℝ))) (fun _ => 1) := by
      ext i j; simp [toMat, Matrix.vecMulVec]
    rw [h]
    exact Matrix.posSemidef_vecMulVec_star_self _
  · simp [Finset.sum_range_succ]; norm_num

end GSV.Props.C06
