/-
  C05 — kriging estimates and variances solve the kriging equations.

  Part 1 (law-free, holds for IEEE doubles): the chunk loop of `Krige.__call__` around the *generated*
  kernel is independent of chunk size and schedule; every target cell is the kernel's bilinear
  accumulation of its own right-hand-side column.
  Part 2 (over ℝ): that accumulation is `zᵀ M k` / `kᵀ M k`; if `M` inverts the assembled matrix `K`
  the estimate is `Σ wᵢ zᵢ` with `w` *the* solution of `K w = k`, linear in the data, reproducing
  constants and drift functions, invariant under simultaneous permutation of the conditioning points.
-/
import GSV.Model.Krige
import GSV.Props.KernelKrige
import GSV.Lemmas.Sum
import Mathlib.LinearAlgebra.Matrix.NonsingularInverse
import Mathlib.LinearAlgebra.Matrix.PosDef
import Mathlib.Tactic.Ring
import Mathlib.Tactic.Linarith
namespace GSV.Props.C05
open GSV GSV.Props GSV.Model.Krige GSV.Krigesum Finset Matrix

set_option linter.unusedSectionVars false

/-! ## Part 1: law-free -/
section lawfree
variable {α : Type} [Arith α] [Transc α] [DecidableLT α] [DecidableLE α]

theorem chunk_bounds (cs pnt p : Nat) (hcs : 0 < cs) (hp : p < pnt) :
    chunkLo cs p ≤ p ∧ p - chunkLo cs p < chunkHi cs pnt p - chunkLo cs p := by
  unfold chunkLo chunkHi
  have h1 : p / cs * cs ≤ p := Nat.div_mul_le_self p cs
  have h2 : p < (p / cs + 1) * cs := by
    have := Nat.lt_div_mul_add (a := p) (b := cs) hcs
    rw [Nat.add_mul, Nat.one_mul]; omega
  refine ⟨h1, ?_⟩
  have : p < min pnt ((p / cs + 1) * cs) := by
    rw [Nat.lt_min]; exact ⟨hp, h2⟩
  omega

theorem matVec_shift (M rhs : Nat → Nat → α) (m i lo q : Nat) :
    matVec M (fun i q => rhs i (lo + q)) m i q = matVec M rhs m i (lo + q) := rfl

theorem krigeFieldCell_shift (M rhs : Nat → Nat → α) (cond : Nat → α) (m lo q : Nat) (v : α) :
    krigeFieldCell M (fun i q => rhs i (lo + q)) cond m q v = krigeFieldCell M rhs cond m (lo + q) v := rfl

theorem krigeErrCell_shift (M rhs : Nat → Nat → α) (m lo q : Nat) (v : α) :
    krigeErrCell M (fun i q => rhs i (lo + q)) m q v = krigeErrCell M rhs m (lo + q) v := rfl

/-- **chunk / schedule independence of the estimate** (bit-exact): for every chunk size `cs ≥ 1` and
    every admissible schedule, target `p` receives the bilinear accumulation of column `p`. -/
theorem krigeCall_field (sched : Sched) (hs : sched.Admissible) (L : Layout) (M rhs : Nat → Nat → α)
    (cond : Nat → α) (sill : α) (pnt cs p : Nat) (hcs : 0 < cs) (hp : p < pnt) :
    (krigeCall sched L M rhs cond sill pnt cs).1 p = krigeFieldCell M rhs cond L.size p ((0:Nat):α) := by
  obtain ⟨h1, h2⟩ := chunk_bounds cs pnt p hcs hp
  simp only [krigeCall]
  rw [krige_fv_field_spec sched hs]
  simp only [h2, if_true, krigeFieldCell_shift]
  congr 1; omega

theorem krigeCall_var (sched : Sched) (hs : sched.Admissible) (L : Layout) (M rhs : Nat → Nat → α)
    (cond : Nat → α) (sill : α) (pnt cs p : Nat) (hcs : 0 < cs) (hp : p < pnt) :
    (krigeCall sched L M rhs cond sill pnt cs).2 p = clipVar sill (krigeErrCell M rhs L.size p ((0:Nat):α)) := by
  obtain ⟨h1, h2⟩ := chunk_bounds cs pnt p hcs hp
  simp only [krigeCall]
  rw [krige_fv_error_spec sched hs]
  simp only [h2, if_true, krigeErrCell_shift]
  congr 2; omega

theorem krigeCallField_eq (sched : Sched) (hs : sched.Admissible) (L : Layout) (M rhs : Nat → Nat → α)
    (cond : Nat → α) (pnt cs p : Nat) (hcs : 0 < cs) (hp : p < pnt) :
    krigeCallField sched L M rhs cond pnt cs p = krigeFieldCell M rhs cond L.size p ((0:Nat):α) := by
  obtain ⟨h1, h2⟩ := chunk_bounds cs pnt p hcs hp
  simp only [krigeCallField]
  rw [krige_f_spec sched hs]
  simp only [h2, if_true, krigeFieldCell_shift]
  congr 1; omega

/-- results do not depend on the chunk size, nor on the schedule -/
theorem chunk_independent (s₁ s₂ : Sched) (h₁ : s₁.Admissible) (h₂ : s₂.Admissible) (L : Layout)
    (M rhs : Nat → Nat → α) (cond : Nat → α) (sill : α) (pnt c₁ c₂ p : Nat) (hc₁ : 0 < c₁) (hc₂ : 0 < c₂) (hp : p < pnt) :
    (krigeCall s₁ L M rhs cond sill pnt c₁).1 p = (krigeCall s₂ L M rhs cond sill pnt c₂).1 p ∧
    (krigeCall s₁ L M rhs cond sill pnt c₁).2 p = (krigeCall s₂ L M rhs cond sill pnt c₂).2 p := by
  rw [krigeCall_field s₁ h₁ _ _ _ _ _ _ _ _ hc₁ hp, krigeCall_field s₂ h₂ _ _ _ _ _ _ _ _ hc₂ hp,
      krigeCall_var s₁ h₁ _ _ _ _ _ _ _ _ hc₁ hp, krigeCall_var s₂ h₂ _ _ _ _ _ _ _ _ hc₂ hp]
  exact ⟨rfl, rfl⟩

/-- the value at a target depends only on that target's own right-hand-side column:
    reordering / subsetting / batching the targets permutes the results accordingly -/
theorem target_local (M rhs rhs' : Nat → Nat → α) (cond : Nat → α) (m p p' : Nat)
    (h : ∀ j, rhs j p = rhs' j p') (v : α) :
    krigeFieldCell M rhs cond m p v = krigeFieldCell M rhs' cond m p' v ∧
    krigeErrCell M rhs m p v = krigeErrCell M rhs' m p' v := by
  have hm : ∀ i, matVec M rhs m i p = matVec M rhs' m i p' := by
    intro i; unfold matVec; simp only [h]
  constructor
  · unfold krigeFieldCell; simp only [hm]
  · unfold krigeErrCell; simp only [hm, h]

/-- the variance returned is never negative (clip), on any ordered carrier where `¬ a < 0` is kept -/
theorem clipVar_cases (sill q : α) : clipVar sill q = ((0:Nat):α) ∨ (clipVar sill q = sill - q ∧ ¬ sill - q < ((0:Nat):α)) := by
  unfold clipVar; split
  · exact Or.inl rfl
  · rename_i h; exact Or.inr ⟨rfl, h⟩

end lawfree

/-! ## Part 2: over ℝ -/

/-- a model array as a Mathlib matrix / vector -/
def toMat (s : Nat) (A : Nat → Nat → ℝ) : Matrix (Fin s) (Fin s) ℝ := fun i j => A i j
def toVec (s : Nat) (v : Nat → ℝ) : Fin s → ℝ := fun i => v i
def col (s : Nat) (A : Nat → Nat → ℝ) (p : Nat) : Fin s → ℝ := fun i => A i p

theorem matVec_eq (M rhs : Nat → Nat → ℝ) (s i p : Nat) :
    matVec M rhs s i p = ∑ j : Fin s, M i j * rhs j p := by
  unfold matVec
  rw [forRange_cast_zero_add_eq_sum, Finset.sum_range]

/-- the estimate is the bilinear form `zᵀ M k` -/
theorem field_eq_bilinear (M rhs : Nat → Nat → ℝ) (cond : Nat → ℝ) (s p : Nat) :
    krigeFieldCell M rhs cond s p ((0:Nat):ℝ) = toVec s cond ⬝ᵥ (toMat s M *ᵥ col s rhs p) := by
  unfold krigeFieldCell
  rw [forRange_cast_zero_add_eq_sum, Finset.sum_range]
  simp only [dotProduct, mulVec, toVec, toMat, col, matVec_eq]

/-- the quantity subtracted from the sill is the quadratic form `kᵀ M k` -/
theorem err_eq_quadratic (M rhs : Nat → Nat → ℝ) (s p : Nat) :
    krigeErrCell M rhs s p ((0:Nat):ℝ) = col s rhs p ⬝ᵥ (toMat s M *ᵥ col s rhs p) := by
  unfold krigeErrCell
  rw [forRange_cast_zero_add_eq_sum, Finset.sum_range]
  simp only [dotProduct, mulVec, col, toMat, matVec_eq]

section algebra
variable {s : Nat} (K M : Matrix (Fin s) (Fin s) ℝ) (z k : Fin s → ℝ)

/-- **the kriging equations**: if `M` is a left inverse of the assembled matrix `K`, the weights
    `w = M k` are *the* solution of `K w = k`, and the estimate is `Σ wᵢ zᵢ`, the variance term `Σ wᵢ kᵢ`. -/
theorem solves_system (hMK : M * K = 1) :
    K *ᵥ (M *ᵥ k) = k ∧ (∀ w, K *ᵥ w = k → w = M *ᵥ k) ∧
    z ⬝ᵥ (M *ᵥ k) = ∑ i, (M *ᵥ k) i * z i ∧ k ⬝ᵥ (M *ᵥ k) = ∑ i, (M *ᵥ k) i * k i := by
  have hKM : K * M = 1 := mul_eq_one_comm.mp hMK
  refine ⟨?_, ?_, ?_, ?_⟩
  · rw [mulVec_mulVec, hKM, one_mulVec]
  · intro w hw
    rw [← hw, mulVec_mulVec, hMK, one_mulVec]
  · simp [dotProduct, mul_comm]
  · simp [dotProduct, mul_comm]

/-- the estimate is linear in the (detrended, normalised) data -/
theorem linear_in_data (z₁ z₂ : Fin s → ℝ) (a : ℝ) :
    (a • z₁ + z₂) ⬝ᵥ (M *ᵥ k) = a * (z₁ ⬝ᵥ (M *ᵥ k)) + z₂ ⬝ᵥ (M *ᵥ k) := by
  rw [add_dotProduct, smul_dotProduct, smul_eq_mul]

/-- **border reproduction**: data that are `c` times column `r` of a symmetric `K` are estimated as
    `c · k_r`.  With `r` the unbiasedness row this is "constants are reproduced" (`k_r = 1`), with `r` a
    drift row "the drift function is reproduced" (`k_r = f(x_target)`), with `r = j < n` a datum see
    `exact_at_data`. -/
theorem reproduces_border (hMK : M * K = 1) (hK : K.IsSymm) (r : Fin s) (c : ℝ)
    (hz : z = fun i => c * K i r) : z ⬝ᵥ (M *ᵥ k) = c * k r := by
  have hKM : K * M = 1 := mul_eq_one_comm.mp hMK
  have hz' : z = K *ᵥ (Pi.single r c) := by
    rw [hz]; funext i; simp [mulVec, dotProduct, Pi.single_apply, mul_comm]
  rw [hz', ← vecMul_transpose, ← dotProduct_mulVec, hK.eq, mulVec_mulVec, hKM, one_mulVec]
  simp [dotProduct, Pi.single_apply]

/-- **exact interpolation** (C06): if the right-hand side of a target is column `j` of `K` (the target
    coincides with conditioning point `j` and the measurement error is zero or `exact` mode uses the
    nugget-aware covariance), the estimate is the datum `z_j` and the variance term is `K_jj`. -/
theorem exact_at_data (hMK : M * K = 1) (j : Fin s) (hk : k = fun i => K i j) :
    z ⬝ᵥ (M *ᵥ k) = z j ∧ k ⬝ᵥ (M *ᵥ k) = K j j := by
  have hk' : k = K *ᵥ (Pi.single j 1) := by
    rw [hk]; funext i; simp [mulVec, dotProduct, Pi.single_apply]
  have hw : M *ᵥ k = Pi.single j 1 := by
    rw [hk', mulVec_mulVec, hMK, one_mulVec]
  rw [hw]
  constructor
  · simp [dotProduct, Pi.single_apply]
  · rw [hk]; simp [dotProduct, Pi.single_apply]

/-- invariance under a simultaneous permutation of conditioning points (rows, columns, data, rhs) -/
theorem cond_order_invariant (σ : Equiv.Perm (Fin s)) :
    (z ∘ σ) ⬝ᵥ ((M.submatrix σ σ) *ᵥ (k ∘ σ)) = z ⬝ᵥ (M *ᵥ k) ∧
    ((M.submatrix σ σ) * (K.submatrix σ σ) = 1 ↔ M * K = 1) := by
  constructor
  · have : (M.submatrix σ σ) *ᵥ (k ∘ σ) = (M *ᵥ k) ∘ σ := by
      funext i
      simp only [mulVec, dotProduct, submatrix_apply, Function.comp]
      exact Equiv.sum_comp σ (fun j => M (σ i) j * k j)
    rw [this]
    simp only [dotProduct, Function.comp]
    exact Equiv.sum_comp σ (fun i => z i * (M *ᵥ k) i)
  · rw [submatrix_mul_equiv M K σ σ σ]
    constructor
    · intro h
      have := congrArg (fun A => A.submatrix σ.symm σ.symm) h
      simpa [submatrix_submatrix] using this
    · intro h; rw [h]; simp

/-- simple kriging: `K` positive definite ⇒ the quadratic form is non-negative ⇒ variance ≤ sill -/
theorem var_le_sill_simple (hMK : M * K = 1) (hK : K.PosDef) (sill : ℝ) :
    0 ≤ k ⬝ᵥ (M *ᵥ k) ∧ sill - k ⬝ᵥ (M *ᵥ k) ≤ sill := by
  have hKM : K * M = 1 := mul_eq_one_comm.mp hMK
  set w := M *ᵥ k with hw
  have hk : k = K *ᵥ w := by rw [hw, mulVec_mulVec, hKM, one_mulVec]
  have hpos : 0 ≤ star w ⬝ᵥ (K *ᵥ w) := hK.posSemidef.dotProduct_mulVec_nonneg w
  have : k ⬝ᵥ w = star w ⬝ᵥ (K *ᵥ w) := by
    rw [hk, dotProduct_comm]; simp [star_trivial]
  constructor
  · rw [this]; exact hpos
  · rw [this]; linarith

end algebra

/-- the returned variance is within `[0, sill]` whenever the quadratic form is non-negative -/
theorem clipVar_bounds (sill q : ℝ) (hq : 0 ≤ q) (hs : 0 ≤ sill) :
    0 ≤ clipVar sill q ∧ clipVar sill q ≤ sill := by
  unfold clipVar
  split
  · simp [hs]
  · rename_i h
    simp only [Nat.cast_zero, not_lt] at h
    constructor <;> linarith

theorem clipVar_nonneg (sill q : ℝ) : 0 ≤ clipVar sill q := by
  unfold clipVar
  split
  · simp
  · rename_i h; simpa using h

/-! ### the assembled matrix -/

theorem assembleK_symm (L : Layout) (C : Nat → Nat → ℝ) (err : Nat → ℝ) (F E : Nat → Nat → ℝ)
    (hC : ∀ i j, C i j = C j i) (i j : Nat) :
    assembleK L C err F E i j = assembleK L C err F E j i := by
  unfold assembleK
  by_cases h1 : i < L.n <;> by_cases h2 : j < L.n
  · by_cases hij : i = j
    · subst hij; rfl
    · have : ¬ j = i := fun h => hij h.symm
      simp [h1, h2, hij, this, hC i j]
  · have : L.n ≤ j := by omega
    have h3 : ¬ L.n ≤ i := by omega
    simp [h1, h2, this, h3]
  · have : L.n ≤ i := by omega
    have h3 : ¬ L.n ≤ j := by omega
    simp [h1, h2, this, h3]
  · have h3 : L.n ≤ i := by omega
    have h4 : L.n ≤ j := by omega
    simp [h1, h2, h3, h4]

/-- column `n` of the assembled matrix of an unbiased variant is `(1,…,1,0,…,0)`; the matching entry of
    every right-hand side is `1` — the premises of "constants are reproduced" -/
theorem unbiased_column (L : Layout) (hu : L.unb = true) (C : Nat → Nat → ℝ) (err : Nat → ℝ) (F E : Nat → Nat → ℝ)
    (om : Bool) (c f e : Nat → Nat → ℝ) (i p : Nat) :
    assembleK L C err F E i L.n = (if i < L.n then 1 else 0) ∧ assembleRHS L om c f e L.n p = 1 := by
  constructor
  · unfold assembleK border
    by_cases h : i < L.n
    · have h2 : ¬ L.n ≤ i := by omega
      simp [h, h2, hu]
    · have h2 : L.n ≤ i := by omega
      simp [h, h2]
  · unfold assembleRHS
    simp [hu]

/-- **constants are reproduced** by every unbiased variant, stated on the model's own arrays -/
theorem reproduces_constants (L : Layout) (hu : L.unb = true) (C : Nat → Nat → ℝ) (err : Nat → ℝ) (F E : Nat → Nat → ℝ)
    (hC : ∀ i j, C i j = C j i) (om : Bool) (c f e : Nat → Nat → ℝ) (M : Nat → Nat → ℝ)
    (hMK : toMat L.size M * toMat L.size (assembleK L C err F E) = 1) (valn mean : Nat → ℝ) (a : ℝ)
    (hconst : ∀ i, i < L.n → valn i - mean i = a) (p : Nat) :
    krigeFieldCell M (assembleRHS L om c f e) (krigeCond L valn mean) L.size p ((0:Nat):ℝ) = a := by
  rw [field_eq_bilinear]
  have hn : L.n < L.size := by unfold Layout.size Layout.u; simp [hu]; omega
  have := reproduces_border (toMat L.size (assembleK L C err F E)) (toMat L.size M)
    (toVec L.size (krigeCond L valn mean)) (col L.size (assembleRHS L om c f e) p) hMK
    (by ext i j; exact assembleK_symm L C err F E hC j i) ⟨L.n, hn⟩ a
    (by
      funext i
      simp only [toVec, toMat, krigeCond, (unbiased_column L hu C err F E om c f e i p).1]
      by_cases h : (i : Nat) < L.n
      · simp [h, hconst i h]
      · simp [h])
  rw [this]
  simp [col, (unbiased_column L hu C err F E om c f e 0 p).2]


/-! ## Part 3: data preparation, post-processing, and the refresh protocol of one object -/

/-- on the data rows the prepared conditions are `normalize(cond_val − trend) − mean` — in this order -/
theorem prepCond_data (L : Layout) (norm : ℝ → ℝ) (val trend mean : Nat → ℝ) (i : Nat) (hi : i < L.n) :
    prepCond L norm val trend mean i = norm (val i - trend i) - mean i := by
  simp [prepCond, krigeCond, hi]

/-- the padding rows (unbiasedness, drifts) carry zero -/
theorem prepCond_pad (L : Layout) (norm : ℝ → ℝ) (val trend mean : Nat → ℝ) (i : Nat) (hi : L.n ≤ i) :
    prepCond L norm val trend mean i = 0 := by
  have : ¬ i < L.n := by omega
  simp [prepCond, krigeCond, this]

/-- **kriging with mean, normaliser and trend** is kriging of the prepared data followed by the inverse
    pipeline: the post-processed estimate at target `p` is
    `trend(p) + denorm(mean(p) + Σ_{i<n} (norm(zᵢ − tᵢ) − mᵢ) · wᵢ)` with the weights `w = M k_p`
    (by `solves_system` *the* solution of `K w = k_p` when `M` inverts `K`; `matVec_eq` identifies them). -/
theorem post_of_prepared (L : Layout) (M rhs : Nat → Nat → ℝ) (norm denorm : ℝ → ℝ) (val trend mean : Nat → ℝ)
    (meanT trendT : ℝ) (p : Nat) :
    postCell denorm meanT trendT (krigeFieldCell M rhs (prepCond L norm val trend mean) L.size p ((0:Nat):ℝ)) =
      denorm ((∑ i ∈ Finset.range L.n, (norm (val i - trend i) - mean i) * matVec M rhs L.size i p) + meanT) + trendT := by
  unfold postCell krigeFieldCell
  rw [forRange_cast_zero_add_eq_sum]
  have hsub : Finset.range L.n ⊆ Finset.range L.size := by
    intro i hi
    simp only [Finset.mem_range] at hi ⊢
    unfold Layout.size; omega
  rw [← Finset.sum_subset hsub]
  · congr 3
    apply Finset.sum_congr rfl
    intro i hi
    rw [prepCond_data L norm val trend mean i (Finset.mem_range.mp hi)]
  · intro i _ hi
    have : L.n ≤ i := by simpa using hi
    rw [prepCond_pad L norm val trend mean i this]; ring

/-- satisfiable and order-sensitive: with `norm = log`-like non-additive maps the two orders differ; here a
    concrete non-additive `norm` (squaring) separates `norm(z − t) − m` from `norm(z − t − m)` -/
example : (fun x : ℝ => x * x) (3 - 1) - 1 ≠ (fun x : ℝ => x * x) (3 - 1 - 1) := by norm_num

/-! ### refresh protocol and target positions -/

/-- `set_condition` — whatever arguments are passed (including `fit_normalizer` / `fit_variogram`) and whatever
    happened before — leaves the object in sync: matrix and isometrised conditioning positions belong to the model
    AFTER the fit -/
theorem setCond_synced (s : HState) (p v e r fn fv : Option Nat) : hsynced (setCond s p v e r fn fv) := by
  simp [hsynced, setCond, hinit]

/-- `set_condition` does not touch the stored target positions -/
theorem setCond_tpos (s : HState) (p v e r fn fv : Option Nat) : (setCond s p v e r fn fv).tpos = s.tpos := by
  simp [setCond]

/-- after `set_condition(fit_variogram=True)` the current model is the fitted one, and matrix, conditioning
    positions and right-hand sides all use it -/
theorem setCond_fit (s : HState) (p v e r fn : Option Nat) (m : Nat) (t : Nat × Bool) :
    (setCond s p v e r fn (some m)).model = m ∧
    (callTok (setCond s p v e r fn (some m)) t).matModel = m ∧ (callTok (setCond s p v e r fn (some m)) t).kpModel = m ∧
    (callTok (setCond s p v e r fn (some m)) t).rhsModel = m := by
  simp [setCond, hinit, callTok]

/-- a synced object computes, at ANY targets, what a freshly constructed one computes there -/
theorem synced_call_fresh (s : HState) (h : hsynced s) (t : Nat × Bool) : callTok s t = freshTok s t := by
  obtain ⟨h1, h2, h3, h4, h5, h6⟩ := h
  simp [callTok, freshTok, hinit, h1, h2, h3, h4, h5, h6]

/-- calls (with or without positions), `set_pos`, re-assignments of mean/normaliser/trend and further
    `set_condition`s keep an object in sync -/
theorem synced_step (s : HState) (h : hsynced s) (op : HOp) (hop : ∀ v, op ≠ .editModel v) :
    hsynced (hstep s op).1 := by
  cases op with
  | editModel v => exact absurd rfl (hop v)
  | editMNT v => simpa [hstep, hsynced] using h
  | setCond p v e r fn fv => exact setCond_synced s p v e r fn fv
  | setPos p st => simpa [hstep, hsynced] using h
  | call pos st via =>
    simp only [hstep]
    cases target s.tpos pos st via with
    | none => simpa using h
    | some t => simpa [hsynced] using h

/-- **the stored positions are the given ones**: after any operation the object's `pos`/`mesh_type` are the
    ones last given to it (by `set_pos` or by a call that passed positions) — never earlier ones, however
    similar; model edits, re-assignments, `set_condition` and position-less calls leave them alone -/
theorem step_tpos (s : HState) (g : Option (Nat × Bool)) (op : HOp) (h : s.tpos = g) :
    (hstep s op).1.tpos = given g op := by
  cases op with
  | editModel v => simpa [hstep, given] using h
  | editMNT v => simpa [hstep, given] using h
  | setCond p v e r fn fv => simpa [hstep, given, setCond_tpos] using h
  | setPos p st => simp [hstep, given]
  | call pos st via =>
    cases pos with
    | some p => simp [hstep, target, given]
    | none =>
      simp only [hstep, given]
      rcases hg : s.tpos with _ | ⟨q, m⟩
      · simp [target, ← h, hg]
      · by_cases hc : (via && (m != st)) = true
        · simp [target, hc, ← h, hg]
        · simp [target, hc, ← h, hg]

/-- … along a whole history -/
theorem final_tpos : ∀ (ops : List HOp) (s : HState) (g : Option (Nat × Bool)), s.tpos = g →
    (hfinal s ops).tpos = ops.foldl given g
  | [], _, _, h => by simpa [hfinal] using h
  | op :: ops, s, g, h => by
    have := final_tpos ops (hstep s op).1 (given g op) (step_tpos s g op h)
    simpa [hfinal] using this

/-- a call on a synced object whose stored positions are the last given ones returns what the specification
    asks for: the fresh object evaluated at the requested targets (or the same refusal) -/
theorem synced_call_spec (s : HState) (g : Option (Nat × Bool)) (hs : hsynced s) (hg : s.tpos = g)
    (pos : Option Nat) (st via : Bool) :
    (hstep s (.call pos st via)).2 = specRes s g (.call pos st via) := by
  simp only [hstep, specRes, hg]
  cases target g pos st via with
  | none => rfl
  | some t => simp [synced_call_fresh s hs t]

/-- every call of a history without model edits, started in a synced state whose stored positions are the last
    given ones, equals a fresh object evaluated at the requested targets -/
theorem history_fresh : ∀ (ops : List HOp) (s : HState) (g : Option (Nat × Bool)), hsynced s → s.tpos = g →
    (∀ op ∈ ops, ∀ v, op ≠ .editModel v) → ∀ x ∈ hrun s g ops, x.1 = x.2
  | [], _, _, _, _, _, x, hx => by simp [hrun] at hx
  | op :: ops, s, g, hs, hg, hops, x, hx => by
    have hop : ∀ v, op ≠ .editModel v := hops op (List.mem_cons_self ..)
    have hs' := synced_step s hs op hop
    have hg' := step_tpos s g op hg
    have hrest := history_fresh ops (hstep s op).1 (given g op) hs' hg' (fun o ho => hops o (List.mem_cons_of_mem _ ho))
    rw [hrun] at hx
    cases op with
    | call pos st via =>
      have hc := synced_call_spec s g hs hg pos st via
      rcases hy : specRes s g (.call pos st via) with _ | y
      · rw [hy] at hc; simp only [hc, hy] at hx; exact hrest x hx
      · rw [hy] at hc; simp only [hc, hy] at hx
        rcases List.mem_cons.mp hx with rfl | hx
        · rfl
        · exact hrest x hx
    | editModel v => exact absurd rfl (hop v)
    | editMNT v => simp only [hstep, specRes] at hx hrest; exact hrest x hx
    | setCond p v e r fn fv => simp only [hstep, specRes] at hx hrest; exact hrest x hx
    | setPos p st => simp only [hstep, specRes] at hx hrest; exact hrest x hx

/-- **no stale kriging after `set_condition`**: after ANY state (any earlier history of model edits, calls,
    re-conditionings) whose stored positions are the last given ones, a `set_condition` in any argument form makes
    every later call — with new, nearly equal, or no positions, under either mesh type, until the next model
    edit (a fit inside `set_condition` is not one: it happens before the rebuild) — equal to the call of a freshly constructed object (current model and conditions) at the requested targets -/
theorem set_condition_refreshes (s : HState) (g : Option (Nat × Bool)) (hg : s.tpos = g) (p v e r fn fv : Option Nat)
    (ops : List HOp) (hops : ∀ op ∈ ops, ∀ m, op ≠ .editModel m) :
    ∀ x ∈ hrun (setCond s p v e r fn fv) g ops, x.1 = x.2 :=
  history_fresh ops _ g (setCond_synced s p v e r fn fv) (by rw [setCond_tpos]; exact hg) hops

/-- a freshly constructed object: every history without model edits is served at the requested targets -/
theorem fresh_object_history (model pos val err ext mnt : Nat) (ops : List HOp)
    (hops : ∀ op ∈ ops, ∀ m, op ≠ .editModel m) : ∀ x ∈ hrun (hinit model pos val err ext mnt) none ops, x.1 = x.2 :=
  history_fresh ops _ none (by simp [hsynced, hinit]) rfl hops

/-- the protocol is not vacuous: a model edit without `set_condition` IS stale (the matrix belongs to the old
    model), and `set_condition(cond_val=…)` alone repairs it -/
example : hrun (hinit 1 1 1 1 0 1) none [.editModel 2, .call (some 5) false false] ≠ [] ∧
    (∀ x ∈ hrun (hinit 1 1 1 1 0 1) none [.editModel 2, .call (some 5) false false], x.1 ≠ x.2) ∧
    (∀ x ∈ hrun (hinit 1 1 1 1 0 1) none [.editModel 2, .setCond none (some 2) none none none none, .call (some 5) false false], x.1 = x.2) := by
  decide

/-- targets are not vacuous either: consecutive calls at positions 7 and 8 (distinct identifiers, e.g. a raster
    shifted by a metre) are evaluated at 7 and at 8; a position-less call afterwards and one after
    `set_condition` at 8; after `set_pos 9` at 9; a position-less call before any positions is refused; and
    `kr.structured()` refuses to reuse unstructured positions -/
example : (hrun (hinit 1 1 1 1 0 1) none
      [.call none false false, .call (some 7) false false, .call (some 8) false false, .call none false false,
       .setCond none (some 2) none none none none, .call none true false, .call none true true, .setPos 9 true, .call none false false]).map
      (fun x => match x.1 with | .ok t => some (t.tpos, t.tmesh) | .noPos => none)
    = [none, some (7, false), some (8, false), some (8, false), some (8, false), none, some (9, true)] := by
  decide

/-- a fit inside `set_condition` is served like a fresh object holding a copy of the fitted model (3) -/
example : ∀ x ∈ hrun (hinit 1 1 1 1 0 1) none [.setCond none none none none none (some 3), .call (some 5) false false],
    x.1 = x.2 ∧ x.1 = .ok (freshTok { hinit 1 1 1 1 0 1 with model := 3 } (5, false)) := by
  decide

/-- … whereas an object whose isometrised conditioning positions were computed BEFORE the fit is not -/
example : callTok { setCond (hinit 1 1 1 1 0 1) none none none none none (some 3) with kpModel := 1 } (5, false)
    ≠ freshTok (setCond (hinit 1 1 1 1 0 1) none none none none none (some 3)) (5, false) := by
  decide

/-- an object that put earlier positions back would NOT satisfy the specification: evaluated at 7 instead of 8 -/
example : HRes.ok (callTok (hinit 1 1 1 1 0 1) (7, false)) ≠ HRes.ok (freshTok (hinit 1 1 1 1 0 1) (8, false)) := by
  decide

/-- premises are satisfiable: a 2-point ordinary kriging system with an explicit inverse -/
example : ∃ (K M : Matrix (Fin 2) (Fin 2) ℝ), M * K = 1 ∧ K.IsSymm ∧ K ≠ 1 :=
  ⟨!![2, 1; 1, 0], !![0, 1; 1, -2], by ext i j; fin_cases i <;> fin_cases j <;> simp [Matrix.mul_apply, Fin.sum_univ_two],
    by ext i j; fin_cases i <;> fin_cases j <;> rfl, by
      intro h; have := congrFun (congrFun h 0) 0; simp at this⟩

end GSV.Props.C05
