/-
  C06 (exact mode, repeated stations): with `exact=True` the right-hand side uses the nugget-aware covariance — the sill
  at every lag inside numpy's `isclose` band of 0 — while the matrix carries the plain covariance plus the nugget on the
  diagonal.  For a target on conditioning point `j` the right-hand side is column `j` of the matrix, and the datum is
  honoured with zero variance, exactly when NO OTHER conditioning point lies inside the band of `j`
  (`rhs_is_column_exact`, `exact_at_data_exact_mode`); a second point inside the band gets the sill on the right-hand
  side but the plain covariance in the matrix (`rhs_not_column_of_coincident`) — repeated measurements carry
  contradictory data and are not interpolated.
-/
import GSV.Props.C06
import GSV.Props.C05Coin
namespace GSV.Props.C06
open GSV GSV.Props GSV.Props.C05 GSV.Model.Krige Finset Matrix

/-- **exact mode, isolated conditioning point**: target `p` sits on conditioning point `j` (its lags and plain
    covariances to the conditioning points are those of `j`), `j` is inside its own band (lag 0), no other conditioning
    point is inside the band of `j`, and the sill is the lag-0 covariance plus the nugget.  Then the lag-based right-hand
    side in exact mode is column `j` of the matrix of the configuration with the default error setting. -/
theorem rhs_is_column_exact (L : Layout) (d cv dt cvt : Nat → Nat → ℝ) (nugget sill : ℝ) (F E f e : Nat → Nat → ℝ)
    (j p : Nat) (hj : j < L.n)
    (hlag : ∀ i, i < L.n → dt i p = d i j) (hcv : ∀ i, i < L.n → cvt i p = cv i j)
    (hself : lagZero (d j j) = true) (hiso : ∀ i, i < L.n → i ≠ j → lagZero (d i j) = false)
    (hsill : sill = cv j j + nugget)
    (hf : ∀ r, f r p = F r j) (he : ∀ r, e r p = E r j) (i : Nat) (hi : i < L.size) :
    assembleRHSLag L false true sill dt cvt f e i p = assembleKCfg L cv nugget ErrSpec.nugget F E i j := by
  unfold assembleRHSLag assembleKCfg
  refine rhs_is_column L cv (condErr nugget ErrSpec.nugget) F E (rhsCov true sill dt cvt) f e j p hj ?_ hf he i hi
  intro i hi
  by_cases hij : i = j
  · subst hij
    have : lagZero (dt i p) = true := by rw [hlag i hi]; exact hself
    rw [rhsCov_exact_zero sill dt cvt i p this]
    simp [hsill, condErr]
  · have : lagZero (dt i p) = false := by rw [hlag i hi]; exact hiso i hi hij
    rw [rhsCov_exact_far sill dt cvt i p this]
    simp [hij, hcv i hi]

/-- **exact interpolation in exact mode with a nugget**: at an isolated conditioning point the raw field is the
    prepared datum and the variance is `0` — also when OTHER stations of the layout are repeated -/
theorem exact_at_data_exact_mode (L : Layout) (d cv dt cvt : Nat → Nat → ℝ) (nugget sill : ℝ) (F E f e : Nat → Nat → ℝ)
    (M : Nat → Nat → ℝ)
    (hMK : toMat L.size M * toMat L.size (assembleKCfg L cv nugget ErrSpec.nugget F E) = 1)
    (valn mean : Nat → ℝ) (j p : Nat) (hj : j < L.n)
    (hlag : ∀ i, i < L.n → dt i p = d i j) (hcv : ∀ i, i < L.n → cvt i p = cv i j)
    (hself : lagZero (d j j) = true) (hiso : ∀ i, i < L.n → i ≠ j → lagZero (d i j) = false)
    (hsill : sill = cv j j + nugget)
    (hf : ∀ r, f r p = F r j) (he : ∀ r, e r p = E r j) :
    krigeFieldCell M (assembleRHSLag L false true sill dt cvt f e) (krigeCond L valn mean) L.size p ((0:Nat):ℝ)
        = valn j - mean j ∧
    clipVar sill (krigeErrCell M (assembleRHSLag L false true sill dt cvt f e) L.size p ((0:Nat):ℝ)) = 0 := by
  have hc : ∀ i, i < L.n → rhsCov true sill dt cvt i p
      = if i = j then cv i j + condErr nugget ErrSpec.nugget i else cv i j := by
    intro i hi
    by_cases hij : i = j
    · subst hij
      have : lagZero (dt i p) = true := by rw [hlag i hi]; exact hself
      rw [rhsCov_exact_zero sill dt cvt i p this]
      simp [hsill, condErr]
    · have : lagZero (dt i p) = false := by rw [hlag i hi]; exact hiso i hi hij
      rw [rhsCov_exact_far sill dt cvt i p this]
      simp [hij, hcv i hi]
  have := exact_at_data_model L cv (condErr nugget ErrSpec.nugget) F E (rhsCov true sill dt cvt) f e M hMK
    valn mean j p hj hc hf he sill
  refine ⟨this.1, ?_⟩
  have h2 := this.2
  unfold assembleRHSLag
  rw [h2]
  exact zero_variance_at_data sill _ (by simp [hsill, condErr])

/-- **a second conditioning point inside the band is NOT interpolated around**: for `i ≠ j` inside the band of `j`
    (e.g. a repeated measurement at the same station) and a positive nugget, the right-hand side of a target on `j` has
    the sill in row `i` whereas the matrix has the plain covariance there — the right-hand side is not the column. -/
theorem rhs_not_column_of_coincident (L : Layout) (d cv dt cvt : Nat → Nat → ℝ) (nugget sill : ℝ) (F E f e : Nat → Nat → ℝ)
    (i j p : Nat) (hi : i < L.n) (hj : j < L.n) (hij : i ≠ j)
    (hlag : dt i p = d i j) (hband : lagZero (d i j) = true) (hsill : sill = cv i j + nugget) (hn : 0 < nugget) :
    assembleRHSLag L false true sill dt cvt f e i p ≠ assembleKCfg L cv nugget ErrSpec.nugget F E i j := by
  rw [assembleRHSLag_data L true sill dt cvt f e i p hi, assembleKCfg_offdiag L cv nugget _ F E i j hi hj hij,
    rhsCov_exact_zero sill dt cvt i p (by rw [hlag]; exact hband), hsill]
  intro h
  linarith

/-- the hypotheses are satisfiable: lags `0` and `1` (inside / outside the band) -/
example : lagZero (0:ℝ) = true ∧ lagZero (1:ℝ) = false := by
  constructor
  · rw [lagZero_iff]; norm_num
  · have : ¬ (lagZero (1:ℝ) = true) := by rw [lagZero_iff]; norm_num
    simpa using this

end GSV.Props.C06
