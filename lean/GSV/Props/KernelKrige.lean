/-
  Law-free specification of the generated kriging summation kernels (krige/krigesum.pyx).
-/
import GSV.Gen.Krigesum
import GSV.Lemmas.Ctl
namespace GSV.Props
open GSV GSV.Transc GSV.Krigesum

variable {α : Type} [Arith α] [Transc α]

/-- `(M v_k)_i` accumulated in the kernel's order -/
def matVec (mat vecs : Nat → Nat → α) (m i k : Nat) : α :=
  forRange 0 m ((0:Nat):α) fun j acc => acc + mat i j * vecs j k

/-- (field, error) of target `k`, accumulated from `v0` -/
def krigeCell (mat vecs : Nat → Nat → α) (cond : Nat → α) (m k : Nat) (v0 : α × α) : α × α :=
  forRange 0 m v0 fun i p => (p.1 + cond i * matVec mat vecs m i k, p.2 + vecs i k * matVec mat vecs m i k)

def krigeFieldCell (mat vecs : Nat → Nat → α) (cond : Nat → α) (m k : Nat) (v0 : α) : α :=
  forRange 0 m v0 fun i p => p + cond i * matVec mat vecs m i k

def krigeErrCell (mat vecs : Nat → Nat → α) (m k : Nat) (v0 : α) : α :=
  forRange 0 m v0 fun i p => p + vecs i k * matVec mat vecs m i k

private theorem fv_inner_keep (mat vecs : Nat → Nat → α) (m i k : Nat) (s : calc_field_krige_and_variance.St α) :
    let s' := forRange 0 m ({ s with krig_fac := ((0:Nat):α) } : calc_field_krige_and_variance.St α)
        fun j' (st : calc_field_krige_and_variance.St α) =>
          ({ st with krig_fac := st.krig_fac + mat i j' * vecs j' k } : calc_field_krige_and_variance.St α)
    s'.field = s.field ∧ s'.error = s.error ∧ s'.krig_fac = matVec mat vecs m i k := by
  refine ⟨?_, ?_, ?_⟩
  · exact forRange_keep (fun (s : calc_field_krige_and_variance.St α) => s.field) _ (by intros; rfl) _ _ _
  · exact forRange_keep (fun (s : calc_field_krige_and_variance.St α) => s.error) _ (by intros; rfl) _ _ _
  · exact forRange_proj (fun (s : calc_field_krige_and_variance.St α) => s.krig_fac) _
        (fun j acc => acc + mat i j * vecs j k) (by intros; rfl) _ _ _

theorem krige_fv_field_spec (sched : Sched) (hs : sched.Admissible)
    (mat : Nat → Nat → α) (m m1 : Nat) (vecs : Nat → Nat → α) (v0 r : Nat) (cond : Nat → α) (c0 : Nat) (k : Nat) :
    (calc_field_krige_and_variance sched mat m m1 vecs v0 r cond c0).1 k =
      if k < r then krigeFieldCell mat vecs cond m k ((0:Nat):α) else ((0:Nat):α) := by
  unfold calc_field_krige_and_variance
  simp only []
  rw [parRange_owned (fun (s : calc_field_krige_and_variance.St α) => s.field)
      (fun k v => krigeFieldCell mat vecs cond m k v) _ _ _ sched hs]
  · simp
  · intro i s k hk
    rw [forRange_proj (fun (s : calc_field_krige_and_variance.St α) => s.field k) _ (fun _ v => v)]
    · exact forRange_keep id _ (by intros; rfl) _ _ _
    · intro j s
      have h := fv_inner_keep mat vecs m j i s
      simp only [upd_other _ _ hk]
      rw [h.1]
  · intro k s
    unfold krigeFieldCell
    rw [forRange_proj (fun (s : calc_field_krige_and_variance.St α) => s.field k) _
      (fun i p => p + cond i * matVec mat vecs m i k)]
    intro i s
    have h := fv_inner_keep mat vecs m i k s
    simp only [upd_same]
    rw [h.1, h.2.2]

theorem krige_fv_error_spec (sched : Sched) (hs : sched.Admissible)
    (mat : Nat → Nat → α) (m m1 : Nat) (vecs : Nat → Nat → α) (v0 r : Nat) (cond : Nat → α) (c0 : Nat) (k : Nat) :
    (calc_field_krige_and_variance sched mat m m1 vecs v0 r cond c0).2 k =
      if k < r then krigeErrCell mat vecs m k ((0:Nat):α) else ((0:Nat):α) := by
  unfold calc_field_krige_and_variance
  simp only []
  rw [parRange_owned (fun (s : calc_field_krige_and_variance.St α) => s.error)
      (fun k v => krigeErrCell mat vecs m k v) _ _ _ sched hs]
  · simp
  · intro i s k hk
    rw [forRange_proj (fun (s : calc_field_krige_and_variance.St α) => s.error k) _ (fun _ v => v)]
    · exact forRange_keep id _ (by intros; rfl) _ _ _
    · intro j s
      have h := fv_inner_keep mat vecs m j i s
      simp only [upd_other _ _ hk]
      rw [h.2.1]
  · intro k s
    unfold krigeErrCell
    rw [forRange_proj (fun (s : calc_field_krige_and_variance.St α) => s.error k) _
      (fun i p => p + vecs i k * matVec mat vecs m i k)]
    intro i s
    have h := fv_inner_keep mat vecs m i k s
    simp only [upd_same]
    rw [h.2.1, h.2.2]

theorem krige_f_spec (sched : Sched) (hs : sched.Admissible)
    (mat : Nat → Nat → α) (m m1 : Nat) (vecs : Nat → Nat → α) (v0 r : Nat) (cond : Nat → α) (c0 : Nat) (k : Nat) :
    calc_field_krige sched mat m m1 vecs v0 r cond c0 k =
      if k < r then krigeFieldCell mat vecs cond m k ((0:Nat):α) else ((0:Nat):α) := by
  unfold calc_field_krige
  simp only []
  rw [parRange_owned (fun (s : calc_field_krige.St α) => s.field)
      (fun k v => krigeFieldCell mat vecs cond m k v) _ _ _ sched hs]
  · simp
  · intro i s k hk
    rw [forRange_proj (fun (s : calc_field_krige.St α) => s.field k) _ (fun _ v => v)]
    · exact forRange_keep id _ (by intros; rfl) _ _ _
    · intro j s
      simp only [upd_other _ _ hk]
      exact forRange_keep (fun (s : calc_field_krige.St α) => s.field k) _ (by intros; rfl) _ _ _
  · intro k s
    unfold krigeFieldCell
    rw [forRange_proj (fun (s : calc_field_krige.St α) => s.field k) _
      (fun i p => p + cond i * matVec mat vecs m i k)]
    intro i s
    simp only [upd_same]
    have h1 : (forRange 0 m ({ s with krig_fac := ((0:Nat):α) } : calc_field_krige.St α)
        fun j' (st : calc_field_krige.St α) =>
          ({ st with krig_fac := st.krig_fac + mat i j' * vecs j' k } : calc_field_krige.St α)).field = s.field :=
      forRange_keep (fun (s : calc_field_krige.St α) => s.field) _ (by intros; rfl) _ _ _
    have h2 : (forRange 0 m ({ s with krig_fac := ((0:Nat):α) } : calc_field_krige.St α)
        fun j' (st : calc_field_krige.St α) =>
          ({ st with krig_fac := st.krig_fac + mat i j' * vecs j' k } : calc_field_krige.St α)).krig_fac
        = matVec mat vecs m i k :=
      forRange_proj (fun (s : calc_field_krige.St α) => s.krig_fac) _
        (fun j acc => acc + mat i j * vecs j k) (by intros; rfl) _ _ _
    rw [h1, h2]

/-- the field-only kernel returns the field of the field-and-variance kernel (any two admissible schedules) -/
theorem krige_f_eq_fv_field (s1 s2 : Sched) (h1 : s1.Admissible) (h2 : s2.Admissible)
    (mat : Nat → Nat → α) (m m1 : Nat) (vecs : Nat → Nat → α) (v0 r : Nat) (cond : Nat → α) (c0 : Nat) :
    calc_field_krige s1 mat m m1 vecs v0 r cond c0 = (calc_field_krige_and_variance s2 mat m m1 vecs v0 r cond c0).1 := by
  funext k
  rw [krige_f_spec s1 h1, krige_fv_field_spec s2 h2]

end GSV.Props
