/-
  C11 — seeded field generation is deterministic and local.

  Part 1 (law-free, on the kernels regenerated from summator.pyx): the value at a location is a
  function of that location's coordinates only — independent of point order, of which other points are
  requested, of batching and of the schedule; bit-exact for IEEE doubles.
  Part 2: the generator bookkeeping (private model copy, seed, mode number, derived arrays) as a state
  machine: in every reachable state the arrays are the ones derived from the generator's current
  settings, and every field-level call returns what a freshly constructed object returns.
-/
import GSV.Props.KernelSummate
import GSV.Model.Gen
namespace GSV.Props.C11
open GSV GSV.Transc GSV.Summator GSV.Props GSV.Model.Gen

set_option linter.unusedSectionVars false

section locality
variable {α : Type} [Arith α] [Transc α] [DecidableLT α] [DecidableLE α]

theorem phaseOf_local (k x x' : Nat → Nat → α) (dim j i i' : Nat)
    (h : ∀ d, d < dim → x d i = x' d i') : phaseOf k x dim j i = phaseOf k x' dim j i' := by
  unfold phaseOf
  exact forRange_congr 0 dim _ _ (fun d _ hd acc => by rw [h d hd]) _

/-- **randomization method**: the value at output cell `i` depends only on column `i` of the positions -/
theorem summate_local (s s' : Sched) (hs : s.Admissible) (hs' : s'.Admissible)
    (cov : Nat → Nat → α) (c0 c1 : Nat) (z1 : Nat → α) (n1 : Nat) (z2 : Nat → α) (n2 : Nat)
    (pos pos' : Nat → Nat → α) (dim X X' i i' : Nat) (hi : i < X) (hi' : i' < X')
    (h : ∀ d, d < dim → pos d i = pos' d i') :
    summate s cov c0 c1 z1 n1 z2 n2 pos dim X i = summate s' cov c0 c1 z1 n1 z2 n2 pos' dim X' i' := by
  rw [summate_spec s hs, summate_spec s' hs']
  simp only [hi, hi', if_true]
  unfold summateCell
  refine forRange_congr 0 c1 _ _ (fun j _ _ acc => ?_) _
  rw [phaseOf_local cov pos pos' dim j i i' h]

/-- **Fourier method** -/
theorem summate_fourier_local (s s' : Sched) (hs : s.Admissible) (hs' : s'.Admissible)
    (sf : Nat → α) (f0 : Nat) (modes : Nat → Nat → α) (c0 c1 : Nat) (z1 : Nat → α) (n1 : Nat) (z2 : Nat → α) (n2 : Nat)
    (pos pos' : Nat → Nat → α) (dim X X' i i' : Nat) (hi : i < X) (hi' : i' < X')
    (h : ∀ d, d < dim → pos d i = pos' d i') :
    summate_fourier s sf f0 modes c0 c1 z1 n1 z2 n2 pos dim X i =
      summate_fourier s' sf f0 modes c0 c1 z1 n1 z2 n2 pos' dim X' i' := by
  rw [summate_fourier_spec s hs, summate_fourier_spec s' hs']
  simp only [hi, hi', if_true]
  unfold fourierCell
  refine forRange_congr 0 c1 _ _ (fun j _ _ acc => ?_) _
  rw [phaseOf_local modes pos pos' dim j i i' h]

/-- **incompressible vector fields** -/
theorem summate_incompr_local
    (cov : Nat → Nat → α) (c0 c1 : Nat) (z1 : Nat → α) (n1 : Nat) (z2 : Nat → α) (n2 : Nat)
    (pos pos' : Nat → Nat → α) (dim X X' d i i' : Nat) (hi : i < X) (hi' : i' < X')
    (h : ∀ d, d < dim → pos d i = pos' d i') :
    summate_incompr cov c0 c1 z1 n1 z2 n2 pos dim X d i = summate_incompr cov c0 c1 z1 n1 z2 n2 pos' dim X' d i' := by
  rw [summate_incompr_spec, summate_incompr_spec]
  simp only [hi, hi', and_true]
  split
  · unfold incomprCell
    refine forRange_congr 0 c1 _ _ (fun j _ _ acc => ?_) _
    rw [phaseOf_local cov pos pos' dim j i i' h]
  · rfl

/-- corollary: evaluating a reordered / subsetted point list yields the reordered / subsetted field:
    if `pos' = pos ∘ σ` (any map of indices — permutation, subset, repetition, split) then
    `field' i = field (σ i)` -/
theorem summate_reindex (s s' : Sched) (hs : s.Admissible) (hs' : s'.Admissible)
    (cov : Nat → Nat → α) (c0 c1 : Nat) (z1 : Nat → α) (n1 : Nat) (z2 : Nat → α) (n2 : Nat)
    (pos : Nat → Nat → α) (dim X X' : Nat) (σ : Nat → Nat) (hσ : ∀ i, i < X' → σ i < X) (i : Nat) (hi : i < X') :
    summate s' cov c0 c1 z1 n1 z2 n2 (fun d i => pos d (σ i)) dim X' i =
      summate s cov c0 c1 z1 n1 z2 n2 pos dim X (σ i) :=
  summate_local s' s hs' hs cov c0 c1 z1 n1 z2 n2 _ pos dim X' X i (σ i) hi (hσ i hi) (fun _ _ => rfl)

end locality

/-! ## Part 2: generator bookkeeping -/

/-- the arrays are the ones derived from the generator's own current settings -/
def Coherent (s : State) : Prop := s.derived = derive s.genModel s.seed s.modeNo s.epoch

theorem init_coherent (m : MVal) (seed : Option Nat) (n : Nat) : Coherent (init m seed n) := rfl

theorem resetSeed_coherent (s : State) (a : SeedArg) : Coherent (resetSeed s a) := rfl

theorem derive_epoch_irrelevant (m : MVal) (x : Nat) (n e e' : Nat) :
    derive m (some x) n e = derive m (some x) n e' := rfl

/-- for integer seeds the reseed counter does not matter; for `None` seeds coherence is kept because
    nothing but a reseed changes the counter -/
theorem step_coherent (s : State) (op : Op) (h : Coherent s) : Coherent (step s op).1 := by
  cases op with
  | srfCall a n =>
    simp only [step]
    have hu : Coherent (update s s.srfModel a) := by
      unfold update
      split
      · exact resetSeed_coherent _ _
      · cases a with
        | keep => exact h
        | set x =>
          simp only [setSeed]
          by_cases hx : x ≠ s.seed
          · rw [if_pos hx]; exact resetSeed_coherent _ _
          · rw [if_neg hx]; exact h
    unfold genCall
    split <;> exact hu
  | modelChange m => exact h
  | genSetSeed x =>
    simp only [step]; unfold setSeed
    by_cases hx : x ≠ s.seed
    · rw [if_pos hx]; exact resetSeed_coherent _ _
    · rw [if_neg hx]; exact h
  | genSetModeNo n =>
    simp only [step]
    by_cases hx : n ≠ s.modeNo
    · rw [if_pos hx]; exact resetSeed_coherent _ _
    · rw [if_neg hx]; exact h
  | genResetSeed a => exact resetSeed_coherent _ _
  | genCall n b => simp only [step]; unfold genCall; split <;> exact h

/-- **C11_derived_coherent**: in every reachable state the derived arrays equal `derive(current settings)` -/
theorem reachable_coherent (ops : List Op) (m : MVal) (seed : Option Nat) (n : Nat) :
    Coherent (run (init m seed n) ops).1 := by
  suffices H : ∀ s, Coherent s → Coherent (run s ops).1 from H _ (init_coherent m seed n)
  induction ops with
  | nil => intro s h; exact h
  | cons op ops ih => intro s h; exact ih _ (step_coherent s op h)

/-- **C11_equals_fresh**: whatever happened before (in-place model changes, seed or mode-number changes,
    earlier calls), a field-level call `srf(pos, seed=…)` uses arrays derived from the field's *current*
    model, the resulting seed and mode number — exactly what a freshly constructed object uses. -/
theorem srfCall_equals_fresh (s : State) (a : SeedArg) (n : Nat) (h : Coherent s) :
    ∃ o, (step s (.srfCall a n)).2 = some o ∧
      o.field = derive s.srfModel (step s (.srfCall a n)).1.seed (step s (.srfCall a n)).1.modeNo (step s (.srfCall a n)).1.epoch ∧
      (step s (.srfCall a n)).1.genModel = s.srfModel := by
  simp only [step]
  have hm : (update s s.srfModel a).genModel = s.srfModel := by
    unfold update
    split
    · rfl
    · rename_i hne
      have : s.genModel = s.srfModel := by simpa using hne
      cases a with
      | keep => exact this
      | set x =>
        simp only [setSeed]
        by_cases hx : x ≠ s.seed
        · rw [if_pos hx]; exact this
        · rw [if_neg hx]; exact this
  have hc : Coherent (update s s.srfModel a) := by
    have := step_coherent s (.srfCall a 0) h
    simp only [step] at this
    unfold genCall at this
    split at this <;> exact this
  unfold genCall
  split
  · exact ⟨_, rfl, by simp only []; rw [hc, hm], hm⟩
  · exact ⟨_, rfl, by simp only []; rw [hc, hm], hm⟩

/-- equal seed *values* give equal behaviour: the state machine only ever compares and stores values
    (the correspondence runs it against seed objects of differing identity) -/
theorem seed_value_only (s : State) (x : Option Nat) (h : x = s.seed) : setSeed s x = s := by
  unfold setSeed; simp [h]

/-- nugget noise is drawn from consecutive stream positions: two calls without an intervening reseed
    never reuse variates -/
theorem noise_positions_advance (s : State) (n k : Nat) (hn : s.genModel.nug = true) :
    let r1 := genCall s n true
    let r2 := genCall r1.1 k true
    r1.2.noise.map (fun t => (t.1, t.2.2)) = some (s.seed, s.draws, n) ∧
    r2.2.noise.map (fun t => (t.1, t.2.2)) = some (s.seed, s.draws + n, k) := by
  simp [genCall, hn]

example : Coherent (run (init ⟨1, true⟩ (some 7) 100)
    [.srfCall (.set (some 7)) 5, .modelChange ⟨2, false⟩, .srfCall .keep 5, .genSetModeNo 50, .srfCall (.set none) 3]).1 :=
  reachable_coherent _ _ _ _

end GSV.Props.C11
