/-
  C11 — seeded field generation is deterministic and local.

  Part 1 (law-free, on the kernels regenerated from summator.pyx): the value at a location is a
  function of that location's coordinates only — independent of point order, of which other points are
  requested, of batching and of the schedule; bit-exact for IEEE doubles.
  Part 2: the generator bookkeeping (private model copy, seed, mode number, derived arrays) as a state
  machine: in every reachable state the arrays are the ones derived from the generator's current
  settings, and every field-level call returns what a freshly constructed object returns — the
  nugget noise included: it is the noise a fresh object gives after the same number of noise draws
  since the stream was last restarted, and the stream is restarted exactly by a change the
  generator can see (model incl. nugget, seed value, mode number, explicit reset).
  Part 3: positions: a field-level call stores and evaluates the positions it was given, whatever
  was stored before; a call WITHOUT position argument is exactly the call with the stored positions
  given explicitly (so after any in-place change of the model — geometry included — or of the
  generator settings it returns what a fresh object returns at those positions); with nothing stored
  it raises.
-/
import GSV.Props.KernelSummate
import GSV.Model.Gen
namespace GSV.Props.C11
open GSV GSV.Transc GSV.Summator GSV.Props GSV.Model.Gen

set_option linter.unusedSectionVars false

section locality
variable {α : Type} [Arith α] [Transc α] [DecidableLT α] [DecidableLE α]

theorem phaseOf_local (k x x' : Nat → Nat → α) (dim j i i' : Nat)
    (h : ∀ d, d < dim → x d i = x' d i') : phaseOf k x dim j i = phaseOf k x' dim j i' := by
  unfold phaseOf
  exact forRange_congr 0 dim _ _ (fun d _ hd acc => by rw [h d hd]) _

/-- **randomization method**: the value at output cell `i` depends only on column `i` of the positions -/
theorem summate_local (s s' : Sched) (hs : s.Admissible) (hs' : s'.Admissible)
    (cov : Nat → Nat → α) (c0 c1 : Nat) (z1 : Nat → α) (n1 : Nat) (z2 : Nat → α) (n2 : Nat)
    (pos pos' : Nat → Nat → α) (dim X X' i i' : Nat) (hi : i < X) (hi' : i' < X')
    (h : ∀ d, d < dim → pos d i = pos' d i') :
    summate s cov c0 c1 z1 n1 z2 n2 pos dim X i = summate s' cov c0 c1 z1 n1 z2 n2 pos' dim X' i' := by
  rw [summate_spec s hs, summate_spec s' hs']
  simp only [hi, hi', if_true]
  unfold summateCell
  refine forRange_congr 0 c1 _ _ (fun j _ _ acc => ?_) _
  rw [phaseOf_local cov pos pos' dim j i i' h]

/-- **Fourier method** -/
theorem summate_fourier_local (s s' : Sched) (hs : s.Admissible) (hs' : s'.Admissible)
    (sf : Nat → α) (f0 : Nat) (modes : Nat → Nat → α) (c0 c1 : Nat) (z1 : Nat → α) (n1 : Nat) (z2 : Nat → α) (n2 : Nat)
    (pos pos' : Nat → Nat → α) (dim X X' i i' : Nat) (hi : i < X) (hi' : i' < X')
    (h : ∀ d, d < dim → pos d i = pos' d i') :
    summate_fourier s sf f0 modes c0 c1 z1 n1 z2 n2 pos dim X i =
      summate_fourier s' sf f0 modes c0 c1 z1 n1 z2 n2 pos' dim X' i' := by
  rw [summate_fourier_spec s hs, summate_fourier_spec s' hs']
  simp only [hi, hi', if_true]
  unfold fourierCell
  refine forRange_congr 0 c1 _ _ (fun j _ _ acc => ?_) _
  rw [phaseOf_local modes pos pos' dim j i i' h]

/-- **incompressible vector fields** -/
theorem summate_incompr_local
    (cov : Nat → Nat → α) (c0 c1 : Nat) (z1 : Nat → α) (n1 : Nat) (z2 : Nat → α) (n2 : Nat)
    (pos pos' : Nat → Nat → α) (dim X X' d i i' : Nat) (hi : i < X) (hi' : i' < X')
    (h : ∀ d, d < dim → pos d i = pos' d i') :
    summate_incompr cov c0 c1 z1 n1 z2 n2 pos dim X d i = summate_incompr cov c0 c1 z1 n1 z2 n2 pos' dim X' d i' := by
  rw [summate_incompr_spec, summate_incompr_spec]
  simp only [hi, hi', and_true]
  split
  · unfold incomprCell
    refine forRange_congr 0 c1 _ _ (fun j _ _ acc => ?_) _
    rw [phaseOf_local cov pos pos' dim j i i' h]
  · rfl

/-- corollary: evaluating a reordered / subsetted point list yields the reordered / subsetted field:
    if `pos' = pos ∘ σ` (any map of indices — permutation, subset, repetition, split) then
    `field' i = field (σ i)` -/
theorem summate_reindex (s s' : Sched) (hs : s.Admissible) (hs' : s'.Admissible)
    (cov : Nat → Nat → α) (c0 c1 : Nat) (z1 : Nat → α) (n1 : Nat) (z2 : Nat → α) (n2 : Nat)
    (pos : Nat → Nat → α) (dim X X' : Nat) (σ : Nat → Nat) (hσ : ∀ i, i < X' → σ i < X) (i : Nat) (hi : i < X') :
    summate s' cov c0 c1 z1 n1 z2 n2 (fun d i => pos d (σ i)) dim X' i =
      summate s cov c0 c1 z1 n1 z2 n2 pos dim X (σ i) :=
  summate_local s' s hs' hs cov c0 c1 z1 n1 z2 n2 _ pos dim X' X i (σ i) hi (hσ i hi) (fun _ _ => rfl)

end locality

/-! ## Part 2: generator bookkeeping -/

/-- the arrays are the ones derived from the generator's own current settings -/
def Coherent (s : State) : Prop := s.derived = derive s.genModel s.seed s.modeNo s.epoch

theorem init_coherent (m : MVal) (seed : Option Nat) (n : Nat) : Coherent (init m seed n) := rfl

theorem resetSeed_coherent (s : State) (a : SeedArg) : Coherent (resetSeed s a) := rfl

theorem derive_epoch_irrelevant (m : MVal) (x : Nat) (n e e' : Nat) :
    derive m (some x) n e = derive m (some x) n e' := rfl

theorem setSeed_coherent (s : State) (x : Option Nat) (h : Coherent s) : Coherent (setSeed s x) := by
  unfold setSeed
  by_cases hx : x ≠ s.seed
  · rw [if_pos hx]; exact resetSeed_coherent _ _
  · rw [if_neg hx]; exact h

theorem update_coherent (s : State) (m : MVal) (a : SeedArg) (h : Coherent s) : Coherent (update s m a) := by
  unfold update
  split
  · exact resetSeed_coherent _ _
  · cases a with
    | keep => exact h
    | set x => exact setSeed_coherent s x h

theorem genCall_coherent (s : State) (n : Nat) (b : Bool) (p : Option Nat) (h : Coherent s) :
    Coherent (genCall s n b p).1 := by
  unfold genCall; split <;> exact h

theorem preCall_coherent (s : State) (a : SeedArg) (p : Option Nat) (h : Coherent s) : Coherent (preCall s a p) := by
  cases p <;> exact update_coherent s s.srfModel a h

/-- a field-level call with a position argument: the generator runs in `preCall` at the given set -/
theorem step_srfCall_given (s : State) (a : SeedArg) (p n : Nat) :
    step s (.srfCall a (some p) n) =
      ((genCall (preCall s a (some p)) n true (some p)).1, some (genCall (preCall s a (some p)) n true (some p)).2) := rfl

/-- for integer seeds the reseed counter does not matter; for `None` seeds coherence is kept because
    nothing but a reseed changes the counter -/
theorem step_coherent (s : State) (op : Op) (h : Coherent s) : Coherent (step s op).1 := by
  cases op with
  | srfCall a p n =>
    have hc := preCall_coherent s a p h
    simp only [step]
    split
    · exact genCall_coherent _ n true _ hc
    · exact hc
  | setPos p => exact h
  | modelChange m => exact h
  | genSetSeed x => exact setSeed_coherent s x h
  | genSetModeNo n =>
    simp only [step]
    by_cases hx : n ≠ s.modeNo
    · rw [if_pos hx]; exact resetSeed_coherent _ _
    · rw [if_neg hx]; exact h
  | genResetSeed a => exact resetSeed_coherent _ _
  | genCall n b => exact genCall_coherent s n b none h

/-- **C11_derived_coherent**: in every reachable state the derived arrays equal `derive(current settings)` -/
theorem reachable_coherent (ops : List Op) (m : MVal) (seed : Option Nat) (n : Nat) :
    Coherent (run (init m seed n) ops).1 := by
  suffices H : ∀ s, Coherent s → Coherent (run s ops).1 from H _ (init_coherent m seed n)
  induction ops with
  | nil => intro s h; exact h
  | cons op ops ih => intro s h; exact ih _ (step_coherent s op h)

/-- after `update(model, seed)` the generator's private copy is the given model -/
theorem update_genModel (s : State) (m : MVal) (a : SeedArg) : (update s m a).genModel = m := by
  unfold update
  split
  · rfl
  · rename_i hne
    have : s.genModel = m := by simpa using hne
    cases a with
    | keep => exact this
    | set x =>
      simp only [setSeed]
      by_cases hx : x ≠ s.seed
      · rw [if_pos hx]; exact this
      · rw [if_neg hx]; exact this

theorem preCall_genModel (s : State) (a : SeedArg) (p : Option Nat) : (preCall s a p).genModel = s.srfModel := by
  cases p <;> exact update_genModel s s.srfModel a

/-- **C11_equals_fresh**: whatever happened before (in-place model changes, seed or mode-number changes,
    earlier calls), a field-level call `srf(pos, seed=…)` uses arrays derived from the field's *current*
    model, the resulting seed and mode number — exactly what a freshly constructed object uses. -/
theorem srfCall_equals_fresh (s : State) (a : SeedArg) (p n : Nat) (h : Coherent s) :
    ∃ o, (step s (.srfCall a (some p) n)).2 = some o ∧
      o.field = derive s.srfModel (step s (.srfCall a (some p) n)).1.seed (step s (.srfCall a (some p) n)).1.modeNo
        (step s (.srfCall a (some p) n)).1.epoch ∧
      (step s (.srfCall a (some p) n)).1.genModel = s.srfModel := by
  have hm := preCall_genModel s a (some p)
  have hc : Coherent (preCall s a (some p)) := preCall_coherent s a (some p) h
  rw [step_srfCall_given]
  unfold genCall
  split
  · exact ⟨_, rfl, by simp only []; rw [hc, hm], hm⟩
  · exact ⟨_, rfl, by simp only []; rw [hc, hm], hm⟩

/-- equal seed *values* give equal behaviour: the state machine only ever compares and stores values
    (the correspondence runs it against seed objects of differing identity) -/
theorem seed_value_only (s : State) (x : Option Nat) (h : x = s.seed) : setSeed s x = s := by
  unfold setSeed; simp [h]

/-- nugget noise is drawn from consecutive stream positions: two calls without an intervening reseed
    never reuse variates -/
theorem noise_positions_advance (s : State) (n k : Nat) (hn : s.genModel.nug ≠ 0) :
    let r1 := genCall s n true
    let r2 := genCall r1.1 k true
    r1.2.noise.map (fun t => (t.1, t.2.2)) = some (s.seed, s.draws, n) ∧
    r2.2.noise.map (fun t => (t.1, t.2.2)) = some (s.seed, s.draws + 1, k) := by
  simp [genCall, hn]

/-! ### nugget noise: the stream position, and when the stream is restarted -/

/-- a generating call changes nothing but the stream position, and that by one iff noise is drawn -/
theorem genCall_fst_spec (s : State) (n : Nat) (b : Bool) (p : Option Nat) :
    (genCall s n b p).1.genModel = s.genModel ∧ (genCall s n b p).1.srfModel = s.srfModel ∧
    (genCall s n b p).1.seed = s.seed ∧ (genCall s n b p).1.modeNo = s.modeNo ∧
    (genCall s n b p).1.derived = s.derived ∧ (genCall s n b p).1.epoch = s.epoch ∧
    (b = true → s.genModel.nug ≠ 0 → (genCall s n b p).1.draws = s.draws + 1) ∧
    (¬ (b = true ∧ s.genModel.nug ≠ 0) → (genCall s n b p).1.draws = s.draws) := by
  by_cases hn : (b = true ∧ s.genModel.nug ≠ 0)
  · have e : (genCall s n b p).1 = { s with draws := s.draws + 1 } := by unfold genCall; rw [if_pos hn]
    rw [e]
    exact ⟨rfl, rfl, rfl, rfl, rfl, rfl, fun _ _ => rfl, fun h => absurd hn h⟩
  · have e : (genCall s n b p).1 = s := by unfold genCall; rw [if_neg hn]
    rw [e]
    exact ⟨rfl, rfl, rfl, rfl, rfl, rfl, fun h1 h2 => absurd ⟨h1, h2⟩ hn, fun _ => rfl⟩

/-- noise-drawing calls change nothing but the stream position -/
theorem burnN_spec (k : Nat) (s : State) :
    (burnN k s).genModel = s.genModel ∧ (burnN k s).srfModel = s.srfModel ∧ (burnN k s).seed = s.seed ∧
    (burnN k s).modeNo = s.modeNo ∧ (burnN k s).derived = s.derived ∧ (burnN k s).epoch = s.epoch ∧
    (s.genModel.nug ≠ 0 → (burnN k s).draws = s.draws + k) := by
  induction k generalizing s with
  | zero => exact ⟨rfl, rfl, rfl, rfl, rfl, rfl, fun _ => rfl⟩
  | succ k ih =>
    obtain ⟨h1, h2, h3, h4, h5, h6, h7⟩ := ih (genCall s 1 true none).1
    obtain ⟨g1, g2, g3, g4, g5, g6, g7, _⟩ := genCall_fst_spec s 1 true none
    simp only [burnN]
    refine ⟨h1.trans g1, h2.trans g2, h3.trans g3, h4.trans g4, h5.trans g5, h6.trans g6, fun h => ?_⟩
    rw [h7 (by rw [g1]; exact h), g7 rfl h]
    omega

/-- a fresh object on which `burn` noise draws were made: same settings, stream position `burn`
    (for a model with nugget), and it is coherent -/
theorem replayState_spec (r : Recipe) :
    (replayState r).genModel = r.model ∧ (replayState r).srfModel = r.model ∧ (replayState r).seed = r.seed ∧
    (replayState r).modeNo = r.modeNo ∧ (r.model.nug ≠ 0 → (replayState r).draws = r.burn) ∧ Coherent (replayState r) := by
  obtain ⟨h1, h2, h3, h4, h5, h6, h7⟩ := burnN_spec r.burn (init r.model r.seed r.modeNo)
  refine ⟨h1, h2, h3, h4, fun h => ?_, ?_⟩
  · rw [replayState, h7 h]; simp [init]
  · unfold Coherent replayState; rw [h5, h1, h3, h4, h6]; rfl

/-- **C11_noise_replay (generator level)**: with an integer seed, the complete output of a generating call —
    summed modes *and* nugget noise — in any coherent state equals the output of a freshly constructed
    generator with the same model, seed and mode number on which as many noise draws were made before
    as the state has made since its stream was last restarted. -/
theorem genCall_equals_fresh_replay (s : State) (x : Nat) (hs : s.seed = some x) (h : Coherent s)
    (n : Nat) (b : Bool) (p : Option Nat) :
    (genCall (replayState (recipe s)) n b p).2 = (genCall s n b p).2 := by
  obtain ⟨hg, _, hsd, hmn, hdr, hc⟩ := replayState_spec (recipe s)
  have hd : (replayState (recipe s)).derived = s.derived := by
    rw [hc, h, hg, hsd, hmn]
    simp only [recipe, hs]
    exact derive_epoch_irrelevant _ _ _ _ _
  unfold genCall
  by_cases hn : b = true ∧ s.genModel.nug ≠ 0
  · have hn' : b = true ∧ (replayState (recipe s)).genModel.nug ≠ 0 := by rw [hg]; exact hn
    rw [if_pos hn, if_pos hn']
    simp only []
    rw [hd, hsd, hdr hn.2, hg]
    simp only [recipe, hs]
  · have hn' : ¬ (b = true ∧ (replayState (recipe s)).genModel.nug ≠ 0) := by rw [hg]; exact hn
    rw [if_neg hn, if_neg hn']
    simp only []
    rw [hd]

theorem resetSeed_pos (s : State) (q : Option Nat) (a : SeedArg) :
    resetSeed { s with pos := q } a = { resetSeed s a with pos := q } := rfl

theorem setSeed_pos (s : State) (q : Option Nat) (x : Option Nat) :
    setSeed { s with pos := q } x = { setSeed s x with pos := q } := by
  by_cases hx : x ≠ s.seed
  · simp only [setSeed]; rw [if_pos hx, if_pos hx]; rfl
  · simp only [setSeed]; rw [if_neg hx, if_neg hx]

theorem update_pos (s : State) (q : Option Nat) (m : MVal) (a : SeedArg) :
    update { s with pos := q } m a = { update s m a with pos := q } := by
  by_cases hm : s.genModel ≠ m
  · simp only [update]; rw [if_pos hm, if_pos hm]; rfl
  · simp only [update]; rw [if_neg hm, if_neg hm]
    cases a with
    | keep => rfl
    | set x => exact setSeed_pos s q x

theorem genCall_out_pos (s : State) (q : Option Nat) (n : Nat) (b : Bool) (p : Option Nat) :
    (genCall { s with pos := q } n b p).2 = (genCall s n b p).2 := by
  by_cases hn : (b = true ∧ s.genModel.nug ≠ 0)
  · simp only [genCall]; rw [if_pos hn, if_pos hn]
  · simp only [genCall]; rw [if_neg hn, if_neg hn]

/-- the fresh object that reproduces a field-level call: the field's current model, the resulting seed and
    mode number, and the number of noise draws since the stream was last restarted -/
def callRecipe (s : State) (a : SeedArg) (p : Option Nat) (x : Nat) : Recipe :=
  { model := s.srfModel, seed := some x, modeNo := (preCall s a p).modeNo, burn := (preCall s a p).draws }

/-- **C11_noise_replay (field level)**: after ANY history, a field-level call that leaves an integer seed
    returns exactly what a freshly constructed object returns that has the field's current model, the
    resulting seed and mode number, has made `burn` noise draws, and is evaluated at the same positions
    — where `burn` is the number of noise draws since the last restart of the stream, and the stream is
    restarted by `update` iff the model (incl. its nugget) or the seed value changed. -/
theorem srfCall_equals_fresh_replay (s : State) (a : SeedArg) (p n x : Nat) (h : Coherent s)
    (hs : (preCall s a (some p)).seed = some x) :
    (step s (.srfCall a (some p) n)).2 =
      (step (replayState (callRecipe s a (some p) x)) (.srfCall .keep (some p) n)).2 := by
  have hr : recipe (preCall s a (some p)) = callRecipe s a (some p) x := by
    simp only [recipe, callRecipe, preCall_genModel, hs]
  have hg := genCall_equals_fresh_replay (preCall s a (some p)) x hs (preCall_coherent s a (some p) h) n true (some p)
  rw [hr] at hg
  obtain ⟨hgm, hsm, _, _, _, _⟩ := replayState_spec (callRecipe s a (some p) x)
  -- on the fresh object `update` sees its own model: nothing happens
  have hu : ∀ t : State, t.genModel = t.srfModel → update t t.srfModel .keep = t := by
    intro t ht; unfold update; simp [ht]
  -- `set_pos` does not touch what the generator reads
  have hp : ∀ (t : State) (q : Nat), (genCall (setPos t q) n true (some p)).2 = (genCall t n true (some p)).2 :=
    fun t q => genCall_out_pos t (some q) n true (some p)
  show some (genCall (preCall s a (some p)) n true (some p)).2 =
    some (genCall (preCall (replayState (callRecipe s a (some p) x)) .keep (some p)) n true (some p)).2
  apply congrArg some
  simp only [preCall] at hg ⊢
  rw [hu _ (by rw [hgm, hsm]), hp, hp]
  rw [hp] at hg
  exact hg.symm

/-- the stream is restarted exactly by a visible change: if the generator's copy already equals the field's
    model and the seed argument is `keep` or the present value, a field-level call continues the stream … -/
theorem srfCall_continues_stream (s : State) (a : SeedArg) (p : Option Nat)
    (hm : s.genModel = s.srfModel) (ha : a = .keep ∨ a = .set s.seed) :
    (preCall s a p).draws = s.draws ∧ (preCall s a p).epoch = s.epoch := by
  have key : (update s s.srfModel a).draws = s.draws ∧ (update s s.srfModel a).epoch = s.epoch := by
    unfold update
    rw [if_neg (by simp [hm])]
    rcases ha with rfl | rfl
    · exact ⟨rfl, rfl⟩
    · simp [setSeed]
  cases p <;> exact key

/-- … and any change of the field's model that `CovModel.__eq__` sees (variance, nugget, anisotropy, angles,
    length scale, shape arguments — all of it is in `MVal`) or a different seed value restarts it at position 0 -/
theorem srfCall_restarts_stream (s : State) (a : SeedArg) (p : Option Nat)
    (hc : s.genModel ≠ s.srfModel ∨ ∃ x, a = .set x ∧ x ≠ s.seed) :
    (preCall s a p).draws = 0 ∧ (preCall s a p).epoch = s.epoch + 1 := by
  have key : (update s s.srfModel a).draws = 0 ∧ (update s s.srfModel a).epoch = s.epoch + 1 := by
    unfold update
    by_cases hm : s.genModel ≠ s.srfModel
    · rw [if_pos hm]; exact ⟨rfl, rfl⟩
    · rw [if_neg hm]
      rcases hc with hc | ⟨x, rfl, hx⟩
      · exact absurd hc hm
      · simp only [setSeed]; rw [if_pos hx]; exact ⟨rfl, rfl⟩
  cases p <;> exact key

/-! ## Part 3: positions -/

/-- **C11_pos_is_given**: a field-level call stores the positions it was given and its output belongs to
    them — independently of the positions stored by earlier calls (and of everything else in the state) -/
theorem srfCall_pos_is_given (s : State) (a : SeedArg) (p n : Nat) :
    (step s (.srfCall a (some p) n)).1.pos = some p ∧
      ∃ o, (step s (.srfCall a (some p) n)).2 = some o ∧ o.pos = some p := by
  rw [step_srfCall_given]
  unfold genCall
  split
  · exact ⟨rfl, _, rfl, rfl⟩
  · exact ⟨rfl, _, rfl, rfl⟩

/-- `generator.update` never touches the stored positions -/
theorem update_keeps_pos (s : State) (m : MVal) (a : SeedArg) : (update s m a).pos = s.pos := by
  by_cases hm : s.genModel ≠ m
  · simp only [update]; rw [if_pos hm]; rfl
  · simp only [update]; rw [if_neg hm]
    cases a with
    | keep => rfl
    | set x =>
      by_cases hx : x ≠ s.seed
      · simp only [setSeed]; rw [if_pos hx]; rfl
      · simp only [setSeed]; rw [if_neg hx]

theorem setPos_same (u : State) (q : Nat) (h : u.pos = some q) : setPos u q = u := by
  cases u
  simp only [setPos] at h ⊢
  rw [h]

/-- **C11_reuse_is_given**: a field-level call WITHOUT position argument, when a position set `q` is stored, is in
    every respect (new state, output) the call with `q` given explicitly.  Together with `srfCall_equals_fresh`,
    `srfCall_equals_fresh_replay` and `srfCall_pos_is_given` this is the statement that re-evaluating stored positions
    after any history — in-place changes of the model (variance, length scale, anisotropy, rotation: all of it is in
    the model value the generator is updated with and whose geometry is applied), of the seed, of the mode number —
    returns what a freshly constructed object returns at those positions. -/
theorem srfCall_reuse_eq_given (s : State) (a : SeedArg) (n q : Nat) (h : s.pos = some q) :
    step s (.srfCall a none n) = step s (.srfCall a (some q) n) := by
  have hp : (preCall s a none).pos = some q := by
    show (update s s.srfModel a).pos = some q
    rw [update_keeps_pos]; exact h
  have he : preCall s a (some q) = preCall s a none := setPos_same _ q hp
  rw [step_srfCall_given, he]
  simp only [step, hp]

/-- with nothing stored the call raises (no output); `generator.update` has already run -/
theorem srfCall_without_pos_raises (s : State) (a : SeedArg) (n : Nat) (h : s.pos = none) :
    step s (.srfCall a none n) = (update s s.srfModel a, none) := by
  have hp : (preCall s a none).pos = none := by
    show (update s s.srfModel a).pos = none
    rw [update_keeps_pos]; exact h
  simp only [step, hp]
  rfl

/-- the reuse call returns the stored set's values and leaves it stored -/
theorem srfCall_reuse_pos (s : State) (a : SeedArg) (n q : Nat) (h : s.pos = some q) :
    (step s (.srfCall a none n)).1.pos = some q ∧ ∃ o, (step s (.srfCall a none n)).2 = some o ∧ o.pos = some q := by
  rw [srfCall_reuse_eq_given s a n q h]
  exact srfCall_pos_is_given s a q n

/-- **C11_reuse_equals_fresh**: after ANY history, a call without position argument that leaves an integer seed returns
    exactly — nugget noise included — what a freshly constructed object with the field's CURRENT model, the resulting
    seed and mode number returns at the stored positions after `burn` noise draws -/
theorem srfCall_reuse_equals_fresh_replay (s : State) (a : SeedArg) (n x q : Nat) (h : Coherent s)
    (hq : s.pos = some q) (hs : (preCall s a none).seed = some x) :
    (step s (.srfCall a none n)).2 =
      (step (replayState (callRecipe s a none x)) (.srfCall .keep (some q) n)).2 := by
  rw [srfCall_reuse_eq_given s a n q hq]
  exact srfCall_equals_fresh_replay s a q n x h hs

/-- in particular right after an in-place change of the field's model (`m` carries anisotropy and rotation, too):
    the fresh object of the comparison is built from the NEW model value -/
theorem reuse_after_modelChange (s : State) (m : MVal) (a : SeedArg) (n x q : Nat) (h : Coherent s)
    (hq : s.pos = some q) (hs : (preCall (step s (.modelChange m)).1 a none).seed = some x) :
    (callRecipe (step s (.modelChange m)).1 a none x).model = m ∧
    (step (step s (.modelChange m)).1 (.srfCall a none n)).2 =
      (step (replayState (callRecipe (step s (.modelChange m)).1 a none x)) (.srfCall .keep (some q) n)).2 :=
  ⟨rfl, srfCall_reuse_equals_fresh_replay _ a n x q h hq hs⟩

/-- `set_pos(p)` followed by a call without positions is the call at `p` -/
theorem setPos_then_reuse (s : State) (a : SeedArg) (p n : Nat) :
    step (step s (.setPos p)).1 (.srfCall a none n) = step s (.srfCall a (some p) n) := by
  show step (setPos s p) (.srfCall a none n) = _
  rw [srfCall_reuse_eq_given (setPos s p) a n p rfl, step_srfCall_given, step_srfCall_given]
  have : preCall (setPos s p) a (some p) = preCall s a (some p) := by
    show setPos (update { s with pos := some p } s.srfModel a) p = setPos (update s s.srfModel a) p
    rw [update_pos]; rfl
  rw [this]

/-- the stored positions never influence the output of an operation that does not ask for them: two states that differ
    only in the stored positions give the same output for every operation except the call without position argument
    (so the value at a location cannot depend on which points an earlier call requested); for that call see
    `srfCall_reuse_eq_given` -/
theorem stored_pos_irrelevant (s : State) (q : Option Nat) (op : Op) (hop : ∀ a n, op ≠ .srfCall a none n) :
    (step { s with pos := q } op).2 = (step s op).2 := by
  cases op with
  | srfCall a p n =>
    cases p with
    | none => exact absurd rfl (hop a n)
    | some p =>
      rw [step_srfCall_given, step_srfCall_given]
      show some (genCall (setPos (update { s with pos := q } s.srfModel a) p) n true (some p)).2 =
        some (genCall (setPos (update s s.srfModel a) p) n true (some p)).2
      rw [update_pos]
      rfl
  | setPos p => rfl
  | modelChange m => rfl
  | genSetSeed x => rfl
  | genSetModeNo n => rfl
  | genResetSeed a => rfl
  | genCall n b => exact congrArg some (genCall_out_pos s q n b none)

example : Coherent (run (init ⟨1, 1⟩ (some 7) 100)
    [.srfCall (.set (some 7)) (some 0) 5, .modelChange ⟨2, 0⟩, .srfCall .keep none 5, .genSetModeNo 50, .setPos 1,
     .srfCall (.set none) none 3]).1 :=
  reachable_coherent _ _ _ _

/-- the hypotheses of `srfCall_equals_fresh_replay` are met after a history with noise drawn, an in-place
    change of the nugget only, and a call that keeps the seed: the stream is restarted (burn = 0) -/
example : (preCall (run (init ⟨1, 1⟩ (some 7) 100) [.srfCall .keep (some 0) 5, .modelChange ⟨1, 2⟩]).1 .keep (some 0)).draws = 0 ∧
    (preCall (run (init ⟨1, 1⟩ (some 7) 100) [.srfCall .keep (some 0) 5, .genCall 3 true]).1 .keep (some 1)).draws = 2 := by decide

/-- the hypotheses of `srfCall_reuse_equals_fresh_replay` / `reuse_after_modelChange` are met after a call at set 3, an
    in-place model change and a generator-level seed change: set 3 is still stored, the seed is an integer, and the
    reuse call's output carries the NEW model (identifier 2) at set 3; on a fresh object the call without positions raises -/
example :
    let s := (run (init ⟨1, 0⟩ (some 7) 100) [.srfCall .keep (some 3) 5, .modelChange ⟨2, 0⟩, .genSetSeed (some 12)]).1
    s.pos = some 3 ∧ (preCall s .keep none).seed = some 12 ∧
    ((step s (.srfCall .keep none 5)).2.map fun o => (o.field.model, o.pos)) = some (2, some 3) ∧
    (step (init ⟨1, 0⟩ (some 7) 100) (.srfCall .keep none 5)).2 = none := by decide

end GSV.Props.C11
