/-
  C01 — generated random fields reproduce the model covariance (algebraic skeleton, partial).

  On the kernels regenerated from summator.pyx and the generator glue of Model/Gen.lean, over ℝ:
  the field is linear in the amplitudes; for ANY mode set the amplitude-ensemble covariance is
  `(var/N) Σ_j cos⟨k_j, x−y⟩` (randomization) resp. `Σ_j S(k_j) ΠΔk cos⟨k_j, x−y⟩` (Fourier), the
  pointwise variance is EXACTLY `var` (plus nugget), the mean is zero; averaging over wave vectors whose
  characteristic function is the correlation gives `var·ρ(x−y)`; the sphere sampler returns unit vectors.
  Not proved: distributional correctness of numpy's variates, uniformity of directions, MCMC convergence,
  the 1/√N rate, and `ρ = FT(S)` beyond the Gaussian (C04).
-/
import GSV.Model.Gen
import GSV.Props.KernelSummate
import GSV.Lemmas.Sum
import GSV.RealInst
import Mathlib.Analysis.SpecialFunctions.Trigonometric.Basic
import Mathlib.MeasureTheory.Integral.Bochner.Basic
import Mathlib.Algebra.BigOperators.Field
import Mathlib.Tactic.Ring
import Mathlib.Tactic.Linarith
import Mathlib.Tactic.FieldSimp
namespace GSV.Props.C01
open GSV GSV.Props GSV.Summator GSV.Model.Gen Finset MeasureTheory

/-- `⟨k_j, x⟩` -/
def phase (k : Nat → Nat → ℝ) (x : Nat → ℝ) (dim j : Nat) : ℝ := ∑ d ∈ range dim, k d j * x d

theorem phaseOf_eq (k pos : Nat → Nat → ℝ) (dim j i : Nat) :
    phaseOf k pos dim j i = phase k (fun d => pos d i) dim j := by
  unfold phaseOf phase
  exact forRange_cast_zero_add_eq_sum dim (fun d => k d j * pos d i)

theorem phase_sub (k : Nat → Nat → ℝ) (x y : Nat → ℝ) (dim j : Nat) :
    phase k x dim j - phase k y dim j = phase k (fun d => x d - y d) dim j := by
  unfold phase
  rw [← sum_sub_distrib]
  exact sum_congr rfl (fun d _ => by ring)

/-- the randomization field at point `i` is linear in the amplitudes, with explicit weights -/
theorem randmeth_linear (var : ℝ) (k : Nat → Nat → ℝ) (z1 z2 : Nat → ℝ) (pos : Nat → Nat → ℝ) (dim N X i : Nat) (hi : i < X) :
    randmethField var k z1 z2 pos dim N X i =
      ∑ j ∈ range N, ((Real.sqrt (var / N) * Real.cos (phase k (fun d => pos d i) dim j)) * z1 j +
                      (Real.sqrt (var / N) * Real.sin (phase k (fun d => pos d i) dim j)) * z2 j) := by
  unfold randmethField
  rw [summate_spec _ sched_id_admissible]
  simp only [hi, if_true, summateCell, sqrt_real, cos_real, sin_real]
  rw [forRange_cast_zero_add_eq_sum, mul_sum]
  refine sum_congr rfl (fun j _ => ?_)
  rw [phaseOf_eq]; ring

/-- inner product of the weight vectors at two points: `Σ_j cos⟨k_j, x − y⟩` -/
theorem weight_inner (k : Nat → Nat → ℝ) (x y : Nat → ℝ) (dim N : Nat) :
    ∑ j ∈ range N, (Real.cos (phase k x dim j) * Real.cos (phase k y dim j) +
                    Real.sin (phase k x dim j) * Real.sin (phase k y dim j)) =
    ∑ j ∈ range N, Real.cos (phase k (fun d => x d - y d) dim j) := by
  refine sum_congr rfl (fun j _ => ?_)
  rw [← phase_sub, Real.cos_sub]

/-- at coinciding points the weight vector has squared norm `N`: this is what makes the pointwise
    variance exactly `var`, for every mode set -/
theorem weight_norm (k : Nat → Nat → ℝ) (x : Nat → ℝ) (dim N : Nat) :
    ∑ j ∈ range N, (Real.cos (phase k x dim j) ^ 2 + Real.sin (phase k x dim j) ^ 2) = N := by
  simp [Real.cos_sq_add_sin_sq]

/-! ### ensemble over the amplitudes -/

/-- product second moment of two linear combinations of orthonormal random variables -/
theorem integral_mul_sum_orthonormal {Ω : Type} [MeasurableSpace Ω] (μ : Measure Ω) (N : Nat)
    (a b : Nat → ℝ) (ξ : Nat → Ω → ℝ)
    (hint : ∀ i < N, ∀ j < N, Integrable (fun ω => ξ i ω * ξ j ω) μ)
    (horth : ∀ i < N, ∀ j < N, ∫ ω, ξ i ω * ξ j ω ∂μ = if i = j then 1 else 0) :
    ∫ ω, (∑ j ∈ range N, a j * ξ j ω) * (∑ j ∈ range N, b j * ξ j ω) ∂μ = ∑ j ∈ range N, a j * b j := by
  have hsq : ∀ ω, (∑ j ∈ range N, a j * ξ j ω) * (∑ j ∈ range N, b j * ξ j ω) =
      ∑ i ∈ range N, ∑ j ∈ range N, (a i * b j) * (ξ i ω * ξ j ω) := by
    intro ω
    rw [sum_mul_sum]
    exact sum_congr rfl fun i _ => sum_congr rfl fun j _ => by ring
  simp only [hsq]
  rw [integral_finsetSum _ fun i hi => integrable_finsetSum _ fun j hj =>
    (hint i (mem_range.mp hi) j (mem_range.mp hj)).const_mul _]
  refine sum_congr rfl fun i hi => ?_
  rw [integral_finsetSum _ fun j hj => (hint i (mem_range.mp hi) j (mem_range.mp hj)).const_mul _]
  have : ∀ j ∈ range N, ∫ ω, a i * b j * (ξ i ω * ξ j ω) ∂μ = if i = j then a i * b j else 0 := by
    intro j hj
    rw [integral_const_mul, horth i (mem_range.mp hi) j (mem_range.mp hj)]
    split <;> simp
  rw [sum_congr rfl this, sum_ite_eq, if_pos hi]

/-- the `2N` amplitudes `(z1, z2)` as one family, and the matching weights of a point -/
def amp {Ω : Type} (N : Nat) (z1 z2 : Nat → Ω → ℝ) (j : Nat) (ω : Ω) : ℝ := if j < N then z1 j ω else z2 (j - N) ω
noncomputable def wgt (s : ℝ) (k : Nat → Nat → ℝ) (x : Nat → ℝ) (dim N : Nat) (j : Nat) : ℝ :=
  if j < N then s * Real.cos (phase k x dim j) else s * Real.sin (phase k x dim (j - N))

theorem sum_two_blocks (N : Nat) (f g : Nat → ℝ) :
    ∑ j ∈ range (N + N), (if j < N then f j else g (j - N)) = ∑ j ∈ range N, (f j + g j) := by
  rw [sum_range_add, sum_add_distrib]
  congr 1
  · exact sum_congr rfl (fun j hj => by simp [mem_range.mp hj])
  · exact sum_congr rfl (fun j _ => by simp)

/-- a generic linear field `Σ_j s (z1_j cos φ_j(x) + z2_j sin φ_j(x))` as a combination of the `2N` amplitudes -/
theorem field_as_combination {Ω : Type} (s : ℝ) (k : Nat → Nat → ℝ) (x : Nat → ℝ) (dim N : Nat)
    (z1 z2 : Nat → Ω → ℝ) (ω : Ω) :
    ∑ j ∈ range N, ((s * Real.cos (phase k x dim j)) * z1 j ω + (s * Real.sin (phase k x dim j)) * z2 j ω) =
    ∑ j ∈ range (N + N), wgt s k x dim N j * amp N z1 z2 j ω := by
  have : ∀ j, wgt s k x dim N j * amp N z1 z2 j ω =
      if j < N then (s * Real.cos (phase k x dim j)) * z1 j ω else (s * Real.sin (phase k x dim (j - N))) * z2 (j - N) ω := by
    intro j; unfold wgt amp; split <;> rfl
  simp only [this]
  rw [sum_two_blocks N (fun j => (s * Real.cos (phase k x dim j)) * z1 j ω) (fun j => (s * Real.sin (phase k x dim j)) * z2 j ω)]

/-- **covariance given the modes (randomization method)**: for any probability space on which the `2N`
    amplitudes have identity second moments, and for ANY wave vectors,
    `E[u(x) u(y)] = (var / N) Σ_j cos⟨k_j, x − y⟩`. -/
theorem cov_given_modes {Ω : Type} [MeasurableSpace Ω] (μ : Measure Ω)
    (var : ℝ) (hv : 0 ≤ var) (k : Nat → Nat → ℝ) (dim N : Nat) (x y : Nat → ℝ)
    (z1 z2 : Nat → Ω → ℝ)
    (hint : ∀ i < N + N, ∀ j < N + N, Integrable (fun ω => amp N z1 z2 i ω * amp N z1 z2 j ω) μ)
    (horth : ∀ i < N + N, ∀ j < N + N, ∫ ω, amp N z1 z2 i ω * amp N z1 z2 j ω ∂μ = if i = j then 1 else 0) :
    ∫ ω, (∑ j ∈ range N, ((Real.sqrt (var / N) * Real.cos (phase k x dim j)) * z1 j ω +
                           (Real.sqrt (var / N) * Real.sin (phase k x dim j)) * z2 j ω)) *
          (∑ j ∈ range N, ((Real.sqrt (var / N) * Real.cos (phase k y dim j)) * z1 j ω +
                           (Real.sqrt (var / N) * Real.sin (phase k y dim j)) * z2 j ω)) ∂μ =
      var / N * ∑ j ∈ range N, Real.cos (phase k (fun d => x d - y d) dim j) := by
  simp only [field_as_combination]
  rw [integral_mul_sum_orthonormal μ (N + N) _ _ _ hint horth]
  have hs : Real.sqrt (var / N) * Real.sqrt (var / N) = var / N :=
    Real.mul_self_sqrt (div_nonneg hv (Nat.cast_nonneg N))
  have : ∀ j, wgt (Real.sqrt (var / N)) k x dim N j * wgt (Real.sqrt (var / N)) k y dim N j =
      if j < N then var / N * (Real.cos (phase k x dim j) * Real.cos (phase k y dim j))
      else var / N * (Real.sin (phase k x dim (j - N)) * Real.sin (phase k y dim (j - N))) := by
    have e : ∀ c c' : ℝ, (Real.sqrt (var / N) * c) * (Real.sqrt (var / N) * c') = var / N * (c * c') := by
      intro c c'
      calc (Real.sqrt (var / N) * c) * (Real.sqrt (var / N) * c')
          = (Real.sqrt (var / N) * Real.sqrt (var / N)) * (c * c') := by ring
        _ = var / N * (c * c') := by rw [hs]
    intro j; unfold wgt; split <;> exact e _ _
  simp only [this]
  rw [sum_two_blocks N (fun j => var / N * (Real.cos (phase k x dim j) * Real.cos (phase k y dim j)))
        (fun j => var / N * (Real.sin (phase k x dim j) * Real.sin (phase k y dim j)))]
  rw [← weight_inner, mul_sum]
  exact sum_congr rfl (fun j _ => by ring)

/-- **the pointwise variance is exactly the model variance**, conditional on any mode set (`N > 0`) -/
theorem variance_given_modes {Ω : Type} [MeasurableSpace Ω] (μ : Measure Ω)
    (var : ℝ) (hv : 0 ≤ var) (k : Nat → Nat → ℝ) (dim N : Nat) (hN : 0 < N) (x : Nat → ℝ)
    (z1 z2 : Nat → Ω → ℝ)
    (hint : ∀ i < N + N, ∀ j < N + N, Integrable (fun ω => amp N z1 z2 i ω * amp N z1 z2 j ω) μ)
    (horth : ∀ i < N + N, ∀ j < N + N, ∫ ω, amp N z1 z2 i ω * amp N z1 z2 j ω ∂μ = if i = j then 1 else 0) :
    ∫ ω, (∑ j ∈ range N, ((Real.sqrt (var / N) * Real.cos (phase k x dim j)) * z1 j ω +
                           (Real.sqrt (var / N) * Real.sin (phase k x dim j)) * z2 j ω)) *
          (∑ j ∈ range N, ((Real.sqrt (var / N) * Real.cos (phase k x dim j)) * z1 j ω +
                           (Real.sqrt (var / N) * Real.sin (phase k x dim j)) * z2 j ω)) ∂μ = var := by
  rw [cov_given_modes μ var hv k dim N x x z1 z2 hint horth]
  have : ∀ j, phase k (fun d => x d - x d) dim j = 0 := by intro j; simp [phase]
  simp only [this, Real.cos_zero, sum_const, card_range, nsmul_eq_mul, mul_one]
  have : (N : ℝ) ≠ 0 := Nat.cast_ne_zero.mpr (Nat.pos_iff_ne_zero.mp hN)
  field_simp

/-- zero mean given the modes -/
theorem mean_given_modes {Ω : Type} [MeasurableSpace Ω] (μ : Measure Ω) (s : ℝ) (k : Nat → Nat → ℝ) (dim N : Nat)
    (x : Nat → ℝ) (z1 z2 : Nat → Ω → ℝ)
    (h1 : ∀ j < N, Integrable (z1 j) μ ∧ ∫ ω, z1 j ω ∂μ = 0) (h2 : ∀ j < N, Integrable (z2 j) μ ∧ ∫ ω, z2 j ω ∂μ = 0) :
    ∫ ω, (∑ j ∈ range N, ((s * Real.cos (phase k x dim j)) * z1 j ω + (s * Real.sin (phase k x dim j)) * z2 j ω)) ∂μ = 0 := by
  rw [integral_finsetSum (s := range N)
    (f := fun j ω => (s * Real.cos (phase k x dim j)) * z1 j ω + (s * Real.sin (phase k x dim j)) * z2 j ω)
    (fun j hj => ((h1 j (mem_range.mp hj)).1.const_mul _).add ((h2 j (mem_range.mp hj)).1.const_mul _))]
  refine sum_eq_zero (fun j hj => ?_)
  rw [integral_add ((h1 j (mem_range.mp hj)).1.const_mul _) ((h2 j (mem_range.mp hj)).1.const_mul _),
    integral_const_mul, integral_const_mul, (h1 j (mem_range.mp hj)).2, (h2 j (mem_range.mp hj)).2]
  simp

/-- **Monte-Carlo unbiasedness over the wave vectors**: if each wave vector's characteristic function at
    lag `r` is the correlation `ρ r` (hypothesis: C04 + correct radial / directional sampling), the
    expectation of the conditional covariance is `var · ρ r` -/
theorem mc_unbiased {Ω : Type} [MeasurableSpace Ω] (μ : Measure Ω) (var ρr : ℝ) (N : Nat) (hN : 0 < N)
    (c : Nat → Ω → ℝ)   -- c j ω = cos⟨k_j(ω), r⟩
    (hint : ∀ j < N, Integrable (c j) μ) (hchar : ∀ j < N, ∫ ω, c j ω ∂μ = ρr) :
    ∫ ω, var / N * ∑ j ∈ range N, c j ω ∂μ = var * ρr := by
  rw [integral_const_mul, integral_finsetSum _ fun j hj => hint j (mem_range.mp hj)]
  rw [sum_congr rfl (fun j hj => hchar j (mem_range.mp hj))]
  simp only [sum_const, card_range, nsmul_eq_mul]
  have : (N : ℝ) ≠ 0 := Nat.cast_ne_zero.mpr (Nat.pos_iff_ne_zero.mp hN)
  field_simp

/-! ### Fourier method -/

theorem fourier_linear (sf : Nat → ℝ) (modes : Nat → Nat → ℝ) (z1 z2 : Nat → ℝ) (pos : Nat → Nat → ℝ) (dim N X i : Nat) (hi : i < X) :
    fourierField sf modes z1 z2 pos dim N X i =
      ∑ j ∈ range N, ((sf j * Real.cos (phase modes (fun d => pos d i) dim j)) * z1 j +
                      (sf j * Real.sin (phase modes (fun d => pos d i) dim j)) * z2 j) := by
  unfold fourierField
  rw [summate_fourier_spec _ sched_id_admissible]
  simp only [hi, if_true, fourierCell, cos_real, sin_real]
  rw [forRange_cast_zero_add_eq_sum]
  refine sum_congr rfl (fun j _ => ?_)
  rw [phaseOf_eq]; ring

/-- `np.maximum(S, 0)` of the code (negative values of a numerically computed spectrum are cut off) -/
theorem clip_real (x : ℝ) : (if x < ((0:Nat):ℝ) then ((0:Nat):ℝ) else x) = max x 0 := by
  simp only [Nat.cast_zero]
  split
  · rename_i h; rw [max_eq_right h.le]
  · rename_i h; rw [max_eq_left (not_lt.1 h)]

/-- the squared spectrum factor is the (clipped) spectral mass of the mode's cell, for a non-negative cell volume -/
theorem spectrumFactor_sq_clip (S dk : Nat → ℝ) (dim j : Nat) (hP : 0 ≤ forRange 1 dim (dk 0) fun d acc => acc * dk d) :
    spectrumFactor S dk dim j ^ 2 = max (S j) 0 * forRange 1 dim (dk 0) fun d acc => acc * dk d := by
  unfold spectrumFactor
  simp only [sqrt_real, clip_real]
  exact Real.sq_sqrt (mul_nonneg (le_max_right _ _) hP)

/-- the squared spectrum factor is the spectral mass of the mode's cell when the spectrum is non-negative -/
theorem spectrumFactor_sq (S dk : Nat → ℝ) (dim j : Nat) (hS : 0 ≤ S j)
    (h : 0 ≤ S j * forRange 1 dim (dk 0) fun d acc => acc * dk d) :
    spectrumFactor S dk dim j ^ 2 = S j * forRange 1 dim (dk 0) fun d acc => acc * dk d := by
  unfold spectrumFactor
  simp only [sqrt_real, clip_real, max_eq_left hS]
  exact Real.sq_sqrt h

/-- weights of the Fourier method: `Σ_j sf_j² cos⟨k_j, x − y⟩`, the Riemann sum of the spectral integral -/
theorem fourier_weight_inner (sf : Nat → ℝ) (k : Nat → Nat → ℝ) (x y : Nat → ℝ) (dim N : Nat) :
    ∑ j ∈ range N, ((sf j * Real.cos (phase k x dim j)) * (sf j * Real.cos (phase k y dim j)) +
                    (sf j * Real.sin (phase k x dim j)) * (sf j * Real.sin (phase k y dim j))) =
    ∑ j ∈ range N, sf j ^ 2 * Real.cos (phase k (fun d => x d - y d) dim j) := by
  refine sum_congr rfl (fun j _ => ?_)
  rw [← phase_sub, Real.cos_sub]; ring


/-! ### weighted version: covers the Fourier method as a theorem about the ensemble -/

noncomputable def wgtW (s : Nat → ℝ) (k : Nat → Nat → ℝ) (x : Nat → ℝ) (dim N : Nat) (j : Nat) : ℝ :=
  if j < N then s j * Real.cos (phase k x dim j) else s (j - N) * Real.sin (phase k x dim (j - N))

theorem field_as_combination_weighted {Ω : Type} (s : Nat → ℝ) (k : Nat → Nat → ℝ) (x : Nat → ℝ) (dim N : Nat)
    (z1 z2 : Nat → Ω → ℝ) (ω : Ω) :
    ∑ j ∈ range N, ((s j * Real.cos (phase k x dim j)) * z1 j ω + (s j * Real.sin (phase k x dim j)) * z2 j ω) =
    ∑ j ∈ range (N + N), wgtW s k x dim N j * amp N z1 z2 j ω := by
  have : ∀ j, wgtW s k x dim N j * amp N z1 z2 j ω =
      if j < N then (s j * Real.cos (phase k x dim j)) * z1 j ω
      else (s (j - N) * Real.sin (phase k x dim (j - N))) * z2 (j - N) ω := by
    intro j; unfold wgtW amp; split <;> rfl
  simp only [this]
  rw [sum_two_blocks N (fun j => (s j * Real.cos (phase k x dim j)) * z1 j ω) (fun j => (s j * Real.sin (phase k x dim j)) * z2 j ω)]

/-- **covariance given the modes, arbitrary per-mode weights `s_j`**: for any probability space on which the `2N`
    amplitudes have identity second moments and for ANY wave vectors / mode lattice,
    `E[u(x) u(y)] = Σ_j s_j² cos⟨k_j, x − y⟩`. -/
theorem cov_given_modes_weighted {Ω : Type} [MeasurableSpace Ω] (μ : Measure Ω)
    (s : Nat → ℝ) (k : Nat → Nat → ℝ) (dim N : Nat) (x y : Nat → ℝ) (z1 z2 : Nat → Ω → ℝ)
    (hint : ∀ i < N + N, ∀ j < N + N, Integrable (fun ω => amp N z1 z2 i ω * amp N z1 z2 j ω) μ)
    (horth : ∀ i < N + N, ∀ j < N + N, ∫ ω, amp N z1 z2 i ω * amp N z1 z2 j ω ∂μ = if i = j then 1 else 0) :
    ∫ ω, (∑ j ∈ range N, ((s j * Real.cos (phase k x dim j)) * z1 j ω + (s j * Real.sin (phase k x dim j)) * z2 j ω)) *
          (∑ j ∈ range N, ((s j * Real.cos (phase k y dim j)) * z1 j ω + (s j * Real.sin (phase k y dim j)) * z2 j ω)) ∂μ =
      ∑ j ∈ range N, s j ^ 2 * Real.cos (phase k (fun d => x d - y d) dim j) := by
  simp only [field_as_combination_weighted]
  rw [integral_mul_sum_orthonormal μ (N + N) _ _ _ hint horth]
  have : ∀ j, wgtW s k x dim N j * wgtW s k y dim N j =
      if j < N then (s j * Real.cos (phase k x dim j)) * (s j * Real.cos (phase k y dim j))
      else (s (j - N) * Real.sin (phase k x dim (j - N))) * (s (j - N) * Real.sin (phase k y dim (j - N))) := by
    intro j; unfold wgtW; split <;> rfl
  simp only [this]
  rw [sum_two_blocks N (fun j => (s j * Real.cos (phase k x dim j)) * (s j * Real.cos (phase k y dim j)))
        (fun j => (s j * Real.sin (phase k x dim j)) * (s j * Real.sin (phase k y dim j)))]
  exact fourier_weight_inner s k x y dim N

/-- **Fourier method, ensemble covariance**: the field the code computes (`fourierField` = the regenerated kernel
    `summate_fourier` applied to the generator's arrays) at two points `a`, `b` of the position array has, over any
    amplitude law with identity second moments, the covariance `Σ_j sf_j² cos⟨k_j, x_a − x_b⟩`; with the code's weights
    `sf_j = sqrt(S_j ∏Δk)` and a non-negative spectrum this is the Riemann sum `Σ_j S(k_j) ∏Δk cos⟨k_j, x_a − x_b⟩` of the
    spectral integral over the mode lattice. -/
theorem fourier_cov_given_modes {Ω : Type} [MeasurableSpace Ω] (μ : Measure Ω)
    (S dk : Nat → ℝ) (modes : Nat → Nat → ℝ) (pos : Nat → Nat → ℝ) (dim N X a b : Nat) (ha : a < X) (hb : b < X)
    (hS0 : ∀ j < N, 0 ≤ S j) (hS : ∀ j < N, 0 ≤ S j * forRange 1 dim (dk 0) fun d acc => acc * dk d)
    (z1 z2 : Nat → Ω → ℝ)
    (hint : ∀ i < N + N, ∀ j < N + N, Integrable (fun ω => amp N z1 z2 i ω * amp N z1 z2 j ω) μ)
    (horth : ∀ i < N + N, ∀ j < N + N, ∫ ω, amp N z1 z2 i ω * amp N z1 z2 j ω ∂μ = if i = j then 1 else 0) :
    ∫ ω, fourierField (spectrumFactor S dk dim) modes (fun j => z1 j ω) (fun j => z2 j ω) pos dim N X a *
         fourierField (spectrumFactor S dk dim) modes (fun j => z1 j ω) (fun j => z2 j ω) pos dim N X b ∂μ =
      ∑ j ∈ range N, (S j * forRange 1 dim (dk 0) fun d acc => acc * dk d) *
        Real.cos (phase modes (fun d => pos d a - pos d b) dim j) := by
  simp only [fourier_linear _ _ _ _ _ _ _ _ _ ha, fourier_linear _ _ _ _ _ _ _ _ _ hb]
  rw [cov_given_modes_weighted μ (spectrumFactor S dk dim) modes dim N (fun d => pos d a) (fun d => pos d b) z1 z2 hint horth]
  exact sum_congr rfl fun j hj => by rw [spectrumFactor_sq S dk dim j (hS0 j (mem_range.mp hj)) (hS j (mem_range.mp hj))]

/-- in particular the pointwise variance of the Fourier field is the spectral mass carried by the mode lattice,
    `Σ_j S(k_j) ∏Δk` — the quantity the search compares with the integral of the spectrum over the lattice box -/
theorem fourier_variance_given_modes {Ω : Type} [MeasurableSpace Ω] (μ : Measure Ω)
    (S dk : Nat → ℝ) (modes : Nat → Nat → ℝ) (pos : Nat → Nat → ℝ) (dim N X a : Nat) (ha : a < X)
    (hS0 : ∀ j < N, 0 ≤ S j) (hS : ∀ j < N, 0 ≤ S j * forRange 1 dim (dk 0) fun d acc => acc * dk d)
    (z1 z2 : Nat → Ω → ℝ)
    (hint : ∀ i < N + N, ∀ j < N + N, Integrable (fun ω => amp N z1 z2 i ω * amp N z1 z2 j ω) μ)
    (horth : ∀ i < N + N, ∀ j < N + N, ∫ ω, amp N z1 z2 i ω * amp N z1 z2 j ω ∂μ = if i = j then 1 else 0) :
    ∫ ω, fourierField (spectrumFactor S dk dim) modes (fun j => z1 j ω) (fun j => z2 j ω) pos dim N X a *
         fourierField (spectrumFactor S dk dim) modes (fun j => z1 j ω) (fun j => z2 j ω) pos dim N X a ∂μ =
      ∑ j ∈ range N, (S j * forRange 1 dim (dk 0) fun d acc => acc * dk d) := by
  rw [fourier_cov_given_modes μ S dk modes pos dim N X a a ha ha hS0 hS z1 z2 hint horth]
  refine sum_congr rfl fun j _ => ?_
  have : phase modes (fun d => pos d a - pos d a) dim j = 0 := by simp [phase]
  rw [this, Real.cos_zero, mul_one]

/-! ### nugget and sphere sampler -/

/-- adding independent nugget noise `√nugget · ε` adds exactly `nugget` to the variance -/
theorem variance_with_nugget {Ω : Type} [MeasurableSpace Ω] (μ : Measure Ω) (u ε : Ω → ℝ) (v nugget : ℝ) (hn : 0 < nugget)
    (hu : Integrable (fun ω => u ω * u ω) μ) (hue : Integrable (fun ω => u ω * ε ω) μ) (he : Integrable (fun ω => ε ω * ε ω) μ)
    (huu : ∫ ω, u ω * u ω ∂μ = v) (hcross : ∫ ω, u ω * ε ω ∂μ = 0) (hee : ∫ ω, ε ω * ε ω ∂μ = 1) :
    ∫ ω, (u ω + nuggetTerm nugget (ε ω)) * (u ω + nuggetTerm nugget (ε ω)) ∂μ = v + nugget := by
  have hnt : ∀ ω, nuggetTerm nugget (ε ω) = Real.sqrt nugget * ε ω := by
    intro ω; unfold nuggetTerm; simp [hn]
  have hexp : ∀ ω, (u ω + Real.sqrt nugget * ε ω) * (u ω + Real.sqrt nugget * ε ω) =
      u ω * u ω + (2 * Real.sqrt nugget) * (u ω * ε ω) + nugget * (ε ω * ε ω) := by
    intro ω
    have := Real.mul_self_sqrt hn.le
    nlinarith [this]
  simp only [hnt, hexp]
  have h1 : Integrable (fun ω => u ω * u ω + (2 * Real.sqrt nugget) * (u ω * ε ω)) μ := hu.add (hue.const_mul _)
  have h2 : Integrable (fun ω => nugget * (ε ω * ε ω)) μ := he.const_mul _
  refine (integral_add h1 h2).trans ?_
  have e1 : ∫ ω, u ω * u ω + (2 * Real.sqrt nugget) * (u ω * ε ω) ∂μ = v + (2 * Real.sqrt nugget) * 0 := by
    refine (integral_add hu (hue.const_mul _)).trans ?_
    rw [integral_const_mul, huu, hcross]
  rw [e1, integral_const_mul, hee]
  ring

/-- `sample_sphere` returns unit vectors for all raw variates (`s = ±1`, any angle, `|z| ≤ 1`) -/
theorem sphere_unit (dim : Nat) (hd : dim = 1 ∨ dim = 2 ∨ dim = 3) (s a z : ℝ) (hs : s = 1 ∨ s = -1) (hz : z ^ 2 ≤ 1) :
    ∑ d ∈ range dim, sampleSphere dim s a z d ^ 2 = 1 := by
  rcases hd with rfl | rfl | rfl
  · rcases hs with rfl | rfl <;> simp [sampleSphere]
  · simp [sampleSphere, sum_range_succ, Real.cos_sq_add_sin_sq]
  · have h1 : 0 ≤ 1 - z ^ 2 := by linarith
    simp only [sampleSphere, sum_range_succ, sum_range_zero, sqrt_real, cos_real, sin_real, npow_real]
    norm_num
    have := Real.sq_sqrt h1
    have hc := Real.cos_sq_add_sin_sq a
    nlinarith [this, hc, mul_pow (Real.sqrt (1 - z ^ 2)) (Real.cos a) 2, mul_pow (Real.sqrt (1 - z ^ 2)) (Real.sin a) 2]

example : ∑ d ∈ range 3, sampleSphere 3 (1:ℝ) 0.3 0.5 d ^ 2 = 1 :=
  sphere_unit 3 (Or.inr (Or.inr rfl)) 1 0.3 0.5 (Or.inl rfl) (by norm_num)

end GSV.Props.C01
