/-
  C07 — conditioned random fields honour the data and never reuse stale kriging results.
-/
import GSV.Model.Cond
import GSV.RealInst
import Mathlib.Tactic.Ring
import Mathlib.Tactic.Linarith
import Mathlib.Tactic.FieldSimp
namespace GSV.Props.C07
open GSV GSV.Model.Cond

/-! ## the conditioning formula over ℝ -/

/-- at a location where the kriging variance is zero the conditioned value is the kriging estimate —
    for every unconditional field value and every nugget noise, i.e. for every seed -/
theorem honours_data (krige raw var nugget noise : ℝ) :
    condValue krige 0 raw var nugget noise = krige := by
  unfold condValue scaling maxz
  simp only [Nat.cast_zero, gt_iff_lt, zero_sub]
  by_cases h : 0 < nugget
  · have h2 : -nugget < 0 := by linarith
    simp [h, h2]
  · simp [h]

/-- the formula of the docstring: `krige + sqrt(kvar / var) · raw` for nugget-free models -/
theorem formula_no_nugget (krige kvar raw var noise : ℝ) :
    condValue krige kvar raw var 0 noise = krige + Real.sqrt (kvar / var) * raw := by
  unfold condValue scaling
  simp

/-- with a nugget and `kvar ≥ nugget`: the structured part is scaled by `sqrt((kvar − nugget)/var)`, the
    nugget noise enters unscaled -/
theorem formula_nugget (krige kvar raw var nugget noise : ℝ) (hn : 0 < nugget) (hk : nugget ≤ kvar) :
    condValue krige kvar raw var nugget noise = krige + Real.sqrt ((kvar - nugget) / var) * raw + noise := by
  unfold condValue scaling maxz
  simp only [Nat.cast_zero, gt_iff_lt, sub_neg]
  have h2 : ¬ (kvar < nugget) := not_lt.mpr hk
  have h3 : (kvar - (kvar - nugget)) / nugget = 1 := by
    have : nugget ≠ 0 := ne_of_gt hn
    field_simp; ring
  have h4 : nugget / nugget = 1 := div_self (ne_of_gt hn)
  simp [hn, h2, h4]

/-- far from the data under simple kriging (kriging variance = sill, raw estimate 0) the conditioned
    value is the unconditional field plus its nugget noise -/
theorem far_field_simple (raw var nugget noise : ℝ) (hv : 0 < var) (hn : 0 ≤ nugget) :
    condValue 0 (var + nugget) raw var nugget noise = raw + (if 0 < nugget then noise else 0) := by
  have hv' : var ≠ 0 := ne_of_gt hv
  by_cases h : 0 < nugget
  · rw [formula_nugget 0 (var + nugget) raw var nugget noise h (by linarith)]
    have : var / var = 1 := div_self hv'
    simp [this, h]
  · have h0 : nugget = 0 := le_antisymm (not_lt.mp h) hn
    subst h0
    rw [formula_no_nugget]
    have : var / var = 1 := div_self hv'
    simp [this]

example : condValue (2:ℝ) 0 5 1 0.25 7 = 2 := honours_data 2 5 1 0.25 7

/-! ## the cache state machine -/

/-- `Synced` as a proposition: the kriging matrix was built from the current conditions and model, and a
    stored kriging result (if any) belongs to the current positions and is what a fresh object computes -/
def Synced (s : State) : Prop :=
  s.matCond = s.cond ∧ s.matModel = s.model ∧
  ∀ t, s.cache = some t → (s.pos = some t.pos ∧ t = freshTok s t.pos)

/-- a freshly constructed object is in sync -/
theorem init_synced (c m mu : Nat) : Synced (init c m mu) := by
  simp [Synced, init]

theorem setPos_synced (s : State) (p : Nat) (h : Synced s) : Synced (setPos s p) := by
  unfold setPos
  split
  · exact h
  · exact ⟨h.1, h.2.1, by simp⟩

theorem setPos_pos (s : State) (p : Nat) : (setPos s p).pos = some p := by
  unfold setPos; split <;> simp_all

/-- **every call made in a synced state returns what a freshly built object returns**, reused or not,
    and leaves the object synced -/
theorem call_fresh_of_synced (s : State) (p? : Option Nat) (h : Synced s) :
    (∀ t r, (step s (.call p?)).2 = some (t, r) →
        ∃ p, (step s (.call p?)).1.pos = some p ∧ t = freshTok (step s (.call p?)).1 p) ∧
    Synced (step s (.call p?)).1 := by
  simp only [step]
  cases hp : targetPos s p? with
  | none => simp [h]
  | some p =>
    simp only [callAt]
    have hs := setPos_synced s p h
    have hpos := setPos_pos s p
    cases hc : (setPos s p).cache with
    | some t =>
      simp only []
      refine ⟨?_, hs⟩
      intro t' r heq
      simp only [Option.some.injEq, Prod.mk.injEq] at heq
      obtain ⟨rfl, _⟩ := heq
      have h3 := hs.2.2 t hc
      have : t.pos = p := by
        have := h3.1; rw [hpos] at this; exact (Option.some.inj this).symm
      exact ⟨p, hpos, by have h4 := h3.2; rw [this] at h4; exact h4⟩
    | none =>
      simp only []
      constructor
      · intro t' r heq
        simp only [Option.some.injEq, Prod.mk.injEq] at heq
        obtain ⟨rfl, _⟩ := heq
        exact ⟨p, hpos, by simp [computeTok, freshTok, hs.1, hs.2.1]⟩
      · refine ⟨hs.1, hs.2.1, ?_⟩
        intro t ht
        simp only [Option.some.injEq] at ht
        subst ht
        exact ⟨hpos, by simp [computeTok, freshTok, hs.1, hs.2.1]⟩

/-- **the documented refresh (`krige.set_condition(...)`, with or without new data) always re-syncs**,
    whatever happened before: stale stored results are dropped, the matrix is rebuilt -/
theorem refresh_syncs (s : State) (c? : Option Nat) : Synced (step s (.setCondition c?)).1 := by
  simp [step, Synced]

theorem setPos_op_synced (s : State) (p : Nat) (h : Synced s) : Synced (step s (.setPos p)).1 :=
  setPos_synced s p h

theorem delete_synced (s : State) (h : Synced s) : Synced (step s .deleteFields).1 := by
  simp only [step]; exact ⟨h.1, h.2.1, by simp⟩

/-- operations that keep an object in sync -/
def Harmless : Op → Prop
  | .call _ | .setPos _ | .setCondition _ | .deleteFields => True
  | .modelChange _ | .setMean _ => False

theorem step_synced (s : State) (op : Op) (hop : Harmless op) (h : Synced s) : Synced (step s op).1 := by
  cases op with
  | call p => exact (call_fresh_of_synced s p h).2
  | setPos p => exact setPos_op_synced s p h
  | setCondition c => exact refresh_syncs s c
  | deleteFields => exact delete_synced s h
  | modelChange m => exact absurd hop (by simp [Harmless])
  | setMean v => exact absurd hop (by simp [Harmless])

/-- all call outputs of a run are the fresh ones -/
def AllFresh : State → List Op → Prop
  | _, [] => True
  | s, op :: ops =>
    (∀ p t r, op = .call p → (step s op).2 = some (t, r) →
        ∃ q, (step s op).1.pos = some q ∧ t = freshTok (step s op).1 q) ∧
    AllFresh (step s op).1 ops

/-- **C07, cache coherence**: starting from a synced object (e.g. a freshly built one, or any object
    right after the documented refresh), every history of calls with new seeds/positions, `set_pos`,
    `set_condition` (new data or refresh) and field deletions returns, at every call, exactly what a
    freshly built object returns. -/
theorem histories_fresh (ops : List Op) (hops : ∀ op ∈ ops, Harmless op) (s : State) (h : Synced s) :
    AllFresh s ops := by
  induction ops generalizing s with
  | nil => trivial
  | cons op ops ih =>
    refine ⟨?_, ih (fun o ho => hops o (List.mem_cons_of_mem _ ho)) _
      (step_synced s op (hops op (List.mem_cons_self ..)) h)⟩
    intro p t r hop hout
    subst hop
    exact (call_fresh_of_synced s p h).1 t r hout

/-- after ANY history, a refresh followed by harmless operations yields fresh results again -/
theorem refresh_then_fresh (pre : List Op) (c? : Option Nat) (post : List Op)
    (hpost : ∀ op ∈ post, Harmless op) (s : State) :
    AllFresh (step (run s pre).1 (.setCondition c?)).1 post :=
  histories_fresh post hpost _ (refresh_syncs _ c?)

/-- why the refresh is needed (documented behaviour, not a defect): after an in-place model change a
    stored result is reused although a fresh object would compute something else -/
example : let s := (run (init 1 1 1) [.call (some 7), .modelChange 2]).1
    ∃ t, (step s (.call none)).2 = some (t, true) ∧ t ≠ freshTok s 7 := by
  refine ⟨_, rfl, by decide⟩

/-- the hypotheses are satisfiable by non-trivial histories -/
example : AllFresh (init 1 1 1) [.call (some 7), .setCondition (some 2), .call none, .setPos 8, .call none] :=
  histories_fresh _ (by intro op h; simp at h; rcases h with rfl | rfl | rfl | rfl | rfl <;> trivial) _ (init_synced 1 1 1)

end GSV.Props.C07
