/-
  C07 — conditioned random fields honour the data and never reuse stale kriging results.
-/
import GSV.Model.Cond
import GSV.RealInst
import Mathlib.Tactic.Ring
import Mathlib.Tactic.Linarith
import Mathlib.Tactic.FieldSimp
namespace GSV.Props.C07
open GSV GSV.Model.Cond

/-! ## the conditioning formula over ℝ -/

/-- at a location where the kriging variance is zero the conditioned value is the kriging estimate —
    for every unconditional field value and every nugget noise, i.e. for every seed -/
theorem honours_data (krige raw var nugget noise : ℝ) :
    condValue krige 0 raw var nugget noise = krige := by
  unfold condValue scaling maxz
  simp only [Nat.cast_zero, gt_iff_lt, zero_sub]
  by_cases h : 0 < nugget
  · have h2 : -nugget < 0 := by linarith
    simp [h, h2]
  · simp [h]

/-- the formula of the docstring: `krige + sqrt(kvar / var) · raw` for nugget-free models -/
theorem formula_no_nugget (krige kvar raw var noise : ℝ) :
    condValue krige kvar raw var 0 noise = krige + Real.sqrt (kvar / var) * raw := by
  unfold condValue scaling
  simp

/-- with a nugget and `kvar ≥ nugget`: the structured part is scaled by `sqrt((kvar − nugget)/var)`, the
    nugget noise enters unscaled -/
theorem formula_nugget (krige kvar raw var nugget noise : ℝ) (hn : 0 < nugget) (hk : nugget ≤ kvar) :
    condValue krige kvar raw var nugget noise = krige + Real.sqrt ((kvar - nugget) / var) * raw + noise := by
  unfold condValue scaling maxz
  simp only [Nat.cast_zero, gt_iff_lt, sub_neg]
  have h2 : ¬ (kvar < nugget) := not_lt.mpr hk
  have h3 : (kvar - (kvar - nugget)) / nugget = 1 := by
    have : nugget ≠ 0 := ne_of_gt hn
    field_simp; ring
  have h4 : nugget / nugget = 1 := div_self (ne_of_gt hn)
  simp [hn, h2, h4]

/-- far from the data under simple kriging (kriging variance = sill, raw estimate 0) the conditioned
    value is the unconditional field plus its nugget noise -/
theorem far_field_simple (raw var nugget noise : ℝ) (hv : 0 < var) (hn : 0 ≤ nugget) :
    condValue 0 (var + nugget) raw var nugget noise = raw + (if 0 < nugget then noise else 0) := by
  have hv' : var ≠ 0 := ne_of_gt hv
  by_cases h : 0 < nugget
  · rw [formula_nugget 0 (var + nugget) raw var nugget noise h (by linarith)]
    have : var / var = 1 := div_self hv'
    simp [this, h]
  · have h0 : nugget = 0 := le_antisymm (not_lt.mp h) hn
    subst h0
    rw [formula_no_nugget]
    have : var / var = 1 := div_self hv'
    simp [this]

example : condValue (2:ℝ) 0 5 1 0.25 7 = 2 := honours_data 2 5 1 0.25 7

/-! ## the cache state machine

  `raw_krige` is stored in the CondSRF object, `krige_var` in the Krige object (each under a field name), positions are
  shared; stored arrays carry an object identity and the CondSRF object remembers the pair stored by its last kriging run
  (`ref`).  `step` is the repaired reuse rule (`Rule.bothRef`); `stepWith .present` / `stepWith .varRef` are the two
  weaker rules, shown insufficient by the examples at the end. -/

/-- **Link invariant** (holds in EVERY reachable state, whatever the operations): object identities are below the
    counter, and a stored raw field / stored variance that are the remembered pair hold the result of one kriging run -/
def LinkInv (s : State) : Prop :=
  (∀ n r, s.raw n = some r → r.obj < s.nextObj) ∧
  (∀ n v, s.var n = some v → v.obj < s.nextObj) ∧
  (∀ i j, s.ref = some (i, j) → i < s.nextObj ∧ j < s.nextObj) ∧
  (∀ n m r v, s.raw n = some r → s.var m = some v → s.ref = some (r.obj, v.obj) → r.tok = v.tok)

/-- `Synced` as a proposition: the kriging matrix was built from the current conditions and model, and every kriging
    variance stored in the Krige object belongs to the current positions and is what a fresh object computes.
    (Nothing is required of the stored raw fields: they may be stale — they are only used through the link.) -/
def Synced (s : State) : Prop :=
  s.matCond = s.cond ∧ s.matModel = s.model ∧
  ∀ n v, s.var n = some v → (s.pos = some v.tok.pos ∧ v.tok = freshTok s v.tok.pos)

/-- a freshly constructed object is in sync -/
theorem init_synced (c m mu : Nat) : Synced (init c m mu) := by
  simp [Synced, init, FieldStore.empty]

theorem init_linkInv (c m mu : Nat) : LinkInv (init c m mu) := by
  simp [LinkInv, init, FieldStore.empty]

theorem setPos_pos (s : State) (p : Nat) : (setPos s p).pos = some p := by
  unfold setPos; split <;> simp_all

theorem krigeSetPos_pos (s : State) (p : Nat) : (krigeSetPos s p).pos = some p := by
  unfold krigeSetPos; split <;> simp_all

theorem setPos_synced (s : State) (p : Nat) (h : Synced s) : Synced (setPos s p) := by
  unfold setPos
  split
  · exact h
  · exact ⟨h.1, h.2.1, by simp [FieldStore.empty]⟩

theorem krigeSetPos_synced (s : State) (p : Nat) (h : Synced s) : Synced (krigeSetPos s p) := by
  unfold krigeSetPos
  split
  · exact h
  · exact ⟨h.1, h.2.1, by simp [FieldStore.empty]⟩

theorem setPos_linkInv (s : State) (p : Nat) (h : LinkInv s) : LinkInv (setPos s p) := by
  unfold setPos
  split
  · exact h
  · exact ⟨by simp [FieldStore.empty], by simp [FieldStore.empty], h.2.2.1, by simp [FieldStore.empty]⟩

theorem krigeSetPos_linkInv (s : State) (p : Nat) (h : LinkInv s) : LinkInv (krigeSetPos s p) := by
  unfold krigeSetPos
  split
  · exact h
  · exact ⟨h.1, by simp [FieldStore.empty], h.2.2.1, by simp [FieldStore.empty]⟩

/-- the repaired reuse test succeeds only on the remembered pair -/
theorem reusable_bothRef (s : State) (rn vn : Nat) (r v : Stored)
    (h : reusable .bothRef s rn vn = some (r, v)) :
    s.raw rn = some r ∧ s.var vn = some v ∧ s.ref = some (r.obj, v.obj) := by
  unfold reusable at h
  cases hr : s.raw rn with
  | none => simp [hr] at h
  | some r' =>
    cases hv : s.var vn with
    | none => simp [hr, hv] at h
    | some v' =>
      cases hf : s.ref with
      | none => simp [hr, hv, hf] at h
      | some ij =>
        obtain ⟨i, j⟩ := ij
        simp only [hr, hv, hf] at h
        split at h
        · rename_i hok
          simp only [Bool.and_eq_true, decide_eq_true_eq] at hok
          simp only [Option.some.injEq, Prod.mk.injEq] at h
          obtain ⟨rfl, rfl⟩ := h
          simp [hok.1, hok.2]
        · simp at h

/-- a fresh kriging run keeps the link invariant (any store / krige_store combination, any names) -/
theorem freshRun_linkInv (s : State) (p rn : Nat) (st : Bool) (vn : Nat) (kst : Bool) (h : LinkInv s) :
    LinkInv (freshRun s p rn st vn kst) := by
  obtain ⟨h1, h2, h3, h4⟩ := h
  have hraw : ∀ n r, (freshRun s p rn st vn kst).raw n = some r →
      (r = ⟨computeTok s p, s.nextObj⟩ ∧ st = true) ∨ s.raw n = some r := by
    intro n r hr
    unfold freshRun at hr
    cases st with
    | false => right; simpa using hr
    | true =>
      simp only [if_true, FieldStore.set] at hr
      by_cases hn : n = rn
      · left; simp only [hn, if_true, Option.some.injEq] at hr; exact ⟨hr.symm, rfl⟩
      · right; simpa [hn] using hr
  have hvar : ∀ n v, (freshRun s p rn st vn kst).var n = some v →
      (v = ⟨computeTok s p, s.nextObj + 1⟩ ∧ kst = true) ∨ s.var n = some v := by
    intro n v hv
    unfold freshRun at hv
    cases kst with
    | false => right; simpa using hv
    | true =>
      simp only [if_true, FieldStore.set] at hv
      by_cases hn : n = vn
      · left; simp only [hn, if_true, Option.some.injEq] at hv; exact ⟨hv.symm, rfl⟩
      · right; simpa [hn] using hv
  have hnext : (freshRun s p rn st vn kst).nextObj = s.nextObj + 2 := rfl
  have href : (freshRun s p rn st vn kst).ref = if st && kst then some (s.nextObj, s.nextObj + 1) else none := rfl
  refine ⟨?_, ?_, ?_, ?_⟩
  · intro n r hr
    rw [hnext]
    rcases hraw n r hr with ⟨rfl, _⟩ | h'
    · simp
    · have := h1 n r h'; omega
  · intro n v hv
    rw [hnext]
    rcases hvar n v hv with ⟨rfl, _⟩ | h'
    · simp
    · have := h2 n v h'; omega
  · intro i j hij
    rw [hnext]
    rw [href] at hij
    split at hij
    · simp only [Option.some.injEq, Prod.mk.injEq] at hij
      obtain ⟨rfl, rfl⟩ := hij
      omega
    · simp at hij
  · intro n m r v hr hv hij
    rw [href] at hij
    split at hij
    · simp only [Option.some.injEq, Prod.mk.injEq] at hij
      obtain ⟨hi, hj⟩ := hij
      rcases hraw n r hr with ⟨rfl, _⟩ | hr'
      · rcases hvar m v hv with ⟨rfl, _⟩ | hv'
        · rfl
        · have := h2 m v hv'; omega
      · have := h1 n r hr'; omega
    · simp at hij

theorem krigeCallAt_linkInv (s : State) (p : Nat) (store : Option Nat) (h : LinkInv s) :
    LinkInv (krigeCallAt s p store) := by
  have hk := krigeSetPos_linkInv s p h
  unfold krigeCallAt
  cases store with
  | none => exact hk
  | some vn =>
    obtain ⟨h1, h2, h3, h4⟩ := hk
    simp only []
    refine ⟨?_, ?_, ?_, ?_⟩
    · intro n r hr
      have := h1 n r hr
      show r.obj < (krigeSetPos s p).nextObj + 1
      omega
    · intro n v hv
      show v.obj < (krigeSetPos s p).nextObj + 1
      simp only [FieldStore.set] at hv
      by_cases hn : n = vn
      · simp only [hn, if_true, Option.some.injEq] at hv
        subst hv; simp
      · simp only [hn, if_false] at hv
        have := h2 n v hv; omega
    · intro i j hij
      have := h3 i j hij
      show i < (krigeSetPos s p).nextObj + 1 ∧ j < (krigeSetPos s p).nextObj + 1
      omega
    · intro n m r v hr hv hij
      simp only [FieldStore.set] at hv
      by_cases hm : m = vn
      · simp only [hm, if_true, Option.some.injEq] at hv
        subst hv
        have := (h3 _ _ hij).2
        simp at this
      · simp only [hm, if_false] at hv
        exact h4 n m r v hr hv hij

/-- **the link invariant is preserved by every operation** — harmless or not, under every reuse rule -/
theorem stepWith_linkInv (rule : Rule) (s : State) (op : Op) (h : LinkInv s) : LinkInv (stepWith rule s op).1 := by
  cases op with
  | call p? rn st vn kst =>
    simp only [stepWith]
    cases hp : targetPos s p? with
    | none => exact h
    | some p =>
      simp only [callAt]
      cases hr : reusable rule (setPos s p) rn vn with
      | some rv => exact setPos_linkInv s p h
      | none => exact freshRun_linkInv _ p rn st vn kst (setPos_linkInv s p h)
  | krigeCall p? store =>
    simp only [stepWith]
    cases hp : targetPos s p? with
    | none => exact h
    | some p => exact krigeCallAt_linkInv s p store h
  | setPos p => exact setPos_linkInv s p h
  | krigeSetPos p => exact krigeSetPos_linkInv s p h
  | setCondition c => exact ⟨h.1, by simp [stepWith, FieldStore.empty], h.2.2.1, by simp [stepWith, FieldStore.empty]⟩
  | modelChange m => exact h
  | setMean v => exact h
  | deleteFields => exact ⟨by simp [stepWith, FieldStore.empty], h.2.1, h.2.2.1, by simp [stepWith, FieldStore.empty]⟩
  | krigeDeleteFields => exact ⟨h.1, by simp [stepWith, FieldStore.empty], h.2.2.1, by simp [stepWith, FieldStore.empty]⟩

theorem step_linkInv (s : State) (op : Op) (h : LinkInv s) : LinkInv (step s op).1 :=
  stepWith_linkInv .bothRef s op h

theorem run_linkInv (ops : List Op) (s : State) (h : LinkInv s) : LinkInv (run s ops).1 := by
  induction ops generalizing s with
  | nil => exact h
  | cons op ops ih => exact ih _ (step_linkInv s op h)

/-- **reuse implies one kriging run**: in a state satisfying the link invariant (every reachable state), whatever a call
    of the repaired code uses as raw kriging field and as kriging variance — reused or freshly computed — stems from the
    same kriging run -/
theorem call_same_run (s : State) (p? : Option Nat) (rn : Nat) (st : Bool) (vn : Nat) (kst : Bool) (h : LinkInv s)
    (tr tv : KrigeTok) (reused : Bool)
    (hout : (step s (.call p? rn st vn kst)).2 = some (tr, tv, reused)) : tr = tv := by
  simp only [step, stepWith] at hout
  cases hp : targetPos s p? with
  | none => simp [hp] at hout
  | some p =>
    simp only [hp, callAt] at hout
    cases hr : reusable .bothRef (setPos s p) rn vn with
    | none =>
      simp only [hr, Option.some.injEq, Prod.mk.injEq] at hout
      rw [← hout.1, ← hout.2.1]
    | some rv =>
      obtain ⟨r, v⟩ := rv
      simp only [hr, Option.some.injEq, Prod.mk.injEq] at hout
      obtain ⟨h1, h2, h3⟩ := reusable_bothRef _ rn vn r v hr
      rw [← hout.1, ← hout.2.1]
      exact (setPos_linkInv s p h).2.2.2 rn vn r v h1 h2 h3

/-- **reuse implies linked**: when a call of the repaired code reuses stored results, the raw kriging field and the
    kriging variance it uses are the stored arrays the CondSRF object remembers as the pair of its last kriging run -/
theorem call_reuse_linked (s : State) (p? : Option Nat) (rn : Nat) (st : Bool) (vn : Nat) (kst : Bool)
    (tr tv : KrigeTok) (hout : (step s (.call p? rn st vn kst)).2 = some (tr, tv, true)) :
    ∃ r v, (step s (.call p? rn st vn kst)).1.raw rn = some r ∧ (step s (.call p? rn st vn kst)).1.var vn = some v ∧
      (step s (.call p? rn st vn kst)).1.ref = some (r.obj, v.obj) ∧ tr = r.tok ∧ tv = v.tok := by
  simp only [step, stepWith] at hout ⊢
  cases hp : targetPos s p? with
  | none => simp [hp] at hout
  | some p =>
    simp only [hp, callAt] at hout ⊢
    cases hr : reusable .bothRef (setPos s p) rn vn with
    | none => simp [hr] at hout
    | some rv =>
      obtain ⟨r, v⟩ := rv
      simp only [hr, Option.some.injEq, Prod.mk.injEq] at hout
      obtain ⟨h1, h2, h3⟩ := reusable_bothRef _ rn vn r v hr
      exact ⟨r, v, h1, h2, h3, hout.1.symm, hout.2.1.symm⟩

/-- all call outputs of a run use a raw kriging field and a kriging variance of one kriging run -/
def AllSameRun : State → List Op → Prop
  | _, [] => True
  | s, op :: ops =>
    (∀ tr tv reused, (step s op).2 = some (tr, tv, reused) → tr = tv) ∧ AllSameRun (step s op).1 ops

/-- **C07, no mixing of kriging runs**: in EVERY history from a freshly built object — including direct kriging calls,
    store / krige_store options with custom names, deletions on either object, in-place model and mean changes without
    refresh — every conditioned field is built from a raw kriging field and a kriging variance of the same kriging run -/
theorem histories_same_run (ops : List Op) (s : State) (h : LinkInv s) : AllSameRun s ops := by
  induction ops generalizing s with
  | nil => trivial
  | cons op ops ih =>
    refine ⟨?_, ih _ (step_linkInv s op h)⟩
    intro tr tv reused hout
    cases op with
    | call p? rn st vn kst => exact call_same_run s p? rn st vn kst h tr tv reused hout
    | krigeCall p? store =>
      simp only [step, stepWith] at hout
      cases hp : targetPos s p? <;> simp [hp] at hout
    | setPos p => simp [step, stepWith] at hout
    | krigeSetPos p => simp [step, stepWith] at hout
    | setCondition c => simp [step, stepWith] at hout
    | modelChange m => simp [step, stepWith] at hout
    | setMean v => simp [step, stepWith] at hout
    | deleteFields => simp [step, stepWith] at hout
    | krigeDeleteFields => simp [step, stepWith] at hout

/-- a fresh kriging run in a synced state stores what a fresh object computes -/
theorem freshRun_synced (s : State) (p rn : Nat) (st : Bool) (vn : Nat) (kst : Bool) (hpos : s.pos = some p)
    (h : Synced s) : Synced (freshRun s p rn st vn kst) := by
  refine ⟨h.1, h.2.1, ?_⟩
  intro n v hv
  show s.pos = some v.tok.pos ∧ v.tok = freshTok s v.tok.pos
  unfold freshRun at hv
  cases kst with
  | false => exact h.2.2 n v (by simpa using hv)
  | true =>
    simp only [if_true, FieldStore.set] at hv
    by_cases hn : n = vn
    · simp only [hn, if_true, Option.some.injEq] at hv
      subst hv
      exact ⟨hpos, by simp [computeTok, freshTok, h.1, h.2.1]⟩
    · simp only [hn, if_false] at hv
      exact h.2.2 n v hv

/-- **every call made in a synced state returns what a freshly built object returns** — raw kriging field AND
    kriging variance, reused or not, whatever the store / krige_store options and names — and leaves the object synced -/
theorem call_fresh_of_synced (s : State) (p? : Option Nat) (rn : Nat) (st : Bool) (vn : Nat) (kst : Bool)
    (hl : LinkInv s) (h : Synced s) :
    (∀ tr tv r, (step s (.call p? rn st vn kst)).2 = some (tr, tv, r) →
        ∃ p, (step s (.call p? rn st vn kst)).1.pos = some p ∧
          tr = freshTok (step s (.call p? rn st vn kst)).1 p ∧ tv = freshTok (step s (.call p? rn st vn kst)).1 p) ∧
    Synced (step s (.call p? rn st vn kst)).1 := by
  simp only [step, stepWith]
  cases hp : targetPos s p? with
  | none => simp [h]
  | some p =>
    simp only [callAt]
    have hs := setPos_synced s p h
    have hls := setPos_linkInv s p hl
    have hpos := setPos_pos s p
    cases hc : reusable .bothRef (setPos s p) rn vn with
    | some rv =>
      obtain ⟨r, v⟩ := rv
      simp only []
      refine ⟨?_, hs⟩
      intro tr tv b heq
      simp only [Option.some.injEq, Prod.mk.injEq] at heq
      obtain ⟨rfl, rfl, _⟩ := heq
      obtain ⟨h1, h2, h3⟩ := reusable_bothRef _ rn vn r v hc
      have hrv : r.tok = v.tok := hls.2.2.2 rn vn r v h1 h2 h3
      have h4 := hs.2.2 vn v h2
      have hvp : v.tok.pos = p := by
        have := h4.1; rw [hpos] at this; exact (Option.some.inj this).symm
      have hv : v.tok = freshTok (setPos s p) p := by have h5 := h4.2; rw [hvp] at h5; exact h5
      exact ⟨p, hpos, by rw [hrv]; exact hv, hv⟩
    | none =>
      simp only []
      constructor
      · intro tr tv b heq
        simp only [Option.some.injEq, Prod.mk.injEq] at heq
        obtain ⟨rfl, rfl, _⟩ := heq
        refine ⟨p, hpos, ?_, ?_⟩ <;> simp [computeTok, freshTok, freshRun, hs.1, hs.2.1]
      · exact freshRun_synced _ p rn st vn kst hpos hs

/-- a direct kriging call on the underlying Krige object (given or stored positions, stored under any name or not at
    all) keeps a synced object synced -/
theorem krigeCall_synced (s : State) (p? : Option Nat) (store : Option Nat) (h : Synced s) :
    Synced (step s (.krigeCall p? store)).1 := by
  simp only [step, stepWith]
  cases hp : targetPos s p? with
  | none => exact h
  | some p =>
    simp only [krigeCallAt]
    have hs := krigeSetPos_synced s p h
    have hpos := krigeSetPos_pos s p
    cases store with
    | none => exact hs
    | some vn =>
      refine ⟨hs.1, hs.2.1, ?_⟩
      intro n v hv
      show (krigeSetPos s p).pos = some v.tok.pos ∧ v.tok = freshTok (krigeSetPos s p) v.tok.pos
      simp only [FieldStore.set] at hv
      by_cases hn : n = vn
      · simp only [hn, if_true, Option.some.injEq] at hv
        subst hv
        exact ⟨hpos, by simp [computeTok, freshTok, hs.1, hs.2.1]⟩
      · simp only [hn, if_false] at hv
        exact hs.2.2 n v hv

/-- **the documented refresh (`krige.set_condition(...)`, with or without new data) always re-syncs**,
    whatever happened before: the matrix is rebuilt and the stored kriging variances are dropped (a raw kriging field
    that stays behind in the CondSRF object can no longer be reused: its partner is gone) -/
theorem refresh_syncs (s : State) (c? : Option Nat) : Synced (step s (.setCondition c?)).1 := by
  simp [step, stepWith, Synced, FieldStore.empty]

theorem setPos_op_synced (s : State) (p : Nat) (h : Synced s) : Synced (step s (.setPos p)).1 :=
  setPos_synced s p h

theorem krigeSetPos_op_synced (s : State) (p : Nat) (h : Synced s) : Synced (step s (.krigeSetPos p)).1 :=
  krigeSetPos_synced s p h

theorem delete_synced (s : State) (h : Synced s) : Synced (step s .deleteFields).1 := by
  simp only [step, stepWith]; exact ⟨h.1, h.2.1, h.2.2⟩

theorem krigeDelete_synced (s : State) (h : Synced s) : Synced (step s .krigeDeleteFields).1 := by
  simp only [step, stepWith]; exact ⟨h.1, h.2.1, by simp [FieldStore.empty]⟩

/-- operations that keep an object in sync -/
def Harmless : Op → Prop
  | .call .. | .krigeCall .. | .setPos _ | .krigeSetPos _ | .setCondition _ | .deleteFields | .krigeDeleteFields => True
  | .modelChange _ | .setMean _ => False

theorem step_synced (s : State) (op : Op) (hop : Harmless op) (hl : LinkInv s) (h : Synced s) :
    Synced (step s op).1 := by
  cases op with
  | call p rn st vn kst => exact (call_fresh_of_synced s p rn st vn kst hl h).2
  | krigeCall p store => exact krigeCall_synced s p store h
  | setPos p => exact setPos_op_synced s p h
  | krigeSetPos p => exact krigeSetPos_op_synced s p h
  | setCondition c => exact refresh_syncs s c
  | deleteFields => exact delete_synced s h
  | krigeDeleteFields => exact krigeDelete_synced s h
  | modelChange m => exact absurd hop (by simp [Harmless])
  | setMean v => exact absurd hop (by simp [Harmless])

/-- all call outputs of a run are the fresh ones (raw kriging field and kriging variance) -/
def AllFresh : State → List Op → Prop
  | _, [] => True
  | s, op :: ops =>
    (∀ tr tv r, (step s op).2 = some (tr, tv, r) →
        ∃ q, (step s op).1.pos = some q ∧ tr = freshTok (step s op).1 q ∧ tv = freshTok (step s op).1 q) ∧
    AllFresh (step s op).1 ops

/-- **C07, cache coherence**: starting from a synced object (e.g. a freshly built one, or any object right after the
    documented refresh), every history of CondSRF calls (new seeds/positions, every `store` / `krige_store` combination,
    custom field names), direct kriging calls on the underlying Krige object (same or other positions, stored or not),
    `set_pos` on either object, `set_condition` (new data or refresh) and field deletions on either object returns, at
    every CondSRF call, exactly what a freshly built object returns. -/
theorem histories_fresh (ops : List Op) (hops : ∀ op ∈ ops, Harmless op) (s : State) (hl : LinkInv s) (h : Synced s) :
    AllFresh s ops := by
  induction ops generalizing s with
  | nil => trivial
  | cons op ops ih =>
    refine ⟨?_, ih (fun o ho => hops o (List.mem_cons_of_mem _ ho)) _ (step_linkInv s op hl)
      (step_synced s op (hops op (List.mem_cons_self ..)) hl h)⟩
    intro tr tv r hout
    cases op with
    | call p rn st vn kst => exact (call_fresh_of_synced s p rn st vn kst hl h).1 tr tv r hout
    | krigeCall p? store =>
      simp only [step, stepWith] at hout
      cases hp : targetPos s p? <;> simp [hp] at hout
    | setPos p => simp [step, stepWith] at hout
    | krigeSetPos p => simp [step, stepWith] at hout
    | setCondition c => simp [step, stepWith] at hout
    | modelChange m => simp [step, stepWith] at hout
    | setMean v => simp [step, stepWith] at hout
    | deleteFields => simp [step, stepWith] at hout
    | krigeDeleteFields => simp [step, stepWith] at hout

/-- after ANY history (of any operations) of an object whose link invariant holds (e.g. a freshly built one), a refresh
    followed by harmless operations yields fresh results again -/
theorem refresh_then_fresh (pre : List Op) (c? : Option Nat) (post : List Op)
    (hpost : ∀ op ∈ post, Harmless op) (s : State) (hl : LinkInv s) :
    AllFresh (step (run s pre).1 (.setCondition c?)).1 post :=
  histories_fresh post hpost _ (step_linkInv _ _ (run_linkInv pre s hl)) (refresh_syncs _ c?)

/-- why the refresh is needed (documented behaviour, not a defect): after an in-place model change a
    stored result is reused although a fresh object would compute something else -/
example : let s := (run (init 1 1 1) [.call (some 7) 0 true 0 true, .modelChange 2]).1
    ∃ t, (step s (.call none 0 true 0 true)).2 = some (t, t, true) ∧ t ≠ freshTok s 7 := by
  refine ⟨_, rfl, by decide⟩

/-- **the link test is necessary** (history 1, replayed on the package): under the unrepaired rule "both fields merely
    present", `crf(pos); krige.set_condition(new); crf(store=False); crf()` — the `store=False` call re-stores the
    kriging variance but not the raw kriging field — the last call REUSES the raw kriging field of the old conditions
    together with the variance of the new ones; under the repaired rule the same history computes afresh. -/
example : let h : List Op := [.call (some 7) 0 true 0 true, .setCondition (some 2), .call none 0 false 0 true]
    let s := (runWith .present (init 1 1 1) h).1
    (∃ tr tv, (stepWith .present s (.call none 0 true 0 true)).2 = some (tr, tv, true) ∧ tr ≠ tv ∧ tr ≠ freshTok s 7) ∧
    (stepWith .bothRef (runWith .bothRef (init 1 1 1) h).1 (.call none 0 true 0 true)).2
      = some (freshTok s 7, freshTok s 7, false) := by
  refine ⟨⟨_, _, rfl, by decide, by decide⟩, by decide⟩

/-- history 2: a direct kriging call re-stores the variance — same stale reuse under the unrepaired rule -/
example : let h : List Op := [.call (some 7) 0 true 0 true, .setCondition (some 2), .krigeCall none (some 0)]
    let s := (runWith .present (init 1 1 1) h).1
    ∃ tr tv, (stepWith .present s (.call none 0 true 0 true)).2 = some (tr, tv, true) ∧ tr ≠ tv ∧ tr ≠ freshTok s 7 := by
  exact ⟨_, _, rfl, by decide, by decide⟩

/-- a direct kriging call at OTHER positions moves the shared positions and stores a variance for them while the CondSRF
    object keeps its raw kriging field: the unrepaired rule pairs a raw field at positions 7 with a variance at positions 8 -/
example : let h : List Op := [.call (some 7) 0 true 0 true, .krigeCall (some 8) (some 0)]
    let s := (runWith .present (init 1 1 1) h).1
    ∃ tr tv, (stepWith .present s (.call none 0 true 0 true)).2 = some (tr, tv, true) ∧ tr.pos = 7 ∧ tv.pos = 8 := by
  exact ⟨_, _, rfl, by decide, by decide⟩

/-- **remembering the variance object alone is not enough** (custom field names, replayed on the package): the second
    run stores its raw kriging field under another name and its variance under the default name; a rule that only tests
    "the stored variance is the remembered variance object" then reuses the OLD default-name raw kriging field with it.
    The repaired rule (both stored arrays are the remembered pair) computes afresh. -/
example : let h : List Op := [.call (some 7) 0 true 0 true, .setCondition (some 2), .call none 1 true 0 true]
    let s := (runWith .varRef (init 1 1 1) h).1
    (∃ tr tv, (stepWith .varRef s (.call none 0 true 0 true)).2 = some (tr, tv, true) ∧ tr ≠ tv ∧ tr ≠ freshTok s 7) ∧
    (stepWith .bothRef (runWith .bothRef (init 1 1 1) h).1 (.call none 0 true 0 true)).2
      = some (freshTok s 7, freshTok s 7, false) := by
  refine ⟨⟨_, _, rfl, by decide, by decide⟩, by decide⟩

/-- the repaired rule still reuses when nothing changed (the reuse the package's own test asserts) -/
example : (step (run (init 1 1 1) [.call (some 7) 0 true 0 true]).1 (.call none 0 true 0 true)).2
    = some (freshTok (init 1 1 1) 7, freshTok (init 1 1 1) 7, true) := by decide

/-- the hypotheses are satisfiable by non-trivial histories -/
example : AllFresh (init 1 1 1)
    [.call (some 7) 0 true 0 true, .setCondition (some 2), .call none 0 false 0 true, .call none 0 true 0 true,
     .krigeCall (some 8) (some 0), .call none 1 true 0 true, .setPos 8, .call none 0 true 0 true] :=
  histories_fresh _ (by intro op h; simp at h; rcases h with rfl | rfl | rfl | rfl | rfl | rfl | rfl | rfl <;> trivial) _
    (init_linkInv 1 1 1) (init_synced 1 1 1)

example : AllSameRun (init 1 1 1) [.call (some 7) 0 true 0 true, .modelChange 2, .krigeCall none (some 0), .call none 0 true 0 true] :=
  histories_same_run _ _ (init_linkInv 1 1 1)

/-! ## stored-field bookkeeping over several meshes (`field_names` of both objects)

  `XState` adds, to the cache state, the names of the stored fields whose contents are never read back (conditioned field,
  unconditional field, kriging field).  `crfStored x slot n` / `krigeStored x slot n` say whether the CondSRF / Krige object
  stores a field in slot `slot` under name `n`.  The harness compares `field_names` of both real objects with these
  predicates after EVERY operation of every history. -/

/-- the extended machine is the cache machine plus bookkeeping: every theorem above about `step` / `run` transfers -/
theorem xstep_core (x : XState) (op : Op) (a : Aux) :
    (xstep x op a).1.core = (step x.core op).1 ∧ (xstep x op a).2 = (step x.core op).2 := ⟨rfl, rfl⟩

/-- **`crf.delete_fields()` leaves no stored field in the CondSRF object** (whatever was stored, under whatever names, in
    whatever order) -/
theorem delete_clears (x : XState) (a : Aux) (slot n : Nat) :
    crfStored (xstep x .deleteFields a).1 slot n = false := by
  unfold crfStored
  split <;> simp [xstep, xstepWith, namesStep, stepWith, NameSet.empty, FieldStore.empty]

/-- **`crf.krige.delete_fields()` leaves no stored field in the Krige object** -/
theorem krigeDelete_clears (x : XState) (a : Aux) (slot n : Nat) :
    krigeStored (xstep x .krigeDeleteFields a).1 slot n = false := by
  unfold krigeStored
  split <;> simp [xstep, xstepWith, namesStep, stepWith, NameSet.empty, FieldStore.empty]

/-- **`krige.set_condition(...)` (new data or refresh) leaves no stored field in the Krige object** -/
theorem setCondition_clears (x : XState) (c? : Option Nat) (a : Aux) (slot n : Nat) :
    krigeStored (xstep x (.setCondition c?) a).1 slot n = false := by
  unfold krigeStored
  split <;> simp [xstep, xstepWith, namesStep, stepWith, NameSet.empty, FieldStore.empty]

/-- **`crf.set_pos(new positions)` leaves no stored field in either object** -/
theorem setPos_change_clears (x : XState) (p : Nat) (a : Aux) (hp : x.core.pos ≠ some p) (slot n : Nat) :
    crfStored (xstep x (.setPos p) a).1 slot n = false ∧ krigeStored (xstep x (.setPos p) a).1 slot n = false := by
  unfold crfStored krigeStored
  constructor <;> split <;>
    simp [xstep, xstepWith, namesStep, stepWith, setPos, hp, Names.empty, NameSet.empty, FieldStore.empty]

/-- `crf.krige.set_pos(new positions)` leaves no stored field in the Krige object (the CondSRF object keeps its fields:
    they are protected by the link test, `histories_fresh`) -/
theorem krigeSetPos_change_clears (x : XState) (p : Nat) (a : Aux) (hp : x.core.pos ≠ some p) (slot n : Nat) :
    krigeStored (xstep x (.krigeSetPos p) a).1 slot n = false := by
  unfold krigeStored
  split <;> simp [xstep, xstepWith, namesStep, stepWith, krigeSetPos, hp, NameSet.empty, FieldStore.empty]

theorem reusable_empty (rule : Rule) (s : State) (rn vn : Nat) (h : s.raw = FieldStore.empty) :
    reusable rule s rn vn = none := by
  unfold reusable; simp [h, FieldStore.empty]

/-- **a CondSRF call on a new mesh keeps nothing of the earlier meshes**: after `crf(new positions, store=…,
    krige_store=…)` the fields stored in both objects are exactly the ones this call stored — however many meshes were
    used before, whatever was stored on them and under whatever names.  (So no later operation can find a field of an
    earlier mesh.) -/
theorem call_change_stores_exactly (x : XState) (p rn : Nat) (st : Bool) (vn : Nat) (kst : Bool) (a : Aux)
    (hp : x.core.pos ≠ some p) (n : Nat) :
    let x' := (xstep x (.call (some p) rn st vn kst) a).1
    (crfStored x' 0 n = (a.fSave && decide (n = a.fName))) ∧
    (crfStored x' 1 n = (a.rfSave && decide (n = a.rfName))) ∧
    (crfStored x' 2 n = (st && decide (n = rn))) ∧
    (krigeStored x' 0 n = (a.kfSave && decide (n = a.kfName))) ∧
    (krigeStored x' 1 n = (kst && decide (n = vn))) := by
  have hset : setPos x.core p = { x.core with pos := some p, raw := FieldStore.empty, var := FieldStore.empty } := by
    unfold setPos; simp [hp]
  have hre : reusable .bothRef (setPos x.core p) rn vn = none := reusable_empty _ _ _ _ (by rw [hset])
  simp only [xstep, xstepWith, stepWith, targetPos, callAt, hre, namesStep, hp, if_false, crfStored, krigeStored,
    saveName, Names.empty]
  refine ⟨?_, ?_, ?_, ?_, ?_⟩
  · cases a.fSave <;> simp [NameSet.add, NameSet.empty]
  · cases a.rfSave <;> simp [NameSet.add, NameSet.empty]
  · cases st <;> simp [freshRun, hset, FieldStore.set, FieldStore.empty]
    by_cases h : n = rn <;> simp [h]
  · cases a.kfSave <;> simp [NameSet.add, NameSet.empty]
  · cases kst <;> simp [freshRun, hset, FieldStore.set, FieldStore.empty]
    by_cases h : n = vn <;> simp [h]

/-- a direct kriging call on a new mesh keeps nothing of the earlier meshes in the Krige object -/
theorem krigeCall_change_stores_exactly (x : XState) (p : Nat) (store : Option Nat) (a : Aux)
    (hp : x.core.pos ≠ some p) (n : Nat) :
    let x' := (xstep x (.krigeCall (some p) store) a).1
    (krigeStored x' 0 n = (a.kfSave && decide (n = a.kfName))) ∧
    (krigeStored x' 1 n = decide (store = some n)) := by
  have hset : krigeSetPos x.core p = { x.core with pos := some p, var := FieldStore.empty } := by
    unfold krigeSetPos; simp [hp]
  simp only [xstep, xstepWith, stepWith, targetPos, krigeCallAt, namesStep, hp, if_false, krigeStored, saveName]
  refine ⟨?_, ?_⟩
  · cases a.kfSave <;> simp [NameSet.add, NameSet.empty]
  · cases store with
    | none => simp [hset, FieldStore.empty]
    | some vn =>
      simp only [hset, FieldStore.set, FieldStore.empty, Option.some.injEq]
      by_cases h : n = vn
      · simp [h]
      · have h' : ¬ vn = n := fun e => h e.symm
        simp [h, h']

/-- **several meshes, then an invalidation, then a call WITHOUT positions**: the histories of the property's second
    half.  After any history `pre` (any number of meshes, names, direct kriging calls …) of a freshly built object,
    `set_condition` (new data or refresh) followed by harmless operations returns fresh results at every call, and
    right after the `set_condition` the Krige object stores nothing — in particular no kriging variance of an earlier
    mesh or of the earlier conditions can be paired with a surviving raw kriging field. -/
theorem meshes_then_refresh (c m mu : Nat) (pre : List (Op × Aux)) (c? : Option Nat) (a : Aux) (post : List Op)
    (hpost : ∀ op ∈ post, Harmless op) :
    let x := (xstep (xrun (xinit c m mu) pre) (.setCondition c?) a).1
    (∀ slot n, krigeStored x slot n = false) ∧ AllFresh x.core post := by
  have hl : ∀ (l : List (Op × Aux)) (x : XState), LinkInv x.core → LinkInv (xrun x l).core := by
    intro l
    induction l with
    | nil => intro x h; exact h
    | cons oa l ih =>
      intro x h
      obtain ⟨o, a'⟩ := oa
      exact ih _ (step_linkInv x.core o h)
  refine ⟨fun slot n => setCondition_clears _ c? a slot n, ?_⟩
  exact histories_fresh post hpost _ (step_linkInv _ _ (hl pre _ (init_linkInv c m mu))) (refresh_syncs _ c?)

/-- the scenario class on concrete identifiers: two meshes (7, then 8), new conditioning data, call without positions —
    nothing of mesh 7 or of the old data is left, the call computes afresh and equals the fresh object -/
example : let x := xrun (xinit 1 1 1) [(.call (some 7) 0 true 0 true, {}), (.call (some 8) 0 true 0 true, {}),
                                       (.setCondition (some 2), {})]
    (∀ slot n, krigeStored x slot n = false) ∧
    (xstep x (.call none 0 true 0 true) {}).2 = some (freshTok x.core 8, freshTok x.core 8, false) := by
  refine ⟨?_, by decide⟩
  intro slot n
  exact setCondition_clears _ (some 2) {} slot n

/-- … and with a third mesh through `set_pos`: both objects are empty afterwards -/
example : let x := xrun (xinit 1 1 1) [(.call (some 7) 0 true 0 true, {}), (.call (some 8) 1 true 1 true, { fName := 1 }),
                                       (.setPos 9, {})]
    (∀ slot n, crfStored x slot n = false ∧ krigeStored x slot n = false) := by
  intro x slot n
  exact setPos_change_clears _ 9 {} (by decide) slot n

end GSV.Props.C07
