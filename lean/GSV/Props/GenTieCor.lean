/-
  Tie A for the closed-form correlation functions (C03): the hand-written kernels of `GSV.Model.CovFn`
  (`gaussianCor`, `cubicCor`, …, the closed forms of `calc_integral_scale`) that the C03 theorems talk about
  are EQUAL over `ℝ`, for all parameters and all lags, to the definitions that `vlib/pyexpr2lean.py` regenerates from
  the current text of `src/gstools/covmodel/models.py` / `tpl_models.py` on every run of `./check`
  (`GSV/Gen/CorFormulas.lean`).

  The theorems `*_eq_model_real` are the registered obligations.  They are proved by `tie_real`
  (`GSV/Props/GenTieReal.lean`: unfold, vocabulary, normal form of roots / powers / ring subterms, split, `ring1 |
  ring_nf | field_simp; ring1`), which keeps checking when a source formula is rewritten into a real-equal one and
  stops checking on a semantic edit.  No side condition is needed for the elementary families.

  * Elementary families (Gaussian, Exponential, Stable, Rational, Cubic, Linear, Circular, Spherical,
    TPLSimple; `calc_integral_scale` of Gaussian, Exponential, Integral): equality for all real arguments.  (The
    carrier-polymorphic `rfl` form is in `GenTieCorExact.lean`, informative.)
  * Special-function families: the generated definition keeps the scipy function as an uninterpreted
    parameter (`sps : Sps ℝ`).  What is proved is the plumbing around it — mask, prefactors, argument
    expressions — relative to the stated reduction of the special function on the modelled slice (a
    hypothesis of the theorem, tied to scipy by the C03 correspondence, not by proof):
    `SuperSpherical.cor` (natural `nu`), `HyperSpherical.cor` (odd `dim`), `JBessel.cor` (all `nu`, and the
    slices `nu = 1/2, 3/2`).  The hypothesis is normalised together with the goal (`tie_real_using`).
  A semantic edit of a formula changes the generated definition and the corresponding theorem stops checking.
-/
import GSV.RealInst
import GSV.Props.GenTieReal
import GSV.Model.CovFn
import GSV.Gen.CorFormulas

set_option linter.unusedSectionVars false

namespace GSV.Props.GenTieCor
open GSV GSV.Transc GSV.PyExpr GSV.Model.CovFn GSV.Gen.CorFormulas GSV.Props.GenTieReal

variable {α : Type} [Arith α] [Transc α] [DecidableLT α] [DecidableLE α]

/-! ### vocabulary -/

theorem minimum_eq (a b : α) : minimum a b = fmin a b := rfl
theorem maximum_eq (a b : α) : maximum a b = fmax a b := rfl
theorem minimum_real (a b : ℝ) : minimum a b = min a b := GenTieReal.minimum_real a b
theorem maximum_real (a b : ℝ) : maximum a b = max a b := GenTieReal.maximum_real a b

/-- `np.isclose(h, 0)` is the model's `isclose0` (`|h| ≤ 1e-8`) at `ℝ` -/
theorem isclose_zero_real (h : ℝ) : PyExpr.isclose h ((0:Nat):ℝ) = isclose0 h := by
  simp [PyExpr.isclose, isclose0]

/-! ### the obligations: equality over `ℝ`, robust against real-equal rewrites of the source

`tie_cor G, M` unfolds the generated definition `G`, the model function `M` and the model's auxiliary polynomials, reads
the model's `fmin / fmax` as numpy's and `np.isclose(h, 0)` as the model's `isclose0`, and runs `tie_real`. -/

local macro "tie_cor " g:ident ", " m:ident : tactic =>
  `(tactic| tie_real [$g:ident, $m:ident, cubicPoly, sphericalPoly, circularInner, ← minimum_eq, ← maximum_eq,
      isclose_zero_real])

theorem Gaussian_cor_eq_model_real (h : ℝ) : Gaussian.cor h = gaussianCor h := by
  tie_cor Gaussian.cor, gaussianCor
theorem Exponential_cor_eq_model_real (h : ℝ) : Exponential.cor h = exponentialCor h := by
  tie_cor Exponential.cor, exponentialCor
theorem Stable_cor_eq_model_real (alpha h : ℝ) : Stable.cor alpha h = stableCor alpha h := by
  tie_cor Stable.cor, stableCor
theorem Rational_cor_eq_model_real (alpha h : ℝ) : Rational.cor alpha h = rationalCor alpha h := by
  tie_cor Rational.cor, rationalCor
theorem Cubic_cor_eq_model_real (h : ℝ) : Cubic.cor h = cubicCor h := by
  tie_cor Cubic.cor, cubicCor
theorem Linear_cor_eq_model_real (h : ℝ) : Linear.cor h = linearCor h := by
  tie_cor Linear.cor, linearCor
theorem Circular_cor_eq_model_real (h : ℝ) : Circular.cor h = circularCor h := by
  tie_cor Circular.cor, circularCor
theorem Spherical_cor_eq_model_real (h : ℝ) : Spherical.cor h = sphericalCor h := by
  tie_cor Spherical.cor, sphericalCor
theorem TPLSimple_cor_eq_model_real (nu h : ℝ) : TPLSimple.cor nu h = tplSimpleCor nu h := by
  tie_cor TPLSimple.cor, tplSimpleCor

/-! ### closed forms of `calc_integral_scale` (`self.len_rescaled` is `lenRescaled p`) -/

theorem Gaussian_calc_integral_scale_eq_model_real (p : Par ℝ) :
    Gaussian.calc_integral_scale (lenRescaled p) = gaussianCalcIS p := by
  tie_cor Gaussian.calc_integral_scale, gaussianCalcIS
theorem Exponential_calc_integral_scale_eq_model_real (p : Par ℝ) :
    Exponential.calc_integral_scale (lenRescaled p) = exponentialCalcIS p := by
  tie_cor Exponential.calc_integral_scale, exponentialCalcIS
theorem Integral_calc_integral_scale_eq_model_real (nu : ℝ) (p : Par ℝ) :
    Integral.calc_integral_scale (lenRescaled p) nu = integralCalcIS nu p := by
  tie_cor Integral.calc_integral_scale, integralCalcIS

/-! ### the statements at `ℝ` in Mathlib's vocabulary (what the C03 integrals are computed from) -/

theorem Cubic_cor_real (h : ℝ) :
    Cubic.cor h = 1 - 7 * (min |h| 1) ^ 2 + 8.75 * (min |h| 1) ^ 3 - 3.5 * (min |h| 1) ^ 5
      + 0.75 * (min |h| 1) ^ 7 := by
  tie_real [Cubic.cor]

theorem Spherical_cor_real (h : ℝ) :
    Spherical.cor h = 1 - 1.5 * (min |h| 1) + 0.5 * (min |h| 1) ^ 3 := by
  tie_real [Spherical.cor]

theorem Gaussian_cor_real (h : ℝ) : Gaussian.cor h = Real.exp (-h ^ 2) := by
  tie_real [Gaussian.cor]

/-! ### special-function families: the plumbing around the scipy call -/

/-- `SuperSpherical.cor` with a natural `nu = n`: if `hyp2f1(0.5, -n, 1.5, ·)` is the terminating series
    (`hyp2f1HalfNegNat n`, proved to be Mathlib's `₂F₁` in `C03.superSpherical_nat_is_hypergeometric`), the
    method is the model's `superSphericalNatCor n` — mask `h < 1`, `fac = 1 / F(1)`, `1 - h * fac * F(h²)`. -/
theorem SuperSpherical_cor_eq_model_real (sps : Sps ℝ) (n : Nat)
    (H : ∀ x : ℝ, sps.hyp2f1 (0.5:ℝ) (-((n:Nat):ℝ)) (1.5:ℝ) x = hyp2f1HalfNegNat n x) (h : ℝ) :
    SuperSpherical.cor sps ((n:Nat):ℝ) h = superSphericalNatCor n h := by
  tie_real_using H [SuperSpherical.cor, superSphericalNatCor]

/-- `HyperSpherical.cor` in odd dimension `2n+1` (`nu = (dim - 1) / 2 = n`), over `ℝ` -/
theorem HyperSpherical_cor_eq_model_real (sps : Sps ℝ) (n : ℕ)
    (H : ∀ x : ℝ, sps.hyp2f1 (0.5:ℝ) (-((n:Nat):ℝ)) (1.5:ℝ) x = hyp2f1HalfNegNat n x) (h : ℝ) :
    HyperSpherical.cor sps (2 * n + 1) h = superSphericalNatCor n h := by
  tie_real_using H [HyperSpherical.cor, superSphericalNatCor]

/-- in particular `dim = 1` is the model's Linear-type kernel and `dim = 3` the Spherical-type kernel
    (`C03.hyperSpherical_dims` identifies them with `linearCor`, `sphericalCor` on `h ≥ 0`) -/
theorem HyperSpherical_cor_dims (sps : Sps ℝ)
    (H : ∀ (n : ℕ) (x : ℝ), sps.hyp2f1 (0.5:ℝ) (-((n:Nat):ℝ)) (1.5:ℝ) x = hyp2f1HalfNegNat n x) (h : ℝ) :
    some (HyperSpherical.cor sps 1 h) = (hyperSphericalCor 1).map (· h)
      ∧ some (HyperSpherical.cor sps 3 h) = (hyperSphericalCor 3).map (· h) := by
  refine ⟨?_, ?_⟩
  · have := HyperSpherical_cor_eq_model_real sps 0 (H 0) h
    simpa [hyperSphericalCor] using this
  · have := HyperSpherical_cor_eq_model_real sps 1 (H 1) h
    simpa [hyperSphericalCor] using this

/-- `JBessel.cor` over `ℝ`: `1` on the `np.isclose(h, 0)` band (the model's `isclose0`), else
    `Γ(nu+1) J_nu(h) / (h/2)^nu` with the scipy functions as parameters -/
theorem JBessel_cor_eq_model_real (sps : Sps ℝ) (nu h : ℝ) :
    JBessel.cor sps nu h
      = if isclose0 h then 1 else sps.gamma (nu + 1) * sps.jv nu h / (h / 2) ^ nu := by
  tie_real [JBessel.cor, isclose_zero_real]

/-- the slice `nu = 1/2` on lags `h ≥ 0` (what `cor` is called with): under `Γ(3/2) J_{1/2}(h) / (h/2)^{1/2} = sin h / h`
    for `h > 0` this is the model's `jbessel12Cor` -/
theorem JBessel_cor_half_eq_model (sps : Sps ℝ)
    (H : ∀ h : ℝ, 0 < h → sps.gamma (0.5 + 1) * sps.jv 0.5 h / (h / 2) ^ (0.5:ℝ) = Real.sin h / h)
    (h : ℝ) (hh : 0 ≤ h) : JBessel.cor sps 0.5 h = jbessel12Cor h := by
  rw [JBessel_cor_eq_model_real, jbessel12Cor]
  rcases hh.eq_or_lt with h0 | hpos
  · have : isclose0 h = true := by rw [← h0]; simp [isclose0]; norm_num
    simp [this]
  · rw [H h hpos]
    cases isclose0 h <;> simp

/-- the slice `nu = 3/2` on lags `h ≥ 0` -/
theorem JBessel_cor_three_halves_eq_model (sps : Sps ℝ)
    (H : ∀ h : ℝ, 0 < h → sps.gamma (1.5 + 1) * sps.jv 1.5 h / (h / 2) ^ (1.5:ℝ)
      = 3 * (Real.sin h - h * Real.cos h) / h ^ 3)
    (h : ℝ) (hh : 0 ≤ h) : JBessel.cor sps 1.5 h = jbessel32Cor h := by
  rw [JBessel_cor_eq_model_real, jbessel32Cor]
  rcases hh.eq_or_lt with h0 | hpos
  · have : isclose0 h = true := by rw [← h0]; simp [isclose0]; norm_num
    simp [this]
  · rw [H h hpos]
    cases isclose0 h <;> simp

/-! ### the hypotheses above are satisfiable (by functions with the stated slices) -/

/-- a `scipy.special` stand-in whose `hyp2f1(·, b, ·, x)` is the terminating series of order `⌊-b⌋` and whose
    `gamma`, `jv` realise the two elementary Bessel slices on `h > 0` -/
noncomputable def witnessSps : Sps ℝ where
  erf := id
  erfinv := id
  gamma := fun _ => 1
  loggamma := fun _ => 0
  beta := fun _ _ => 1
  kv := fun _ _ => 0
  jv := fun nu h =>
    if nu = 0.5 then Real.sin h / h * (h / 2) ^ (0.5:ℝ)
    else 3 * (Real.sin h - h * Real.cos h) / h ^ 3 * (h / 2) ^ (1.5:ℝ)
  hyp2f1 := fun _ b _ x => hyp2f1HalfNegNat ⌊-b⌋₊ x

example (n : ℕ) (x : ℝ) : witnessSps.hyp2f1 (0.5:ℝ) (-((n:Nat):ℝ)) (1.5:ℝ) x = hyp2f1HalfNegNat n x := by
  simp [witnessSps]

example (h : ℝ) (hh : 0 < h) :
    witnessSps.gamma (0.5 + 1) * witnessSps.jv 0.5 h / (h / 2) ^ (0.5:ℝ) = Real.sin h / h := by
  have : (h / 2) ^ (0.5:ℝ) ≠ 0 := (Real.rpow_pos_of_pos (by positivity) _).ne'
  simp only [witnessSps, if_true, one_mul]
  field_simp

example (h : ℝ) (hh : 0 < h) :
    witnessSps.gamma (1.5 + 1) * witnessSps.jv 1.5 h / (h / 2) ^ (1.5:ℝ)
      = 3 * (Real.sin h - h * Real.cos h) / h ^ 3 := by
  have : (h / 2) ^ (1.5:ℝ) ≠ 0 := (Real.rpow_pos_of_pos (by positivity) _).ne'
  have e : ¬ ((1.5:ℝ) = 0.5) := by norm_num
  simp only [witnessSps, if_neg e, one_mul]
  field_simp

end GSV.Props.GenTieCor
