/-
  Law-free specifications of the generated variogram kernels (variogram/estimator.pyx).
  Each output cell equals the kernel's own loop nest specialised to that cell with scalar
  accumulators — for every admissible schedule of the `prange` loops and any carrier `α`.
-/
import GSV.Gen.Estimator
import GSV.Lemmas.Ctl
namespace GSV.Props
open GSV GSV.Transc GSV.Estimator

set_option linter.unusedSectionVars false
variable {α : Type} [Arith α] [Transc α] [DecidableLT α] [DecidableLE α]

/-! ### normalisation -/

def normMatheron (v : α) (c : Int) : α := v / (((2:Nat):α) * ((max c (1:Int) : Int) : α))

def normCressie (v : α) (c : Int) : α :=
  ((0.5:α) * npow (((((1:Nat):α) / ((max c (1:Int) : Int) : α)) * v)) 4) /
    (((0.457:α) + ((0.494:α) / ((max c (1:Int) : Int) : α))) + ((0.045:α) / (((max c (1:Int)) ^ 2 : Int) : α)))

theorem normalization_matheron_spec (v : Nat → α) (n : Nat) (c : Nat → Int) (n' : Nat) (i : Nat) :
    normalization_matheron v n c n' i = if i < n then normMatheron (v i) (c i) else v i := by
  unfold normalization_matheron
  simp only []
  have := foldIdx_owned (fun (s : normalization_matheron.St α) => s.variogram)
    (fun i x => normMatheron x (c i))
    (fun i (st : normalization_matheron.St α) =>
      ({ st with variogram := upd st.variogram i (st.variogram i / (((2:Nat):α) * ((max (c i) (1:Int) : Int) : α))) } : normalization_matheron.St α))
    (by intro i s k hk; simp [upd_other _ _ hk]) (by intro i s; simp [normMatheron])
    (idxRange 0 n) (nodup_idxRange 0 n) ({ variogram := v } : normalization_matheron.St α) i
  simp only [forRange]
  rw [this]
  simp [mem_idxRange]

theorem normalization_cressie_spec (v : Nat → α) (n : Nat) (c : Nat → Int) (n' : Nat) (i : Nat) :
    normalization_cressie v n c n' i = if i < n then normCressie (v i) (c i) else v i := by
  unfold normalization_cressie
  simp only []
  have := foldIdx_owned (fun (s : normalization_cressie.St α) => s.variogram)
    (fun i x => normCressie x (c i))
    (fun i (st : normalization_cressie.St α) =>
      ({ ({ st with cnt := max (c i) (1:Int) } : normalization_cressie.St α) with
          variogram := upd st.variogram i (((0.5:α) * npow (((((1:Nat):α) / ((max (c i) (1:Int) : Int) : α)) * st.variogram i)) 4) /
            (((0.457:α) + ((0.494:α) / ((max (c i) (1:Int) : Int) : α))) + ((0.045:α) / (((max (c i) (1:Int)) ^ 2 : Int) : α)))) } : normalization_cressie.St α))
    (by intro i s k hk; simp [upd_other _ _ hk]) (by intro i s; simp [normCressie])
    (idxRange 0 n) (nodup_idxRange 0 n) ({ cnt := 0, variogram := v } : normalization_cressie.St α) i
  simp only [forRange]
  rw [this]
  simp [mem_idxRange]

/-- the per-cell normalisation selected by the estimator letter -/
def normOf (et : String) (v : α) (c : Int) : α := if (et == "m") = true then normMatheron v c else normCressie v c

theorem choose_normalization_spec (et : String) (v : Nat → α) (n : Nat) (c : Nat → Int) (n' : Nat) (i : Nat) :
    choose_estimator_normalization et v n c n' i = if i < n then normOf et (v i) (c i) else v i := by
  unfold choose_estimator_normalization normOf
  split
  · rw [normalization_matheron_spec]
  · rw [normalization_cressie_spec]


/-! ### isotropic estimator on point lists -/

/-- what the fields contribute for the point pair `(j, k)`: (sum, count) accumulated over the fields -/
def pairAcc (f : Nat → Nat → α) (nf : Nat) (est : α → α) (j k : Nat) (acc : α × Int) : α × Int :=
  forRange 0 nf acc fun m acc =>
    if ¬ (isnan (f m k) = true ∨ isnan (f m j) = true) then (acc.1 + est (f m k - f m j), acc.2 + (1:Int)) else acc

/-- the loop nest of `unstructured` specialised to bin `i` -/
def binCell (f : Nat → Nat → α) (nf : Nat) (est : α → α) (dist : Nat → Nat → α) (bins : Nat → α)
    (np i : Nat) (acc : α × Int) : α × Int :=
  forRange 0 (np - 1) acc fun j acc =>
    forRange (j + 1) np acc fun k acc =>
      if dist j k < bins i ∨ dist j k ≥ bins (i + 1) then acc else pairAcc f nf est j k acc

/-- the distance function selected by the distance letter -/
def distOf (dt : String) (dim : Nat) (pos : Nat → Nat → α) (p0 p1 : Nat) (j k : Nat) : α :=
  if (dt == "e") = true then dist_euclid dim pos p0 p1 j k else dist_haversine dim pos p0 p1 j k

theorem unstructured_spec (sched : Sched) (hs : sched.Admissible)
    (f : Nat → Nat → α) (nf f1 : Nat) (bins : Nat → α) (nb : Nat) (pos : Nat → Nat → α) (dim np : Nat)
    (et dt : String) (i : Nat) :
    ((unstructured sched f nf f1 bins nb pos dim np et dt).1 i, (unstructured sched f nf f1 bins nb pos dim np et dt).2 i) =
      if i < nb - 1 then
        let c := binCell f nf (choose_estimator_func et) (distOf dt dim pos dim np) bins np i (((0:Nat):α), (0:Int))
        (normOf et c.1 c.2, c.2)
      else (((0:Nat):α), (0:Int)) := by
  unfold unstructured
  simp only []
  have hD : ∀ j k, (if (dt == "e") = true then dist_euclid else dist_haversine) dim pos dim np j k =
      distOf dt dim pos dim np j k := by
    intro j k; unfold distOf; split <;> rfl
  simp only [hD]
  generalize hst : parRange sched 0 (nb - 1) _ _ = st
  have key : ∀ i, (st.variogram i, st.counts i) =
      if 0 ≤ i ∧ i < nb - 1 then
        binCell f nf (choose_estimator_func et) (distOf dt dim pos dim np) bins np i (((0:Nat):α), (0:Int))
      else (((0:Nat):α), (0:Int)) := by
    intro i
    rw [← hst]
    refine parRange_owned (fun (s : unstructured.St α) i => (s.variogram i, s.counts i))
      (fun i acc => binCell f nf (choose_estimator_func et) (distOf dt dim pos dim np) bins np i acc) _ ?_ ?_ sched hs 0 (nb - 1) _ i
    · intro i s k hk
      refine forRange_keep (fun (s : unstructured.St α) => (s.variogram k, s.counts k)) _ ?_ _ _ _
      intro j s
      refine forRange_keep (fun (s : unstructured.St α) => (s.variogram k, s.counts k)) _ ?_ _ _ _
      intro k' s
      split
      · rfl
      · refine forRange_keep (fun (s : unstructured.St α) => (s.variogram k, s.counts k)) _ ?_ _ _ _
        intro m s
        split
        · simp [upd_other _ _ hk]
        · rfl
    · intro i s
      unfold binCell
      refine forRange_proj (fun (s : unstructured.St α) => (s.variogram i, s.counts i)) _ _ ?_ _ _ _
      intro j s
      refine forRange_proj (fun (s : unstructured.St α) => (s.variogram i, s.counts i)) _ _ ?_ _ _ _
      intro k s
      split
      · rfl
      · unfold pairAcc
        refine forRange_proj (fun (s : unstructured.St α) => (s.variogram i, s.counts i)) _ _ ?_ _ _ _
        intro m s
        split <;> simp
  have hk := key i
  simp only [Nat.zero_le, true_and] at hk
  rw [choose_normalization_spec]
  by_cases hi : i < nb - 1
  · simp only [hi, if_true] at hk ⊢
    have h1 := congrArg Prod.fst hk
    have h2 := congrArg Prod.snd hk
    simp only [] at h1 h2
    rw [h1, h2]
  · simp only [hi, if_false] at hk ⊢
    exact hk


/-! ### along-axis estimator on regular grids -/

/-- the loop nest of `structured` specialised to lag `k` -/
def structCell (f : Nat → Nat → α) (est : α → α) (n0 n1 k : Nat) (acc : α × Int) : α × Int :=
  forRange 0 (n0 - 1) acc fun i acc =>
    forRange 0 n1 acc fun j acc =>
      if 1 ≤ k ∧ k < n0 - 1 + 1 - i then (acc.1 + est (f i j - f (i + k) j), acc.2 + (1:Int)) else acc

theorem structured_spec (sched : Sched) (hs : sched.Admissible)
    (f : Nat → Nat → α) (n0 n1 : Nat) (et : String) (k : Nat) :
    structured sched f n0 n1 et k =
      if k < n0 - 1 + 1 then
        let c := structCell f (choose_estimator_func et) n0 n1 k (((0:Nat):α), (0:Int))
        normOf et c.1 c.2
      else ((0:Nat):α) := by
  unfold structured
  simp only []
  generalize hst : forRange 0 (n0 - 1) _ _ = st
  have key : (st.variogram k, st.counts k) =
      structCell f (choose_estimator_func et) n0 n1 k (((0:Nat):α), (0:Int)) := by
    rw [← hst]
    unfold structCell
    refine forRange_proj (fun (s : structured.St α) => (s.variogram k, s.counts k)) _ _ ?_ _ _ _
    intro i s
    refine forRange_proj (fun (s : structured.St α) => (s.variogram k, s.counts k)) _ _ ?_ _ _ _
    intro j s
    refine (parRange_owned (fun (s : structured.St α) k => (s.variogram k, s.counts k))
      (fun k acc => (acc.1 + choose_estimator_func et (f i j - f (i + k) j), acc.2 + (1:Int))) _ ?_ ?_ sched hs _ _ s k).trans ?_
    · intro k' s k hk
      simp [upd_other _ _ hk]
    · intro k' s
      simp
    · rfl
  rw [choose_normalization_spec]
  have h1 := congrArg Prod.fst key
  have h2 := congrArg Prod.snd key
  simp only [] at h1 h2
  rw [h1, h2]
  split
  · rfl
  · -- untouched cell: still the initial zero
    rename_i hk
    rw [← h1, ← hst]
    have : ∀ (s : structured.St α), s.variogram k = ((0:Nat):α) →
        (forRange 0 (n0 - 1) s fun i (st : structured.St α) =>
          forRange 0 n1 st fun j (st : structured.St α) =>
            parRange sched (1:Nat) (n0 - 1 + 1 - i) st fun k (st : structured.St α) =>
              ({ ({ st with counts := upd st.counts k (st.counts k + (1:Int)) } : structured.St α) with
                 variogram := upd st.variogram k (st.variogram k + choose_estimator_func et (f i j - f (i + k) j)) } : structured.St α)).variogram k
          = ((0:Nat):α) := by
      intro s h0
      rw [forRange_keep (fun (s : structured.St α) => s.variogram k) _ ?_ _ _ _]
      · exact h0
      · intro i s
        refine forRange_keep (fun (s : structured.St α) => s.variogram k) _ ?_ _ _ _
        intro j s
        refine (parRange_owned (fun (s : structured.St α) k => s.variogram k)
          (fun k acc => acc + choose_estimator_func et (f i j - f (i + k) j)) _ ?_ ?_ sched hs _ _ s k).trans ?_
        · intro k' s k hk'
          simp [upd_other _ _ hk']
        · intro k' s
          simp
        · have : ¬ ((1:Nat) ≤ k ∧ k < n0 - 1 + 1 - i) := by omega
          simp [this]
    exact this _ rfl

/-- the loop nest of `ma_structured` specialised to lag `k` -/
def maStructCell (f : Nat → Nat → α) (mask : Nat → Nat → Nat) (est : α → α) (n0 n1 k : Nat) (acc : α × Int) : α × Int :=
  forRange 0 (n0 - 1) acc fun i acc =>
    forRange 0 n1 acc fun j acc =>
      if 1 ≤ k ∧ k < n0 - 1 + 1 - i then
        (if mask i j = 0 ∧ mask (i + k) j = 0 then (acc.1 + est (f i j - f (i + k) j), acc.2 + (1:Int)) else acc)
      else acc

theorem ma_structured_spec (sched : Sched) (hs : sched.Admissible)
    (f : Nat → Nat → α) (n0 n1 : Nat) (mask : Nat → Nat → Nat) (m0 m1 : Nat) (et : String) (k : Nat) :
    ma_structured sched f n0 n1 mask m0 m1 et k =
      if k < n0 - 1 + 1 then
        let c := maStructCell f mask (choose_estimator_func et) n0 n1 k (((0:Nat):α), (0:Int))
        normOf et c.1 c.2
      else ((0:Nat):α) := by
  unfold ma_structured
  simp only []
  generalize hst : forRange 0 (n0 - 1) _ _ = st
  have key : (st.variogram k, st.counts k) =
      maStructCell f mask (choose_estimator_func et) n0 n1 k (((0:Nat):α), (0:Int)) := by
    rw [← hst]
    unfold maStructCell
    refine forRange_proj (fun (s : ma_structured.St α) => (s.variogram k, s.counts k)) _ _ ?_ _ _ _
    intro i s
    refine forRange_proj (fun (s : ma_structured.St α) => (s.variogram k, s.counts k)) _ _ ?_ _ _ _
    intro j s
    refine (parRange_owned (fun (s : ma_structured.St α) k => (s.variogram k, s.counts k))
      (fun k acc => if mask i j = 0 ∧ mask (i + k) j = 0 then
        (acc.1 + choose_estimator_func et (f i j - f (i + k) j), acc.2 + (1:Int)) else acc) _ ?_ ?_ sched hs _ _ s k).trans ?_
    · intro k' s k hk
      split
      · simp [upd_other _ _ hk]
      · rfl
    · intro k' s
      split <;> simp
    · rfl
  rw [choose_normalization_spec]
  have h1 := congrArg Prod.fst key
  have h2 := congrArg Prod.snd key
  simp only [] at h1 h2
  rw [h1, h2]
  split
  · rfl
  · rename_i hk
    rw [← h1, ← hst]
    rw [forRange_keep (fun (s : ma_structured.St α) => s.variogram k) _ ?_ _ _ _]
    intro i s
    refine forRange_keep (fun (s : ma_structured.St α) => s.variogram k) _ ?_ _ _ _
    intro j s
    refine (parRange_owned (fun (s : ma_structured.St α) k => s.variogram k)
      (fun k acc => if mask i j = 0 ∧ mask (i + k) j = 0 then
        acc + choose_estimator_func et (f i j - f (i + k) j) else acc) _ ?_ ?_ sched hs _ _ s k).trans ?_
    · intro k' s k hk'
      split
      · simp [upd_other _ _ hk']
      · rfl
    · intro k' s
      split <;> simp
    · have : ¬ ((1:Nat) ≤ k ∧ k < n0 - 1 + 1 - i) := by omega
      simp [this]


/-! ### directional estimator -/

def normOfVecRow (et : String) (v : Nat → α) (n : Nat) (c : Nat → Int) (i : Nat) : α :=
  if i < n then normOf et (v i) (c i) else v i

theorem normalization_matheron_vec_spec (v : Nat → Nat → α) (nd n : Nat) (c : Nat → Nat → Int) (c0 c1 : Nat) (d i : Nat) :
    normalization_matheron_vec v nd n c c0 c1 d i =
      if d < nd then (if i < n then normMatheron (v d i) (c d i) else v d i) else v d i := by
  unfold normalization_matheron_vec
  simp only []
  have := foldIdx_owned (fun (s : normalization_matheron_vec.St α) => s.variogram)
    (fun d row => fun i => if i < n then normMatheron (row i) (c d i) else row i)
    (fun d (st : normalization_matheron_vec.St α) =>
      ({ st with variogram := setRow st.variogram d (normalization_matheron (st.variogram d) n (c d) c1) } : normalization_matheron_vec.St α))
    (by intro d s k hk; simp [setRow_apply, hk])
    (by intro d s; funext i; simp [setRow_apply, normalization_matheron_spec])
    (idxRange 0 nd) (nodup_idxRange 0 nd) ({ variogram := v } : normalization_matheron_vec.St α) d
  simp only [forRange]
  rw [this]
  simp only [mem_idxRange, Nat.zero_le, true_and]
  split <;> rfl

theorem normalization_cressie_vec_spec (v : Nat → Nat → α) (nd n : Nat) (c : Nat → Nat → Int) (c0 c1 : Nat) (d i : Nat) :
    normalization_cressie_vec v nd n c c0 c1 d i =
      if d < nd then (if i < n then normCressie (v d i) (c d i) else v d i) else v d i := by
  unfold normalization_cressie_vec
  simp only []
  have := foldIdx_owned (fun (s : normalization_cressie_vec.St α) => s.variogram)
    (fun d row => fun i => if i < n then normCressie (row i) (c d i) else row i)
    (fun d (st : normalization_cressie_vec.St α) =>
      ({ st with variogram := setRow st.variogram d (normalization_cressie (st.variogram d) n (c d) c1) } : normalization_cressie_vec.St α))
    (by intro d s k hk; simp [setRow_apply, hk])
    (by intro d s; funext i; simp [setRow_apply, normalization_cressie_spec])
    (idxRange 0 nd) (nodup_idxRange 0 nd) ({ variogram := v } : normalization_cressie_vec.St α) d
  simp only [forRange]
  rw [this]
  simp only [mem_idxRange, Nat.zero_le, true_and]
  split <;> rfl

theorem choose_normalization_vec_spec (et : String) (v : Nat → Nat → α) (nd n : Nat) (c : Nat → Nat → Int) (c0 c1 : Nat) (d i : Nat) :
    choose_estimator_normalization_vec et v nd n c c0 c1 d i =
      if d < nd then (if i < n then normOf et (v d i) (c d i) else v d i) else v d i := by
  unfold choose_estimator_normalization_vec normOf
  split
  · rw [normalization_matheron_vec_spec]
  · rw [normalization_cressie_vec_spec]

/-- the direction test of the kernel for the pair `(j, k)` at distance `ds` and direction `d` -/
def dirOK (dim : Nat) (pos : Nat → Nat → α) (np : Nat) (direction : Nat → Nat → α) (nd dc : Nat)
    (tol bw : α) (ds : α) (j k d : Nat) : Prop :=
  dir_test dim pos dim np ds direction nd dc tol bw k j d = true

instance (dim : Nat) (pos : Nat → Nat → α) (np : Nat) (direction : Nat → Nat → α) (nd dc : Nat)
    (tol bw : α) (ds : α) (j k d : Nat) : Decidable (dirOK dim pos np direction nd dc tol bw ds j k d) := by
  unfold dirOK; infer_instance

/-- the loop nest of `directional` specialised to direction `d` and bin `i`.
    With `sep` (separated directions) a pair is credited to the *first* listed direction that accepts it. -/
def dirCell (f : Nat → Nat → α) (nf : Nat) (est : α → α) (dim : Nat) (pos : Nat → Nat → α) (np : Nat)
    (bins : Nat → α) (direction : Nat → Nat → α) (nd dc : Nat) (tol bw : α) (sep : Bool)
    (d i : Nat) (acc : α × Int) : α × Int :=
  forRange 0 (np - 1) acc fun j acc =>
    forRange (j + 1) np acc fun k acc =>
      if dist_euclid dim pos dim np j k < bins i ∨ dist_euclid dim pos dim np j k ≥ bins (i + 1) then acc else
        if d < nd ∧ dirOK dim pos np direction nd dc tol bw (dist_euclid dim pos dim np j k) j k d ∧
            (sep = true → ∀ d', d' < d → ¬ dirOK dim pos np direction nd dc tol bw (dist_euclid dim pos dim np j k) j k d')
        then pairAcc f nf est j k acc else acc

theorem directional_spec (sched : Sched) (hs : sched.Admissible)
    (f : Nat → Nat → α) (nf f1 : Nat) (bins : Nat → α) (nb : Nat) (pos : Nat → Nat → α) (dim np : Nat)
    (direction : Nat → Nat → α) (nd dc : Nat) (tol bw : α) (sep : Bool) (et : String) (d i : Nat) :
    ((directional sched f nf f1 bins nb pos dim np direction nd dc tol bw sep et).1 d i,
     (directional sched f nf f1 bins nb pos dim np direction nd dc tol bw sep et).2 d i) =
      if i < nb - 1 then
        let c := dirCell f nf (choose_estimator_func et) dim pos np bins direction nd dc tol bw sep d i (((0:Nat):α), (0:Int))
        ((if d < nd then normOf et c.1 c.2 else c.1), c.2)
      else (((0:Nat):α), (0:Int)) := by
  unfold directional
  simp only []
  generalize hst : parRange sched 0 (nb - 1) _ _ = st
  have key : ∀ i, (fun d => (st.variogram d i, st.counts d i)) =
      if 0 ≤ i ∧ i < nb - 1 then
        (fun d => dirCell f nf (choose_estimator_func et) dim pos np bins direction nd dc tol bw sep d i (((0:Nat):α), (0:Int)))
      else (fun _ => (((0:Nat):α), (0:Int))) := by
    intro i
    rw [← hst]
    refine parRange_owned (fun (s : directional.St α) i => (fun d => (s.variogram d i, s.counts d i)))
      (fun i col => fun d => dirCell f nf (choose_estimator_func et) dim pos np bins direction nd dc tol bw sep d i (col d))
      _ ?_ ?_ sched hs 0 (nb - 1) _ i
    · intro i s k hk
      funext d
      refine forRange_keep (fun (s : directional.St α) => (s.variogram d k, s.counts d k)) _ ?_ _ _ _
      intro j s
      refine forRange_keep (fun (s : directional.St α) => (s.variogram d k, s.counts d k)) _ ?_ _ _ _
      intro k' s
      split
      · rfl
      · refine forRangeBrk_keep (fun (s : directional.St α) => (s.variogram d k, s.counts d k)) _ ?_ _ _ _
        intro d' s
        split
        · rfl
        · refine forRange_keep (fun (s : directional.St α) => (s.variogram d k, s.counts d k)) _ ?_ _ _ _
          intro m s
          split
          · simp [upd2_apply, hk]
          · rfl
    · intro i s
      funext d
      unfold dirCell
      refine forRange_proj (fun (s : directional.St α) => (s.variogram d i, s.counts d i)) _ _ ?_ _ _ _
      intro j s
      refine forRange_proj (fun (s : directional.St α) => (s.variogram d i, s.counts d i)) _ _ ?_ _ _ _
      intro k s
      split
      · rfl
      · have := forRangeBrk_first_hit
          (fun (s : directional.St α) d => (s.variogram d i, s.counts d i))
          (fun (s : directional.St α) d => dirOK dim pos np direction nd dc tol bw s.dist j k d) sep
          (fun d (st : directional.St α) => forRange 0 nf st fun m (st : directional.St α) =>
            if ¬ (isnan (f m k) = true ∨ isnan (f m j) = true) then
              ({ ({ st with counts := upd2 st.counts d i (st.counts d i + (1:Int)) } : directional.St α) with
                  variogram := upd2 st.variogram d i (st.variogram d i + choose_estimator_func et (f m k - f m j)) } : directional.St α)
            else st)
          (fun d acc => pairAcc f nf (choose_estimator_func et) j k acc)
          ?_ ?_ ?_ nd ({ s with dist := dist_euclid dim pos dim np j k } : directional.St α) d
        · exact this
        · intro d' s k' hk'
          refine forRange_keep (fun (s : directional.St α) => (s.variogram k' i, s.counts k' i)) _ ?_ _ _ _
          intro m s
          split
          · simp [upd2_apply, hk']
          · rfl
        · intro d' s
          unfold pairAcc
          refine forRange_proj (fun (s : directional.St α) => (s.variogram d' i, s.counts d' i)) _ _ ?_ _ _ _
          intro m s
          split <;> simp [upd2_apply]
        · intro d' s d''
          have : (forRange 0 nf s fun m (st : directional.St α) =>
            if ¬ (isnan (f m k) = true ∨ isnan (f m j) = true) then
              ({ ({ st with counts := upd2 st.counts d' i (st.counts d' i + (1:Int)) } : directional.St α) with
                  variogram := upd2 st.variogram d' i (st.variogram d' i + choose_estimator_func et (f m k - f m j)) } : directional.St α)
            else st).dist = s.dist := by
            refine forRange_keep (fun (s : directional.St α) => s.dist) _ ?_ _ _ _
            intro m s
            split <;> rfl
          simp only [this]
  have hk := congrFun (key i) d
  simp only [Nat.zero_le, true_and] at hk
  rw [choose_normalization_vec_spec]
  by_cases hi : i < nb - 1
  · simp only [hi, if_true] at hk ⊢
    have h1 := congrArg Prod.fst hk
    have h2 := congrArg Prod.snd hk
    simp only [] at h1 h2
    rw [h1, h2]
  · simp only [hi, if_false] at hk ⊢
    have h1 := congrArg Prod.fst hk
    have h2 := congrArg Prod.snd hk
    simp only [] at h1 h2
    rw [h1, h2]
    simp

end GSV.Props
