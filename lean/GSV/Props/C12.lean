/-
  C12 — anisotropy and rotation act as a linear change of coordinates.

  All theorems are about the executable definitions of `GSV.Model.Geo` (the statement-by-statement
  model of `gstools/tools/geometric.py` and of `CovModel.isometrize / anisometrize / main_axes /
  _get_iso_rad`, `Field.pre_pos`), instantiated at `ℝ`.  `toM d A` is the `d × d` block of a model
  matrix as a Mathlib `Matrix (Fin d) (Fin d) ℝ`, `toV d x` the first `d` entries of a model vector.
  Every theorem holds for every dimension `d` and every angle / anisotropy list unless it says `2`,
  `3` or `4` explicitly.
-/
import GSV.Lemmas.Geo
import Mathlib.LinearAlgebra.Matrix.Notation
import Mathlib.Data.Matrix.Reflection
import Mathlib.Tactic.FinCases
import Mathlib.Tactic.NormNum
namespace GSV.Props.C12
open GSV GSV.Model.Geo GSV.Lemmas.Geo Matrix

set_option linter.unusedSimpArgs false

/-! ## Givens rotations -/

/-- `givens_rotation(dim, (p, q), a)` with `p ≠ q` inside the dimension is orthogonal with
    determinant one (any dimension, any angle). -/
theorem givens_orthogonal {d p q : Nat} (hp : p < d) (hq : q < d) (hpq : p ≠ q) (a : ℝ) :
    toM d (givens (p, q) a) * (toM d (givens (p, q) a))ᵀ = 1 ∧
    (toM d (givens (p, q) a))ᵀ * toM d (givens (p, q) a) = 1 ∧
    (toM d (givens (p, q) a)).det = 1 := by
  have hne : (⟨p, hp⟩ : Fin d) ≠ ⟨q, hq⟩ := fun e => hpq (congrArg Fin.val e)
  rw [toM_givens hp hq hpq]
  exact ⟨givM_mul_transpose hne a, givM_transpose_mul hne a, givM_det hne a⟩

theorem givens_special_orthogonal {d p q : Nat} (hp : p < d) (hq : q < d) (hpq : p ≠ q) (a : ℝ) :
    toM d (givens (p, q) a) ∈ Matrix.specialOrthogonalGroup (Fin d) ℝ := by
  rw [toM_givens hp hq hpq]
  exact givM_mem_special (fun e => hpq (congrArg Fin.val e)) a

example : (0 : Nat) < 3 ∧ (2 : Nat) < 3 ∧ (0 : Nat) ≠ 2 := by decide

/-- rotations in one plane compose by adding their angles; angle `0` is the identity and the
    negative angle is the transpose — the facts `matrix_derotate` relies on. -/
theorem givens_add {d p q : Nat} (hp : p < d) (hq : q < d) (hpq : p ≠ q) (a b : ℝ) :
    toM d (givens (p, q) a) * toM d (givens (p, q) b) = toM d (givens (p, q) (a + b)) ∧
    toM d (givens (p, q) (0:ℝ)) = 1 ∧
    toM d (givens (p, q) (-a)) = (toM d (givens (p, q) a))ᵀ := by
  have hne : (⟨p, hp⟩ : Fin d) ≠ ⟨q, hq⟩ := fun e => hpq (congrArg Fin.val e)
  simp only [toM_givens hp hq hpq]
  exact ⟨givM_mul hne a b, givM_zero _ _, (givM_transpose hne a).symm⟩

/-! ## rotation planes and angle counts -/

/-- `rotation_planes(dim)` lists every pair `i < j < dim` exactly once, `no_of_angles(dim)` of them. -/
theorem planes_spec (d : Nat) :
    (∀ p : Nat × Nat, p ∈ rotationPlanes d ↔ p.1 < p.2 ∧ p.2 < d) ∧
    (rotationPlanes d).Nodup ∧ (rotationPlanes d).length = noOfAngles d :=
  ⟨fun _ => mem_rotationPlanes, nodup_rotationPlanes d, length_rotationPlanes d⟩

/-! ## `matrix_rotate` / `matrix_derotate` -/

/-- the composition order of `matrix_rotate`, every dimension: with `(plane_k, s_k a_k)` the
    `k`-th entry of `enumerate(zip(angles, planes))` (sign `s_k = (-1)^k`),
    `R = G_{n-1} ⋯ G_1 · G_0`. -/
theorem rotate_eq_prod (d : Nat) (angles : List ℝ) :
    toM d (matrixRotate d angles)
      = (((signedSeq d (setAngles d angles)).map fun p => toM d (givens p.1 p.2)).reverse).prod := by
  rw [matrixRotate, toM_foldl_rotate, toM_ofArr_tabArr, toM_eye, mul_one]; rfl

/-- and of `matrix_derotate`: `D = G_0(-s_0 a_0) · G_1(-s_1 a_1) ⋯ G_{n-1}(-s_{n-1} a_{n-1})`. -/
theorem derotate_eq_prod (d : Nat) (angles : List ℝ) :
    toM d (matrixDerotate d angles)
      = ((signedSeq d (setAngles d angles)).map fun p => toM d (givens p.1 (-p.2))).prod := by
  rw [matrixDerotate, toM_foldl_derotate, toM_ofArr_tabArr, toM_eye, one_mul, signedSeq_neg, List.map_map]; rfl

/-- `matrix_rotate(dim, angles)` is a proper orthogonal matrix for every dimension and every
    angle vector (too short, too long or empty lists included). -/
theorem rotate_special_orthogonal (d : Nat) (angles : List ℝ) :
    toM d (matrixRotate d angles) ∈ Matrix.specialOrthogonalGroup (Fin d) ℝ := by
  rw [matrixRotate, toM_foldl_rotate, toM_ofArr_tabArr, toM_eye, mul_one]
  apply Submonoid.list_prod_mem
  intro m hm
  simp only [List.mem_reverse, List.mem_map] at hm
  obtain ⟨p, hp, rfl⟩ := hm
  exact gM_mem_special (signedSeq_valid d _ p hp)

theorem rotate_orthogonal (d : Nat) (angles : List ℝ) :
    toM d (matrixRotate d angles) * (toM d (matrixRotate d angles))ᵀ = 1 ∧
    (toM d (matrixRotate d angles))ᵀ * toM d (matrixRotate d angles) = 1 ∧
    (toM d (matrixRotate d angles)).det = 1 := by
  have h := Matrix.mem_specialOrthogonalGroup_iff.1 (rotate_special_orthogonal d angles)
  exact ⟨(Matrix.mem_orthogonalGroup_iff _ _).1 h.1, (Matrix.mem_orthogonalGroup_iff' _ _).1 h.1, h.2⟩

/-- `matrix_derotate` is the transpose of `matrix_rotate` … -/
theorem derotate_eq_transpose (d : Nat) (angles : List ℝ) :
    toM d (matrixDerotate d angles) = (toM d (matrixRotate d angles))ᵀ := by
  rw [matrixDerotate, toM_foldl_derotate, toM_ofArr_tabArr, toM_eye, one_mul, matrixRotate,
    toM_foldl_rotate, toM_ofArr_tabArr, toM_eye, mul_one, signedSeq_neg, ← prod_map_transpose, List.map_map, List.map_map]
  congr 1
  apply List.map_congr_left
  intro p hp
  exact gM_neg (signedSeq_valid d _ p hp)

/-- … hence its two-sided inverse (telescoping over the plane list). -/
theorem derotate_is_inverse (d : Nat) (angles : List ℝ) :
    toM d (matrixDerotate d angles) * toM d (matrixRotate d angles) = 1 ∧
    toM d (matrixRotate d angles) * toM d (matrixDerotate d angles) = 1 := by
  rw [derotate_eq_transpose]
  exact ⟨(rotate_orthogonal d angles).2.1, (rotate_orthogonal d angles).1⟩

/-- the main axes (`rotated_main_axes`, rows of `Rᵀ`) are orthonormal -/
theorem main_axes_orthonormal (d : Nat) (angles : List ℝ) (i j : Fin d) :
    toV d (mainAxes d angles i) ⬝ᵥ toV d (mainAxes d angles j) = if i = j then 1 else 0 := by
  have h := (rotate_orthogonal d angles).2.1
  have := congrFun (congrFun h i) j
  simpa [Matrix.mul_apply, Matrix.one_apply, dotProduct, mainAxes, Model.Geo.transpose] using this

/-! ## stretching, `matrix_isometrize` / `matrix_anisometrize` -/

/-- what the two transformation matrices are: `S⁻¹ Rᵀ` and `R S` with `S = diag(1, anis…)` -/
theorem iso_aniso_factor (d : Nat) (angles anis : List ℝ) :
    toM d (matrixIsometrize d angles anis)
      = Matrix.diagonal (fun i => 1 / stretch d anis i) * (toM d (matrixRotate d angles))ᵀ ∧
    toM d (matrixAnisometrize d angles anis)
      = toM d (matrixRotate d angles) * Matrix.diagonal (stretch d anis) := by
  rw [matrixIsometrize, toM_matmul, toM_isotropify, derotate_eq_transpose, matrixAnisometrize, toM_matmul,
    toM_anisotropify]
  exact ⟨rfl, rfl⟩

/-- transforming to isotropic coordinates and transforming forth are mutually inverse whenever all
    anisotropy ratios are positive (every dimension, every angle vector, every list length). -/
theorem iso_aniso_inverse (d : Nat) (angles anis : List ℝ) (h : ∀ a ∈ anis, 0 < a) :
    toM d (matrixIsometrize d angles anis) * toM d (matrixAnisometrize d angles anis) = 1 ∧
    toM d (matrixAnisometrize d angles anis) * toM d (matrixIsometrize d angles anis) = 1 := by
  obtain ⟨h1, h2⟩ := iso_aniso_factor d angles anis
  have hs : ∀ i, stretch d anis i ≠ 0 := fun i => (stretch_pos h i).ne'
  have hd1 : Matrix.diagonal (fun i => 1 / stretch d anis i) * Matrix.diagonal (stretch d anis) = 1 := by
    rw [Matrix.diagonal_mul_diagonal, ← Matrix.diagonal_one]
    congr 1; funext i; field_simp [hs i]
  have hd2 : Matrix.diagonal (stretch d anis) * Matrix.diagonal (fun i => 1 / stretch d anis i) = 1 := by
    rw [Matrix.diagonal_mul_diagonal, ← Matrix.diagonal_one]
    congr 1; funext i; field_simp [hs i]
  obtain ⟨o1, o2, _⟩ := rotate_orthogonal d angles
  rw [h1, h2]
  constructor
  · rw [Matrix.mul_assoc, ← Matrix.mul_assoc _ (toM d (matrixRotate d angles)), o2, Matrix.one_mul, hd1]
  · rw [Matrix.mul_assoc, ← Matrix.mul_assoc (Matrix.diagonal (stretch d anis)), hd2, Matrix.one_mul, o1]

example : ∀ a ∈ ([0.5, 2] : List ℝ), 0 < a := by simp; norm_num

/-- the same on positions: `CovModel.anisometrize ∘ isometrize = id = isometrize ∘ anisometrize` -/
theorem iso_aniso_roundtrip (d : Nat) (angles anis : List ℝ) (h : ∀ a ∈ anis, 0 < a) (x : Nat → ℝ) :
    toV d (anisometrize d angles anis (isometrize d angles anis x)) = toV d x ∧
    toV d (isometrize d angles anis (anisometrize d angles anis x)) = toV d x := by
  obtain ⟨h1, h2⟩ := iso_aniso_inverse d angles anis h
  simp only [anisometrize, isometrize, toV_applyMat, Matrix.mulVec_mulVec, h1, h2, Matrix.one_mulVec, and_self]

/-- `isometrize` is a linear map of the position -/
theorem isometrize_linear (d : Nat) (angles anis : List ℝ) (a b : ℝ) (x y : Nat → ℝ) :
    toV d (isometrize d angles anis fun k => a * x k + b * y k)
      = a • toV d (isometrize d angles anis x) + b • toV d (isometrize d angles anis y) := by
  simp only [isometrize, toV_applyMat]
  have : toV d (fun k => a * x k + b * y k) = a • toV d x + b • toV d y := by
    funext i; simp [toV]
  rw [this, Matrix.mulVec_add, Matrix.mulVec_smul, Matrix.mulVec_smul]

/-! ## main axes -/

/-- `t` times the `i`-th main axis is mapped to `t / anis[i-1]` times the `i`-th unit vector -/
theorem isometrize_main_axis (d : Nat) (angles anis : List ℝ) (i : Fin d) (t : ℝ) :
    toV d (isometrize d angles anis fun k => t * mainAxes d angles i k)
      = Pi.single i (t / stretch d anis i) := by
  obtain ⟨_, o2, _⟩ := rotate_orthogonal d angles
  have hx : toV d (fun k => t * mainAxes d angles i k)
      = t • (toM d (matrixRotate d angles) *ᵥ Pi.single i 1) := by
    funext k
    simp [toV, mainAxes, Model.Geo.transpose, Matrix.mulVec_single_one]
  rw [isometrize, toV_applyMat, (iso_aniso_factor d angles anis).1, hx, Matrix.mulVec_smul,
    ← Matrix.mulVec_mulVec, Matrix.mulVec_mulVec _ (toM d (matrixRotate d angles))ᵀ, o2, Matrix.one_mulVec]
  funext j
  by_cases hji : j = i
  · subst hji; simp [Matrix.mulVec_diagonal]; ring
  · simp [Matrix.mulVec_diagonal, hji]

/-- **length scale along a main axis**: `‖isometrize(t · axis_i)‖ = |t| / s_i` with
    `s = [1] ++ set_anis(dim, anis)`, i.e. along the `i`-th rotated main axis the model behaves like
    the isotropic model with length scale `len_scale · anis[i-1]`. -/
theorem main_axis_scale (d : Nat) (angles anis : List ℝ) (h : ∀ a ∈ anis, 0 < a) (i : Fin d) (t : ℝ) :
    isoRad d angles anis (fun k => t * mainAxes d angles i k)
      = |t| / (1 :: setAnis d anis)[(i : Nat)]'(by
          have := i.2; simp only [List.length_cons, length_setAnis]; omega) := by
  rw [← stretch_eq_getElem, isoRad, norm2_eq, isometrize_main_axis]
  have hs := stretch_pos h i
  simp only [dotProduct_single, Pi.single_eq_same, mul_one]
  rw [← pow_two, Real.sqrt_sq_eq_abs, abs_div, abs_of_pos hs]

/-! ## explicit conventions in 2-D, 3-D and 4-D -/

/-- entries of a Givens rotation with `p ≠ q` (the four writes do not overlap) -/
theorem givens_entries {p q : Nat} (hpq : p ≠ q) (a : ℝ) (i j : Nat) :
    givens (p, q) a i j =
      if i = p ∧ j = p then Real.cos a else if i = q ∧ j = q then Real.cos a
      else if i = p ∧ j = q then -Real.sin a else if i = q ∧ j = p then Real.sin a
      else if i = j then 1 else 0 := by
  simp only [givens, upd2, eye, cos_real, sin_real, Nat.cast_one, Nat.cast_zero]
  by_cases h1 : i = p <;> by_cases h2 : j = p <;> by_cases h3 : i = q <;> by_cases h4 : j = q <;>
    simp_all

theorem rotationPlanes_two : rotationPlanes 2 = [(0, 1)] := by decide
theorem rotationPlanes_three : rotationPlanes 3 = [(0, 1), (0, 2), (1, 2)] := by decide
theorem rotationPlanes_four : rotationPlanes 4 = [(0, 1), (0, 2), (1, 2), (0, 3), (1, 3), (2, 3)] := by decide

/-- **2-D**: one angle, counter-clockwise about `z`: `R = [[c, -s], [s, c]]`; the first main axis is
    `(cos a, sin a)`.  Surplus angles are ignored. -/
theorem rot2d_ccw (a : ℝ) (rest : List ℝ) :
    toM 2 (matrixRotate 2 (a :: rest)) = !![Real.cos a, -Real.sin a; Real.sin a, Real.cos a] := by
  rw [rotate_eq_prod]
  have h : signedSeq 2 (setAngles 2 (a :: rest)) = [((0, 1), (((-1:Int)^0 : Int) : ℝ) * a)] := by
    simp [signedSeq, setAngles, noOfAngles, rotationPlanes_two, List.zipIdx]
  rw [h]
  ext i j
  fin_cases i <;> fin_cases j <;> simp [toM, givens, upd2, eye]

/-- the standard right-handed elemental rotations -/
noncomputable def Rz (a : ℝ) : Matrix (Fin 3) (Fin 3) ℝ :=
  !![Real.cos a, -Real.sin a, 0; Real.sin a, Real.cos a, 0; 0, 0, 1]
noncomputable def Ry (a : ℝ) : Matrix (Fin 3) (Fin 3) ℝ :=
  !![Real.cos a, 0, Real.sin a; 0, 1, 0; -Real.sin a, 0, Real.cos a]
noncomputable def Rx (a : ℝ) : Matrix (Fin 3) (Fin 3) ℝ :=
  !![1, 0, 0; 0, Real.cos a, -Real.sin a; 0, Real.sin a, Real.cos a]

/-- **3-D**: the code produces `R = R_x(roll) · R_y(pitch) · R_z(yaw)` with the standard
    right-handed elemental rotations (the alternating sign turns the `(0,2)`-plane Givens rotation
    into the right-handed `R_y`): yaw about `z` is applied first, then pitch about the fixed `y`,
    then roll about the fixed `x` axis. -/
theorem rot3d_tait_bryan (yaw pitch roll : ℝ) (rest : List ℝ) :
    toM 3 (matrixRotate 3 (yaw :: pitch :: roll :: rest)) = Rx roll * Ry pitch * Rz yaw := by
  rw [rotate_eq_prod]
  have h : signedSeq 3 (setAngles 3 (yaw :: pitch :: roll :: rest))
      = [((0, 1), (((-1:Int)^0 : Int) : ℝ) * yaw), ((0, 2), (((-1:Int)^1 : Int) : ℝ) * pitch),
         ((1, 2), (((-1:Int)^2 : Int) : ℝ) * roll)] := by
    simp [signedSeq, setAngles, noOfAngles, rotationPlanes_three, List.zipIdx]
  rw [h]
  have hx : toM 3 (givens (1, 2) ((((-1:Int)^2 : Int) : ℝ) * roll)) = Rx roll := by
    ext i j; fin_cases i <;> fin_cases j <;> simp [toM, givens, upd2, eye, Rx]
  have hy : toM 3 (givens (0, 2) ((((-1:Int)^1 : Int) : ℝ) * pitch)) = Ry pitch := by
    ext i j; fin_cases i <;> fin_cases j <;> simp [toM, givens, upd2, eye, Ry]
  have hz : toM 3 (givens (0, 1) ((((-1:Int)^0 : Int) : ℝ) * yaw)) = Rz yaw := by
    ext i j; fin_cases i <;> fin_cases j <;> simp [toM, givens, upd2, eye, Rz]
  simp only [List.map_cons, List.map_nil, List.reverse_cons, List.reverse_nil, List.nil_append,
    List.cons_append, List.prod_cons, List.prod_nil, mul_one, hx, hy, hz, Matrix.mul_assoc]

/-- the same matrix written out -/
theorem rot3d_entries (y p r : ℝ) :
    toM 3 (matrixRotate 3 [y, p, r]) =
      !![Real.cos p * Real.cos y, -(Real.cos p * Real.sin y), Real.sin p;
         Real.cos r * Real.sin y + Real.sin r * Real.sin p * Real.cos y,
           Real.cos r * Real.cos y - Real.sin r * Real.sin p * Real.sin y, -(Real.sin r * Real.cos p);
         Real.sin r * Real.sin y - Real.cos r * Real.sin p * Real.cos y,
           Real.sin r * Real.cos y + Real.cos r * Real.sin p * Real.sin y, Real.cos r * Real.cos p] := by
  rw [rot3d_tait_bryan]
  ext i j
  fin_cases i <;> fin_cases j <;>
    simp [Rx, Ry, Rz, Matrix.mul_apply, Fin.sum_univ_three] <;> ring

/-- **4-D**: six Givens rotations in the planes `(0,1),(0,2),(1,2),(0,3),(1,3),(2,3)`, signs
    `+ − + − + −`, later planes applied later (further left). -/
theorem rot4d_order (a0 a1 a2 a3 a4 a5 : ℝ) (rest : List ℝ) :
    toM 4 (matrixRotate 4 (a0 :: a1 :: a2 :: a3 :: a4 :: a5 :: rest)) =
      toM 4 (givens (2, 3) (-a5)) * (toM 4 (givens (1, 3) a4) * (toM 4 (givens (0, 3) (-a3)) *
        (toM 4 (givens (1, 2) a2) * (toM 4 (givens (0, 2) (-a1)) * toM 4 (givens (0, 1) a0))))) := by
  rw [rotate_eq_prod]
  have h : signedSeq 4 (setAngles 4 (a0 :: a1 :: a2 :: a3 :: a4 :: a5 :: rest))
      = [((0, 1), a0), ((0, 2), -a1), ((1, 2), a2), ((0, 3), -a3), ((1, 3), a4), ((2, 3), -a5)] := by
    simp [signedSeq, setAngles, noOfAngles, rotationPlanes_four, List.zipIdx]
    norm_num
  rw [h]
  simp only [List.map_cons, List.map_nil, List.reverse_cons, List.reverse_nil, List.nil_append,
    List.cons_append, List.prod_cons, List.prod_nil, mul_one, Matrix.mul_assoc]

/-- in 2-D the main axes are the coordinate axes turned counter-clockwise by the angle -/
theorem main_axes_2d (a : ℝ) :
    toV 2 (mainAxes 2 [a] 0) = ![Real.cos a, Real.sin a] ∧
    toV 2 (mainAxes 2 [a] 1) = ![-Real.sin a, Real.cos a] := by
  have h := rot2d_ccw a []
  constructor
  · rw [show toV 2 (mainAxes 2 [a] 0) = fun k => toM 2 (matrixRotate 2 [a]) k 0 from rfl, h]
    funext k; fin_cases k <;> simp
  · rw [show toV 2 (mainAxes 2 [a] 1) = fun k => toM 2 (matrixRotate 2 [a]) k 1 from rfl, h]
    funext k; fin_cases k <;> simp

/-- in 3-D a pure yaw turns the first two main axes counter-clockwise about `z` and keeps `z` -/
theorem main_axes_3d_yaw (y : ℝ) :
    toV 3 (mainAxes 3 [y] 0) = ![Real.cos y, Real.sin y, 0] ∧
    toV 3 (mainAxes 3 [y] 1) = ![-Real.sin y, Real.cos y, 0] ∧
    toV 3 (mainAxes 3 [y] 2) = ![0, 0, 1] := by
  have hpad : matrixRotate 3 [y] = matrixRotate 3 [y, 0, 0] := by
    simp [matrixRotate, setAngles, noOfAngles]
  have h := rot3d_entries y 0 0
  simp only [mainAxes, hpad]
  refine ⟨?_, ?_, ?_⟩
  · rw [show toV 3 (Model.Geo.transpose (matrixRotate 3 [y, 0, 0]) 0)
        = fun k => toM 3 (matrixRotate 3 [y, 0, 0]) k 0 from rfl, h]
    funext k; fin_cases k <;> simp
  · rw [show toV 3 (Model.Geo.transpose (matrixRotate 3 [y, 0, 0]) 1)
        = fun k => toM 3 (matrixRotate 3 [y, 0, 0]) k 1 from rfl, h]
    funext k; fin_cases k <;> simp
  · rw [show toV 3 (Model.Geo.transpose (matrixRotate 3 [y, 0, 0]) 2)
        = fun k => toM 3 (matrixRotate 3 [y, 0, 0]) k 2 from rfl, h]
    funext k; fin_cases k <;> simp

/-- missing angles count as `0`: no angles at all give the identity, in every dimension -/
theorem rotate_nil (d : Nat) : toM d (matrixRotate d ([] : List ℝ)) = 1 := by
  rw [rotate_eq_prod]
  have h : ∀ m ∈ ((signedSeq d (setAngles d ([] : List ℝ))).map fun p => toM d (givens p.1 p.2)).reverse,
      m = 1 := by
    intro m hm
    simp only [List.mem_reverse, List.mem_map] at hm
    obtain ⟨p, hp, rfl⟩ := hm
    have hv := signedSeq_valid d _ p hp
    have h0 : p.2 = 0 := by
      simp only [signedSeq, List.mem_map] at hp
      obtain ⟨⟨⟨a, pl⟩, i⟩, hmem, rfl⟩ := hp
      have h1 : (a, pl) ∈ (setAngles d ([] : List ℝ)).zip (rotationPlanes d) := List.fst_mem_of_mem_zipIdx hmem
      have h2 : a ∈ setAngles d ([] : List ℝ) := (List.of_mem_zip h1).1
      simp only [setAngles, List.take_nil, List.nil_append, List.mem_replicate] at h2
      simp [h2.2]
    have := gM_eq_givM hv
    unfold gM at this
    rw [this, h0, givM_zero]
  exact List.prod_eq_one h

/-! ## padding rules -/

/-- `set_anis`: always `dim - 1` ratios; too few are padded **in front** with `1`, too many are cut
    at the end. -/
theorem pad_rules_anis (d : Nat) (an : List ℝ) :
    (setAnis d an).length = d - 1 ∧
    (an.length ≤ d - 1 → setAnis d an = List.replicate (d - 1 - an.length) 1 ++ an) ∧
    (d - 1 ≤ an.length → setAnis d an = an.take (d - 1)) := by
  refine ⟨length_setAnis d an, fun h => ?_, fun h => ?_⟩
  · simp only [setAnis]
    rw [List.take_of_length_le h]
    split
    · simp; omega
    · have : d - 1 - an.length = 0 := by omega
      simp [this]
  · simp only [setAnis, List.length_take]
    rw [if_neg (by omega)]

/-- `set_angles`: always `no_of_angles(dim)` angles; too few are padded **behind** with `0`, too
    many are cut at the end. -/
theorem pad_rules_angles (d : Nat) (as : List ℝ) :
    (setAngles d as).length = noOfAngles d ∧
    (as.length ≤ noOfAngles d → setAngles d as = as ++ List.replicate (noOfAngles d - as.length) 0) ∧
    (noOfAngles d ≤ as.length → setAngles d as = as.take (noOfAngles d)) := by
  refine ⟨length_setAngles d as, fun h => ?_, fun h => ?_⟩
  · simp only [setAngles]
    rw [List.take_of_length_le h]; simp
  · simp only [setAngles, List.length_take]
    have : noOfAngles d - min (noOfAngles d) as.length = 0 := by omega
    simp [this]

/-- `set_len_anis` with one length scale keeps the (padded) ratios, provided they are positive -/
theorem len_scale_single (d : Nat) (hd : 1 ≤ d) (l : ℝ) (anis : List ℝ) (h : ∀ a ∈ anis, 0 < a) :
    setLenAnis d [l] anis = .ok (l, setAnis d anis) := by
  have ht : List.take d [l] = [l] := by
    obtain ⟨e, rfl⟩ : ∃ e, d = e + 1 := ⟨d - 1, by omega⟩
    simp
  simp only [setLenAnis, ht, List.length_nil, if_true]
  rw [if_pos]
  simp only [List.all_eq_true, decide_eq_true_eq, Nat.cast_zero]
  exact fun a ha => setAnis_pos h a ha

/-- `set_len_anis` with one length scale per axis: the main length scale is the first entry and the
    ratios are `len_scale[i] / len_scale[0]`, so `len_scale · anis[i-1] = len_scale[i]`. -/
theorem len_scale_list (l0 l1 : ℝ) (ls anis : List ℝ) (h0 : 0 < l0) (h : ∀ l ∈ l1 :: ls, 0 < l) :
    setLenAnis (ls.length + 2) (l0 :: l1 :: ls) anis = .ok (l0, (l1 :: ls).map fun l => l / l0) := by
  have ht : List.take (ls.length + 2) (l0 :: l1 :: ls) = l0 :: l1 :: ls := by simp
  have hidx : (idxRange 1 (ls.length + 2)).map (fun i => (padEdge (ls.length + 2) (l0 :: l1 :: ls)
        ((l0 :: l1 :: ls).getLast?.getD l0))[i]?.getD l0 / l0) = (l1 :: ls).map fun l => l / l0 := by
    apply List.ext_getElem
    · simp [idxRange]
    · intro n h1 h2
      have hn : n < (l1 :: ls).length := by simpa using h2
      simp only [idxRange, List.getElem_map, List.getElem_range', padEdge, List.length_cons,
        Nat.sub_self, List.replicate_zero, List.append_nil, Nat.one_mul]
      rw [show 1 + n = n + 1 by omega, List.getElem?_cons_succ, List.getElem?_eq_getElem hn]
      simp
  simp only [setLenAnis, ht, List.length_cons, Nat.add_one_ne_zero, if_false]
  rw [hidx, if_pos]
  simp only [List.all_eq_true, decide_eq_true_eq, Nat.cast_zero, List.mem_map]
  rintro a ⟨l, hl, rfl⟩
  exact div_pos (h l hl) h0

example : ∀ l ∈ ([3, 0.5] : List ℝ), 0 < l := by simp; norm_num

/-- a non-positive ratio is rejected (`ValueError`), so the positivity hypothesis of
    `iso_aniso_inverse` is what a constructed model guarantees -/
theorem len_scale_rejects (d : Nat) (l : ℝ) (anis : List ℝ) (a : ℝ) (ha : a ∈ setAnis d anis) (hneg : a ≤ 0) :
    setLenAnis d [l] anis = .error "ValueError" ∨ setLenAnis d [l] anis = .error "IndexError" := by
  cases d with
  | zero => right; simp [setLenAnis]
  | succ e =>
    left
    simp only [setLenAnis, List.take_succ_cons, List.take_nil, List.length_nil, if_true]
    rw [if_neg]
    simp only [List.all_eq_true, decide_eq_true_eq, Nat.cast_zero, not_forall]
    exact ⟨a, ha, not_lt.2 hneg⟩

/-! ## rotations preserve length; law-free padding rules -/

/-- derotating (and rotating) a position does not change its Euclidean norm … -/
theorem rotation_preserves_norm (d : Nat) (angles : List ℝ) (x : Nat → ℝ) :
    norm2 d (applyMat d (matrixDerotate d angles) x) = norm2 d x ∧
    norm2 d (applyMat d (matrixRotate d angles) x) = norm2 d x := by
  obtain ⟨o1, o2, _⟩ := rotate_orthogonal d angles
  have key : ∀ A : Matrix (Fin d) (Fin d) ℝ, Aᵀ * A = 1 → ∀ v : Fin d → ℝ, (A *ᵥ v) ⬝ᵥ (A *ᵥ v) = v ⬝ᵥ v := by
    intro A hA v
    rw [Matrix.dotProduct_mulVec, ← Matrix.mulVec_transpose, Matrix.mulVec_mulVec, hA, Matrix.one_mulVec]
  constructor
  · rw [norm2_eq, norm2_eq, toV_applyMat, derotate_eq_transpose, key _ (by rw [Matrix.transpose_transpose]; exact o1)]
  · rw [norm2_eq, norm2_eq, toV_applyMat, key _ o2]

/-- … so a model without anisotropy is rotation invariant: its isotropic radius is the plain norm
    whatever the angles are. -/
theorem iso_rad_without_anis (d : Nat) (angles : List ℝ) (x : Nat → ℝ) :
    isoRad d angles [] x = norm2 d x := by
  have hs : stretch d ([] : List ℝ) = fun _ => 1 := by
    funext i
    have hp := (pad_rules_anis d []).2.1 (Nat.zero_le _)
    have hi := i.2
    simp only [stretch, hp, List.append_nil, List.length_nil, Nat.sub_zero]
    rcases i with ⟨_ | k, hk⟩
    · simp
    · have : k < d - 1 := by omega
      simp [List.getElem?_replicate, this]
  have h1 : toV d (isometrize d angles [] x) = toV d (applyMat d (matrixDerotate d angles) x) := by
    rw [isometrize, toV_applyMat, toV_applyMat, (iso_aniso_factor d angles []).1, hs, derotate_eq_transpose]
    simp
  rw [isoRad, norm2_eq, h1, ← norm2_eq, (rotation_preserves_norm d angles x).1]

/-- the padding rules need no arithmetic laws: they hold verbatim for IEEE doubles -/
theorem pad_rules_any {α : Type} [Arith α] (d : Nat) (an as : List α) :
    (setAnis d an).length = d - 1 ∧ (setAngles d as).length = noOfAngles d ∧
    (an.length ≤ d - 1 → setAnis d an = List.replicate (d - 1 - an.length) ((1:Nat):α) ++ an) ∧
    (d - 1 ≤ an.length → setAnis d an = an.take (d - 1)) ∧
    (as.length ≤ noOfAngles d → setAngles d as = as ++ List.replicate (noOfAngles d - as.length) ((0:Nat):α)) ∧
    (noOfAngles d ≤ as.length → setAngles d as = as.take (noOfAngles d)) := by
  refine ⟨?_, ?_, fun h => ?_, fun h => ?_, fun h => ?_, fun h => ?_⟩
  · simp only [setAnis, List.length_take]
    split
    · simp only [List.length_append, List.length_replicate, List.length_take]; omega
    · simp only [List.length_take]; omega
  · simp only [setAngles, List.length_append, List.length_take, List.length_replicate]; omega
  · simp only [setAnis]
    rw [List.take_of_length_le h]
    split
    · have : d - an.length - 1 = d - 1 - an.length := by omega
      rw [this]
    · have : d - 1 - an.length = 0 := by omega
      simp [this]
  · simp only [setAnis, List.length_take]
    rw [if_neg (by omega)]
  · simp only [setAngles]
    rw [List.take_of_length_le h]
  · simp only [setAngles, List.length_take]
    have : noOfAngles d - min (noOfAngles d) as.length = 0 := by omega
    simp [this]

/-! ## the pipelines -/

/-- distances between isometrized positions are the model's isotropic radius of the raw lag:
    the entries `cov(‖iso x_i − iso x_j‖)` of the kriging system are `cov_spatial(x_i − x_j)`. -/
theorem pipeline_dist (d : Nat) (angles anis : List ℝ) (x y : Nat → ℝ) :
    dist d (isometrize d angles anis x) (isometrize d angles anis y)
      = isoRad d angles anis (fun k => x k - y k) := by
  have hl := isometrize_linear d angles anis 1 (-1) x y
  simp only [one_mul, neg_mul, one_smul, neg_smul, ← sub_eq_add_neg] at hl
  rw [Model.Geo.dist, isoRad, norm2_eq, norm2_eq, hl]
  rfl

theorem pipeline_cov (f : ℝ → ℝ) (d : Nat) (angles anis : List ℝ) (x y : Nat → ℝ) :
    f (dist d (isometrize d angles anis x) (isometrize d angles anis y))
      = covSpatial f d angles anis (fun k => x k - y k) := by
  rw [pipeline_dist]; rfl

/-- the isotropic, unrotated model (no `anis`, no `angles`) leaves positions unchanged -/
theorem isometrize_iso_model (d : Nat) (x : Nat → ℝ) :
    toV d (isometrize d ([] : List ℝ) [] x) = toV d x := by
  have hs : stretch d ([] : List ℝ) = fun _ => 1 := by
    funext i
    have hp := (pad_rules_anis d []).2.1 (Nat.zero_le _)
    have hi := i.2
    simp only [stretch, hp, List.append_nil, List.length_nil, Nat.sub_zero]
    rcases i with ⟨_ | k, hk⟩
    · simp
    · have : k < d - 1 := by omega
      simp [List.getElem?_replicate, this]
  rw [isometrize, toV_applyMat, (iso_aniso_factor d [] []).1, rotate_nil, hs]
  simp

/-- **pipeline**: every computation that receives its positions through `pre_pos` (SRF, Krige,
    CondSRF, vector fields) gives, for the anisotropic rotated model at `xs`, what it gives for the
    isotropic model at the transformed positions `isometrize xs`. -/
theorem pipeline {β : Type} {d : Nat} (F : List (Fin d → ℝ) → β) (angles anis : List ℝ) (xs : List (Nat → ℝ)) :
    F ((prePos d angles anis xs).map (toV d))
      = F ((prePos d ([] : List ℝ) [] (prePos d angles anis xs)).map (toV d)) := by
  congr 1
  simp only [prePos, List.map_map]
  apply List.map_congr_left
  intro x _
  simp only [Function.comp]
  rw [isometrize_iso_model]

/-- randomization method: the phase of an isotropic mode `k` at the isometrized position is the
    phase of the transformed mode `Mᵀ k` at the raw position (`M = matrix_isometrize`) -/
theorem pipeline_modes (d : Nat) (angles anis : List ℝ) (k x : Nat → ℝ) :
    phase d k (isometrize d angles anis x)
      = phase d (applyMat d (Model.Geo.transpose (matrixIsometrize d angles anis)) k) x := by
  rw [phase_eq, phase_eq, isometrize, toV_applyMat, toV_applyMat, toM_transpose,
    Matrix.dotProduct_mulVec, Matrix.mulVec_transpose]

/-- the model's spatial covariance of a lag `h` is the isotropic model's at the transformed lag -/
theorem cov_spatial_change_of_coords (f : ℝ → ℝ) (d : Nat) (angles anis : List ℝ) (h : Nat → ℝ) :
    covSpatial f d angles anis h = covSpatial f d ([] : List ℝ) [] (isometrize d angles anis h) := by
  simp only [covSpatial, isoRad, norm2_eq, isometrize_iso_model]

/-! ## ang2dir -/

/-- `ang2dir` returns a unit vector of dimension `len(angles) + 1` for every angle vector
    (spherical coordinates in any dimension; the 2-D/3-D component swap does not matter). -/
theorem ang2dir_unit (angles v : List ℝ) (h : ang2dir angles = .ok v) :
    v.length = angles.length + 1 ∧ (v.map fun x => x * x).sum = 1 := by
  have hsin : (Transc.sin : ℝ → ℝ) = Real.sin := rfl
  unfold ang2dir at h
  simp only at h
  split at h
  · exact absurd h (by simp)
  · rw [dirRest_eq, prodL_eq, hsin] at h
    have hu := sqSum_dir angles
    have hl := length_dirRest angles
    split at h
    · cases hd : dirRest angles with
      | nil => rw [hd] at hl; simp at hl; omega
      | cons b t =>
        rw [hd] at h hu hl
        simp only [Except.ok.injEq] at h
        subst h
        simp only [List.length_cons] at hl ⊢
        refine ⟨by omega, ?_⟩
        simp only [List.map_cons, List.sum_cons] at hu ⊢
        linarith
    · simp only [Except.ok.injEq] at h
      subst h
      exact ⟨by simp [hl], hu⟩

example : ang2dir ([0, 0] : List ℝ) = .ok [0, 0, 1] := by
  simp [ang2dir, prodL, idxRange, List.range']

/-! ## ang2dir: whole calls -/

/-- a single direction through `ang2dir` is the row function `dirVec` -/
theorem ang2dir_eq_dirVec (angles : List ℝ) (h : angles ≠ []) : ang2dir angles = .ok (dirVec angles) := by
  have hl : angles.length ≠ 0 := by simpa using h
  unfold ang2dir dirVec
  simp only [hl, if_false]
  split
  · split <;> rfl
  · rfl

theorem dirVec_unit (angles : List ℝ) (h : angles ≠ []) :
    (dirVec angles).length = angles.length + 1 ∧ ((dirVec angles).map fun x => x * x).sum = 1 :=
  ang2dir_unit angles _ (ang2dir_eq_dirVec angles h)

/-- 2-D: one angle is the azimuth, counter-clockwise from the x axis -/
theorem dirVec_2d (az : ℝ) : dirVec [az] = [Real.cos az, Real.sin az] := by
  simp [dirVec, prodL, idxRange, List.range']

/-- 3-D: (azimuth, inclination from the z axis), ISO 80000-2 -/
theorem dirVec_3d (az inc : ℝ) :
    dirVec [az, inc] = [Real.sin inc * Real.cos az, Real.sin inc * Real.sin az, Real.cos inc] := by
  simp [dirVec, prodL, idxRange, List.range', mul_comm]

/-- 4-D: hyperspherical coordinates, no component swap -/
theorem dirVec_4d (a b c : ℝ) :
    dirVec [a, b, c] = [Real.sin a * Real.sin b * Real.sin c, Real.sin b * Real.sin c * Real.cos a,
      Real.sin c * Real.cos b, Real.cos c] := by
  simp [dirVec, prodL, idxRange, List.range']

/-- **several directions in one call**: a successful call returns, for some row list `rows'` — the given rows, or the
    single flat row transposed when `dim = 2` — exactly `dirVec` of every row: direction `r` is a function of row `r`
    alone, every row has `dim - 1` angles and `dim ≥ 2`. -/
theorem ang2dir_call_rowwise (preDim n : Nat) (rows : List (List ℝ)) (dim : Option Nat) (out : List (List ℝ))
    (h : ang2dirCall preDim n rows dim = .ok out) :
    ∃ rows' : List (List ℝ), out = rows'.map dirVec ∧ (∀ r ∈ rows', r.length + 1 = dim.getD (n + 1)) ∧ 2 ≤ dim.getD (n + 1) ∧
      (rows' = rows ∨ (rows' = (rows.headD []).map (fun a => [a]) ∧ dim.getD (n + 1) = 2 ∧ rows.length = 1 ∧ preDim < 2)) := by
  unfold ang2dirCall at h
  by_cases hg : (2 < preDim ∨ (rows.any fun r => r.length != n) = true)
  · rw [if_pos hg] at h; exact absurd h (by simp)
  rw [if_neg hg] at h
  simp only at h
  have hrag : ∀ r ∈ rows, r.length = n := by
    intro r hr
    by_contra hne
    exact hg (Or.inr (List.any_eq_true.2 ⟨r, hr, by simpa using hne⟩))
  by_cases htr : (decide (dim.getD (n + 1) = 2) && decide (rows.length = 1) && decide (preDim < 2)) = true
  · simp only [htr, if_true] at h
    have htr' := htr
    simp only [Bool.and_eq_true, decide_eq_true_eq] at htr'
    rw [if_neg (by rw [htr'.1.1]; omega)] at h
    simp only [Except.ok.injEq] at h
    refine ⟨_, h.symm, ?_, by omega, Or.inr ⟨rfl, htr'.1.1, htr'.1.2, htr'.2⟩⟩
    intro r hr
    simp only [List.mem_map] at hr
    obtain ⟨a, _, rfl⟩ := hr
    simp [htr'.1.1]
  · simp only [htr, Bool.false_eq_true, if_false] at h
    by_cases hd : dim.getD (n + 1) ≠ n + 1 ∨ dim.getD (n + 1) = 1
    · rw [if_pos hd] at h; exact absurd h (by simp)
    · rw [if_neg hd] at h
      simp only [Except.ok.injEq] at h
      refine ⟨rows, h.symm, ?_, by omega, Or.inl rfl⟩
      intro r hr
      rw [hrag r hr]; omega

/-- nested input (one row per direction) without `dim`: row `i` of the result is the single-direction conversion of
    row `i` — the other rows do not matter — and it is a unit vector with `n + 1` components -/
theorem ang2dir_call_nested (n : Nat) (hn : 1 ≤ n) (rows : List (List ℝ)) (hr : ∀ r ∈ rows, r.length = n) :
    ang2dirCall 2 n rows none = .ok (rows.map dirVec) ∧
    ∀ r ∈ rows, ang2dir r = .ok (dirVec r) ∧ (dirVec r).length = n + 1 ∧ ((dirVec r).map fun x => x * x).sum = 1 := by
  constructor
  · unfold ang2dirCall
    have h1 : ¬(2 < 2 ∨ (rows.any fun r => r.length != n) = true) := by
      rintro (h | h)
      · omega
      · obtain ⟨r, hr', hne⟩ := List.any_eq_true.1 h
        simp [hr r hr'] at hne
    rw [if_neg h1]
    simp only [Option.getD_none, Nat.lt_irrefl, decide_false, Bool.and_false, Bool.false_eq_true, if_false]
    rw [if_neg (by omega)]
  · intro r hr'
    have hne : r ≠ [] := by
      intro h0; have := hr r hr'; rw [h0] at this; simp at this; omega
    have := dirVec_unit r hne
    exact ⟨ang2dir_eq_dirVec r hne, by rw [this.1, hr r hr'], this.2⟩

/-- flat input of `k` angles with `dim = 2`: `k` two-dimensional directions `(cos a, sin a)` -/
theorem ang2dir_call_2d_flat (as : List ℝ) :
    ang2dirCall 1 as.length [as] (some 2) = .ok (as.map fun a => [Real.cos a, Real.sin a]) := by
  unfold ang2dirCall
  have h1 : ¬(2 < 1 ∨ (([as] : List (List ℝ)).any fun r => r.length != as.length) = true) := by simp
  rw [if_neg h1]
  simp [dirVec_2d]

example : ang2dirCall 2 2 ([[0, Real.pi / 2], [Real.pi / 2, Real.pi / 2]] : List (List ℝ)) none
    = .ok [[1, 0, 0], [0, 1, 0]] := by
  rw [(ang2dir_call_nested 2 (by omega) _ (by simp)).1]
  simp [dirVec_3d]

/-! ## in-place histories -/

/-- what a constructed model guarantees about the parameters the geometry depends on -/
def MValid (s : MState ℝ) : Prop :=
  1 ≤ s.dim ∧ s.anis.length = s.dim - 1 ∧ s.angles.length = noOfAngles s.dim ∧ ∀ a ∈ s.anis, 0 < a

/-- whatever `set_len_anis` accepts: `dim - 1` positive ratios -/
theorem setLenAnis_ok {d : Nat} {ls anis : List ℝ} {l0 : ℝ} {an : List ℝ} (h : setLenAnis d ls anis = .ok (l0, an)) :
    an.length = d - 1 ∧ ∀ a ∈ an, 0 < a := by
  unfold setLenAnis at h
  cases ht : List.take d ls with
  | nil => rw [ht] at h; exact absurd h (by simp)
  | cons l0' rest =>
    rw [ht] at h
    simp only at h
    by_cases hr : rest.length = 0
    · simp only [hr, if_true] at h
      by_cases hall : ((setAnis d anis).all fun a => decide (a > ((0:Nat):ℝ))) = true
      · rw [if_pos hall] at h
        simp only [Except.ok.injEq, Prod.mk.injEq] at h
        obtain ⟨_, rfl⟩ := h
        refine ⟨length_setAnis d anis, fun a ha => ?_⟩
        have := List.all_eq_true.1 hall a ha
        simpa using this
      · rw [if_neg hall] at h; exact absurd h (by simp)
    · simp only [hr, if_false] at h
      split at h
      · rename_i hall
        simp only [Except.ok.injEq, Prod.mk.injEq] at h
        obtain ⟨_, rfl⟩ := h
        refine ⟨by simp [idxRange], fun a ha => ?_⟩
        have := List.all_eq_true.1 hall a ha
        simpa using this
      · exact absurd h (by simp)

theorem mInit_valid {d : Nat} {ls an ag : List ℝ} {s : MState ℝ} (h : mInit d ls an ag = .ok s) : MValid s := by
  unfold mInit at h
  by_cases hd : d < 1
  · rw [if_pos hd] at h; exact absurd h (by simp)
  rw [if_neg hd] at h
  cases hok : setLenAnis d ls an with
  | error e => rw [hok] at h; exact absurd h (by simp)
  | ok r =>
    obtain ⟨l0, an'⟩ := r
    rw [hok] at h
    simp only [Except.ok.injEq] at h
    subst h
    have := setLenAnis_ok hok
    exact ⟨Nat.le_of_not_lt hd, this.1, length_setAngles d ag, this.2⟩

/-- every setter keeps the guarantees (a rejected assignment does not produce a state at all) -/
theorem mStep_valid {s s' : MState ℝ} (hs : MValid s) (op : MOp ℝ) (h : mStep s op = .ok s') : MValid s' := by
  obtain ⟨h1, h2, h3, h4⟩ := hs
  cases op with
  | setAnis v =>
    simp only [mStep] at h
    split at h
    · exact absurd h (by simp)
    · rename_i l0 an hok
      simp only [Except.ok.injEq] at h; subst h
      have := setLenAnis_ok hok
      exact ⟨h1, this.1, h3, this.2⟩
  | setAngles v =>
    simp only [mStep, Except.ok.injEq] at h; subst h
    exact ⟨h1, h2, length_setAngles _ _, h4⟩
  | setLenScale v =>
    simp only [mStep] at h
    split at h
    · exact absurd h (by simp)
    · rename_i l0 an hok
      simp only [Except.ok.injEq] at h; subst h
      have := setLenAnis_ok hok
      exact ⟨h1, this.1, h3, this.2⟩
  | setDim d =>
    simp only [mStep] at h
    by_cases hd : d < 1
    · rw [if_pos hd] at h; exact absurd h (by simp)
    rw [if_neg hd] at h
    cases hok : setLenAnis d [s.lenScale] s.anis with
    | error e => rw [hok] at h; exact absurd h (by simp)
    | ok r =>
      obtain ⟨l0, an⟩ := r
      rw [hok] at h
      simp only [Except.ok.injEq] at h; subst h
      have := setLenAnis_ok hok
      exact ⟨Nat.le_of_not_lt hd, this.1, length_setAngles _ _, this.2⟩

theorem mStepKeep_valid {s : MState ℝ} (hs : MValid s) (op : MOp ℝ) : MValid (mStepKeep s op).1 := by
  unfold mStepKeep
  split
  · rename_i s' h; exact mStep_valid hs op h
  · exact hs

/-- every state of a history (after the constructor, after every setter, accepted or rejected) is valid -/
theorem mRun_valid {s : MState ℝ} (hs : MValid s) (ops : List (MOp ℝ)) : ∀ r ∈ mRun s ops, MValid r.1 := by
  induction ops generalizing s with
  | nil => intro r hr; simp [mRun] at hr
  | cons op rest ih =>
    intro r hr
    simp only [mRun, List.mem_cons] at hr
    rcases hr with rfl | hr
    · exact mStepKeep_valid hs op
    · exact ih (mStepKeep_valid hs op) r hr

theorem mFinal_valid {s : MState ℝ} (hs : MValid s) (ops : List (MOp ℝ)) : MValid (mFinal s ops) := by
  induction ops generalizing s with
  | nil => exact hs
  | cons op rest ih => exact ih (mStepKeep_valid hs op)

/-- a valid state is what the constructor makes of its own public values -/
theorem valid_fresh {s : MState ℝ} (hs : MValid s) : mInit s.dim [s.lenScale] s.anis s.angles = .ok s := by
  obtain ⟨h1, h2, h3, h4⟩ := hs
  unfold mInit
  rw [if_neg (by omega), len_scale_single s.dim h1 s.lenScale s.anis h4]
  have ha : setAnis s.dim s.anis = s.anis := by
    rw [(pad_rules_anis s.dim s.anis).2.2 (by omega), List.take_of_length_le (by omega)]
  have hg : setAngles s.dim s.angles = s.angles := by
    rw [(pad_rules_angles s.dim s.angles).2.2 (by omega), List.take_of_length_le (by omega)]
  simp only [ha, hg]

/-- **history independence of the geometry**: after the constructor and ANY sequence of `dim` / `len_scale` / `anis` /
    `angles` assignments (accepted or rejected), the model is exactly the one a fresh constructor call builds from
    its current public values — so `isometrize`, `anisometrize`, `main_axes`, `_get_iso_rad`, `cov_spatial`, which
    are functions of the current `(dim, angles, anis)` only, are those of the fresh model. -/
theorem hist_geometry_is_fresh {d : Nat} {ls an ag : List ℝ} {s0 : MState ℝ} (h0 : mInit d ls an ag = .ok s0)
    (ops : List (MOp ℝ)) :
    let s := mFinal s0 ops
    mInit s.dim [s.lenScale] s.anis s.angles = .ok s ∧ MValid s :=
  ⟨valid_fresh (mFinal_valid (mInit_valid h0) ops), mFinal_valid (mInit_valid h0) ops⟩

/-- … and in every state of a history the isometrizing map is invertible with `anisometrize` as its inverse -/
theorem hist_roundtrip {d : Nat} {ls an ag : List ℝ} {s0 : MState ℝ} (h0 : mInit d ls an ag = .ok s0)
    (ops : List (MOp ℝ)) (x : Nat → ℝ) :
    let s := mFinal s0 ops
    toV s.dim (anisometrize s.dim s.angles s.anis (isometrize s.dim s.angles s.anis x)) = toV s.dim x :=
  (iso_aniso_roundtrip _ _ _ (mFinal_valid (mInit_valid h0) ops).2.2.2 x).1

/-- assigning one length scale per axis redefines the ratios from the list alone: the previous ratios are
    forgotten, the main length scale is the first entry, the angles stay -/
theorem setLenScale_list (s : MState ℝ) (l0 l1 : ℝ) (ls : List ℝ) (hd : s.dim = ls.length + 2)
    (h0 : 0 < l0) (h : ∀ l ∈ l1 :: ls, 0 < l) :
    mStep s (.setLenScale (l0 :: l1 :: ls)) = .ok { s with lenScale := l0, anis := (l1 :: ls).map fun l => l / l0 } := by
  simp only [mStep, hd, len_scale_list l0 l1 ls s.anis h0 h]

/-- equal length scales make the model isotropic whatever the ratios were before: the isotropic radius is the
    plain norm for every rotation -/
theorem setLenScale_equal_isotropic (s s' : MState ℝ) (l : ℝ) (hl : 0 < l) (k : Nat) (hd : s.dim = k + 2)
    (h : mStep s (.setLenScale (List.replicate (k + 2) l)) = .ok s') (x : Nat → ℝ) :
    s'.anis = List.replicate (k + 1) 1 ∧ isoRad s'.dim s'.angles s'.anis x = norm2 s'.dim x := by
  have hrep : List.replicate (k + 2) l = l :: l :: List.replicate k l := by simp [List.replicate_succ]
  have hpos : ∀ y ∈ l :: List.replicate k l, 0 < y := by
    intro y hy
    rcases List.mem_cons.1 hy with rfl | hy
    · exact hl
    · rw [List.eq_of_mem_replicate hy]; exact hl
  rw [hrep, setLenScale_list s l l (List.replicate k l) (by simpa using hd) hl hpos] at h
  simp only [Except.ok.injEq] at h
  subst h
  have hne : l ≠ 0 := ne_of_gt hl
  have han : (l :: List.replicate k l).map (fun y => y / l) = List.replicate (k + 1) 1 := by
    simp [List.replicate_succ, div_self hne]
  refine ⟨han, ?_⟩
  simp only [han]
  have hsa : setAnis s.dim (List.replicate (k + 1) (1:ℝ)) = setAnis s.dim [] := by
    rw [(pad_rules_anis s.dim _).2.1 (by simp; omega), (pad_rules_anis s.dim []).2.1 (by simp)]
    simp [hd, List.replicate_succ]
  have : isoRad s.dim s.angles (List.replicate (k + 1) 1) x = isoRad s.dim s.angles [] x := by
    simp only [isoRad, isometrize, matrixIsometrize, matrixIsotropify, hsa]
  rw [this, iso_rad_without_anis]

example : mInit 2 ([2, 1] : List ℝ) [] [0.3] = .ok ⟨2, 2, [1 / 2], [0.3]⟩ := by
  have := len_scale_list (2:ℝ) 1 [] [] (by norm_num) (by simp)
  simp only [List.length_nil, Nat.zero_add] at this
  simp [mInit, this, setAngles, noOfAngles]

/-! ## the tables the driver keeps per state are the model's matrices -/

theorem isoTab_eq (d : Nat) (angles anis : List ℝ) :
    toM d (ofArr d (isoTab d angles anis)) = toM d (matrixIsometrize d angles anis) := by
  simp only [isoTab, matrixIsometrize, toM_ofArr_tabArr, toM_matmul]

theorem anisoTab_eq (d : Nat) (angles anis : List ℝ) :
    toM d (ofArr d (anisoTab d angles anis)) = toM d (matrixAnisometrize d angles anis) := by
  simp only [anisoTab, matrixAnisometrize, toM_ofArr_tabArr, toM_matmul]

/-- what the driver evaluates for `isometrize` / `anisometrize` / `_get_iso_rad` of a state is the model's value -/
theorem tab_geometry_eq (d : Nat) (angles anis : List ℝ) (x : Nat → ℝ) :
    toV d (applyMat d (ofArr d (isoTab d angles anis)) x) = toV d (isometrize d angles anis x) ∧
    toV d (applyMat d (ofArr d (anisoTab d angles anis)) x) = toV d (anisometrize d angles anis x) ∧
    norm2 d (applyMat d (ofArr d (isoTab d angles anis)) x) = isoRad d angles anis x := by
  refine ⟨?_, ?_, ?_⟩
  · rw [isometrize, toV_applyMat, toV_applyMat, isoTab_eq]
  · rw [anisometrize, toV_applyMat, toV_applyMat, anisoTab_eq]
  · rw [isoRad, norm2_eq, norm2_eq, isometrize, toV_applyMat, toV_applyMat, isoTab_eq]

end GSV.Props.C12
