/-
  Tie A for the one-line array transforms (C19), EXACT form — informative, not an obligation of `./check C19`.

  Where the model text and the source text have the same operator tree the scalar maps of `GSV.Model.Transform` are
  equal to the definitions regenerated from `transform/array.py` (`GSV/Gen/TransformFormulas.lean`) on EVERY carrier `α`
  by `rfl`, hence also on `Float`.  Brittle by design: a behaviour-preserving regrouping of a source formula breaks the
  `rfl`.  The registered obligations are the `ℝ`-level theorems `GSV.Props.GenTieTransform.*_eq_model_real`; the theorems
  of this file are audited on every run and reported under `coverage.informative` of the evidence.
-/
import GSV.Props.GenTieTransform

set_option linter.unusedSectionVars false

namespace GSV.Props.GenTieTransformExact
open GSV GSV.Transc GSV.PyExpr GSV.Model.Transform GSV.Gen.TransformFormulas GSV.Props.GenTieTransform

variable {α : Type} [Arith α] [Transc α] [DecidableLT α] [DecidableLE α]

/-! ### same text as the model, on every carrier -/

theorem array_to_lognormal_eq_model (x : α) : array_to_lognormal x = toLognormal x := rfl

theorem uniform_to_arcsin_eq_model (a b u : α) : _uniform_to_arcsin u a b = uniformToArcsin a b u := rfl

/-- `array_force_moments`: every element is mapped by the generated formula with the sample moments -/
theorem array_force_moments_eq_model (mean var : α) (l : List α) :
    forceMoments mean var l = l.map fun x => array_force_moments (lmean l) (lvar l) x mean var := rfl

end GSV.Props.GenTieTransformExact
