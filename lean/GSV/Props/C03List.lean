/-
  C03 — list-valued scale arguments and the half-integer Matern family (wave 6).

  `len_scale` and `integral_scale` are documented as "float or list".  On the model `GSV.Model.CovFn`
  (`setLenScaleList`, `setIntegralScaleList`, `axisScales`, the functions the driver runs on `Float`):
  * `list_len_scale_vec`: after `len_scale = [x0, x1, …]` (cut to the dimension, padded with the last value)
    `len_scale_vec` is exactly the per-axis list;
  * `list_integral_scale_vec`: after `integral_scale = [I0, I1, …]` the reported `integral_scale_vec` is exactly
    the per-axis list, whatever the class' integral of `cor` is and whatever state the object was in before —
    in particular the anisotropy ratios are `I_k / I_0`, not the ratios stored before;
  * `list_integral_scale_axis`: hence the integral of the correlation along axis `k` (the isotropic correlation with
    `len_scale_vec[k]`, `C03.axis_is_len_scale_vec`) is `I_k`;
  * `single_value_keeps_anis`: a one-element list / scalar leaves the stored ratios alone.
  Half-integer Matern (`maternHalfCor p`, `nu = p + 1/2`): the polynomial form reduces to the three slices already
  modelled (`nu = 1/2, 3/2, 5/2`), its value at lag 0 is 1 for EVERY `p`, and its coefficients leave the 64-bit range
  (`fact 21 > 2^63`), which is why the model keeps them in `Nat`.
-/
import GSV.Props.C03
namespace GSV.Props.C03List
open GSV GSV.Transc GSV.Model.CovFn GSV.Props.C03 MeasureTheory Set

/-! ## per-axis scales -/

theorem padLast_length (n : ℕ) : ∀ (l : ℝ) (xs : List ℝ), (padLast n l xs).length = n := by
  induction n with
  | zero => intro l xs; simp [padLast]
  | succ n ih =>
    intro l xs
    cases xs with
    | nil => simp [padLast, ih]
    | cons x xs => simp [padLast, ih]

/-- entries beyond the dimension do not matter -/
theorem padLast_take (n : ℕ) : ∀ (l : ℝ) (xs : List ℝ), padLast n l (xs.take n) = padLast n l xs := by
  induction n with
  | zero => intro l xs; simp [padLast]
  | succ n ih =>
    intro l xs
    cases xs with
    | nil => simp [padLast]
    | cons x xs => simp [padLast, ih]

theorem axisScales_length (dim : ℕ) (hd : 1 ≤ dim) (x0 : ℝ) (rest : List ℝ) :
    (axisScales dim (x0 :: rest)).length = dim := by
  simp only [axisScales, List.length_cons, padLast_length]
  omega

/-- a short list is padded with its last value: `[a, b]` in 3-D is `[a, b, b]` -/
theorem axisScales_short (a b : ℝ) : axisScales 3 [a, b] = [a, b, b] := by
  simp [axisScales, padLast]

/-- a long list is cut to the dimension -/
theorem axisScales_long (a b c : ℝ) : axisScales 2 [a, b, c] = [a, b] := by
  simp [axisScales, padLast]

theorem map_mul_div (I0 : ℝ) (h : I0 ≠ 0) (xs : List ℝ) : (xs.map fun x => x / I0).map (fun a => I0 * a) = xs := by
  rw [List.map_map]
  conv_rhs => rw [← List.map_id xs]
  apply List.map_congr_left
  intro a _
  simp only [Function.comp, id]
  field_simp

/-- `len_scale = [x0, x1, …]` on a model of dimension ≥ 2: `len_scale_vec` is the per-axis list -/
theorem list_len_scale_vec (st : MState ℝ) (hd : 2 ≤ st.dim) (x0 x1 : ℝ) (rest : List ℝ) (h0 : x0 ≠ 0) :
    lenScaleVec (setLenScaleList st (x0 :: x1 :: rest)) = axisScales st.dim (x0 :: x1 :: rest) := by
  obtain ⟨n, hn⟩ : ∃ n, st.dim = n + 2 := ⟨st.dim - 2, by omega⟩
  have htake : (x0 :: x1 :: rest).take st.dim = x0 :: x1 :: rest.take n := by simp [hn]
  simp only [setLenScaleList, htake, lenScaleVec, axisScales]
  rw [map_mul_div x0 h0]
  have : st.dim - 1 = n + 1 := by omega
  rw [this]
  simp only [padLast]
  congr 2
  exact padLast_take n x1 rest

/-- `integral_scale = [I0, I1, …]` on a model of dimension ≥ 2, in ANY admissible previous state: the reported
    `integral_scale_vec` is the per-axis list -/
theorem list_integral_scale_vec (ci : ℕ → ℝ → ℝ) (hpos : ∀ d a, 0 < ci d a) (st : MState ℝ) (hst : MAdmissible st)
    (hd : 2 ≤ st.dim) (I0 I1 : ℝ) (rest : List ℝ) (h0 : I0 ≠ 0) :
    reportedISVec ci (setIntegralScaleList ci st (I0 :: I1 :: rest)) = axisScales st.dim (I0 :: I1 :: rest) := by
  obtain ⟨n, hn⟩ : ∃ n, st.dim = n + 2 := ⟨st.dim - 2, by omega⟩
  have htake : (I0 :: I1 :: rest).take st.dim = I0 :: I1 :: rest.take n := by simp [hn]
  have hIS : integralScale (setIntegralScale (fun q => integralScale q (ci st.dim st.shape))
      { var := st.par.var, lenScale := I0, nugget := st.par.nugget, rescale := st.par.rescale } I0) (ci st.dim st.shape) = I0 :=
    integral_scale_setter (fun q' => integralScale q' (ci _ _)) (ci _ _) (hpos _ _).ne' (fun _ => rfl) _ hst.rescale.ne' I0
  simp only [setIntegralScaleList, setLenScaleList, htake, mstep, reportedISVec, reportedIS, axisScales]
  rw [hIS, map_mul_div I0 h0]
  have : st.dim - 1 = n + 1 := by omega
  rw [this]
  simp only [padLast]
  congr 2
  exact padLast_take n I1 rest

/-- a one-element list (or a scalar) prescribes the main scale only: the stored anisotropy ratios stay -/
theorem single_value_keeps_anis (st : MState ℝ) (hd : 1 ≤ st.dim) (x : ℝ) :
    (setLenScaleList st [x]).anis = st.anis ∧ (setLenScaleList st [x]).par.lenScale = x := by
  obtain ⟨n, hn⟩ : ∃ n, st.dim = n + 1 := ⟨st.dim - 1, by omega⟩
  simp [setLenScaleList, hn]

/-- along axis `k ≥ 1` the model is the isotropic model with `len_scale_vec[k]` (`C03.axis_is_len_scale_vec`), whose
    integral scale is `len_scale_vec[k] / rescale` times the integral of `cor` (`C03.integral_scale_scaling`): with the
    ratios of `list_integral_scale_vec` this is the prescribed `I_k` -/
theorem list_integral_scale_axis (c : ℝ → ℝ) (p : Par ℝ) (hl : 0 < p.lenScale) (hs : 0 < p.rescale) (I0 Ik : ℝ)
    (hI0 : 0 < I0) (hIk : 0 < Ik) (hrep : integralScale p (∫ h in Ioi (0:ℝ), c h) = I0) :
    (∫ r in Ioi (0:ℝ), (fromCor { p with lenScale := p.lenScale * (Ik / I0) } c).correlation r) = Ik := by
  have hl' : 0 < p.lenScale * (Ik / I0) := by positivity
  rw [integral_scale_scaling { p with lenScale := p.lenScale * (Ik / I0) } c hl' hs]
  simp only [integralScale, lenRescaled] at hrep ⊢
  have : p.lenScale * (Ik / I0) / p.rescale * ∫ h in Ioi (0:ℝ), c h
      = (p.lenScale / p.rescale * ∫ h in Ioi (0:ℝ), c h) * (Ik / I0) := by ring
  rw [this, hrep]
  field_simp

example : MAdmissible ⟨⟨2, 3, 0.5, 1.5⟩, 3, 1.5, [0.5, 2]⟩ := ⟨by norm_num, by norm_num⟩
example : reportedISVec (fun _ _ => (2:ℝ)) (setIntegralScaleList (fun _ _ => (2:ℝ)) ⟨⟨2, 3, 0.5, 1.5⟩, 3, 1.5, [0.5, 2]⟩ [10, 5])
    = [10, 5, 5] := by
  rw [list_integral_scale_vec _ (fun _ _ => by norm_num) _ ⟨by norm_num, by norm_num⟩ (by norm_num) _ _ _ (by norm_num)]
  simp [axisScales, padLast]

/-! ## Matern at half-integer orders -/

theorem fact_eq_factorial (n : ℕ) : fact n = n.factorial := by
  induction n with
  | zero => rfl
  | succ n ih => simp [fact, Nat.factorial, ih]

/-- the coefficients leave the signed 64-bit range from `21!` on (so from `p = 11`, where `(2p)! = 22!` appears) -/
theorem fact_21_gt_int64 : 2 ^ 63 < fact 21 := by
  rw [fact_eq_factorial]; decide

theorem maternHalf_12 (h : ℝ) : maternHalfCor 0 h = matern12Cor h := by
  simp only [maternHalfCor, matern12Cor, maternHalfSum, maternHalfCoef, fact_eq_factorial, List.range_succ, List.range_zero]
  simp only [sqrt_real, exp_real, fabs_real]
  norm_num [Nat.factorial]

theorem maternHalf_32 (h : ℝ) : maternHalfCor 1 h = matern32Cor h := by
  simp only [maternHalfCor, matern32Cor, maternHalfSum, maternHalfCoef, fact_eq_factorial, List.range_succ, List.range_zero]
  simp only [sqrt_real, exp_real, fabs_real]
  norm_num [Nat.factorial]
  ring

theorem maternHalf_52 (h : ℝ) : maternHalfCor 2 h = matern52Cor h := by
  simp only [maternHalfCor, matern52Cor, maternHalfSum, maternHalfCoef, fact_eq_factorial, List.range_succ, List.range_zero]
  simp only [sqrt_real, exp_real, fabs_real, npow_real]
  norm_num [Nat.factorial]
  ring

/-- at `y = 0` Horner's rule leaves the last coefficient -/
theorem maternHalfSum_zero (p : ℕ) : maternHalfSum p (0:ℝ) = ((maternHalfCoef p p : ℕ) : ℝ) := by
  simp only [maternHalfSum, List.range_succ, List.foldl_append, List.foldl_cons, List.foldl_nil]
  simp

/-- correlation 1 at lag 0 for EVERY half-integer order -/
theorem maternHalf_zero_lag (p : ℕ) : maternHalfCor p (0:ℝ) = 1 := by
  have hsum := maternHalfSum_zero p
  simp only [maternHalfCor, fabs_real, exp_real, abs_zero, mul_zero, neg_zero, Real.exp_zero, one_mul]
  rw [hsum]
  simp only [maternHalfCoef, Nat.sub_self, fact, mul_one]
  have hdvd : fact p ∣ fact (p + p) := by
    rw [fact_eq_factorial, fact_eq_factorial]; exact Nat.factorial_dvd_factorial (by omega)
  have hp : ((fact p : ℕ) : ℝ) ≠ 0 := by
    rw [fact_eq_factorial]; exact_mod_cast (Nat.factorial_pos p).ne'
  have h2p : ((fact (2 * p) : ℕ) : ℝ) ≠ 0 := by
    rw [fact_eq_factorial]; exact_mod_cast (Nat.factorial_pos _).ne'
  rw [Nat.cast_div hdvd hp, two_mul] at *
  field_simp

/-! ## lags of either sign

A class that supplies `cor` (all shipped classes but the TPL family) gets `correlation_from_cor(r) = cor(|r| / len_rescaled)`:
the sign of the lag is removed BEFORE `cor` is evaluated, so every derived function is even, whatever `cor` does with a
negative argument (several shipped `cor` are written for `h ≥ 0` only).  The per-axis and nugget variants take `|r|`
themselves (axis ≥ 1) or hand the lag to the even isotropic function (axis 0). -/

theorem fromCor_even (p : Par ℝ) (c : ℝ → ℝ) (r : ℝ) :
    (fromCor p c).correlation (-r) = (fromCor p c).correlation r ∧
    (fromCor p c).covariance (-r) = (fromCor p c).covariance r ∧
    (fromCor p c).variogram (-r) = (fromCor p c).variogram r := by
  simp [fromCor, correlationFromCor, dCovariance, dVariogram, fabs_real]

/-- the value at a negative lag is `cor` of a NON-NEGATIVE argument: `cor` is never asked about a negative lag -/
theorem fromCor_neg_lag (p : Par ℝ) (c : ℝ → ℝ) (hl : 0 < p.lenScale) (hs : 0 < p.rescale) (r : ℝ) :
    ∃ h, 0 ≤ h ∧ (fromCor p c).correlation r = c h ∧ (fromCor p c).correlation (-r) = c h := by
  refine ⟨|r| / lenRescaled p, div_nonneg (abs_nonneg r) (lenRescaled_pos hl hs).le, ?_, ?_⟩ <;>
    simp [fromCor, correlationFromCor, fabs_real]

theorem nugget_variants_even (p : Par ℝ) (F : Fns ℝ) (r : ℝ) :
    covNugget p F (-r) = covNugget p F r ∧ varioNugget F (-r) = varioNugget F r := by
  simp [covNugget, varioNugget, fabs_real]

theorem axis_lag_even (anis : List ℝ) (k : ℕ) (r : ℝ) : axisLag anis (k + 1) (-r) = axisLag anis (k + 1) r := by
  simp [axisLag, fabs_real]

/-- a user class given through `correlation`, `covariance` or `variogram` written in terms of `|r|` is even as well -/
theorem userFns_even (route : Route) (K : ℝ → ℝ) (p : Par ℝ) (r : ℝ) :
    (userFns route K p).correlation (-r) = (userFns route K p).correlation r ∧
    (userFns route K p).covariance (-r) = (userFns route K p).covariance r ∧
    (userFns route K p).variogram (-r) = (userFns route K p).variogram r := by
  cases route <;>
    simp [userFns, fromCor, fromCorrelation, fromCovariance, fromVariogram, correlationFromCor, dCovariance, dVariogram,
      dCorrelation, fabs_real]

example : (fromCor exPar exponentialCor).correlation (-2) = (fromCor exPar exponentialCor).correlation 2 :=
  (fromCor_even exPar exponentialCor 2).1

end GSV.Props.C03List
