/-
  C03 — model functions are mutually consistent and match their documented closed forms.

  Theorems about `GSV.Model.CovFn` (the same definitions the driver runs on `Float`) at `ℝ`:
  * the derivation of `variogram / covariance / correlation / cor` by `_init_subclass`, whichever of
    the four a subclass supplies, satisfies the three identities of the property, and the four routes
    yield the same functions;
  * the nugget-aware, per-axis and Yadrenko variants;
  * closed forms: value `1` at lag `0`, agreement of the branches at the edge of the support;
  * integral scales: `∫₀^∞ correlation` as theorems (Mathlib integrals), the scaling
    `len_scale / rescale`, the `integral_scale` setter, the percentile scale.
  Helper lemmas live in `GSV/Lemmas/CovFn.lean`.
-/
import GSV.Lemmas.CovFn
import Mathlib.Topology.Algebra.Order.Field
import Mathlib.Analysis.SpecialFunctions.Gamma.Beta
namespace GSV.Props.C03
open GSV GSV.Transc GSV.Model.CovFn GSV.Lemmas.CovFn MeasureTheory Set

/-! ## derivation of the four functions -/

/-- the three consistency relations of the property for a family of functions -/
structure Consistent (p : Par ℝ) (F : Fns ℝ) : Prop where
  vario : ∀ r, F.variogram r = p.var + p.nugget - F.covariance r
  cov : ∀ r, F.covariance r = p.var * F.correlation r
  cor : ∀ r, 0 ≤ r → F.correlation r = F.cor (p.rescale * r / p.lenScale)

theorem derived_from_cor (p : Par ℝ) (c : ℝ → ℝ) : Consistent p (fromCor p c) := by
  refine ⟨fun r => ?_, fun r => rfl, fun r hr => ?_⟩
  · simp only [fromCor, dVariogram]; ring
  · simp only [fromCor, correlationFromCor, lenRescaled, fabs_real, abs_of_nonneg hr]
    congr 1
    rw [div_div_eq_mul_div, mul_comm]

theorem derived_from_correlation (p : Par ℝ) (c : ℝ → ℝ) (hl : 0 < p.lenScale) (hs : 0 < p.rescale) :
    Consistent p (fromCorrelation p c) := by
  refine ⟨fun r => ?_, fun r => rfl, fun r hr => ?_⟩
  · simp only [fromCorrelation, dVariogram]; ring
  · simp only [fromCorrelation, corFromCorrelation, lenRescaled, fabs_real]
    have h0 : 0 ≤ p.rescale * r / p.lenScale := by positivity
    rw [abs_of_nonneg h0]
    congr 1
    field_simp

theorem derived_from_covariance (p : Par ℝ) (c : ℝ → ℝ) (hv : p.var ≠ 0) (hl : 0 < p.lenScale)
    (hs : 0 < p.rescale) : Consistent p (fromCovariance p c) := by
  refine ⟨fun r => ?_, fun r => ?_, fun r hr => ?_⟩
  · simp only [fromCovariance, dVariogram]; ring
  · simp only [fromCovariance, dCorrelation, dVariogram]; push_cast; field_simp; ring
  · simp only [fromCovariance, corFromCorrelation, lenRescaled, fabs_real]
    have h0 : 0 ≤ p.rescale * r / p.lenScale := by positivity
    rw [abs_of_nonneg h0]
    congr 1
    field_simp

theorem derived_from_variogram (p : Par ℝ) (g : ℝ → ℝ) (hv : p.var ≠ 0) (hl : 0 < p.lenScale)
    (hs : 0 < p.rescale) : Consistent p (fromVariogram p g) := by
  refine ⟨fun r => ?_, fun r => rfl, fun r hr => ?_⟩
  · simp only [fromVariogram, dCovariance, dCorrelation]; push_cast; field_simp; ring
  · simp only [fromVariogram, corFromCorrelation, lenRescaled, fabs_real]
    have h0 : 0 ≤ p.rescale * r / p.lenScale := by positivity
    rw [abs_of_nonneg h0]
    congr 1
    field_simp

/-- two families agree as functions of a lag `≥ 0` -/
def SameOnNonneg (F G : Fns ℝ) : Prop :=
  ∀ r, 0 ≤ r → F.cor r = G.cor r ∧ F.correlation r = G.correlation r ∧
    F.covariance r = G.covariance r ∧ F.variogram r = G.variogram r

theorem lenRescaled_pos {p : Par ℝ} (hl : 0 < p.lenScale) (hs : 0 < p.rescale) : 0 < lenRescaled p :=
  div_pos hl hs

/-- a model defined through `cor`, re-defined through any of the other three functions that the first
    definition produced, has the same four functions -/
theorem routes_agree (p : Par ℝ) (c : ℝ → ℝ) (hv : p.var ≠ 0) (hl : 0 < p.lenScale) (hs : 0 < p.rescale) :
    SameOnNonneg (fromCorrelation p (fromCor p c).correlation) (fromCor p c) ∧
    SameOnNonneg (fromCovariance p (fromCor p c).covariance) (fromCor p c) ∧
    SameOnNonneg (fromVariogram p (fromCor p c).variogram) (fromCor p c) := by
  have hL := lenRescaled_pos hl hs
  have key : ∀ r : ℝ, 0 ≤ r → c (|(|r| * lenRescaled p)| / lenRescaled p) = c r := by
    intro r hr
    rw [abs_of_nonneg hr, abs_of_nonneg (mul_nonneg hr hL.le), mul_div_assoc, div_self hL.ne', mul_one]
  have corr : ∀ r, dCorrelation p (dVariogram p (dCovariance p (correlationFromCor p c))) r
      = correlationFromCor p c r := by
    intro r
    simp only [dCorrelation, dVariogram, dCovariance]; push_cast; field_simp; ring
  refine ⟨fun r hr => ⟨?_, rfl, rfl, rfl⟩, fun r hr => ⟨?_, ?_, rfl, rfl⟩, fun r hr => ⟨?_, ?_, ?_, rfl⟩⟩
  · simp only [fromCorrelation, fromCor, corFromCorrelation, correlationFromCor, fabs_real]
    exact key r hr
  · simp only [fromCovariance, fromCor, corFromCorrelation, corr]
    simp only [correlationFromCor, fabs_real]; exact key r hr
  · simp only [fromCovariance, fromCor, corr]
  · simp only [fromVariogram, fromCor, corFromCorrelation, corr]
    simp only [correlationFromCor, fabs_real]; exact key r hr
  · simp only [fromVariogram, fromCor, corr]
  · simp only [fromVariogram, fromCor, dCovariance, corr]

/-! nugget variants -/

theorem isclose0_iff (r : ℝ) : isclose0 r = true ↔ |r| ≤ 1e-8 := by
  simp [isclose0]

theorem nugget_variants_off_zero (p : Par ℝ) (F : Fns ℝ) (r : ℝ) (h : 1e-8 < |r|) :
    varioNugget F r = F.variogram |r| ∧ covNugget p F r = F.covariance |r| := by
  have : ¬ (isclose0 (fabs r) = true) := by
    rw [isclose0_iff]; simp only [fabs_real, abs_abs]; exact not_le.mpr h
  unfold varioNugget covNugget
  rw [if_neg this, if_neg this]
  exact ⟨rfl, rfl⟩

theorem nugget_variants_at_zero (p : Par ℝ) (F : Fns ℝ) (r : ℝ) (h : |r| ≤ 1e-8) :
    varioNugget F r = 0 ∧ covNugget p F r = p.var + p.nugget := by
  have : isclose0 (fabs r) = true := by
    rw [isclose0_iff]; simpa only [fabs_real, abs_abs] using h
  unfold varioNugget covNugget
  rw [if_pos this, if_pos this]
  exact ⟨by norm_num, rfl⟩

theorem nugget_variants_sum (p : Par ℝ) (F : Fns ℝ) (hF : Consistent p F) (r : ℝ) :
    varioNugget F r + covNugget p F r = p.var + p.nugget := by
  by_cases h : isclose0 (fabs r) = true
  · unfold varioNugget covNugget
    rw [if_pos h, if_pos h]; simp [sill]
  · unfold varioNugget covNugget
    rw [if_neg h, if_neg h, hF.vario]; ring

/-- at lag zero the base functions are `nugget` and `var` (when `cor 0 = 1`), i.e. the nugget-aware
    variants differ from them by exactly the nugget -/
theorem base_at_zero (p : Par ℝ) (F : Fns ℝ) (hF : Consistent p F) (h1 : F.cor 0 = 1) :
    F.correlation 0 = 1 ∧ F.covariance 0 = p.var ∧ F.variogram 0 = p.nugget ∧
    covNugget p F 0 - F.covariance 0 = p.nugget ∧ F.variogram 0 - varioNugget F 0 = p.nugget := by
  have hc : F.correlation 0 = 1 := by rw [hF.cor 0 le_rfl]; simpa using h1
  have hcov : F.covariance 0 = p.var := by rw [hF.cov, hc, mul_one]
  have hvar : F.variogram 0 = p.nugget := by rw [hF.vario, hcov]; ring
  obtain ⟨h0, h0'⟩ := nugget_variants_at_zero p F 0 (by norm_num)
  refine ⟨hc, hcov, hvar, ?_, ?_⟩
  · rw [h0', hcov]; ring
  · rw [h0, hvar]; ring

/-! axis / yadrenko -/

theorem axis_zero (anis : List ℝ) (r : ℝ) : axisLag anis 0 r = some r := rfl

theorem axis_succ (anis : List ℝ) (k : ℕ) (hk : k < anis.length) (r : ℝ) :
    axisLag anis (k + 1) r = some (|r| / anis[k]) := by
  simp [axisLag, hk]

/-- along axis `k+1` the model behaves like the isotropic model with length scale
    `len_scale * anis[k]` (`len_scale_vec`) -/
theorem axis_is_len_scale_vec (p : Par ℝ) (c : ℝ → ℝ) (a r : ℝ) (ha : 0 < a) :
    (fromCor p c).correlation (|r| / a) = (fromCor { p with lenScale := p.lenScale * a } c).correlation r ∧
    (fromCor p c).covariance (|r| / a) = (fromCor { p with lenScale := p.lenScale * a } c).covariance r ∧
    (fromCor p c).variogram (|r| / a) = (fromCor { p with lenScale := p.lenScale * a } c).variogram r := by
  have h : (fromCor p c).correlation (|r| / a)
      = (fromCor { p with lenScale := p.lenScale * a } c).correlation r := by
    simp only [fromCor, correlationFromCor, lenRescaled, fabs_real]
    congr 1
    rw [abs_of_nonneg (by positivity : 0 ≤ |r| / a)]
    rw [div_div, mul_div_right_comm, mul_comm]
  refine ⟨h, ?_, ?_⟩
  · show p.var * (fromCor p c).correlation (|r| / a) = p.var * _
    rw [h]; rfl
  · show p.var - p.var * (fromCor p c).correlation (|r| / a) + p.nugget = p.var - p.var * _ + p.nugget
    rw [h]; rfl

theorem chordal_eq (R ζ : ℝ) : chordal R ζ = 2 * R * Real.sin (ζ / (2 * R)) := by
  simp [chordal]

/-- the Yadrenko lag is the straight-line distance of two points of the sphere of radius `R` that are
    the great-circle distance `ζ ∈ [0, 2πR]` apart -/
theorem chordal_is_chord (R ζ : ℝ) (hR : 0 < R) (h0 : 0 ≤ ζ) (h1 : ζ ≤ 2 * Real.pi * R) :
    Real.sqrt ((R * Real.cos (ζ / R) - R) ^ 2 + (R * Real.sin (ζ / R)) ^ 2) = chordal R ζ := by
  rw [chordal_eq]
  have hθ : ζ / R = 2 * (ζ / (2 * R)) := by field_simp
  set t := ζ / (2 * R) with ht
  have ht0 : 0 ≤ t := by positivity
  have ht1 : t ≤ Real.pi := by
    rw [ht, div_le_iff₀ (by positivity)]; linarith
  have hs : 0 ≤ Real.sin t := Real.sin_nonneg_of_nonneg_of_le_pi ht0 ht1
  have : (R * Real.cos (ζ / R) - R) ^ 2 + (R * Real.sin (ζ / R)) ^ 2 = (2 * R * Real.sin t) ^ 2 := by
    rw [hθ, Real.cos_two_mul, Real.sin_two_mul]
    have := Real.sin_sq_add_cos_sq t
    linear_combination 4 * R ^ 2 * (Real.cos t ^ 2 - 1) * this
  rw [this, Real.sqrt_sq (by positivity)]

/-! ## closed forms -/

/-- every modelled closed form has value `1` at lag `0` -/
theorem cor_zero_eq_one :
    gaussianCor (0:ℝ) = 1 ∧ exponentialCor (0:ℝ) = 1 ∧ (∀ a : ℝ, a ≠ 0 → stableCor a 0 = 1) ∧
    (∀ a : ℝ, rationalCor a 0 = 1) ∧ cubicCor (0:ℝ) = 1 ∧ linearCor (0:ℝ) = 1 ∧ circularCor (0:ℝ) = 1 ∧
    sphericalCor (0:ℝ) = 1 ∧ (∀ nu : ℝ, tplSimpleCor nu 0 = 1) ∧
    (∀ n : ℕ, superSphericalNatCor n (0:ℝ) = 1) ∧ superSphericalHalfCor (0:ℝ) = 1 ∧
    matern12Cor (0:ℝ) = 1 ∧ matern32Cor (0:ℝ) = 1 ∧ matern52Cor (0:ℝ) = 1 ∧ maternLimitCor (0:ℝ) = 1 ∧
    jbessel12Cor (0:ℝ) = 1 ∧ jbessel32Cor (0:ℝ) = 1 :=
  ⟨gaussianCor_zero, exponentialCor_zero, stableCor_zero, rationalCor_zero, cubicCor_zero, linearCor_zero,
   circularCor_zero, sphericalCor_zero, tplSimpleCor_zero, superSphericalNatCor_zero,
   superSphericalHalfCor_zero, matern_zero.1, matern_zero.2.1, matern_zero.2.2.1, matern_zero.2.2.2,
   jbessel_zero.1, jbessel_zero.2⟩

/-- Spherical: the clamped polynomial is the documented polynomial inside the support, vanishes outside,
    and the two branches meet at the edge -/
theorem spherical_support_edge :
    (∀ h : ℝ, |h| ≤ 1 → sphericalCor h = 1 - 1.5 * |h| + 0.5 * |h| ^ 3) ∧
    (∀ h : ℝ, 1 ≤ |h| → sphericalCor h = 0) ∧ sphericalPoly (1:ℝ) = 0 :=
  ⟨sphericalCor_inside, sphericalCor_outside, sphericalPoly_one⟩

theorem cubic_support_edge :
    (∀ h : ℝ, |h| ≤ 1 → cubicCor h = 1 - 7 * |h| ^ 2 + 8.75 * |h| ^ 3 - 3.5 * |h| ^ 5 + 0.75 * |h| ^ 7) ∧
    (∀ h : ℝ, 1 ≤ |h| → cubicCor h = 0) ∧ cubicPoly (1:ℝ) = 0 :=
  ⟨cubicCor_inside, cubicCor_outside, cubicPoly_one⟩

theorem linear_support_edge :
    (∀ h : ℝ, |h| ≤ 1 → linearCor h = 1 - |h|) ∧ (∀ h : ℝ, 1 ≤ |h| → linearCor h = 0) :=
  ⟨linearCor_inside, linearCor_outside⟩

theorem tplSimple_support_edge (nu : ℝ) (hnu : nu ≠ 0) :
    (∀ h : ℝ, |h| ≤ 1 → tplSimpleCor nu h = (1 - |h|) ^ nu) ∧ (∀ h : ℝ, 1 ≤ |h| → tplSimpleCor nu h = 0) :=
  ⟨tplSimpleCor_inside nu, fun h hh => tplSimpleCor_outside nu h hnu hh⟩

/-- Circular: the expression of the inner branch vanishes at `1`, so the strict test `|h| < 1` of the
    code and the documented `≤` describe the same function: `cor = inner ∘ clamp` -/
theorem circular_support_edge :
    circularInner (1:ℝ) = 0 ∧ (∀ h : ℝ, 1 ≤ |h| → circularCor h = 0) ∧
    (∀ h : ℝ, circularCor h = circularInner (min |h| 1)) := by
  have h1 : circularInner (1:ℝ) = 0 := by simp [circularInner]
  refine ⟨h1, fun h hh => ?_, fun h => ?_⟩
  · simp [circularCor, not_lt.mpr hh]
  · by_cases hh : |h| < 1
    · simp [circularCor, hh, min_eq_left hh.le]
    · simp [circularCor, hh, min_eq_right (not_lt.mp hh), h1]

/-- HyperSpherical in `d = 1, 2, 3` is Linear, Circular, Spherical (on lags `h ≥ 0`) -/
theorem hyperSpherical_dims (h : ℝ) (hh : 0 ≤ h) :
    (∃ f, hyperSphericalCor (α := ℝ) 1 = some f ∧ f h = linearCor h) ∧
    (∃ f, hyperSphericalCor (α := ℝ) 2 = some f ∧ f h = circularCor h) ∧
    (∃ f, hyperSphericalCor (α := ℝ) 3 = some f ∧ f h = sphericalCor h) := by
  have ha : |h| = h := abs_of_nonneg hh
  refine ⟨⟨_, rfl, ?_⟩, ⟨_, rfl, ?_⟩, ⟨_, rfl, ?_⟩⟩
  · by_cases h1 : h < 1
    · rw [linearCor_inside h (by rw [ha]; exact h1.le), ha]
      simp [superSphericalNatCor, h1, hyp_zero]
    · rw [linearCor_outside h (by rw [ha]; exact not_lt.mp h1)]
      simp [superSphericalNatCor, h1]
  · simp [superSphericalHalfCor, circularCor, ha]
  · by_cases h1 : h < 1
    · rw [sphericalCor_inside h (by rw [ha]; exact h1.le), ha]
      rw [superSphericalNatCor, if_pos (by simpa using h1)]
      simp only [hyp_one, npow_real]
      norm_num; ring
    · rw [sphericalCor_outside h (by rw [ha]; exact not_lt.mp h1)]
      simp [superSphericalNatCor, h1]

/-- SuperSpherical with a natural `ν = n` (and HyperSpherical in odd dimension `d = 2n + 1`): the model's
    terminating series is the documented `1 - h ₂F₁(1/2, -n; 3/2; h²) / ₂F₁(1/2, -n; 3/2; 1)` with Mathlib's
    Gauss hypergeometric function -/
theorem superSpherical_nat_is_hypergeometric (n : ℕ) (h : ℝ) :
    superSphericalNatCor n h =
      if h < 1 then 1 - h * (1 / ordinaryHypergeometric (1 / 2 : ℝ) (-(n:ℝ)) (3 / 2) (1:ℝ))
        * ordinaryHypergeometric (1 / 2 : ℝ) (-(n:ℝ)) (3 / 2) (h ^ 2)
      else 0 := by
  simp only [superSphericalNatCor, hyp2f1HalfNegNat_eq, npow_real]
  push_cast
  rfl

/-! ## integral scales -/

/-- the integral scale of a model defined through `cor` is `len_scale / rescale` times that of `cor` -/
theorem integral_scale_scaling (p : Par ℝ) (c : ℝ → ℝ) (hl : 0 < p.lenScale) (hs : 0 < p.rescale) :
    ∫ r in Ioi (0:ℝ), (fromCor p c).correlation r = integralScale p (∫ h in Ioi (0:ℝ), c h) := by
  simp only [fromCor, correlationFromCor, fabs_real, integralScale]
  exact integral_scale_lag c _ (lenRescaled_pos hl hs)

theorem integral_scale_gaussian (p : Par ℝ) (hl : 0 < p.lenScale) (hs : 0 < p.rescale) :
    ∫ r in Ioi (0:ℝ), (fromCor p gaussianCor).correlation r = integralScale p gaussianCorIntegral := by
  rw [integral_scale_scaling p _ hl hs, integral_gaussianCor]; simp [gaussianCorIntegral]

theorem integral_scale_exponential (p : Par ℝ) (hl : 0 < p.lenScale) (hs : 0 < p.rescale) :
    ∫ r in Ioi (0:ℝ), (fromCor p exponentialCor).correlation r = integralScale p exponentialCorIntegral := by
  rw [integral_scale_scaling p _ hl hs, integral_exponentialCor]; simp [exponentialCorIntegral]

/-- `Stable.calc_integral_scale = len_rescaled * Γ(1 + 1/α)` -/
theorem integral_scale_stable (p : Par ℝ) (a : ℝ) (ha : 0 < a) (hl : 0 < p.lenScale) (hs : 0 < p.rescale) :
    ∫ r in Ioi (0:ℝ), (fromCor p (stableCor a)).correlation r
      = lenRescaled p * Real.Gamma (1 + 1 / a) := by
  rw [integral_scale_scaling p _ hl hs, integral_stableCor a ha]; rfl

theorem integral_scale_linear (p : Par ℝ) (hl : 0 < p.lenScale) (hs : 0 < p.rescale) :
    ∫ r in Ioi (0:ℝ), (fromCor p linearCor).correlation r = integralScale p linearCorIntegral := by
  rw [integral_scale_scaling p _ hl hs,
    integral_Ioi_eq_unit _ (fun x hx => linearCor_outside x (by rw [abs_of_pos (by linarith)]; exact hx.le)),
    integral_linear_unit]
  simp [linearCorIntegral]

theorem integral_scale_spherical (p : Par ℝ) (hl : 0 < p.lenScale) (hs : 0 < p.rescale) :
    ∫ r in Ioi (0:ℝ), (fromCor p sphericalCor).correlation r = integralScale p sphericalCorIntegral := by
  rw [integral_scale_scaling p _ hl hs,
    integral_Ioi_eq_unit _ (fun x hx => sphericalCor_outside x (by rw [abs_of_pos (by linarith)]; exact hx.le)),
    integral_spherical_unit]
  simp [sphericalCorIntegral]

theorem integral_scale_cubic (p : Par ℝ) (hl : 0 < p.lenScale) (hs : 0 < p.rescale) :
    ∫ r in Ioi (0:ℝ), (fromCor p cubicCor).correlation r = integralScale p cubicCorIntegral := by
  rw [integral_scale_scaling p _ hl hs,
    integral_Ioi_eq_unit _ (fun x hx => cubicCor_outside x (by rw [abs_of_pos (by linarith)]; exact hx.le)),
    integral_cubic_unit]
  simp [cubicCorIntegral]

theorem integral_scale_tplSimple (p : Par ℝ) (nu : ℝ) (hnu : 0 < nu) (hl : 0 < p.lenScale)
    (hs : 0 < p.rescale) :
    ∫ r in Ioi (0:ℝ), (fromCor p (tplSimpleCor nu)).correlation r
      = integralScale p (tplSimpleCorIntegral nu) := by
  rw [integral_scale_scaling p _ hl hs,
    integral_Ioi_eq_unit _ (fun x hx => tplSimpleCor_outside nu x hnu.ne'
      (by rw [abs_of_pos (by linarith)]; exact hx.le)),
    integral_tplSimple_unit nu hnu]
  simp [tplSimpleCorIntegral]

theorem integral_scale_circular (p : Par ℝ) (hl : 0 < p.lenScale) (hs : 0 < p.rescale) :
    ∫ r in Ioi (0:ℝ), (fromCor p circularCor).correlation r = integralScale p circularCorIntegral := by
  rw [integral_scale_scaling p _ hl hs,
    integral_Ioi_eq_unit _ (fun x hx => by
      have : ¬ |x| < 1 := by rw [abs_of_pos (by linarith)]; exact not_lt.mpr hx.le
      simp [circularCor, this]),
    integral_circular_unit]
  simp [circularCorIntegral]

/-- Matern on the slices `ν = 1/2, 3/2, 5/2` where `K_ν` is elementary -/
theorem integral_scale_matern_slices (p : Par ℝ) (hl : 0 < p.lenScale) (hs : 0 < p.rescale) :
    ∫ r in Ioi (0:ℝ), (fromCor p matern12Cor).correlation r = integralScale p matern12CorIntegral ∧
    ∫ r in Ioi (0:ℝ), (fromCor p matern32Cor).correlation r = integralScale p matern32CorIntegral ∧
    ∫ r in Ioi (0:ℝ), (fromCor p matern52Cor).correlation r = integralScale p matern52CorIntegral := by
  refine ⟨?_, ?_, ?_⟩
  · rw [integral_scale_scaling p _ hl hs, integral_matern12Cor]; simp [matern12CorIntegral]
  · rw [integral_scale_scaling p _ hl hs, integral_matern32Cor]; simp [matern32CorIntegral]
  · rw [integral_scale_scaling p _ hl hs, integral_matern52Cor]; simp [matern52CorIntegral]

/-- Rational on the slice `α = 1` -/
theorem integral_scale_rational_one (p : Par ℝ) (hl : 0 < p.lenScale) (hs : 0 < p.rescale) :
    ∫ r in Ioi (0:ℝ), (fromCor p (rationalCor 1)).correlation r = lenRescaled p * (Real.pi / 2) := by
  rw [integral_scale_scaling p _ hl hs, integral_rationalCor_one]; rfl

/-- the closed forms returned by `Gaussian.calc_integral_scale` and `Exponential.calc_integral_scale`
    are the integral of the correlation; with the default rescale `√π/2` the Gaussian length scale *is*
    the integral scale -/
theorem reported_integral_scale (p : Par ℝ) (hl : 0 < p.lenScale) (hs : 0 < p.rescale) :
    gaussianCalcIS p = ∫ r in Ioi (0:ℝ), (fromCor p gaussianCor).correlation r ∧
    exponentialCalcIS p = ∫ r in Ioi (0:ℝ), (fromCor p exponentialCor).correlation r ∧
    (p.rescale = gaussianRescale → gaussianCalcIS p = p.lenScale) := by
  refine ⟨?_, ?_, fun h => ?_⟩
  · rw [integral_scale_gaussian p hl hs]; simp [gaussianCalcIS, integralScale, gaussianCorIntegral]; ring
  · rw [integral_scale_exponential p hl hs]; simp [exponentialCalcIS, integralScale, exponentialCorIntegral]
  · have hpi : (0:ℝ) < Real.sqrt Real.pi := Real.sqrt_pos.mpr Real.pi_pos
    simp only [gaussianCalcIS, lenRescaled, h, gaussianRescale, sqrt_real, pi_real]
    push_cast
    field_simp

/-- prescribing the integral scale: if `calc_integral_scale` is `len_rescaled * I₀` (which is what
    `integral_scale_scaling` shows for every model), then after the setter the reported scale is the
    prescribed one -/
theorem integral_scale_setter (calcIS : Par ℝ → ℝ) (I0 : ℝ) (hI0 : I0 ≠ 0)
    (hcalc : ∀ q, calcIS q = lenRescaled q * I0) (p : Par ℝ) (hs : p.rescale ≠ 0) (I : ℝ) :
    calcIS (setIntegralScale calcIS p I) = I := by
  simp only [setIntegralScale, hcalc, lenRescaled]
  push_cast
  field_simp

/-- the percentile scale: a root `x` of the curve `1 - correlation(x) - per` that
    `tools.percentile_scale` hands to the root finder is a lag at which the variogram has risen by the
    fraction `per` of the variance -/
theorem percentile_spec (p : Par ℝ) (F : Fns ℝ) (hF : Consistent p F) (x per : ℝ)
    (hroot : 1 - F.correlation x - per = 0) : F.variogram x = p.nugget + per * p.var := by
  have : F.correlation x = 1 - per := by linarith
  rw [hF.vario, hF.cov, this]; ring

/-- closed form of the percentile scale of the Exponential and Gaussian models -/
theorem percentile_exponential_gaussian (p : Par ℝ) (per : ℝ) (h0 : 0 < per) (h1 : per < 1)
    (hl : 0 < p.lenScale) (hs : 0 < p.rescale) :
    1 - (fromCor p exponentialCor).correlation (lenRescaled p * -Real.log (1 - per)) - per = 0 ∧
    1 - (fromCor p gaussianCor).correlation (lenRescaled p * Real.sqrt (-Real.log (1 - per))) - per = 0 := by
  have hL := lenRescaled_pos hl hs
  have hlog : 0 ≤ -Real.log (1 - per) := by
    have := Real.log_nonpos (by linarith : 0 ≤ 1 - per) (by linarith); linarith
  have hexp : Real.exp (Real.log (1 - per)) = 1 - per := Real.exp_log (by linarith)
  constructor
  · simp only [fromCor, correlationFromCor, exponentialCor, fabs_real, exp_real]
    rw [abs_of_nonneg (mul_nonneg hL.le hlog), mul_div_assoc, mul_comm, div_mul_cancel₀ _ hL.ne',
      neg_neg, hexp]
    ring
  · simp only [fromCor, correlationFromCor, gaussianCor, fabs_real, exp_real, npow_real]
    rw [abs_of_nonneg (mul_nonneg hL.le (Real.sqrt_nonneg _)), mul_div_assoc, mul_comm,
      div_mul_cancel₀ _ hL.ne', Real.sq_sqrt hlog, neg_neg, hexp]
    ring

/-- the compactly supported closed forms are continuous: the branches of the code agree at the edge -/
theorem compact_support_continuous :
    Continuous (sphericalCor : ℝ → ℝ) ∧ Continuous (cubicCor : ℝ → ℝ) ∧ Continuous (linearCor : ℝ → ℝ) ∧
    Continuous (circularCor : ℝ → ℝ) ∧ (∀ nu : ℝ, 0 < nu → Continuous (tplSimpleCor nu : ℝ → ℝ)) := by
  refine ⟨?_, ?_, ?_, ?_, fun nu hnu => ?_⟩
  · have : (sphericalCor : ℝ → ℝ) = fun h => 1 - 1.5 * min |h| 1 + 0.5 * (min |h| 1) ^ 3 := by
      funext h; simp [sphericalCor, sphericalPoly, fmin_real]
    rw [this]; fun_prop
  · have : (cubicCor : ℝ → ℝ) = fun h => 1 - 7 * (min |h| 1) ^ 2 + 8.75 * (min |h| 1) ^ 3
        - 3.5 * (min |h| 1) ^ 5 + 0.75 * (min |h| 1) ^ 7 := by
      funext h; simp [cubicCor, cubicPoly, fmin_real]
    rw [this]; fun_prop
  · have : (linearCor : ℝ → ℝ) = fun h => max (1 - |h|) 0 := by
      funext h; simp [linearCor, fmax_real]
    rw [this]; fun_prop
  · have : (circularCor : ℝ → ℝ) = fun h => circularInner (min |h| 1) := by
      funext h; exact circular_support_edge.2.2 h
    rw [this]
    have hi : Continuous (circularInner : ℝ → ℝ) := by
      have : (circularInner : ℝ → ℝ) = fun h => 2 / Real.pi * (Real.arccos h - h * Real.sqrt (1 - h ^ 2)) := by
        funext h; simp [circularInner]
      rw [this]
      have := Real.continuous_arccos
      fun_prop
    exact hi.comp (by fun_prop)
  · have : (tplSimpleCor nu : ℝ → ℝ) = fun h => (max (1 - |h|) 0) ^ nu := by
      funext h; simp [tplSimpleCor, fmax_real]
    rw [this]
    exact Continuous.rpow_const (by fun_prop) (fun h => Or.inr hnu.le)

/-- prescribing the integral scale of a model defined through `cor`: after the setter the integral of the
    correlation over all lags is the prescribed value -/
theorem integral_scale_setter_cor (c : ℝ → ℝ) (hI0 : 0 < ∫ h in Ioi (0:ℝ), c h) (p : Par ℝ)
    (hs : 0 < p.rescale) (I : ℝ) (hI : 0 < I) :
    let calcIS : Par ℝ → ℝ := fun q => lenRescaled q * ∫ h in Ioi (0:ℝ), c h
    ∫ r in Ioi (0:ℝ), (fromCor (setIntegralScale calcIS p I) c).correlation r = I := by
  intro calcIS
  have hset : calcIS (setIntegralScale calcIS p I) = I :=
    integral_scale_setter calcIS _ hI0.ne' (fun q => rfl) p hs.ne' I
  have hlen : 0 < (setIntegralScale calcIS p I).lenScale := by
    simp only [setIntegralScale, calcIS, lenRescaled]
    push_cast
    positivity
  rw [integral_scale_scaling _ c hlen hs]
  exact hset

/-- `Stable.calc_integral_scale = len_rescaled * Γ(1 + 1/α)` (uses `scipy.special.gamma`, not in the driver) -/
noncomputable def stableCalcIS (a : ℝ) (p : Par ℝ) : ℝ := lenRescaled p * Real.Gamma (1 + 1 / a)

/-- `Matern.calc_integral_scale = len_rescaled * π / √ν / B(ν, 1/2)`, `B(a, b) = Γ(a) Γ(b) / Γ(a + b)` -/
noncomputable def maternCalcIS (nu : ℝ) (p : Par ℝ) : ℝ :=
  lenRescaled p * Real.pi / Real.sqrt nu / (Real.Gamma nu * Real.Gamma (1 / 2) / Real.Gamma (nu + 1 / 2))

/-- `Rational.calc_integral_scale = len_rescaled * √(π α) * Γ(α - 1/2) / Γ(α) / 2` -/
noncomputable def rationalCalcIS (a : ℝ) (p : Par ℝ) : ℝ :=
  lenRescaled p * Real.sqrt (Real.pi * a) * Real.Gamma (a - 1 / 2) / Real.Gamma a / 2

theorem gamma_three_halves : Real.Gamma (3 / 2) = Real.sqrt Real.pi / 2 := by
  have := Real.Gamma_add_one (s := 1 / 2) (by norm_num)
  rw [Real.Gamma_one_half_eq] at this
  rw [show (3:ℝ) / 2 = 1 / 2 + 1 by norm_num, this]; ring

theorem gamma_five_halves : Real.Gamma (5 / 2) = 3 * Real.sqrt Real.pi / 4 := by
  have := Real.Gamma_add_one (s := 3 / 2) (by norm_num)
  rw [gamma_three_halves] at this
  rw [show (5:ℝ) / 2 = 3 / 2 + 1 by norm_num, this]; ring

/-- the special-function closed forms of `calc_integral_scale` are the integral of the correlation:
    Stable for every `α > 0`; Matern at `ν = 1/2, 3/2, 5/2`; Rational at `α = 1` -/
theorem reported_integral_scale_special (p : Par ℝ) (hl : 0 < p.lenScale) (hs : 0 < p.rescale) :
    (∀ a : ℝ, 0 < a → stableCalcIS a p = ∫ r in Ioi (0:ℝ), (fromCor p (stableCor a)).correlation r) ∧
    maternCalcIS (1 / 2) p = ∫ r in Ioi (0:ℝ), (fromCor p matern12Cor).correlation r ∧
    maternCalcIS (3 / 2) p = ∫ r in Ioi (0:ℝ), (fromCor p matern32Cor).correlation r ∧
    maternCalcIS (5 / 2) p = ∫ r in Ioi (0:ℝ), (fromCor p matern52Cor).correlation r ∧
    rationalCalcIS 1 p = ∫ r in Ioi (0:ℝ), (fromCor p (rationalCor 1)).correlation r := by
  have hpi : Real.sqrt Real.pi * Real.sqrt Real.pi = Real.pi := Real.mul_self_sqrt Real.pi_pos.le
  have hpi0 : Real.sqrt Real.pi ≠ 0 := (Real.sqrt_pos.mpr Real.pi_pos).ne'
  obtain ⟨h12, h32, h52⟩ := integral_scale_matern_slices p hl hs
  refine ⟨fun a ha => (integral_scale_stable p a ha hl hs).symm, ?_, ?_, ?_, ?_⟩
  · rw [h12]
    simp only [maternCalcIS, integralScale, matern12CorIntegral, sqrt_real]
    rw [show (1:ℝ) / 2 + 1 / 2 = 1 by norm_num, Real.Gamma_one, Real.Gamma_one_half_eq,
      show (0.5:ℝ) = 1 / 2 by norm_num]
    push_cast
    have h2 : Real.sqrt (1 / 2) ≠ 0 := (Real.sqrt_pos.mpr (by norm_num)).ne'
    field_simp
    rw [Real.sq_sqrt Real.pi_pos.le]
    try ring
  · rw [h32]
    simp only [maternCalcIS, integralScale, matern32CorIntegral, sqrt_real]
    rw [show (3:ℝ) / 2 + 1 / 2 = 2 by norm_num, Real.Gamma_two, Real.Gamma_one_half_eq, gamma_three_halves,
      show (1.5:ℝ) = 3 / 2 by norm_num]
    push_cast
    have h2 : Real.sqrt (3 / 2) ≠ 0 := (Real.sqrt_pos.mpr (by norm_num)).ne'
    field_simp
    rw [Real.sq_sqrt Real.pi_pos.le]
    try ring
  · rw [h52]
    simp only [maternCalcIS, integralScale, matern52CorIntegral, sqrt_real]
    rw [show (5:ℝ) / 2 + 1 / 2 = 2 + 1 by norm_num, Real.Gamma_add_one (by norm_num), Real.Gamma_two,
      Real.Gamma_one_half_eq, gamma_five_halves, show (2.5:ℝ) = 5 / 2 by norm_num]
    push_cast
    have h2 : Real.sqrt (5 / 2) ≠ 0 := (Real.sqrt_pos.mpr (by norm_num)).ne'
    field_simp
    rw [Real.sq_sqrt Real.pi_pos.le]
    try ring
  · rw [integral_scale_rational_one p hl hs]
    simp only [rationalCalcIS]
    rw [show (1:ℝ) - 1 / 2 = 1 / 2 by norm_num, Real.Gamma_one, Real.Gamma_one_half_eq, mul_one]
    have : lenRescaled p * Real.sqrt Real.pi * Real.sqrt Real.pi = lenRescaled p * Real.pi := by
      rw [mul_assoc, hpi]
    rw [this]; ring

/-! ## tools/special.py: the plumbing of the exponential-integral families -/

/-- integer-order shortcut of `exp_int`: the order handed to `scipy.special.expn` is THE integer nearest to `s`,
    it is non-negative, and `s` lies within the `np.isclose` band of it -/
theorem expIntPlan_expn_spec (s : ℝ) (n : ℤ) (h : expIntPlan s = .expn n) :
    n = round s ∧ |s - n| ≤ 1e-8 + 1e-5 * |(n:ℝ)| ∧ 0 ≤ n ∧ |s - n| ≤ 1 / 2 := by
  unfold expIntPlan at h
  split_ifs at h with h1 h2
  simp only [Bool.and_eq_true, decide_eq_true_eq, around_real] at h2
  obtain ⟨hc, hs⟩ := h2
  have hn : round s = n := by injection h
  subst hn
  rw [iscloseTo_iff] at hc
  refine ⟨rfl, hc, ?_, abs_sub_round s⟩
  rw [round_eq]
  exact Int.floor_nonneg.mpr (by norm_num at hs ⊢; linarith)

/-- conversely: an order inside the `np.isclose` band of an integer `m ≥ 0` (other than the `exp1` band around 1)
    is evaluated as `expn(m, ·)` — never as a neighbouring integer order -/
theorem expIntPlan_of_integer_close (s : ℝ) (m : ℤ) (hm : |s - m| ≤ 1e-8 + 1e-5 * |(m:ℝ)|)
    (hbig : |(m:ℝ)| ≤ 40000) (h1 : ¬ |s - 1| ≤ 1e-8 + 1e-5) (hs : -(0.5:ℝ) < s) :
    expIntPlan s = .expn m := by
  have hr : round s = m := round_eq_of_abs_sub_lt (by
    calc |s - m| ≤ 1e-8 + 1e-5 * |(m:ℝ)| := hm
      _ ≤ 1e-8 + 1e-5 * 40000 := by gcongr
      _ < 1 / 2 := by norm_num)
  unfold expIntPlan
  have c1 : iscloseTo s (1:ℝ) = false := by
    rw [iscloseTo_false_iff]; simpa using h1
  have c2 : iscloseTo s (((HasRound.around s : ℤ)) : ℝ) = true := by
    rw [iscloseTo_iff, around_real, hr]; exact hm
  rw [around_real, hr] at c2
  simp [c1, c2, hs, hr]

/-- exact integer orders `m ≥ 2` -/
theorem expIntPlan_int (m : ℤ) (hm : 2 ≤ m) (hbig : m ≤ 40000) : expIntPlan ((m:ℤ):ℝ) = .expn m := by
  have h2 : (2:ℝ) ≤ m := by exact_mod_cast hm
  have h4 : (m:ℝ) ≤ 40000 := by exact_mod_cast hbig
  apply expIntPlan_of_integer_close
  · simp; positivity
  · rw [abs_of_nonneg (by linarith)]; exact h4
  · rw [abs_of_nonneg (by linarith)]; norm_num; linarith
  · linarith

/-- `G(·, x)` satisfies the recurrence of the upper incomplete gamma function:
    `Γ(a + 1, x) = a Γ(a, x) + x^a e^{-x}` -/
def GammaRec (G : ℝ → ℝ → ℝ) (x : ℝ) : Prop := ∀ a : ℝ, G (a + 1) x = a * G a x + x ^ a * Real.exp (-x)

/-- the scipy primitives return the values of `G` at `x`: `gamma(a) gammaincc(a, x) = Γ(a, x)` for `a ≥ 0`,
    `exp1(x) = Γ(0, x)`, `x^{1-n} expn(n, x) = Γ(1 - n, x)` -/
structure PrimsExact (P : Prims ℝ) (G : ℝ → ℝ → ℝ) (x : ℝ) : Prop where
  gammaQ : ∀ a : ℝ, 0 ≤ a → P.gammaQ a x = G a x
  exp1 : P.exp1 x = G 0 x
  expn : ∀ n : ℤ, 1 ≤ n → x ^ ((1:ℝ) - n) * P.expn n x = G (1 - n) x

/-- no shortcut of `inc_gamma` fires on `s`, `s + 1`, `s + 2`, …: none of them is within `1e-8` of `0` or inside the
    `np.isclose` band of an integer below `-0.5` -/
def NoSnap (s : ℝ) : Prop :=
  ∀ k : ℕ, ¬ |s + k| ≤ 1e-8 ∧
    ¬ (|s + k - round (s + k)| ≤ 1e-8 + 1e-5 * |((round (s + k) : ℤ) : ℝ)| ∧ s + k < -(0.5:ℝ))

theorem NoSnap.succ {s : ℝ} (h : NoSnap s) : NoSnap (s + 1) := by
  intro k
  have := h (k + 1)
  push_cast at this
  rw [show s + 1 + (k:ℝ) = s + ((k:ℝ) + 1) by ring]
  exact this

theorem incGammaPlan_step (fuel : ℕ) (s : ℝ) (h : NoSnap s) :
    incGammaPlan (fuel + 1) s = if s < 0 then .down s (incGammaPlan fuel (s + 1)) else .gammaQ s := by
  have h0 := h 0
  simp only [Nat.cast_zero, add_zero] at h0
  have c1 : iscloseTo s (0:ℝ) = false := by
    rw [iscloseTo_false_iff]; simpa using h0.1
  have c2 : (iscloseTo s ((round s : ℤ) : ℝ) && decide (s < -(0.5:ℝ))) = false := by
    by_contra hc
    simp only [Bool.not_eq_false, Bool.and_eq_true, decide_eq_true_eq] at hc
    exact h0.2 ⟨(iscloseTo_iff _ _).mp hc.1, hc.2⟩
  simp only [incGammaPlan, around_real, Nat.cast_zero, Nat.cast_one, c1, c2, Bool.false_eq_true, if_false]

/-- `inc_gamma(s, x)` is `Γ(s, x)`: off the shortcut bands the recursion to a base in `[0, 1)` reproduces the function
    the primitives compute, for every order `s > -fuel` -/
theorem incGamma_correct (P : Prims ℝ) (G : ℝ → ℝ → ℝ) (x : ℝ) (hrec : GammaRec G x) (hP : PrimsExact P G x) :
    ∀ (fuel : ℕ) (s : ℝ), -(fuel:ℝ) < s → NoSnap s → incGamma P (fuel + 1) s x = some (G s x) := by
  intro fuel
  induction fuel with
  | zero =>
    intro s hs hn
    have hs0 : ¬ s < 0 := by simpa using hs.le
    simp only [incGamma, incGammaPlan_step 0 s hn, if_neg hs0, evalG]
    rw [hP.gammaQ s (by simpa using hs.le)]
  | succ fuel ih =>
    intro s hs hn
    simp only [incGamma, incGammaPlan_step (fuel + 1) s hn]
    by_cases h0 : s < 0
    · have hs1 : -(fuel:ℝ) < s + 1 := by push_cast at hs; linarith
      have := ih (s + 1) hs1 hn.succ
      simp only [incGamma] at this
      simp only [if_pos h0, evalG, this, Option.map_some, rpow_real, exp_real]
      congr 1
      rw [hrec s]
      field_simp [h0.ne]
      ring
    · simp only [if_neg h0, evalG]
      rw [hP.gammaQ s (not_lt.mp h0)]

/-- at a non-positive integer order the code uses `Γ(-m, x) = x^{-m} E_{m+1}(x)` -/
theorem incGamma_nonpos_int (P : Prims ℝ) (G : ℝ → ℝ → ℝ) (x : ℝ) (hP : PrimsExact P G x) (m : ℕ) (fuel : ℕ) :
    incGamma P (fuel + 1) (-(m:ℝ)) x = some (G (-(m:ℝ)) x) := by
  rcases Nat.eq_zero_or_pos m with rfl | hm
  · have c1 : iscloseTo (0:ℝ) (0:ℝ) = true := by rw [iscloseTo_iff]; norm_num
    simp [incGamma, incGammaPlan, c1, evalG, hP.exp1]
  · have hm1 : (1:ℝ) ≤ m := by exact_mod_cast hm
    have c1 : iscloseTo (-(m:ℝ)) (0:ℝ) = false := by
      rw [iscloseTo_false_iff]; simp only [sub_zero, abs_neg, abs_zero, mul_zero, add_zero, not_le]
      rw [abs_of_nonneg (by linarith)]; linarith
    have hr : round (-(m:ℝ)) = -(m:ℤ) := by
      have : (-(m:ℝ)) = ((-(m:ℤ) : ℤ) : ℝ) := by push_cast; ring
      rw [this, round_intCast]
    have c2 : iscloseTo (-(m:ℝ)) (((-(m:ℤ)) : ℤ) : ℝ) = true := by
      rw [iscloseTo_iff]; push_cast; simp; positivity
    have c3 : (-(m:ℝ)) < -(0.5:ℝ) := by linarith
    have := hP.expn ((m:ℤ) + 1) (by omega)
    push_cast at this
    simp only [incGamma, incGammaPlan, around_real, hr, Nat.cast_zero, c1, c2, c3, Bool.false_eq_true, if_false,
      Bool.true_and, decide_true, if_true, evalG, rpow_real]
    rw [← show (1:ℝ) - ((m:ℝ) + 1) = -(m:ℝ) by ring]
    have e : (1 - -(m:ℤ)) = ((m:ℤ) + 1) := by ring
    rw [e]
    exact congrArg some (by simpa using this)

/-- integer-order branch of `exp_int`: the value is `expn(n, x)` for every `x` -/
theorem expInt_expn (P : Prims ℝ) (fuel : ℕ) (s x : ℝ) (n : ℤ) (h : expIntPlan s = .expn n) :
    expInt P fuel s x = .ok (P.expn n x) := by
  simp [expInt, h]

/-- general branch of `exp_int` on a regular argument: `E_s(x) = x^{s-1} Γ(1 - s, x)` with the `Γ` the primitives
    compute -/
theorem expInt_general_fin (P : Prims ℝ) (G : ℝ → ℝ → ℝ) (x : ℝ) (hrec : GammaRec G |x|) (hP : PrimsExact P G |x|)
    (fuel : ℕ) (s : ℝ) (hplan : expIntPlan s = .general) (hcls : expIntClass s x = .fin)
    (hf : -(fuel:ℝ) < 1 - s) (hn : NoSnap (1 - s)) :
    expInt P (fuel + 1) s x = .ok (G (1 - s) |x| * |x| ^ (s - 1)) := by
  have := incGamma_correct P G |x| hrec hP fuel (1 - s) hf hn
  simp only [expInt, hplan, hcls, fabs_real, Nat.cast_one, this, rpow_real]

/-! affine expansion used by the harness -/

theorem aff_eval_const (E : ℝ → ℝ → ℝ) (c : ℝ) : Aff.eval E ((affAlg (α := ℝ)).const c) = c := by
  simp [affAlg, Aff.eval]

theorem aff_eval_E (E : ℝ → ℝ → ℝ) (s x : ℝ) : Aff.eval E ((affAlg (α := ℝ)).E s x) = E s x := by
  simp [affAlg, Aff.eval]

theorem aff_eval_smul (E : ℝ → ℝ → ℝ) (a : ℝ) (f : Aff ℝ) :
    Aff.eval E ((affAlg (α := ℝ)).smul a f) = a * Aff.eval E f := by
  obtain ⟨c, ts⟩ := f
  simp only [affAlg, Aff.eval_eq, List.map_map]
  induction ts with
  | nil => simp
  | cons t ts ih =>
    simp only [List.map_cons, List.sum_cons, Function.comp_apply] at ih ⊢
    linarith

theorem aff_eval_sdiv (E : ℝ → ℝ → ℝ) (d : ℝ) (f : Aff ℝ) :
    Aff.eval E ((affAlg (α := ℝ)).sdiv f d) = Aff.eval E f / d := by
  obtain ⟨c, ts⟩ := f
  simp only [affAlg, Aff.eval_eq, List.map_map]
  induction ts with
  | nil => simp
  | cons t ts ih =>
    simp only [List.map_cons, List.sum_cons, Function.comp_apply] at ih ⊢
    rw [show c / d + (t.1 / d * E t.2.1 t.2.2 + (List.map ((fun t => t.1 * E t.2.1 t.2.2) ∘ fun t => (t.1 / d, t.2)) ts).sum)
        = (c / d + (List.map ((fun t => t.1 * E t.2.1 t.2.2) ∘ fun t => (t.1 / d, t.2)) ts).sum) + t.1 * E t.2.1 t.2.2 / d by ring,
      ih]
    ring

theorem aff_eval_sub (E : ℝ → ℝ → ℝ) (f g : Aff ℝ) :
    Aff.eval E ((affAlg (α := ℝ)).sub f g) = Aff.eval E f - Aff.eval E g := by
  obtain ⟨c, ts⟩ := f
  obtain ⟨c', ts'⟩ := g
  simp only [affAlg, Aff.eval_eq, List.map_append, List.sum_append, List.map_map]
  have : (List.map ((fun t => t.1 * E t.2.1 t.2.2) ∘ fun t => (-t.1, t.2)) ts').sum
      = -(List.map (fun t => t.1 * E t.2.1 t.2.2) ts').sum := by
    induction ts' with
    | nil => simp
    | cons t ts ih => simp only [List.map_cons, List.sum_cons, Function.comp_apply] at ih ⊢; rw [ih]; ring
  rw [this]; ring

/-- the harness evaluates `tplstable_cor` as `const + Σ coef · exp_int(s, x)`: that is the model's function -/
theorem tplstableCor_aff (E : ℝ → ℝ → ℝ) (r len hurst alpha : ℝ) :
    Aff.eval E (tplstableCorG affAlg r len hurst alpha) = tplstableCorG (totalAlg E) r len hurst alpha := by
  unfold tplstableCorG
  dsimp only
  split_ifs
  · rw [aff_eval_const]; rfl
  · rw [aff_eval_smul, aff_eval_E]; rfl

theorem integralCor_aff (E : ℝ → ℝ → ℝ) (nu h : ℝ) :
    Aff.eval E (integralCorG affAlg nu h) = integralCorG (totalAlg E) nu h := by
  unfold integralCorG
  rw [aff_eval_smul, aff_eval_E]; rfl

theorem tplCorrelation_aff (E : ℝ → ℝ → ℝ) (lenScale lenLow rescale hurst alpha r : ℝ) :
    Aff.eval E (tplCorrelationG affAlg lenScale lenLow rescale hurst alpha r)
      = tplCorrelationG (totalAlg E) lenScale lenLow rescale hurst alpha r := by
  unfold tplCorrelationG
  dsimp only
  split_ifs with h
  · exact tplstableCor_aff E _ _ _ _
  · rw [aff_eval_sdiv, aff_eval_sub, aff_eval_smul, aff_eval_smul, tplstableCor_aff, tplstableCor_aff]; rfl


/-! ## derived scales after in-place parameter changes -/

/-- what the setters accept for the parameters the integral scale depends on -/
def OpAdmissible : MOp ℝ → Prop
  | .setLenScale v => 0 < v
  | .setRescale v => 0 < v
  | .setIntegralScale I => 0 < I
  | _ => True

structure MAdmissible (st : MState ℝ) : Prop where
  lenScale : 0 < st.par.lenScale
  rescale : 0 < st.par.rescale

theorem mstep_admissible (ci : ℕ → ℝ → ℝ) (hpos : ∀ d a, 0 < ci d a) (st : MState ℝ) (op : MOp ℝ)
    (hst : MAdmissible st) (hop : OpAdmissible op) : MAdmissible (mstep ci st op) := by
  obtain ⟨hl, hr⟩ := hst
  cases op <;> simp only [mstep, OpAdmissible] at hop ⊢ <;> try exact ⟨by assumption, by assumption⟩
  case setIntegralScale I =>
    refine ⟨?_, hr⟩
    simp only [setIntegralScale, integralScale, lenRescaled]
    have := hpos st.dim st.shape
    push_cast
    positivity

theorem mrun_admissible (ci : ℕ → ℝ → ℝ) (hpos : ∀ d a, 0 < ci d a) (ops : List (MOp ℝ)) :
    ∀ st : MState ℝ, MAdmissible st → (∀ op ∈ ops, OpAdmissible op) → MAdmissible (mrun ci st ops) := by
  induction ops with
  | nil => intro st h _; exact h
  | cons op ops ih =>
    intro st h hops
    simp only [mrun, List.foldl_cons]
    exact ih _ (mstep_admissible ci hpos st op h (hops op (by simp))) (fun o ho => hops o (by simp [ho]))

/-- After ANY admissible sequence of in-place changes (optional argument, dimension, len_scale, rescale, var, nugget,
    anis, prescribed integral scale) the reported integral scale is the integral over all lags of the correlation of
    the CURRENT parameters — the value a freshly built model with these parameters reports.  `K d a` is the `cor` of
    the class in dimension `d` with optional argument `a`, `ci d a` its integral. -/
theorem history_integral_scale (K : ℕ → ℝ → ℝ → ℝ) (ci : ℕ → ℝ → ℝ)
    (hci : ∀ d a, ci d a = ∫ h in Ioi (0:ℝ), K d a h) (hpos : ∀ d a, 0 < ci d a)
    (st : MState ℝ) (hst : MAdmissible st) (ops : List (MOp ℝ)) (hops : ∀ op ∈ ops, OpAdmissible op) :
    reportedIS ci (mrun ci st ops)
      = ∫ r in Ioi (0:ℝ), (fromCor (mrun ci st ops).par
          (K (mrun ci st ops).dim (mrun ci st ops).shape)).correlation r := by
  obtain ⟨hl, hr⟩ := mrun_admissible ci hpos ops st hst hops
  rw [integral_scale_scaling _ _ hl hr, ← hci]
  rfl

/-- `integral_scale_vec` after any history: the integral of the current correlation times `(1, anis…)` -/
theorem history_integral_scale_vec (ci : ℕ → ℝ → ℝ) (st : MState ℝ) (ops : List (MOp ℝ)) :
    reportedISVec ci (mrun ci st ops)
      = reportedIS ci (mrun ci st ops) :: (mrun ci st ops).anis.map fun a => reportedIS ci (mrun ci st ops) * a := rfl

/-- whatever happened before, prescribing the integral scale makes it the reported one (and later changes of `var`,
    `nugget`, `anis` keep it) -/
theorem history_setter (ci : ℕ → ℝ → ℝ) (hpos : ∀ d a, 0 < ci d a) (st : MState ℝ) (hst : MAdmissible st)
    (ops : List (MOp ℝ)) (hops : ∀ op ∈ ops, OpAdmissible op) (I : ℝ) :
    reportedIS ci (mrun ci st (ops ++ [.setIntegralScale I])) = I := by
  obtain ⟨_, hr⟩ := mrun_admissible ci hpos ops st hst hops
  simp only [mrun, List.foldl_append, List.foldl_cons, List.foldl_nil, mstep, reportedIS]
  exact integral_scale_setter (fun q => integralScale q (ci _ _)) (ci _ _) (hpos _ _).ne' (fun q => rfl) _ hr.ne' I

/-- a change of the optional argument alone changes the reported integral scale by the ratio of the integrals of
    `cor` (a memoised value would not) -/
theorem history_shape_change (ci : ℕ → ℝ → ℝ) (st : MState ℝ) (a : ℝ) :
    reportedIS ci (mstep ci st (.setShape a)) = lenRescaled st.par * ci st.dim a := rfl

example : MAdmissible ⟨⟨2, 3, 0.5, 1.5⟩, 2, 1.5, [0.5]⟩ := ⟨by norm_num, by norm_num⟩
example : ∀ op ∈ [MOp.setShape (2:ℝ), .setDim 3 [1, 0.5], .setLenScale 4, .setIntegralScale 0.7, .setVar 3],
    OpAdmissible op := by
  intro op h
  simp only [List.mem_cons, List.not_mem_nil, or_false] at h
  rcases h with rfl | rfl | rfl | rfl | rfl <;> norm_num [OpAdmissible]



/-! the hypotheses of the special-function theorems are satisfiable by non-trivial objects -/

example : expIntPlan (4:ℝ) = .expn 4 := by simpa using expIntPlan_int 4 (by norm_num) (by norm_num)
/-- an order a rounding error (or up to `1e-5` relative) BELOW the integer is still evaluated as that integer order -/
example : expIntPlan ((4:ℝ) - 1e-6) = .expn 4 := by
  have := expIntPlan_of_integer_close ((4:ℝ) - 1e-6) 4 (by norm_num [abs_of_pos]) (by norm_num)
    (by rw [abs_of_pos] <;> norm_num) (by norm_num)
  simpa using this

theorem noSnap_neg_three_halves : NoSnap (-(3/2:ℝ)) := by
  intro k
  rcases Nat.lt_or_ge k 2 with hk | hk
  · interval_cases k
    · have hr : round (-(3/2:ℝ) + ((0:ℕ):ℝ)) = -1 := by
        rw [round_eq_iff]; constructor <;> norm_num
      refine ⟨by norm_num [abs_of_neg], ?_⟩
      rw [hr]; intro h
      have := h.1
      norm_num [abs_of_neg] at this
    · refine ⟨by norm_num [abs_of_neg], fun h => ?_⟩
      have := h.2
      norm_num at this
  · have h2 : (2:ℝ) ≤ k := by exact_mod_cast hk
    refine ⟨?_, fun h => ?_⟩
    · rw [abs_of_nonneg (by linarith)]; intro h; linarith
    · have := h.2; linarith

/-- the complete gamma function is an instance: `G(a, 0) = Γ(a)` satisfies the recurrence at `x = 0`, with primitives
    that return its values -/
example : GammaRec (fun a _ => Real.Gamma a) 0 ∧
    PrimsExact ⟨fun _ => 0, fun _ _ => 0, fun a _ => Real.Gamma a, fun _ _ => 0⟩ (fun a _ => Real.Gamma a) 0 := by
  refine ⟨fun a => ?_, ⟨fun a _ => rfl, ?_, fun n hn => ?_⟩⟩
  · by_cases ha : a = 0
    · subst ha; simp [Real.Gamma_zero]
    · simp only [neg_zero, Real.exp_zero, mul_one, Real.zero_rpow ha, add_zero]
      exact Real.Gamma_add_one ha
  · simp [Real.Gamma_zero]
  · obtain ⟨m, rfl⟩ : ∃ m : ℕ, n = (m:ℤ) + 1 := ⟨(n - 1).toNat, by omega⟩
    push_cast
    rw [show (1:ℝ) - ((m:ℝ) + 1) = -(m:ℝ) by ring, Real.Gamma_neg_nat_eq_zero]
    simp

example (P : Prims ℝ) (G : ℝ → ℝ → ℝ) (x : ℝ) (hrec : GammaRec G x) (hP : PrimsExact P G x) :
    incGamma P 3 (-(3/2:ℝ)) x = some (G (-(3/2:ℝ)) x) :=
  incGamma_correct P G x hrec hP 2 _ (by norm_num) noSnap_neg_three_halves

/-- TPLSimple (optional argument clamped to its admissible range `ν ≥ 1`) satisfies the hypotheses of
    `history_integral_scale` -/
example : (∀ (_ : ℕ) (a : ℝ), tplSimpleCorIntegral (max a 1) = ∫ h in Ioi (0:ℝ), tplSimpleCor (max a 1) h) ∧
    ∀ (_ : ℕ) (a : ℝ), 0 < tplSimpleCorIntegral (max a 1) := by
  have hp : ∀ a : ℝ, 0 < max a 1 := fun a => lt_of_lt_of_le one_pos (le_max_right a 1)
  refine ⟨fun _ a => ?_, fun _ a => ?_⟩
  · rw [integral_Ioi_eq_unit _ (fun x hx => tplSimpleCor_outside (max a 1) x (hp a).ne'
        (by rw [abs_of_pos (by linarith)]; exact hx.le)), integral_tplSimple_unit _ (hp a)]
    simp [tplSimpleCorIntegral]
  · have := hp a
    simp only [tplSimpleCorIntegral]; push_cast; positivity

/-! ## the hypotheses of the implications above are satisfiable by non-trivial objects -/

/-- an admissible parameter set: `var = 2`, `len_scale = 3`, `nugget = 0.5`, `rescale = 1.5` -/
def exPar : Par ℝ := ⟨2, 3, 0.5, 1.5⟩

example : Consistent exPar (fromCor exPar gaussianCor) := derived_from_cor _ _
example : Consistent exPar (fromCorrelation exPar fun r => Real.exp (-|r|)) :=
  derived_from_correlation _ _ (by norm_num [exPar]) (by norm_num [exPar])
example : Consistent exPar (fromCovariance exPar fun r => 2 * Real.exp (-|r|)) :=
  derived_from_covariance _ _ (by norm_num [exPar]) (by norm_num [exPar]) (by norm_num [exPar])
example : Consistent exPar (fromVariogram exPar fun r => 2 * (1 - Real.exp (-|r|)) + 0.5) :=
  derived_from_variogram _ _ (by norm_num [exPar]) (by norm_num [exPar]) (by norm_num [exPar])
example : SameOnNonneg (fromVariogram exPar (fromCor exPar sphericalCor).variogram) (fromCor exPar sphericalCor) :=
  (routes_agree exPar sphericalCor (by norm_num [exPar]) (by norm_num [exPar]) (by norm_num [exPar])).2.2
example : varioNugget (fromCor exPar gaussianCor) 1 = (fromCor exPar gaussianCor).variogram |1| :=
  (nugget_variants_off_zero exPar _ 1 (by norm_num)).1
example : covNugget exPar (fromCor exPar gaussianCor) 1e-9 = 2 + 0.5 :=
  (nugget_variants_at_zero exPar _ 1e-9 (by rw [abs_of_pos] <;> norm_num)).2
example : (fromCor exPar gaussianCor).variogram 0 = 0.5 :=
  (base_at_zero exPar (fromCor exPar gaussianCor) (derived_from_cor _ _) gaussianCor_zero).2.2.1
example : axisLag [0.5, (2:ℝ)] 2 (-3) = some (|(-3:ℝ)| / 2) := axis_succ _ 1 (by simp) _
example : Real.sqrt ((6371 * Real.cos (1000 / 6371) - 6371) ^ 2 + (6371 * Real.sin (1000 / 6371)) ^ 2)
    = chordal 6371 1000 :=
  chordal_is_chord 6371 1000 (by norm_num) (by norm_num) (by nlinarith [Real.two_le_pi])
example : ∫ r in Ioi (0:ℝ), (fromCor exPar cubicCor).correlation r = integralScale exPar cubicCorIntegral :=
  integral_scale_cubic exPar (by norm_num [exPar]) (by norm_num [exPar])
example : ∫ r in Ioi (0:ℝ), (fromCor exPar (tplSimpleCor 2)).correlation r = integralScale exPar (tplSimpleCorIntegral 2) :=
  integral_scale_tplSimple exPar 2 (by norm_num) (by norm_num [exPar]) (by norm_num [exPar])
example : gaussianCalcIS (setIntegralScale gaussianCalcIS exPar 7) = 7 :=
  integral_scale_setter gaussianCalcIS (Real.sqrt Real.pi / 2)
    (div_ne_zero (Real.sqrt_pos.mpr Real.pi_pos).ne' two_ne_zero)
    (fun q => by simp only [gaussianCalcIS, sqrt_real, pi_real]; push_cast; ring) exPar (by norm_num [exPar]) 7
example : (fromCor exPar exponentialCor).variogram (lenRescaled exPar * -Real.log (1 - 0.9)) = 0.5 + 0.9 * 2 :=
  percentile_spec exPar _ (derived_from_cor _ _) _ 0.9
    (percentile_exponential_gaussian exPar 0.9 (by norm_num) (by norm_num) (by norm_num [exPar]) (by norm_num [exPar])).1

end GSV.Props.C03
