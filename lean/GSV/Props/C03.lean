/-
  C03 — model functions are mutually consistent and match their documented closed forms.

  Theorems about `GSV.Model.CovFn` (the same definitions the driver runs on `Float`) at `ℝ`:
  * the derivation of `variogram / covariance / correlation / cor` by `_init_subclass`, whichever of
    the four a subclass supplies, satisfies the three identities of the property, and the four routes
    yield the same functions;
  * the nugget-aware, per-axis and Yadrenko variants;
  * closed forms: value `1` at lag `0`, agreement of the branches at the edge of the support;
  * integral scales: `∫₀^∞ correlation` as theorems (Mathlib integrals), the scaling
    `len_scale / rescale`, the `integral_scale` setter, the percentile scale.
  Helper lemmas live in `GSV/Lemmas/CovFn.lean`.
-/
import GSV.Lemmas.CovFn
import Mathlib.Topology.Algebra.Order.Field
import Mathlib.Analysis.SpecialFunctions.Gamma.Beta
namespace GSV.Props.C03
open GSV GSV.Transc GSV.Model.CovFn GSV.Lemmas.CovFn MeasureTheory Set

/-! ## derivation of the four functions -/

/-- the three consistency relations of the property for a family of functions -/
structure Consistent (p : Par ℝ) (F : Fns ℝ) : Prop where
  vario : ∀ r, F.variogram r = p.var + p.nugget - F.covariance r
  cov : ∀ r, F.covariance r = p.var * F.correlation r
  cor : ∀ r, 0 ≤ r → F.correlation r = F.cor (p.rescale * r / p.lenScale)

theorem derived_from_cor (p : Par ℝ) (c : ℝ → ℝ) : Consistent p (fromCor p c) := by
  refine ⟨fun r => ?_, fun r => rfl, fun r hr => ?_⟩
  · simp only [fromCor, dVariogram]; ring
  · simp only [fromCor, correlationFromCor, lenRescaled, fabs_real, abs_of_nonneg hr]
    congr 1
    rw [div_div_eq_mul_div, mul_comm]

theorem derived_from_correlation (p : Par ℝ) (c : ℝ → ℝ) (hl : 0 < p.lenScale) (hs : 0 < p.rescale) :
    Consistent p (fromCorrelation p c) := by
  refine ⟨fun r => ?_, fun r => rfl, fun r hr => ?_⟩
  · simp only [fromCorrelation, dVariogram]; ring
  · simp only [fromCorrelation, corFromCorrelation, lenRescaled, fabs_real]
    have h0 : 0 ≤ p.rescale * r / p.lenScale := by positivity
    rw [abs_of_nonneg h0]
    congr 1
    field_simp

theorem derived_from_covariance (p : Par ℝ) (c : ℝ → ℝ) (hv : p.var ≠ 0) (hl : 0 < p.lenScale)
    (hs : 0 < p.rescale) : Consistent p (fromCovariance p c) := by
  refine ⟨fun r => ?_, fun r => ?_, fun r hr => ?_⟩
  · simp only [fromCovariance, dVariogram]; ring
  · simp only [fromCovariance, dCorrelation, dVariogram]; push_cast; field_simp; ring
  · simp only [fromCovariance, corFromCorrelation, lenRescaled, fabs_real]
    have h0 : 0 ≤ p.rescale * r / p.lenScale := by positivity
    rw [abs_of_nonneg h0]
    congr 1
    field_simp

theorem derived_from_variogram (p : Par ℝ) (g : ℝ → ℝ) (hv : p.var ≠ 0) (hl : 0 < p.lenScale)
    (hs : 0 < p.rescale) : Consistent p (fromVariogram p g) := by
  refine ⟨fun r => ?_, fun r => rfl, fun r hr => ?_⟩
  · simp only [fromVariogram, dCovariance, dCorrelation]; push_cast; field_simp; ring
  · simp only [fromVariogram, corFromCorrelation, lenRescaled, fabs_real]
    have h0 : 0 ≤ p.rescale * r / p.lenScale := by positivity
    rw [abs_of_nonneg h0]
    congr 1
    field_simp

/-- two families agree as functions of a lag `≥ 0` -/
def SameOnNonneg (F G : Fns ℝ) : Prop :=
  ∀ r, 0 ≤ r → F.cor r = G.cor r ∧ F.correlation r = G.correlation r ∧
    F.covariance r = G.covariance r ∧ F.variogram r = G.variogram r

theorem lenRescaled_pos {p : Par ℝ} (hl : 0 < p.lenScale) (hs : 0 < p.rescale) : 0 < lenRescaled p :=
  div_pos hl hs

/-- a model defined through `cor`, re-defined through any of the other three functions that the first
    definition produced, has the same four functions -/
theorem routes_agree (p : Par ℝ) (c : ℝ → ℝ) (hv : p.var ≠ 0) (hl : 0 < p.lenScale) (hs : 0 < p.rescale) :
    SameOnNonneg (fromCorrelation p (fromCor p c).correlation) (fromCor p c) ∧
    SameOnNonneg (fromCovariance p (fromCor p c).covariance) (fromCor p c) ∧
    SameOnNonneg (fromVariogram p (fromCor p c).variogram) (fromCor p c) := by
  have hL := lenRescaled_pos hl hs
  have key : ∀ r : ℝ, 0 ≤ r → c (|(|r| * lenRescaled p)| / lenRescaled p) = c r := by
    intro r hr
    rw [abs_of_nonneg hr, abs_of_nonneg (mul_nonneg hr hL.le), mul_div_assoc, div_self hL.ne', mul_one]
  have corr : ∀ r, dCorrelation p (dVariogram p (dCovariance p (correlationFromCor p c))) r
      = correlationFromCor p c r := by
    intro r
    simp only [dCorrelation, dVariogram, dCovariance]; push_cast; field_simp; ring
  refine ⟨fun r hr => ⟨?_, rfl, rfl, rfl⟩, fun r hr => ⟨?_, ?_, rfl, rfl⟩, fun r hr => ⟨?_, ?_, ?_, rfl⟩⟩
  · simp only [fromCorrelation, fromCor, corFromCorrelation, correlationFromCor, fabs_real]
    exact key r hr
  · simp only [fromCovariance, fromCor, corFromCorrelation, corr]
    simp only [correlationFromCor, fabs_real]; exact key r hr
  · simp only [fromCovariance, fromCor, corr]
  · simp only [fromVariogram, fromCor, corFromCorrelation, corr]
    simp only [correlationFromCor, fabs_real]; exact key r hr
  · simp only [fromVariogram, fromCor, corr]
  · simp only [fromVariogram, fromCor, dCovariance, corr]

/-! nugget variants -/

theorem isclose0_iff (r : ℝ) : isclose0 r = true ↔ |r| ≤ 1e-8 := by
  simp [isclose0]

theorem nugget_variants_off_zero (p : Par ℝ) (F : Fns ℝ) (r : ℝ) (h : 1e-8 < |r|) :
    varioNugget F r = F.variogram |r| ∧ covNugget p F r = F.covariance |r| := by
  have : ¬ (isclose0 (fabs r) = true) := by
    rw [isclose0_iff]; simp only [fabs_real, abs_abs]; exact not_le.mpr h
  unfold varioNugget covNugget
  rw [if_neg this, if_neg this]
  exact ⟨rfl, rfl⟩

theorem nugget_variants_at_zero (p : Par ℝ) (F : Fns ℝ) (r : ℝ) (h : |r| ≤ 1e-8) :
    varioNugget F r = 0 ∧ covNugget p F r = p.var + p.nugget := by
  have : isclose0 (fabs r) = true := by
    rw [isclose0_iff]; simpa only [fabs_real, abs_abs] using h
  unfold varioNugget covNugget
  rw [if_pos this, if_pos this]
  exact ⟨by norm_num, rfl⟩

theorem nugget_variants_sum (p : Par ℝ) (F : Fns ℝ) (hF : Consistent p F) (r : ℝ) :
    varioNugget F r + covNugget p F r = p.var + p.nugget := by
  by_cases h : isclose0 (fabs r) = true
  · unfold varioNugget covNugget
    rw [if_pos h, if_pos h]; simp [sill]
  · unfold varioNugget covNugget
    rw [if_neg h, if_neg h, hF.vario]; ring

/-- at lag zero the base functions are `nugget` and `var` (when `cor 0 = 1`), i.e. the nugget-aware
    variants differ from them by exactly the nugget -/
theorem base_at_zero (p : Par ℝ) (F : Fns ℝ) (hF : Consistent p F) (h1 : F.cor 0 = 1) :
    F.correlation 0 = 1 ∧ F.covariance 0 = p.var ∧ F.variogram 0 = p.nugget ∧
    covNugget p F 0 - F.covariance 0 = p.nugget ∧ F.variogram 0 - varioNugget F 0 = p.nugget := by
  have hc : F.correlation 0 = 1 := by rw [hF.cor 0 le_rfl]; simpa using h1
  have hcov : F.covariance 0 = p.var := by rw [hF.cov, hc, mul_one]
  have hvar : F.variogram 0 = p.nugget := by rw [hF.vario, hcov]; ring
  obtain ⟨h0, h0'⟩ := nugget_variants_at_zero p F 0 (by norm_num)
  refine ⟨hc, hcov, hvar, ?_, ?_⟩
  · rw [h0', hcov]; ring
  · rw [h0, hvar]; ring

/-! axis / yadrenko -/

theorem axis_zero (anis : List ℝ) (r : ℝ) : axisLag anis 0 r = some r := rfl

theorem axis_succ (anis : List ℝ) (k : ℕ) (hk : k < anis.length) (r : ℝ) :
    axisLag anis (k + 1) r = some (|r| / anis[k]) := by
  simp [axisLag, hk]

/-- along axis `k+1` the model behaves like the isotropic model with length scale
    `len_scale * anis[k]` (`len_scale_vec`) -/
theorem axis_is_len_scale_vec (p : Par ℝ) (c : ℝ → ℝ) (a r : ℝ) (ha : 0 < a) :
    (fromCor p c).correlation (|r| / a) = (fromCor { p with lenScale := p.lenScale * a } c).correlation r ∧
    (fromCor p c).covariance (|r| / a) = (fromCor { p with lenScale := p.lenScale * a } c).covariance r ∧
    (fromCor p c).variogram (|r| / a) = (fromCor { p with lenScale := p.lenScale * a } c).variogram r := by
  have h : (fromCor p c).correlation (|r| / a)
      = (fromCor { p with lenScale := p.lenScale * a } c).correlation r := by
    simp only [fromCor, correlationFromCor, lenRescaled, fabs_real]
    congr 1
    rw [abs_of_nonneg (by positivity : 0 ≤ |r| / a)]
    rw [div_div, mul_div_right_comm, mul_comm]
  refine ⟨h, ?_, ?_⟩
  · show p.var * (fromCor p c).correlation (|r| / a) = p.var * _
    rw [h]; rfl
  · show p.var - p.var * (fromCor p c).correlation (|r| / a) + p.nugget = p.var - p.var * _ + p.nugget
    rw [h]; rfl

theorem chordal_eq (R ζ : ℝ) : chordal R ζ = 2 * R * Real.sin (ζ / (2 * R)) := by
  simp [chordal]

/-- the Yadrenko lag is the straight-line distance of two points of the sphere of radius `R` that are
    the great-circle distance `ζ ∈ [0, 2πR]` apart -/
theorem chordal_is_chord (R ζ : ℝ) (hR : 0 < R) (h0 : 0 ≤ ζ) (h1 : ζ ≤ 2 * Real.pi * R) :
    Real.sqrt ((R * Real.cos (ζ / R) - R) ^ 2 + (R * Real.sin (ζ / R)) ^ 2) = chordal R ζ := by
  rw [chordal_eq]
  have hθ : ζ / R = 2 * (ζ / (2 * R)) := by field_simp
  set t := ζ / (2 * R) with ht
  have ht0 : 0 ≤ t := by positivity
  have ht1 : t ≤ Real.pi := by
    rw [ht, div_le_iff₀ (by positivity)]; linarith
  have hs : 0 ≤ Real.sin t := Real.sin_nonneg_of_nonneg_of_le_pi ht0 ht1
  have : (R * Real.cos (ζ / R) - R) ^ 2 + (R * Real.sin (ζ / R)) ^ 2 = (2 * R * Real.sin t) ^ 2 := by
    rw [hθ, Real.cos_two_mul, Real.sin_two_mul]
    have := Real.sin_sq_add_cos_sq t
    linear_combination 4 * R ^ 2 * (Real.cos t ^ 2 - 1) * this
  rw [this, Real.sqrt_sq (by positivity)]

/-! ## closed forms -/

/-- every modelled closed form has value `1` at lag `0` -/
theorem cor_zero_eq_one :
    gaussianCor (0:ℝ) = 1 ∧ exponentialCor (0:ℝ) = 1 ∧ (∀ a : ℝ, a ≠ 0 → stableCor a 0 = 1) ∧
    (∀ a : ℝ, rationalCor a 0 = 1) ∧ cubicCor (0:ℝ) = 1 ∧ linearCor (0:ℝ) = 1 ∧ circularCor (0:ℝ) = 1 ∧
    sphericalCor (0:ℝ) = 1 ∧ (∀ nu : ℝ, tplSimpleCor nu 0 = 1) ∧
    (∀ n : ℕ, superSphericalNatCor n (0:ℝ) = 1) ∧ superSphericalHalfCor (0:ℝ) = 1 ∧
    matern12Cor (0:ℝ) = 1 ∧ matern32Cor (0:ℝ) = 1 ∧ matern52Cor (0:ℝ) = 1 ∧ maternLimitCor (0:ℝ) = 1 ∧
    jbessel12Cor (0:ℝ) = 1 ∧ jbessel32Cor (0:ℝ) = 1 :=
  ⟨gaussianCor_zero, exponentialCor_zero, stableCor_zero, rationalCor_zero, cubicCor_zero, linearCor_zero,
   circularCor_zero, sphericalCor_zero, tplSimpleCor_zero, superSphericalNatCor_zero,
   superSphericalHalfCor_zero, matern_zero.1, matern_zero.2.1, matern_zero.2.2.1, matern_zero.2.2.2,
   jbessel_zero.1, jbessel_zero.2⟩

/-- Spherical: the clamped polynomial is the documented polynomial inside the support, vanishes outside,
    and the two branches meet at the edge -/
theorem spherical_support_edge :
    (∀ h : ℝ, |h| ≤ 1 → sphericalCor h = 1 - 1.5 * |h| + 0.5 * |h| ^ 3) ∧
    (∀ h : ℝ, 1 ≤ |h| → sphericalCor h = 0) ∧ sphericalPoly (1:ℝ) = 0 :=
  ⟨sphericalCor_inside, sphericalCor_outside, sphericalPoly_one⟩

theorem cubic_support_edge :
    (∀ h : ℝ, |h| ≤ 1 → cubicCor h = 1 - 7 * |h| ^ 2 + 8.75 * |h| ^ 3 - 3.5 * |h| ^ 5 + 0.75 * |h| ^ 7) ∧
    (∀ h : ℝ, 1 ≤ |h| → cubicCor h = 0) ∧ cubicPoly (1:ℝ) = 0 :=
  ⟨cubicCor_inside, cubicCor_outside, cubicPoly_one⟩

theorem linear_support_edge :
    (∀ h : ℝ, |h| ≤ 1 → linearCor h = 1 - |h|) ∧ (∀ h : ℝ, 1 ≤ |h| → linearCor h = 0) :=
  ⟨linearCor_inside, linearCor_outside⟩

theorem tplSimple_support_edge (nu : ℝ) (hnu : nu ≠ 0) :
    (∀ h : ℝ, |h| ≤ 1 → tplSimpleCor nu h = (1 - |h|) ^ nu) ∧ (∀ h : ℝ, 1 ≤ |h| → tplSimpleCor nu h = 0) :=
  ⟨tplSimpleCor_inside nu, fun h hh => tplSimpleCor_outside nu h hnu hh⟩

/-- Circular: the expression of the inner branch vanishes at `1`, so the strict test `|h| < 1` of the
    code and the documented `≤` describe the same function: `cor = inner ∘ clamp` -/
theorem circular_support_edge :
    circularInner (1:ℝ) = 0 ∧ (∀ h : ℝ, 1 ≤ |h| → circularCor h = 0) ∧
    (∀ h : ℝ, circularCor h = circularInner (min |h| 1)) := by
  have h1 : circularInner (1:ℝ) = 0 := by simp [circularInner]
  refine ⟨h1, fun h hh => ?_, fun h => ?_⟩
  · simp [circularCor, not_lt.mpr hh]
  · by_cases hh : |h| < 1
    · simp [circularCor, hh, min_eq_left hh.le]
    · simp [circularCor, hh, min_eq_right (not_lt.mp hh), h1]

/-- HyperSpherical in `d = 1, 2, 3` is Linear, Circular, Spherical (on lags `h ≥ 0`) -/
theorem hyperSpherical_dims (h : ℝ) (hh : 0 ≤ h) :
    (∃ f, hyperSphericalCor (α := ℝ) 1 = some f ∧ f h = linearCor h) ∧
    (∃ f, hyperSphericalCor (α := ℝ) 2 = some f ∧ f h = circularCor h) ∧
    (∃ f, hyperSphericalCor (α := ℝ) 3 = some f ∧ f h = sphericalCor h) := by
  have ha : |h| = h := abs_of_nonneg hh
  refine ⟨⟨_, rfl, ?_⟩, ⟨_, rfl, ?_⟩, ⟨_, rfl, ?_⟩⟩
  · by_cases h1 : h < 1
    · rw [linearCor_inside h (by rw [ha]; exact h1.le), ha]
      simp [superSphericalNatCor, h1, hyp_zero]
    · rw [linearCor_outside h (by rw [ha]; exact not_lt.mp h1)]
      simp [superSphericalNatCor, h1]
  · simp [superSphericalHalfCor, circularCor, ha]
  · by_cases h1 : h < 1
    · rw [sphericalCor_inside h (by rw [ha]; exact h1.le), ha]
      rw [superSphericalNatCor, if_pos (by simpa using h1)]
      simp only [hyp_one, npow_real]
      norm_num; ring
    · rw [sphericalCor_outside h (by rw [ha]; exact not_lt.mp h1)]
      simp [superSphericalNatCor, h1]

/-- SuperSpherical with a natural `ν = n` (and HyperSpherical in odd dimension `d = 2n + 1`): the model's
    terminating series is the documented `1 - h ₂F₁(1/2, -n; 3/2; h²) / ₂F₁(1/2, -n; 3/2; 1)` with Mathlib's
    Gauss hypergeometric function -/
theorem superSpherical_nat_is_hypergeometric (n : ℕ) (h : ℝ) :
    superSphericalNatCor n h =
      if h < 1 then 1 - h * (1 / ordinaryHypergeometric (1 / 2 : ℝ) (-(n:ℝ)) (3 / 2) (1:ℝ))
        * ordinaryHypergeometric (1 / 2 : ℝ) (-(n:ℝ)) (3 / 2) (h ^ 2)
      else 0 := by
  simp only [superSphericalNatCor, hyp2f1HalfNegNat_eq, npow_real]
  push_cast
  rfl

/-! ## integral scales -/

/-- the integral scale of a model defined through `cor` is `len_scale / rescale` times that of `cor` -/
theorem integral_scale_scaling (p : Par ℝ) (c : ℝ → ℝ) (hl : 0 < p.lenScale) (hs : 0 < p.rescale) :
    ∫ r in Ioi (0:ℝ), (fromCor p c).correlation r = integralScale p (∫ h in Ioi (0:ℝ), c h) := by
  simp only [fromCor, correlationFromCor, fabs_real, integralScale]
  exact integral_scale_lag c _ (lenRescaled_pos hl hs)

theorem integral_scale_gaussian (p : Par ℝ) (hl : 0 < p.lenScale) (hs : 0 < p.rescale) :
    ∫ r in Ioi (0:ℝ), (fromCor p gaussianCor).correlation r = integralScale p gaussianCorIntegral := by
  rw [integral_scale_scaling p _ hl hs, integral_gaussianCor]; simp [gaussianCorIntegral]

theorem integral_scale_exponential (p : Par ℝ) (hl : 0 < p.lenScale) (hs : 0 < p.rescale) :
    ∫ r in Ioi (0:ℝ), (fromCor p exponentialCor).correlation r = integralScale p exponentialCorIntegral := by
  rw [integral_scale_scaling p _ hl hs, integral_exponentialCor]; simp [exponentialCorIntegral]

/-- `Stable.calc_integral_scale = len_rescaled * Γ(1 + 1/α)` -/
theorem integral_scale_stable (p : Par ℝ) (a : ℝ) (ha : 0 < a) (hl : 0 < p.lenScale) (hs : 0 < p.rescale) :
    ∫ r in Ioi (0:ℝ), (fromCor p (stableCor a)).correlation r
      = lenRescaled p * Real.Gamma (1 + 1 / a) := by
  rw [integral_scale_scaling p _ hl hs, integral_stableCor a ha]; rfl

theorem integral_scale_linear (p : Par ℝ) (hl : 0 < p.lenScale) (hs : 0 < p.rescale) :
    ∫ r in Ioi (0:ℝ), (fromCor p linearCor).correlation r = integralScale p linearCorIntegral := by
  rw [integral_scale_scaling p _ hl hs,
    integral_Ioi_eq_unit _ (fun x hx => linearCor_outside x (by rw [abs_of_pos (by linarith)]; exact hx.le)),
    integral_linear_unit]
  simp [linearCorIntegral]

theorem integral_scale_spherical (p : Par ℝ) (hl : 0 < p.lenScale) (hs : 0 < p.rescale) :
    ∫ r in Ioi (0:ℝ), (fromCor p sphericalCor).correlation r = integralScale p sphericalCorIntegral := by
  rw [integral_scale_scaling p _ hl hs,
    integral_Ioi_eq_unit _ (fun x hx => sphericalCor_outside x (by rw [abs_of_pos (by linarith)]; exact hx.le)),
    integral_spherical_unit]
  simp [sphericalCorIntegral]

theorem integral_scale_cubic (p : Par ℝ) (hl : 0 < p.lenScale) (hs : 0 < p.rescale) :
    ∫ r in Ioi (0:ℝ), (fromCor p cubicCor).correlation r = integralScale p cubicCorIntegral := by
  rw [integral_scale_scaling p _ hl hs,
    integral_Ioi_eq_unit _ (fun x hx => cubicCor_outside x (by rw [abs_of_pos (by linarith)]; exact hx.le)),
    integral_cubic_unit]
  simp [cubicCorIntegral]

theorem integral_scale_tplSimple (p : Par ℝ) (nu : ℝ) (hnu : 0 < nu) (hl : 0 < p.lenScale)
    (hs : 0 < p.rescale) :
    ∫ r in Ioi (0:ℝ), (fromCor p (tplSimpleCor nu)).correlation r
      = integralScale p (tplSimpleCorIntegral nu) := by
  rw [integral_scale_scaling p _ hl hs,
    integral_Ioi_eq_unit _ (fun x hx => tplSimpleCor_outside nu x hnu.ne'
      (by rw [abs_of_pos (by linarith)]; exact hx.le)),
    integral_tplSimple_unit nu hnu]
  simp [tplSimpleCorIntegral]

theorem integral_scale_circular (p : Par ℝ) (hl : 0 < p.lenScale) (hs : 0 < p.rescale) :
    ∫ r in Ioi (0:ℝ), (fromCor p circularCor).correlation r = integralScale p circularCorIntegral := by
  rw [integral_scale_scaling p _ hl hs,
    integral_Ioi_eq_unit _ (fun x hx => by
      have : ¬ |x| < 1 := by rw [abs_of_pos (by linarith)]; exact not_lt.mpr hx.le
      simp [circularCor, this]),
    integral_circular_unit]
  simp [circularCorIntegral]

/-- Matern on the slices `ν = 1/2, 3/2, 5/2` where `K_ν` is elementary -/
theorem integral_scale_matern_slices (p : Par ℝ) (hl : 0 < p.lenScale) (hs : 0 < p.rescale) :
    ∫ r in Ioi (0:ℝ), (fromCor p matern12Cor).correlation r = integralScale p matern12CorIntegral ∧
    ∫ r in Ioi (0:ℝ), (fromCor p matern32Cor).correlation r = integralScale p matern32CorIntegral ∧
    ∫ r in Ioi (0:ℝ), (fromCor p matern52Cor).correlation r = integralScale p matern52CorIntegral := by
  refine ⟨?_, ?_, ?_⟩
  · rw [integral_scale_scaling p _ hl hs, integral_matern12Cor]; simp [matern12CorIntegral]
  · rw [integral_scale_scaling p _ hl hs, integral_matern32Cor]; simp [matern32CorIntegral]
  · rw [integral_scale_scaling p _ hl hs, integral_matern52Cor]; simp [matern52CorIntegral]

/-- Rational on the slice `α = 1` -/
theorem integral_scale_rational_one (p : Par ℝ) (hl : 0 < p.lenScale) (hs : 0 < p.rescale) :
    ∫ r in Ioi (0:ℝ), (fromCor p (rationalCor 1)).correlation r = lenRescaled p * (Real.pi / 2) := by
  rw [integral_scale_scaling p _ hl hs, integral_rationalCor_one]; rfl

/-- the closed forms returned by `Gaussian.calc_integral_scale` and `Exponential.calc_integral_scale`
    are the integral of the correlation; with the default rescale `√π/2` the Gaussian length scale *is*
    the integral scale -/
theorem reported_integral_scale (p : Par ℝ) (hl : 0 < p.lenScale) (hs : 0 < p.rescale) :
    gaussianCalcIS p = ∫ r in Ioi (0:ℝ), (fromCor p gaussianCor).correlation r ∧
    exponentialCalcIS p = ∫ r in Ioi (0:ℝ), (fromCor p exponentialCor).correlation r ∧
    (p.rescale = gaussianRescale → gaussianCalcIS p = p.lenScale) := by
  refine ⟨?_, ?_, fun h => ?_⟩
  · rw [integral_scale_gaussian p hl hs]; simp [gaussianCalcIS, integralScale, gaussianCorIntegral]; ring
  · rw [integral_scale_exponential p hl hs]; simp [exponentialCalcIS, integralScale, exponentialCorIntegral]
  · have hpi : (0:ℝ) < Real.sqrt Real.pi := Real.sqrt_pos.mpr Real.pi_pos
    simp only [gaussianCalcIS, lenRescaled, h, gaussianRescale, sqrt_real, pi_real]
    push_cast
    field_simp

/-- prescribing the integral scale: if `calc_integral_scale` is `len_rescaled * I₀` (which is what
    `integral_scale_scaling` shows for every model), then after the setter the reported scale is the
    prescribed one -/
theorem integral_scale_setter (calcIS : Par ℝ → ℝ) (I0 : ℝ) (hI0 : I0 ≠ 0)
    (hcalc : ∀ q, calcIS q = lenRescaled q * I0) (p : Par ℝ) (hs : p.rescale ≠ 0) (I : ℝ) :
    calcIS (setIntegralScale calcIS p I) = I := by
  simp only [setIntegralScale, hcalc, lenRescaled]
  push_cast
  field_simp

/-- the percentile scale: a root `x` of the curve `1 - correlation(x) - per` that
    `tools.percentile_scale` hands to the root finder is a lag at which the variogram has risen by the
    fraction `per` of the variance -/
theorem percentile_spec (p : Par ℝ) (F : Fns ℝ) (hF : Consistent p F) (x per : ℝ)
    (hroot : 1 - F.correlation x - per = 0) : F.variogram x = p.nugget + per * p.var := by
  have : F.correlation x = 1 - per := by linarith
  rw [hF.vario, hF.cov, this]; ring

/-- closed form of the percentile scale of the Exponential and Gaussian models -/
theorem percentile_exponential_gaussian (p : Par ℝ) (per : ℝ) (h0 : 0 < per) (h1 : per < 1)
    (hl : 0 < p.lenScale) (hs : 0 < p.rescale) :
    1 - (fromCor p exponentialCor).correlation (lenRescaled p * -Real.log (1 - per)) - per = 0 ∧
    1 - (fromCor p gaussianCor).correlation (lenRescaled p * Real.sqrt (-Real.log (1 - per))) - per = 0 := by
  have hL := lenRescaled_pos hl hs
  have hlog : 0 ≤ -Real.log (1 - per) := by
    have := Real.log_nonpos (by linarith : 0 ≤ 1 - per) (by linarith); linarith
  have hexp : Real.exp (Real.log (1 - per)) = 1 - per := Real.exp_log (by linarith)
  constructor
  · simp only [fromCor, correlationFromCor, exponentialCor, fabs_real, exp_real]
    rw [abs_of_nonneg (mul_nonneg hL.le hlog), mul_div_assoc, mul_comm, div_mul_cancel₀ _ hL.ne',
      neg_neg, hexp]
    ring
  · simp only [fromCor, correlationFromCor, gaussianCor, fabs_real, exp_real, npow_real]
    rw [abs_of_nonneg (mul_nonneg hL.le (Real.sqrt_nonneg _)), mul_div_assoc, mul_comm,
      div_mul_cancel₀ _ hL.ne', Real.sq_sqrt hlog, neg_neg, hexp]
    ring

/-- the compactly supported closed forms are continuous: the branches of the code agree at the edge -/
theorem compact_support_continuous :
    Continuous (sphericalCor : ℝ → ℝ) ∧ Continuous (cubicCor : ℝ → ℝ) ∧ Continuous (linearCor : ℝ → ℝ) ∧
    Continuous (circularCor : ℝ → ℝ) ∧ (∀ nu : ℝ, 0 < nu → Continuous (tplSimpleCor nu : ℝ → ℝ)) := by
  refine ⟨?_, ?_, ?_, ?_, fun nu hnu => ?_⟩
  · have : (sphericalCor : ℝ → ℝ) = fun h => 1 - 1.5 * min |h| 1 + 0.5 * (min |h| 1) ^ 3 := by
      funext h; simp [sphericalCor, sphericalPoly, fmin_real]
    rw [this]; fun_prop
  · have : (cubicCor : ℝ → ℝ) = fun h => 1 - 7 * (min |h| 1) ^ 2 + 8.75 * (min |h| 1) ^ 3
        - 3.5 * (min |h| 1) ^ 5 + 0.75 * (min |h| 1) ^ 7 := by
      funext h; simp [cubicCor, cubicPoly, fmin_real]
    rw [this]; fun_prop
  · have : (linearCor : ℝ → ℝ) = fun h => max (1 - |h|) 0 := by
      funext h; simp [linearCor, fmax_real]
    rw [this]; fun_prop
  · have : (circularCor : ℝ → ℝ) = fun h => circularInner (min |h| 1) := by
      funext h; exact circular_support_edge.2.2 h
    rw [this]
    have hi : Continuous (circularInner : ℝ → ℝ) := by
      have : (circularInner : ℝ → ℝ) = fun h => 2 / Real.pi * (Real.arccos h - h * Real.sqrt (1 - h ^ 2)) := by
        funext h; simp [circularInner]
      rw [this]
      have := Real.continuous_arccos
      fun_prop
    exact hi.comp (by fun_prop)
  · have : (tplSimpleCor nu : ℝ → ℝ) = fun h => (max (1 - |h|) 0) ^ nu := by
      funext h; simp [tplSimpleCor, fmax_real]
    rw [this]
    exact Continuous.rpow_const (by fun_prop) (fun h => Or.inr hnu.le)

/-- prescribing the integral scale of a model defined through `cor`: after the setter the integral of the
    correlation over all lags is the prescribed value -/
theorem integral_scale_setter_cor (c : ℝ → ℝ) (hI0 : 0 < ∫ h in Ioi (0:ℝ), c h) (p : Par ℝ)
    (hs : 0 < p.rescale) (I : ℝ) (hI : 0 < I) :
    let calcIS : Par ℝ → ℝ := fun q => lenRescaled q * ∫ h in Ioi (0:ℝ), c h
    ∫ r in Ioi (0:ℝ), (fromCor (setIntegralScale calcIS p I) c).correlation r = I := by
  intro calcIS
  have hset : calcIS (setIntegralScale calcIS p I) = I :=
    integral_scale_setter calcIS _ hI0.ne' (fun q => rfl) p hs.ne' I
  have hlen : 0 < (setIntegralScale calcIS p I).lenScale := by
    simp only [setIntegralScale, calcIS, lenRescaled]
    push_cast
    positivity
  rw [integral_scale_scaling _ c hlen hs]
  exact hset

/-- `Stable.calc_integral_scale = len_rescaled * Γ(1 + 1/α)` (uses `scipy.special.gamma`, not in the driver) -/
noncomputable def stableCalcIS (a : ℝ) (p : Par ℝ) : ℝ := lenRescaled p * Real.Gamma (1 + 1 / a)

/-- `Matern.calc_integral_scale = len_rescaled * π / √ν / B(ν, 1/2)`, `B(a, b) = Γ(a) Γ(b) / Γ(a + b)` -/
noncomputable def maternCalcIS (nu : ℝ) (p : Par ℝ) : ℝ :=
  lenRescaled p * Real.pi / Real.sqrt nu / (Real.Gamma nu * Real.Gamma (1 / 2) / Real.Gamma (nu + 1 / 2))

/-- `Rational.calc_integral_scale = len_rescaled * √(π α) * Γ(α - 1/2) / Γ(α) / 2` -/
noncomputable def rationalCalcIS (a : ℝ) (p : Par ℝ) : ℝ :=
  lenRescaled p * Real.sqrt (Real.pi * a) * Real.Gamma (a - 1 / 2) / Real.Gamma a / 2

theorem gamma_three_halves : Real.Gamma (3 / 2) = Real.sqrt Real.pi / 2 := by
  have := Real.Gamma_add_one (s := 1 / 2) (by norm_num)
  rw [Real.Gamma_one_half_eq] at this
  rw [show (3:ℝ) / 2 = 1 / 2 + 1 by norm_num, this]; ring

theorem gamma_five_halves : Real.Gamma (5 / 2) = 3 * Real.sqrt Real.pi / 4 := by
  have := Real.Gamma_add_one (s := 3 / 2) (by norm_num)
  rw [gamma_three_halves] at this
  rw [show (5:ℝ) / 2 = 3 / 2 + 1 by norm_num, this]; ring

/-- the special-function closed forms of `calc_integral_scale` are the integral of the correlation:
    Stable for every `α > 0`; Matern at `ν = 1/2, 3/2, 5/2`; Rational at `α = 1` -/
theorem reported_integral_scale_special (p : Par ℝ) (hl : 0 < p.lenScale) (hs : 0 < p.rescale) :
    (∀ a : ℝ, 0 < a → stableCalcIS a p = ∫ r in Ioi (0:ℝ), (fromCor p (stableCor a)).correlation r) ∧
    maternCalcIS (1 / 2) p = ∫ r in Ioi (0:ℝ), (fromCor p matern12Cor).correlation r ∧
    maternCalcIS (3 / 2) p = ∫ r in Ioi (0:ℝ), (fromCor p matern32Cor).correlation r ∧
    maternCalcIS (5 / 2) p = ∫ r in Ioi (0:ℝ), (fromCor p matern52Cor).correlation r ∧
    rationalCalcIS 1 p = ∫ r in Ioi (0:ℝ), (fromCor p (rationalCor 1)).correlation r := by
  have hpi : Real.sqrt Real.pi * Real.sqrt Real.pi = Real.pi := Real.mul_self_sqrt Real.pi_pos.le
  have hpi0 : Real.sqrt Real.pi ≠ 0 := (Real.sqrt_pos.mpr Real.pi_pos).ne'
  obtain ⟨h12, h32, h52⟩ := integral_scale_matern_slices p hl hs
  refine ⟨fun a ha => (integral_scale_stable p a ha hl hs).symm, ?_, ?_, ?_, ?_⟩
  · rw [h12]
    simp only [maternCalcIS, integralScale, matern12CorIntegral, sqrt_real]
    rw [show (1:ℝ) / 2 + 1 / 2 = 1 by norm_num, Real.Gamma_one, Real.Gamma_one_half_eq,
      show (0.5:ℝ) = 1 / 2 by norm_num]
    push_cast
    have h2 : Real.sqrt (1 / 2) ≠ 0 := (Real.sqrt_pos.mpr (by norm_num)).ne'
    field_simp
    rw [Real.sq_sqrt Real.pi_pos.le]
    try ring
  · rw [h32]
    simp only [maternCalcIS, integralScale, matern32CorIntegral, sqrt_real]
    rw [show (3:ℝ) / 2 + 1 / 2 = 2 by norm_num, Real.Gamma_two, Real.Gamma_one_half_eq, gamma_three_halves,
      show (1.5:ℝ) = 3 / 2 by norm_num]
    push_cast
    have h2 : Real.sqrt (3 / 2) ≠ 0 := (Real.sqrt_pos.mpr (by norm_num)).ne'
    field_simp
    rw [Real.sq_sqrt Real.pi_pos.le]
    try ring
  · rw [h52]
    simp only [maternCalcIS, integralScale, matern52CorIntegral, sqrt_real]
    rw [show (5:ℝ) / 2 + 1 / 2 = 2 + 1 by norm_num, Real.Gamma_add_one (by norm_num), Real.Gamma_two,
      Real.Gamma_one_half_eq, gamma_five_halves, show (2.5:ℝ) = 5 / 2 by norm_num]
    push_cast
    have h2 : Real.sqrt (5 / 2) ≠ 0 := (Real.sqrt_pos.mpr (by norm_num)).ne'
    field_simp
    rw [Real.sq_sqrt Real.pi_pos.le]
    try ring
  · rw [integral_scale_rational_one p hl hs]
    simp only [rationalCalcIS]
    rw [show (1:ℝ) - 1 / 2 = 1 / 2 by norm_num, Real.Gamma_one, Real.Gamma_one_half_eq, mul_one]
    have : lenRescaled p * Real.sqrt Real.pi * Real.sqrt Real.pi = lenRescaled p * Real.pi := by
      rw [mul_assoc, hpi]
    rw [this]; ring

/-! ## the hypotheses of the implications above are satisfiable by non-trivial objects -/

/-- an admissible parameter set: `var = 2`, `len_scale = 3`, `nugget = 0.5`, `rescale = 1.5` -/
def exPar : Par ℝ := ⟨2, 3, 0.5, 1.5⟩

example : Consistent exPar (fromCor exPar gaussianCor) := derived_from_cor _ _
example : Consistent exPar (fromCorrelation exPar fun r => Real.exp (-|r|)) :=
  derived_from_correlation _ _ (by norm_num [exPar]) (by norm_num [exPar])
example : Consistent exPar (fromCovariance exPar fun r => 2 * Real.exp (-|r|)) :=
  derived_from_covariance _ _ (by norm_num [exPar]) (by norm_num [exPar]) (by norm_num [exPar])
example : Consistent exPar (fromVariogram exPar fun r => 2 * (1 - Real.exp (-|r|)) + 0.5) :=
  derived_from_variogram _ _ (by norm_num [exPar]) (by norm_num [exPar]) (by norm_num [exPar])
example : SameOnNonneg (fromVariogram exPar (fromCor exPar sphericalCor).variogram) (fromCor exPar sphericalCor) :=
  (routes_agree exPar sphericalCor (by norm_num [exPar]) (by norm_num [exPar]) (by norm_num [exPar])).2.2
example : varioNugget (fromCor exPar gaussianCor) 1 = (fromCor exPar gaussianCor).variogram |1| :=
  (nugget_variants_off_zero exPar _ 1 (by norm_num)).1
example : covNugget exPar (fromCor exPar gaussianCor) 1e-9 = 2 + 0.5 :=
  (nugget_variants_at_zero exPar _ 1e-9 (by rw [abs_of_pos] <;> norm_num)).2
example : (fromCor exPar gaussianCor).variogram 0 = 0.5 :=
  (base_at_zero exPar (fromCor exPar gaussianCor) (derived_from_cor _ _) gaussianCor_zero).2.2.1
example : axisLag [0.5, (2:ℝ)] 2 (-3) = some (|(-3:ℝ)| / 2) := axis_succ _ 1 (by simp) _
example : Real.sqrt ((6371 * Real.cos (1000 / 6371) - 6371) ^ 2 + (6371 * Real.sin (1000 / 6371)) ^ 2)
    = chordal 6371 1000 :=
  chordal_is_chord 6371 1000 (by norm_num) (by norm_num) (by nlinarith [Real.two_le_pi])
example : ∫ r in Ioi (0:ℝ), (fromCor exPar cubicCor).correlation r = integralScale exPar cubicCorIntegral :=
  integral_scale_cubic exPar (by norm_num [exPar]) (by norm_num [exPar])
example : ∫ r in Ioi (0:ℝ), (fromCor exPar (tplSimpleCor 2)).correlation r = integralScale exPar (tplSimpleCorIntegral 2) :=
  integral_scale_tplSimple exPar 2 (by norm_num) (by norm_num [exPar]) (by norm_num [exPar])
example : gaussianCalcIS (setIntegralScale gaussianCalcIS exPar 7) = 7 :=
  integral_scale_setter gaussianCalcIS (Real.sqrt Real.pi / 2)
    (div_ne_zero (Real.sqrt_pos.mpr Real.pi_pos).ne' two_ne_zero)
    (fun q => by simp only [gaussianCalcIS, sqrt_real, pi_real]; push_cast; ring) exPar (by norm_num [exPar]) 7
example : (fromCor exPar exponentialCor).variogram (lenRescaled exPar * -Real.log (1 - 0.9)) = 0.5 + 0.9 * 2 :=
  percentile_spec exPar _ (derived_from_cor _ _) _ 0.9
    (percentile_exponential_gaussian exPar 0.9 (by norm_num) (by norm_num) (by norm_num [exPar]) (by norm_num [exPar])).1

end GSV.Props.C03
