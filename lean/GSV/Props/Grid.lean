/-
  Structured = unstructured on the expanded grid (used by C05 `structured_eq_unstructured`, C11 mesh-type
  independence, C09 `structured_eq_pointlist`).

  `Field.structured` evaluates a pointwise computation on `generate_grid(pos)` (meshgrid `ij`, C order) and
  reshapes the flat result to the grid shape (C order).  For ANY pointwise function `F`, any dimension and
  any axis lengths, the entry of the reshaped array at a multi-index `is` is `F` at the grid point with
  those axis coordinates: the mixed-radix encode/decode round trip.  Law-free (no arithmetic on the values).
-/
import GSV.Model.Grid
import Mathlib.Tactic.Ring
import Mathlib.Tactic.Linarith
import Mathlib.Algebra.Order.Ring.Nat
namespace GSV.Props.Grid
open GSV GSV.Model.Grid

theorem valid_length : ∀ {dims is : List Nat}, Valid dims is → is.length = dims.length
  | [], [], _ => rfl
  | _ :: _, _ :: _, h => by simp [valid_length h.2]
  | [], _ :: _, h => h.elim
  | _ :: _, [], h => h.elim

/-- a valid multi-index encodes to a flat index inside the array -/
theorem encode_lt : ∀ {dims is : List Nat}, Valid dims is → encode dims is < dims.prod
  | [], [], _ => by simp [encode]
  | d :: ds, i :: is, h => by
    have ih := encode_lt h.2
    have hi : i + 1 ≤ d := h.1
    simp only [encode, List.prod_cons]
    calc i * ds.prod + encode ds is < i * ds.prod + ds.prod := by omega
      _ = (i + 1) * ds.prod := by ring
      _ ≤ d * ds.prod := Nat.mul_le_mul_right _ hi
  | [], _ :: _, h => h.elim
  | _ :: _, [], h => h.elim

/-- **decode ∘ encode = id** on valid multi-indices -/
theorem decode_encode : ∀ {dims is : List Nat}, Valid dims is → decode dims (encode dims is) = is
  | [], [], _ => rfl
  | d :: ds, i :: is, h => by
    have hlt := encode_lt h.2
    have hpos : 0 < ds.prod := by omega
    simp only [encode, decode]
    rw [Nat.add_comm, Nat.add_mul_div_right _ _ hpos, Nat.div_eq_of_lt hlt, Nat.zero_add,
      Nat.add_mul_mod_self_right, Nat.mod_eq_of_lt hlt, decode_encode h.2]
  | [], _ :: _, h => h.elim
  | _ :: _, [], h => h.elim

/-- decoding a flat index inside the array gives a valid multi-index -/
theorem decode_valid : ∀ (dims : List Nat) (n : Nat), n < dims.prod → Valid dims (decode dims n)
  | [], _, _ => trivial
  | d :: ds, n, h => by
    simp only [List.prod_cons] at h
    have hpos : 0 < ds.prod := by
      rcases Nat.eq_zero_or_pos ds.prod with h0 | h0
      · rw [h0] at h; omega
      · exact h0
    refine ⟨?_, decode_valid ds _ (Nat.mod_lt _ hpos)⟩
    exact (Nat.div_lt_iff_lt_mul hpos).2 h

/-- **encode ∘ decode = id** on flat indices inside the array -/
theorem encode_decode : ∀ (dims : List Nat) (n : Nat), n < dims.prod → encode dims (decode dims n) = n
  | [], n, h => by simp at h; simp [encode, h]
  | d :: ds, n, h => by
    simp only [List.prod_cons] at h
    have hpos : 0 < ds.prod := by
      rcases Nat.eq_zero_or_pos ds.prod with h0 | h0
      · rw [h0] at h; omega
      · exact h0
    simp only [decode, encode]
    rw [encode_decode ds _ (Nat.mod_lt _ hpos)]
    exact Nat.div_add_mod' n ds.prod

variable {α β : Type} [Inhabited α]

theorem genGrid_length (axes : List (List α)) : (genGrid axes).length = (axes.map List.length).prod := by
  simp [genGrid]

/-- column `n` of `generate_grid` is the grid point whose multi-index is the C-order decoding of `n` -/
theorem genGrid_get (axes : List (List α)) (n : Nat) (h : n < (axes.map List.length).prod) :
    (genGrid axes)[n]'(by rw [genGrid_length]; exact h) = pointAt axes (decode (axes.map List.length) n) := by
  simp [genGrid]

/-- **structured = unstructured**: evaluate any pointwise `F` on the expanded point list, read the flat result at
    the C-order position of the multi-index `is` (that is what `reshape` to the grid shape exposes as entry `is`):
    it is `F` at the grid point with axis coordinates `is` — for every dimension, every axis length. -/
theorem structured_eq_unstructured (F : List α → β) (axes : List (List α)) (is : List Nat)
    (h : Valid (axes.map List.length) is) :
    ((genGrid axes).map F)[encode (axes.map List.length) is]'(by
        rw [List.length_map, genGrid_length]; exact encode_lt h) = F (pointAt axes is) := by
  rw [List.getElem_map, genGrid_get axes _ (encode_lt h), decode_encode h]

/-- every flat position is hit by exactly one multi-index (so the reshaped array has no other entries) -/
theorem flat_index_surjective (dims : List Nat) (n : Nat) (h : n < dims.prod) :
    ∃ is, Valid dims is ∧ encode dims is = n :=
  ⟨decode dims n, decode_valid dims n h, encode_decode dims n h⟩

/-- the coordinate along axis `k` of a grid point is the `is[k]`-th entry of axis `k` -/
theorem pointAt_get (axes : List (List α)) (is : List Nat) (k : Nat) (hk : k < axes.length) (hk' : k < is.length) :
    (pointAt axes is).getD k default = (axes[k]).getD (is[k]) default := by
  unfold pointAt
  have hl : k < (List.zipWith (fun (ax : List α) i => ax.getD i default) axes is).length := by
    simp [List.length_zipWith]; omega
  rw [List.getD_eq_getElem?_getD, List.getElem?_eq_getElem hl]
  simp [List.getElem_zipWith]

/-- non-vacuity / concrete instance: a 2 x 3 grid, entry (1, 2) -/
example : ((genGrid [[10, 20], [1, 2, 3]]).map (fun p : List Nat => p.sum))[encode [2, 3] [1, 2]]'(by decide) = 23 := by
  decide

end GSV.Props.Grid
