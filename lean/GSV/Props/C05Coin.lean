/-
  C05 (coincident conditioning points, measurement errors): the error term of the kriging matrix — the model
  nugget by default (`cond_err="nugget"`), a scalar, or one value per point — enters on the DIAGONAL only; between two
  different conditioning points the entry is the PLAIN covariance of their lag, also when the lag is 0 (repeated
  measurements at one station).  Consequences proved here:

  * `assembleK_offdiag`, `assembleK_diag`, `assembleKCfg_offdiag`, `assembleKCfg_diag` (law-free: hold bit-for-bit on
    doubles): the entries of the model's matrix;
  * `coincident_offdiag_lt_diag`: with a positive error the off-diagonal entry of two coincident points is strictly
    below the diagonal entry (a block filled with the nugget-aware covariance — the sill at every zero lag — is
    excluded);
  * `simple_regular_of_errors`: a positive semidefinite covariance block (coincident points make it singular) plus
    positive errors is positive DEFINITE, hence invertible: the simple-kriging system of repeated stations with
    measurement errors is regular (`pseudo_inv=False` must work), and its variance lies in `[0, sill]`;
  * `rhsCov_*`: the covariance entries of the right-hand sides — plain covariance, and in exact mode the sill exactly at
    the lags inside numpy's `isclose` band of 0.
-/
import GSV.Props.C05
import Mathlib.Algebra.Order.Star.Real
namespace GSV.Props.C05
open GSV GSV.Props GSV.Model.Krige Finset Matrix

set_option linter.unusedSectionVars false

/-! ## law-free: entries of the assembled matrix and of the right-hand sides -/
section lawfree
variable {α : Type} [Arith α] [Transc α] [DecidableLT α] [DecidableLE α]

/-- between two DIFFERENT conditioning points the matrix entry is the covariance entry — no error term, whatever
    the lag between the two points is -/
theorem assembleK_offdiag (L : Layout) (C : Nat → Nat → α) (err : Nat → α) (F E : Nat → Nat → α) (i j : Nat)
    (hi : i < L.n) (hj : j < L.n) (hij : i ≠ j) : assembleK L C err F E i j = C i j := by
  simp [assembleK, hi, hj, hij]

/-- the diagonal entry carries the covariance at lag 0 plus the point's own measurement error -/
theorem assembleK_diag (L : Layout) (C : Nat → Nat → α) (err : Nat → α) (F E : Nat → Nat → α) (i : Nat)
    (hi : i < L.n) : assembleK L C err F E i i = C i i + err i := by
  simp [assembleK, hi]

/-- the three forms of `cond_err` -/
theorem condErr_nugget (nugget : α) (i : Nat) : condErr nugget (ErrSpec.nugget : ErrSpec α) i = nugget := rfl
theorem condErr_scalar (nugget e : α) (i : Nat) : condErr nugget (ErrSpec.scalar e) i = e := rfl
theorem condErr_perPoint (nugget : α) (e : Nat → α) (i : Nat) : condErr nugget (ErrSpec.perPoint e) i = e i := rfl

/-- the matrix of a configuration: off the diagonal the PLAIN covariance of the lag — for every error setting and
    every nugget (in particular: not the nugget-aware covariance, which would put the sill at coincident points) -/
theorem assembleKCfg_offdiag (L : Layout) (cv : Nat → Nat → α) (nugget : α) (es : ErrSpec α) (F E : Nat → Nat → α)
    (i j : Nat) (hi : i < L.n) (hj : j < L.n) (hij : i ≠ j) : assembleKCfg L cv nugget es F E i j = cv i j :=
  assembleK_offdiag L cv _ F E i j hi hj hij

theorem assembleKCfg_diag (L : Layout) (cv : Nat → Nat → α) (nugget : α) (es : ErrSpec α) (F E : Nat → Nat → α)
    (i : Nat) (hi : i < L.n) : assembleKCfg L cv nugget es F E i i = cv i i + condErr nugget es i :=
  assembleK_diag L cv _ F E i hi

/-- the default: the model nugget on every diagonal entry -/
theorem assembleKCfg_diag_nugget (L : Layout) (cv : Nat → Nat → α) (nugget : α) (F E : Nat → Nat → α)
    (i : Nat) (hi : i < L.n) : assembleKCfg L cv nugget ErrSpec.nugget F E i i = cv i i + nugget :=
  assembleK_diag L cv _ F E i hi

/-- right-hand sides without `exact`: the plain covariance at every lag -/
theorem rhsCov_plain (sill : α) (d cv : Nat → Nat → α) (i p : Nat) : rhsCov false sill d cv i p = cv i p := by
  simp [rhsCov]

/-- exact mode, lag inside the `isclose` band of 0: the sill -/
theorem rhsCov_exact_zero (sill : α) (d cv : Nat → Nat → α) (i p : Nat) (h : lagZero (d i p) = true) :
    rhsCov true sill d cv i p = sill := by
  simp [rhsCov, covNugget, h]

/-- exact mode, lag outside the band: the plain covariance -/
theorem rhsCov_exact_far (sill : α) (d cv : Nat → Nat → α) (i p : Nat) (h : lagZero (d i p) = false) :
    rhsCov true sill d cv i p = cv i p := by
  simp [rhsCov, covNugget, h]

/-- the data rows of the lag-based right-hand side -/
theorem assembleRHSLag_data (L : Layout) (exact : Bool) (sill : α) (d cv f e : Nat → Nat → α) (i p : Nat) (hi : i < L.n) :
    assembleRHSLag L false exact sill d cv f e i p = rhsCov exact sill d cv i p := by
  simp [assembleRHSLag, assembleRHS, hi]

end lawfree

/-! ## over ℝ -/

/-- the band of `np.isclose(r, 0)` -/
theorem lagZero_iff (r : ℝ) : lagZero r = true ↔ |r| ≤ 1e-8 := by
  simp [lagZero]

/-- **coincident points are NOT perfectly correlated measurements**: for two different conditioning points with the
    same covariance entry as the diagonal one (lag 0: `cv i j = cv i i`) and a positive error at `i`, the off-diagonal
    entry of the matrix is strictly smaller than the diagonal entry.  (Filling the block with the nugget-aware
    covariance would make them equal — identical rows, a singular matrix.) -/
theorem coincident_offdiag_lt_diag (L : Layout) (cv : Nat → Nat → ℝ) (nugget : ℝ) (es : ErrSpec ℝ) (F E : Nat → Nat → ℝ)
    (i j : Nat) (hi : i < L.n) (hj : j < L.n) (hij : i ≠ j) (hsame : cv i j = cv i i) (hpos : 0 < condErr nugget es i) :
    assembleKCfg L cv nugget es F E i j < assembleKCfg L cv nugget es F E i i := by
  rw [assembleKCfg_offdiag L cv nugget es F E i j hi hj hij, assembleKCfg_diag L cv nugget es F E i hi, hsame]
  linarith

/-- the layout of simple kriging with `n` conditioning points -/
def simpleLayout (n : Nat) : Layout := ⟨n, false, 0, 0⟩

theorem simpleLayout_size (n : Nat) : (simpleLayout n).size = n := by
  simp [simpleLayout, Layout.size, Layout.u]

/-- the simple-kriging matrix is the covariance block plus the diagonal matrix of the errors -/
theorem simple_matrix_eq (n : Nat) (C : Nat → Nat → ℝ) (err : Nat → ℝ) (F E : Nat → Nat → ℝ) :
    toMat n (assembleK (simpleLayout n) C err F E) = toMat n C + Matrix.diagonal (fun i : Fin n => err i) := by
  ext i j
  have hi : (i : Nat) < (simpleLayout n).n := i.2
  have hj : (j : Nat) < (simpleLayout n).n := j.2
  by_cases hij : i = j
  · subst hij
    simp [toMat, assembleK_diag _ C err F E _ hi]
  · have hne : (i : Nat) ≠ (j : Nat) := fun h => hij (Fin.ext h)
    simp [toMat, assembleK_offdiag _ C err F E _ _ hi hj hne, Matrix.diagonal_apply_ne _ hij]

/-- **repeated stations with measurement errors give a regular system**: if the covariance block is positive
    semidefinite (it is singular as soon as two conditioning points coincide) and every point has a positive
    measurement error (e.g. the default `cond_err="nugget"` with a positive nugget), the simple-kriging matrix is
    positive definite -/
theorem simple_posDef_of_errors (n : Nat) (C : Nat → Nat → ℝ) (err : Nat → ℝ) (F E : Nat → Nat → ℝ)
    (hC : (toMat n C).PosSemidef) (herr : ∀ i, i < n → 0 < err i) :
    (toMat n (assembleK (simpleLayout n) C err F E)).PosDef := by
  rw [simple_matrix_eq]
  exact Matrix.PosDef.posSemidef_add hC (Matrix.PosDef.diagonal fun i => herr i i.2)

/-- … hence invertible: an `M` with `M * K = 1` exists (what `scipy.linalg.inv` must return), and with it the
    quadratic form subtracted from the sill is non-negative (variance ≤ sill) -/
theorem simple_regular_of_errors (n : Nat) (C : Nat → Nat → ℝ) (err : Nat → ℝ) (F E : Nat → Nat → ℝ)
    (hC : (toMat n C).PosSemidef) (herr : ∀ i, i < n → 0 < err i) :
    ∃ M : Matrix (Fin n) (Fin n) ℝ, M * toMat n (assembleK (simpleLayout n) C err F E) = 1 ∧
      ∀ (k : Fin n → ℝ) (sill : ℝ), 0 ≤ k ⬝ᵥ (M *ᵥ k) ∧ sill - k ⬝ᵥ (M *ᵥ k) ≤ sill := by
  have hP := simple_posDef_of_errors n C err F E hC herr
  have hU : IsUnit (toMat n (assembleK (simpleLayout n) C err F E)).det :=
    (Matrix.isUnit_iff_isUnit_det _).mp hP.isUnit
  refine ⟨(toMat n (assembleK (simpleLayout n) C err F E))⁻¹, Matrix.nonsing_inv_mul _ hU, fun k sill => ?_⟩
  exact var_le_sill_simple _ _ k (Matrix.nonsing_inv_mul _ hU) hP sill

/-- non-vacuity and sharpness on two coincident points with variance `v = 1` and nugget `e = 1/2`:
    the model's block `[[v+e, v], [v, v+e]]` is regular (determinant `e (2v + e) = 5/4`) … -/
example : (!![(1:ℝ) + 1/2, 1; 1, 1 + 1/2]).det = 5/4 := by
  rw [Matrix.det_fin_two_of]; norm_num

/-- … whereas the block filled with the sill at every zero lag, `[[v+e, v+e], [v+e, v+e]]`, is singular -/
example : (!![(1:ℝ) + 1/2, 1 + 1/2; 1 + 1/2, 1 + 1/2]).det = 0 := by
  rw [Matrix.det_fin_two_of]; norm_num

/-- the hypotheses of `simple_posDef_of_errors` are satisfiable by two coincident points: the all-ones covariance
    block is positive semidefinite (and singular) -/
example : (toMat 2 (fun _ _ => (1:ℝ))).PosSemidef := by
  have h : toMat 2 (fun _ _ => (1:ℝ)) = Matrix.vecMulVec (star (fun _ : Fin 2 => (1:ℝ))) (fun _ => 1) := by
    ext i j; simp [toMat, Matrix.vecMulVec]
  rw [h]
  exact Matrix.posSemidef_vecMulVec_star_self _

end GSV.Props.C05
