/-
  C10 — variogram fitting recovers the generating parameters and honours constraints.

  The definitions reasoned about are those of `GSV/Model/Fit.lean` (the same text the driver runs on `Rat`
  against the real `gstools.covmodel.fit.fit_variogram` with a scripted optimiser), instantiated at `ℝ`.
  `scipy.optimize.curve_fit` is a parameter: `fit … script popt` evaluates the curve at the points of an
  ARBITRARY finite list `script` and then receives an ARBITRARY `popt`; as in the code (since the repair of
  defect D9) the curve is then evaluated once more at `popt` and `_post_fitting` runs.  The model class is a
  parameter too: `c.fac` (`var_factor`, constant 1 for every class except the TPL family) and `c.corr` (the
  normalised correlation) are uninterpreted functions.

  Clauses of the property and where they are:
    * untouched          `untouched` (every script / popt, any non-vanishing `var_factor`), `pre_para_honours_selection`
    * dict = model       `dict_eq_model` (every script / popt)
    * bounds             `within_bounds`, `var_le_sill`, `var_top_is_sill`, `fitted_eq_popt`
    * sill               `sill_exact_partial` (popt's tied nugget inside the nugget bounds), `sill_exact_full` is false:
                         `not_sill_exact_full`; `sill_exact_var_fixed`, `pre_para_sill`
    * recovers the curve `curve_faithful`, `final_state`, `r2_noise_free`, `recovers`
    * regression (model of the code BEFORE the D9 repair, `fitCore false`): `old_code_breaks_sill`,
      `old_code_breaks_dict`, `old_code_breaks_untouched`
  Not proved: that `curve_fit` converges to the generating parameters ("from a start near the truth").
-/
import GSV.RealInst
import GSV.Model.Fit
import GSV.Lemmas.Fit
import Mathlib.Tactic.Ring
import Mathlib.Tactic.Linarith
import Mathlib.Tactic.NormNum
namespace GSV.Props.C10
open GSV GSV.Model.Fit GSV.Lemmas.Fit

/-! ## statements that are generic in the carrier (so that the witnesses can be computed on `Rat`) -/

section statements
variable {α : Type} [Arith α] [DecidableLT α] [DecidableLE α]

/-- the returned dictionary equals the model state after the call -/
def DictEqModel (c : Cfg α) (r : Result α) : Prop :=
  r.dict.var = r.st.var c ∧ r.dict.len = r.st.len ∧ r.dict.nug = r.st.nug ∧ r.dict.opt = r.st.opt ∧
    r.dict.anis = (if r.dir then some r.st.anis else none)

/-- parameters that are not fitted end with the value `_pre_para` gave them (`pre` = result of `_pre_para`);
    the nugget counts as "not fitted" only if it is not tied to a fitted variance by a constrained sill -/
def Untouched (c : Cfg α) (pre : Pre α) (r : Result α) : Prop :=
  (pre.para.var = false → r.st.var c = pre.st.var c) ∧
  (pre.para.len = false → r.st.len = pre.st.len) ∧
  (pre.para.nug = false → (pre.sill = none ∨ pre.para.var = false) → r.st.nug = pre.st.nug) ∧
  (∀ i, pre.para.opt.getD i true = false → r.st.opt[i]? = pre.st.opt[i]?) ∧
  ((r.dir && r.anisFit) = false → r.st.anis = pre.st.anis)

end statements

/-- **full statement (sill)**: whenever a sill is prescribed, `variance + nugget = sill` after the call, whatever
    `popt` the optimiser returns.  FALSE (`not_sill_exact_full`): a `popt` whose tied nugget `sill - var` lies
    outside the nugget bounds takes the punishment branch in the final evaluation and the nugget of an earlier
    evaluation survives.  `sill_exact_partial` excludes exactly that. -/
def sill_exact_full (α : Type) [Arith α] [DecidableLT α] [DecidableLE α] : Prop :=
  ∀ (c : Cfg α) (s0 : St α) (sel : List (Par × Sel α)) (sl : α) (anis : AnisArg α) (ig : IG α) (w : Weights α)
    (x y : List α) (script : List (List α)) (popt : List α) (r : Result α),
    (∀ l o, c.fac l o = one) → checkAll c s0 = true →
    fit c s0 sel (.value sl) anis ig w true x y script popt = .ok r → r.st.var c + r.st.nug = sl

/-- the three clauses D9 broke, stated for a variant `f` of `fit_variogram` (used with `fitCore false`, the code
    before the repair, in the regression witnesses) -/
def SillExactFor (α : Type) [Arith α] [DecidableLT α] [DecidableLE α]
    (f : Cfg α → St α → List (Par × Sel α) → SillArg α → AnisArg α → IG α → Weights α → Bool → List α → List α →
      List (List α) → List α → Except Err (Result α)) : Prop :=
  ∀ (c : Cfg α) (s0 : St α) (sel : List (Par × Sel α)) (sl : α) (anis : AnisArg α) (ig : IG α) (w : Weights α)
    (x y : List α) (script : List (List α)) (popt : List α) (r : Result α),
    (∀ l o, c.fac l o = one) → checkAll c s0 = true →
    f c s0 sel (.value sl) anis ig w true x y script popt = .ok r →
    punished c r.para r.sill popt = false → r.st.var c + r.st.nug = sl

def DictEqModelFor (α : Type) [Arith α] [DecidableLT α] [DecidableLE α]
    (f : Cfg α → St α → List (Par × Sel α) → SillArg α → AnisArg α → IG α → Weights α → Bool → List α → List α →
      List (List α) → List α → Except Err (Result α)) : Prop :=
  ∀ (c : Cfg α) (s0 : St α) (sel : List (Par × Sel α)) (sill : SillArg α) (anis : AnisArg α) (ig : IG α)
    (w : Weights α) (x y : List α) (script : List (List α)) (popt : List α) (r : Result α),
    (∀ l o, c.fac l o ≠ zero) → checkAll c s0 = true →
    f c s0 sel sill anis ig w true x y script popt = .ok r → DictEqModel c r

def UntouchedFor (α : Type) [Arith α] [DecidableLT α] [DecidableLE α]
    (f : Cfg α → St α → List (Par × Sel α) → SillArg α → AnisArg α → IG α → Weights α → Bool → List α → List α →
      List (List α) → List α → Except Err (Result α)) : Prop :=
  ∀ (c : Cfg α) (s0 : St α) (sel : List (Par × Sel α)) (sill : SillArg α) (anis : AnisArg α) (ig : IG α)
    (w : Weights α) (x y : List α) (script : List (List α)) (popt : List α) (r : Result α) (pre : Pre α),
    (∀ l o, c.fac l o ≠ zero) → checkAll c s0 = true →
    f c s0 sel sill anis ig w true x y script popt = .ok r → prePara c s0 sel sill anis = .ok pre →
    Untouched c pre r

/-! ## theorems at `ℝ` -/

section thms
variable {c : Cfg ℝ} {s0 : St ℝ} {sel : List (Par × Sel ℝ)} {sill : SillArg ℝ} {anis : AnisArg ℝ}
  {ig : IG ℝ} {w : Weights ℝ} {mOk : Bool} {x y : List ℝ} {script : List (List ℝ)} {popt : List ℝ}
  {r : Result ℝ}

/-! ### what one curve evaluation does -/

/-- **curve_faithful**: a successful, non-punished call `curve(x, *args)` leaves the model with `args`
    installed — fitted variance, length scale, nugget and optional arguments are the given ones, the nugget is
    `sill - var` under a constrained sill, a variance that is not fitted is reset to the saved one — and the
    values the optimiser sees (`runScript` records `curveOut` of exactly this state) are the model's own
    variogram, per axis for directional data. -/
theorem curve_faithful {pa : Para} {sl : Option ℝ} {anisFit dir : Bool} {varSave : ℝ} {s s' : St ℝ}
    {args : List ℝ} (hf : ∀ l o, c.fac l o ≠ 0)
    (h : curveState c pa sl anisFit dir varSave s args = .ok (some s')) :
    (pa.var = true → s'.var c = args.getD 0 0) ∧
    (pa.var = false → s'.var c = varSave) ∧
    (pa.len = true → s'.len = args.getD pa.iLen 0) ∧
    (pa.nug = true → s'.nug = args.getD pa.iNug 0) ∧
    (∀ v, pa.var = true → pa.nug = false → sl = some v → s'.var c + s'.nug = v) ∧
    s'.opt = installOpts s.opt pa.opt 0 (args.drop pa.iOpt) ∧
    ((dir && anisFit) = true → s'.anis = normAnis c (lastAnis c args)) ∧
    (∀ xs, curveOut c false xs s' = xs.map fun r => s'.var c - s'.var c * c.corr s'.len s'.opt r + s'.nug) ∧
    checkAll c s' = true := by
  obtain ⟨e, ck, _⟩ := curveState_ok h
  have hv : s'.var c = if pa.var then args.getD 0 0 else varSave := by
    rw [e]; simp only [St.var, curveTarget, zero_real]
    rw [var_div_mul (hf _ _)]
  refine ⟨fun h1 => by rw [hv, h1]; rfl, fun h1 => by rw [hv, h1]; rfl, ?_, ?_, ?_, ?_, ?_, ?_, ck⟩
  · intro h1; rw [e]; simp [curveTarget, h1]
  · intro h1; rw [e]; simp [curveTarget, h1]
  · intro v h1 h2 h3
    rw [hv, h1]
    rw [e]; simp [curveTarget, h1, h2, h3, tiedNug]
  · rw [e]; simp [curveTarget]
  · intro h1; rw [e]; simp [curveTarget, h1]
  · intro xs; simp [curveOut, vario]

example : ∃ (c : Cfg ℝ) (s s' : St ℝ), (∀ l o, c.fac l o ≠ 0) ∧
    curveState c ⟨true, false, false, []⟩ (some 2) false false 1 s [1] = .ok (some s') := by
  refine ⟨⟨1, false, 1, ⟨.fin 0, .pinf, false, false⟩, ⟨.fin 0, .pinf, false, false⟩, ⟨.fin 0, .pinf, true, false⟩,
    ⟨.fin 0, .pinf, false, false⟩, [], fun _ _ => 1, fun _ _ _ => 0⟩, ⟨1, 1, 0, [], []⟩, ⟨1, 1, 1, [], []⟩,
    fun _ _ => one_ne_zero, ?_⟩
  norm_num [curveState, punished, inBnd, ltE, leE, eLt, eLe, setNug, setVar, setOpts, chk, checkAll, St.var, optsIn,
    Except.bind, zero_real]

/-- **r2 on noise-free data**: if the data are the model's own curve values, `_r2_score` returns 1
    (for `ss_tot ≠ 0` this is the true quotient; for `ss_tot = 0` Python returns nan/inf) -/
theorem r2_noise_free (dir : Bool) (xs : List ℝ) (s : St ℝ) :
    r2Score c dir xs (curveOut c dir xs s) s = 1 := r2_self c dir xs s

/-! ### the whole call -/

/-- **`_pre_para` honours the selection**: it keeps the model inside its bounds, produces one flag per optional
    argument, deselects the nugget whenever a sill is constrained, and marks as "not fitted" every parameter the
    caller deselected (`name=False`) or fixed (`name=value`). -/
theorem pre_para_honours_selection {pre : Pre ℝ} (h : prePara c s0 sel sill anis = .ok pre) :
    (checkAll c s0 = true → checkAll c pre.st = true) ∧
    pre.para.opt.length = pre.st.opt.length ∧
    (pre.sill.isSome = true → pre.para.nug = false) ∧
    (∀ p, (deselected sel).contains p = true → paraGet pre.para p = false) := prePara_ok h

/-- **`_pre_para` and the sill**: with a constrained sill and the variance not fitted, `_pre_para` itself leaves
    `variance + nugget = sill`. -/
theorem pre_para_sill {pre : Pre ℝ} {sl : ℝ} (hf : ∀ l o, c.fac l o ≠ 0)
    (h : prePara c s0 sel sill anis = .ok pre) (hs : pre.sill = some sl) (hv : pre.para.var = false) :
    pre.st.var c + pre.st.nug = sl := prePara_sill_sum hf h hs hv

/-- the optional arguments keep their number through all curve evaluations -/
theorem opt_length_script {pa : Para} {sl : Option ℝ} {anisFit dir : Bool} {varSave : ℝ} {xs : List ℝ}
    {s s1 : St ℝ} {scr : List (List ℝ)} {outs : List (Option (List ℝ))}
    (h : runScript c pa sl anisFit dir varSave xs s scr = .ok (s1, outs)) : s1.opt.length = s.opt.length := by
  refine runScript_induct (P := fun t => t.opt.length = s.opt.length) ?_ h rfl
  intro t a t' ht hP
  rw [(curveState_ok ht).1]
  simpa [curveTarget, installOpts_length] using hP

/-- the phases of a successful call, with the invariants every later theorem needs: `s1` is the state after
    the optimiser's evaluations, `s1'` the state after the final evaluation at `popt` -/
theorem fit_phases (h : fit c s0 sel sill anis ig w mOk x y script popt = .ok r) :
    ∃ pre s1 outs s1' o2,
      prePara c s0 sel sill anis = .ok pre ∧ r.para = pre.para ∧ r.sill = pre.sill ∧
      runScript c pre.para pre.sill r.anisFit r.dir (pre.st.var c) r.xdata pre.st script = .ok (s1, outs) ∧
      runScript c pre.para pre.sill r.anisFit r.dir (pre.st.var c) r.xdata s1 [popt] = .ok (s1', o2) ∧
      postFitting c pre.para r.anisFit r.dir s1' popt = .ok (r.st, r.dict) ∧
      pre.para.opt.length = s1'.opt.length ∧ r.outs = outs ∧
      r.r2 = r2Score c r.dir r.xdata y r.st := by
  obtain ⟨pre, dir, s1, outs, s1', hpre, _, _, hrun, hev, hpost, hpa, hsl, hdir, haf, hout, hx, hr2⟩ := fitCore_ok h
  simp only [↓reduceIte] at hev
  obtain ⟨o2, hev⟩ := hev
  obtain ⟨_, hlen, _, _⟩ := prePara_ok hpre
  refine ⟨pre, s1, outs, s1', o2, hpre, hpa, hsl, by rw [haf, hdir, hx]; exact hrun,
    by rw [haf, hdir, hx]; exact hev, by rw [haf, hdir]; exact hpost, ?_, hout, by rw [hdir, hx]; exact hr2⟩
  rw [hlen, opt_length_script hev, opt_length_script hrun]

/-- **within_bounds**: a successful call ends with every parameter inside the bounds of the model
    (`check_arg_bounds` passes on the final state: `var`, `len_scale`, `nugget`, every anisotropy ratio and every
    optional argument satisfy their interval, open or closed as declared), whatever the optimiser did. -/
theorem within_bounds (h : fit c s0 sel sill anis ig w mOk x y script popt = .ok r)
    (h0 : checkAll c s0 = true) : checkAll c r.st = true := by
  obtain ⟨pre, s1, outs, s1', o2, hpre, _, _, hrun, hev, hpost, hlen, _⟩ := fit_phases h
  obtain ⟨cpre, _, _, _⟩ := prePara_ok hpre
  have c1 : checkAll c s1 = true :=
    runScript_induct (P := fun t => checkAll c t = true) (fun _ _ _ ht _ => (curveState_ok ht).2.1) hrun (cpre h0)
  have c2 : checkAll c s1' = true :=
    runScript_induct (P := fun t => checkAll c t = true) (fun _ _ _ ht _ => (curveState_ok ht).2.1) hev c1
  exact (postFitting_ok hpost hlen).2.2 c2

/-- what `checkAll` says for one parameter with finite bounds -/
theorem inBnd_fin_iff (a b v : ℝ) (lc hc : Bool) :
    inBnd ⟨.fin a, .fin b, lc, hc⟩ v = true ↔ (if lc then a ≤ v else a < v) ∧ (if hc then v ≤ b else v < b) := by
  cases lc <;> cases hc <;> simp [inBnd, ltE, leE, eLt, eLe]

/-- with a constrained sill the upper bound handed to `curve_fit` for the variance is the sill -/
theorem var_top_is_sill (pa : Para) (g : Guess ℝ) (sl : ℝ) (af : Bool) (hv : pa.var = true) :
    ∃ p0 rest, initCurveFitPara c pa g (some sl) af = (c.varB.lo, .fin sl, p0) :: rest := by
  simp [initCurveFitPara, hv]

/-- **fitted parameters end with popt**: after a successful call the fitted variance, length scale and nugget
    are the entries of `popt` at their positions, and the optional arguments are `popt`'s installed over some
    list (the unfitted ones are pinned down by `untouched`). -/
theorem fitted_eq_popt (hf : ∀ l o, c.fac l o ≠ 0)
    (h : fit c s0 sel sill anis ig w mOk x y script popt = .ok r) :
    (r.para.var = true → r.st.var c = popt.getD 0 0) ∧
    (r.para.len = true → r.st.len = popt.getD r.para.iLen 0) ∧
    (r.para.nug = true → r.st.nug = popt.getD r.para.iNug 0) ∧
    (∃ o, r.st.opt = installOpts o r.para.opt 0 (popt.drop r.para.iOpt)) ∧
    ((r.dir && r.anisFit) = true → r.st.anis = normAnis c (lastAnis c popt)) := by
  obtain ⟨pre, s1, outs, s1', o2, hpre, hpa, _, hrun, hev, hpost, hlen, _⟩ := fit_phases h
  obtain ⟨e, _, _⟩ := postFitting_ok hpost hlen
  rw [hpa]
  refine ⟨?_, ?_, ?_, ⟨s1'.opt, by rw [e]; rfl⟩, ?_⟩
  · intro h1; rw [e]; simp only [St.var, postTarget, h1, ↓reduceIte, zero_real]; rw [var_div_mul (hf _ _)]
  · intro h1; rw [e]; simp [postTarget, h1]
  · intro h1; rw [e]; simp [postTarget, h1]
  · intro h1; rw [e]; simp [postTarget, h1]

/-- **var ≤ sill**: with a constrained sill and a fitted variance, a `popt` that respects the upper bound it
    was given (`var_top_is_sill`) leaves `variance ≤ sill`. -/
theorem var_le_sill (hf : ∀ l o, c.fac l o ≠ 0)
    (h : fit c s0 sel sill anis ig w mOk x y script popt = .ok r) {sl : ℝ} (_hs : r.sill = some sl)
    (hv : r.para.var = true) (hp : popt.getD 0 0 ≤ sl) : r.st.var c ≤ sl := by
  rw [(fitted_eq_popt hf h).1 hv]; exact hp

/-- **final_state**: unless `popt` takes the punishment branch (fitted variance, constrained sill and
    `sill - popt_var` outside the nugget bounds), the model ends in the state of the curve evaluation at `popt`:
    `_post_fitting` changes nothing any more. `s1` is the state the optimiser's own evaluations left. -/
theorem final_state (h : fit c s0 sel sill anis ig w mOk x y script popt = .ok r)
    (hp : punished c r.para r.sill popt = false) :
    ∃ pre s1 outs, prePara c s0 sel sill anis = .ok pre ∧ r.para = pre.para ∧ r.sill = pre.sill ∧
      runScript c pre.para pre.sill r.anisFit r.dir (pre.st.var c) r.xdata pre.st script = .ok (s1, outs) ∧
      r.st = curveTarget c pre.para pre.sill r.anisFit r.dir (pre.st.var c) s1 popt := by
  obtain ⟨pre, s1, outs, s1', o2, hpre, hpa, hsl, hrun, hev, hpost, hlen, _⟩ := fit_phases h
  rw [hpa, hsl] at hp
  obtain ⟨e1, _, _⟩ := runScript_single hev hp
  obtain ⟨e, _, _⟩ := postFitting_ok hpost hlen
  refine ⟨pre, s1, outs, hpre, hpa, hsl, hrun, ?_⟩
  rw [e, e1]; exact postTarget_fix _ _ _ _ _ _ _ _

/-! ### dict = model -/

/-- **dict_eq_model** (full): for every class with non-vanishing variance factor, EVERY script and EVERY popt,
    the returned dictionary equals the model state after the call. -/
theorem dict_eq_model (hf : ∀ l o, c.fac l o ≠ 0)
    (h : fit c s0 sel sill anis ig w mOk x y script popt = .ok r) : DictEqModel c r := by
  obtain ⟨pre, s1, outs, s1', o2, hpre, hpa, hsl, hrun, hev, hpost, hlen, _⟩ := fit_phases h
  obtain ⟨e, ed, _⟩ := postFitting_ok hpost hlen
  refine ⟨?_, by rw [ed]; rfl, by rw [ed]; rfl, by rw [ed]; rfl, by rw [ed]; rfl⟩
  rw [ed]
  simp only [postDict]
  cases hv : pre.para.var
  · -- variance not fitted: the final evaluation cannot be punished, `_post_fitting` is a no-op on it
    simp only [Bool.false_eq_true, ↓reduceIte]
    obtain ⟨e1, _, _⟩ := runScript_single hev (punished_false_of_var hv)
    have hfix : r.st = s1' := by rw [e, e1]; exact postTarget_fix _ _ _ _ _ _ _ _
    rw [hfix]
  · simp only [↓reduceIte]
    rw [e]
    simp only [St.var, postTarget, hv, ↓reduceIte, zero_real]
    rw [var_div_mul (hf _ _)]

/-! ### untouched -/

/-- **untouched** (full): for every class with non-vanishing variance factor, EVERY script and EVERY popt,
    parameters that are not fitted end with the value `_pre_para` gave them, and `_pre_para` marks as not fitted
    everything the caller deselected or fixed (`paraGet pre.para p = false`).  (`AnisWF`: the anisotropy list has
    the form every setter leaves it in.) -/
theorem untouched (hf : ∀ l o, c.fac l o ≠ 0)
    (h : fit c s0 sel sill anis ig w mOk x y script popt = .ok r) :
    ∃ pre, prePara c s0 sel sill anis = .ok pre ∧
      (∀ p, (deselected sel).contains p = true → paraGet pre.para p = false) ∧
      (AnisWF c pre.st.anis → Untouched c pre r) := by
  obtain ⟨pre, s1, outs, s1', o2, hpre, hpa, hsl, hrun, hev, hpost, hlen, _⟩ := fit_phases h
  obtain ⟨_, _, _, hdes⟩ := prePara_ok hpre
  refine ⟨pre, hpre, hdes, fun hwf => ?_⟩
  obtain ⟨e, _, _⟩ := postFitting_ok hpost hlen
  -- invariant of the curve evaluations (the variance is handled by the final evaluation)
  let P : St ℝ → Prop := fun t =>
    (pre.para.len = false → t.len = pre.st.len) ∧
    (pre.para.nug = false → (pre.sill = none ∨ pre.para.var = false) → t.nug = pre.st.nug) ∧
    (∀ i, pre.para.opt.getD i true = false → t.opt[i]? = pre.st.opt[i]?) ∧
    ((r.dir && r.anisFit) = false → t.anis = pre.st.anis)
  have hstep : ∀ t a t', curveState c pre.para pre.sill r.anisFit r.dir (pre.st.var c) t a = .ok (some t') →
      P t → P t' := by
    intro t a t' ht ⟨p2, p3, p4, p5⟩
    rw [(curveState_ok ht).1]
    refine ⟨?_, ?_, ?_, ?_⟩
    · intro hl; simp only [curveTarget, hl]; exact p2 hl
    · intro hn hs
      simp only [curveTarget, hn]
      rcases hs with hs | hs
      · cases pre.para.var <;> simp [hs, tiedNug, p3 hn (Or.inl hs)]
      · simp [hs, p3 hn (Or.inr hs)]
    · intro i hi
      simp only [curveTarget]
      rw [installOpts_get_unfit _ _ _ _ _ (Or.inl (by simpa using hi))]
      exact p4 i hi
    · intro hd
      have hd' : (r.dir && r.anisFit) = false := hd
      simp only [curveTarget, hd']
      rw [p5 hd]
      cases pre.para.len
      · simp
      · simpa [AnisWF] using hwf
  have hP1 : P s1 := runScript_induct (P := P) hstep hrun ⟨fun _ => rfl, fun _ _ => rfl, fun _ _ => rfl, fun _ => rfl⟩
  have hP2 : P s1' := runScript_induct (P := P) hstep hev hP1
  obtain ⟨p2, p3, p4, p5⟩ := hP2
  refine ⟨?_, ?_, ?_, ?_, ?_⟩
  · intro hv
    obtain ⟨e1, _, _⟩ := runScript_single hev (punished_false_of_var hv)
    have hfix : r.st = s1' := by rw [e, e1]; exact postTarget_fix _ _ _ _ _ _ _ _
    rw [hfix, e1]
    simp only [St.var, curveTarget, hv, Bool.false_eq_true, ↓reduceIte]
    rw [var_div_mul (hf _ _)]
  · intro hl; rw [e]; simp only [postTarget, hl]; exact p2 hl
  · intro hn hs; rw [e]; simp only [postTarget, hn]; exact p3 hn hs
  · intro i hi
    rw [e]
    simp only [postTarget]
    rw [installOpts_get_unfit _ _ _ _ _ (Or.inl (by simpa using hi))]
    exact p4 i hi
  · intro hd
    rw [e]
    simp only [postTarget, hd]
    rw [p5 hd]
    cases pre.para.len
    · simp
    · simpa [AnisWF] using hwf

/-! ### the sill -/

/-- **sill_exact_partial**: a prescribed sill is met exactly by `variance + nugget` after the call — any class
    with non-vanishing variance factor, EVERY script — provided `popt` itself is not in the punishment region
    (its tied nugget `sill - popt_var` lies inside the nugget bounds; automatic when the variance is not fitted).
    Without the proviso the statement is false: `not_sill_exact_full`. -/
theorem sill_exact_partial {sl : ℝ} (hf : ∀ l o, c.fac l o ≠ 0)
    (h : fit c s0 sel sill anis ig w mOk x y script popt = .ok r) (hs : r.sill = some sl)
    (hp : punished c r.para r.sill popt = false) : r.st.var c + r.st.nug = sl := by
  obtain ⟨pre, s1, outs, hpre, hpa, hsl, hrun, hst⟩ := final_state h hp
  obtain ⟨_, _, hnug, _⟩ := prePara_ok hpre
  rw [hsl] at hs
  have hn : pre.para.nug = false := hnug (by rw [hs]; rfl)
  have hv : r.st.var c = if pre.para.var then popt.getD 0 0 else pre.st.var c := by
    rw [hst]; simp only [St.var, curveTarget, zero_real]; rw [var_div_mul (hf _ _)]
  cases hvar : pre.para.var
  · -- variance not fitted: the nugget was never touched, `_pre_para` made the sum right
    have hnug1 : s1.nug = pre.st.nug := by
      refine runScript_induct (P := fun t => t.nug = pre.st.nug) ?_ hrun rfl
      intro t a t' ht hP
      rw [(curveState_ok ht).1]
      simp [curveTarget, hn, hvar, hP]
    rw [hv, hvar, hst]
    simp only [Bool.false_eq_true, ↓reduceIte, curveTarget, hn, hvar, hnug1]
    exact prePara_sill_sum hf hpre hs hvar
  · rw [hv, hvar, hst]
    simp [curveTarget, hn, hvar, hs, tiedNug]

/-- **sill with the variance not fitted**: no proviso at all (the punishment branch needs a fitted variance). -/
theorem sill_exact_var_fixed {sl : ℝ} (hf : ∀ l o, c.fac l o ≠ 0)
    (h : fit c s0 sel sill anis ig w mOk x y script popt = .ok r) (hs : r.sill = some sl)
    (hv : r.para.var = false) : r.st.var c + r.st.nug = sl :=
  sill_exact_partial hf h hs (punished_false_of_var hv)

/-! ### recovering the generating curve -/

/-- two parameter states that agree on everything the variogram depends on -/
def SameParams (c : Cfg ℝ) (g s : St ℝ) : Prop :=
  g.var c = s.var c ∧ g.len = s.len ∧ g.nug = s.nug ∧ g.anis = s.anis ∧ g.opt = s.opt

theorem curveOut_congr {g s : St ℝ} (hgs : SameParams c g s) (dir : Bool) (xs : List ℝ) :
    curveOut c dir xs g = curveOut c dir xs s := by
  obtain ⟨h1, h2, h3, h4, h5⟩ := hgs
  have hv : vario c g = vario c s := by funext z; simp only [vario, h1, h2, h3, h5]
  have ha : varioAxis c g = varioAxis c s := by funext i z; simp only [varioAxis, hv, h4]
  simp only [curveOut, hv, ha]

/-- **recovers**: if the data are the variogram values of the same model family at a generating state `g`, and
    the call ends with the generating parameters (fitted ones: `fitted_eq_popt` with `popt` = the generating
    values; the others: `untouched`), then the reported `r2` is 1. -/
theorem recovers {g : St ℝ} (h : fit c s0 sel sill anis ig w mOk x y script popt = .ok r)
    (hg : SameParams c g r.st) (hy : y = curveOut c r.dir r.xdata g) : r.r2 = 1 := by
  obtain ⟨_, _, _, _, _, _, _, _, _, _, _, _, _, hr2⟩ := fit_phases h
  rw [hr2, hy, curveOut_congr hg]
  exact r2_self c r.dir r.xdata r.st

end thms

/-! ## concrete scripted-optimiser witnesses (computed on `Rat` by kernel evaluation of the model) -/

section witnesses

/-- default bounds of `CovModel`: var, len_scale, anis in (0, ∞), nugget in [0, ∞) -/
def wBndOpen : Bnd Rat := ⟨.fin 0, .pinf, false, false⟩
def wBndNug : Bnd Rat := ⟨.fin 0, .pinf, true, false⟩

/-- a 1-d class without optional arguments and without variance factor; triangular correlation -/
def wPlain : Cfg Rat :=
  { dim := 1, latlon := false, rescale := 1, varB := wBndOpen, lenB := wBndOpen, nugB := wBndNug,
    anisB := wBndOpen, optB := [], fac := fun _ _ => one,
    corr := fun len _ r => if 1 - r / len < 0 then 0 else 1 - r / len }

/-- the same class with custom nugget bounds `[0, 1/2]` (`set_arg_bounds(nugget=[0, 0.5])`) -/
def wNugBnd : Cfg Rat := { wPlain with nugB := ⟨.fin 0, .fin (1 / 2), true, true⟩ }

/-- the same class with a TPL-like variance factor `var = var_raw * (len_scale² + 1)` -/
def wFac : Cfg Rat := { wPlain with fac := fun len _ => len * len + 1 }

def wS0 : St Rat := { varRaw := 1, len := 1, nug := 0, anis := [], opt := [] }
def wIG : IG Rat := { dflt := 0, badName := false, var := none, len := none, nug := none, anis := none, opt := [] }

def okAnd (e : Except Err (Result Rat)) (p : Result Rat → Bool) : Bool :=
  match e with
  | .ok r => p r
  | .error _ => false

theorem okAnd_spec {e : Except Err (Result Rat)} {p : Result Rat → Bool} (h : okAnd e p = true) :
    ∃ r, e = .ok r ∧ p r = true := by
  cases e with
  | ok r => exact ⟨r, rfl, h⟩
  | error _ => cases h

/-- `fit_variogram(x, y, sill=2, len_scale=False)` with nugget bounds `[0, 1/2]`: the optimiser evaluates the
    curve at var = 7/4 (nugget 1/4) and returns popt = [1], whose tied nugget 1 is out of bounds -/
def wSillRun : Except Err (Result Rat) :=
  fit wNugBnd wS0 [(.len, .flag false)] (.value 2) (.flag true) wIG .none true [1, 2] [1, 2] [[7 / 4]] [1]

/-- **the unrestricted sill statement is false**: a `popt` in the punishment region leaves var = 1 (from popt)
    and nugget = 1/4 (from the earlier evaluation), `var + nugget = 5/4 ≠ 2`.  (Real `curve_fit` cannot return
    such a popt as an optimum — its residual is infinite — but nothing in `fit_variogram` checks it; the related
    reachable failure is the known finding `fit:sill-vs-bounds:*`.) -/
theorem not_sill_exact_full : ¬ sill_exact_full Rat := by
  intro h
  have hw : okAnd wSillRun (fun r => !decide (r.st.var wNugBnd + r.st.nug = 2)) = true := by decide +kernel
  obtain ⟨r, hr, hc⟩ := okAnd_spec hw
  have h2 := h wNugBnd wS0 [(.len, .flag false)] 2 (.flag true) wIG .none [1, 2] [1, 2] [[7 / 4]] [1] r
    (fun _ _ => rfl) (by decide +kernel) hr
  simp [h2] at hc

/-! ### regression: the code before the D9 repair (`fitCore false`: no final evaluation at `popt`) -/

/-- `fit_variogram(x, y, sill=2, len_scale=False)`; the optimiser evaluates the curve at var = 1 and returns
    popt = [3/2] (not punished: tied nugget 1/2 ≥ 0) -/
def wOldSillRun : Except Err (Result Rat) :=
  fitCore false wPlain wS0 [(.len, .flag false)] (.value 2) (.flag true) wIG .none true [1, 2] [1, 2] [[1]] [3 / 2]

/-- without the final evaluation the sill identity fails even for a harmless popt: var = 3/2 from popt,
    nugget = 2 − 1 from the last evaluation (defect D9a as it was; the search key
    `fit:last-evaluation-state:fixed-sill-var-only` watches for its return) -/
theorem old_code_breaks_sill : ¬ SillExactFor Rat (fitCore false) := by
  intro h
  have hw : okAnd wOldSillRun (fun r => !decide (r.st.var wPlain + r.st.nug = 2) &&
      !punished wPlain r.para r.sill [3 / 2]) = true := by decide +kernel
  obtain ⟨r, hr, hc⟩ := okAnd_spec hw
  simp only [Bool.and_eq_true, Bool.not_eq_eq_eq_not, Bool.not_true, decide_eq_false_iff_not] at hc
  exact hc.1 (h wPlain wS0 [(.len, .flag false)] 2 (.flag true) wIG .none [1, 2] [1, 2] [[1]] [3 / 2] r
    (fun _ _ => rfl) (by decide +kernel) hr hc.2)

/-- the repaired code meets the sill on the same script -/
example : okAnd (fit wPlain wS0 [(.len, .flag false)] (.value 2) (.flag true) wIG .none true [1, 2] [1, 2] [[1]] [3 / 2])
    (fun r => decide (r.st.var wPlain + r.st.nug = 2)) = true := by decide +kernel

theorem wFac_ne_zero : ∀ (l : Rat) (o : List Rat), wFac.fac l o ≠ zero := by
  intro l _
  show l * l + 1 ≠ ((0 : Nat) : Rat)
  have := mul_self_nonneg l
  simp only [Nat.cast_zero]
  linarith

/-- `fit_variogram(x, y, var=False)` on a class with variance factor; the optimiser evaluates the curve at
    (len_scale, nugget) = (2, 0) and returns popt = [1, 0] -/
def wOldFacRun : Except Err (Result Rat) :=
  fitCore false wFac wS0 [(.var, .flag false)] .none (.flag true) wIG .none true [1, 2] [1, 2] [[2, 0]] [1, 0]

/-- without the final evaluation `dict["var"] = 2` (read while the model still had the last evaluation's length
    scale) but `model.var = 4/5` (defect D9b as it was) -/
theorem old_code_breaks_dict : ¬ DictEqModelFor Rat (fitCore false) := by
  intro h
  have hw : okAnd wOldFacRun (fun r => !decide (r.dict.var = r.st.var wFac)) = true := by decide +kernel
  obtain ⟨r, hr, hc⟩ := okAnd_spec hw
  have h2 := h wFac wS0 [(.var, .flag false)] .none (.flag true) wIG .none [1, 2] [1, 2] [[2, 0]] [1, 0] r
    wFac_ne_zero (by decide +kernel) hr
  simp [h2.1] at hc

def wUntCheck : Bool :=
  match wOldFacRun, prePara wFac wS0 [(.var, .flag false)] SillArg.none (AnisArg.flag true) with
  | .ok r, .ok pre => !decide (r.st.var wFac = pre.st.var wFac) && !pre.para.var
  | _, _ => false

/-- without the final evaluation the deselected variance 2 of a TPL-like class ends as 4/5 (defect D9b as it was) -/
theorem old_code_breaks_untouched : ¬ UntouchedFor Rat (fitCore false) := by
  intro h
  have hw : wUntCheck = true := by decide +kernel
  unfold wUntCheck at hw
  split at hw
  · rename_i r pre hr hpre
    have h2 := h wFac wS0 [(.var, .flag false)] .none (.flag true) wIG .none [1, 2] [1, 2] [[2, 0]] [1, 0] r pre
      wFac_ne_zero (by decide +kernel) hr hpre
    simp only [Bool.and_eq_true, Bool.not_eq_eq_eq_not, Bool.not_true, decide_eq_false_iff_not] at hw
    exact hw.1 (h2.1 hw.2)
  · cases hw

/-! hypotheses of the theorems are satisfiable by non-trivial objects (rational instances of the same model):
    successful runs with a constrained sill / a deselected variance under a variance factor / noise-free data -/

example : ∃ r, fit wPlain wS0 [(.len, .flag false)] (.value 2) (.flag true) wIG .none true [1, 2] [1, 2]
      [[1], [5 / 4]] [3 / 2] = .ok r ∧
      (decide (r.sill = some 2) && !punished wPlain r.para r.sill [3 / 2] &&
        decide (r.st.var wPlain + r.st.nug = 2) && decide (r.para = ⟨true, false, false, []⟩)) = true :=
  okAnd_spec (by decide +kernel)

example : ∃ r, fit wFac wS0 [(.var, .flag false)] .none (.flag true) wIG .none true [1, 2] [1, 2]
      [[2, 0]] [1, 0] = .ok r ∧
      (decide (r.dict.var = r.st.var wFac) && decide (r.st.var wFac = 2) &&
        decide (r.para = ⟨false, true, true, []⟩)) = true :=
  okAnd_spec (by decide +kernel)

/-- noise-free data: the curve values of the family at (var, len_scale, nugget) = (3/2, 4, 7/4) as data and the
    optimiser returning those parameters give r2 = 1 on the rational model too -/
example : ∃ r, fit wPlain wS0 [] .none (.flag true) wIG .none true [1, 2] [17 / 8, 5 / 2]
      [[1, 1, 1]] [3 / 2, 4, 7 / 4] = .ok r ∧ (decide (r.r2 = 1)) = true :=
  okAnd_spec (by decide +kernel)

end witnesses

end GSV.Props.C10
