/-
  C10 — variogram fitting recovers the generating parameters and honours constraints.

  The definitions reasoned about are those of `GSV/Model/Fit.lean` (the same text the driver runs on `Rat`
  against the real `gstools.covmodel.fit.fit_variogram` with a scripted optimiser), instantiated at `ℝ`.
  `scipy.optimize.curve_fit` is a parameter: `fit … script popt` evaluates the curve at the points of an
  ARBITRARY finite list `script` and then receives an ARBITRARY `popt`.  The model class is a parameter too:
  `c.fac` (`var_factor`, constant 1 for every class except the TPL family) and `c.corr` (the normalised
  correlation) are uninterpreted functions.

  Clauses of the property and where they are:
    * untouched          `untouched_plain` (all scripts, `var_factor = 1`), `untouched_partial` (any positive
                         `var_factor`, last evaluation = popt), `not_untouched_full` (D9b witness)
    * dict = model       `dict_eq_model_plain`, `dict_eq_model_partial`, `not_dict_eq_model_full` (D9b witness)
    * bounds             `within_bounds`, `var_le_sill`, `var_top_is_sill`, `fitted_eq_popt`
    * sill               `sill_exact_partial`, `sill_exact_var_fixed_plain`, `not_sill_exact_full` (D9a witness)
    * recovers the curve `curve_faithful`, `r2_noise_free`, `recovers_partial`
  Not proved: that `curve_fit` converges to the generating parameters ("from a start near the truth").
-/
import GSV.RealInst
import GSV.Model.Fit
import GSV.Lemmas.Fit
import Mathlib.Tactic.Ring
import Mathlib.Tactic.Linarith
import Mathlib.Tactic.NormNum
namespace GSV.Props.C10
open GSV GSV.Model.Fit GSV.Lemmas.Fit

/-! ## statements that are generic in the carrier (so that the witnesses can be computed on `Rat`) -/

section statements
variable {α : Type} [Arith α] [DecidableLT α] [DecidableLE α]

/-- the returned dictionary equals the model state after the call -/
def DictEqModel (c : Cfg α) (r : Result α) : Prop :=
  r.dict.var = r.st.var c ∧ r.dict.len = r.st.len ∧ r.dict.nug = r.st.nug ∧ r.dict.opt = r.st.opt ∧
    r.dict.anis = (if r.dir then some r.st.anis else none)

/-- parameters that are not fitted end with the value `_pre_para` gave them (`pre` = result of `_pre_para`);
    the nugget counts as "not fitted" only if it is not tied to a fitted variance by a constrained sill -/
def Untouched (c : Cfg α) (pre : Pre α) (r : Result α) : Prop :=
  (pre.para.var = false → r.st.var c = pre.st.var c) ∧
  (pre.para.len = false → r.st.len = pre.st.len) ∧
  (pre.para.nug = false → (pre.sill = none ∨ pre.para.var = false) → r.st.nug = pre.st.nug) ∧
  (∀ i, pre.para.opt.getD i true = false → r.st.opt[i]? = pre.st.opt[i]?) ∧
  ((r.dir && r.anisFit) = false → r.st.anis = pre.st.anis)

end statements

/-- **full statement (sill)**: whenever a sill is prescribed, `variance + nugget = sill` after the call —
    already for classes without a variance factor.  FALSE of the current code (`not_sill_exact_full`). -/
def sill_exact_full (α : Type) [Arith α] [DecidableLT α] [DecidableLE α] : Prop :=
  ∀ (c : Cfg α) (s0 : St α) (sel : List (Par × Sel α)) (sl : α) (anis : AnisArg α) (ig : IG α) (w : Weights α)
    (x y : List α) (script : List (List α)) (popt : List α) (r : Result α),
    (∀ l o, c.fac l o = one) → checkAll c s0 = true →
    fit c s0 sel (.value sl) anis ig w true x y script popt = .ok r → r.st.var c + r.st.nug = sl

/-- **full statement (dict)**: for every class with a non-vanishing variance factor the returned dictionary
    equals the model state.  FALSE of the current code (`not_dict_eq_model_full`). -/
def dict_eq_model_full (α : Type) [Arith α] [DecidableLT α] [DecidableLE α] : Prop :=
  ∀ (c : Cfg α) (s0 : St α) (sel : List (Par × Sel α)) (sill : SillArg α) (anis : AnisArg α) (ig : IG α)
    (w : Weights α) (x y : List α) (script : List (List α)) (popt : List α) (r : Result α),
    (∀ l o, c.fac l o ≠ zero) → checkAll c s0 = true →
    fit c s0 sel sill anis ig w true x y script popt = .ok r → DictEqModel c r

/-- **full statement (untouched)**: for every class with a non-vanishing variance factor, parameters that are
    not fitted keep the value `_pre_para` gave them.  FALSE of the current code (`not_untouched_full`). -/
def untouched_full (α : Type) [Arith α] [DecidableLT α] [DecidableLE α] : Prop :=
  ∀ (c : Cfg α) (s0 : St α) (sel : List (Par × Sel α)) (sill : SillArg α) (anis : AnisArg α) (ig : IG α)
    (w : Weights α) (x y : List α) (script : List (List α)) (popt : List α) (r : Result α) (pre : Pre α),
    (∀ l o, c.fac l o ≠ zero) → checkAll c s0 = true →
    fit c s0 sel sill anis ig w true x y script popt = .ok r → prePara c s0 sel sill anis = .ok pre →
    Untouched c pre r

/-! ## theorems at `ℝ` -/

section thms
variable {c : Cfg ℝ} {s0 : St ℝ} {sel : List (Par × Sel ℝ)} {sill : SillArg ℝ} {anis : AnisArg ℝ}
  {ig : IG ℝ} {w : Weights ℝ} {mOk : Bool} {x y : List ℝ} {script : List (List ℝ)} {popt : List ℝ}
  {r : Result ℝ}

/-! ### what one curve evaluation does -/

/-- **curve_faithful**: a successful, non-punished call `curve(x, *args)` leaves the model with `args`
    installed — fitted variance, length scale, nugget and optional arguments are the given ones, the nugget is
    `sill - var` under a constrained sill, a variance that is not fitted is reset to the saved one — and the
    values the optimiser sees (`runScript` records `curveOut` of exactly this state) are the model's own
    variogram, per axis for directional data. -/
theorem curve_faithful {pa : Para} {sl : Option ℝ} {anisFit dir : Bool} {varSave : ℝ} {s s' : St ℝ}
    {args : List ℝ} (hf : ∀ l o, c.fac l o ≠ 0)
    (h : curveState c pa sl anisFit dir varSave s args = .ok (some s')) :
    (pa.var = true → s'.var c = args.getD 0 0) ∧
    (pa.var = false → s'.var c = varSave) ∧
    (pa.len = true → s'.len = args.getD pa.iLen 0) ∧
    (pa.nug = true → s'.nug = args.getD pa.iNug 0) ∧
    (∀ v, pa.var = true → pa.nug = false → sl = some v → s'.var c + s'.nug = v) ∧
    s'.opt = installOpts s.opt pa.opt 0 (args.drop pa.iOpt) ∧
    ((dir && anisFit) = true → s'.anis = normAnis c (lastAnis c args)) ∧
    (∀ xs, curveOut c false xs s' = xs.map fun r => s'.var c - s'.var c * c.corr s'.len s'.opt r + s'.nug) ∧
    checkAll c s' = true := by
  obtain ⟨e, ck, _⟩ := curveState_ok h
  have hv : s'.var c = if pa.var then args.getD 0 0 else varSave := by
    rw [e]; simp only [St.var, curveTarget, zero_real]
    rw [var_div_mul (hf _ _)]
  refine ⟨fun h1 => by rw [hv, h1]; rfl, fun h1 => by rw [hv, h1]; rfl, ?_, ?_, ?_, ?_, ?_, ?_, ck⟩
  · intro h1; rw [e]; simp [curveTarget, h1]
  · intro h1; rw [e]; simp [curveTarget, h1]
  · intro v h1 h2 h3
    rw [hv, h1]
    rw [e]; simp [curveTarget, h1, h2, h3, tiedNug]
  · rw [e]; simp [curveTarget]
  · intro h1; rw [e]; simp [curveTarget, h1]
  · intro xs; simp [curveOut, vario]

example : ∃ (c : Cfg ℝ) (s s' : St ℝ), (∀ l o, c.fac l o ≠ 0) ∧
    curveState c ⟨true, false, false, []⟩ (some 2) false false 1 s [1] = .ok (some s') := by
  refine ⟨⟨1, false, 1, ⟨.fin 0, .pinf, false, false⟩, ⟨.fin 0, .pinf, false, false⟩, ⟨.fin 0, .pinf, true, false⟩,
    ⟨.fin 0, .pinf, false, false⟩, [], fun _ _ => 1, fun _ _ _ => 0⟩, ⟨1, 1, 0, [], []⟩, ⟨1, 1, 1, [], []⟩,
    fun _ _ => one_ne_zero, ?_⟩
  norm_num [curveState, punished, inBnd, ltE, leE, eLt, eLe, setNug, setVar, setOpts, chk, checkAll, St.var, optsIn,
    Except.bind, zero_real]

/-- **r2 on noise-free data**: if the data are the model's own curve values, `_r2_score` returns 1
    (for `ss_tot ≠ 0` this is the true quotient; for `ss_tot = 0` Python returns nan/inf) -/
theorem r2_noise_free (dir : Bool) (xs : List ℝ) (s : St ℝ) :
    r2Score c dir xs (curveOut c dir xs s) s = 1 := r2_self c dir xs s

/-! ### the whole call -/

/-- **`_pre_para` honours the selection**: it keeps the model inside its bounds, produces one flag per optional
    argument, deselects the nugget whenever a sill is constrained, and marks as "not fitted" every parameter the
    caller deselected (`name=False`) or fixed (`name=value`). -/
theorem pre_para_honours_selection {pre : Pre ℝ} (h : prePara c s0 sel sill anis = .ok pre) :
    (checkAll c s0 = true → checkAll c pre.st = true) ∧
    pre.para.opt.length = pre.st.opt.length ∧
    (pre.sill.isSome = true → pre.para.nug = false) ∧
    (∀ p, (deselected sel).contains p = true → paraGet pre.para p = false) := prePara_ok h

/-- **`_pre_para` and the sill**: with a constrained sill and the variance not fitted, `_pre_para` itself leaves
    `variance + nugget = sill`. -/
theorem pre_para_sill {pre : Pre ℝ} {sl : ℝ} (hf : ∀ l o, c.fac l o ≠ 0)
    (h : prePara c s0 sel sill anis = .ok pre) (hs : pre.sill = some sl) (hv : pre.para.var = false) :
    pre.st.var c + pre.st.nug = sl := prePara_sill_sum hf h hs hv

/-- the optional arguments keep their number through all curve evaluations -/
theorem opt_length_script {pa : Para} {sl : Option ℝ} {anisFit dir : Bool} {varSave : ℝ} {xs : List ℝ}
    {s s1 : St ℝ} {scr : List (List ℝ)} {outs : List (Option (List ℝ))}
    (h : runScript c pa sl anisFit dir varSave xs s scr = .ok (s1, outs)) : s1.opt.length = s.opt.length := by
  refine runScript_induct (P := fun t => t.opt.length = s.opt.length) ?_ h rfl
  intro t a t' ht hP
  rw [(curveState_ok ht).1]
  simpa [curveTarget, installOpts_length] using hP

/-- **within_bounds**: a successful call ends with every parameter inside the bounds of the model
    (`check_arg_bounds` passes on the final state: `var`, `len_scale`, `nugget`, every anisotropy ratio and every
    optional argument satisfy their interval, open or closed as declared), whatever the optimiser did. -/
theorem within_bounds (h : fit c s0 sel sill anis ig w mOk x y script popt = .ok r)
    (h0 : checkAll c s0 = true) : checkAll c r.st = true := by
  obtain ⟨pre, dir, s1, outs, hpre, _, _, hrun, hpost, _⟩ := fit_ok h
  obtain ⟨cpre, hlen, _, _⟩ := prePara_ok hpre
  have c1 : checkAll c s1 = true :=
    runScript_induct (P := fun t => checkAll c t = true) (fun _ _ _ ht _ => (curveState_ok ht).2.1) hrun (cpre h0)
  exact (postFitting_ok hpost (by rw [hlen, opt_length_script hrun])).2.2 c1

/-- what `checkAll` says for one parameter with finite bounds -/
theorem inBnd_fin_iff (a b v : ℝ) (lc hc : Bool) :
    inBnd ⟨.fin a, .fin b, lc, hc⟩ v = true ↔ (if lc then a ≤ v else a < v) ∧ (if hc then v ≤ b else v < b) := by
  cases lc <;> cases hc <;> simp [inBnd, ltE, leE, eLt, eLe]

/-- with a constrained sill the upper bound handed to `curve_fit` for the variance is the sill -/
theorem var_top_is_sill (pa : Para) (g : Guess ℝ) (sl : ℝ) (af : Bool) (hv : pa.var = true) :
    ∃ p0 rest, initCurveFitPara c pa g (some sl) af = (c.varB.lo, .fin sl, p0) :: rest := by
  simp [initCurveFitPara, hv]

/-- **fitted parameters end with popt**: after a successful call the fitted variance, length scale and nugget
    are the entries of `popt` at their positions, and the optional arguments are `popt`'s installed over some
    list (the unfitted ones are pinned down by `untouched_plain`/`untouched_partial`). -/
theorem fitted_eq_popt (hf : ∀ l o, c.fac l o ≠ 0)
    (h : fit c s0 sel sill anis ig w mOk x y script popt = .ok r) :
    (r.para.var = true → r.st.var c = popt.getD 0 0) ∧
    (r.para.len = true → r.st.len = popt.getD r.para.iLen 0) ∧
    (r.para.nug = true → r.st.nug = popt.getD r.para.iNug 0) ∧
    (∃ o, r.st.opt = installOpts o r.para.opt 0 (popt.drop r.para.iOpt)) ∧
    ((r.dir && r.anisFit) = true → r.st.anis = normAnis c (lastAnis c popt)) := by
  obtain ⟨pre, dir, s1, outs, hpre, _, _, hrun, hpost, hpa, _, hdir, haf, _⟩ := fit_ok h
  obtain ⟨_, hlen, _, _⟩ := prePara_ok hpre
  obtain ⟨e, _, _⟩ := postFitting_ok hpost (by rw [hlen, opt_length_script hrun])
  rw [hpa, hdir, haf]
  refine ⟨?_, ?_, ?_, ⟨s1.opt, by rw [e]; rfl⟩, ?_⟩
  · intro h1; rw [e]; simp only [St.var, postTarget, h1, ↓reduceIte, zero_real]; rw [var_div_mul (hf _ _)]
  · intro h1; rw [e]; simp [postTarget, h1]
  · intro h1; rw [e]; simp [postTarget, h1]
  · intro h1
    rw [e]
    have : (dir && (pre.anisFit && dir)) = true := h1
    simp [postTarget, this]

/-- **var ≤ sill**: with a constrained sill and a fitted variance, a `popt` that respects the upper bound it
    was given (`var_top_is_sill`) leaves `variance ≤ sill`. -/
theorem var_le_sill (hf : ∀ l o, c.fac l o ≠ 0)
    (h : fit c s0 sel sill anis ig w mOk x y script popt = .ok r) {sl : ℝ} (_hs : r.sill = some sl)
    (hv : r.para.var = true) (hp : popt.getD 0 0 ≤ sl) : r.st.var c ≤ sl := by
  rw [(fitted_eq_popt hf h).1 hv]; exact hp

/-! ### dict = model -/

/-- **dict_eq_model (classes without variance factor)**: for EVERY script and popt the returned dictionary
    equals the model state after the call. -/
theorem dict_eq_model_plain (hf : ∀ l o, c.fac l o = 1)
    (h : fit c s0 sel sill anis ig w mOk x y script popt = .ok r) : DictEqModel c r := by
  obtain ⟨pre, dir, s1, outs, hpre, _, _, hrun, hpost, hpa, _, hdir, _⟩ := fit_ok h
  obtain ⟨_, hlen, _, _⟩ := prePara_ok hpre
  obtain ⟨e, ed, _⟩ := postFitting_ok hpost (by rw [hlen, opt_length_script hrun])
  refine ⟨?_, by rw [ed]; rfl, by rw [ed]; rfl, by rw [ed]; rfl, by rw [ed, hdir]; rfl⟩
  rw [ed]
  simp only [postDict]
  cases hv : pre.para.var
  · simp only [Bool.false_eq_true, if_false]; rw [e]; simp [St.var, postTarget, hv, hf]
  · simp only [if_true]; rw [e]; simp [St.var, postTarget, hv, hf]

/-- the state after the call when the optimiser's last evaluation was at `popt` (and not punished): it is the
    state of that evaluation; `sp` is the state before it, reached from `_pre_para`'s state by the earlier
    evaluations. -/
theorem last_eval_state {init : List (List ℝ)}
    (h : fit c s0 sel sill anis ig w mOk x y (init ++ [popt]) popt = .ok r)
    (hp : punished c r.para r.sill popt = false) :
    ∃ pre sp o1, prePara c s0 sel sill anis = .ok pre ∧ r.para = pre.para ∧ r.sill = pre.sill ∧
      runScript c pre.para pre.sill r.anisFit r.dir (pre.st.var c) r.xdata pre.st init = .ok (sp, o1) ∧
      r.st = curveTarget c pre.para pre.sill r.anisFit r.dir (pre.st.var c) sp popt ∧
      r.outs.getLast? = some (some (curveOut c r.dir r.xdata r.st)) := by
  obtain ⟨pre, dir, s1, outs, hpre, _, _, hrun, hpost, hpa, hsl, hdir, haf, hout, hx, _⟩ := fit_ok h
  obtain ⟨_, hlen, _, _⟩ := prePara_ok hpre
  obtain ⟨sm, o1, o2, r1, r2, r3⟩ := runScript_append hrun
  rw [hpa, hsl] at hp
  obtain ⟨e1, _, e3⟩ := runScript_single r2 hp
  obtain ⟨e, _, _⟩ := postFitting_ok hpost (by rw [hlen, opt_length_script hrun])
  have hfix : r.st = s1 := by rw [e, e1]; exact postTarget_fix _ _ _ _ _ _ _ _
  refine ⟨pre, sm, o1, hpre, hpa, hsl, by rw [haf, hdir, hx]; exact r1, by rw [hfix, haf, hdir]; exact e1, ?_⟩
  rw [hout, r3, e3, hfix, hdir, hx]
  simp

/-- **dict_eq_model_partial**: any class with non-vanishing variance factor, provided the optimiser's last
    evaluation was at `popt` (and not punished). -/
theorem dict_eq_model_partial {init : List (List ℝ)} (hf : ∀ l o, c.fac l o ≠ 0)
    (h : fit c s0 sel sill anis ig w mOk x y (init ++ [popt]) popt = .ok r)
    (hp : punished c r.para r.sill popt = false) : DictEqModel c r := by
  obtain ⟨pre0, sp, o1, hpre0, _, _, _, hst, _⟩ := last_eval_state h hp
  obtain ⟨pre, dir, s1, outs, hpre, _, _, hrun, hpost, hpa, hsl, hdir, haf, _⟩ := fit_ok h
  obtain ⟨_, hlen, _, _⟩ := prePara_ok hpre
  obtain ⟨sm, o1', o2, r1, r2, r3⟩ := runScript_append hrun
  rw [hpa, hsl] at hp
  obtain ⟨e1, _, _⟩ := runScript_single r2 hp
  obtain ⟨e, ed, _⟩ := postFitting_ok hpost (by rw [hlen, opt_length_script hrun])
  have hfix : r.st = s1 := by rw [e, e1]; exact postTarget_fix _ _ _ _ _ _ _ _
  refine ⟨?_, by rw [ed]; rfl, by rw [ed]; rfl, by rw [ed]; rfl, by rw [ed, hdir]; rfl⟩
  rw [ed]
  simp only [postDict]
  cases hv : pre.para.var
  · simp only [Bool.false_eq_true, ↓reduceIte]; rw [hfix]
  · simp only [↓reduceIte]
    rw [hfix, e1]
    simp only [St.var, curveTarget, hv, ↓reduceIte, zero_real]
    rw [var_div_mul (hf _ _)]

/-! ### untouched -/

/-- **untouched (classes without variance factor)**: for EVERY script and popt, parameters that are not fitted
    end with the value `_pre_para` gave them, and `_pre_para` marks as not fitted everything the caller
    deselected or fixed (`paraGet pre.para p = false`). -/
theorem untouched_plain (hf : ∀ l o, c.fac l o = 1)
    (h : fit c s0 sel sill anis ig w mOk x y script popt = .ok r) :
    ∃ pre, prePara c s0 sel sill anis = .ok pre ∧
      (∀ p, (deselected sel).contains p = true → paraGet pre.para p = false) ∧
      (AnisWF c pre.st.anis → Untouched c pre r) := by
  obtain ⟨pre, dir, s1, outs, hpre, _, _, hrun, hpost, hpa, _, hdir, haf, _⟩ := fit_ok h
  obtain ⟨_, hlen, _, hdes⟩ := prePara_ok hpre
  refine ⟨pre, hpre, hdes, fun hwf => ?_⟩
  obtain ⟨e, _, _⟩ := postFitting_ok hpost (by rw [hlen, opt_length_script hrun])
  -- invariant of the curve evaluations
  let P : St ℝ → Prop := fun t =>
    (pre.para.var = false → t.varRaw = pre.st.var c) ∧
    (pre.para.len = false → t.len = pre.st.len) ∧
    (pre.para.nug = false → (pre.sill = none ∨ pre.para.var = false) → t.nug = pre.st.nug) ∧
    (∀ i, pre.para.opt.getD i true = false → t.opt[i]? = pre.st.opt[i]?) ∧
    ((dir && (pre.anisFit && dir)) = false → t.anis = pre.st.anis)
  have hP0 : P pre.st := ⟨fun _ => by simp [St.var, hf], fun _ => rfl, fun _ _ => rfl, fun _ _ => rfl, fun _ => rfl⟩
  have hP1 : P s1 := by
    refine runScript_induct (P := P) ?_ hrun hP0
    intro t a t' ht ⟨p1, p2, p3, p4, p5⟩
    rw [(curveState_ok ht).1]
    refine ⟨?_, ?_, ?_, ?_, ?_⟩
    · intro hv; simp [curveTarget, hv, hf]
    · intro hl; simp only [curveTarget, hl]; exact p2 hl
    · intro hn hs
      simp only [curveTarget, hn]
      rcases hs with hs | hs
      · cases pre.para.var <;> simp [hs, tiedNug, p3 hn (Or.inl hs)]
      · simp [hs, p3 hn (Or.inr hs)]
    · intro i hi
      simp only [curveTarget]
      rw [installOpts_get_unfit _ _ _ _ _ (Or.inl (by simpa using hi))]
      exact p4 i hi
    · intro hd
      simp only [curveTarget, hd]
      rw [p5 hd]
      cases pre.para.len
      · simp
      · simpa [AnisWF] using hwf
  obtain ⟨p1, p2, p3, p4, p5⟩ := hP1
  refine ⟨?_, ?_, ?_, ?_, ?_⟩
  · intro hv; rw [e]; simp [St.var, postTarget, hv, hf, p1 hv]
  · intro hl; rw [e]; simp only [postTarget, hl]; exact p2 hl
  · intro hn hs; rw [e]; simp only [postTarget, hn]; exact p3 hn hs
  · intro i hi
    rw [e]
    simp only [postTarget]
    rw [installOpts_get_unfit _ _ _ _ _ (Or.inl (by simpa using hi))]
    exact p4 i hi
  · intro hd
    rw [hdir, haf] at hd
    rw [e]
    simp only [postTarget, hd]
    rw [p5 hd]
    cases pre.para.len
    · simp
    · simpa [AnisWF] using hwf

/-- **untouched_partial**: any class with non-vanishing variance factor, provided the optimiser's last
    evaluation was at `popt` (and not punished). -/
theorem untouched_partial {init : List (List ℝ)} (hf : ∀ l o, c.fac l o ≠ 0)
    (h : fit c s0 sel sill anis ig w mOk x y (init ++ [popt]) popt = .ok r)
    (hp : punished c r.para r.sill popt = false) :
    ∃ pre, prePara c s0 sel sill anis = .ok pre ∧
      (∀ p, (deselected sel).contains p = true → paraGet pre.para p = false) ∧
      (AnisWF c pre.st.anis → Untouched c pre r) := by
  obtain ⟨pre, sp, o1, hpre, _, _, hinit, hst, _⟩ := last_eval_state h hp
  obtain ⟨_, _, _, hdes⟩ := prePara_ok hpre
  refine ⟨pre, hpre, hdes, fun hwf => ?_⟩
  -- invariant of the earlier evaluations (the variance is irrelevant: the last evaluation resets it)
  let P : St ℝ → Prop := fun t =>
    (pre.para.len = false → t.len = pre.st.len) ∧
    (pre.para.nug = false → (pre.sill = none ∨ pre.para.var = false) → t.nug = pre.st.nug) ∧
    (∀ i, pre.para.opt.getD i true = false → t.opt[i]? = pre.st.opt[i]?) ∧
    ((r.dir && r.anisFit) = false → t.anis = pre.st.anis)
  have hstep : ∀ t a, P t → P (curveTarget c pre.para pre.sill r.anisFit r.dir (pre.st.var c) t a) := by
    intro t a ⟨p2, p3, p4, p5⟩
    refine ⟨?_, ?_, ?_, ?_⟩
    · intro hl; simp only [curveTarget, hl]; exact p2 hl
    · intro hn hs
      simp only [curveTarget, hn]
      rcases hs with hs | hs
      · cases pre.para.var <;> simp [hs, tiedNug, p3 hn (Or.inl hs)]
      · simp [hs, p3 hn (Or.inr hs)]
    · intro i hi
      simp only [curveTarget]
      rw [installOpts_get_unfit _ _ _ _ _ (Or.inl (by simpa using hi))]
      exact p4 i hi
    · intro hd
      have hd' : (r.dir && r.anisFit) = false := hd
      simp only [curveTarget, hd']
      rw [p5 hd]
      cases pre.para.len
      · simp
      · simpa [AnisWF] using hwf
  have hPsp : P sp := by
    refine runScript_induct (P := P) ?_ hinit ⟨fun _ => rfl, fun _ _ => rfl, fun _ _ => rfl, fun _ => rfl⟩
    intro t a t' ht hPt
    rw [(curveState_ok ht).1]
    exact hstep t a hPt
  obtain ⟨p2, p3, p4, p5⟩ := hstep sp popt hPsp
  rw [← hst] at p2 p3 p4 p5
  refine ⟨?_, p2, p3, p4, p5⟩
  intro hv
  rw [hst]
  simp only [St.var, curveTarget, hv, Bool.false_eq_true, ↓reduceIte]
  rw [var_div_mul (hf _ _)]

/-! ### the sill -/

/-- **sill_exact_partial**: a prescribed sill is met exactly by `variance + nugget` after the call — for any
    class with non-vanishing variance factor — provided the optimiser's last evaluation was at `popt` (and was
    not the punishment branch).  Without that proviso the statement is false: `not_sill_exact_full`. -/
theorem sill_exact_partial {init : List (List ℝ)} {sl : ℝ} (hf : ∀ l o, c.fac l o ≠ 0)
    (h : fit c s0 sel sill anis ig w mOk x y (init ++ [popt]) popt = .ok r) (hs : r.sill = some sl)
    (hp : punished c r.para r.sill popt = false) : r.st.var c + r.st.nug = sl := by
  obtain ⟨pre, sp, o1, hpre, hpa, hsl, hinit, hst, _⟩ := last_eval_state h hp
  obtain ⟨_, _, hnug, _⟩ := prePara_ok hpre
  rw [hsl] at hs
  have hn : pre.para.nug = false := hnug (by rw [hs]; rfl)
  have hv : r.st.var c = if pre.para.var then popt.getD 0 0 else pre.st.var c := by
    rw [hst]; simp only [St.var, curveTarget, zero_real]; rw [var_div_mul (hf _ _)]
  cases hvar : pre.para.var
  · -- variance not fitted: the nugget was never touched, `_pre_para` made the sum right
    have hnugsp : sp.nug = pre.st.nug := by
      refine runScript_induct (P := fun t => t.nug = pre.st.nug) ?_ hinit rfl
      intro t a t' ht hP
      rw [(curveState_ok ht).1]
      simp [curveTarget, hn, hvar, hP]
    rw [hv, hvar, hst]
    simp only [Bool.false_eq_true, ↓reduceIte, curveTarget, hn, hvar, hnugsp]
    exact prePara_sill_sum hf hpre hs hvar
  · rw [hv, hvar, hst]
    simp [curveTarget, hn, hvar, hs, tiedNug]

/-- **sill with the variance not fitted (classes without variance factor)**: for EVERY script and popt. -/
theorem sill_exact_var_fixed_plain {sl : ℝ} (hf : ∀ l o, c.fac l o = 1)
    (h : fit c s0 sel sill anis ig w mOk x y script popt = .ok r) (hs : r.sill = some sl)
    (hv : r.para.var = false) : r.st.var c + r.st.nug = sl := by
  have hf' : ∀ l o, c.fac l o ≠ 0 := fun l o => by rw [hf]; exact one_ne_zero
  obtain ⟨pre, hpre, _, hunt⟩ := untouched_plain hf h
  obtain ⟨pre', dir, s1, outs, hpre', _, _, hrun, hpost, hpa, hsl, _⟩ := fit_ok h
  have : pre' = pre := by rw [hpre] at hpre'; exact (Except.ok.inj hpre').symm
  subst this
  rw [hpa] at hv; rw [hsl] at hs
  obtain ⟨_, hlen, hnug, _⟩ := prePara_ok hpre
  have hn : pre'.para.nug = false := hnug (by rw [hs]; rfl)
  -- var and nugget are untouched without needing the anisotropy to be well formed: redo the two invariants
  obtain ⟨e, _, _⟩ := postFitting_ok hpost (by rw [hlen, opt_length_script hrun])
  have hP1 : s1.varRaw = pre'.st.var c ∧ s1.nug = pre'.st.nug := by
    refine runScript_induct (P := fun t => t.varRaw = pre'.st.var c ∧ t.nug = pre'.st.nug) ?_ hrun
      ⟨by simp [St.var, hf], rfl⟩
    intro t a t' ht hP
    rw [(curveState_ok ht).1]
    simp [curveTarget, hv, hn, hf, hP.2]
  have e1 : r.st.var c = pre'.st.var c := by rw [e]; simp [St.var, postTarget, hv, hf, hP1.1]
  have e2 : r.st.nug = pre'.st.nug := by rw [e]; simp [postTarget, hn, hP1.2]
  rw [e1, e2]
  exact prePara_sill_sum hf' hpre hs hv

/-! ### recovering the generating curve -/

/-- **recovers_partial**: if the data `y` are exactly the curve values at `popt` — the values recorded for the
    optimiser's last evaluation, i.e. noise-free data generated by the same model family at the parameters the
    optimiser returns — then the model ends in the generating state and the reported `r2` is 1. -/
theorem recovers_partial {init : List (List ℝ)}
    (h : fit c s0 sel sill anis ig w mOk x y (init ++ [popt]) popt = .ok r)
    (hp : punished c r.para r.sill popt = false) (hy : r.outs.getLast? = some (some y)) :
    y = curveOut c r.dir r.xdata r.st ∧ r.r2 = 1 := by
  obtain ⟨pre, sp, o1, hpre, _, _, _, _, hlast⟩ := last_eval_state h hp
  obtain ⟨_, dir, _, _, _, _, _, _, _, _, _, hdir, _, _, hx, hr2⟩ := fit_ok h
  rw [hlast] at hy
  have hy' : y = curveOut c r.dir r.xdata r.st := by
    simp only [Option.some.injEq] at hy; exact hy.symm
  refine ⟨hy', ?_⟩
  rw [hr2, ← hx, ← hdir]
  conv_lhs => rw [hy']
  exact r2_self c r.dir r.xdata r.st

end thms

/-! ## concrete scripted-optimiser witnesses (computed on `Rat` by kernel evaluation of the model)

  The same witnesses are replayed on the implementation by `vlib/props/C10.py` (`directed`): real scipy runs
  show `var + nugget - sill ≈ -2e-8` (D9a) and `dict["var"] ≠ model.var` for the TPL classes (D9b). -/

section witnesses

/-- default bounds of `CovModel`: var, len_scale, anis in (0, ∞), nugget in [0, ∞) -/
def wBndOpen : Bnd Rat := ⟨.fin 0, .pinf, false, false⟩
def wBndNug : Bnd Rat := ⟨.fin 0, .pinf, true, false⟩

/-- a 1-d class without optional arguments and without variance factor; triangular correlation -/
def wPlain : Cfg Rat :=
  { dim := 1, latlon := false, rescale := 1, varB := wBndOpen, lenB := wBndOpen, nugB := wBndNug,
    anisB := wBndOpen, optB := [], fac := fun _ _ => one,
    corr := fun len _ r => if 1 - r / len < 0 then 0 else 1 - r / len }

/-- the same class with a TPL-like variance factor `var = var_raw * (len_scale² + 1)` -/
def wFac : Cfg Rat := { wPlain with fac := fun len _ => len * len + 1 }

def wS0 : St Rat := { varRaw := 1, len := 1, nug := 0, anis := [], opt := [] }
def wIG : IG Rat := { dflt := 0, badName := false, var := none, len := none, nug := none, anis := none, opt := [] }

/-- D9a: `fit_variogram(x, y, sill=2, len_scale=False)`; the optimiser evaluates the curve at var = 1 and
    returns popt = [3/2] -/
def wSillRun : Except Err (Result Rat) :=
  fit wPlain wS0 [(.len, .flag false)] (.value 2) (.flag true) wIG .none true [1, 2] [1, 2] [[1]] [3 / 2]

def wSillCheck : Bool :=
  match wSillRun with
  | .ok r => !decide (r.st.var wPlain + r.st.nug = 2)
  | .error _ => false

/-- **the full sill statement is false** of the code as it is: var = 3/2 from popt, nugget = 2 − 1 from the last
    evaluation, so `var + nugget = 5/2 ≠ 2` (defect D9a, `fit:last-evaluation-state:fixed-sill-var-only`). -/
theorem not_sill_exact_full : ¬ sill_exact_full Rat := by
  intro h
  have hw : wSillCheck = true := by decide +kernel
  unfold wSillCheck at hw
  split at hw
  · rename_i r hr
    have h2 := h wPlain wS0 [(.len, .flag false)] 2 (.flag true) wIG .none [1, 2] [1, 2] [[1]] [3 / 2] r
      (fun _ _ => rfl) (by decide +kernel) hr
    simp [h2] at hw
  · cases hw

theorem wFac_ne_zero : ∀ (l : Rat) (o : List Rat), wFac.fac l o ≠ zero := by
  intro l _
  show l * l + 1 ≠ ((0 : Nat) : Rat)
  have := mul_self_nonneg l
  simp only [Nat.cast_zero]
  linarith

/-- D9b: `fit_variogram(x, y, var=False)` on a class with variance factor; the optimiser evaluates the curve at
    (len_scale, nugget) = (2, 0) and returns popt = [1, 0] -/
def wFacRun : Except Err (Result Rat) :=
  fit wFac wS0 [(.var, .flag false)] .none (.flag true) wIG .none true [1, 2] [1, 2] [[2, 0]] [1, 0]

def wDictCheck : Bool :=
  match wFacRun with
  | .ok r => !decide (r.dict.var = r.st.var wFac)
  | .error _ => false

/-- **the full dict statement is false** of the code as it is: `dict["var"] = 2` (read while the model still had
    the last evaluation's length scale) but `model.var = 4/5` (defect D9b, `fit:last-evaluation-state:tpl-var-deselected`). -/
theorem not_dict_eq_model_full : ¬ dict_eq_model_full Rat := by
  intro h
  have hw : wDictCheck = true := by decide +kernel
  unfold wDictCheck at hw
  split at hw
  · rename_i r hr
    have h2 := h wFac wS0 [(.var, .flag false)] .none (.flag true) wIG .none [1, 2] [1, 2] [[2, 0]] [1, 0] r
      wFac_ne_zero (by decide +kernel) hr
    simp [h2.1] at hw
  · cases hw

def wUntCheck : Bool :=
  match wFacRun, prePara wFac wS0 [(.var, .flag false)] SillArg.none (AnisArg.flag true) with
  | .ok r, .ok pre => !decide (r.st.var wFac = pre.st.var wFac) && !pre.para.var
  | _, _ => false

/-- **the full untouched statement is false** of the code as it is: the deselected variance 2 ends as 4/5
    (defect D9b). -/
theorem not_untouched_full : ¬ untouched_full Rat := by
  intro h
  have hw : wUntCheck = true := by decide +kernel
  unfold wUntCheck at hw
  split at hw
  · rename_i r pre hr hpre
    have h2 := h wFac wS0 [(.var, .flag false)] .none (.flag true) wIG .none [1, 2] [1, 2] [[2, 0]] [1, 0] r pre
      wFac_ne_zero (by decide +kernel) hr hpre
    simp only [Bool.and_eq_true, Bool.not_eq_eq_eq_not, Bool.not_true, decide_eq_false_iff_not] at hw
    exact hw.1 (h2.1 hw.2)
  · cases hw

/-! hypotheses of the `_partial` theorems are satisfiable (same witnesses, last evaluation = popt):
    a successful run whose script ends in popt, not punished, with a constrained sill / a deselected variance -/

def okAnd (e : Except Err (Result Rat)) (p : Result Rat → Bool) : Bool :=
  match e with
  | .ok r => p r
  | .error _ => false

theorem okAnd_spec {e : Except Err (Result Rat)} {p : Result Rat → Bool} (h : okAnd e p = true) :
    ∃ r, e = .ok r ∧ p r = true := by
  cases e with
  | ok r => exact ⟨r, rfl, h⟩
  | error _ => cases h

example : ∃ r, fit wPlain wS0 [(.len, .flag false)] (.value 2) (.flag true) wIG .none true [1, 2] [1, 2]
      ([[1]] ++ [[3 / 2]]) [3 / 2] = .ok r ∧
      (decide (r.sill = some 2) && !punished wPlain r.para r.sill [3 / 2] &&
        decide (r.st.var wPlain + r.st.nug = 2) && decide (r.para = ⟨true, false, false, []⟩)) = true :=
  okAnd_spec (by decide +kernel)

example : ∃ r, fit wFac wS0 [(.var, .flag false)] .none (.flag true) wIG .none true [1, 2] [1, 2]
      ([[2, 0]] ++ [[1, 0]]) [1, 0] = .ok r ∧
      (!punished wFac r.para r.sill [1, 0] && decide (r.dict.var = r.st.var wFac) &&
        decide (r.st.var wFac = 2) && decide (r.para = ⟨false, true, true, []⟩)) = true :=
  okAnd_spec (by decide +kernel)

/-- noise-free data: the curve values at popt as data give r2 = 1 on the rational model too -/
example : ∃ r, fit wPlain wS0 [] .none (.flag true) wIG .none true [1, 2] [17 / 8, 5 / 2]
      ([[1, 1, 1]] ++ [[3 / 2, 4, 7 / 4]]) [3 / 2, 4, 7 / 4] = .ok r ∧
      (decide (r.outs.getLast? = some (some [17 / 8, 5 / 2])) && decide (r.r2 = 1)) = true :=
  okAnd_spec (by decide +kernel)

end witnesses

end GSV.Props.C10
