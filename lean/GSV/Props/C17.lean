/-
  C17 — Fourier-generated fields are exactly periodic.

  The theorems are about
  * the regenerated translation of the kernel `summate_fourier` (`GSV/Gen/Summator.lean`, via the law-free
    specification `summate_fourier_spec`), and
  * the hand-written model of `gstools.field.generator.Fourier` (`GSV/Model/Fourier.lean`: mode grid, `update`
    as a state machine) and of the isometrization `SRF.__call__` applies before it calls the generator,
  instantiated at ℝ.

  Which shift leaves the field unchanged (worked out from the code, not from the docstring):
  the generator sees *isometrized* points `y = diag(1, 1/anis) · Q · x` (`Q` = `matrix_derotate`), and its wave
  numbers are `k_d = n_d · 2π/L_d · anis'_d` with integer `n_d` (`anis' = [1] + anis`).  Hence
  * generator level: `gen(y)` is invariant under `y ↦ y + c · L_d / anis'_d · e_d`, `c ∈ ℤ` (and under sums of such shifts);
  * SRF level: the field is invariant under `x ↦ x + c · L_d · (row d of Q)`, i.e. along the `d`-th main axis of the
    model by the period given for that axis; for unrotated models these are the coordinate axes.
-/
import GSV.Lemmas.Fourier
import Mathlib.Tactic.IntervalCases
import Mathlib.Tactic.Linarith
namespace GSV.Props.C17
open GSV GSV.Props GSV.Model.Fourier GSV.Fourier Finset

/-! ## the mode grid -/

/-- `_set_modes`: every entry of the mode grid is an integer multiple `n·Δk_d` of `Δk_d = 2π/L_d·anis'_d`, and for an
    even positive requested count `m_d` the integer lies in `{−m_d/2, …, m_d/2 − 1}` -/
theorem grid_integer_multiples (mreq : Nat → Nat) (period anis : Nat → ℝ) (dim d j : Nat)
    (hm : Even (mreq d)) (hpos : 0 < mreq d) :
    ∃ n : ℤ, -((mreq d / 2 : ℕ) : ℤ) ≤ n ∧ n < ((mreq d / 2 : ℕ) : ℤ) ∧
      modesGrid mreq (deltaK period anis) dim d j = (n : ℝ) * (2 * Real.pi / period d * anisP anis d) := by
  refine ⟨(gridIdx (fun d => modeLen (mreq d)) dim d j : ℤ) - ((mreq d / 2 : ℕ) : ℤ), by omega, ?_, ?_⟩
  · have h := gridIdx_lt (fun d => modeLen (mreq d)) dim d j (by simpa [modeLen_even hm] using hpos)
    have h2 : modeLen (mreq d) = 2 * (mreq d / 2) := rfl
    omega
  · unfold modesGrid gridOf
    show mode1d (mreq d) (deltaK period anis d) _ = _
    rw [mode1d_real, deltaK_real]

/-- without any assumption on the requested count: grid entries are integer multiples of `Δk_d` -/
theorem grid_integer_multiple_any (mreq : Nat → Nat) (period anis : Nat → ℝ) (dim d j : Nat) :
    ∃ n : ℤ, modesGrid mreq (deltaK period anis) dim d j = (n : ℝ) * (2 * Real.pi / period d * anisP anis d) :=
  ⟨_, by
    unfold modesGrid gridOf
    show mode1d (mreq d) (deltaK period anis d) _ = _
    rw [mode1d_real, deltaK_real]⟩

/-- an even requested count is the number of modes produced (this is where `np.arange` with a float step failed) -/
theorem mode_count_even (m : Nat) (h : Even m) : modeLen m = m := modeLen_even h

example : Even ((fun _ : Nat => 8) 1) ∧ 0 < (fun _ : Nat => 8) 1 := ⟨⟨4, rfl⟩, by norm_num⟩

/-! ## periodicity at generator level -/

/-- `Fourier.__call__` (the generated kernel, any admissible `prange` schedule) on the grid `_set_modes` builds:
    shifting every point `i` by `Σ_d c_{d,i} · L_d / anis'_d · e_d` with integers `c_{d,i}` leaves every output cell
    unchanged — for every spectrum factor, every random amplitudes `z1 z2` (seed), every mode count, every point. -/
theorem periodic_gen (sched : Sched) (hs : sched.Admissible) (mreq : Nat → Nat) (period anis : Nat → ℝ)
    (sf z1 z2 : Nat → ℝ) (N dim X : Nat) (pos pos' : Nat → Nat → ℝ) (c : Nat → Nat → ℤ)
    (hL : ∀ d < dim, period d ≠ 0) (ha : ∀ d < dim, anisP anis d ≠ 0)
    (hshift : ∀ d < dim, ∀ i < X, pos' d i = pos d i + (c d i : ℝ) * period d / anisP anis d) (i : Nat) :
    genField sched sf (modesGrid mreq (deltaK period anis) dim) z1 z2 N pos' dim X i =
      genField sched sf (modesGrid mreq (deltaK period anis) dim) z1 z2 N pos dim X i := by
  unfold genField
  rw [summate_fourier_spec sched hs, summate_fourier_spec sched hs]
  split
  · rename_i hi
    exact fourierCell_lattice_shift sf _ z1 z2 pos pos' period (anisP anis) (fun d => c d i) dim N i _ hL ha
      (fun j _ d _ => grid_integer_multiple_any mreq period anis dim d j) (fun d hd => hshift d hd i hi)
  · rfl

/-- single axis, single period: the statement of the property at generator level -/
theorem periodic_gen_axis (sched : Sched) (hs : sched.Admissible) (mreq : Nat → Nat) (period anis : Nat → ℝ)
    (sf z1 z2 : Nat → ℝ) (N dim X : Nat) (pos pos' : Nat → Nat → ℝ) (d₀ : Nat)
    (hL : ∀ d < dim, period d ≠ 0) (ha : ∀ d < dim, anisP anis d ≠ 0)
    (hshift : ∀ d < dim, ∀ i < X, pos' d i = pos d i + if d = d₀ then period d₀ / anisP anis d₀ else 0) (i : Nat) :
    genField sched sf (modesGrid mreq (deltaK period anis) dim) z1 z2 N pos' dim X i =
      genField sched sf (modesGrid mreq (deltaK period anis) dim) z1 z2 N pos dim X i := by
  refine periodic_gen sched hs mreq period anis sf z1 z2 N dim X pos pos' (fun d _ => if d = d₀ then 1 else 0)
    hL ha (fun d hd i hi => ?_) i
  rw [hshift d hd i hi]
  by_cases h : d = d₀
  · subst h; simp
  · simp [h]

/-- the hypotheses of `periodic_gen` are satisfiable by a non-trivial shift (2-D, periods 10 and 4, anis 1/2) -/
example : ∃ (period anis : Nat → ℝ) (pos pos' : Nat → Nat → ℝ) (c : Nat → Nat → ℤ),
    (∀ d < 2, period d ≠ 0) ∧ (∀ d < 2, anisP anis d ≠ 0) ∧
    (∀ d < 2, ∀ i < 1, pos' d i = pos d i + (c d i : ℝ) * period d / anisP anis d) ∧ pos' 1 0 ≠ pos 1 0 := by
  refine ⟨fun d => if d = 0 then 10 else 4, fun _ => 1 / 2, fun _ _ => 0,
    fun d _ => if d = 0 then 10 else 8, fun _ _ => 1, ?_, ?_, ?_, ?_⟩
  · intro d hd; interval_cases d <;> norm_num
  · intro d hd; interval_cases d <;> norm_num [anisP]
  · intro d hd i _
    interval_cases d <;> norm_num [anisP]
  · norm_num

/-! ## periodicity at SRF level (main axes of the model) -/

/-- `SRF(model, generator="Fourier")`: isometrize with derotation `Q` and anisotropy, then the generator.
    If row `d₀` of `Q` (the `d₀`-th main axis of the model) has unit length and is orthogonal to the other rows, then
    moving every point `i` by `c_i · L_{d₀}` along that axis leaves the field unchanged. -/
theorem periodic_srf (sched : Sched) (hs : sched.Admissible) (Q : Nat → Nat → ℝ) (mreq : Nat → Nat)
    (period anis : Nat → ℝ) (sf z1 z2 : Nat → ℝ) (N dim X : Nat) (x x' : Nat → Nat → ℝ) (d₀ : Nat) (c : Nat → ℤ)
    (hL : ∀ d < dim, period d ≠ 0) (ha : ∀ d < dim, anisP anis d ≠ 0)
    (hQ : ∀ d < dim, ∑ e ∈ range dim, Q d e * Q d₀ e = if d = d₀ then 1 else 0)
    (hshift : ∀ e < dim, ∀ i < X, x' e i = x e i + (c i : ℝ) * period d₀ * Q d₀ e) (i : Nat) :
    srfField sched Q anis sf (modesGrid mreq (deltaK period anis) dim) z1 z2 N x' dim X i =
      srfField sched Q anis sf (modesGrid mreq (deltaK period anis) dim) z1 z2 N x dim X i := by
  unfold srfField
  refine periodic_gen sched hs mreq period anis sf z1 z2 N dim X _ _ (fun d i => if d = d₀ then c i else 0)
    hL ha (fun d hd i hi => ?_) i
  rw [isometrize_shift Q anis dim x x' (fun e => (c i : ℝ) * period d₀ * Q d₀ e) d i (fun e he => hshift e he i hi)]
  have : ∑ e ∈ range dim, Q d e * ((c i : ℝ) * period d₀ * Q d₀ e) =
      (c i : ℝ) * period d₀ * ∑ e ∈ range dim, Q d e * Q d₀ e := by
    rw [mul_sum]; exact sum_congr rfl fun e _ => by ring
  rw [this, hQ d hd]
  by_cases h : d = d₀
  · subst h; simp
  · simp [h]

/-- unrotated model (`Q` = identity): the field repeats along coordinate axis `d₀` with the period given for it -/
theorem periodic_srf_unrotated (sched : Sched) (hs : sched.Admissible) (mreq : Nat → Nat)
    (period anis : Nat → ℝ) (sf z1 z2 : Nat → ℝ) (N dim X : Nat) (x x' : Nat → Nat → ℝ) (d₀ : Nat) (hd₀ : d₀ < dim)
    (c : Nat → ℤ) (hL : ∀ d < dim, period d ≠ 0) (ha : ∀ d < dim, anisP anis d ≠ 0)
    (hshift : ∀ e < dim, ∀ i < X, x' e i = x e i + if e = d₀ then (c i : ℝ) * period d₀ else 0) (i : Nat) :
    srfField sched (fun d e => if d = e then 1 else 0) anis sf (modesGrid mreq (deltaK period anis) dim) z1 z2 N x' dim X i =
      srfField sched (fun d e => if d = e then 1 else 0) anis sf (modesGrid mreq (deltaK period anis) dim) z1 z2 N x dim X i := by
  refine periodic_srf sched hs _ mreq period anis sf z1 z2 N dim X x x' d₀ c hL ha (fun d _ => ?_)
    (fun e he i hi => ?_) i
  · simp only [mul_ite, mul_one, mul_zero]
    rw [sum_ite_eq (range dim) d₀ fun e => if d = e then (1:ℝ) else 0]
    simp [hd₀]
  · rw [hshift e he i hi]
    by_cases h : e = d₀
    · subst h; simp
    · simp [h, Ne.symm h]

/-- the derotation of a 2-D model rotated by `θ` (`matrix_derotate(2, θ) = [[cos θ, sin θ], [−sin θ, cos θ]]`) -/
noncomputable def derot2 (θ : ℝ) (d e : Nat) : ℝ :=
  if d = 0 then (if e = 0 then Real.cos θ else Real.sin θ) else (if e = 0 then -Real.sin θ else Real.cos θ)

/-- rows of the 2-D derotation are orthonormal -/
theorem derot2_rows (θ : ℝ) (d₀ : Nat) (hd₀ : d₀ < 2) :
    ∀ d < 2, ∑ e ∈ range 2, derot2 θ d e * derot2 θ d₀ e = if d = d₀ then 1 else 0 := by
  intro d hd
  have hs := Real.sin_sq_add_cos_sq θ
  have hc := Real.cos_sq_add_sin_sq θ
  interval_cases d₀ <;> interval_cases d <;> simp [derot2, sum_range_succ] <;> nlinarith [hs, hc]

/-- 2-D model rotated by any angle `θ`: the field repeats along the rotated main axes
    `(cos θ, sin θ)` (`d₀ = 0`) and `(−sin θ, cos θ)` (`d₀ = 1`) with the periods given for them -/
theorem periodic_srf_rot2d (sched : Sched) (hs : sched.Admissible) (θ : ℝ) (mreq : Nat → Nat)
    (period anis : Nat → ℝ) (sf z1 z2 : Nat → ℝ) (N X : Nat) (x x' : Nat → Nat → ℝ) (d₀ : Nat) (hd₀ : d₀ < 2)
    (c : Nat → ℤ) (hL : ∀ d < 2, period d ≠ 0) (ha : ∀ d < 2, anisP anis d ≠ 0)
    (hshift : ∀ e < 2, ∀ i < X, x' e i = x e i + (c i : ℝ) * period d₀ * derot2 θ d₀ e) (i : Nat) :
    srfField sched (derot2 θ) anis sf (modesGrid mreq (deltaK period anis) 2) z1 z2 N x' 2 X i =
      srfField sched (derot2 θ) anis sf (modesGrid mreq (deltaK period anis) 2) z1 z2 N x 2 X i :=
  periodic_srf sched hs (derot2 θ) mreq period anis sf z1 z2 N 2 X x x' d₀ c hL ha (derot2_rows θ d₀ hd₀) hshift i

end GSV.Props.C17
