/-
  C17 — Fourier-generated fields are exactly periodic.

  The theorems are about
  * the regenerated translation of the kernel `summate_fourier` (`GSV/Gen/Summator.lean`, via the law-free
    specification `summate_fourier_spec`), and
  * the hand-written model of `gstools.field.generator.Fourier` (`GSV/Model/Fourier.lean`: mode grid, `update`
    as a state machine) and of the isometrization `SRF.__call__` applies before it calls the generator,
  instantiated at ℝ.

  Which shift leaves the field unchanged (worked out from the code, not from the docstring):
  the generator sees *isometrized* points `y = diag(1, 1/anis) · Q · x` (`Q` = `matrix_derotate`), and its wave
  numbers are `k_d = n_d · 2π/L_d · anis'_d` with integer `n_d` (`anis' = [1] + anis`).  Hence
  * generator level: `gen(y)` is invariant under `y ↦ y + c · L_d / anis'_d · e_d`, `c ∈ ℤ` (and under sums of such shifts);
  * SRF level: the field is invariant under `x ↦ x + c · L_d · (row d of Q)`, i.e. along the `d`-th main axis of the
    model by the period given for that axis; for unrotated models these are the coordinate axes.
-/
import GSV.Lemmas.Fourier
import Mathlib.Tactic.IntervalCases
import Mathlib.Tactic.Linarith
namespace GSV.Props.C17
open GSV GSV.Props GSV.Model.Fourier GSV.Fourier Finset

/-! ## the mode grid -/

/-- `_set_modes`: every entry of the mode grid is an integer multiple `n·Δk_d` of `Δk_d = 2π/L_d·anis'_d`, and for an
    even positive requested count `m_d` the integer lies in `{−m_d/2, …, m_d/2 − 1}` -/
theorem grid_integer_multiples (mreq : Nat → Nat) (period anis : Nat → ℝ) (dim d j : Nat)
    (hm : Even (mreq d)) (hpos : 0 < mreq d) :
    ∃ n : ℤ, -((mreq d / 2 : ℕ) : ℤ) ≤ n ∧ n < ((mreq d / 2 : ℕ) : ℤ) ∧
      modesGrid mreq (deltaK period anis) dim d j = (n : ℝ) * (2 * Real.pi / period d * anisP anis d) := by
  refine ⟨(gridIdx (fun d => modeLen (mreq d)) dim d j : ℤ) - ((mreq d / 2 : ℕ) : ℤ), by omega, ?_, ?_⟩
  · have h := gridIdx_lt (fun d => modeLen (mreq d)) dim d j (by simpa [modeLen_even hm] using hpos)
    have h2 : modeLen (mreq d) = 2 * (mreq d / 2) := rfl
    omega
  · unfold modesGrid gridOf
    show mode1d (mreq d) (deltaK period anis d) _ = _
    rw [mode1d_real, deltaK_real]

/-- without any assumption on the requested count: grid entries are integer multiples of `Δk_d` -/
theorem grid_integer_multiple_any (mreq : Nat → Nat) (period anis : Nat → ℝ) (dim d j : Nat) :
    ∃ n : ℤ, modesGrid mreq (deltaK period anis) dim d j = (n : ℝ) * (2 * Real.pi / period d * anisP anis d) :=
  ⟨_, by
    unfold modesGrid gridOf
    show mode1d (mreq d) (deltaK period anis d) _ = _
    rw [mode1d_real, deltaK_real]⟩

/-- an even requested count is the number of modes produced (this is where `np.arange` with a float step failed) -/
theorem mode_count_even (m : Nat) (h : Even m) : modeLen m = m := modeLen_even h

example : Even ((fun _ : Nat => 8) 1) ∧ 0 < (fun _ : Nat => 8) 1 := ⟨⟨4, rfl⟩, by norm_num⟩

/-! ## periodicity at generator level -/

/-- `Fourier.__call__` (the generated kernel, any admissible `prange` schedule) on the grid `_set_modes` builds:
    shifting every point `i` by `Σ_d c_{d,i} · L_d / anis'_d · e_d` with integers `c_{d,i}` leaves every output cell
    unchanged — for every spectrum factor, every random amplitudes `z1 z2` (seed), every mode count, every point. -/
theorem periodic_gen (sched : Sched) (hs : sched.Admissible) (mreq : Nat → Nat) (period anis : Nat → ℝ)
    (sf z1 z2 : Nat → ℝ) (N dim X : Nat) (pos pos' : Nat → Nat → ℝ) (c : Nat → Nat → ℤ)
    (hL : ∀ d < dim, period d ≠ 0) (ha : ∀ d < dim, anisP anis d ≠ 0)
    (hshift : ∀ d < dim, ∀ i < X, pos' d i = pos d i + (c d i : ℝ) * period d / anisP anis d) (i : Nat) :
    genField sched sf (modesGrid mreq (deltaK period anis) dim) z1 z2 N pos' dim X i =
      genField sched sf (modesGrid mreq (deltaK period anis) dim) z1 z2 N pos dim X i := by
  unfold genField
  rw [summate_fourier_spec sched hs, summate_fourier_spec sched hs]
  split
  · rename_i hi
    exact fourierCell_lattice_shift sf _ z1 z2 pos pos' period (anisP anis) (fun d => c d i) dim N i _ hL ha
      (fun j _ d _ => grid_integer_multiple_any mreq period anis dim d j) (fun d hd => hshift d hd i hi)
  · rfl

/-- single axis, single period: the statement of the property at generator level -/
theorem periodic_gen_axis (sched : Sched) (hs : sched.Admissible) (mreq : Nat → Nat) (period anis : Nat → ℝ)
    (sf z1 z2 : Nat → ℝ) (N dim X : Nat) (pos pos' : Nat → Nat → ℝ) (d₀ : Nat)
    (hL : ∀ d < dim, period d ≠ 0) (ha : ∀ d < dim, anisP anis d ≠ 0)
    (hshift : ∀ d < dim, ∀ i < X, pos' d i = pos d i + if d = d₀ then period d₀ / anisP anis d₀ else 0) (i : Nat) :
    genField sched sf (modesGrid mreq (deltaK period anis) dim) z1 z2 N pos' dim X i =
      genField sched sf (modesGrid mreq (deltaK period anis) dim) z1 z2 N pos dim X i := by
  refine periodic_gen sched hs mreq period anis sf z1 z2 N dim X pos pos' (fun d _ => if d = d₀ then 1 else 0)
    hL ha (fun d hd i hi => ?_) i
  rw [hshift d hd i hi]
  by_cases h : d = d₀
  · subst h; simp
  · simp [h]

/-- the hypotheses of `periodic_gen` are satisfiable by a non-trivial shift (2-D, periods 10 and 4, anis 1/2) -/
example : ∃ (period anis : Nat → ℝ) (pos pos' : Nat → Nat → ℝ) (c : Nat → Nat → ℤ),
    (∀ d < 2, period d ≠ 0) ∧ (∀ d < 2, anisP anis d ≠ 0) ∧
    (∀ d < 2, ∀ i < 1, pos' d i = pos d i + (c d i : ℝ) * period d / anisP anis d) ∧ pos' 1 0 ≠ pos 1 0 := by
  refine ⟨fun d => if d = 0 then 10 else 4, fun _ => 1 / 2, fun _ _ => 0,
    fun d _ => if d = 0 then 10 else 8, fun _ _ => 1, ?_, ?_, ?_, ?_⟩
  · intro d hd; interval_cases d <;> norm_num
  · intro d hd; interval_cases d <;> norm_num [anisP]
  · intro d hd i _
    interval_cases d <;> norm_num [anisP]
  · norm_num

/-! ## periodicity at SRF level (main axes of the model) -/

/-- `SRF(model, generator="Fourier")`: isometrize with derotation `Q` and anisotropy, then the generator.
    If row `d₀` of `Q` (the `d₀`-th main axis of the model) has unit length and is orthogonal to the other rows, then
    moving every point `i` by `c_i · L_{d₀}` along that axis leaves the field unchanged. -/
theorem periodic_srf (sched : Sched) (hs : sched.Admissible) (Q : Nat → Nat → ℝ) (mreq : Nat → Nat)
    (period anis : Nat → ℝ) (sf z1 z2 : Nat → ℝ) (N dim X : Nat) (x x' : Nat → Nat → ℝ) (d₀ : Nat) (c : Nat → ℤ)
    (hL : ∀ d < dim, period d ≠ 0) (ha : ∀ d < dim, anisP anis d ≠ 0)
    (hQ : ∀ d < dim, ∑ e ∈ range dim, Q d e * Q d₀ e = if d = d₀ then 1 else 0)
    (hshift : ∀ e < dim, ∀ i < X, x' e i = x e i + (c i : ℝ) * period d₀ * Q d₀ e) (i : Nat) :
    srfField sched Q anis sf (modesGrid mreq (deltaK period anis) dim) z1 z2 N x' dim X i =
      srfField sched Q anis sf (modesGrid mreq (deltaK period anis) dim) z1 z2 N x dim X i := by
  unfold srfField
  refine periodic_gen sched hs mreq period anis sf z1 z2 N dim X _ _ (fun d i => if d = d₀ then c i else 0)
    hL ha (fun d hd i hi => ?_) i
  rw [isometrize_shift Q anis dim x x' (fun e => (c i : ℝ) * period d₀ * Q d₀ e) d i (fun e he => hshift e he i hi)]
  have : ∑ e ∈ range dim, Q d e * ((c i : ℝ) * period d₀ * Q d₀ e) =
      (c i : ℝ) * period d₀ * ∑ e ∈ range dim, Q d e * Q d₀ e := by
    rw [mul_sum]; exact sum_congr rfl fun e _ => by ring
  rw [this, hQ d hd]
  by_cases h : d = d₀
  · subst h; simp
  · simp [h]

/-- unrotated model (`Q` = identity): the field repeats along coordinate axis `d₀` with the period given for it -/
theorem periodic_srf_unrotated (sched : Sched) (hs : sched.Admissible) (mreq : Nat → Nat)
    (period anis : Nat → ℝ) (sf z1 z2 : Nat → ℝ) (N dim X : Nat) (x x' : Nat → Nat → ℝ) (d₀ : Nat) (hd₀ : d₀ < dim)
    (c : Nat → ℤ) (hL : ∀ d < dim, period d ≠ 0) (ha : ∀ d < dim, anisP anis d ≠ 0)
    (hshift : ∀ e < dim, ∀ i < X, x' e i = x e i + if e = d₀ then (c i : ℝ) * period d₀ else 0) (i : Nat) :
    srfField sched (fun d e => if d = e then 1 else 0) anis sf (modesGrid mreq (deltaK period anis) dim) z1 z2 N x' dim X i =
      srfField sched (fun d e => if d = e then 1 else 0) anis sf (modesGrid mreq (deltaK period anis) dim) z1 z2 N x dim X i := by
  refine periodic_srf sched hs _ mreq period anis sf z1 z2 N dim X x x' d₀ c hL ha (fun d _ => ?_)
    (fun e he i hi => ?_) i
  · simp only [mul_ite, mul_one, mul_zero]
    rw [sum_ite_eq (range dim) d₀ fun e => if d = e then (1:ℝ) else 0]
    simp [hd₀]
  · rw [hshift e he i hi]
    by_cases h : e = d₀
    · subst h; simp
    · simp [h, Ne.symm h]

/-- the derotation of a 2-D model rotated by `θ` (`matrix_derotate(2, θ) = [[cos θ, sin θ], [−sin θ, cos θ]]`) -/
noncomputable def derot2 (θ : ℝ) (d e : Nat) : ℝ :=
  if d = 0 then (if e = 0 then Real.cos θ else Real.sin θ) else (if e = 0 then -Real.sin θ else Real.cos θ)

/-- rows of the 2-D derotation are orthonormal -/
theorem derot2_rows (θ : ℝ) (d₀ : Nat) (hd₀ : d₀ < 2) :
    ∀ d < 2, ∑ e ∈ range 2, derot2 θ d e * derot2 θ d₀ e = if d = d₀ then 1 else 0 := by
  intro d hd
  have hs := Real.sin_sq_add_cos_sq θ
  have hc := Real.cos_sq_add_sin_sq θ
  interval_cases d₀ <;> interval_cases d <;> simp [derot2, sum_range_succ] <;> nlinarith [hs, hc]

/-- 2-D model rotated by any angle `θ`: the field repeats along the rotated main axes
    `(cos θ, sin θ)` (`d₀ = 0`) and `(−sin θ, cos θ)` (`d₀ = 1`) with the periods given for them -/
theorem periodic_srf_rot2d (sched : Sched) (hs : sched.Admissible) (θ : ℝ) (mreq : Nat → Nat)
    (period anis : Nat → ℝ) (sf z1 z2 : Nat → ℝ) (N X : Nat) (x x' : Nat → Nat → ℝ) (d₀ : Nat) (hd₀ : d₀ < 2)
    (c : Nat → ℤ) (hL : ∀ d < 2, period d ≠ 0) (ha : ∀ d < 2, anisP anis d ≠ 0)
    (hshift : ∀ e < 2, ∀ i < X, x' e i = x e i + (c i : ℝ) * period d₀ * derot2 θ d₀ e) (i : Nat) :
    srfField sched (derot2 θ) anis sf (modesGrid mreq (deltaK period anis) 2) z1 z2 N x' 2 X i =
      srfField sched (derot2 θ) anis sf (modesGrid mreq (deltaK period anis) 2) z1 z2 N x 2 X i :=
  periodic_srf sched hs (derot2 θ) mreq period anis sf z1 z2 N 2 X x x' d₀ c hL ha (derot2_rows θ d₀ hd₀) hshift i

/-- `matrix_derotate(dim, angles)` as the code builds it for `dim ≤ 3` has orthonormal rows, for every angle
    (2-D: one Givens rotation; 3-D: `G₀₁(−α)·G₀₂(β)·G₁₂(−γ)`; 1-D: identity) -/
theorem derot_rows_orthonormal (dim : Nat) (hdim : dim ≤ 3) (angles : Nat → ℝ) : RowsON dim (derot dim angles) :=
  rowsON_derot dim hdim angles

/-- the 2-D derotation written out: main axes `(cos θ, sin θ)` and `(−sin θ, cos θ)` -/
theorem derot_two (angles : Nat → ℝ) (d e : Nat) (hd : d < 2) (he : e < 2) :
    derot 2 angles d e = derot2 (angles 0) d e := by
  interval_cases d <;> interval_cases e <;> simp [derot, givens, derot2]

/-- the statement of the property at SRF level, dim 1-3, any anisotropy, any rotation angles:
    the field repeats when every point is moved by an integer multiple of `L_{d₀}` along the `d₀`-th main axis of the
    model (row `d₀` of `matrix_derotate(dim, angles)`, i.e. column `d₀` of the rotation) -/
theorem periodic_srf_rotated (sched : Sched) (hs : sched.Admissible) (dim : Nat) (hdim : dim ≤ 3) (angles : Nat → ℝ)
    (mreq : Nat → Nat) (period anis : Nat → ℝ) (sf z1 z2 : Nat → ℝ) (N X : Nat) (x x' : Nat → Nat → ℝ)
    (d₀ : Nat) (hd₀ : d₀ < dim) (c : Nat → ℤ)
    (hL : ∀ d < dim, period d ≠ 0) (ha : ∀ d < dim, anisP anis d ≠ 0)
    (hshift : ∀ e < dim, ∀ i < X, x' e i = x e i + (c i : ℝ) * period d₀ * derot dim angles d₀ e) (i : Nat) :
    srfField sched (derot dim angles) anis sf (modesGrid mreq (deltaK period anis) dim) z1 z2 N x' dim X i =
      srfField sched (derot dim angles) anis sf (modesGrid mreq (deltaK period anis) dim) z1 z2 N x dim X i :=
  periodic_srf sched hs (derot dim angles) mreq period anis sf z1 z2 N dim X x x' d₀ c hL ha
    (fun d hd => rowsON_derot dim hdim angles d hd d₀ hd₀) hshift i

/-! ## after updates: histories of `update(model, seed, period, mode_no)` calls (setters, `SRF.__call__`) -/

section lawfree
set_option linter.unusedSectionVars false
variable {α : Type} [Arith α] [Transc α] [DecidableLT α] [DecidableLE α] [Inhabited α]

set_option linter.unusedSimpArgs false in
/-- one `update` call keeps the invariant "the stored grid is the grid derived from the stored period, the stored
    model's anisotropy and the stored mode counts, and the amplitudes were redrawn after the last grid change" —
    whatever the call (new / equal model, period, mode_no, seed, any combination, also calls that raise).
    Needs the model comparison to be exact on the anisotropy (`EqvExact`); see `isclose_not_exact`. -/
theorem update_inv (eqv : Mdl α → Mdl α → Bool) (heq : EqvExact eqv) (st : St α) (u : Upd α) (h : Inv st) :
    Inv (update eqv st u).1 := by
  rcases u with ⟨um, us, up, umn⟩
  unfold update
  simp only []
  split_ifs with g1 g2 g3 g4
  · exact h
  · exact h
  · exact h
  · exact h
  · intro _
    cases up with
    | some p =>
      -- a period is given: delta_k is recomputed from the model that ends up stored
      cases um with
      | some m =>
        cases umn with
        | some mn =>
          simp only [seedStep, modesStep, gridStep, Option.isSome_some, Option.isNone_some, Bool.or_true, Bool.true_or,
            if_true, Option.getD_some, Bool.false_eq_true, if_false]
          exact resetSeed_model_coherent _ m us (gridOK_setModes _ _ _ (fun d => rfl))
        | none =>
          simp only [seedStep, modesStep, gridStep, Option.isSome_some, Option.isNone_none, Bool.or_true, Bool.true_or,
            if_true, Option.getD_some, Option.isSome_none, Bool.or_false]
          exact resetSeed_model_coherent _ m us (gridOK_setModes _ _ _ (fun d => rfl))
      | none =>
        have hm : st.hasModel = true := by simpa using g1
        cases umn with
        | some mn =>
          simp only [seedStep, modesStep, gridStep, Option.isSome_some, Option.isNone_some, Bool.or_true, Bool.true_or,
            if_true, Option.getD_none, Bool.false_eq_true, if_false]
          exact resetSeed_coherent _ us (gridOK_setModes _ _ _ (fun d => rfl)) hm
        | none =>
          simp only [seedStep, modesStep, gridStep, Option.isSome_some, Option.isNone_none, Bool.or_true, Bool.true_or,
            if_true, Option.getD_none, Option.isSome_none, Bool.or_false]
          exact resetSeed_coherent _ us (gridOK_setModes _ _ _ (fun d => rfl)) hm
    | none =>
      -- no period given: the state has one (third guard), so it is coherent
      have hp : st.hasPeriod = true := by simpa using g3
      have hc := h hp
      have hm := hc.hasModel
      cases um with
      | some m =>
        by_cases he : eqv st.model m = true
        · -- the given model compares equal: nothing is recomputed from it
          have hanis : st.model.anis = m.anis := funext (heq _ _ he)
          cases umn with
          | some mn =>
            simp only [seedStep, modesStep, gridStep, isNewModel, hm, he, hp, Option.isSome_some, Option.isSome_none,
              Bool.and_self, Bool.not_true, Bool.false_and, Bool.or_false, Bool.false_eq_true, if_false, Bool.or_true,
              Bool.true_or, if_true, Option.getD_some]
            exact resetSeed_model_coherent _ m us (gridOK_setModes _ _ _ (fun d => by rw [← hanis]; exact hc.grid.dk d))
          | none =>
            cases us with
            | some s =>
              simp only [seedStep, modesStep, gridStep, isNewModel, hm, he, hp, Option.isSome_none,
                Bool.and_self, Bool.not_true, Bool.false_and, Bool.or_false, Bool.false_eq_true, if_false, Option.getD_some]
              exact setSeed_coherent _ s hc
            | none =>
              simp only [seedStep, modesStep, gridStep, isNewModel, hm, he, hp, Option.isSome_none,
                Bool.and_self, Bool.not_true, Bool.false_and, Bool.or_false, Bool.false_eq_true, if_false, Option.getD_some]
              exact hc
        · -- a new model: delta_k and the modes are recomputed with its anisotropy
          have he' : eqv st.model m = false := by simpa using he
          cases umn with
          | some mn =>
            simp only [seedStep, modesStep, gridStep, isNewModel, hm, he', hp, Option.isSome_some, Option.isSome_none,
              Option.isNone_some, Bool.and_false, Bool.not_false, Bool.and_self, Bool.or_true, Bool.true_or, Bool.false_or,
              if_true, Option.getD_some, Bool.false_eq_true, if_false]
            exact resetSeed_model_coherent _ m us (gridOK_setModes _ _ _ (fun d => rfl))
          | none =>
            simp only [seedStep, modesStep, gridStep, isNewModel, hm, he', hp, Option.isSome_none,
              Option.isNone_none, Bool.and_false, Bool.not_false, Bool.and_self, Bool.or_true, Bool.true_or, Bool.false_or,
              if_true, Option.getD_some, Bool.or_false]
            exact resetSeed_model_coherent _ m us (gridOK_setModes _ _ _ (fun d => rfl))
      | none =>
        cases umn with
        | some mn =>
          simp only [seedStep, modesStep, gridStep, isNewModel, Option.isSome_some, Option.isSome_none, Bool.false_and,
            Bool.or_false, Bool.false_eq_true, if_false, Bool.true_or, Bool.or_true, if_true, Option.getD_none]
          exact resetSeed_coherent _ us (gridOK_setModes _ _ _ hc.grid.dk) hm
        | none =>
          cases us with
          | some s =>
            simp only [seedStep, modesStep, gridStep, isNewModel, Option.isSome_none, Bool.false_and,
              Bool.or_false, Bool.false_eq_true, if_false, Option.getD_none]
            exact setSeed_coherent _ s hc
          | none =>
            simp only [seedStep, modesStep, gridStep, isNewModel, Option.isSome_none, Bool.false_and,
              Bool.or_false, Bool.false_eq_true, if_false, Option.getD_none]
            exact hc

theorem blank_inv : Inv (blank : St α) := by
  intro h; exact absurd h (by simp [blank])

theorem run_inv (eqv : Mdl α → Mdl α → Bool) (heq : EqvExact eqv) (us : List (Upd α)) (st : St α) (h : Inv st) :
    Inv (run eqv st us) := by
  induction us generalizing st with
  | nil => exact h
  | cons u us ih => exact ih _ (update_inv eqv heq st u h)

/-- every state reachable from the constructor by any history of `update` calls is coherent -/
theorem reachable_coherent (eqv : Mdl α → Mdl α → Bool) (heq : EqvExact eqv) (us : List (Upd α)) :
    Inv (run eqv blank us) :=
  run_inv eqv heq us _ blank_inv

/-- fresh-equivalence of the grid: in a coherent state `self._modes` is exactly the grid `_set_modes` would build now
    from the stored period, the stored model's anisotropy and the stored mode counts -/
theorem coherent_modes_eq_derived (st : St α) (h : Coherent st) :
    st.modes = modesGrid st.modeNo (deltaK st.period st.model.anis) st.model.dim := by
  funext d j
  unfold St.modes modesGrid gridOf
  have hl : (fun d => modeLen (st.modeNo d)) = st.modeNo := funext h.grid.even
  rw [hl, h.grid.modes, h.grid.dk]

set_option linter.unusedSimpArgs false in
set_option linter.unreachableTactic false in
set_option linter.unusedTactic false in
/-- what `SRF.__call__` hands to the generator: `update(self.model, seed)`.  With an exact model comparison the
    generator afterwards stores the anisotropy of the SRF's model (in-place changes of the model included) -/
theorem srf_call_adopts_anis (eqv : Mdl α → Mdl α → Bool) (heq : EqvExact eqv) (st : St α) (m : Mdl α) (seed : Option Nat)
    (hp : st.hasPeriod = true) (hm : st.hasModel = true) (hdim : m.dim = st.model.dim) :
    (update eqv st ⟨some m, seed, none, none⟩).1.model.anis = m.anis ∧
    (update eqv st ⟨some m, seed, none, none⟩).1.model.dim = m.dim ∧
    (update eqv st ⟨some m, seed, none, none⟩).1.hasPeriod = true ∧
    (update eqv st ⟨some m, seed, none, none⟩).1.period = st.period := by
  have hg2 : decide (m.dim ≠ st.model.dim) = false := by simp [hdim]
  unfold update
  simp only [hp, hm, hg2, Option.isNone_some, Option.getD_some, Bool.not_true, Bool.false_and, Bool.and_false,
    Bool.false_eq_true, if_false, oddModeNo, Bool.and_self]
  by_cases he : eqv st.model m = true
  · have hanis : st.model.anis = m.anis := funext (heq _ _ he)
    cases seed with
    | some s =>
      simp only [seedStep, modesStep, gridStep, isNewModel, hm, he, hp, Option.isSome_none, Bool.and_self, Bool.not_true,
        Bool.false_and, Bool.or_false, Bool.false_eq_true, if_false, setSeed]
      split <;> exact ⟨hanis, hdim.symm, by first | exact hp | trivial | rfl, by first | trivial | rfl⟩
    | none =>
      simp only [seedStep, modesStep, gridStep, isNewModel, hm, he, hp, Option.isSome_none, Bool.and_self, Bool.not_true,
        Bool.false_and, Bool.or_false, Bool.false_eq_true, if_false]
      exact ⟨hanis, hdim.symm, by first | exact hp | trivial | rfl, by first | trivial | rfl⟩
  · have he' : eqv st.model m = false := by simpa using he
    simp only [seedStep, modesStep, gridStep, isNewModel, hm, he', hp, Option.isSome_none, Option.isNone_none,
      Bool.and_false, Bool.not_false, Bool.and_self, Bool.or_true, Bool.true_or, Bool.false_or, if_true, Bool.or_false]
    exact ⟨rfl, rfl, by first | exact hp | trivial | rfl, by first | trivial | rfl⟩

set_option linter.unusedSimpArgs false in
/-- a call of `update` that raises (odd `mode_no`, neither model nor seed, unsupported) leaves the generator exactly
    as it was — on any carrier, in particular on doubles -/
theorem update_error_unchanged (eqv : Mdl α → Mdl α → Bool) (st : St α) (u : Upd α)
    (h : (update eqv st u).2 ≠ Out.ok) : (update eqv st u).1 = st := by
  rcases u with ⟨um, us, up, umn⟩
  unfold update at h ⊢
  simp only [] at h ⊢
  split_ifs at h ⊢ with g1 g2 g3 g4
  · rfl
  · rfl
  · rfl
  · rfl
  · cases um <;> cases up <;> cases umn <;> cases us <;>
      simp only [seedStep, modesStep, gridStep, isNewModel, Option.isSome_some, Option.isSome_none, Bool.or_true,
        Bool.true_or, Bool.or_false, Bool.false_and, if_true, if_false, Bool.false_eq_true, ne_eq, not_true_eq_false,
        Bool.or_self] at h ⊢ <;>
      first | rfl | exact absurd rfl h | (split_ifs at h ⊢ <;> first | rfl | exact absurd rfl h)

set_option linter.unusedSimpArgs false in
set_option linter.unreachableTactic false in
set_option linter.unusedTactic false in
/-- a successful `update(..., mode_no=mn)` stores exactly the requested (even) number of modes on every axis
    (`len(np.arange(-(m//2), m//2)) = m`; with the former float-step `np.arange` this failed for ~4 % of the inputs) -/
theorem update_ok_modeNo (eqv : Mdl α → Mdl α → Bool) (st : St α) (u : Upd α) (mn : Array Nat)
    (hu : u.modeNo = some mn) (hok : (update eqv st u).2 = Out.ok) (d : Nat) (hd : d < (u.model.getD st.model).dim) :
    (update eqv st u).1.modeNo d = fillToDim mn d := by
  rcases u with ⟨um, us, up, umn⟩
  cases hu
  unfold update at hok ⊢
  simp only [] at hok ⊢
  split_ifs at hok ⊢ with g1 g2 g3 g4
  · have hev : fillToDim mn d % 2 = 0 := by
      simp only [oddModeNo, Bool.not_eq_true, List.any_eq_false, List.mem_range, bne_iff_ne, ne_eq, not_not] at g4
      exact g4 d hd
    have hlen : modeLen (fillToDim mn d) = fillToDim mn d := by unfold modeLen; omega
    cases um <;> cases up <;> cases us <;>
      simp only [seedStep, modesStep, gridStep, isNewModel, Option.isSome_some, Option.isSome_none, Bool.or_true,
        Bool.true_or, Bool.or_false, Bool.false_and, if_true, if_false, Bool.false_eq_true, Option.isNone_some] <;>
      first | exact hlen | (split_ifs <;> exact hlen)

end lawfree

/-- C17 over histories, generator level: after ANY history of constructor / setter / update calls the generator's output
    is periodic with the period and the anisotropy it now stores -/
theorem after_updates_periodic (eqv : Mdl ℝ → Mdl ℝ → Bool) (heq : EqvExact eqv) (us : List (Upd ℝ))
    (sched : Sched) (hs : sched.Admissible) (sf z1 z2 : Nat → ℝ) (N X : Nat) (pos pos' : Nat → Nat → ℝ) (c : Nat → Nat → ℤ) :
    let st := run eqv blank us
    st.hasPeriod = true →
    (∀ d < st.model.dim, st.period d ≠ 0) → (∀ d < st.model.dim, anisP st.model.anis d ≠ 0) →
    (∀ d < st.model.dim, ∀ i < X, pos' d i = pos d i + (c d i : ℝ) * st.period d / anisP st.model.anis d) →
    ∀ i, genField sched sf st.modes z1 z2 N pos' st.model.dim X i = genField sched sf st.modes z1 z2 N pos st.model.dim X i := by
  intro st hp hL ha hshift i
  have hc := reachable_coherent eqv heq us hp
  rw [coherent_modes_eq_derived st hc]
  exact periodic_gen sched hs _ _ _ sf z1 z2 N _ X pos pos' c hL ha hshift i

set_option linter.unusedSimpArgs false in
/-- C17 over histories, SRF level: after any history, calling the SRF with its (possibly in-place changed or replaced)
    model `m` gives a field that repeats along the main axes of `m` (rows of its derotation `Q`) by the stored periods -/
theorem srf_after_updates_periodic (eqv : Mdl ℝ → Mdl ℝ → Bool) (heq : EqvExact eqv) (us : List (Upd ℝ))
    (m : Mdl ℝ) (seed : Option Nat) (Q : Nat → Nat → ℝ)
    (sched : Sched) (hs : sched.Admissible) (sf z1 z2 : Nat → ℝ) (N X : Nat) (x x' : Nat → Nat → ℝ) (d₀ : Nat) (c : Nat → ℤ) :
    let st0 := run eqv blank us
    let st := (update eqv st0 ⟨some m, seed, none, none⟩).1
    st0.hasPeriod = true → m.dim = st0.model.dim →
    (∀ d < m.dim, st.period d ≠ 0) → (∀ d < m.dim, anisP m.anis d ≠ 0) →
    (∀ d < m.dim, ∑ e ∈ range m.dim, Q d e * Q d₀ e = if d = d₀ then 1 else 0) →
    (∀ e < m.dim, ∀ i < X, x' e i = x e i + (c i : ℝ) * st.period d₀ * Q d₀ e) →
    ∀ i, srfField sched Q m.anis sf st.modes z1 z2 N x' m.dim X i = srfField sched Q m.anis sf st.modes z1 z2 N x m.dim X i := by
  intro st0 st hp hdim hL ha hQ hshift i
  have hc0 := reachable_coherent eqv heq us hp
  obtain ⟨h1, h2, h3, _⟩ := srf_call_adopts_anis eqv heq st0 m seed hp hc0.hasModel hdim
  have hc : Coherent st := update_inv eqv heq st0 _ (reachable_coherent eqv heq us) h3
  rw [coherent_modes_eq_derived st hc, h1, h2]
  exact periodic_srf sched hs Q _ _ m.anis sf z1 z2 N m.dim X x x' d₀ c hL ha hQ hshift i

/-- the same with the derotation the code builds from the model's angles (dim 1-3): the complete statement of C17 for
    histories — constructor, any setter / update calls, then an SRF call with a model of any anisotropy and rotation -/
theorem srf_after_updates_periodic_rotated (eqv : Mdl ℝ → Mdl ℝ → Bool) (heq : EqvExact eqv) (us : List (Upd ℝ))
    (m : Mdl ℝ) (hdim3 : m.dim ≤ 3) (angles : Nat → ℝ) (seed : Option Nat)
    (sched : Sched) (hs : sched.Admissible) (sf z1 z2 : Nat → ℝ) (N X : Nat) (x x' : Nat → Nat → ℝ)
    (d₀ : Nat) (hd₀ : d₀ < m.dim) (c : Nat → ℤ) :
    let st0 := run eqv blank us
    let st := (update eqv st0 ⟨some m, seed, none, none⟩).1
    st0.hasPeriod = true → m.dim = st0.model.dim →
    (∀ d < m.dim, st.period d ≠ 0) → (∀ d < m.dim, anisP m.anis d ≠ 0) →
    (∀ e < m.dim, ∀ i < X, x' e i = x e i + (c i : ℝ) * st.period d₀ * derot m.dim angles d₀ e) →
    ∀ i, srfField sched (derot m.dim angles) m.anis sf st.modes z1 z2 N x' m.dim X i =
      srfField sched (derot m.dim angles) m.anis sf st.modes z1 z2 N x m.dim X i := by
  intro st0 st hp hdim hL ha hshift i
  exact srf_after_updates_periodic eqv heq us m seed (derot m.dim angles) sched hs sf z1 z2 N X x x' d₀ c hp hdim hL ha
    (fun d hd => rowsON_derot m.dim hdim3 angles d hd d₀ hd₀) hshift i

/-- the code's model comparison (`np.isclose` on the anisotropy) is NOT exact: two models that compare equal with
    different anisotropy (known finding F4: the generator then keeps the grid of the old anisotropy) -/
theorem isclose_not_exact : ¬ EqvExact (mdlClose : Mdl ℝ → Mdl ℝ → Bool) := by
  intro h
  have := h ⟨2, fun _ => 1 / 2, 0⟩ ⟨2, fun _ => 1 / 2 + 1 / 10 ^ 7, 0⟩ (by
    simp only [mdlClose, isclose, List.range_succ, List.range_zero, List.nil_append, List.all_cons, List.all_nil,
      Bool.and_true, beq_self_eq_true, Bool.true_and, decide_eq_true_eq, fabs_real]
    norm_num [abs_le]) 0
  norm_num at this

/-! ### the witness for the `np.isclose` band -/

noncomputable def wA : Mdl ℝ := ⟨2, fun _ => 1 / 2, 0⟩
noncomputable def wB : Mdl ℝ := ⟨2, fun _ => 1 / 2 + 1 / 10 ^ 7, 0⟩

set_option linter.unusedSimpArgs false in
theorem wClose : mdlClose wA wB = true := by
  simp only [wA, wB, mdlClose, isclose, List.range_succ, List.range_zero, List.nil_append, List.all_cons, List.all_nil,
      Bool.and_true, beq_self_eq_true, Bool.true_and, decide_eq_true_eq, fabs_real]
  norm_num [abs_le]

set_option linter.unusedSimpArgs false in
set_option linter.unreachableTactic false in
set_option linter.unusedTactic false in
theorem w0 : let st0 := run mdlClose (blank : St ℝ) [⟨some wA, some 1, some #[10], some #[4]⟩]
    st0.hasPeriod = true ∧ st0.hasModel = true ∧ st0.model = wA := by
  simp only [run, update, blank, Option.isNone_some, Bool.not_false, Bool.and_false, Bool.false_eq_true, if_false,
    Option.getD_some, Bool.false_and, Bool.or_false, Bool.or_self, Bool.not_true]
  have hodd : oddModeNo wA.dim (some #[4]) = false := by decide
  simp only [hodd, Bool.false_eq_true, if_false, seedStep, isNewModel, Bool.false_and, Bool.not_false, Bool.true_or,
    if_true, resetSeed]
  refine ⟨?_, ?_, ?_⟩ <;> first | trivial | rfl

set_option linter.unusedSimpArgs false in
/-- the full statement "after `SRF.__call__` the generator stores the anisotropy of the SRF's model" is FALSE for the
    code's own comparison (`mdlClose` = `np.isclose` band): a reachable state and a model inside the band whose
    anisotropy is not adopted (known finding F4; replayed on the implementation by the search, key
    `fourier:isclose-model-stale-anis`) -/
theorem srf_call_isclose_stale :
    ∃ (us : List (Upd ℝ)) (m : Mdl ℝ),
      let st0 := run mdlClose (blank : St ℝ) us
      st0.hasPeriod = true ∧ m.dim = st0.model.dim ∧
        (update mdlClose st0 ⟨some m, none, none, none⟩).1.model.anis 0 ≠ m.anis 0 := by
  refine ⟨[⟨some wA, some 1, some #[10], some #[4]⟩], wB, ?_⟩
  obtain ⟨hp, hm, hmod⟩ := w0
  intro st0
  have hp : st0.hasPeriod = true := hp
  have hm : st0.hasModel = true := hm
  have hmod : st0.model = wA := hmod
  refine ⟨hp, by rw [hmod]; rfl, ?_⟩
  have he : mdlClose st0.model wB = true := by rw [hmod]; exact wClose
  have hg2 : decide (wB.dim ≠ st0.model.dim) = false := by rw [hmod]; simp [wA, wB]
  have hst : (update mdlClose st0 ⟨some wB, none, none, none⟩).1 = st0 := by
    unfold update
    simp only [hp, hm, hg2, Option.isNone_some, Option.getD_some, Bool.not_true, Bool.false_and, Bool.and_false,
      Bool.false_eq_true, if_false, oddModeNo, Bool.and_self, seedStep, modesStep, gridStep, isNewModel, he,
      Option.isSome_none, Bool.or_false]
  rw [hst, hmod]
  simp only [wA, wB]
  norm_num

/-- `EqvExact` is satisfiable by a comparison that really compares (exact equality of tag, dimension and anisotropy) -/
example : EqvExact (fun (a b : Mdl ℝ) => by classical exact decide (a.tag = b.tag ∧ a.dim = b.dim ∧ a.anis = b.anis)) := by
  intro a b h d
  simp only [decide_eq_true_eq] at h
  rw [h.2.2]

end GSV.Props.C17
