/-
  Tie A for the analytic spectral closed forms (C04): the hand-written functions of `GSV.Model.Spectral`
  (`gauDensity`, `gauCdf`, `gauPpf`, `expDensity`, `expCdf`, `maternDensity`, `jbesselDensity`) are EQUAL over `ℝ`, for
  all parameters and arguments, to the definitions that `vlib/pyexpr2lean.py` regenerates from the current text of
  `src/gstools/covmodel/models.py` on every run of `./check` (`GSV/Gen/SpectralFormulas.lean`).

  The theorems `*_eq_model_real` are the registered obligations, proved by `tie_real` (`GSV/Props/GenTieReal.lean`:
  unfold, vocabulary, normal form of roots / powers / ring subterms, split, `ring1 | ring_nf | field_simp; ring1`), which
  keeps checking when a source formula is rewritten into a real-equal one (hoisted prefactors, `a / b / c` -> `a / (b c)`,
  `base ** ((d+1)/2)` -> `sqrt(base) ** (d+1)` where `base ≥ 0` is found by `positivity`) and stops checking on a semantic
  edit.  No side condition on the arguments is needed; `Matern.spectral_density` is proved branch by branch because in
  the branch `nu > 20` the fact `0 < nu` is what makes `(√b)^(-d) = b^(-d/2)` with `b = 1 + x/nu` true.
  The carrier-polymorphic form of the same equalities is in `GenTieSpectralExact.lean` (informative).

  The scipy functions (`erf`, `erfinv`, `gamma`, `loggamma`) are uninterpreted in both texts: the generated
  definitions take `sps : Sps α`, the model takes `sp : Special α`; `specialOf sps` is the obvious forgetful map
  (every `Special` is `specialOf` of some `Sps`, `specialOf_surjective`).
  * `Exponential.spectral_density`: the model evaluates `Γ((d+1)/2)` by the half-integer recursion `gammaHalf`;
    equality under the hypothesis that `sps.gamma` agrees with it on half-integers.
  * `JBessel.spectral_density`: the code clips the divisor with `np.minimum(·, 100.0)` inside an `if`, the model writes
    the clipped divisor as a nested `if`; both are read as `min`.
  Not generated: `Exponential.spectral_rad_ppf` (`np.divide(…, out=…, where=…)` is outside the subset),
  `Integral / HyperSpherical.spectral_density` (`np.empty_like` + in-place updates), the TPL spectra
  (`gstools.tools.special`).
-/
import GSV.RealInst
import GSV.Props.GenTieReal
import GSV.Model.Spectral
import GSV.Gen.SpectralFormulas

set_option linter.unusedSectionVars false

namespace GSV.Props.GenTieSpectral
open GSV GSV.Transc GSV.PyExpr GSV.Model.Spectral GSV.Gen.SpectralFormulas GSV.Props.GenTieReal

variable {α : Type} [Arith α] [Transc α] [DecidableLT α] [DecidableLE α]

/-- the special functions of the model, read off the `scipy.special` parameter of the generated definitions -/
@[reducible] def specialOf (sps : Sps α) : Special α :=
  { erf := sps.erf, erfinv := sps.erfinv, gamma := sps.gamma, lgamma := sps.loggamma }

theorem specialOf_surjective (sp : Special α) : ∃ sps : Sps α, specialOf sps = sp :=
  ⟨{ erf := sp.erf, erfinv := sp.erfinv, gamma := sp.gamma, loggamma := sp.lgamma, beta := fun _ x => x,
     kv := fun _ x => x, jv := fun _ x => x, hyp2f1 := fun _ _ _ x => x }, rfl⟩

theorem arctan_eq (x : α) : arctan x = Model.Spectral.atan x := rfl

/-! ### the obligations: equality over `ℝ`, robust against real-equal rewrites of the source -/

theorem Gaussian_spectral_density_eq_model_real (d : Nat) (ℓ k : ℝ) :
    Gaussian.spectral_density d ℓ k = gauDensity d ℓ k := by
  tie_real [Gaussian.spectral_density, gauDensity]

theorem Gaussian_spectral_rad_cdf_eq_model_real (sps : Sps ℝ) (d : Nat) (ℓ r : ℝ) :
    Gaussian.spectral_rad_cdf sps d ℓ r = gauCdf (specialOf sps) d ℓ r := by
  tie_real [Gaussian.spectral_rad_cdf, gauCdf, specialOf]

theorem Gaussian_spectral_rad_ppf_eq_model_real (sps : Sps ℝ) (d : Nat) (ℓ u : ℝ) :
    Gaussian.spectral_rad_ppf sps d ℓ u = gauPpf (specialOf sps) d ℓ u := by
  tie_real [Gaussian.spectral_rad_ppf, gauPpf, specialOf]

/-- relative to `sps.gamma(n / 2) = gammaHalf n` (used at `n = d + 1`; normalised together with the goal) -/
theorem Exponential_spectral_density_eq_model_real (sps : Sps ℝ) (d : Nat) (ℓ k : ℝ)
    (H : ∀ n : Nat, sps.gamma (((n:Nat):ℝ) / ((2:Nat):ℝ)) = gammaHalf n) :
    Exponential.spectral_density sps d ℓ k = expDensity d ℓ k := by
  have H' := H (d + 1)
  tie_real_using H' [Exponential.spectral_density, expDensity]

theorem Exponential_spectral_rad_cdf_eq_model_real (d : Nat) (ℓ r : ℝ) :
    Exponential.spectral_rad_cdf d ℓ r = expCdf d ℓ r := by
  tie_real [Exponential.spectral_rad_cdf, expCdf, ← arctan_eq]

theorem Matern_spectral_density_eq_model_real (sps : Sps ℝ) (d : Nat) (ℓ ν k : ℝ) :
    Matern.spectral_density sps d ℓ ν k = maternDensity (specialOf sps) d ℓ ν k := by
  by_cases hν : ν > ((20:Nat):ℝ)
  · have hpos : 0 < ν := lt_trans (by norm_num) hν
    tie_real [Matern.spectral_density, maternDensity, specialOf, if_pos hν]
  · tie_real [Matern.spectral_density, maternDensity, specialOf, if_neg hν]

theorem JBessel_spectral_density_eq_model_real (sps : Sps ℝ) (d : Nat) (ℓ ν k : ℝ) :
    JBessel.spectral_density sps d ℓ ν k = jbesselDensity (specialOf sps) d ℓ ν k := by
  tie_real [JBessel.spectral_density, jbesselDensity, specialOf]

/-! ### satisfiability of the hypothesis on `gamma` -/

/-- a stand-in for `scipy.special` whose `gamma` is the half-integer recursion of the model -/
noncomputable def witnessSps : Sps ℝ where
  erf := id
  erfinv := id
  gamma := fun x => gammaHalf ⌊2 * x⌋₊
  loggamma := id
  beta := fun _ x => x
  kv := fun _ x => x
  jv := fun _ x => x
  hyp2f1 := fun _ _ _ x => x

example (n : Nat) : witnessSps.gamma (((n:Nat):ℝ) / ((2:Nat):ℝ)) = gammaHalf n := by
  have : 2 * (((n:Nat):ℝ) / ((2:Nat):ℝ)) = (n:ℝ) := by push_cast; ring
  simp only [witnessSps, this, Nat.floor_natCast]

end GSV.Props.GenTieSpectral
