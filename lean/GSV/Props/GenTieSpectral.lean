/-
  Tie A for the analytic spectral closed forms (C04): the hand-written functions of `GSV.Model.Spectral`
  (`gauDensity`, `gauCdf`, `gauPpf`, `expDensity`, `expCdf`, `maternDensity`, `jbesselDensity`) are EQUAL, for all
  parameters and arguments, to the definitions that `vlib/pyexpr2lean.py` regenerates from the current text of
  `src/gstools/covmodel/models.py` on every run of `./check` (`GSV/Gen/SpectralFormulas.lean`).

  The scipy functions (`erf`, `erfinv`, `gamma`, `loggamma`) are uninterpreted in both texts: the generated
  definitions take `sps : Sps α`, the model takes `sp : Special α`; `specialOf sps` is the obvious forgetful map
  (every `Special` is `specialOf` of some `Sps`, `specialOf_surjective`).
  * `Gaussian.spectral_density`, `Gaussian.spectral_rad_cdf / _ppf`, `Exponential.spectral_rad_cdf`,
    `Matern.spectral_density`: equal on every carrier (the `if self.dim == 1 … return None` chains are the
    model's `match`).
  * `Exponential.spectral_density`: the model evaluates `Γ((d+1)/2)` by the half-integer recursion `gammaHalf`;
    equality under the hypothesis that `sps.gamma` agrees with it on half-integers (on every carrier).
  * `JBessel.spectral_density`: over `ℝ` (the code clips the divisor with `np.minimum(·, 100.0)` inside an `if`,
    the model writes the clipped divisor as a nested `if`; equal by case distinction).
  Not generated: `Exponential.spectral_rad_ppf` (`np.divide(…, out=…, where=…)` is outside the subset),
  `Integral / HyperSpherical.spectral_density` (`np.empty_like` + in-place updates), the TPL spectra
  (`gstools.tools.special`).
-/
import GSV.RealInst
import GSV.Model.Spectral
import GSV.Gen.SpectralFormulas

set_option linter.unusedSectionVars false

namespace GSV.Props.GenTieSpectral
open GSV GSV.Transc GSV.PyExpr GSV.Model.Spectral GSV.Gen.SpectralFormulas

variable {α : Type} [Arith α] [Transc α] [DecidableLT α] [DecidableLE α]

/-- the special functions of the model, read off the `scipy.special` parameter of the generated definitions -/
def specialOf (sps : Sps α) : Special α :=
  { erf := sps.erf, erfinv := sps.erfinv, gamma := sps.gamma, lgamma := sps.loggamma }

theorem specialOf_surjective (sp : Special α) : ∃ sps : Sps α, specialOf sps = sp :=
  ⟨{ erf := sp.erf, erfinv := sp.erfinv, gamma := sp.gamma, loggamma := sp.lgamma, beta := fun _ x => x,
     kv := fun _ x => x, jv := fun _ x => x, hyp2f1 := fun _ _ _ x => x }, rfl⟩

theorem arctan_eq (x : α) : arctan x = Model.Spectral.atan x := rfl

/-! ### Gaussian -/

theorem Gaussian_spectral_density_eq_model (d : Nat) (ℓ k : α) :
    Gaussian.spectral_density d ℓ k = gauDensity d ℓ k := rfl

theorem Gaussian_spectral_rad_cdf_eq_model (sps : Sps α) (d : Nat) (ℓ r : α) :
    Gaussian.spectral_rad_cdf sps d ℓ r = gauCdf (specialOf sps) d ℓ r := by
  rcases d with _ | _ | _ | _ | d <;> rfl

theorem Gaussian_spectral_rad_ppf_eq_model (sps : Sps α) (d : Nat) (ℓ u : α) :
    Gaussian.spectral_rad_ppf sps d ℓ u = gauPpf (specialOf sps) d ℓ u := by
  rcases d with _ | _ | _ | d <;> rfl

/-! ### Exponential -/

theorem Exponential_spectral_density_eq_model (sps : Sps α) (d : Nat) (ℓ k : α)
    (H : ∀ n : Nat, sps.gamma (((n:Nat):α) / ((2:Nat):α)) = gammaHalf n) :
    Exponential.spectral_density sps d ℓ k = expDensity d ℓ k := by
  simp only [Exponential.spectral_density, expDensity, H]

theorem Exponential_spectral_rad_cdf_eq_model (d : Nat) (ℓ r : α) :
    Exponential.spectral_rad_cdf d ℓ r = expCdf d ℓ r := by
  rcases d with _ | _ | _ | _ | d <;> rfl

/-! ### Matern -/

theorem Matern_spectral_density_eq_model (sps : Sps α) (d : Nat) (ℓ ν k : α) :
    Matern.spectral_density sps d ℓ ν k = maternDensity (specialOf sps) d ℓ ν k := rfl

/-! ### JBessel -/

theorem JBessel_spectral_density_eq_model (sps : Sps ℝ) (d : Nat) (ℓ ν k : ℝ) :
    JBessel.spectral_density sps d ℓ ν k = jbesselDensity (specialOf sps) d ℓ ν k := by
  have hmin : ∀ g : ℝ, minimum g ((100:Nat):ℝ) = if ((100:Nat):ℝ) < g then ((100:Nat):ℝ) else g := by
    intro g
    unfold minimum
    by_cases h1 : g < ((100:Nat):ℝ)
    · rw [if_pos h1, if_neg (not_lt.mpr h1.le)]
    · rw [if_neg h1]
      rcases (not_lt.mp h1).eq_or_lt with h2 | h2
      · rw [if_neg (by rw [h2]; exact lt_irrefl _), h2]
      · rw [if_pos h2]
  rw [JBessel.spectral_density, jbesselDensity]
  by_cases ha : ν - ((d:Nat):ℝ) / ((2:Nat):ℝ) + ((1:Nat):ℝ) < ((1:Nat):ℝ)
    <;> by_cases hk : k < ((1:Nat):ℝ) / ℓ
    <;> (simp only [ha, hk, if_true, if_false, hmin, specialOf]; try rfl)

/-! ### satisfiability of the hypothesis on `gamma` -/

/-- a stand-in for `scipy.special` whose `gamma` is the half-integer recursion of the model -/
noncomputable def witnessSps : Sps ℝ where
  erf := id
  erfinv := id
  gamma := fun x => gammaHalf ⌊2 * x⌋₊
  loggamma := id
  beta := fun _ x => x
  kv := fun _ x => x
  jv := fun _ x => x
  hyp2f1 := fun _ _ _ x => x

example (n : Nat) : witnessSps.gamma (((n:Nat):ℝ) / ((2:Nat):ℝ)) = gammaHalf n := by
  have : 2 * (((n:Nat):ℝ) / ((2:Nat):ℝ)) = (n:ℝ) := by push_cast; ring
  simp only [witnessSps, this, Nat.floor_natCast]

end GSV.Props.GenTieSpectral
