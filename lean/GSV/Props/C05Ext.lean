/-
  C05 (continued) — theorems on the model's own arrays that close the former `not_yet_proved` items:

  * `get_mean_eq_only_mean`   : `Krige.get_mean(post_process=False)` (the einsum `cond · M · e_n`) is what the kernel
                                returns for an `only_mean` right-hand side (no drifts); constants are reproduced;
  * `reproduces_drift`        : unbiased / drift variants reproduce every function in the span of their drift
                                functions (and the constant), stated on `assembleK` / `assembleRHS` / `krigeCond`;
                                the target-side detour `anisometrize ∘ isometrize` (finding D16) is an explicit hypothesis;
  * `structured_eq_unstructured` : the structured call is the unstructured call on `generate_grid(axes)`, reshaped
                                (kriging is pointwise: `target_local` + `Grid.structured_eq_unstructured`), law-free.
-/
import GSV.Props.C05
import GSV.Props.Grid
namespace GSV.Props.C05
open GSV GSV.Props GSV.Model.Krige GSV.Krigesum Finset Matrix

set_option linter.unusedSectionVars false
set_option linter.unusedVariables false

/-! ## `get_mean` = the `only_mean` field -/

theorem matVec_range (M rhs : Nat → Nat → ℝ) (s i p : Nat) :
    matVec M rhs s i p = ∑ j ∈ range s, M i j * rhs j p := by
  unfold matVec
  rw [forRange_cast_zero_add_eq_sum]

theorem fieldCell_range (M rhs : Nat → Nat → ℝ) (cond : Nat → ℝ) (s p : Nat) :
    krigeFieldCell M rhs cond s p ((0:Nat):ℝ) = ∑ i ∈ range s, cond i * ∑ j ∈ range s, M i j * rhs j p := by
  unfold krigeFieldCell
  rw [forRange_cast_zero_add_eq_sum]
  simp only [matVec_range]

theorem getMeanUnb_range (L : Layout) (M : Nat → Nat → ℝ) (cond : Nat → ℝ) :
    getMeanUnb L M cond = ∑ i ∈ range L.size, cond i * M i L.n := by
  unfold getMeanUnb
  rw [forRange_cast_zero_add_eq_sum]

/-- the `only_mean` right-hand side of an unbiased system without drifts is the unit vector `e_n` -/
theorem onlyMean_rhs_unb (L : Layout) (hu : L.unb = true) (hnf : L.nf = 0) (hne : L.ne = 0)
    (c f e : Nat → Nat → ℝ) (j p : Nat) (hj : j < L.size) :
    assembleRHS L true c f e j p = if j = L.n then 1 else 0 := by
  have hs : L.size = L.n + 1 := by simp [Layout.size, Layout.u, hu, hnf, hne]
  unfold assembleRHS
  by_cases h : j < L.n
  · have : j ≠ L.n := by omega
    simp [h, this]
  · have : j = L.n := by omega
    simp [hu, this]

/-- **`get_mean` = `only_mean`** (ordinary kriging, no drifts; ANY matrix `M`, no inverse hypothesis): the kernel run
    on the `only_mean` right-hand side returns at EVERY target the value `cond · M · e_n` that `get_mean` computes by
    `einsum`, i.e. the constant-mean shortcut of `Krige.__call__` is what the general path would have produced. -/
theorem get_mean_eq_only_mean (L : Layout) (hu : L.unb = true) (hnf : L.nf = 0) (hne : L.ne = 0)
    (M : Nat → Nat → ℝ) (c f e : Nat → Nat → ℝ) (cond : Nat → ℝ) (p : Nat) :
    krigeFieldCell M (assembleRHS L true c f e) cond L.size p ((0:Nat):ℝ) = getMeanUnb L M cond := by
  have hn : L.n < L.size := by simp [Layout.size, Layout.u, hu]; omega
  rw [fieldCell_range, getMeanUnb_range]
  apply Finset.sum_congr rfl
  intro i _
  congr 1
  rw [Finset.sum_eq_single_of_mem L.n (Finset.mem_range.mpr hn)]
  · rw [onlyMean_rhs_unb L hu hnf hne c f e L.n p hn]; simp
  · intro j hj hjn
    rw [onlyMean_rhs_unb L hu hnf hne c f e j p (Finset.mem_range.mp hj)]; simp [hjn]

/-- simple kriging (no unbiasedness row, no drifts): the `only_mean` field is `0`, the value `get_mean` returns raw
    (`res = 0.0`; the given mean is added by the post-processing) -/
theorem only_mean_simple (L : Layout) (hu : L.unb = false) (hnf : L.nf = 0) (hne : L.ne = 0)
    (M : Nat → Nat → ℝ) (c f e : Nat → Nat → ℝ) (cond : Nat → ℝ) (p : Nat) :
    krigeFieldCell M (assembleRHS L true c f e) cond L.size p ((0:Nat):ℝ) = 0 := by
  have hs : L.size = L.n := by simp [Layout.size, Layout.u, hu, hnf, hne]
  rw [fieldCell_range]
  apply Finset.sum_eq_zero
  intro i _
  have : ∑ j ∈ range L.size, M i j * assembleRHS L true c f e j p = 0 := by
    apply Finset.sum_eq_zero
    intro j hj
    have hj' : j < L.n := by rw [← hs]; exact Finset.mem_range.mp hj
    simp [assembleRHS, hj']
  rw [this, mul_zero]

/-- the same through the model of the call path (`only_mean` forces the field-only kernel): every target of an
    `only_mean` call carries `get_mean` — any chunk size, any admissible schedule -/
theorem get_mean_eq_only_mean_call (sched : Sched) (hs : sched.Admissible) (L : Layout) (hu : L.unb = true)
    (hnf : L.nf = 0) (hne : L.ne = 0) (M : Nat → Nat → ℝ) (c f e : Nat → Nat → ℝ) (cond : Nat → ℝ)
    (pnt cs p : Nat) (hcs : 0 < cs) (hp : p < pnt) :
    krigeCallField sched L M (assembleRHS L true c f e) cond pnt cs p = getMeanUnb L M cond := by
  rw [krigeCallField_eq sched hs L M _ cond pnt cs p hcs hp]
  exact get_mean_eq_only_mean L hu hnf hne M c f e cond p

/-- the layout hypotheses are those of `Ordinary` kriging: e.g. three conditioning points, size 4, mean row 3 -/
example : (⟨3, true, 0, 0⟩ : Layout).unb = true ∧ (⟨3, true, 0, 0⟩ : Layout).nf = 0 ∧ (⟨3, true, 0, 0⟩ : Layout).ne = 0 ∧
    (⟨3, true, 0, 0⟩ : Layout).size = 4 := ⟨rfl, rfl, rfl, rfl⟩

/-- `get_mean` of constant (prepared) data is that constant, whenever `M` inverts the assembled matrix -/
theorem get_mean_constant (L : Layout) (hu : L.unb = true) (hnf : L.nf = 0) (hne : L.ne = 0)
    (C : Nat → Nat → ℝ) (err : Nat → ℝ) (F E : Nat → Nat → ℝ) (hC : ∀ i j, C i j = C j i) (M : Nat → Nat → ℝ)
    (hMK : toMat L.size M * toMat L.size (assembleK L C err F E) = 1) (valn mean : Nat → ℝ) (a : ℝ)
    (hconst : ∀ i, i < L.n → valn i - mean i = a) :
    getMeanUnb L M (krigeCond L valn mean) = a := by
  rw [← get_mean_eq_only_mean L hu hnf hne M (fun _ _ => 0) (fun _ _ => 0) (fun _ _ => 0) _ 0]
  exact reproduces_constants L hu C err F E hC true _ _ _ M hMK valn mean a hconst 0

/-! ## drift reproduction on the model's arrays -/

section span
variable {s : Nat} (K M : Matrix (Fin s) (Fin s) ℝ) (z k : Fin s → ℝ)

/-- **span reproduction**: data in the column space of a symmetric `K`, `z = K b`, are estimated as `b · k` -/
theorem reproduces_span (hMK : M * K = 1) (hK : K.IsSymm) (b : Fin s → ℝ) (hz : z = K *ᵥ b) :
    z ⬝ᵥ (M *ᵥ k) = b ⬝ᵥ k := by
  have hKM : K * M = 1 := mul_eq_one_comm.mp hMK
  rw [hz, ← vecMul_transpose, ← dotProduct_mulVec, hK.eq, mulVec_mulVec, hKM, one_mulVec]

end span

/-- coefficients on the border rows: `a` on the unbiasedness row, `b r` on functional-drift row `r`, `d r` on
    external-drift row `r`, zero on the data rows -/
def driftCoef (L : Layout) (a : ℝ) (b d : Nat → ℝ) : Nat → ℝ := fun r =>
  if L.unb ∧ r = L.n then a
  else if L.fStart ≤ r ∧ r < L.eStart then b (r - L.fStart)
  else if L.eStart ≤ r ∧ r < L.size then d (r - L.eStart)
  else 0

theorem layout_facts (L : Layout) :
    L.size = L.n + L.u + L.nf + L.ne ∧ L.fStart = L.n + L.u ∧ L.eStart = L.n + L.u + L.nf ∧
    ((L.unb = true ∧ L.u = 1) ∨ (L.unb = false ∧ L.u = 0)) := by
  refine ⟨rfl, ?_, ?_, ?_⟩
  · simp only [Layout.fStart, Layout.size]; omega
  · simp only [Layout.eStart, Layout.size]; omega
  · cases h : L.unb <;> simp [Layout.u, h]

/-- a sum against `driftCoef` splits into the unbiasedness term, the functional and the external drift sums -/
theorem driftCoef_sum (L : Layout) (a : ℝ) (b d : Nat → ℝ) (g : Nat → ℝ) :
    ∑ r ∈ range L.size, driftCoef L a b d r * g r =
      (if L.unb then a * g L.n else 0) + ∑ r ∈ range L.nf, b r * g (L.fStart + r) + ∑ r ∈ range L.ne, d r * g (L.eStart + r) := by
  obtain ⟨hsz, hfs, hes, hu⟩ := layout_facts L
  rw [hsz, Finset.sum_range_add, Finset.sum_range_add, Finset.sum_range_add]
  have h0 : ∑ r ∈ range L.n, driftCoef L a b d r * g r = 0 := by
    apply Finset.sum_eq_zero
    intro r hr
    have hr' : r < L.n := Finset.mem_range.mp hr
    have h1 : ¬ (L.n + L.u ≤ r) := by omega
    have h2 : ¬ (L.n + L.u + L.nf ≤ r) := by omega
    have h3 : r ≠ L.n := by omega
    simp [driftCoef, hfs, hes, h1, h2, h3]
  have h1 : ∑ x ∈ range L.u, driftCoef L a b d (L.n + x) * g (L.n + x) = (if L.unb then a * g L.n else 0) := by
    rcases hu with ⟨hu, hu1⟩ | ⟨hu, hu1⟩
    · simp [hu1, hu, driftCoef]
    · simp [hu1, hu]
  have h2 : ∑ x ∈ range L.nf, driftCoef L a b d (L.n + L.u + x) * g (L.n + L.u + x) =
      ∑ r ∈ range L.nf, b r * g (L.fStart + r) := by
    apply Finset.sum_congr rfl
    intro x hx
    have hx' : x < L.nf := Finset.mem_range.mp hx
    have e1 : ¬ (L.unb = true ∧ L.n + L.u + x = L.n) := by
      rcases hu with ⟨hu, hu1⟩ | ⟨hu, hu1⟩
      · intro h; omega
      · simp [hu]
    have e2 : L.n + L.u + x < L.n + L.u + L.nf := by omega
    simp only [driftCoef, hfs, hes, e1, if_false]
    simp [e2]
  have h3 : ∑ x ∈ range L.ne, driftCoef L a b d (L.n + L.u + L.nf + x) * g (L.n + L.u + L.nf + x) =
      ∑ r ∈ range L.ne, d r * g (L.eStart + r) := by
    apply Finset.sum_congr rfl
    intro x hx
    have hx' : x < L.ne := Finset.mem_range.mp hx
    have e1 : ¬ (L.unb = true ∧ L.n + L.u + L.nf + x = L.n) := by
      rcases hu with ⟨hu, hu1⟩ | ⟨hu, hu1⟩
      · intro h; omega
      · simp [hu]
    have e2 : ¬ (L.n + L.u + L.nf + x < L.n + L.u + L.nf) := by omega
    have e3 : L.n + L.u + L.nf + x < L.n + L.u + L.nf + L.ne := by omega
    simp only [driftCoef, hfs, hes, hsz, e1, if_false, e2, and_false]
    simp [e3]
  rw [h0, h1, h2, h3, zero_add]

/-- entries of the assembled matrix in a data row `i < n`: the border columns carry `1`, `F r i`, `E r i` -/
theorem assembleK_border (L : Layout) (C : Nat → Nat → ℝ) (err : Nat → ℝ) (F E : Nat → Nat → ℝ) (i : Nat) (hi : i < L.n) :
    (L.unb = true → assembleK L C err F E i L.n = 1) ∧
    (∀ r, r < L.nf → assembleK L C err F E i (L.fStart + r) = F r i) ∧
    (∀ r, r < L.ne → assembleK L C err F E i (L.eStart + r) = E r i) := by
  obtain ⟨hsz, hfs, hes, hu⟩ := layout_facts L
  have h2 : ¬ L.n ≤ i := by omega
  refine ⟨?_, ?_, ?_⟩
  · intro hu'
    simp [assembleK, border, hu', h2]
  · intro r hr
    have h1 : ¬ (L.n + L.u + r < L.n) := by omega
    have h3 : ¬ (L.unb = true ∧ L.n + L.u + r = L.n) := by
      rcases hu with ⟨hu, hu1⟩ | ⟨hu, hu1⟩
      · intro h; omega
      · simp [hu]
    have h4 : L.n + L.u + r < L.n + L.u + L.nf := by omega
    simp only [assembleK, border, hfs, hes, h1, h2, h3, and_false, false_and, if_false]
    simp [h4]
  · intro r hr
    have h1 : ¬ (L.n + L.u + L.nf + r < L.n) := by omega
    have h3 : ¬ (L.unb = true ∧ L.n + L.u + L.nf + r = L.n) := by
      rcases hu with ⟨hu, hu1⟩ | ⟨hu, hu1⟩
      · intro h; omega
      · simp [hu]
    have h4 : ¬ (L.n + L.u + L.nf + r < L.n + L.u + L.nf) := by omega
    have h5 : L.n + L.u + L.nf + r < L.n + L.u + L.nf + L.ne := by omega
    simp only [assembleK, border, hfs, hes, hsz, h1, h2, h3, h4, and_false, false_and, if_false]
    simp [h5]

/-- the matching entries of every right-hand side: `1`, `f r p`, `e r p` -/
theorem assembleRHS_border (L : Layout) (om : Bool) (c f e : Nat → Nat → ℝ) (p : Nat) :
    (L.unb = true → assembleRHS L om c f e L.n p = 1) ∧
    (∀ r, r < L.nf → assembleRHS L om c f e (L.fStart + r) p = f r p) ∧
    (∀ r, r < L.ne → assembleRHS L om c f e (L.eStart + r) p = e r p) := by
  obtain ⟨hsz, hfs, hes, hu⟩ := layout_facts L
  refine ⟨?_, ?_, ?_⟩
  · intro hu'
    simp [assembleRHS, hu']
  · intro r hr
    have h1 : ¬ (L.n + L.u + r < L.n) := by omega
    have h3 : ¬ (L.unb = true ∧ L.n + L.u + r = L.n) := by
      rcases hu with ⟨hu, hu1⟩ | ⟨hu, hu1⟩
      · intro h; omega
      · simp [hu]
    have h4 : L.n + L.u + r < L.n + L.u + L.nf := by omega
    simp only [assembleRHS, hfs, hes, h1, h3, if_false]
    simp [h4]
  · intro r hr
    have h1 : ¬ (L.n + L.u + L.nf + r < L.n) := by omega
    have h3 : ¬ (L.unb = true ∧ L.n + L.u + L.nf + r = L.n) := by
      rcases hu with ⟨hu, hu1⟩ | ⟨hu, hu1⟩
      · intro h; omega
      · simp [hu]
    have h4 : ¬ (L.n + L.u + L.nf + r < L.n + L.u + L.nf) := by omega
    have h5 : L.n + L.u + L.nf + r < L.n + L.u + L.nf + L.ne := by omega
    simp only [assembleRHS, hfs, hes, hsz, h1, h3, h4, and_false, if_false]
    simp [h5]

/-- **drift reproduction on the model's arrays** — every variant (ordinary, universal, external drift, generic class
    with or without unbiasedness row, any numbers of drifts): if the prepared data are, at every conditioning point,
    the combination `a·[unbiased] + Σ_r b_r F_r(x_i) + Σ_r d_r E_r(x_i)` of the system's own border columns, the
    estimate at any target is the same combination `a·[unbiased] + Σ_r b_r f_r(p) + Σ_r d_r e_r(p)` of the TARGET
    drift values the right-hand side carries.  Holds for the full and the `only_mean` right-hand side. -/
theorem reproduces_drift (L : Layout) (C : Nat → Nat → ℝ) (err : Nat → ℝ) (F E : Nat → Nat → ℝ)
    (hC : ∀ i j, C i j = C j i) (om : Bool) (c f e : Nat → Nat → ℝ) (M : Nat → Nat → ℝ)
    (hMK : toMat L.size M * toMat L.size (assembleK L C err F E) = 1) (valn mean : Nat → ℝ)
    (a : ℝ) (b d : Nat → ℝ)
    (hdata : ∀ i, i < L.n → valn i - mean i =
      (if L.unb then a else 0) + ∑ r ∈ range L.nf, b r * F r i + ∑ r ∈ range L.ne, d r * E r i) (p : Nat) :
    krigeFieldCell M (assembleRHS L om c f e) (krigeCond L valn mean) L.size p ((0:Nat):ℝ) =
      (if L.unb then a else 0) + ∑ r ∈ range L.nf, b r * f r p + ∑ r ∈ range L.ne, d r * e r p := by
  rw [field_eq_bilinear]
  have hz : toVec L.size (krigeCond L valn mean) =
      toMat L.size (assembleK L C err F E) *ᵥ toVec L.size (driftCoef L a b d) := by
    funext i
    simp only [mulVec, dotProduct, toVec, toMat]
    rw [← Finset.sum_range (fun j => assembleK L C err F E i j * driftCoef L a b d j)]
    simp only [mul_comm (assembleK L C err F E _ _)]
    rw [driftCoef_sum]
    by_cases hi : (i : Nat) < L.n
    · obtain ⟨h1, h2, h3⟩ := assembleK_border L C err F E i hi
      have s1 : ∑ r ∈ range L.nf, b r * assembleK L C err F E i (L.fStart + r) = ∑ r ∈ range L.nf, b r * F r i :=
        Finset.sum_congr rfl (fun r hr => by rw [h2 r (Finset.mem_range.mp hr)])
      have s2 : ∑ r ∈ range L.ne, d r * assembleK L C err F E i (L.eStart + r) = ∑ r ∈ range L.ne, d r * E r i :=
        Finset.sum_congr rfl (fun r hr => by rw [h3 r (Finset.mem_range.mp hr)])
      rw [s1, s2]
      simp only [krigeCond, hi, if_true, hdata i hi]
      congr 2
      by_cases hu : L.unb = true
      · simp [hu, h1 hu]
      · simp [hu]
    · have hni : L.n ≤ (i : Nat) := by omega
      have hz0 : ∀ j, L.n ≤ j → assembleK L C err F E i j = 0 := by
        intro j hj
        have h1 : ¬ ((i : Nat) < L.n ∧ j < L.n) := by omega
        simp [assembleK, h1, hni, hj]
      have hf : L.n ≤ L.fStart := by simp only [Layout.fStart, Layout.size]; omega
      have he : L.n ≤ L.eStart := by simp only [Layout.eStart, Layout.size]; omega
      have s1 : ∑ r ∈ range L.nf, b r * assembleK L C err F E i (L.fStart + r) = 0 :=
        Finset.sum_eq_zero (fun r _ => by rw [hz0 (L.fStart + r) (by omega), mul_zero])
      have s2 : ∑ r ∈ range L.ne, d r * assembleK L C err F E i (L.eStart + r) = 0 :=
        Finset.sum_eq_zero (fun r _ => by rw [hz0 (L.eStart + r) (by omega), mul_zero])
      rw [s1, s2, hz0 L.n (le_refl _)]
      simp [krigeCond, hi]
  rw [reproduces_span (toMat L.size (assembleK L C err F E)) (toMat L.size M) _ _ hMK
    (by ext i j; exact assembleK_symm L C err F E hC j i) _ hz]
  simp only [dotProduct, toVec, col]
  rw [← Finset.sum_range (fun j => driftCoef L a b d j * assembleRHS L om c f e j p), driftCoef_sum]
  obtain ⟨h1, h2, h3⟩ := assembleRHS_border L om c f e p
  have s1 : ∑ r ∈ range L.nf, b r * assembleRHS L om c f e (L.fStart + r) p = ∑ r ∈ range L.nf, b r * f r p :=
    Finset.sum_congr rfl (fun r hr => by rw [h2 r (Finset.mem_range.mp hr)])
  have s2 : ∑ r ∈ range L.ne, d r * assembleRHS L om c f e (L.eStart + r) p = ∑ r ∈ range L.ne, d r * e r p :=
    Finset.sum_congr rfl (fun r hr => by rw [h3 r (Finset.mem_range.mp hr)])
  rw [s1, s2]
  congr 2
  by_cases hu : L.unb = true
  · simp [hu, h1 hu]
  · simp [hu]

/-- **drift FUNCTIONS are reproduced** — with the code's detour made explicit.  `φ r` are the drift functions on a
    position type `P`, `x i` the conditioning positions (used raw in the matrix: `F r i = φ r (x i)`), `y p` the
    targets.  The code evaluates the target drift at `detour (y p)` with `detour = anisometrize ∘ isometrize`
    (`_get_krige_vecs`), so the right-hand side is `f r p = φ r (detour (y p))`.  Under the hypothesis that the
    detour returns the target itself (C12/C13 prove it except for wrapped longitudes, finding D16), data that are
    `a·[unbiased] + Σ b_r φ_r(x_i) + Σ d_r E_r(x_i)` give the estimate `a·[unbiased] + Σ b_r φ_r(y_p) + Σ d_r e_r(p)`. -/
theorem reproduces_drift_functions {P : Type} (φ : Nat → P → ℝ) (x y : Nat → P) (detour : P → P)
    (L : Layout) (C : Nat → Nat → ℝ) (err : Nat → ℝ) (E : Nat → Nat → ℝ)
    (hC : ∀ i j, C i j = C j i) (om : Bool) (c e : Nat → Nat → ℝ) (M : Nat → Nat → ℝ)
    (hMK : toMat L.size M * toMat L.size (assembleK L C err (fun r i => φ r (x i)) E) = 1) (valn mean : Nat → ℝ)
    (a : ℝ) (b d : Nat → ℝ)
    (hdata : ∀ i, i < L.n → valn i - mean i =
      (if L.unb then a else 0) + ∑ r ∈ range L.nf, b r * φ r (x i) + ∑ r ∈ range L.ne, d r * E r i)
    (p : Nat) (hdetour : detour (y p) = y p) :
    krigeFieldCell M (assembleRHS L om c (fun r q => φ r (detour (y q))) e) (krigeCond L valn mean) L.size p ((0:Nat):ℝ) =
      (if L.unb then a else 0) + ∑ r ∈ range L.nf, b r * φ r (y p) + ∑ r ∈ range L.ne, d r * e r p := by
  rw [reproduces_drift L C err (fun r i => φ r (x i)) E hC om c _ e M hMK valn mean a b d hdata p, hdetour]

/-- hypotheses satisfiable by a non-trivial universal-kriging system: two points at `x = 0, 1`, covariance `1`,
    one linear drift `φ(x) = x`, unbiasedness row; the explicit inverse of the `4×4` matrix -/
example : ∃ (K M : Matrix (Fin 4) (Fin 4) ℝ), M * K = 1 ∧ K.IsSymm ∧
    K = toMat 4 (assembleK ⟨2, true, 1, 0⟩ (fun i j => if i = j then 1 else 0) (fun _ => 0)
      (fun _ i => (i : ℝ)) (fun _ _ => 0)) := by
  refine ⟨!![1, 0, 1, 0; 0, 1, 1, 1; 1, 1, 0, 0; 0, 1, 0, 0], !![0, 0, 1, -1; 0, 0, 0, 1; 1, 0, -1, 1; -1, 1, 1, -2],
    ?_, ?_, ?_⟩
  · ext i j; fin_cases i <;> fin_cases j <;> simp [Matrix.mul_apply, Fin.sum_univ_four] <;> norm_num
  · ext i j; fin_cases i <;> fin_cases j <;> rfl
  · ext i j
    fin_cases i <;> fin_cases j <;>
      simp [toMat, assembleK, border, Layout.fStart, Layout.eStart, Layout.size, Layout.u]

/-! ## structured = unstructured (law-free: holds for IEEE doubles bit-for-bit) -/
section grid
variable {α : Type} [Arith α] [Transc α] [DecidableLT α] [DecidableLE α] [Inhabited α]
open GSV.Model.Grid

/-- right-hand sides of a target list: column `q` is a function `colOf` of the `q`-th target point alone
    (covariances to the conditioning points and drift values AT that point) -/
def rhsOf (colOf : List α → Nat → α) (pts : List (List α)) : Nat → Nat → α :=
  fun i q => colOf (pts.getD q default) i

/-- kriging is pointwise: the value at target `q` of a call on the point list `pts` is a function of `pts[q]` alone -/
theorem krigeCall_pointwise (sched : Sched) (hs : sched.Admissible) (L : Layout) (M : Nat → Nat → α) (cond : Nat → α)
    (sill : α) (colOf : List α → Nat → α) (pts : List (List α)) (cs q : Nat) (hcs : 0 < cs) (hq : q < pts.length) :
    (krigeCall sched L M (rhsOf colOf pts) cond sill pts.length cs).1 q =
      (pts.map fun pt => krigeFieldCell M (fun i _ => colOf pt i) cond L.size 0 ((0:Nat):α))[q]'(by simpa using hq) ∧
    (krigeCall sched L M (rhsOf colOf pts) cond sill pts.length cs).2 q =
      (pts.map fun pt => clipVar sill (krigeErrCell M (fun i _ => colOf pt i) L.size 0 ((0:Nat):α)))[q]'(by simpa using hq) := by
  rw [krigeCall_field sched hs L M _ cond sill _ cs q hcs hq, krigeCall_var sched hs L M _ cond sill _ cs q hcs hq,
    List.getElem_map, List.getElem_map]
  have h : ∀ j, rhsOf colOf pts j q = (fun i (_ : Nat) => colOf pts[q] i) j 0 := by
    intro j
    simp [rhsOf, List.getD_eq_getElem?_getD, List.getElem?_eq_getElem hq]
  obtain ⟨h1, h2⟩ := target_local M (rhsOf colOf pts) (fun i _ => colOf pts[q] i) cond L.size q 0 h ((0:Nat):α)
  rw [h1, h2]
  exact ⟨rfl, rfl⟩

/-- **structured = unstructured for the kriging call path.**  The structured call runs the call loop on
    `generate_grid(axes)` (`genGrid`, meshgrid `ij`, C order) and reshapes the flat field / variance to the grid
    shape; the entry of the reshaped array at the multi-index `is` is the flat entry at `encode dims is`.  That
    entry is the pointwise kriging estimate / clipped variance at the grid point with axis coordinates `is`
    (`pointAt axes is`) — every dimension, every axis length, every chunk size, every admissible schedule. -/
theorem structured_eq_unstructured (sched : Sched) (hs : sched.Admissible) (L : Layout) (M : Nat → Nat → α)
    (cond : Nat → α) (sill : α) (colOf : List α → Nat → α) (axes : List (List α)) (is : List Nat)
    (h : Valid (axes.map List.length) is) (cs : Nat) (hcs : 0 < cs) :
    (krigeCall sched L M (rhsOf colOf (genGrid axes)) cond sill (genGrid axes).length cs).1 (encode (axes.map List.length) is) =
      krigeFieldCell M (fun i _ => colOf (pointAt axes is) i) cond L.size 0 ((0:Nat):α) ∧
    (krigeCall sched L M (rhsOf colOf (genGrid axes)) cond sill (genGrid axes).length cs).2 (encode (axes.map List.length) is) =
      clipVar sill (krigeErrCell M (fun i _ => colOf (pointAt axes is) i) L.size 0 ((0:Nat):α)) := by
  have hq : encode (axes.map List.length) is < (genGrid axes).length := by
    rw [Grid.genGrid_length]; exact Grid.encode_lt h
  obtain ⟨h1, h2⟩ := krigeCall_pointwise sched hs L M cond sill colOf (genGrid axes) cs _ hcs hq
  rw [h1, h2]
  exact ⟨Grid.structured_eq_unstructured _ axes is h, Grid.structured_eq_unstructured _ axes is h⟩

/-- … and therefore equals the UNSTRUCTURED call on any point list `pts` at any position `q` holding that grid point
    (in particular the expanded list itself, or the single point), for any other chunk size and schedule -/
theorem structured_eq_unstructured_call (s₁ s₂ : Sched) (h₁ : s₁.Admissible) (h₂ : s₂.Admissible) (L : Layout)
    (M : Nat → Nat → α) (cond : Nat → α) (sill : α) (colOf : List α → Nat → α) (axes : List (List α)) (is : List Nat)
    (h : Valid (axes.map List.length) is) (c₁ c₂ : Nat) (hc₁ : 0 < c₁) (hc₂ : 0 < c₂)
    (pts : List (List α)) (q : Nat) (hq : q < pts.length) (hpt : pts[q] = pointAt axes is) :
    (krigeCall s₁ L M (rhsOf colOf (genGrid axes)) cond sill (genGrid axes).length c₁).1 (encode (axes.map List.length) is) =
      (krigeCall s₂ L M (rhsOf colOf pts) cond sill pts.length c₂).1 q ∧
    (krigeCall s₁ L M (rhsOf colOf (genGrid axes)) cond sill (genGrid axes).length c₁).2 (encode (axes.map List.length) is) =
      (krigeCall s₂ L M (rhsOf colOf pts) cond sill pts.length c₂).2 q := by
  obtain ⟨a1, a2⟩ := structured_eq_unstructured s₁ h₁ L M cond sill colOf axes is h c₁ hc₁
  obtain ⟨b1, b2⟩ := krigeCall_pointwise s₂ h₂ L M cond sill colOf pts c₂ q hc₂ hq
  rw [a1, a2, b1, b2, List.getElem_map, List.getElem_map, hpt]
  exact ⟨rfl, rfl⟩

end grid

/-- non-vacuity: a 2 × 3 grid has the valid multi-index (1, 2), flat position 5 -/
example : GSV.Model.Grid.Valid ([[10, 20], [1, 2, 3]].map List.length) [1, 2] ∧
    GSV.Model.Grid.encode ([[10, 20], [1, 2, 3]].map List.length) [1, 2] = 5 := by
  simp [GSV.Model.Grid.Valid, GSV.Model.Grid.encode]

end GSV.Props.C05

