/-
  C01 — the Monte-Carlo rate of the randomization method.

  `C01.cov_given_modes` says that, conditional on the wave vectors, the covariance of the generated field between two
  points with lag `r` is `(var/N) Σ_j c_j`, `c_j = cos⟨k_j, r⟩`; `C01.mc_unbiased` says that its expectation over the wave
  vectors is `var·ρ(r)` when each `k_j` has the spectral measure as its law.  Here: the mean squared deviation of that
  conditional covariance from `var·ρ(r)`, over pairwise uncorrelated wave vectors (independent draws are such), is
  EXACTLY `(var/N)² Σ_j Var(c_j)` and therefore at most `var²/N` — "the error shrinks like `1/√N`".
  The only facts used about the `c_j` are: measurable, `|c_j| ≤ 1` (a cosine), mean `ρ`, pairwise uncorrelated.
-/
import GSV.Props.C01
import Mathlib.MeasureTheory.Integral.Bochner.Basic
import Mathlib.MeasureTheory.Measure.Typeclasses.Probability
import Mathlib.MeasureTheory.Integral.IntegrableOn
import Mathlib.Tactic.Ring
import Mathlib.Tactic.Linarith
import Mathlib.Tactic.FieldSimp
import Mathlib.Tactic.Positivity
namespace GSV.Props.C01Rate
open Finset MeasureTheory

variable {Ω : Type} [MeasurableSpace Ω]

/-- a product of two bounded measurable functions is integrable on a finite measure -/
theorem integrable_mul_of_bound (μ : Measure Ω) [IsFiniteMeasure μ] (f g : Ω → ℝ) (A B : ℝ)
    (hf : AEStronglyMeasurable f μ) (hg : AEStronglyMeasurable g μ)
    (hfb : ∀ ω, |f ω| ≤ A) (hgb : ∀ ω, |g ω| ≤ B) : Integrable (fun ω => f ω * g ω) μ := by
  refine Integrable.of_bound (hf.mul hg) (A * B) (Filter.Eventually.of_forall fun ω => ?_)
  rw [Real.norm_eq_abs, abs_mul]
  exact mul_le_mul (hfb ω) (hgb ω) (abs_nonneg _) ((abs_nonneg _).trans (hfb ω))

/-- second moment of a sum of pairwise uncorrelated centred variables -/
theorem integral_sq_sum_uncorrelated (μ : Measure Ω) (N : Nat) (d : Nat → Ω → ℝ)
    (hint : ∀ i < N, ∀ j < N, Integrable (fun ω => d i ω * d j ω) μ)
    (hunc : ∀ i < N, ∀ j < N, i ≠ j → ∫ ω, d i ω * d j ω ∂μ = 0) :
    ∫ ω, (∑ j ∈ range N, d j ω) ^ 2 ∂μ = ∑ j ∈ range N, ∫ ω, d j ω ^ 2 ∂μ := by
  have hsq : ∀ ω, (∑ j ∈ range N, d j ω) ^ 2 = ∑ i ∈ range N, ∑ j ∈ range N, d i ω * d j ω := by
    intro ω; rw [sq, sum_mul_sum]
  simp only [hsq]
  rw [integral_finsetSum _ fun i hi => integrable_finsetSum _ fun j hj => hint i (mem_range.mp hi) j (mem_range.mp hj)]
  refine sum_congr rfl fun i hi => ?_
  rw [integral_finsetSum _ fun j hj => hint i (mem_range.mp hi) j (mem_range.mp hj)]
  have : ∀ j ∈ range N, ∫ ω, d i ω * d j ω ∂μ = if i = j then ∫ ω, d i ω ^ 2 ∂μ else 0 := by
    intro j hj
    split
    · rename_i h; subst h; simp only [sq]
    · rename_i h; exact hunc i (mem_range.mp hi) j (mem_range.mp hj) h
  rw [sum_congr rfl this, sum_ite_eq, if_pos hi]

/-- **exact mean squared error of the Monte-Carlo covariance**: for pairwise uncorrelated `c_j` (`= cos⟨k_j, r⟩`) with common
    mean `ρ`, `E[((var/N) Σ_j c_j − var ρ)²] = (var/N)² Σ_j E[(c_j − ρ)²]` -/
theorem mc_mse_exact (μ : Measure Ω) [IsProbabilityMeasure μ] (var ρr : ℝ) (N : Nat) (hN : 0 < N) (c : Nat → Ω → ℝ)
    (hmeas : ∀ j < N, AEStronglyMeasurable (c j) μ) (hb : ∀ j < N, ∀ ω, |c j ω| ≤ 1)
    (hunc : ∀ i < N, ∀ j < N, i ≠ j → ∫ ω, (c i ω - ρr) * (c j ω - ρr) ∂μ = 0) :
    ∫ ω, (var / N * ∑ j ∈ range N, c j ω - var * ρr) ^ 2 ∂μ =
      (var / N) ^ 2 * ∑ j ∈ range N, ∫ ω, (c j ω - ρr) ^ 2 ∂μ := by
  have hN0 : (N : ℝ) ≠ 0 := Nat.cast_ne_zero.mpr (Nat.pos_iff_ne_zero.mp hN)
  have hre : ∀ ω, (var / N * ∑ j ∈ range N, c j ω - var * ρr) ^ 2 =
      (var / N) ^ 2 * (∑ j ∈ range N, (c j ω - ρr)) ^ 2 := by
    intro ω
    rw [sum_sub_distrib, sum_const, card_range, nsmul_eq_mul]
    field_simp
  simp only [hre]
  rw [integral_const_mul]
  congr 1
  refine integral_sq_sum_uncorrelated μ N (fun j ω => c j ω - ρr) (fun i hi j hj => ?_) hunc
  refine integrable_mul_of_bound μ _ _ (1 + |ρr|) (1 + |ρr|) ((hmeas i hi).sub aestronglyMeasurable_const)
    ((hmeas j hj).sub aestronglyMeasurable_const) (fun ω => ?_) (fun ω => ?_)
  · exact (abs_sub _ _).trans (add_le_add (hb i hi ω) le_rfl)
  · exact (abs_sub _ _).trans (add_le_add (hb j hj ω) le_rfl)

/-- the variance of a variable with values in `[-1, 1]` and mean `ρ` is at most `1` (indeed `1 − ρ²`) -/
theorem var_le_one (μ : Measure Ω) [IsProbabilityMeasure μ] (ρr : ℝ) (f : Ω → ℝ)
    (hm : AEStronglyMeasurable f μ) (hb : ∀ ω, |f ω| ≤ 1) (hchar : ∫ ω, f ω ∂μ = ρr) :
    ∫ ω, (f ω - ρr) ^ 2 ∂μ = ∫ ω, f ω ^ 2 ∂μ - ρr ^ 2 ∧ ∫ ω, (f ω - ρr) ^ 2 ∂μ ≤ 1 := by
  have hfi : Integrable f μ := by
    refine Integrable.of_bound hm 1 (Filter.Eventually.of_forall fun ω => ?_)
    rw [Real.norm_eq_abs]; exact hb ω
  have hf2 : Integrable (fun ω => f ω ^ 2) μ := by
    have := integrable_mul_of_bound μ f f 1 1 hm hm hb hb
    simpa only [sq] using this
  have hexp : ∀ ω, (f ω - ρr) ^ 2 = f ω ^ 2 - (2 * ρr * f ω - ρr ^ 2) := fun ω => by ring
  have h1 : ∫ ω, (f ω - ρr) ^ 2 ∂μ = ∫ ω, f ω ^ 2 ∂μ - ρr ^ 2 := by
    simp only [hexp]
    have hg : Integrable (fun ω => 2 * ρr * f ω - ρr ^ 2) μ := (hfi.const_mul _).sub (integrable_const _)
    rw [integral_sub hf2 hg, integral_sub (hfi.const_mul _) (integrable_const _), integral_const_mul, hchar, integral_const]
    simp only [probReal_univ, one_smul]
    ring
  refine ⟨h1, ?_⟩
  rw [h1]
  have h2 : ∫ ω, f ω ^ 2 ∂μ ≤ ∫ _ω, (1 : ℝ) ∂μ := by
    refine integral_mono hf2 (integrable_const _) fun ω => ?_
    have := hb ω
    have h3 : f ω ^ 2 = |f ω| ^ 2 := (sq_abs _).symm
    rw [h3]; exact pow_le_one₀ (abs_nonneg _) this
  rw [integral_const] at h2
  simp only [probReal_univ, one_smul] at h2
  nlinarith [sq_nonneg ρr]

/-- **the Monte-Carlo rate**: the mean squared deviation of the conditional covariance `(var/N) Σ_j cos⟨k_j, r⟩` from the model
    covariance `var·ρ(r)` is at most `var²/N` — root-mean-square error `≤ var/√N` — for every lag, dimension and model, as soon
    as the wave vectors are pairwise uncorrelated draws whose characteristic function at `r` is `ρ(r)`. -/
theorem mc_rate (μ : Measure Ω) [IsProbabilityMeasure μ] (var ρr : ℝ) (N : Nat) (hN : 0 < N) (c : Nat → Ω → ℝ)
    (hmeas : ∀ j < N, AEStronglyMeasurable (c j) μ) (hb : ∀ j < N, ∀ ω, |c j ω| ≤ 1)
    (hchar : ∀ j < N, ∫ ω, c j ω ∂μ = ρr)
    (hunc : ∀ i < N, ∀ j < N, i ≠ j → ∫ ω, (c i ω - ρr) * (c j ω - ρr) ∂μ = 0) :
    ∫ ω, (var / N * ∑ j ∈ range N, c j ω - var * ρr) ^ 2 ∂μ ≤ var ^ 2 / N := by
  have hN0 : (0 : ℝ) < N := Nat.cast_pos.mpr hN
  rw [mc_mse_exact μ var ρr N hN c hmeas hb hunc]
  have hs : ∑ j ∈ range N, ∫ ω, (c j ω - ρr) ^ 2 ∂μ ≤ ∑ _j ∈ range N, (1 : ℝ) :=
    sum_le_sum fun j hj => (var_le_one μ ρr (c j) (hmeas j (mem_range.mp hj)) (hb j (mem_range.mp hj))
      (hchar j (mem_range.mp hj))).2
  rw [sum_const, card_range, nsmul_eq_mul, mul_one] at hs
  calc (var / N) ^ 2 * ∑ j ∈ range N, ∫ ω, (c j ω - ρr) ^ 2 ∂μ
      ≤ (var / N) ^ 2 * N := mul_le_mul_of_nonneg_left hs (sq_nonneg _)
    _ = var ^ 2 / N := by field_simp

/-- the hypotheses are satisfiable (deterministic wave vectors on a one-point space: `c_j = 1/2 = ρ`, any `N > 0`) -/
example (N : Nat) (hN : 0 < N) :
    ∫ ω, ((3:ℝ) / N * ∑ j ∈ range N, (fun (_ : Nat) (_ : Unit) => (1/2 : ℝ)) j ω - 3 * (1/2)) ^ 2 ∂(Measure.dirac ()) ≤ (3:ℝ) ^ 2 / (N:ℝ) := by
  refine mc_rate (Measure.dirac ()) 3 (1/2) N hN (fun _ _ => (1/2 : ℝ)) (fun _ _ => aestronglyMeasurable_const) (fun _ _ _ => ?_)
    (fun _ _ => ?_) (fun _ _ _ _ _ => ?_)
  · rw [abs_of_nonneg] <;> norm_num
  · simp
  · simp

end GSV.Props.C01Rate
