/-
  C09 — preprocessing semantics of `vario_estimate(normalizer=…, trend=…, mean=…)`: a value that, after removing the
  trend, lies ON or BELOW the bound of the OPEN domain of a range-limited normalizer (0 for LogNormal / BoxCox, −shift for
  BoxCoxShift) is handed to the kernel as missing (`none` = NaN) — and by `C09.nan_point_no_contribution` a missing value is a
  removed value.  A value strictly inside the domain is transformed.  (Model: `GSV.Model.Norm.removeTNM`, tied to
  `remove_trend_norm_mean` by the C18 correspondence and, for the estimator's own call, by the C09 correspondence.)
-/
import GSV.RealInst
import GSV.Model.Norm
import Mathlib.Tactic.Linarith
import Mathlib.Tactic.NormNum
namespace GSV.Props.C09Domain
open GSV GSV.Transc GSV.Model.Norm

/-- over ℝ nothing is infinite -/
theorem isinf_real (x : ℝ) : isinf x = false := by simp [isinf]

/-- the lower bound of the domain is excluded: the interval is open -/
theorem on_lower_bound_invalid (r : Rng ℝ) (l : ℝ) (h : r.lo = some l) : valid r l = false := by
  obtain ⟨lo, hi⟩ := r
  simp only at h
  subst h
  cases hi <;> simp [valid, inRange]

/-- … and so is everything below it -/
theorem below_lower_bound_invalid (r : Rng ℝ) (l x : ℝ) (h : r.lo = some l) (hx : x ≤ l) : valid r x = false := by
  obtain ⟨lo, hi⟩ := r
  simp only at h
  subst h
  cases hi <;> simp [valid, inRange, not_lt.mpr hx]

/-- strictly above a lower bound of a half-line the datum is valid -/
theorem above_lower_bound_valid (l x : ℝ) (hx : l < x) : valid (⟨some l, none⟩ : Rng ℝ) x = true := by
  simp [valid, inRange, isinf_real, hx]

/-- the lower domain bound of the three range-limited normalizers -/
noncomputable def lowerBound (k : Kind) (p : Par ℝ) : Option ℝ := (normRange k p).lo

theorem lowerBound_logNormal (p : Par ℝ) : lowerBound .logNormal p = some 0 := by simp [lowerBound, normRange]
theorem lowerBound_boxCox (p : Par ℝ) : lowerBound .boxCox p = some 0 := by simp [lowerBound, normRange]
theorem lowerBound_boxCoxShift (p : Par ℝ) : lowerBound .boxCoxShift p = some (-p.shift) := by simp [lowerBound, normRange]

/-- `normalize` of a value on or below the open bound is missing -/
theorem normalize_at_or_below_bound (k : Kind) (p : Par ℝ) (l x : ℝ) (h : lowerBound k p = some l) (hx : x ≤ l) :
    Model.Norm.normalize k p x = none := by
  unfold Model.Norm.normalize
  rw [below_lower_bound_invalid (normRange k p) l x h hx]
  simp

/-- the estimator's preprocessing `normalize(field − trend) − mean`: a value whose DETRENDED part is on or below the bound is
    missing, whatever trend and mean are -/
theorem removeTNM_at_or_below_bound (k : Kind) (p : Par ℝ) (l mean trend v : ℝ) (h : lowerBound k p = some l)
    (hv : v - trend ≤ l) : removeTNM k p mean trend v = none := by
  unfold removeTNM
  rw [normalize_at_or_below_bound k p l (v - trend) h hv]
  rfl

/-- exact zeros under LogNormal / BoxCox (the rainfall case) are missing -/
theorem zero_missing_boxCox (p : Par ℝ) (mean : ℝ) : removeTNM .boxCox p mean 0 0 = none :=
  removeTNM_at_or_below_bound .boxCox p 0 mean 0 0 (lowerBound_boxCox p) (by norm_num)

theorem zero_missing_logNormal (p : Par ℝ) (mean : ℝ) : removeTNM .logNormal p mean 0 0 = none :=
  removeTNM_at_or_below_bound .logNormal p 0 mean 0 0 (lowerBound_logNormal p) (by norm_num)

/-- the value `−shift` under BoxCoxShift is missing -/
theorem neg_shift_missing_boxCoxShift (p : Par ℝ) (mean : ℝ) : removeTNM .boxCoxShift p mean 0 (-p.shift) = none :=
  removeTNM_at_or_below_bound .boxCoxShift p (-p.shift) mean 0 (-p.shift) (lowerBound_boxCoxShift p) (by norm_num)

/-- strictly inside the domain the value is transformed (so the rule above removes nothing else) -/
theorem removeTNM_inside (k : Kind) (p : Par ℝ) (l mean trend v : ℝ) (hr : normRange k p = ⟨some l, none⟩)
    (hv : l < v - trend) : removeTNM k p mean trend v = some (normRaw k p (v - trend) - mean) := by
  unfold removeTNM Model.Norm.normalize
  rw [hr, above_lower_bound_valid l (v - trend) hv]
  rfl

/-! the hypotheses are satisfiable by non-trivial objects -/
example : removeTNM .boxCox (⟨0.5, 0⟩ : Par ℝ) 0.4 3 3 = none :=
  removeTNM_at_or_below_bound .boxCox _ 0 0.4 3 3 (lowerBound_boxCox _) (by norm_num)
example : ∃ y, removeTNM .logNormal (⟨1, 0⟩ : Par ℝ) 0 3 4 = some y :=
  ⟨_, removeTNM_inside .logNormal _ 0 0 3 4 (by simp [normRange]) (by norm_num)⟩

end GSV.Props.C09Domain
