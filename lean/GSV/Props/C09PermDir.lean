/-
  C09 (permutation invariance, continued) — the order of the sample points is irrelevant for EVERY point-list estimator:
  both distances of `unstructured` (Euclidean and haversine) and the directional estimator, with or without
  `separate_dirs`, for both estimator types the kernel has (`"m"` = Matheron, every other letter = Cressie–Hawkins; there
  is no third: `estimator_type_dichotomy`).

  * `dist_haversine_symm`: the generated great-circle distance is symmetric in its two points (ℝ); with
    `C09Perm.dist_euclid_symm` the symmetry hypothesis of `C09Perm.unstructured_perm_invariant` holds for every distance
    letter (`distOf_symm`), so the haversine case is a COROLLARY of that general theorem
    (`unstructured_perm_invariant_haversine`, `unstructured_perm_invariant_any`, whole-output form `unstructured_perm_fun`).
  * `triples_perm`: for ANY pair selection that is symmetric in the two points of a pair, re-indexing the points by a
    permutation leaves the count and the raw sum of estimator terms of the selected (pair, field) triples unchanged.
  * `inDirBin_swap`: the directional selection (distance bin, direction test, first-hit rule of `separate_dirs`) is
    symmetric in the pair — from `C08Zero.dir_test_swap`, proved from the generated `dir_test` (it uses `|s|` and squares).
  * `directional_perm_invariant` (+ `_fun`, `_equiv`): every direction's every bin's count and normalised value are
    invariant; `directional_perm_sums_counts` is the statement for the raw sums and counts.
-/
import GSV.Props.C09Perm
import GSV.Props.C08Zero
import Mathlib.Logic.Equiv.Defs
namespace GSV.Props.C09PermDir
open GSV GSV.Transc GSV.Estimator GSV.Props GSV.Props.C08 GSV.Props.C09Perm GSV.Props.C08Zero Finset

set_option linter.unusedSectionVars false

/-! ### (a) haversine distance -/

/-- **the generated haversine distance is symmetric** in its two points -/
theorem dist_haversine_symm (dim : Nat) (pos : Nat → Nat → ℝ) (p0 p1 j k : Nat) :
    dist_haversine dim pos p0 p1 j k = dist_haversine dim pos p0 p1 k j := by
  have h : ∀ a b c : ℝ, Real.sin ((a - b) * c / 2) ^ 2 = Real.sin ((b - a) * c / 2) ^ 2 := by
    intro a b c
    rw [show (a - b) * c / 2 = -((b - a) * c / 2) by ring, Real.sin_neg, neg_sq]
  unfold dist_haversine
  simp only [rpow_real, sin_real, cos_real, sqrt_real, atan2_real, pi_real, Nat.cast_ofNat, Real.rpow_ofNat]
  rw [h (pos 0 k) (pos 0 j), h (pos 1 k) (pos 1 j), mul_comm (Real.cos (pos 0 j * _)) (Real.cos (pos 0 k * _))]

/-- the distance selected by ANY distance letter is symmetric -/
theorem distOf_symm (dt : String) (dim : Nat) (pos : Nat → Nat → ℝ) (p0 p1 j k : Nat) :
    distOf dt dim pos p0 p1 j k = distOf dt dim pos p0 p1 k j := by
  unfold distOf
  split
  · exact dist_euclid_symm dim pos p0 p1 j k
  · exact dist_haversine_symm dim pos p0 p1 j k

/-- **C09 perm_invariant, isotropic estimator, every distance and estimator letter** (corollary of the general theorem
    `C09Perm.unstructured_perm_invariant`, whose symmetry hypothesis is `distOf_symm`) -/
theorem unstructured_perm_invariant_any (sched : Sched) (hs : sched.Admissible)
    (f : Nat → Nat → ℝ) (nf f1 : Nat) (bins : Nat → ℝ) (nb : Nat) (pos : Nat → Nat → ℝ) (dim np : Nat)
    (et dt : String) (σ τ : ℕ → ℕ) (hσ : IsPerm np σ τ) (i : Nat) (hi : i < nb - 1) :
    (unstructured sched (fun m p => f m (σ p)) nf f1 bins nb (fun d p => pos d (σ p)) dim np et dt).2 i =
      (unstructured sched f nf f1 bins nb pos dim np et dt).2 i ∧
    (unstructured sched (fun m p => f m (σ p)) nf f1 bins nb (fun d p => pos d (σ p)) dim np et dt).1 i =
      (unstructured sched f nf f1 bins nb pos dim np et dt).1 i :=
  unstructured_perm_invariant sched hs f nf f1 bins nb pos dim np et dt σ τ hσ
    (fun j k => distOf_symm dt dim pos dim np j k) i hi

/-- the haversine instance (`distance_type = "h"`, what `vario_estimate(latlon=True)` passes) -/
theorem unstructured_perm_invariant_haversine (sched : Sched) (hs : sched.Admissible)
    (f : Nat → Nat → ℝ) (nf f1 : Nat) (bins : Nat → ℝ) (nb : Nat) (pos : Nat → Nat → ℝ) (dim np : Nat)
    (et : String) (σ τ : ℕ → ℕ) (hσ : IsPerm np σ τ) (i : Nat) (hi : i < nb - 1) :
    (unstructured sched (fun m p => f m (σ p)) nf f1 bins nb (fun d p => pos d (σ p)) dim np et "h").2 i =
      (unstructured sched f nf f1 bins nb pos dim np et "h").2 i ∧
    (unstructured sched (fun m p => f m (σ p)) nf f1 bins nb (fun d p => pos d (σ p)) dim np et "h").1 i =
      (unstructured sched f nf f1 bins nb pos dim np et "h").1 i :=
  unstructured_perm_invariant_any sched hs f nf f1 bins nb pos dim np et "h" σ τ hσ i hi

/-- whole-output form: the two returned arrays (values, counts) are equal as functions, also outside the bins -/
theorem unstructured_perm_fun (sched : Sched) (hs : sched.Admissible)
    (f : Nat → Nat → ℝ) (nf f1 : Nat) (bins : Nat → ℝ) (nb : Nat) (pos : Nat → Nat → ℝ) (dim np : Nat)
    (et dt : String) (σ τ : ℕ → ℕ) (hσ : IsPerm np σ τ) :
    unstructured sched (fun m p => f m (σ p)) nf f1 bins nb (fun d p => pos d (σ p)) dim np et dt =
      unstructured sched f nf f1 bins nb pos dim np et dt := by
  refine Prod.ext (funext fun i => ?_) (funext fun i => ?_)
  · by_cases hi : i < nb - 1
    · exact (unstructured_perm_invariant_any sched hs f nf f1 bins nb pos dim np et dt σ τ hσ i hi).2
    · have A := unstructured_spec sched hs (fun m p => f m (σ p)) nf f1 bins nb (fun d p => pos d (σ p)) dim np et dt i
      have B := unstructured_spec sched hs f nf f1 bins nb pos dim np et dt i
      rw [if_neg hi] at A B
      exact (congrArg Prod.fst A).trans (congrArg Prod.fst B).symm
  · by_cases hi : i < nb - 1
    · exact (unstructured_perm_invariant_any sched hs f nf f1 bins nb pos dim np et dt σ τ hσ i hi).1
    · rw [unstructured_outside sched hs _ nf f1 bins nb _ dim np et dt i hi,
        unstructured_outside sched hs f nf f1 bins nb pos dim np et dt i hi]

/-! ### the general re-indexing statement for a symmetric pair selection -/

/-- **raw sums and counts under a permutation**: let `sel` select pairs symmetrically (`sel (a,b) = sel (b,a)`) and let
    `sel'` be the same selection read on the re-indexed data.  Then the triples selected on the re-indexed data have the
    same count (ℤ) and the same sum of estimator terms (ℝ, `est` even) as those selected on the original data. -/
theorem triples_perm (f : Nat → Nat → ℝ) (nf np : Nat) (σ τ : ℕ → ℕ) (hσ : IsPerm np σ τ)
    (sel sel' : ℕ × ℕ → Bool) (hsel : ∀ p, sel' p = sel (σ p.1, σ p.2)) (hsym : ∀ a b, sel (a, b) = sel (b, a))
    (est : ℝ → ℝ) (heven : ∀ x, est (-x) = est x) :
    ((triples (fun m p => f m (σ p)) nf np sel').length : Int) = ((triples f nf np sel).length : Int) ∧
    (triples (fun m p => f m (σ p)) nf np sel').foldl
        (fun a t => a + est ((fun m p => f m (σ p)) t.2.2 t.2.1 - (fun m p => f m (σ p)) t.2.2 t.1)) ((0:Nat):ℝ) =
      (triples f nf np sel).foldl (fun a t => a + est (f t.2.2 t.2.1 - f t.2.2 t.1)) ((0:Nat):ℝ) := by
  constructor
  · rw [triples_length, triples_length]
    have := sum_P_perm hσ (fun a b => if sel (a, b) = true then pairCount f nf a b else 0)
      (by intro a b; simp only [hsym a b, pairCount, validFields_symm f nf a b])
    rw [← this]
    exact Finset.sum_congr rfl fun p _ => by rw [hsel p]; rfl
  · rw [triples_sum (fun m p => f m (σ p)) est, triples_sum f est]
    have := sum_P_perm hσ (fun a b => if sel (a, b) = true then pairSum f est nf a b else 0)
      (by intro a b; simp only [hsym a b, pairSum_symm f _ heven nf a b])
    rw [← this]
    exact Finset.sum_congr rfl fun p _ => by rw [hsel p]; rfl

/-! ### (b) the directional estimator -/

/-- the kernel's direction test for a pair does not depend on the order of its two points -/
theorem dirOK_swap (dim : Nat) (pos : Nat → Nat → ℝ) (np : Nat) (direction : Nat → Nat → ℝ) (nd dc : Nat)
    (tol bw ds : ℝ) (a b d : Nat) :
    dirOK dim pos np direction nd dc tol bw ds a b d ↔ dirOK dim pos np direction nd dc tol bw ds b a d := by
  unfold dirOK
  rw [dir_test_swap]

/-- **the directional selection is symmetric in the pair**: distance bin (symmetric distance), direction test
    (`dirOK_swap`), and — with `separate_dirs` — "no earlier listed direction accepts" (the same tests) -/
theorem inDirBin_swap (dim : Nat) (pos : Nat → Nat → ℝ) (np : Nat) (bins : Nat → ℝ) (direction : Nat → Nat → ℝ)
    (nd dc : Nat) (tol bw : ℝ) (sep : Bool) (d i a b : Nat) :
    inDirBin dim pos np bins direction nd dc tol bw sep d i (a, b) =
      inDirBin dim pos np bins direction nd dc tol bw sep d i (b, a) := by
  unfold inDirBin inBin
  simp only [dist_euclid_symm dim pos dim np a b, dirOK_swap dim pos np direction nd dc tol bw _ a b]

/-- **raw sums and counts of the directional estimator** are invariant: for every direction `d`, bin `i`, with or
    without `separate_dirs`, the triples selected on the re-indexed data have the same number and the same sum of
    estimator terms -/
theorem directional_perm_sums_counts (f : Nat → Nat → ℝ) (nf : Nat) (bins : Nat → ℝ) (pos : Nat → Nat → ℝ) (dim np : Nat)
    (direction : Nat → Nat → ℝ) (nd dc : Nat) (tol bw : ℝ) (sep : Bool) (et : String)
    (σ τ : ℕ → ℕ) (hσ : IsPerm np σ τ) (d i : Nat) :
    let T' := triples (fun m p => f m (σ p)) nf np (inDirBin dim (fun c p => pos c (σ p)) np bins direction nd dc tol bw sep d i)
    let T := triples f nf np (inDirBin dim pos np bins direction nd dc tol bw sep d i)
    (T'.length : Int) = (T.length : Int) ∧
    T'.foldl (fun a t => a + choose_estimator_func et
        ((fun m p => f m (σ p)) t.2.2 t.2.1 - (fun m p => f m (σ p)) t.2.2 t.1)) ((0:Nat):ℝ) =
      T.foldl (fun a t => a + choose_estimator_func et (f t.2.2 t.2.1 - f t.2.2 t.1)) ((0:Nat):ℝ) :=
  triples_perm f nf np σ τ hσ _ _ (fun _ => rfl)
    (fun a b => inDirBin_swap dim pos np bins direction nd dc tol bw sep d i a b)
    (choose_estimator_func et) (estimator_even et)

/-- **C09 perm_invariant, directional estimator** (ℝ): for every admissible schedule, every estimator letter, any number
    of points / dimension / bins / directions, every tolerance and bandwidth, with or without `separate_dirs`, and every
    permutation σ of the points: estimating on the re-indexed data (positions and all fields permuted together) gives the
    same pair count and the same normalised value in every cell `(d, i)`. -/
theorem directional_perm_invariant (sched : Sched) (hs : sched.Admissible)
    (f : Nat → Nat → ℝ) (nf f1 : Nat) (bins : Nat → ℝ) (nb : Nat) (pos : Nat → Nat → ℝ) (dim np : Nat)
    (direction : Nat → Nat → ℝ) (nd dc : Nat) (tol bw : ℝ) (sep : Bool) (et : String)
    (σ τ : ℕ → ℕ) (hσ : IsPerm np σ τ) (d i : Nat) (hi : i < nb - 1) (hd : d < nd) :
    (directional sched (fun m p => f m (σ p)) nf f1 bins nb (fun c p => pos c (σ p)) dim np direction nd dc tol bw sep et).2 d i =
      (directional sched f nf f1 bins nb pos dim np direction nd dc tol bw sep et).2 d i ∧
    (directional sched (fun m p => f m (σ p)) nf f1 bins nb (fun c p => pos c (σ p)) dim np direction nd dc tol bw sep et).1 d i =
      (directional sched f nf f1 bins nb pos dim np direction nd dc tol bw sep et).1 d i := by
  have A := directional_eq_definition sched hs (fun m p => f m (σ p)) nf f1 bins nb (fun c p => pos c (σ p)) dim np
    direction nd dc tol bw sep et d i hi hd
  have B := directional_eq_definition sched hs f nf f1 bins nb pos dim np direction nd dc tol bw sep et d i hi hd
  have C := directional_perm_sums_counts f nf bins pos dim np direction nd dc tol bw sep et σ τ hσ d i
  simp only [] at A B C
  refine ⟨by rw [A.1, B.1, C.1], ?_⟩
  rw [A.2, B.2, C.1]
  congr 1
  exact C.2

/-- cells of directions that are not listed stay at their initial value -/
theorem dirCell_unlisted (f : Nat → Nat → ℝ) (nf : Nat) (est : ℝ → ℝ) (dim : Nat) (pos : Nat → Nat → ℝ) (np : Nat)
    (bins : Nat → ℝ) (direction : Nat → Nat → ℝ) (nd dc : Nat) (tol bw : ℝ) (sep : Bool) (d i : Nat) (acc : ℝ × Int)
    (hd : ¬ d < nd) : dirCell f nf est dim pos np bins direction nd dc tol bw sep d i acc = acc := by
  rw [dirCell_eq_accum]
  have : ∀ p, inDirBin dim pos np bins direction nd dc tol bw sep d i p = false := by
    intro p
    unfold inDirBin
    simp [hd]
  have hf : (pairs np).filter (inDirBin dim pos np bins direction nd dc tol bw sep d i) = [] :=
    List.filter_eq_nil_iff.2 fun p _ => by rw [this p]; simp
  unfold triples
  rw [hf]
  rfl

/-- whole-output form: the two returned 2-D arrays (values, counts) are equal as functions -/
theorem directional_perm_fun (sched : Sched) (hs : sched.Admissible)
    (f : Nat → Nat → ℝ) (nf f1 : Nat) (bins : Nat → ℝ) (nb : Nat) (pos : Nat → Nat → ℝ) (dim np : Nat)
    (direction : Nat → Nat → ℝ) (nd dc : Nat) (tol bw : ℝ) (sep : Bool) (et : String)
    (σ τ : ℕ → ℕ) (hσ : IsPerm np σ τ) :
    directional sched (fun m p => f m (σ p)) nf f1 bins nb (fun c p => pos c (σ p)) dim np direction nd dc tol bw sep et =
      directional sched f nf f1 bins nb pos dim np direction nd dc tol bw sep et := by
  have key : ∀ d i,
      ((directional sched (fun m p => f m (σ p)) nf f1 bins nb (fun c p => pos c (σ p)) dim np direction nd dc tol bw sep et).1 d i,
       (directional sched (fun m p => f m (σ p)) nf f1 bins nb (fun c p => pos c (σ p)) dim np direction nd dc tol bw sep et).2 d i) =
      ((directional sched f nf f1 bins nb pos dim np direction nd dc tol bw sep et).1 d i,
       (directional sched f nf f1 bins nb pos dim np direction nd dc tol bw sep et).2 d i) := by
    intro d i
    by_cases hi : i < nb - 1
    · by_cases hd : d < nd
      · have := directional_perm_invariant sched hs f nf f1 bins nb pos dim np direction nd dc tol bw sep et σ τ hσ d i hi hd
        rw [this.1, this.2]
      · rw [directional_spec sched hs, directional_spec sched hs]
        simp only [hi, hd, if_true, if_false, dirCell_unlisted _ _ _ _ _ _ _ _ _ _ _ _ _ _ _ _ hd]
    · rw [directional_spec sched hs, directional_spec sched hs]
      simp only [hi, if_false]
  refine Prod.ext (funext fun d => funext fun i => ?_) (funext fun d => funext fun i => ?_)
  · exact congrArg Prod.fst (key d i)
  · exact congrArg Prod.snd (key d i)

/-! ### (c) estimator types -/

/-- **the kernel has exactly two estimator types**: the letter `"m"` selects Matheron (term `x²`, normalisation
    `v / (2 max(N,1))`), EVERY other letter selects Cressie–Hawkins (term `√|x|`, the Cressie normalisation).  All
    permutation theorems above are stated for an arbitrary letter, hence cover both; the final values are
    `normOf et (raw sum) (count)`, so their invariance follows from that of the raw sums and counts. -/
theorem estimator_type_dichotomy (et : String) :
    ((choose_estimator_func et : ℝ → ℝ) = estimator_matheron ∧ ∀ (v : ℝ) c, normOf et v c = normMatheron v c) ∨
    ((choose_estimator_func et : ℝ → ℝ) = estimator_cressie ∧ ∀ (v : ℝ) c, normOf et v c = normCressie v c) := by
  unfold choose_estimator_func normOf
  by_cases h : (et == "m") = true
  · left; simp [h]
  · right; simp [h]

/-- Matheron instance of the directional theorem, values spelled out: `γ(d,i) = Σ (Δf)² / (2 max(N,1))` on both sides -/
theorem directional_perm_invariant_matheron (sched : Sched) (hs : sched.Admissible)
    (f : Nat → Nat → ℝ) (nf f1 : Nat) (bins : Nat → ℝ) (nb : Nat) (pos : Nat → Nat → ℝ) (dim np : Nat)
    (direction : Nat → Nat → ℝ) (nd dc : Nat) (tol bw : ℝ) (sep : Bool)
    (σ τ : ℕ → ℕ) (hσ : IsPerm np σ τ) (d i : Nat) (hi : i < nb - 1) (hd : d < nd) :
    (directional sched (fun m p => f m (σ p)) nf f1 bins nb (fun c p => pos c (σ p)) dim np direction nd dc tol bw sep "m").1 d i =
      (directional sched f nf f1 bins nb pos dim np direction nd dc tol bw sep "m").1 d i :=
  (directional_perm_invariant sched hs f nf f1 bins nb pos dim np direction nd dc tol bw sep "m" σ τ hσ d i hi hd).2

/-- Cressie–Hawkins instance of the directional theorem -/
theorem directional_perm_invariant_cressie (sched : Sched) (hs : sched.Admissible)
    (f : Nat → Nat → ℝ) (nf f1 : Nat) (bins : Nat → ℝ) (nb : Nat) (pos : Nat → Nat → ℝ) (dim np : Nat)
    (direction : Nat → Nat → ℝ) (nd dc : Nat) (tol bw : ℝ) (sep : Bool)
    (σ τ : ℕ → ℕ) (hσ : IsPerm np σ τ) (d i : Nat) (hi : i < nb - 1) (hd : d < nd) :
    (directional sched (fun m p => f m (σ p)) nf f1 bins nb (fun c p => pos c (σ p)) dim np direction nd dc tol bw sep "c").1 d i =
      (directional sched f nf f1 bins nb pos dim np direction nd dc tol bw sep "c").1 d i :=
  (directional_perm_invariant sched hs f nf f1 bins nb pos dim np direction nd dc tol bw sep "c" σ τ hσ d i hi hd).2

/-! ### permutations given as `Equiv.Perm (Fin np)` -/

/-- the index map of a permutation of `Fin n`, extended by the identity -/
def permFun {n : ℕ} (e : Equiv.Perm (Fin n)) (p : ℕ) : ℕ := if h : p < n then (e ⟨p, h⟩).val else p

theorem isPerm_of_equiv {n : ℕ} (e : Equiv.Perm (Fin n)) : IsPerm n (permFun e) (permFun e.symm) := by
  constructor
  · intro p hp; simp [permFun, hp]
  · intro p hp; simp [permFun, hp]
  · intro p hp; simp [permFun, hp]
  · intro p hp; simp [permFun, hp]

/-- every `IsPerm` comes from an `Equiv.Perm (Fin n)` (so the two formulations quantify over the same re-indexings) -/
theorem equiv_of_isPerm {n : ℕ} {σ τ : ℕ → ℕ} (h : IsPerm n σ τ) :
    ∃ e : Equiv.Perm (Fin n), ∀ p, p < n → permFun e p = σ p :=
  ⟨⟨fun p => ⟨σ p.1, h.map p.1 p.2⟩, fun p => ⟨τ p.1, h.inv_map p.1 p.2⟩,
    fun p => Fin.ext (h.left p.1 p.2), fun p => Fin.ext (h.right p.1 p.2)⟩,
   fun p hp => by simp [permFun, hp]⟩

/-- the directional theorem for an arbitrary `Equiv.Perm (Fin np)` -/
theorem directional_perm_invariant_equiv (sched : Sched) (hs : sched.Admissible)
    (f : Nat → Nat → ℝ) (nf f1 : Nat) (bins : Nat → ℝ) (nb : Nat) (pos : Nat → Nat → ℝ) (dim np : Nat)
    (direction : Nat → Nat → ℝ) (nd dc : Nat) (tol bw : ℝ) (sep : Bool) (et : String) (e : Equiv.Perm (Fin np)) :
    directional sched (fun m p => f m (permFun e p)) nf f1 bins nb (fun c p => pos c (permFun e p)) dim np direction nd dc tol bw sep et =
      directional sched f nf f1 bins nb pos dim np direction nd dc tol bw sep et :=
  directional_perm_fun sched hs f nf f1 bins nb pos dim np direction nd dc tol bw sep et _ _ (isPerm_of_equiv e)

/-- the isotropic theorem (both distances) for an arbitrary `Equiv.Perm (Fin np)` -/
theorem unstructured_perm_invariant_equiv (sched : Sched) (hs : sched.Admissible)
    (f : Nat → Nat → ℝ) (nf f1 : Nat) (bins : Nat → ℝ) (nb : Nat) (pos : Nat → Nat → ℝ) (dim np : Nat)
    (et dt : String) (e : Equiv.Perm (Fin np)) :
    unstructured sched (fun m p => f m (permFun e p)) nf f1 bins nb (fun d p => pos d (permFun e p)) dim np et dt =
      unstructured sched f nf f1 bins nb pos dim np et dt :=
  unstructured_perm_fun sched hs f nf f1 bins nb pos dim np et dt _ _ (isPerm_of_equiv e)

/-! ### non-vacuity -/

/-- a non-trivial permutation of three points -/
example : ∃ e : Equiv.Perm (Fin 3), permFun e 0 = 1 ∧ permFun e 1 = 0 ∧ permFun e 2 = 2 :=
  ⟨Equiv.swap 0 1, by decide, by decide, by decide⟩

/-- an admissible schedule exists (the sequential one) -/
example : Sched.Admissible (id : Sched) := sched_id_admissible

end GSV.Props.C09PermDir
