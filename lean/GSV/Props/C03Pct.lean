/-
  C03 — the percentile scale under an arbitrary `rescale`.

  `tools.percentile_scale(model, per)` is meant to return the smallest positive lag at which the variogram has
  risen by the fraction `per` of the variance.  `correlation(r) = cor(|r| / len_rescaled)` with
  `len_rescaled = len_scale / rescale`, so
  * `percentile_scale_scaling` / `percentile_scale_smallest` / `percentile_scale_variogram`: for EVERY
    `rescale > 0` that lag is `len_rescaled` times the smallest non-negative `h` with `cor h = 1 - per`
    (`GSV.Model.CovFn.percentileScale`, the function the driver evaluates on `Float`);
  * `percentile_inside_range`: for a kernel with finite range (`cor h = 0` for `h ≥ 1`: Linear, Circular,
    Spherical, Cubic, Hyper- / SuperSpherical, TPLSimple) every root of the percentile curve lies strictly inside
    the range `len_rescaled` — a returned value `≥ len_scale / rescale` is never a percentile scale;
  * closed forms of the smallest `h` (root and minimality): Linear, TPLSimple, Exponential, Gaussian, Stable,
    Rational, Matern `ν = 1/2` and the Gaussian limit of Matern `ν > 20`, combined with the scaling law in
    `percentile_scale_closed_forms`.
-/
import GSV.Props.C03
namespace GSV.Props.C03Pct
open GSV GSV.Transc GSV.Model.CovFn GSV.Props.C03

/-! ## the scaling law -/

/-- the model's correlation at `len_rescaled * h` is `cor h` -/
theorem correlation_at_scaled (p : Par ℝ) (c : ℝ → ℝ) (hl : 0 < p.lenScale) (hs : 0 < p.rescale) (h : ℝ)
    (hh : 0 ≤ h) : (fromCor p c).correlation (percentileScale p h) = c h := by
  have hL := lenRescaled_pos hl hs
  simp only [fromCor, correlationFromCor, percentileScale, fabs_real]
  rw [abs_of_nonneg (mul_nonneg hL.le hh), mul_comm, mul_div_assoc, div_self hL.ne', mul_one]

/-- if `hstar ≥ 0` is a root of `cor h = 1 - per`, then `len_rescaled * hstar` is a root of the curve
    `1 - correlation(x) - per` that `percentile_scale` solves — whatever `rescale` is -/
theorem percentile_scale_scaling (p : Par ℝ) (c : ℝ → ℝ) (hl : 0 < p.lenScale) (hs : 0 < p.rescale)
    (hstar per : ℝ) (h0 : 0 ≤ hstar) (hroot : c hstar = 1 - per) :
    1 - (fromCor p c).correlation (percentileScale p hstar) - per = 0 := by
  rw [correlation_at_scaled p c hl hs hstar h0, hroot]; ring

/-- ... and if `hstar` is the SMALLEST non-negative root of `cor`, no smaller non-negative lag is a root of the
    model's curve: `len_rescaled * hstar` is the smallest positive lag reaching the percentile -/
theorem percentile_scale_smallest (p : Par ℝ) (c : ℝ → ℝ) (hl : 0 < p.lenScale) (hs : 0 < p.rescale)
    (hstar per : ℝ) (hmin : ∀ h, 0 ≤ h → h < hstar → c h ≠ 1 - per) :
    ∀ x, 0 ≤ x → x < percentileScale p hstar → (fromCor p c).correlation x ≠ 1 - per := by
  intro x hx hlt
  have hL := lenRescaled_pos hl hs
  have hx' : x = percentileScale p (x / lenRescaled p) := by
    simp only [percentileScale]; field_simp
  rw [hx', correlation_at_scaled p c hl hs _ (div_nonneg hx hL.le)]
  apply hmin _ (div_nonneg hx hL.le)
  rw [div_lt_iff₀ hL]
  simpa [percentileScale, mul_comm] using hlt

/-- at that lag the variogram is `nugget + per * var` -/
theorem percentile_scale_variogram (p : Par ℝ) (c : ℝ → ℝ) (hl : 0 < p.lenScale) (hs : 0 < p.rescale)
    (hstar per : ℝ) (h0 : 0 ≤ hstar) (hroot : c hstar = 1 - per) :
    (fromCor p c).variogram (percentileScale p hstar) = p.nugget + per * p.var :=
  percentile_spec p _ (derived_from_cor p c) _ per (percentile_scale_scaling p c hl hs hstar per h0 hroot)

/-- finite range: if `cor` vanishes from `h = 1` on, every lag whose correlation is `1 - per` with `per < 1`
    lies strictly inside the range `len_rescaled = len_scale / rescale` -/
theorem percentile_inside_range (p : Par ℝ) (c : ℝ → ℝ) (hl : 0 < p.lenScale) (hs : 0 < p.rescale)
    (hcompact : ∀ h, 1 ≤ h → c h = 0) (per x : ℝ) (h1 : per < 1)
    (hroot : 1 - (fromCor p c).correlation x - per = 0) : |x| < lenRescaled p := by
  have hL := lenRescaled_pos hl hs
  by_contra hlt
  have hge := not_lt.mp hlt
  have : (fromCor p c).correlation x = 0 := by
    simp only [fromCor, correlationFromCor, fabs_real]
    exact hcompact _ ((one_le_div hL).mpr hge)
  rw [this] at hroot
  linarith

/-! ## closed forms: root and minimality for the elementary kernels -/

/-- Linear: `1 - h = 1 - per` first at `h = per` -/
theorem linearPct_spec (per : ℝ) (h0 : 0 < per) (h1 : per < 1) :
    linearCor (linearPct per) = 1 - per ∧ ∀ h, 0 ≤ h → h < linearPct per → linearCor h ≠ 1 - per := by
  have key : ∀ h : ℝ, 0 ≤ h → h ≤ 1 → linearCor h = 1 - h := by
    intro h hh hh1
    simp only [linearCor, fmax, fabs_real, abs_of_nonneg hh]
    push_cast
    split_ifs with hlt <;> linarith
  refine ⟨?_, fun h hh hlt => ?_⟩
  · rw [linearPct, key per h0.le h1.le]
  · simp only [linearPct] at hlt
    rw [key h hh (by linarith)]
    intro heq; linarith

/-- the Linear kernel has finite range -/
theorem linearCor_compact (h : ℝ) (hh : 1 ≤ h) : linearCor h = 0 := by
  simp only [linearCor, fmax, fabs_real, abs_of_nonneg (by linarith : (0:ℝ) ≤ h)]
  push_cast
  split_ifs with hlt <;> linarith

/-- TPLSimple: `(1 - h)^ν = 1 - per` first at `h = 1 - (1 - per)^(1/ν)` -/
theorem tplSimplePct_spec (nu per : ℝ) (hnu : 0 < nu) (h0 : 0 < per) (h1 : per < 1) :
    0 ≤ tplSimplePct nu per ∧ tplSimpleCor nu (tplSimplePct nu per) = 1 - per ∧
    ∀ h, 0 ≤ h → h < tplSimplePct nu per → tplSimpleCor nu h ≠ 1 - per := by
  have hq : 0 < 1 - per := by linarith
  have hq1 : 1 - per < 1 := by linarith
  set q := (1 - per) ^ (1 / nu) with hqdef
  have hq0 : 0 < q := Real.rpow_pos_of_pos hq _
  have hqlt : q < 1 := Real.rpow_lt_one hq.le hq1 (by positivity)
  have hqpow : q ^ nu = 1 - per := by
    rw [hqdef, ← Real.rpow_mul hq.le, one_div, inv_mul_cancel₀ hnu.ne', Real.rpow_one]
  have key : ∀ h : ℝ, 0 ≤ h → h ≤ 1 → tplSimpleCor nu h = (1 - h) ^ nu := by
    intro h hh hh1
    simp only [tplSimpleCor, fmax, fabs_real, abs_of_nonneg hh, rpow_real]
    push_cast
    split_ifs with hlt
    · have : h = 1 := by linarith
      subst this; simp
    · rfl
  have hpct : tplSimplePct nu per = 1 - q := by
    simp only [tplSimplePct, rpow_real, hqdef]; push_cast; ring
  refine ⟨by rw [hpct]; linarith, ?_, fun h hh hlt => ?_⟩
  · rw [hpct, key (1 - q) (by linarith) (by linarith)]
    rw [show 1 - (1 - q) = q by ring, hqpow]
  · rw [hpct] at hlt
    rw [key h hh (by linarith), ← hqpow]
    have : q < 1 - h := by linarith
    exact (Real.rpow_lt_rpow hq0.le this hnu).ne'

/-- the TPLSimple kernel has finite range -/
theorem tplSimpleCor_compact (nu : ℝ) (hnu : 0 < nu) (h : ℝ) (hh : 1 ≤ h) : tplSimpleCor nu h = 0 := by
  simp only [tplSimpleCor, fmax, fabs_real, abs_of_nonneg (by linarith : (0:ℝ) ≤ h), rpow_real]
  push_cast
  split_ifs with hlt
  · exact Real.zero_rpow hnu.ne'
  · have : 1 - h = 0 := by linarith
    rw [this]; exact Real.zero_rpow hnu.ne'

/-- Stable (`α > 0`): `exp(-h^α) = 1 - per` exactly at `h = (-log(1 - per))^(1/α)`; `α = 1` is the Exponential,
    `α = 2` the Gaussian kernel -/
theorem stablePct_spec (alpha per : ℝ) (ha : 0 < alpha) (h0 : 0 < per) (h1 : per < 1) :
    0 ≤ stablePct alpha per ∧ stableCor alpha (stablePct alpha per) = 1 - per ∧
    ∀ h, 0 ≤ h → h < stablePct alpha per → stableCor alpha h ≠ 1 - per := by
  have hq : 0 < 1 - per := by linarith
  have hL : 0 < -Real.log (1 - per) := by
    have := Real.log_neg hq (by linarith); linarith
  have hexp : Real.exp (Real.log (1 - per)) = 1 - per := Real.exp_log hq
  have hpct : stablePct alpha per = (-Real.log (1 - per)) ^ (1 / alpha) := by
    simp only [stablePct, rpow_real, log_real]; push_cast; rfl
  have hpow : ((-Real.log (1 - per)) ^ (1 / alpha)) ^ alpha = -Real.log (1 - per) := by
    rw [← Real.rpow_mul hL.le, one_div, inv_mul_cancel₀ ha.ne', Real.rpow_one]
  refine ⟨by rw [hpct]; positivity, ?_, fun h hh hlt => ?_⟩
  · simp only [stableCor, rpow_real, exp_real]
    rw [hpct, hpow, neg_neg, hexp]
  · rw [hpct] at hlt
    simp only [stableCor, rpow_real, exp_real]
    have hlt' : h ^ alpha < -Real.log (1 - per) := by
      rw [← hpow]; exact Real.rpow_lt_rpow hh hlt ha
    intro heq
    have : Real.exp (-(h ^ alpha)) = Real.exp (Real.log (1 - per)) := by rw [heq, hexp]
    have := Real.exp_injective this
    linarith

/-- Exponential: root `-log(1 - per)` and minimality -/
theorem exponentialPct_spec (per : ℝ) (h0 : 0 < per) (h1 : per < 1) :
    0 ≤ exponentialPct per ∧ exponentialCor (exponentialPct per) = 1 - per ∧
    ∀ h, 0 ≤ h → h < exponentialPct per → exponentialCor h ≠ 1 - per := by
  have hq : 0 < 1 - per := by linarith
  have hL : 0 < -Real.log (1 - per) := by
    have := Real.log_neg hq (by linarith); linarith
  have hexp : Real.exp (Real.log (1 - per)) = 1 - per := Real.exp_log hq
  have hpct : exponentialPct per = -Real.log (1 - per) := by
    simp only [exponentialPct, log_real]; push_cast; rfl
  refine ⟨by rw [hpct]; exact hL.le, ?_, fun h _ hlt => ?_⟩
  · simp only [exponentialCor, exp_real]; rw [hpct, neg_neg, hexp]
  · rw [hpct] at hlt
    simp only [exponentialCor, exp_real]
    intro heq
    have : Real.exp (-h) = Real.exp (Real.log (1 - per)) := by rw [heq, hexp]
    have := Real.exp_injective this
    linarith

/-- Gaussian: root `sqrt(-log(1 - per))` and minimality -/
theorem gaussianPct_spec (per : ℝ) (h0 : 0 < per) (h1 : per < 1) :
    0 ≤ gaussianPct per ∧ gaussianCor (gaussianPct per) = 1 - per ∧
    ∀ h, 0 ≤ h → h < gaussianPct per → gaussianCor h ≠ 1 - per := by
  have hq : 0 < 1 - per := by linarith
  have hL : 0 < -Real.log (1 - per) := by
    have := Real.log_neg hq (by linarith); linarith
  have hexp : Real.exp (Real.log (1 - per)) = 1 - per := Real.exp_log hq
  have hpct : gaussianPct per = Real.sqrt (-Real.log (1 - per)) := by
    simp only [gaussianPct, log_real, sqrt_real]; push_cast; rfl
  refine ⟨by rw [hpct]; exact Real.sqrt_nonneg _, ?_, fun h hh hlt => ?_⟩
  · simp only [gaussianCor, exp_real, npow_real]; rw [hpct, Real.sq_sqrt hL.le, neg_neg, hexp]
  · rw [hpct] at hlt
    simp only [gaussianCor, exp_real, npow_real]
    have hsq : h ^ 2 < -Real.log (1 - per) := by
      have := (Real.lt_sqrt hh).mp hlt
      simpa using this
    intro heq
    have : Real.exp (-(h ^ 2)) = Real.exp (Real.log (1 - per)) := by rw [heq, hexp]
    have := Real.exp_injective this
    linarith

/-- Matern `ν = 1/2`: `exp(-sqrt(1/2) h) = 1 - per` exactly at `h = -log(1 - per) / sqrt(1/2)` -/
theorem matern12Pct_spec (per : ℝ) (h0 : 0 < per) (h1 : per < 1) :
    0 ≤ matern12Pct per ∧ matern12Cor (matern12Pct per) = 1 - per ∧
    ∀ h, 0 ≤ h → h < matern12Pct per → matern12Cor h ≠ 1 - per := by
  have hq : 0 < 1 - per := by linarith
  have hL : 0 < -Real.log (1 - per) := by
    have := Real.log_neg hq (by linarith); linarith
  have hexp : Real.exp (Real.log (1 - per)) = 1 - per := Real.exp_log hq
  have hs : 0 < Real.sqrt (0.5:ℝ) := Real.sqrt_pos.mpr (by norm_num)
  have hpct : matern12Pct per = -Real.log (1 - per) / Real.sqrt 0.5 := by
    simp only [matern12Pct, log_real, sqrt_real]; push_cast; rfl
  have hp0 : 0 ≤ matern12Pct per := by rw [hpct]; positivity
  refine ⟨hp0, ?_, fun h hh hlt => ?_⟩
  · simp only [matern12Cor, exp_real, sqrt_real, fabs_real, abs_of_nonneg hp0]
    rw [hpct, mul_div_cancel₀ _ hs.ne', neg_neg, hexp]
  · rw [hpct, lt_div_iff₀ hs] at hlt
    simp only [matern12Cor, exp_real, sqrt_real, fabs_real, abs_of_nonneg hh]
    intro heq
    have : Real.exp (-(Real.sqrt 0.5 * h)) = Real.exp (Real.log (1 - per)) := by rw [heq, hexp]
    have := Real.exp_injective this
    linarith

/-- Matern `ν > 20` (the Gaussian limit the code evaluates): `exp(-(h/2)²) = 1 - per` at `2 sqrt(-log(1 - per))` -/
theorem maternLimitPct_spec (per : ℝ) (h0 : 0 < per) (h1 : per < 1) :
    0 ≤ maternLimitPct per ∧ maternLimitCor (maternLimitPct per) = 1 - per ∧
    ∀ h, 0 ≤ h → h < maternLimitPct per → maternLimitCor h ≠ 1 - per := by
  have hq : 0 < 1 - per := by linarith
  have hL : 0 < -Real.log (1 - per) := by
    have := Real.log_neg hq (by linarith); linarith
  have hexp : Real.exp (Real.log (1 - per)) = 1 - per := Real.exp_log hq
  have hpct : maternLimitPct per = 2 * Real.sqrt (-Real.log (1 - per)) := by
    simp only [maternLimitPct, log_real, sqrt_real]; push_cast; rfl
  have hp0 : 0 ≤ maternLimitPct per := by rw [hpct]; positivity
  refine ⟨hp0, ?_, fun h hh hlt => ?_⟩
  · simp only [maternLimitCor, exp_real, npow_real, fabs_real, abs_of_nonneg hp0]
    push_cast
    rw [hpct, mul_div_cancel_left₀ _ (two_ne_zero), Real.sq_sqrt hL.le, neg_neg, hexp]
  · rw [hpct] at hlt
    simp only [maternLimitCor, exp_real, npow_real, fabs_real, abs_of_nonneg hh]
    push_cast
    have hlt2 : h / 2 < Real.sqrt (-Real.log (1 - per)) := by linarith
    have hsq : (h / 2) ^ 2 < -Real.log (1 - per) := by
      have := (Real.lt_sqrt (by positivity)).mp hlt2
      simpa using this
    intro heq
    have : Real.exp (-((h / 2) ^ 2)) = Real.exp (Real.log (1 - per)) := by rw [heq, hexp]
    have := Real.exp_injective this
    linarith

/-- Rational (`α > 0`): `(1 + h²/α)^(-α) = 1 - per` exactly at `h = sqrt(α ((1 - per)^(-1/α) - 1))` -/
theorem rationalPct_spec (alpha per : ℝ) (ha : 0 < alpha) (h0 : 0 < per) (h1 : per < 1) :
    0 ≤ rationalPct alpha per ∧ rationalCor alpha (rationalPct alpha per) = 1 - per ∧
    ∀ h, 0 ≤ h → h < rationalPct alpha per → rationalCor alpha h ≠ 1 - per := by
  have hq : 0 < 1 - per := by linarith
  have hq1 : 1 - per < 1 := by linarith
  set w := (1 - per) ^ (-(1 / alpha)) with hw
  have hw0 : 0 < w := Real.rpow_pos_of_pos hq _
  have hw1 : 1 < w := Real.one_lt_rpow_of_pos_of_lt_one_of_neg hq hq1 (by
    have : 0 < 1 / alpha := by positivity
    linarith)
  have hwpow : w ^ (-alpha) = 1 - per := by
    rw [hw, ← Real.rpow_mul hq.le]
    have : -(1 / alpha) * -alpha = 1 := by field_simp
    rw [this, Real.rpow_one]
  have hpct : rationalPct alpha per = Real.sqrt (alpha * (w - 1)) := by
    simp only [rationalPct, rpow_real, sqrt_real, hw]; push_cast; rfl
  have harg : 0 ≤ alpha * (w - 1) := mul_nonneg ha.le (by linarith)
  have key : ∀ h : ℝ, rationalCor alpha h = (1 + h ^ 2 / alpha) ^ (-alpha) := by
    intro h; simp only [rationalCor, rpow_real, npow_real]; push_cast; rfl
  refine ⟨by rw [hpct]; exact Real.sqrt_nonneg _, ?_, fun h hh hlt => ?_⟩
  · rw [key, hpct, Real.sq_sqrt harg, mul_div_cancel_left₀ _ ha.ne']
    rw [show 1 + (w - 1) = w by ring, hwpow]
  · rw [hpct] at hlt
    have hsq : h ^ 2 < alpha * (w - 1) := by
      have := (Real.lt_sqrt hh).mp hlt
      simpa using this
    have hbase : 1 + h ^ 2 / alpha < w := by
      have : h ^ 2 / alpha < w - 1 := by rw [div_lt_iff₀ ha]; linarith
      linarith
    have hpos : 0 < 1 + h ^ 2 / alpha := by positivity
    rw [key, ← hwpow]
    exact (Real.rpow_lt_rpow_of_neg hpos hbase (by linarith)).ne'

/-! ## the statement about the model, for every rescale -/

/-- what it means for `x` to be the percentile scale of the model `F`: the variogram there is
    `nugget + per * var` and no smaller non-negative lag has the correlation `1 - per` -/
def IsPercentileScale (p : Par ℝ) (F : Fns ℝ) (per x : ℝ) : Prop :=
  0 ≤ x ∧ F.variogram x = p.nugget + per * p.var ∧ ∀ y, 0 ≤ y → y < x → F.correlation y ≠ 1 - per

/-- from a kernel-level specification to the model, for every `len_scale > 0` and `rescale > 0` -/
theorem isPercentileScale_of_spec (p : Par ℝ) (c : ℝ → ℝ) (hl : 0 < p.lenScale) (hs : 0 < p.rescale)
    (hstar per : ℝ)
    (hspec : 0 ≤ hstar ∧ c hstar = 1 - per ∧ ∀ h, 0 ≤ h → h < hstar → c h ≠ 1 - per) :
    IsPercentileScale p (fromCor p c) per (percentileScale p hstar) :=
  ⟨mul_nonneg (lenRescaled_pos hl hs).le hspec.1,
   percentile_scale_variogram p c hl hs hstar per hspec.1 hspec.2.1,
   percentile_scale_smallest p c hl hs hstar per hspec.2.2⟩

/-- the percentile scale of the elementary models is `len_scale / rescale` times the closed-form percentile lag of
    the kernel, for every `rescale > 0` (this is the value the driver evaluates on `Float` and the correspondence
    compares with `CovModel.percentile_scale`) -/
theorem percentile_scale_closed_forms (p : Par ℝ) (per : ℝ) (h0 : 0 < per) (h1 : per < 1)
    (hl : 0 < p.lenScale) (hs : 0 < p.rescale) :
    IsPercentileScale p (fromCor p linearCor) per (percentileScale p (linearPct per)) ∧
    IsPercentileScale p (fromCor p exponentialCor) per (percentileScale p (exponentialPct per)) ∧
    IsPercentileScale p (fromCor p gaussianCor) per (percentileScale p (gaussianPct per)) ∧
    IsPercentileScale p (fromCor p matern12Cor) per (percentileScale p (matern12Pct per)) ∧
    IsPercentileScale p (fromCor p maternLimitCor) per (percentileScale p (maternLimitPct per)) ∧
    (∀ a : ℝ, 0 < a → IsPercentileScale p (fromCor p (stableCor a)) per (percentileScale p (stablePct a per))) ∧
    (∀ a : ℝ, 0 < a → IsPercentileScale p (fromCor p (rationalCor a)) per (percentileScale p (rationalPct a per))) ∧
    (∀ nu : ℝ, 0 < nu → IsPercentileScale p (fromCor p (tplSimpleCor nu)) per (percentileScale p (tplSimplePct nu per))) := by
  refine ⟨?_, ?_, ?_, ?_, ?_, fun a ha => ?_, fun a ha => ?_, fun nu hnu => ?_⟩
  · exact isPercentileScale_of_spec p _ hl hs _ per
      ⟨h0.le, (linearPct_spec per h0 h1).1, (linearPct_spec per h0 h1).2⟩
  · exact isPercentileScale_of_spec p _ hl hs _ per (exponentialPct_spec per h0 h1)
  · exact isPercentileScale_of_spec p _ hl hs _ per (gaussianPct_spec per h0 h1)
  · exact isPercentileScale_of_spec p _ hl hs _ per (matern12Pct_spec per h0 h1)
  · exact isPercentileScale_of_spec p _ hl hs _ per (maternLimitPct_spec per h0 h1)
  · exact isPercentileScale_of_spec p _ hl hs _ per (stablePct_spec a per ha h0 h1)
  · exact isPercentileScale_of_spec p _ hl hs _ per (rationalPct_spec a per ha h0 h1)
  · exact isPercentileScale_of_spec p _ hl hs _ per (tplSimplePct_spec nu per hnu h0 h1)

/-- finite range, all rescales: a percentile scale of the Linear / TPLSimple model is smaller than
    `len_scale / rescale`; in particular `per * len_scale` is not one when `rescale ≥ 1 / per` -/
theorem percentile_scale_lt_range (p : Par ℝ) (per : ℝ) (h0 : 0 < per) (h1 : per < 1)
    (hl : 0 < p.lenScale) (hs : 0 < p.rescale) :
    percentileScale p (linearPct per) < lenRescaled p ∧
    (∀ nu : ℝ, 0 < nu → percentileScale p (tplSimplePct nu per) < lenRescaled p) ∧
    (1 / per ≤ p.rescale → ∀ x, per * p.lenScale ≤ x → 1 - (fromCor p linearCor).correlation x - per ≠ 0) := by
  have hL := lenRescaled_pos hl hs
  refine ⟨?_, fun nu hnu => ?_, fun hres x hx hroot => ?_⟩
  · simp only [percentileScale, linearPct]; nlinarith
  · have hq : 0 < (1 - per) ^ (1 / nu) := Real.rpow_pos_of_pos (by linarith) _
    have : tplSimplePct nu per < 1 := by
      simp only [tplSimplePct, rpow_real]; push_cast; linarith
    simp only [percentileScale]; nlinarith
  · have hin := percentile_inside_range p linearCor hl hs linearCor_compact per x h1 hroot
    have hxpos : 0 ≤ x := le_trans (by positivity) hx
    rw [abs_of_nonneg hxpos] at hin
    have : lenRescaled p ≤ per * p.lenScale := by
      simp only [lenRescaled]
      rw [div_le_iff₀ hs]
      have : 1 ≤ per * p.rescale := by
        have := (div_le_iff₀ h0).mp hres
        linarith
      nlinarith
    linarith

/-! the hypotheses are satisfiable by non-trivial objects -/

def exPar : Par ℝ := ⟨2, 1, 0.5, 1.5⟩

/-- `Linear(len_scale = 1, rescale = 1.5)`: the percentile scale for 90 % is `0.9 / 1.5 = 0.6` ... -/
example : IsPercentileScale exPar (fromCor exPar linearCor) 0.9 0.6 := by
  have h := (percentile_scale_closed_forms exPar 0.9 (by norm_num) (by norm_num) (by norm_num [exPar]) (by norm_num [exPar])).1
  have : percentileScale exPar (linearPct 0.9) = 0.6 := by
    simp only [percentileScale, lenRescaled, linearPct, exPar]; norm_num
  rwa [this] at h

/-- ... and `0.9 = per * len_scale` (beyond the range `2/3`) is not a root of its percentile curve -/
example : 1 - (fromCor exPar linearCor).correlation 0.9 - 0.9 ≠ 0 :=
  (percentile_scale_lt_range exPar 0.9 (by norm_num) (by norm_num) (by norm_num [exPar]) (by norm_num [exPar])).2.2
    (by norm_num [exPar]) 0.9 (by norm_num [exPar])

example : IsPercentileScale exPar (fromCor exPar (tplSimpleCor 2)) 0.75 (percentileScale exPar (tplSimplePct 2 0.75)) :=
  (percentile_scale_closed_forms exPar 0.75 (by norm_num) (by norm_num) (by norm_num [exPar]) (by norm_num [exPar])).2.2.2.2.2.2.2 2
    (by norm_num)

end GSV.Props.C03Pct

