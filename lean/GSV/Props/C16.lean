/-
  C16 — vector fields from isotropic models are incompressible.

  Everything is stated about `GSV.Summator.summate_incompr`, the definition regenerated from
  `field/summator.pyx` on every run (tie A), instantiated at ℝ, plus the three-term glue of
  `IncomprRandMeth.__call__` (generator.py):
      mean_u * e1 + mean_u * sqrt(var / mode_no) * summed_modes          (nugget = 0).
-/
import GSV.Lemmas.Incompr
import Mathlib.Analysis.SpecialFunctions.Integrals.Basic
import Mathlib.MeasureTheory.Integral.Bochner.Basic
import Mathlib.MeasureTheory.Measure.Typeclasses.Probability
import Mathlib.Probability.ProbabilityMassFunction.Integrals
import Mathlib.Probability.Distributions.Uniform
import Mathlib.MeasureTheory.Integral.Prod
import Mathlib.MeasureTheory.Measure.Lebesgue.Basic
import Mathlib.Analysis.Calculus.FDeriv.Pi
import Mathlib.Analysis.Calculus.FDeriv.Add
import Mathlib.Analysis.Calculus.FDeriv.Mul
namespace GSV.Props.C16
open GSV GSV.Props GSV.Incompr GSV.Summator Finset MeasureTheory

/-! ### the objects -/

/-- component `d` of the kernel's output at the single point `x`
    (`pos` = the `dim × 1` array holding `x`; `cov_samples` is `dim × N`, `z_1`, `z_2` have length `N`) -/
noncomputable def kernelField (k : Nat → Nat → ℝ) (z1 z2 : Nat → ℝ) (dim N d : Nat) (x : Nat → ℝ) : ℝ :=
  summate_incompr k dim N z1 N z2 N (fun d' _ => x d') dim 1 d 0

/-- the projector component the kernel builds for mode `j`: `p_d(k_j) = e1_d − k_d k_0 / |k|²` -/
noncomputable def proj (k : Nat → Nat → ℝ) (dim j d : Nat) : ℝ :=
  e1 d - k d j * k 0 j / absSq k dim j

/-- the phase `⟨k_j, x⟩` -/
noncomputable def phase (k : Nat → Nat → ℝ) (dim j : Nat) (x : Nat → ℝ) : ℝ :=
  ∑ d ∈ range dim, k d j * x d

/-- `IncomprRandMeth.__call__` without nugget: `mean_u·e1 + mean_u·sqrt(var/N)·summed_modes` -/
noncomputable def genField (meanU var : ℝ) (k : Nat → Nat → ℝ) (z1 z2 : Nat → ℝ) (dim N d : Nat)
    (x : Nat → ℝ) : ℝ :=
  meanU * e1 d + meanU * Real.sqrt (var / (N : ℝ)) * kernelField k z1 z2 dim N d x

/-- the kernel's output is the Kraichnan sum (no hypothesis on the wave vectors: pure unfolding) -/
theorem kernelField_eq_sum (k : Nat → Nat → ℝ) (z1 z2 : Nat → ℝ) {dim d : Nat} (N : Nat) (hd : d < dim)
    (x : Nat → ℝ) :
    kernelField k z1 z2 dim N d x =
      ∑ j ∈ range N, proj k dim j d * (z1 j * Real.cos (phase k dim j x) + z2 j * Real.sin (phase k dim j x)) := by
  unfold kernelField proj phase
  rw [summate_incompr_spec, if_pos ⟨hd, Nat.one_pos⟩, incomprCell_real]
  simp only [phaseOf_real]

/-! ### the projector annihilates the wave vector -/

/-- `Σ_d p_d(k)·k_d = 0` whenever `|k|² ≠ 0`, in every dimension ≥ 1, for the projector in the
    code's own form.  Swapping `k_0` for another component, dropping `/|k|²` or moving `e1`
    to another axis makes this false. -/
theorem projector_orthogonal (k : Nat → Nat → ℝ) {dim : Nat} (j : Nat) (hdim : 0 < dim)
    (hk : absSq k dim j ≠ 0) :
    ∑ d ∈ range dim, proj k dim j d * k d j = 0 := by
  unfold proj
  have h1 : ∑ d ∈ range dim, (e1 d - k d j * k 0 j / absSq k dim j) * k d j
      = ∑ d ∈ range dim, (e1 d : ℝ) * k d j - k 0 j / absSq k dim j * ∑ d ∈ range dim, (k d j) ^ 2 := by
    rw [mul_sum, ← sum_sub_distrib]
    refine sum_congr rfl fun d _ => ?_
    ring
  rw [h1, sum_e1_mul (fun d => k d j) hdim, ← absSq_real, div_mul_cancel₀ _ hk, sub_self]

example : absSq (fun d _ => if d = 0 then (3:ℝ) else 4) 2 0 ≠ 0 := by
  rw [absSq_real]; norm_num [sum_range_succ]

/-- the projector only depends on the direction of `k` (so the variance split below is a statement
    about directions) -/
theorem proj_scale_invariant (k : Nat → Nat → ℝ) (dim j d : Nat) (r : ℝ) (hr : r ≠ 0) :
    proj (fun d j => r * k d j) dim j d = proj k dim j d := by
  unfold proj
  rw [absSq_real, absSq_real]
  have : ∑ d ∈ range dim, (r * k d j) ^ 2 = r ^ 2 * ∑ d ∈ range dim, (k d j) ^ 2 := by
    rw [mul_sum]; exact sum_congr rfl fun d _ => by ring
  rw [this]
  by_cases h0 : ∑ d ∈ range dim, (k d j) ^ 2 = 0
  · simp [h0]
  · congr 1
    field_simp

/-! ### divergence -/

/-- the Jacobian entry the code's field has: `∂u_d/∂x_c = Σ_j p_d(k_j)(z₂ cos φ_j − z₁ sin φ_j) k_c` -/
noncomputable def jac (k : Nat → Nat → ℝ) (z1 z2 : Nat → ℝ) (dim N d c : Nat) (x : Nat → ℝ) : ℝ :=
  ∑ j ∈ range N, proj k dim j d *
    (z2 j * Real.cos (phase k dim j x) - z1 j * Real.sin (phase k dim j x)) * k c j

/-- every component of the kernel's field is differentiable along every coordinate line, with the
    derivative `jac` -/
theorem partial_hasDerivAt (k : Nat → Nat → ℝ) (z1 z2 : Nat → ℝ) {dim d c : Nat} (N : Nat)
    (hd : d < dim) (hc : c < dim) (x : Nat → ℝ) :
    HasDerivAt (fun t => kernelField k z1 z2 dim N d (Function.update x c t))
      (jac k z1 z2 dim N d c x) (x c) := by
  have hfun : (fun t => kernelField k z1 z2 dim N d (Function.update x c t)) =
      fun t => ∑ j ∈ range N, proj k dim j d *
        (z1 j * Real.cos (phase k dim j (Function.update x c t)) +
         z2 j * Real.sin (phase k dim j (Function.update x c t))) := by
    funext t; exact kernelField_eq_sum k z1 z2 N hd _
  rw [hfun]
  unfold jac
  have hx : ∀ j, phase k dim j x = phase k dim j (Function.update x c (x c)) := by
    intro j; rw [Function.update_eq_self]
  simp only [hx]
  refine HasDerivAt.fun_sum fun j _ => ?_
  exact hasDerivAt_mode _ _ _ (hasDerivAt_phase (fun d' => k d' j) x hc (x c))

/-- **divergence-free**: for every mode set with non-zero wave vectors, all amplitudes and every
    point, the sum of the diagonal Jacobian entries of the kernel's field vanishes -/
theorem jac_trace_zero (k : Nat → Nat → ℝ) (z1 z2 : Nat → ℝ) {dim : Nat} (N : Nat) (hdim : 0 < dim)
    (hk : ∀ j < N, absSq k dim j ≠ 0) (x : Nat → ℝ) :
    ∑ d ∈ range dim, jac k z1 z2 dim N d d x = 0 := by
  unfold jac
  rw [sum_comm]
  refine sum_eq_zero fun j hj => ?_
  have : ∑ d ∈ range dim, proj k dim j d *
      (z2 j * Real.cos (phase k dim j x) - z1 j * Real.sin (phase k dim j x)) * k d j
      = (z2 j * Real.cos (phase k dim j x) - z1 j * Real.sin (phase k dim j x)) *
        ∑ d ∈ range dim, proj k dim j d * k d j := by
    rw [mul_sum]; exact sum_congr rfl fun d _ => by ring
  rw [this, projector_orthogonal k j hdim (hk j (mem_range.mp hj)), mul_zero]

/-- the hypothesis "all wave vectors are non-zero" is satisfiable by a non-trivial mode set -/
example : ∀ j < 5, absSq (fun d j => (j : ℝ) + 1 + d) 3 j ≠ 0 := by
  intro j _
  rw [absSq_ne_zero_iff]
  exact ⟨0, by norm_num, by positivity⟩

/-- what the theorem excludes: with `k_1` in place of `k_0` in the projector (the edit
    `cov_samples[0, j]` → `cov_samples[1, j]`) the contraction with `k` is `k_0 − k_1`, not `0` -/
example : ∑ d ∈ range 2, ((e1 d : ℝ) - (if d = 0 then 3 else 4) * 4 / (3 ^ 2 + 4 ^ 2)) * (if d = 0 then 3 else 4) = -1 := by
  simp [sum_range_succ, e1_real]
  norm_num

/-- **divergence-free**, in terms of `deriv`: `Σ_d ∂_d u_d(x) = 0` for the kernel output -/
theorem divergence_free (k : Nat → Nat → ℝ) (z1 z2 : Nat → ℝ) {dim : Nat} (N : Nat) (hdim : 0 < dim)
    (hk : ∀ j < N, absSq k dim j ≠ 0) (x : Nat → ℝ) :
    ∑ d ∈ range dim, deriv (fun t => kernelField k z1 z2 dim N d (Function.update x d t)) (x d) = 0 := by
  rw [← jac_trace_zero k z1 z2 N hdim hk x]
  refine sum_congr rfl fun d hd => ?_
  exact (partial_hasDerivAt k z1 z2 N (mem_range.mp hd) (mem_range.mp hd) x).deriv

/-- the same for what `IncomprRandMeth.__call__` returns (mean velocity, variance scaling included):
    each component is differentiable along each axis and the divergence vanishes -/
theorem genField_divergence_free (meanU var : ℝ) (k : Nat → Nat → ℝ) (z1 z2 : Nat → ℝ) {dim : Nat} (N : Nat)
    (hdim : 0 < dim) (hk : ∀ j < N, absSq k dim j ≠ 0) (x : Nat → ℝ) :
    (∀ d < dim, DifferentiableAt ℝ (fun t => genField meanU var k z1 z2 dim N d (Function.update x d t)) (x d)) ∧
    ∑ d ∈ range dim, deriv (fun t => genField meanU var k z1 z2 dim N d (Function.update x d t)) (x d) = 0 := by
  have hD : ∀ d < dim, HasDerivAt (fun t => genField meanU var k z1 z2 dim N d (Function.update x d t))
      (meanU * Real.sqrt (var / (N : ℝ)) * jac k z1 z2 dim N d d x) (x d) := by
    intro d hd
    unfold genField
    exact ((partial_hasDerivAt k z1 z2 N hd hd x).const_mul _).const_add _
  refine ⟨fun d hd => (hD d hd).differentiableAt, ?_⟩
  rw [sum_congr rfl fun d hd => (hD d (mem_range.mp hd)).deriv, ← mul_sum,
    jac_trace_zero k z1 z2 N hdim hk x, mul_zero]

/-- dimension 2, spelled out: `∂₀u₀ + ∂₁u₁ = 0` -/
theorem divergence_free_2d (meanU var : ℝ) (k : Nat → Nat → ℝ) (z1 z2 : Nat → ℝ) (N : Nat)
    (hk : ∀ j < N, (k 0 j) ^ 2 + (k 1 j) ^ 2 ≠ 0) (x : Nat → ℝ) :
    deriv (fun t => genField meanU var k z1 z2 2 N 0 (Function.update x 0 t)) (x 0) +
    deriv (fun t => genField meanU var k z1 z2 2 N 1 (Function.update x 1 t)) (x 1) = 0 := by
  have := (genField_divergence_free meanU var k z1 z2 N (by norm_num : 0 < 2)
    (fun j hj => by rw [absSq_real]; simpa [sum_range_succ] using hk j hj) x).2
  simpa [sum_range_succ] using this

/-- dimension 3, spelled out: `∂₀u₀ + ∂₁u₁ + ∂₂u₂ = 0` -/
theorem divergence_free_3d (meanU var : ℝ) (k : Nat → Nat → ℝ) (z1 z2 : Nat → ℝ) (N : Nat)
    (hk : ∀ j < N, (k 0 j) ^ 2 + (k 1 j) ^ 2 + (k 2 j) ^ 2 ≠ 0) (x : Nat → ℝ) :
    deriv (fun t => genField meanU var k z1 z2 3 N 0 (Function.update x 0 t)) (x 0) +
    deriv (fun t => genField meanU var k z1 z2 3 N 1 (Function.update x 1 t)) (x 1) +
    deriv (fun t => genField meanU var k z1 z2 3 N 2 (Function.update x 2 t)) (x 2) = 0 := by
  have := (genField_divergence_free meanU var k z1 z2 N (by norm_num : 0 < 3)
    (fun j hj => by rw [absSq_real]; simpa [sum_range_succ] using hk j hj) x).2
  simpa [sum_range_succ] using this

/-! ### divergence as the trace of the Fréchet derivative on `ℝ^dim` -/

/-- a point of `ℝ^dim` in the kernel's indexing convention -/
def embed {dim : Nat} (y : Fin dim → ℝ) : Nat → ℝ := fun c => if h : c < dim then y ⟨c, h⟩ else 0

theorem phase_embed (k : Nat → Nat → ℝ) (dim j : Nat) (y : Fin dim → ℝ) :
    phase k dim j (embed y) = ∑ c : Fin dim, k c j * y c := by
  unfold phase embed
  rw [Finset.sum_range]
  simp

/-- the linear functional `v ↦ ⟨k_j, v⟩` on `ℝ^dim` -/
noncomputable def kDual (k : Nat → Nat → ℝ) (dim j : Nat) : (Fin dim → ℝ) →L[ℝ] ℝ :=
  ∑ c : Fin dim, k c j • ContinuousLinearMap.proj (R := ℝ) (φ := fun _ : Fin dim => ℝ) c

theorem kDual_apply (k : Nat → Nat → ℝ) (dim j : Nat) (v : Fin dim → ℝ) :
    kDual k dim j v = ∑ c : Fin dim, k c j * v c := by
  simp [kDual]

theorem hasFDerivAt_phase_embed (k : Nat → Nat → ℝ) (dim j : Nat) (y : Fin dim → ℝ) :
    HasFDerivAt (fun y : Fin dim → ℝ => phase k dim j (embed y)) (kDual k dim j) y := by
  have : (fun y : Fin dim → ℝ => phase k dim j (embed y)) = fun y => kDual k dim j y := by
    funext y; rw [phase_embed, kDual_apply]
  rw [this]
  exact (kDual k dim j).hasFDerivAt

/-- each component of the kernel's field is Fréchet differentiable on `ℝ^dim` -/
theorem kernelField_hasFDerivAt (k : Nat → Nat → ℝ) (z1 z2 : Nat → ℝ) {dim d : Nat} (N : Nat) (hd : d < dim)
    (y : Fin dim → ℝ) :
    HasFDerivAt (fun y : Fin dim → ℝ => kernelField k z1 z2 dim N d (embed y))
      (∑ j ∈ range N, (proj k dim j d * (z2 j * Real.cos (phase k dim j (embed y)) -
          z1 j * Real.sin (phase k dim j (embed y)))) • kDual k dim j) y := by
  have hfun : (fun y : Fin dim → ℝ => kernelField k z1 z2 dim N d (embed y)) =
      fun y => ∑ j ∈ range N, proj k dim j d *
        (z1 j * Real.cos (phase k dim j (embed y)) + z2 j * Real.sin (phase k dim j (embed y))) := by
    funext y; exact kernelField_eq_sum k z1 z2 N hd _
  rw [hfun]
  refine HasFDerivAt.fun_sum fun j _ => ?_
  have hφ := hasFDerivAt_phase_embed k dim j y
  have := ((hφ.cos.const_mul (z1 j)).add (hφ.sin.const_mul (z2 j))).const_mul (proj k dim j d)
  refine this.congr_fderiv ?_
  ext v
  simp
  ring

/-- **divergence-free, Fréchet form**: the trace of the Jacobian of the kernel's field on `ℝ^dim` vanishes -/
theorem divergence_free_fderiv (k : Nat → Nat → ℝ) (z1 z2 : Nat → ℝ) {dim : Nat} (N : Nat) (hdim : 0 < dim)
    (hk : ∀ j < N, absSq k dim j ≠ 0) (y : Fin dim → ℝ) :
    ∑ d : Fin dim, fderiv ℝ (fun y : Fin dim → ℝ => kernelField k z1 z2 dim N d (embed y)) y (Pi.single d 1) = 0 := by
  have h := jac_trace_zero k z1 z2 N hdim hk (embed y)
  rw [Finset.sum_range] at h
  rw [← h]
  refine Finset.sum_congr rfl fun d _ => ?_
  rw [(kernelField_hasFDerivAt k z1 z2 N d.isLt y).fderiv]
  unfold jac
  simp only [_root_.sum_apply, smul_apply, kDual_apply, smul_eq_mul]
  refine Finset.sum_congr rfl fun j _ => ?_
  simp [Pi.single_apply]

/-- the same for the generator's output `mean_u e1 + mean_u √(var/N) · kernel` -/
theorem genField_divergence_free_fderiv (meanU var : ℝ) (k : Nat → Nat → ℝ) (z1 z2 : Nat → ℝ) {dim : Nat} (N : Nat)
    (hdim : 0 < dim) (hk : ∀ j < N, absSq k dim j ≠ 0) (y : Fin dim → ℝ) :
    (∀ d < dim, DifferentiableAt ℝ (fun y : Fin dim → ℝ => genField meanU var k z1 z2 dim N d (embed y)) y) ∧
    ∑ d : Fin dim, fderiv ℝ (fun y : Fin dim → ℝ => genField meanU var k z1 z2 dim N d (embed y)) y (Pi.single d 1) = 0 := by
  have hD : ∀ d < dim, HasFDerivAt (fun y : Fin dim → ℝ => genField meanU var k z1 z2 dim N d (embed y))
      ((meanU * Real.sqrt (var / (N : ℝ))) •
        fderiv ℝ (fun y : Fin dim → ℝ => kernelField k z1 z2 dim N d (embed y)) y) y := by
    intro d hd
    unfold genField
    have h := (kernelField_hasFDerivAt k z1 z2 N hd y)
    rw [← h.fderiv] at h
    exact (h.const_mul _).const_add _
  refine ⟨fun d hd => (hD d hd).differentiableAt, ?_⟩
  have : ∀ d : Fin dim, fderiv ℝ (fun y : Fin dim → ℝ => genField meanU var k z1 z2 dim N d (embed y)) y (Pi.single d 1)
      = (meanU * Real.sqrt (var / (N : ℝ))) *
        fderiv ℝ (fun y : Fin dim → ℝ => kernelField k z1 z2 dim N d (embed y)) y (Pi.single d 1) := by
    intro d
    rw [(hD d d.isLt).fderiv]
    simp
  simp only [this]
  rw [← Finset.mul_sum, divergence_free_fderiv k z1 z2 N hdim hk y, mul_zero]

/-! ### mean -/

/-- **mean**: for any fixed mode set, if the amplitudes are integrable with zero mean, the
    expectation of the generated field at any point is `mean_u · e1` — the mean velocity along axis 0
    and zero along the others. -/
theorem mean_given_modes {Ω : Type} [MeasurableSpace Ω] (μ : Measure Ω) [IsProbabilityMeasure μ]
    (meanU var : ℝ) (k : Nat → Nat → ℝ) {dim d : Nat} (N : Nat) (hd : d < dim)
    (Z1 Z2 : Nat → Ω → ℝ)
    (hi1 : ∀ j < N, Integrable (Z1 j) μ) (hi2 : ∀ j < N, Integrable (Z2 j) μ)
    (hm1 : ∀ j < N, ∫ ω, Z1 j ω ∂μ = 0) (hm2 : ∀ j < N, ∫ ω, Z2 j ω ∂μ = 0) (x : Nat → ℝ) :
    ∫ ω, genField meanU var k (fun j => Z1 j ω) (fun j => Z2 j ω) dim N d x ∂μ
      = meanU * (if d = 0 then 1 else 0) := by
  unfold genField
  simp only [kernelField_eq_sum k _ _ N hd x]
  have hterm : ∀ j ∈ range N, Integrable (fun ω => proj k dim j d *
      (Z1 j ω * Real.cos (phase k dim j x) + Z2 j ω * Real.sin (phase k dim j x))) μ := by
    intro j hj
    exact (((hi1 j (mem_range.mp hj)).mul_const _).add ((hi2 j (mem_range.mp hj)).mul_const _)).const_mul _
  have hsum : Integrable (fun ω => ∑ j ∈ range N, proj k dim j d *
      (Z1 j ω * Real.cos (phase k dim j x) + Z2 j ω * Real.sin (phase k dim j x))) μ :=
    integrable_finsetSum _ hterm
  rw [integral_add (integrable_const _) (hsum.const_mul _), integral_const, integral_const_mul,
    integral_finsetSum _ hterm]
  have hz : ∀ j ∈ range N, ∫ ω, proj k dim j d *
      (Z1 j ω * Real.cos (phase k dim j x) + Z2 j ω * Real.sin (phase k dim j x)) ∂μ = 0 := by
    intro j hj
    have hj' := mem_range.mp hj
    rw [integral_const_mul, integral_add ((hi1 j hj').mul_const _) ((hi2 j hj').mul_const _),
      integral_mul_const, integral_mul_const, hm1 j hj', hm2 j hj']
    ring
  rw [sum_eq_zero hz, e1_real]
  simp

/-- two fair coins: a concrete probability space carrying two uncorrelated ±1 amplitudes -/
noncomputable def coin2 : Measure (Bool × Bool) := (PMF.uniformOfFintype (Bool × Bool)).toMeasure

noncomputable instance : IsProbabilityMeasure coin2 := by unfold coin2; infer_instance

theorem integral_coin2 (f : Bool × Bool → ℝ) :
    ∫ ω, f ω ∂coin2 = (f (true, true) + f (true, false) + f (false, true) + f (false, false)) / 4 := by
  unfold coin2
  rw [PMF.integral_eq_sum]
  simp only [PMF.uniformOfFintype_apply, Fintype.sum_prod_type, Fintype.sum_bool, smul_eq_mul]
  simp
  ring

/-- ±1 -/
def sgn (b : Bool) : ℝ := if b then 1 else -1

/-- the hypotheses of `mean_given_modes` are satisfiable by non-constant amplitudes -/
example (meanU var : ℝ) (k : Nat → Nat → ℝ) (x : Nat → ℝ) :
    ∫ ω, genField meanU var k (fun _ => sgn ω.1) (fun _ => sgn ω.2) 2 1 0 x ∂coin2 = meanU * 1 := by
  have := mean_given_modes coin2 meanU var k (dim := 2) (d := 0) 1 (by norm_num)
    (fun _ ω => sgn ω.1) (fun _ ω => sgn ω.2) (fun _ _ => Integrable.of_finite) (fun _ _ => Integrable.of_finite)
    (fun _ _ => by rw [integral_coin2]; simp [sgn]) (fun _ _ => by rw [integral_coin2]; simp [sgn]) x
  simpa using this

/-! ### variance split over directions -/

/-- the unit wave vector of direction angle `a` in 2-D, as `RNG.sample_sphere(2)` builds it -/
noncomputable def dir2 (a : ℝ) : Nat → Nat → ℝ := fun d _ => if d = 0 then Real.cos a else Real.sin a

theorem absSq_dir2 (r a : ℝ) : absSq (fun d j => r * dir2 a d j) 2 0 = r ^ 2 := by
  rw [absSq_real]
  simp only [dir2, sum_range_succ, sum_range_zero]
  norm_num
  have := Real.sin_sq_add_cos_sq a
  nlinarith [this]

theorem proj_dir2_0 (r a : ℝ) (hr : r ≠ 0) :
    proj (fun d j => r * dir2 a d j) 2 0 0 = Real.sin a ^ 2 := by
  unfold proj
  rw [absSq_dir2, e1_real]
  simp only [dir2, if_true]
  have := Real.sin_sq_add_cos_sq a
  field_simp
  nlinarith [this]

theorem proj_dir2_1 (r a : ℝ) (hr : r ≠ 0) :
    proj (fun d j => r * dir2 a d j) 2 0 1 = -(Real.sin a * Real.cos a) := by
  unfold proj
  rw [absSq_dir2, e1_real]
  simp only [dir2]
  norm_num
  field_simp

/-- **variance split, 2-D**: averaged over a uniformly distributed direction, the squared projector
    components are `3/8` (axis 0) and `1/8` (axis 1) -/
theorem variance_split_2d (r : ℝ) (hr : r ≠ 0) :
    (1 / (2 * Real.pi)) * ∫ a in (0:ℝ)..(2 * Real.pi), (proj (fun d j => r * dir2 a d j) 2 0 0) ^ 2 = 3 / 8 ∧
    (1 / (2 * Real.pi)) * ∫ a in (0:ℝ)..(2 * Real.pi), (proj (fun d j => r * dir2 a d j) 2 0 1) ^ 2 = 1 / 8 := by
  have hpi : Real.pi ≠ 0 := Real.pi_ne_zero
  constructor
  · simp only [proj_dir2_0 r _ hr, ← pow_mul]
    have h4 : ∫ a in (0:ℝ)..(2 * Real.pi), Real.sin a ^ (2 * 2) = 3 * Real.pi / 4 := by
      rw [show 2 * 2 = 2 + 2 from rfl, integral_sin_pow, integral_sin_sq]
      simp only [Real.sin_zero, Real.sin_two_pi, Real.cos_zero, Real.cos_two_pi]
      norm_num
      ring
    rw [h4]; field_simp; ring
  · simp only [proj_dir2_1 r _ hr]
    have h : ∫ a in (0:ℝ)..(2 * Real.pi), (-(Real.sin a * Real.cos a)) ^ 2 = Real.pi / 4 := by
      have := @integral_sin_sq_mul_cos_sq 0 (2 * Real.pi)
      have e : ∀ a : ℝ, (-(Real.sin a * Real.cos a)) ^ 2 = Real.sin a ^ 2 * Real.cos a ^ 2 := fun a => by ring
      simp only [e]
      rw [this]
      have : Real.sin (4 * (2 * Real.pi)) = 0 := by
        have := Real.sin_nat_mul_pi 8
        rw [show 4 * (2 * Real.pi) = ((8:ℕ):ℝ) * Real.pi by push_cast; ring]; exact this
      rw [this]; simp; ring
    rw [h]; field_simp; ring

/-- the unit wave vector `RNG.sample_sphere(3)` builds from an angle `a` and a height `w`:
    `(√(1−w²) cos a, √(1−w²) sin a, w)`; uniform on the sphere for `a ~ U(0,2π)`, `w ~ U(−1,1)` (Archimedes) -/
noncomputable def dir3 (a w : ℝ) : Nat → Nat → ℝ := fun d _ =>
  if d = 0 then Real.sqrt (1 - w ^ 2) * Real.cos a else if d = 1 then Real.sqrt (1 - w ^ 2) * Real.sin a else w

theorem absSq_dir3 (r a w : ℝ) (hw : w ∈ Set.uIcc (-1:ℝ) 1) :
    absSq (fun d j => r * dir3 a w d j) 3 0 = r ^ 2 := by
  rw [Set.uIcc_of_le (by norm_num)] at hw
  have h1 : 0 ≤ 1 - w ^ 2 := by nlinarith [hw.1, hw.2]
  rw [absSq_real]
  simp only [dir3, sum_range_succ, sum_range_zero]
  norm_num
  have hs := Real.sq_sqrt h1
  have := Real.sin_sq_add_cos_sq a
  have e : (r * (Real.sqrt (1 - w ^ 2) * Real.cos a)) ^ 2 + (r * (Real.sqrt (1 - w ^ 2) * Real.sin a)) ^ 2 + (r * w) ^ 2
      = r ^ 2 * (Real.sqrt (1 - w ^ 2) ^ 2 * (Real.sin a ^ 2 + Real.cos a ^ 2) + w ^ 2) := by ring
  rw [e, hs, this]; ring

theorem proj_dir3_sq (r a w : ℝ) (hr : r ≠ 0) (hw : w ∈ Set.uIcc (-1:ℝ) 1) :
    (proj (fun d j => r * dir3 a w d j) 3 0 0) ^ 2
        = 1 + (-2 * Real.cos a ^ 2 + Real.cos a ^ 4) + (2 * Real.cos a ^ 2 - 2 * Real.cos a ^ 4) * w ^ 2
            + Real.cos a ^ 4 * w ^ 4 ∧
    (proj (fun d j => r * dir3 a w d j) 3 0 1) ^ 2
        = Real.sin a ^ 2 * Real.cos a ^ 2 + (-2 * (Real.sin a ^ 2 * Real.cos a ^ 2)) * w ^ 2
            + Real.sin a ^ 2 * Real.cos a ^ 2 * w ^ 4 ∧
    (proj (fun d j => r * dir3 a w d j) 3 0 2) ^ 2
        = 0 + Real.cos a ^ 2 * w ^ 2 + (-Real.cos a ^ 2) * w ^ 4 := by
  have hw' := hw
  rw [Set.uIcc_of_le (by norm_num)] at hw'
  have h1 : 0 ≤ 1 - w ^ 2 := by nlinarith [hw'.1, hw'.2]
  have hs := Real.sq_sqrt h1
  unfold proj
  rw [absSq_dir3 r a w hw]
  simp only [e1_real, dir3]
  norm_num
  have hr2 : r ^ 2 ≠ 0 := pow_ne_zero 2 hr
  set s := Real.sqrt (1 - w ^ 2) with hsdef
  refine ⟨?_, ?_, ?_⟩
  · have : r * (s * Real.cos a) * (r * (s * Real.cos a)) / r ^ 2 = s ^ 2 * Real.cos a ^ 2 := by
      field_simp
    rw [this, hs]; ring
  · have : r * (s * Real.sin a) * (r * (s * Real.cos a)) / r ^ 2 = s ^ 2 * (Real.sin a * Real.cos a) := by
      field_simp
    rw [this, hs]; ring
  · have : r * w * (r * (s * Real.cos a)) / r ^ 2 = w * s * Real.cos a := by
      field_simp
    rw [this]
    have : (w * s * Real.cos a) ^ 2 = w ^ 2 * s ^ 2 * Real.cos a ^ 2 := by ring
    rw [this, hs]; ring

/-- **variance split, 3-D**: averaged over a uniformly distributed direction on the sphere (in the
    sampler's own parametrisation), the squared projector components are `8/15`, `1/15`, `1/15` -/
theorem variance_split_3d (r : ℝ) (hr : r ≠ 0) :
    (1 / (4 * Real.pi)) * ∫ a in (0:ℝ)..(2 * Real.pi), ∫ w in (-1:ℝ)..1,
        (proj (fun d j => r * dir3 a w d j) 3 0 0) ^ 2 = 8 / 15 ∧
    (1 / (4 * Real.pi)) * ∫ a in (0:ℝ)..(2 * Real.pi), ∫ w in (-1:ℝ)..1,
        (proj (fun d j => r * dir3 a w d j) 3 0 1) ^ 2 = 1 / 15 ∧
    (1 / (4 * Real.pi)) * ∫ a in (0:ℝ)..(2 * Real.pi), ∫ w in (-1:ℝ)..1,
        (proj (fun d j => r * dir3 a w d j) 3 0 2) ^ 2 = 1 / 15 := by
  have hpi : Real.pi ≠ 0 := Real.pi_ne_zero
  have i0 : ∀ a : ℝ, ∫ w in (-1:ℝ)..1, (proj (fun d j => r * dir3 a w d j) 3 0 0) ^ 2
      = 2 * (1 + (-2 * Real.cos a ^ 2 + Real.cos a ^ 4)) + 2 / 3 * (2 * Real.cos a ^ 2 - 2 * Real.cos a ^ 4)
        + 2 / 5 * Real.cos a ^ 4 := by
    intro a
    rw [intervalIntegral.integral_congr (fun w hw => (proj_dir3_sq r a w hr hw).1)]
    exact integral_even_quartic _ _ _
  have i1 : ∀ a : ℝ, ∫ w in (-1:ℝ)..1, (proj (fun d j => r * dir3 a w d j) 3 0 1) ^ 2
      = 2 * (Real.sin a ^ 2 * Real.cos a ^ 2) + 2 / 3 * (-2 * (Real.sin a ^ 2 * Real.cos a ^ 2))
        + 2 / 5 * (Real.sin a ^ 2 * Real.cos a ^ 2) := by
    intro a
    rw [intervalIntegral.integral_congr (fun w hw => (proj_dir3_sq r a w hr hw).2.1)]
    exact integral_even_quartic _ _ _
  have i2 : ∀ a : ℝ, ∫ w in (-1:ℝ)..1, (proj (fun d j => r * dir3 a w d j) 3 0 2) ^ 2
      = 2 * 0 + 2 / 3 * Real.cos a ^ 2 + 2 / 5 * (-Real.cos a ^ 2) := by
    intro a
    rw [intervalIntegral.integral_congr (fun w hw => (proj_dir3_sq r a w hr hw).2.2)]
    exact integral_even_quartic _ _ _
  refine ⟨?_, ?_, ?_⟩
  · simp only [i0]
    have e : ∀ a : ℝ, 2 * (1 + (-2 * Real.cos a ^ 2 + Real.cos a ^ 4)) + 2 / 3 * (2 * Real.cos a ^ 2 - 2 * Real.cos a ^ 4)
        + 2 / 5 * Real.cos a ^ 4 = 2 + (-8 / 3) * Real.cos a ^ 2 + (16 / 15) * Real.cos a ^ 4 := fun a => by ring
    simp only [e]
    rw [integral_cos_quartic_two_pi]
    field_simp
    ring
  · simp only [i1]
    have e : ∀ a : ℝ, 2 * (Real.sin a ^ 2 * Real.cos a ^ 2) + 2 / 3 * (-2 * (Real.sin a ^ 2 * Real.cos a ^ 2))
        + 2 / 5 * (Real.sin a ^ 2 * Real.cos a ^ 2) = (16 / 15) * (Real.sin a ^ 2 * Real.cos a ^ 2) := fun a => by ring
    simp only [e]
    rw [intervalIntegral.integral_const_mul, integral_sin_sq_mul_cos_sq_two_pi]
    field_simp
    ring
  · simp only [i2]
    have e : ∀ a : ℝ, 2 * 0 + 2 / 3 * Real.cos a ^ 2 + 2 / 5 * (-Real.cos a ^ 2) = (4 / 15) * Real.cos a ^ 2 := fun a => by ring
    simp only [e]
    rw [intervalIntegral.integral_const_mul, integral_cos_sq_two_pi]
    field_simp

/-! ### variance for a fixed mode set -/

/-- the squared projector components add up to the axis-0 component: `Σ_d p_d² = 1 − k_0²/|k|² = p_0`
    (so the shares add up to `E sin²` of the polar angle: 1/2 in 2-D, 2/3 in 3-D) -/
theorem proj_norm_sq (k : Nat → Nat → ℝ) {dim : Nat} (j : Nat) (hdim : 0 < dim) (hk : absSq k dim j ≠ 0) :
    ∑ d ∈ range dim, proj k dim j d ^ 2 = proj k dim j 0 := by
  have horth := projector_orthogonal k j hdim hk
  have h1 : ∀ d ∈ range dim, proj k dim j d ^ 2
      = (e1 d : ℝ) * proj k dim j d - k 0 j / absSq k dim j * (proj k dim j d * k d j) := by
    intro d _
    unfold proj; ring
  rw [sum_congr rfl h1, sum_sub_distrib, ← mul_sum, horth, mul_zero, sub_zero, sum_e1_mul _ hdim]

/-- **variance for fixed modes**: if the amplitudes are square-integrable, uncorrelated and of unit
    second moment, the second moment of `u_d(x) − mean_u·e1_d` is `mean_u² · var/N · Σ_j p_d(k_j)²` at
    every point.  Together with `variance_split_2d/3d` (average of `p_d²` over a uniform direction)
    this is the split `mean_u²·var·(3/8, 1/8)` resp. `(8/15, 1/15, 1/15)`. -/
theorem variance_given_modes {Ω : Type} [MeasurableSpace Ω] (μ : Measure Ω)
    (meanU var : ℝ) (hvar : 0 ≤ var) (k : Nat → Nat → ℝ) {dim d : Nat} (N : Nat) (hd : d < dim)
    (Z1 Z2 : Nat → Ω → ℝ)
    (hL1 : ∀ j < N, MemLp (Z1 j) 2 μ) (hL2 : ∀ j < N, MemLp (Z2 j) 2 μ)
    (h11 : ∀ i < N, ∀ j < N, ∫ ω, Z1 i ω * Z1 j ω ∂μ = if i = j then 1 else 0)
    (h22 : ∀ i < N, ∀ j < N, ∫ ω, Z2 i ω * Z2 j ω ∂μ = if i = j then 1 else 0)
    (h12 : ∀ i < N, ∀ j < N, ∫ ω, Z1 i ω * Z2 j ω ∂μ = 0) (x : Nat → ℝ) :
    ∫ ω, (genField meanU var k (fun j => Z1 j ω) (fun j => Z2 j ω) dim N d x - meanU * e1 d) ^ 2 ∂μ
      = meanU ^ 2 * (var / (N : ℝ)) * ∑ j ∈ range N, proj k dim j d ^ 2 := by
  set c : Nat → ℝ := fun j => Real.cos (phase k dim j x) with hc
  set s : Nat → ℝ := fun j => Real.sin (phase k dim j x) with hs
  set ξ : Nat → Ω → ℝ := fun j ω => Z1 j ω * c j + Z2 j ω * s j with hξ
  have hfield : ∀ ω, (genField meanU var k (fun j => Z1 j ω) (fun j => Z2 j ω) dim N d x - meanU * e1 d) ^ 2
      = meanU ^ 2 * (var / (N : ℝ)) * (∑ j ∈ range N, proj k dim j d * ξ j ω) ^ 2 := by
    intro ω
    unfold genField
    rw [kernelField_eq_sum k _ _ N hd x, add_sub_cancel_left, mul_pow, mul_pow,
      Real.sq_sqrt (div_nonneg hvar (Nat.cast_nonneg N))]
  have i11 : ∀ i < N, ∀ j < N, Integrable (fun ω => Z1 i ω * Z1 j ω) μ := fun i hi j hj =>
    (hL1 i hi).integrable_mul (hL1 j hj)
  have i22 : ∀ i < N, ∀ j < N, Integrable (fun ω => Z2 i ω * Z2 j ω) μ := fun i hi j hj =>
    (hL2 i hi).integrable_mul (hL2 j hj)
  have i12 : ∀ i < N, ∀ j < N, Integrable (fun ω => Z1 i ω * Z2 j ω) μ := fun i hi j hj =>
    (hL1 i hi).integrable_mul (hL2 j hj)
  have hexp : ∀ i j ω, ξ i ω * ξ j ω = (c i * c j) * (Z1 i ω * Z1 j ω) + (c i * s j) * (Z1 i ω * Z2 j ω)
      + ((s i * c j) * (Z1 j ω * Z2 i ω) + (s i * s j) * (Z2 i ω * Z2 j ω)) := by
    intro i j ω; simp only [hξ]; ring
  have hint : ∀ i < N, ∀ j < N, Integrable (fun ω => ξ i ω * ξ j ω) μ := by
    intro i hi j hj
    simp only [hexp]
    exact (((i11 i hi j hj).const_mul _).add ((i12 i hi j hj).const_mul _)).add
      (((i12 j hj i hi).const_mul _).add ((i22 i hi j hj).const_mul _))
  have horth : ∀ i < N, ∀ j < N, ∫ ω, ξ i ω * ξ j ω ∂μ = if i = j then 1 else 0 := by
    intro i hi j hj
    simp only [hexp]
    have ia : Integrable (fun ω => c i * c j * (Z1 i ω * Z1 j ω)) μ := (i11 i hi j hj).const_mul _
    have ib : Integrable (fun ω => c i * s j * (Z1 i ω * Z2 j ω)) μ := (i12 i hi j hj).const_mul _
    have ic : Integrable (fun ω => s i * c j * (Z1 j ω * Z2 i ω)) μ := (i12 j hj i hi).const_mul _
    have id' : Integrable (fun ω => s i * s j * (Z2 i ω * Z2 j ω)) μ := (i22 i hi j hj).const_mul _
    have iab : Integrable (fun ω => c i * c j * (Z1 i ω * Z1 j ω) + c i * s j * (Z1 i ω * Z2 j ω)) μ := ia.add ib
    have icd : Integrable (fun ω => s i * c j * (Z1 j ω * Z2 i ω) + s i * s j * (Z2 i ω * Z2 j ω)) μ := ic.add id'
    rw [integral_add iab icd, integral_add ia ib, integral_add ic id',
      integral_const_mul, integral_const_mul, integral_const_mul, integral_const_mul,
      h11 i hi j hj, h22 i hi j hj, h12 i hi j hj, h12 j hj i hi]
    by_cases hij : i = j
    · subst hij
      simp only [if_true, hc, hs]
      have := Real.sin_sq_add_cos_sq (phase k dim i x)
      nlinarith [this]
    · simp [hij]
  simp only [hfield]
  rw [integral_const_mul, integral_sq_sum_orthonormal μ N _ ξ hint horth]

/-- the hypotheses of `variance_given_modes` are satisfiable (two independent fair ±1 coins) -/
example (meanU var : ℝ) (hvar : 0 ≤ var) (k : Nat → Nat → ℝ) (x : Nat → ℝ) :
    ∫ ω, (genField meanU var k (fun _ => sgn ω.1) (fun _ => sgn ω.2) 2 1 0 x - meanU * e1 0) ^ 2 ∂coin2
      = meanU ^ 2 * (var / ((1:ℕ):ℝ)) * ∑ j ∈ range 1, proj k 2 j 0 ^ 2 :=
  variance_given_modes coin2 meanU var hvar k (dim := 2) (d := 0) 1 (by norm_num)
    (fun _ ω => sgn ω.1) (fun _ ω => sgn ω.2) (fun _ _ => MemLp.of_discrete) (fun _ _ => MemLp.of_discrete)
    (fun i hi j hj => by
      obtain rfl : i = 0 := by omega
      obtain rfl : j = 0 := by omega
      rw [integral_coin2]; simp [sgn]; norm_num)
    (fun i hi j hj => by
      obtain rfl : i = 0 := by omega
      obtain rfl : j = 0 := by omega
      rw [integral_coin2]; simp [sgn]; norm_num)
    (fun i hi j hj => by rw [integral_coin2]; simp [sgn]) x

/-! ### random modes, independent of the amplitudes (product space, iterated expectation) -/

/-- `proj` only reads column `j` of the mode array -/
theorem proj_congr_col (k k' : Nat → Nat → ℝ) (dim j j' d : Nat) (h : ∀ c, k c j = k' c j') :
    proj k dim j d = proj k' dim j' d := by
  unfold proj
  rw [absSq_real, absSq_real]
  simp only [h]

/-- second moment with random modes `K` on their own probability space `Ωk` and amplitudes on `Ωz`
    (independence = product structure): the expectation over the amplitudes, then over the modes -/
theorem variance_random_modes {Ωk Ωz : Type} [MeasurableSpace Ωk] [MeasurableSpace Ωz]
    (μk : Measure Ωk) (μz : Measure Ωz)
    (meanU var : ℝ) (hvar : 0 ≤ var) (K : Ωk → Nat → Nat → ℝ) {dim d : Nat} (N : Nat) (hd : d < dim)
    (Z1 Z2 : Nat → Ωz → ℝ)
    (hL1 : ∀ j < N, MemLp (Z1 j) 2 μz) (hL2 : ∀ j < N, MemLp (Z2 j) 2 μz)
    (h11 : ∀ i < N, ∀ j < N, ∫ ω, Z1 i ω * Z1 j ω ∂μz = if i = j then 1 else 0)
    (h22 : ∀ i < N, ∀ j < N, ∫ ω, Z2 i ω * Z2 j ω ∂μz = if i = j then 1 else 0)
    (h12 : ∀ i < N, ∀ j < N, ∫ ω, Z1 i ω * Z2 j ω ∂μz = 0)
    (hint : ∀ j < N, Integrable (fun ωk => proj (K ωk) dim j d ^ 2) μk) (x : Nat → ℝ) :
    ∫ ωk, ∫ ωz, (genField meanU var (K ωk) (fun j => Z1 j ωz) (fun j => Z2 j ωz) dim N d x - meanU * e1 d) ^ 2 ∂μz ∂μk
      = meanU ^ 2 * (var / (N : ℝ)) * ∑ j ∈ range N, ∫ ωk, proj (K ωk) dim j d ^ 2 ∂μk := by
  simp only [variance_given_modes μz meanU var hvar _ N hd Z1 Z2 hL1 hL2 h11 h22 h12 x]
  rw [integral_const_mul, integral_finsetSum _ fun j hj => hint j (mem_range.mp hj)]

/-- **mean, random modes**: whatever the distribution of the mode set (independent of zero-mean
    amplitudes), the expectation of the field is `mean_u · e1` -/
theorem mean_random_modes {Ωk Ωz : Type} [MeasurableSpace Ωk] [MeasurableSpace Ωz]
    (μk : Measure Ωk) [IsProbabilityMeasure μk] (μz : Measure Ωz) [IsProbabilityMeasure μz]
    (meanU var : ℝ) (K : Ωk → Nat → Nat → ℝ) {dim d : Nat} (N : Nat) (hd : d < dim)
    (Z1 Z2 : Nat → Ωz → ℝ)
    (hi1 : ∀ j < N, Integrable (Z1 j) μz) (hi2 : ∀ j < N, Integrable (Z2 j) μz)
    (hm1 : ∀ j < N, ∫ ω, Z1 j ω ∂μz = 0) (hm2 : ∀ j < N, ∫ ω, Z2 j ω ∂μz = 0) (x : Nat → ℝ) :
    ∫ ωk, ∫ ωz, genField meanU var (K ωk) (fun j => Z1 j ωz) (fun j => Z2 j ωz) dim N d x ∂μz ∂μk
      = meanU * (if d = 0 then 1 else 0) := by
  simp only [mean_given_modes μz meanU var _ N hd Z1 Z2 hi1 hi2 hm1 hm2 x]
  simp

/-- **variance split, 2-D, end to end**: wave vectors `k_j = R_j · (cos A_j, sin A_j)` with non-zero
    radii and direction angles uniformly distributed on `(0, 2π]`, amplitudes square-integrable,
    uncorrelated with unit second moment and living on an independent space: the second moment of
    `u_d(x) − mean_u e1_d` is `mean_u² · var · 3/8` for `d = 0` and `mean_u² · var · 1/8` for `d = 1`. -/
theorem variance_split_2d_total {Ωk Ωz : Type} [MeasurableSpace Ωk] [MeasurableSpace Ωz]
    (μk : Measure Ωk) (μz : Measure Ωz)
    (meanU var : ℝ) (hvar : 0 ≤ var) (N : Nat) (hN : 0 < N)
    (R A : Nat → Ωk → ℝ) (hR : ∀ j < N, ∀ ω, R j ω ≠ 0)
    (hA : ∀ j < N, AEMeasurable (A j) μk)
    (hlaw : ∀ j < N, μk.map (A j) = ENNReal.ofReal (1 / (2 * Real.pi)) • volume.restrict (Set.Ioc 0 (2 * Real.pi)))
    (Z1 Z2 : Nat → Ωz → ℝ)
    (hL1 : ∀ j < N, MemLp (Z1 j) 2 μz) (hL2 : ∀ j < N, MemLp (Z2 j) 2 μz)
    (h11 : ∀ i < N, ∀ j < N, ∫ ω, Z1 i ω * Z1 j ω ∂μz = if i = j then 1 else 0)
    (h22 : ∀ i < N, ∀ j < N, ∫ ω, Z2 i ω * Z2 j ω ∂μz = if i = j then 1 else 0)
    (h12 : ∀ i < N, ∀ j < N, ∫ ω, Z1 i ω * Z2 j ω ∂μz = 0) (x : Nat → ℝ) (d : Nat) (hd : d < 2) :
    ∫ ωk, ∫ ωz, (genField meanU var (fun c j => R j ωk * dir2 (A j ωk) c j) (fun j => Z1 j ωz) (fun j => Z2 j ωz)
        2 N d x - meanU * e1 d) ^ 2 ∂μz ∂μk
      = meanU ^ 2 * var * (if d = 0 then 3 / 8 else 1 / 8) := by
  have hpi : (0:ℝ) ≤ 2 * Real.pi := by positivity
  -- the squared projector as a function of the direction angle
  set g : ℝ → ℝ := fun a => if d = 0 then Real.sin a ^ 4 else Real.sin a ^ 2 * Real.cos a ^ 2 with hg
  have hgc : Continuous g := by
    simp only [hg]; split <;> fun_prop
  have hproj : ∀ j < N, ∀ ω, proj (fun c j => R j ω * dir2 (A j ω) c j) 2 j d ^ 2 = g (A j ω) := by
    intro j hj ω
    rw [proj_congr_col _ (fun c j' => R j ω * dir2 (A j ω) c j') 2 j 0 d (fun c => rfl)]
    have hd' : d = 0 ∨ d = 1 := by omega
    rcases hd' with rfl | rfl
    · rw [proj_dir2_0 _ _ (hR j hj ω)]; simp only [hg, if_true]; ring
    · rw [proj_dir2_1 _ _ (hR j hj ω)]; simp only [hg]; norm_num; ring
  have hmean : ∀ j < N, ∫ ω, g (A j ω) ∂μk = if d = 0 then 3 / 8 else 1 / 8 := by
    intro j hj
    rw [← integral_map (hA j hj) hgc.aestronglyMeasurable, hlaw j hj, integral_smul_measure,
      ← intervalIntegral.integral_of_le hpi, ENNReal.toReal_ofReal (by positivity)]
    simp only [hg]
    have hpi' : Real.pi ≠ 0 := Real.pi_ne_zero
    split
    · rw [integral_sin_pow_four_two_pi]; simp only [smul_eq_mul]; field_simp; ring
    · rw [integral_sin_sq_mul_cos_sq_two_pi]; simp only [smul_eq_mul]; field_simp; ring
  have hint : ∀ j < N, Integrable (fun ω => proj (fun c j => R j ω * dir2 (A j ω) c j) 2 j d ^ 2) μk := by
    intro j hj
    simp only [hproj j hj]
    have : Integrable g (μk.map (A j)) := by
      rw [hlaw j hj]
      refine Integrable.smul_measure ?_ ENNReal.ofReal_ne_top
      have := hgc.integrableOn_Icc (a := (0:ℝ)) (b := 2 * Real.pi) (μ := volume)
      exact this.mono_set Set.Ioc_subset_Icc_self
    exact (integrable_map_measure hgc.aestronglyMeasurable (hA j hj)).mp this
  rw [variance_random_modes μk μz meanU var hvar _ N hd Z1 Z2 hL1 hL2 h11 h22 h12 hint x]
  have : ∀ j ∈ range N, ∫ ω, proj (fun c j => R j ω * dir2 (A j ω) c j) 2 j d ^ 2 ∂μk
      = if d = 0 then 3 / 8 else 1 / 8 := by
    intro j hj
    simp only [hproj j (mem_range.mp hj)]
    exact hmean j (mem_range.mp hj)
  rw [sum_congr rfl this, sum_const, card_range, nsmul_eq_mul]
  have hN' : (N : ℝ) ≠ 0 := Nat.cast_ne_zero.mpr (by omega)
  field_simp

/-- the squared projector components on the sphere as polynomials in `cos a, sin a, w` -/
noncomputable def dir3sq (d : Nat) (a w : ℝ) : ℝ :=
  if d = 0 then 1 + (-2 * Real.cos a ^ 2 + Real.cos a ^ 4) + (2 * Real.cos a ^ 2 - 2 * Real.cos a ^ 4) * w ^ 2
      + Real.cos a ^ 4 * w ^ 4
  else if d = 1 then Real.sin a ^ 2 * Real.cos a ^ 2 + (-2 * (Real.sin a ^ 2 * Real.cos a ^ 2)) * w ^ 2
      + Real.sin a ^ 2 * Real.cos a ^ 2 * w ^ 4
  else 0 + Real.cos a ^ 2 * w ^ 2 + (-Real.cos a ^ 2) * w ^ 4

theorem proj_dir3_sq_eq (r a w : ℝ) (hr : r ≠ 0) (hw : w ∈ Set.uIcc (-1:ℝ) 1) (d : Nat) (hd : d < 3) :
    (proj (fun c j => r * dir3 a w c j) 3 0 d) ^ 2 = dir3sq d a w := by
  have h := proj_dir3_sq r a w hr hw
  unfold dir3sq
  interval_cases d
  · simpa using h.1
  · simpa using h.2.1
  · simpa using h.2.2

theorem dir3sq_avg (d : Nat) (hd : d < 3) :
    (1 / (4 * Real.pi)) * ∫ a in (0:ℝ)..(2 * Real.pi), ∫ w in (-1:ℝ)..1, dir3sq d a w
      = if d = 0 then 8 / 15 else 1 / 15 := by
  have h := variance_split_3d 1 one_ne_zero
  have e : ∀ a : ℝ, ∫ w in (-1:ℝ)..1, dir3sq d a w
      = ∫ w in (-1:ℝ)..1, (proj (fun c j => 1 * dir3 a w c j) 3 0 d) ^ 2 :=
    fun a => intervalIntegral.integral_congr fun w hw => (proj_dir3_sq_eq 1 a w one_ne_zero hw d hd).symm
  simp only [e]
  interval_cases d
  · simpa using h.1
  · simpa using h.2.1
  · simpa using h.2.2

/-- **variance split, 3-D, end to end**: wave vectors `k_j = R_j · (√(1−W_j²) cos A_j, √(1−W_j²) sin A_j, W_j)`
    (the sampler's construction) with non-zero radii and `(A_j, W_j)` uniform on `(0,2π] × (−1,1]`,
    amplitudes as in `variance_given_modes` on an independent space: the second moments of the three
    components of `u(x) − mean_u e1` are `mean_u² · var · (8/15, 1/15, 1/15)`. -/
theorem variance_split_3d_total {Ωk Ωz : Type} [MeasurableSpace Ωk] [MeasurableSpace Ωz]
    (μk : Measure Ωk) (μz : Measure Ωz)
    (meanU var : ℝ) (hvar : 0 ≤ var) (N : Nat) (hN : 0 < N)
    (R A W : Nat → Ωk → ℝ) (hR : ∀ j < N, ∀ ω, R j ω ≠ 0) (hW : ∀ j < N, ∀ ω, W j ω ∈ Set.Icc (-1:ℝ) 1)
    (hAW : ∀ j < N, AEMeasurable (fun ω => (A j ω, W j ω)) μk)
    (hlaw : ∀ j < N, μk.map (fun ω => (A j ω, W j ω)) = ENNReal.ofReal (1 / (4 * Real.pi)) •
      ((volume.restrict (Set.Ioc 0 (2 * Real.pi))).prod (volume.restrict (Set.Ioc (-1:ℝ) 1))))
    (Z1 Z2 : Nat → Ωz → ℝ)
    (hL1 : ∀ j < N, MemLp (Z1 j) 2 μz) (hL2 : ∀ j < N, MemLp (Z2 j) 2 μz)
    (h11 : ∀ i < N, ∀ j < N, ∫ ω, Z1 i ω * Z1 j ω ∂μz = if i = j then 1 else 0)
    (h22 : ∀ i < N, ∀ j < N, ∫ ω, Z2 i ω * Z2 j ω ∂μz = if i = j then 1 else 0)
    (h12 : ∀ i < N, ∀ j < N, ∫ ω, Z1 i ω * Z2 j ω ∂μz = 0) (x : Nat → ℝ) (d : Nat) (hd : d < 3) :
    ∫ ωk, ∫ ωz, (genField meanU var (fun c j => R j ωk * dir3 (A j ωk) (W j ωk) c j) (fun j => Z1 j ωz)
        (fun j => Z2 j ωz) 3 N d x - meanU * e1 d) ^ 2 ∂μz ∂μk
      = meanU ^ 2 * var * (if d = 0 then 8 / 15 else 1 / 15) := by
  have hpi : (0:ℝ) ≤ 2 * Real.pi := by positivity
  set g : ℝ × ℝ → ℝ := fun p => dir3sq d p.1 p.2 with hg
  have hgc : Continuous g := by
    simp only [hg, dir3sq]
    split_ifs <;> fun_prop
  have hproj : ∀ j < N, ∀ ω, proj (fun c j => R j ω * dir3 (A j ω) (W j ω) c j) 3 j d ^ 2 = g (A j ω, W j ω) := by
    intro j hj ω
    rw [proj_congr_col _ (fun c j' => R j ω * dir3 (A j ω) (W j ω) c j') 3 j 0 d (fun c => rfl)]
    have hw : W j ω ∈ Set.uIcc (-1:ℝ) 1 := by rw [Set.uIcc_of_le (by norm_num)]; exact hW j hj ω
    exact proj_dir3_sq_eq _ _ _ (hR j hj ω) hw d hd
  have hgi : Integrable g ((volume.restrict (Set.Ioc 0 (2 * Real.pi))).prod (volume.restrict (Set.Ioc (-1:ℝ) 1))) := by
    rw [Measure.prod_restrict]
    have : IntegrableOn g (Set.Icc 0 (2 * Real.pi) ×ˢ Set.Icc (-1:ℝ) 1) ((volume : Measure ℝ).prod (volume : Measure ℝ)) :=
      hgc.continuousOn.integrableOn_compact (isCompact_Icc.prod isCompact_Icc)
    exact this.mono_set (Set.prod_mono Set.Ioc_subset_Icc_self Set.Ioc_subset_Icc_self)
  have hmean : ∀ j < N, ∫ ω, g (A j ω, W j ω) ∂μk = if d = 0 then 8 / 15 else 1 / 15 := by
    intro j hj
    rw [← integral_map (hAW j hj) hgc.aestronglyMeasurable, hlaw j hj, integral_smul_measure,
      integral_prod g hgi, ENNReal.toReal_ofReal (by positivity)]
    simp only [hg]
    have e : ∀ a : ℝ, ∫ w in Set.Ioc (-1:ℝ) 1, dir3sq d a w = ∫ w in (-1:ℝ)..1, dir3sq d a w :=
      fun a => (intervalIntegral.integral_of_le (by norm_num)).symm
    simp only [e]
    rw [← intervalIntegral.integral_of_le hpi, smul_eq_mul]
    exact dir3sq_avg d hd
  have hint : ∀ j < N, Integrable (fun ω => proj (fun c j => R j ω * dir3 (A j ω) (W j ω) c j) 3 j d ^ 2) μk := by
    intro j hj
    simp only [hproj j hj]
    have : Integrable g (μk.map (fun ω => (A j ω, W j ω))) := by
      rw [hlaw j hj]
      exact hgi.smul_measure ENNReal.ofReal_ne_top
    exact (integrable_map_measure hgc.aestronglyMeasurable (hAW j hj)).mp this
  rw [variance_random_modes μk μz meanU var hvar _ N hd Z1 Z2 hL1 hL2 h11 h22 h12 hint x]
  have : ∀ j ∈ range N, ∫ ω, proj (fun c j => R j ω * dir3 (A j ω) (W j ω) c j) 3 j d ^ 2 ∂μk
      = if d = 0 then 8 / 15 else 1 / 15 := by
    intro j hj
    simp only [hproj j (mem_range.mp hj)]
    exact hmean j (mem_range.mp hj)
  rw [sum_congr rfl this, sum_const, card_range, nsmul_eq_mul]
  have hN' : (N : ℝ) ≠ 0 := Nat.cast_ne_zero.mpr (by omega)
  field_simp

/-! ### objects reached through histories: the shape invariant, and why it is needed

`RandMeth.update`, `reset_seed` and the `seed` / `mode_no` setters keep one `IncomprRandMeth` object alive across
model replacements (3-D → 2-D and back), in-place model edits, new seeds and new mode numbers.  `__call__` hands
`_cov_sample` (`rows × N`) and the positions (`dim × X`) to the kernel, which takes `|k|²` over the `rows` rows of the
mode array but builds the phase and the projector over the `dim` rows of the positions.  The theorems above are about
`rows = dim`; here the kernel is analysed for arbitrary `rows`, the bookkeeping of `update` is modelled, and the
invariant `rows = model.dim`, `len z = mode_no` is proved for every operation history (the correspondence checks the
same invariant on the real objects it drives through random histories). -/

/-- the kernel's output when the mode array has `rows` rows and the positions have `dim` rows -/
noncomputable def kernelFieldRows (k : Nat → Nat → ℝ) (z1 z2 : Nat → ℝ) (rows dim N d : Nat) (x : Nat → ℝ) : ℝ :=
  summate_incompr k rows N z1 N z2 N (fun d' _ => x d') dim 1 d 0

theorem kernelFieldRows_self (k : Nat → Nat → ℝ) (z1 z2 : Nat → ℝ) (dim N d : Nat) (x : Nat → ℝ) :
    kernelFieldRows k z1 z2 dim dim N d x = kernelField k z1 z2 dim N d x := rfl

/-- the projector the kernel builds from a `rows`-row mode array: `|k|²` runs over all `rows` rows -/
noncomputable def projRows (k : Nat → Nat → ℝ) (rows j d : Nat) : ℝ :=
  e1 d - k d j * k 0 j / absSq k rows j

/-- the kernel's output for an arbitrary number of mode rows (pure unfolding of the generated definition) -/
theorem kernelFieldRows_eq_sum (k : Nat → Nat → ℝ) (z1 z2 : Nat → ℝ) {dim d : Nat} (rows N : Nat) (hd : d < dim)
    (x : Nat → ℝ) :
    kernelFieldRows k z1 z2 rows dim N d x =
      ∑ j ∈ range N, projRows k rows j d *
        (z1 j * Real.cos (phase k dim j x) + z2 j * Real.sin (phase k dim j x)) := by
  unfold kernelFieldRows projRows phase
  rw [summate_incompr_spec, if_pos ⟨hd, Nat.one_pos⟩, incomprCell_real]
  simp only [phaseOf_real]

/-- contraction of that projector with the `dim` components of the wave vector that enter the phase:
    `k_0 (1 − |k|²_dim / |k|²_rows)` — zero for `rows = dim`, not otherwise -/
theorem projRows_contract (k : Nat → Nat → ℝ) {dim : Nat} (rows j : Nat) (hdim : 0 < dim) :
    ∑ d ∈ range dim, projRows k rows j d * k d j = k 0 j * (1 - absSq k dim j / absSq k rows j) := by
  unfold projRows
  have h1 : ∑ d ∈ range dim, (e1 d - k d j * k 0 j / absSq k rows j) * k d j
      = ∑ d ∈ range dim, (e1 d : ℝ) * k d j - k 0 j / absSq k rows j * ∑ d ∈ range dim, (k d j) ^ 2 := by
    rw [mul_sum, ← sum_sub_distrib]
    refine sum_congr rfl fun d _ => ?_
    ring
  rw [h1, sum_e1_mul (fun d => k d j) hdim, ← absSq_real]
  ring

theorem partialRows_hasDerivAt (k : Nat → Nat → ℝ) (z1 z2 : Nat → ℝ) {dim d c : Nat} (rows N : Nat)
    (hd : d < dim) (hc : c < dim) (x : Nat → ℝ) :
    HasDerivAt (fun t => kernelFieldRows k z1 z2 rows dim N d (Function.update x c t))
      (∑ j ∈ range N, projRows k rows j d *
        (z2 j * Real.cos (phase k dim j x) - z1 j * Real.sin (phase k dim j x)) * k c j) (x c) := by
  have hfun : (fun t => kernelFieldRows k z1 z2 rows dim N d (Function.update x c t)) =
      fun t => ∑ j ∈ range N, projRows k rows j d *
        (z1 j * Real.cos (phase k dim j (Function.update x c t)) +
         z2 j * Real.sin (phase k dim j (Function.update x c t))) := by
    funext t; exact kernelFieldRows_eq_sum k z1 z2 rows N hd _
  rw [hfun]
  have hx : ∀ j, phase k dim j x = phase k dim j (Function.update x c (x c)) := by
    intro j; rw [Function.update_eq_self]
  simp only [hx]
  refine HasDerivAt.fun_sum fun j _ => ?_
  exact hasDerivAt_mode _ _ _ (hasDerivAt_phase (fun d' => k d' j) x hc (x c))

/-- the divergence the kernel's field has when the mode array has `rows` rows -/
noncomputable def divRows (k : Nat → Nat → ℝ) (z1 z2 : Nat → ℝ) (rows dim N : Nat) (x : Nat → ℝ) : ℝ :=
  ∑ j ∈ range N, (z2 j * Real.cos (phase k dim j x) - z1 j * Real.sin (phase k dim j x)) *
    (k 0 j * (1 - absSq k dim j / absSq k rows j))

/-- **divergence for arbitrary mode-array shape**: `Σ_d ∂_d u_d = Σ_j (z₂ cos φ_j − z₁ sin φ_j) k_0j (1 − |k_j|²_dim/|k_j|²_rows)` -/
theorem divergence_rows (k : Nat → Nat → ℝ) (z1 z2 : Nat → ℝ) {dim : Nat} (rows N : Nat) (hdim : 0 < dim)
    (x : Nat → ℝ) :
    ∑ d ∈ range dim, deriv (fun t => kernelFieldRows k z1 z2 rows dim N d (Function.update x d t)) (x d)
      = divRows k z1 z2 rows dim N x := by
  rw [sum_congr rfl fun d hd =>
    (partialRows_hasDerivAt k z1 z2 rows N (mem_range.mp hd) (mem_range.mp hd) x).deriv]
  unfold divRows
  rw [sum_comm]
  refine sum_congr rfl fun j _ => ?_
  rw [← projRows_contract k rows j hdim, mul_sum]
  exact sum_congr rfl fun d _ => by ring

/-- **why the invariant is needed**: a 3-row mode array (modes sampled for a 3-D model) used for a 2-D field gives a
    field that is not divergence-free, although every wave vector is non-zero in both senses -/
theorem stale_rows_not_divergence_free :
    ∃ (k : Nat → Nat → ℝ) (z1 z2 : Nat → ℝ) (x : Nat → ℝ),
      (∀ j < 1, absSq k 3 j ≠ 0) ∧ (∀ j < 1, absSq k 2 j ≠ 0) ∧
      ∑ d ∈ range 2, deriv (fun t => kernelFieldRows k z1 z2 3 2 1 d (Function.update x d t)) (x d) ≠ 0 := by
  refine ⟨fun d _ => if d = 1 then 0 else 1, fun _ => 0, fun _ => 1, fun _ => 0, ?_, ?_, ?_⟩
  · intro j _; rw [absSq_real]; norm_num [sum_range_succ]
  · intro j _; rw [absSq_real]; norm_num [sum_range_succ]
  · rw [divergence_rows _ _ _ 3 1 (by norm_num)]
    unfold divRows phase
    simp only [absSq_real]
    norm_num [sum_range_succ]

/-- shapes held by one `IncomprRandMeth` object -/
structure GenShape where
  /-- `model.dim` of the generator's private model copy -/
  dim : Nat
  /-- `_mode_no` -/
  modeNo : Nat
  /-- number of rows of `_cov_sample` -/
  rows : Nat
  /-- length of `_z_1` and `_z_2` (= number of columns of `_cov_sample`) -/
  nz : Nat
deriving DecidableEq, Repr

/-- the operations that can reach the generator (directly or through `SRF.__call__`, which calls
    `generator.update(srf.model, seed)`) -/
inductive GenOp where
  /-- `update(model, seed)`: `differs` = `self.model != model`, `dim` = `model.dim`,
      `reseed` = a seed was given and is not the present one -/
  | update (differs : Bool) (dim : Nat) (reseed : Bool)
  /-- `generator.seed = s`; `differs` = `s != self._seed` -/
  | setSeed (differs : Bool)
  /-- `generator.mode_no = n` -/
  | setModeNo (n : Nat)
  /-- `generator.reset_seed(…)` -/
  | resetSeed
  /-- `generator.mean_u = v` -/
  | setMeanU
  /-- `generator(pos)` -/
  | call
deriving DecidableEq, Repr

/-- `reset_seed`: amplitudes get `mode_no` entries, `sample_sphere(model.dim, mode_no)` gets `model.dim` rows -/
def GenShape.resample (s : GenShape) : GenShape := { s with rows := s.dim, nz := s.modeNo }

def GenShape.step (s : GenShape) : GenOp → GenShape
  | .update true d _ => GenShape.resample { s with dim := d }
  | .update false _ reseed => if reseed then s.resample else s
  | .setSeed differs => if differs then s.resample else s
  | .setModeNo n => if n ≠ s.modeNo then GenShape.resample { s with modeNo := n } else s
  | .resetSeed => s.resample
  | .setMeanU => s
  | .call => s

/-- a freshly constructed generator -/
def GenShape.init (dim modeNo : Nat) : GenShape := { dim, modeNo, rows := dim, nz := modeNo }

/-- the invariant `__call__` relies on -/
def GenShape.ok (s : GenShape) : Prop := s.rows = s.dim ∧ s.nz = s.modeNo

theorem GenShape.step_ok (s : GenShape) (op : GenOp) (h : s.ok) : (s.step op).ok := by
  cases op with
  | update differs d reseed =>
    cases differs
    · cases reseed <;> simp [GenShape.step, GenShape.resample, GenShape.ok, h.1, h.2]
    · simp [GenShape.step, GenShape.resample, GenShape.ok]
  | setSeed differs => cases differs <;> simp [GenShape.step, GenShape.resample, GenShape.ok, h.1, h.2]
  | setModeNo n =>
    by_cases hn : n = s.modeNo
    · simp [GenShape.step, hn, h]
    · simp [GenShape.step, hn, GenShape.resample, GenShape.ok]
  | resetSeed => simp [GenShape.step, GenShape.resample, GenShape.ok]
  | setMeanU => exact h
  | call => exact h

/-- **shape invariant**: after every history of operations on one generator object the mode array has `model.dim` rows
    and the amplitude arrays have `mode_no` entries -/
theorem shape_invariant (dim modeNo : Nat) (ops : List GenOp) :
    (ops.foldl GenShape.step (GenShape.init dim modeNo)).ok := by
  have : ∀ (ops : List GenOp) (s : GenShape), s.ok → (ops.foldl GenShape.step s).ok := by
    intro ops
    induction ops with
    | nil => intro s h; exact h
    | cons op ops ih => intro s h; exact ih _ (s.step_ok op h)
  exact this ops _ ⟨rfl, rfl⟩

/-- a history with a dimension change 3 → 2 → 3, a mode-number change and kept seeds -/
example : [GenOp.call, .update true 2 false, .call, .setModeNo 7, .update true 3 false, .setMeanU, .call].foldl
    GenShape.step (GenShape.init 3 16) = { dim := 3, modeNo := 7, rows := 3, nz := 7 } := by decide

/-- what the invariant excludes: an `update` that keeps the sampled modes when the model is replaced by one of a
    lower dimension (a "cross-section of an isotropic field" shortcut) leaves a 3-row mode array in a 2-D generator -/
example : ¬ GenShape.ok ({ (GenShape.init 3 16) with dim := 2 }) := by
  simp [GenShape.ok, GenShape.init]

/-- `IncomprRandMeth.__call__` for the arrays a generator in shape `s` holds -/
noncomputable def genFieldShape (s : GenShape) (meanU var : ℝ) (k : Nat → Nat → ℝ) (z1 z2 : Nat → ℝ) (d : Nat)
    (x : Nat → ℝ) : ℝ :=
  meanU * e1 d + meanU * Real.sqrt (var / (s.modeNo : ℝ)) * kernelFieldRows k z1 z2 s.rows s.dim s.nz d x

theorem genFieldShape_of_ok (s : GenShape) (h : s.ok) (meanU var : ℝ) (k : Nat → Nat → ℝ) (z1 z2 : Nat → ℝ) (d : Nat)
    (x : Nat → ℝ) :
    genFieldShape s meanU var k z1 z2 d x = genField meanU var k z1 z2 s.dim s.modeNo d x := by
  unfold genFieldShape genField
  rw [h.1, h.2, kernelFieldRows_self]

/-- **every field generated along a history is divergence-free**: whatever sequence of model replacements (including
    dimension changes), seed and mode-number changes led to the generator's present state, the field `__call__`
    produces from arrays of the shapes it then holds has vanishing divergence (non-zero wave vectors) -/
theorem history_divergence_free (dim0 modeNo0 : Nat) (ops : List GenOp) (meanU var : ℝ) (k : Nat → Nat → ℝ)
    (z1 z2 : Nat → ℝ) (x : Nat → ℝ)
    (hdim : 0 < (ops.foldl GenShape.step (GenShape.init dim0 modeNo0)).dim)
    (hk : ∀ j < (ops.foldl GenShape.step (GenShape.init dim0 modeNo0)).modeNo,
      absSq k (ops.foldl GenShape.step (GenShape.init dim0 modeNo0)).dim j ≠ 0) :
    ∑ d ∈ range (ops.foldl GenShape.step (GenShape.init dim0 modeNo0)).dim,
      deriv (fun t => genFieldShape (ops.foldl GenShape.step (GenShape.init dim0 modeNo0)) meanU var k z1 z2 d
        (Function.update x d t)) (x d) = 0 := by
  have hs := shape_invariant dim0 modeNo0 ops
  simp only [genFieldShape_of_ok _ hs]
  exact (genField_divergence_free meanU var k z1 z2 _ hdim hk x).2

/-- the hypotheses of `history_divergence_free` are satisfiable after a 3-D → 2-D replacement -/
example : 0 < ([GenOp.update true 2 false].foldl GenShape.step (GenShape.init 3 5)).dim ∧
    ∀ j < ([GenOp.update true 2 false].foldl GenShape.step (GenShape.init 3 5)).modeNo,
      absSq (fun d j => (j : ℝ) + 1 + d) ([GenOp.update true 2 false].foldl GenShape.step (GenShape.init 3 5)).dim j ≠ 0 := by
  refine ⟨by decide, fun j _ => ?_⟩
  rw [absSq_ne_zero_iff]
  exact ⟨0, by decide, by positivity⟩

end GSV.Props.C16
